(** TIE "tensorbuild", validation: the checks of the regenerated allocate_taco_structure /
    taco_structure_to_cffi (compile/_cffi_ownership.py) accept exactly what [validate] of
    model/TensorBuild.v accepts. *)
From Coq Require Import ZArith List Bool Lia.
From TV Require Import spec.PyBase spec.PyLib spec.Storage model.TensorBuild model.TensorBuildPy
  proofs.StorageLemmas proofs.TensorBuildLemmas proofs.PyLibFacts proofs.GenTensorBuild_lib
  proofs.GenTensorBuild_tree proofs.GenTensorBuild_emit proofs.GenTensorBuild_build proofs.GenTensorBuild_items.
From TV Require gen.TensorBuildGen.
Module G := TensorBuildGen.
Import ListNotations.
Open Scope Z_scope.

Definition cint (l : level) : Z := G.Mode_c_int (gmode l).

(** ** check loops *)
Lemma rfold_check {A} (f : unit -> A -> R unit) (bad : A -> bool) l :
  (forall u x, f u x = if bad x then Exc else Val tt) ->
  rfold f l tt = if forallb (fun x => negb (bad x)) l then Val tt else Exc.
Proof.
  intros H. induction l as [|x l IH]; cbn; [reflexivity|]. rewrite H.
  destruct (bad x); cbn; [reflexivity|]. exact IH.
Qed.

Lemma bool_eq_iff (a b : bool) : (a = true <-> b = true) -> a = b.
Proof. destruct a, b; intros [H1 H2]; auto; try (symmetry; auto). Qed.

Lemma existsb_Zeqb_In x l : existsb (Z.eqb x) l = true <-> In x l.
Proof.
  rewrite existsb_exists. split.
  - intros (y & Hy & E). apply Z.eqb_eq in E. now subst.
  - intros H. exists x. split; [assumption|apply Z.eqb_refl].
Qed.

Lemma zset_distinct_range ord n :
  zset_eqb (map Z.of_nat ord) (zrange (Z.of_nat n)) = all_distinct_range ord n.
Proof.
  unfold zset_eqb, all_distinct_range. rewrite andb_comm. f_equal.
  - apply bool_eq_iff. rewrite !forallb_forall. split.
    + intros H k Hk. apply existsb_exists. apply in_seq in Hk.
      specialize (H (Z.of_nat k)). rewrite In_zrange, existsb_Zeqb_In, in_map_iff in H.
      destruct (H ltac:(lia)) as (y & Ey & Hy). exists y. split; [assumption|]. apply Nat.eqb_eq. lia.
    + intros H z Hz. apply In_zrange in Hz. apply existsb_Zeqb_In, in_map_iff.
      specialize (H (Z.to_nat z)). rewrite in_seq, existsb_exists in H.
      destruct (H ltac:(lia)) as (y & Hy & E). apply Nat.eqb_eq in E. exists y. split; [lia|assumption].
  - apply bool_eq_iff. rewrite !forallb_forall. split.
    + intros H x Hx. specialize (H (Z.of_nat x) (in_map _ _ _ Hx)).
      apply existsb_Zeqb_In, In_zrange in H. apply Nat.ltb_lt. lia.
    + intros H z Hz. apply in_map_iff in Hz. destruct Hz as (x & <- & Hx).
      apply existsb_Zeqb_In, In_zrange. specialize (H x Hx). apply Nat.ltb_lt in H. lia.
Qed.

Lemma Zlen_eqb (a b : nat) : (Z.of_nat a =? Z.of_nat b) = (a =? b)%nat.
Proof. apply bool_eq_iff. rewrite Z.eqb_eq, Nat.eqb_eq. lia. Qed.

Lemma alloc_ok (t : tensor Z) :
  G.allocate_taco_structure Z 0 Z.add Z.eqb (map cint (levels t)) (dims t) (map Z.of_nat (ordering t))
  = if validate_shape t then Val tt else Exc.
Proof.
  unfold G.allocate_taco_structure, validate_shape. rewrite !map_length, !Zlen_eqb.
  destruct ((length (levels t) =? length (dims t))%nat && (length (dims t) =? length (ordering t))%nat);
    cbn [negb rbind andb]; [|reflexivity].
  rewrite (rfold_check _ (fun m => negb (py_in Z.eqb m [0; 1]))) by (intros; now destruct (negb _)).
  replace (forallb _ (map cint (levels t))) with true.
  2:{ symmetry. apply forallb_forall. intros m Hm. apply in_map_iff in Hm. destruct Hm as (l & <- & _).
      destruct l; reflexivity. }
  cbn [rbind].
  rewrite (rfold_check _ (fun d => d <? 0)) by (intros; now destruct (_ <? _)).
  replace (forallb (fun x => negb (x <? 0)) (dims t)) with (forallb (fun d => 0 <=? d) (dims t)).
  2:{ induction (dims t) as [|d l IH]; cbn; [reflexivity|]. now rewrite Z.leb_antisym, IH. }
  destruct (forallb (fun d => 0 <=? d) (dims t)); cbn [rbind andb]; [|reflexivity].
  rewrite zset_distinct_range. destruct (all_distinct_range _ _); reflexivity.
Qed.

(** ** one level *)
Lemma weak_pairwise pos : forallb (fun '(x, y) => x <=? y) (py_pairwise pos) = weakly_increasing pos.
Proof.
  induction pos as [|a pos IH]; [reflexivity|]. destruct pos as [|b pos]; [reflexivity|].
  change (py_pairwise (a :: b :: pos)) with ((a, b) :: py_pairwise (b :: pos)).
  change (weakly_increasing (a :: b :: pos)) with ((a <=? b) && weakly_increasing (b :: pos)).
  cbn [forallb]. now rewrite IH.
Qed.

Lemma r_getitem_m1 {A} (l : list A) d : l <> [] -> r_getitem l (-1) = Val (last l d).
Proof.
  intros H. destruct (exists_last H) as (l' & x & ->). now rewrite r_getitem_last, last_last.
Qed.

Lemma rall_crd ordZ dims i o d crd :
  r_getitem ordZ i = Val o -> r_getitem dims o = Val d ->
  rall (fun x : Z => if 0 <=? x
                     then rbind (r_getitem ordZ i) (fun t16 => rbind (r_getitem dims t16) (fun t17 => Val (x <? t17)))
                     else Val false) crd
  = Val (forallb (fun x => (0 <=? x) && (x <? d)) crd).
Proof.
  intros H1 H2. rewrite H1. cbn [rbind]. rewrite H2. cbn [rbind].
  induction crd as [|x crd IH]; cbn [rall forallb]; [reflexivity|].
  destruct (0 <=? x); cbn [rbind andb]; [|reflexivity].
  destruct (x <? d); cbn [andb]; [exact IH|reflexivity].
Qed.

Definition step (l : level) (d nnz : Z) : R Z :=
  match l with
  | LDense => Val (nnz * d)
  | LCompressed pos crd =>
      if (zlen pos =? nnz + 1) && (nthZ (-1) pos 0 =? 0) && weakly_increasing pos
         && (zlen crd =? last pos (-1)) && forallb (fun x => (0 <=? x) && (x <? d)) crd
      then Val (zlen crd) else Exc
  end.

Lemma loop_ok (F : Z -> Z -> R Z) (all : list (level * Z)) :
  (forall pre l d post nnz, all = pre ++ (l, d) :: post -> F nnz (Z.of_nat (length pre)) = step l d nnz) ->
  forall lvr pre nnz, all = pre ++ lvr ->
  rfold F (map Z.of_nat (seq (length pre) (length lvr))) nnz
  = match validate_levels lvr nnz with Some k => Val k | None => Exc end.
Proof.
  intros HF. induction lvr as [|[l d] lvr IH]; intros pre nnz Hall; [reflexivity|].
  cbn [length seq map rfold]. rewrite (HF pre l d lvr nnz Hall).
  assert (Hall' : all = (pre ++ [(l, d)]) ++ lvr) by (now rewrite <- app_assoc).
  specialize (IH (pre ++ [(l, d)])). rewrite app_length in IH. cbn [length] in IH.
  replace (length pre + 1)%nat with (S (length pre)) in IH by lia.
  destruct l as [|pos crd]; cbn [step validate_levels rbind].
  - now apply IH.
  - destruct (_ && _); cbn [rbind]; [now apply IH|reflexivity].
Qed.

Definition stored (t : tensor Z) : list (list (list Z)) * list Z * list Z * list Z * list Z :=
  (indices_of (levels t), vals t, map cint (levels t), dims t, map Z.of_nat (ordering t)).

Theorem gen_validate_ok (t : tensor Z) :
  G.taco_structure_to_cffi Z 0 Z.add Z.eqb (indices_of (levels t)) (vals t) (map cint (levels t)) (dims t)
    (map Z.of_nat (ordering t))
  = if validate t then Val (stored t) else Exc.
Proof.
  unfold G.taco_structure_to_cffi, validate. rewrite alloc_ok.
  destruct (validate_shape t) eqn:Hs; cbn [rbind andb]; [|reflexivity].
  unfold indices_of at 1. rewrite !map_length, Z.eqb_refl. cbn [negb rbind]. cbv zeta.
  unfold validate_shape in Hs. repeat (apply andb_true_iff in Hs; destruct Hs as [Hs ?]).
  apply Nat.eqb_eq in Hs.
  match goal with X : (length (dims t) =? length (ordering t))%nat = true |- _ => apply Nat.eqb_eq in X; rename X into Hdo end.
  match goal with X : all_distinct_range _ _ = true |- _ => rename X into Hr end.
  unfold all_distinct_range in Hr. apply andb_true_iff in Hr. destruct Hr as [_ Hr]. rewrite forallb_forall in Hr.
  set (all := combine (levels t) (level_dims t)).
  assert (Hll : length (levels t) = length (level_dims t)) by (unfold level_dims; rewrite map_length; lia).
  match goal with |- context [rfold ?f _ 1] => set (F := f) end.
  assert (HF : forall pre l d post nnz, all = pre ++ (l, d) :: post -> F nnz (Z.of_nat (length pre)) = step l d nnz).
  { intros pre l d post nnz Hall.
    assert (Hlv : levels t = map fst pre ++ l :: map fst post).
    { rewrite <- (combine_map_fst (levels t) (level_dims t) Hll). fold all. rewrite Hall, map_app. reflexivity. }
    assert (Hld : level_dims t = map snd pre ++ d :: map snd post).
    { rewrite <- (combine_map_snd (levels t) (level_dims t) Hll). fold all. rewrite Hall, map_app. reflexivity. }
    assert (Hlt : (length pre < length (ordering t))%nat).
    { rewrite <- Hdo, <- Hs, Hlv, app_length, map_length. cbn [length]. lia. }
    set (o := nth (length pre) (ordering t) O).
    assert (Ho : r_getitem (map Z.of_nat (ordering t)) (Z.of_nat (length pre)) = Val (Z.of_nat o)).
    { rewrite r_getitem_nat, nth_error_map.
      destruct (nth_error (ordering t) (length pre)) eqn:E; [|apply nth_error_None in E; lia].
      cbn. f_equal. f_equal. unfold o. symmetry. now apply nth_error_nth. }
    assert (Hod : r_getitem (dims t) (Z.of_nat o) = Val d).
    { rewrite r_getitem_nat.
      assert (Hol : (o < length (dims t))%nat).
      { specialize (Hr o (nth_In _ _ Hlt)). apply Nat.ltb_lt in Hr. lia. }
      destruct (nth_error (dims t) o) eqn:E; [|apply nth_error_None in E; lia].
      cbn. f_equal. apply (nth_error_nth _ _ 0) in E.
      assert (Hd : nth (length pre) (level_dims t) 0 = d).
      { rewrite Hld, app_nth2, map_length, Nat.sub_diag by (rewrite map_length; lia). reflexivity. }
      rewrite <- Hd. unfold level_dims. rewrite (nth_map_lt _ _ _ 0 O) by assumption. fold o. now rewrite E. }
    assert (Hmp : length (map cint (map fst pre)) = length pre) by (now rewrite !map_length).
    assert (Hip : length (indices_of (map fst pre)) = length pre) by (unfold indices_of; now rewrite !map_length).
    assert (Hix : forall a l b, indices_of (a ++ l :: b) = indices_of a ++ indices_of [l] ++ indices_of b).
    { intros. unfold indices_of. now rewrite map_app. }
    unfold F. cbv beta.
    rewrite Hlv, Hix, map_app. cbn [map].
    rewrite !(r_getitem_at (map cint (map fst pre)) _ _ _ Hmp).
    cbn [rbind].
    destruct l as [|pos crd]; cbn [cint gmode mode_of_level gm G.Mode_c_int Z.eqb step].
    - change (indices_of [LDense]) with [@nil (list Z)]. cbn [app].
      rewrite !(r_getitem_at (indices_of (map fst pre)) _ _ _ Hip). cbn [rbind length Z.of_nat Z.eqb negb].
      rewrite Ho. cbn [rbind]. rewrite Hod. reflexivity.
    - change (indices_of [LCompressed pos crd]) with [[pos; crd]]. cbn [app].
      rewrite !(r_getitem_at (indices_of (map fst pre)) _ _ _ Hip). cbn [rbind].
      change (negb (Z.of_nat (length [pos; crd]) =? 2)) with false. cbn [rbind].
      rewrite !r_getitem_2_0, !r_getitem_2_1. cbn [rbind].
      fold (zlen pos). fold (zlen crd).
      destruct (zlen pos =? nnz + 1) eqn:E1; cbn [negb rbind andb]; [|reflexivity].
      destruct pos as [|a pos]; [reflexivity|].
      change (r_getitem (a :: pos) 0) with (Val a). change (nthZ (-1) (a :: pos) 0) with a. cbn [rbind].
      destruct (a =? 0) eqn:E2; cbn [negb rbind andb]; [|reflexivity].
      unfold G.weakly_increasing. cbn [rbind]. rewrite weak_pairwise.
      destruct (weakly_increasing (a :: pos)) eqn:E3; cbn [negb rbind andb]; [|reflexivity].
      rewrite (r_getitem_m1 (a :: pos) (-1)) by discriminate. cbn [rbind].
      destruct (zlen crd =? last (a :: pos) (-1)) eqn:E4; cbn [negb rbind andb]; [|reflexivity].
      rewrite (rall_crd _ _ _ _ d crd Ho Hod). cbn [rbind].
      destruct (forallb _ crd); reflexivity. }
  pose proof (loop_ok F all HF all [] 1 eq_refl) as X. cbn [length] in X.
  assert (Hlen : length all = length (levels t)) by (unfold all; rewrite combine_length; lia).
  rewrite Hlen in X. rewrite zrange_of_nat, X.
  destruct (validate_levels all 1) as [k|]; cbn [rbind]; [|reflexivity].
  fold (zlen (vals t)). destruct (zlen (vals t) =? k); reflexivity.
Qed.
