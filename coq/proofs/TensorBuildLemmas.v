(** Lemmas about the building blocks of model/TensorBuild.v: [list_eqb], [select], [keys],
    [leaf_value], [offsets] and indexing into concatenations.  Axiom-free. *)

From Coq Require Import ZArith List Bool Lia ZifyBool Permutation Arith.
From TV Require Import spec.Storage model.TensorBuild proofs.StorageLemmas.
Import ListNotations.
Open Scope Z_scope.

(** * list_eqb *)

Lemma list_eqb_eq a b : list_eqb a b = true <-> a = b.
Proof.
  revert b. induction a as [|x a IH]; intros [|y b]; cbn [list_eqb]; try (split; congruence).
  rewrite andb_true_iff, IH. split.
  - intros [H ->]. f_equal. lia.
  - intros H. inversion H; subst. split; [lia|reflexivity].
Qed.

Lemma list_eqb_refl a : list_eqb a a = true.
Proof. now apply list_eqb_eq. Qed.

Lemma list_eqb_neq a b : list_eqb a b = false <-> a <> b.
Proof.
  split.
  - intros H E. apply list_eqb_eq in E. congruence.
  - intros H. destruct (list_eqb a b) eqn:E; [|reflexivity]. apply list_eqb_eq in E. contradiction.
Qed.

(** * strictly_increasing *)

Lemma si_cons a l :
  strictly_increasing (a :: l) = true <-> (forall x, In x l -> a < x) /\ strictly_increasing l = true.
Proof.
  revert a. induction l as [|b l IH]; intros a.
  - cbn. split; [intros _; split; [intros x []|reflexivity]|reflexivity].
  - change (strictly_increasing (a :: b :: l)) with ((a <? b) && strictly_increasing (b :: l)).
    rewrite andb_true_iff. split.
    + intros [H1 H2]. split; [|exact H2]. intros x [<-|Hx]; [lia|].
      apply IH in H2. destruct H2 as [H2 _]. specialize (H2 x Hx). lia.
    + intros [H1 H2]. split; [|exact H2]. specialize (H1 b (or_introl eq_refl)). lia.
Qed.

Lemma si_NoDup l : strictly_increasing l = true -> NoDup l.
Proof.
  induction l as [|a l IH]; intros H; [constructor|].
  apply si_cons in H. destruct H as [H1 H2]. constructor; [|now apply IH].
  intros Hin. specialize (H1 a Hin). lia.
Qed.

(** * insert_sorted / keys / heads *)

Lemma insert_sorted_In k x l : In x (insert_sorted k l) <-> x = k \/ In x l.
Proof.
  induction l as [|h t IH]; cbn [insert_sorted].
  - cbn. intuition.
  - destruct (k <? h) eqn:E1; [cbn; intuition|].
    destruct (k =? h) eqn:E2.
    + assert (k = h) by lia. subst. cbn. intuition.
    + cbn [In]. rewrite IH. intuition.
Qed.

Lemma insert_sorted_si k l :
  strictly_increasing l = true -> strictly_increasing (insert_sorted k l) = true.
Proof.
  induction l as [|h t IH]; intros H; cbn [insert_sorted]; [reflexivity|].
  destruct (k <? h) eqn:E1.
  - apply si_cons. split; [|exact H]. apply si_cons in H. destruct H as [H1 _].
    intros x [<-|Hx]; [lia|]. specialize (H1 x Hx). lia.
  - destruct (k =? h) eqn:E2; [exact H|].
    apply si_cons in H. destruct H as [H1 H2]. apply si_cons. split; [|now apply IH].
    intros x Hx. apply insert_sorted_In in Hx. destruct Hx as [->|Hx]; [lia|now apply H1].
Qed.

Lemma keys_In x nd : In x (keys nd) <-> In x (heads nd).
Proof.
  unfold keys. induction (heads nd) as [|h t IH]; cbn [fold_right]; [reflexivity|].
  rewrite insert_sorted_In, IH. cbn. intuition.
Qed.

Lemma keys_si nd : strictly_increasing (keys nd) = true.
Proof.
  unfold keys. induction (heads nd) as [|h t IH]; cbn [fold_right]; [reflexivity|].
  now apply insert_sorted_si.
Qed.

Lemma keys_NoDup nd : NoDup (keys nd).
Proof. apply si_NoDup, keys_si. Qed.

Lemma heads_In h nd : In h (heads nd) <-> exists t v, In (h :: t, v) nd.
Proof.
  unfold heads. rewrite in_flat_map. split.
  - intros ([c v] & Hin & Hh). cbn [fst] in Hh. destruct c as [|h' t]; [destruct Hh|].
    destruct Hh as [->|[]]. now exists t, v.
  - intros (t & v & Hin). exists (h :: t, v). split; [assumption|]. cbn. now left.
Qed.

(** * select *)

Lemma select_In k nd t v : In (t, v) (select k nd) <-> In (k :: t, v) nd.
Proof.
  induction nd as [|[c w] nd IH]; cbn [select]; [reflexivity|].
  destruct c as [|h c].
  - rewrite IH. cbn [In]. split; [now right|]. intros [H|H]; [discriminate|assumption].
  - destruct (h =? k) eqn:E.
    + assert (h = k) by lia. subst. cbn [In]. rewrite IH. split.
      * intros [H|H]; [left; inversion H; reflexivity|now right].
      * intros [H|H]; [left; inversion H; reflexivity|now right].
    + rewrite IH. cbn [In]. split; [now right|].
      intros [H|H]; [inversion H; lia|assumption].
Qed.

(** * the sum of the values supplied at a coordinate *)

Fixpoint sum_at (c : list Z) (es : list entry) : Z :=
  match es with
  | [] => 0
  | (c', v) :: r => (if list_eqb c' c then v else 0) + sum_at c r
  end.

Lemma sum_at_select k c nd : sum_at (k :: c) nd = sum_at c (select k nd).
Proof.
  induction nd as [|[c' w] nd IH]; [reflexivity|].
  cbn [sum_at select]. destruct c' as [|h c'].
  - cbn [list_eqb]. rewrite IH. lia.
  - cbn [list_eqb]. destruct (h =? k) eqn:E; cbn [andb sum_at]; rewrite IH; reflexivity.
Qed.

Lemma sum_at_nonzero_In c es : sum_at c es <> 0 -> exists v, In (c, v) es.
Proof.
  induction es as [|[c' w] es IH]; cbn [sum_at]; [congruence|].
  destruct (list_eqb c' c) eqn:E.
  - apply list_eqb_eq in E. subst. intros _. exists w. now left.
  - intros H. destruct IH as [v Hv]; [lia|]. exists v. now right.
Qed.

Lemma fold_left_add_shift l a : fold_left Z.add l a = a + fold_left Z.add l 0.
Proof.
  revert a. induction l as [|x l IH]; intros a; cbn [fold_left]; [lia|].
  rewrite (IH (a + x)), (IH (0 + x)). lia.
Qed.

Lemma leaf_value_cons c v nd : leaf_value ((c, v) :: nd) = v + leaf_value nd.
Proof.
  unfold leaf_value. cbn [map snd fold_left]. rewrite fold_left_add_shift. lia.
Qed.

Lemma leaf_value_sum_at nd :
  Forall (fun e : entry => fst e = []) nd -> leaf_value nd = sum_at [] nd.
Proof.
  induction nd as [|[c v] nd IH]; intros H; [reflexivity|].
  inversion H as [|? ? Hc H']; subst. cbn [fst] in Hc. subst c.
  rewrite leaf_value_cons. cbn [sum_at list_eqb]. rewrite IH by assumption. reflexivity.
Qed.

(** * offsets and indexing into a concatenation *)

Lemma offsets_from_length a ls : length (offsets_from a ls) = S (length ls).
Proof.
  revert a. induction ls as [|l ls IH]; intros a; cbn [offsets_from length]; [reflexivity|].
  now rewrite IH.
Qed.

Lemma offsets_from_nth a ls p :
  (p <= length ls)%nat ->
  nth p (offsets_from a ls) 0 = a + Z.of_nat (length (concat (firstn p ls))).
Proof.
  revert a p. induction ls as [|l ls IH]; intros a p Hp.
  - cbn [length] in Hp. assert (p = O) by lia. subst. cbn. lia.
  - destruct p as [|p]; [cbn; lia|].
    cbn [offsets_from nth firstn concat]. rewrite IH by (cbn [length] in Hp; lia).
    rewrite app_length. unfold zlen. lia.
Qed.

Lemma offsets_nth ls p :
  (p <= length ls)%nat -> nth p (offsets ls) 0 = Z.of_nat (length (concat (firstn p ls))).
Proof. intros. unfold offsets. rewrite offsets_from_nth by assumption. lia. Qed.

Lemma firstn_S_nth {A} (l : list A) p d :
  (p < length l)%nat -> firstn (S p) l = firstn p l ++ [nth p l d].
Proof.
  revert p. induction l as [|a l IH]; intros p Hp; [cbn in Hp; lia|].
  destruct p as [|p]; [reflexivity|]. cbn [firstn nth app]. f_equal. apply IH. cbn in Hp. lia.
Qed.

Lemma offsets_nth_S ls p :
  (p < length ls)%nat ->
  nth (S p) (offsets ls) 0 = nth p (offsets ls) 0 + zlen (nth p ls []).
Proof.
  intros Hp. rewrite !offsets_nth by lia. rewrite (firstn_S_nth ls p []) by assumption.
  rewrite concat_app, app_length. cbn [concat]. rewrite app_nil_r. unfold zlen. lia.
Qed.

Lemma offsets_weakly_increasing_from a ls : weakly_increasing (offsets_from a ls) = true.
Proof.
  revert a. induction ls as [|l ls IH]; intros a; [reflexivity|].
  cbn [offsets_from]. specialize (IH (a + zlen l)).
  destruct ls as [|l' ls]; cbn [offsets_from] in *.
  - cbn. pose proof (zlen_nonneg l). lia.
  - change (weakly_increasing (a :: (a + zlen l) :: ?r)) with ((a <=? a + zlen l) && weakly_increasing ((a + zlen l) :: r)).
    rewrite IH. pose proof (zlen_nonneg l). lia.
Qed.

Lemma concat_split {A} (ll : list (list A)) p :
  (p < length ll)%nat ->
  concat ll = concat (firstn p ll) ++ nth p ll [] ++ concat (skipn (S p) ll).
Proof.
  revert p. induction ll as [|l ll IH]; intros p Hp; [cbn in Hp; lia|].
  destruct p as [|p]; [reflexivity|].
  cbn [concat firstn nth skipn]. rewrite (IH p) at 1 by (cbn in Hp; lia).
  now rewrite app_assoc.
Qed.

Lemma nth_concat {A} (ll : list (list A)) p j d :
  (p < length ll)%nat -> (j < length (nth p ll []))%nat ->
  nth (length (concat (firstn p ll)) + j) (concat ll) d = nth j (nth p ll []) d.
Proof.
  intros Hp Hj. rewrite (concat_split ll p Hp) at 1.
  rewrite app_nth2 by lia. replace (length (concat (firstn p ll)) + j - length (concat (firstn p ll)))%nat with j by lia.
  now rewrite app_nth1.
Qed.

Lemma length_concat_firstn_map {A B C} (f : A -> list B) (g : A -> list C) l p :
  (forall x, length (f x) = length (g x)) ->
  length (concat (firstn p (map f l))) = length (concat (firstn p (map g l))).
Proof.
  intros H. revert p. induction l as [|a l IH]; intros [|p]; cbn [map firstn concat]; try reflexivity.
  rewrite !app_length, H, IH. reflexivity.
Qed.

Lemma length_concat_firstn_uniform {A} (ll : list (list A)) n p :
  Forall (fun l => length l = n) ll -> (p <= length ll)%nat ->
  length (concat (firstn p ll)) = (p * n)%nat.
Proof.
  intros H. revert p. induction H as [|l ll Hl H IH]; intros p Hp.
  - cbn in Hp. assert (p = O) by lia. subst. reflexivity.
  - destruct p as [|p]; [reflexivity|]. cbn [firstn concat]. rewrite app_length, Hl, IH by (cbn in Hp; lia). lia.
Qed.

Lemma length_concat_uniform {A} (ll : list (list A)) n :
  Forall (fun l => length l = n) ll -> length (concat ll) = (length ll * n)%nat.
Proof.
  intros H. rewrite <- (firstn_all ll) at 1. now apply length_concat_firstn_uniform.
Qed.

(** segment [p] of the pos/crd pair built from the lists [ks] is [nth p ks] *)
Lemma segment_offsets ks p :
  (p < length ks)%nat ->
  segment (offsets ks) (concat ks) (Z.of_nat p) = nth p ks [].
Proof.
  intros Hp. unfold segment.
  rewrite nthZ_of_nat. replace (Z.of_nat p + 1) with (Z.of_nat (S p)) by lia. rewrite nthZ_of_nat.
  rewrite offsets_nth_S by assumption. rewrite offsets_nth by lia.
  rewrite zrange2_shift.
  replace (Z.of_nat (length (concat (firstn p ks))) + zlen (nth p ks []) - Z.of_nat (length (concat (firstn p ks))))
    with (zlen (nth p ks [])) by lia.
  rewrite map_map.
  rewrite <- (map_nthZ_zrange (-1) (nth p ks [])) at 2.
  apply map_ext_in. intros j Hj. apply In_zrange in Hj. unfold zlen in Hj.
  replace j with (Z.of_nat (Z.to_nat j)) by lia.
  rewrite <- Nat2Z.inj_add, !nthZ_of_nat.
  apply nth_concat; [assumption|lia].
Qed.

(** * map_opt *)

Lemma map_opt_Some {A B} (f : A -> option B) (g : A -> B) l :
  (forall a, In a l -> f a = Some (g a)) -> map_opt f l = Some (map g l).
Proof.
  induction l as [|a l IH]; intros H; [reflexivity|].
  cbn [map_opt map]. rewrite H by (now left). rewrite IH; [reflexivity|]. intros; apply H. now right.
Qed.

Lemma map_opt_length {A B} (f : A -> option B) l r : map_opt f l = Some r -> length r = length l.
Proof.
  revert r. induction l as [|a l IH]; intros r H; cbn [map_opt] in H.
  - inversion H. reflexivity.
  - destruct (f a); [|discriminate]. destruct (map_opt f l) eqn:E; [|discriminate].
    inversion H; subst. cbn [length]. f_equal. now apply IH.
Qed.

Lemma map_opt_None_In {A B} (f : A -> option B) l :
  map_opt f l = None -> exists a, In a l /\ f a = None.
Proof.
  induction l as [|a l IH]; cbn [map_opt]; [discriminate|].
  destruct (f a) eqn:E.
  - destruct (map_opt f l) eqn:E2; [discriminate|]. intros _.
    destruct (IH eq_refl) as (x & Hx & Hf). exists x. split; [now right|assumption].
  - intros _. exists a. split; [now left|assumption].
Qed.
