(** The C09 statements, assembled (props/C09.v only restates them).  Axiom-free. *)

From Coq Require Import ZArith List Bool Lia ZifyBool Permutation Arith.
From TV Require Import spec.Storage model.TensorBuild proofs.StorageLemmas proofs.TensorBuildLemmas
  proofs.TensorBuildWf proofs.TensorBuildWalk proofs.TensorBuildTop proofs.TensorBuildMore.
Import ListNotations.
Open Scope Z_scope.

Lemma main_roundtrip : forall fmt dims es,
  valid_formatb fmt = true -> dims_okb fmt dims = true -> all_in_rangeb dims es = true ->
  exists t, build fmt dims es = Ok t
    /\ (forall c v, In (c, v) (to_dok_spec t) <-> v = sum_at c es /\ v <> 0)
    /\ NoDup (map fst (to_dok_spec t))
    /\ format_of t = fmt /\ Storage.dims t = dims.
Proof.
  intros fmt dims es V D R. exists (built fmt dims es).
  destruct (built_format fmt dims es V D R) as [F Dm].
  split; [exact (build_ok fmt dims es V D R)|].
  split; [exact (roundtrip_In fmt dims es V D R)|].
  split; [exact (roundtrip_NoDup fmt dims es V D R)|].
  split; assumption.
Qed.

Lemma built_ordering fmt dims es : ordering (built fmt dims es) = fordering fmt.
Proof.
  unfold built, raw_build.
  match goal with |- context [emit ?a ?b] => destruct (emit a b) end. reflexivity.
Qed.

Lemma to_dok_impl_involutive (t : tensor Z) :
  is_permb (ordering t) = true -> involutiveb (ordering t) = true -> to_dok_impl t = to_dok_spec t.
Proof. intros P I. unfold to_dok_impl, to_dok_spec. now rewrite items_impl_involutive. Qed.

Lemma main_roundtrip_impl : forall fmt dims es,
  valid_formatb fmt = true -> dims_okb fmt dims = true -> all_in_rangeb dims es = true ->
  involutiveb (fordering fmt) = true ->
  exists t, build fmt dims es = Ok t
    /\ (forall c v, In (c, v) (to_dok_impl t) <-> v = sum_at c es /\ v <> 0)
    /\ NoDup (map fst (to_dok_impl t))
    /\ format_of t = fmt /\ Storage.dims t = dims.
Proof.
  intros fmt dims es V D R I.
  destruct (main_roundtrip fmt dims es V D R) as (t & B & H1 & H2 & H3 & H4).
  exists t. rewrite (build_ok fmt dims es V D R) in B. inversion B; subst t.
  rewrite to_dok_impl_involutive;
    [split; [exact (build_ok fmt dims es V D R)|]; split; [exact H1|]; split; [exact H2|]; split; assumption| |].
  - rewrite built_ordering. unfold valid_formatb in V. apply andb_true_iff in V. tauto.
  - now rewrite built_ordering.
Qed.

Lemma main_entry_points : forall fmt dims,
  (forall d, from_dok fmt dims d = build fmt dims d)
  /\ (forall cs vs, length cs = length vs -> from_aos fmt dims cs vs = build fmt dims (combine cs vs))
  /\ (forall n rows vs, (0 < n)%nat -> Forall (fun r => length r = n) rows -> length rows = length vs ->
        from_soa fmt dims (columns n rows) vs = build fmt dims (combine rows vs))
  /\ (forall x, from_lol fmt dims x = build fmt dims (lol_entries x [])).
Proof.
  intros fmt dims. repeat split.
  - apply from_dok_build.
  - apply from_aos_build.
  - intros. now apply from_soa_build.
  - apply from_lol_build.
Qed.

Lemma main_build_wf : forall fmt dims es,
  valid_formatb fmt = true -> dims_okb fmt dims = true -> all_in_rangeb dims es = true ->
  exists t, build fmt dims es = Ok t /\ wf_tensorb true t = true /\ validate t = true.
Proof.
  intros fmt dims es V D R. exists (built fmt dims es). repeat split.
  - now apply build_ok.
  - now apply built_wf.
  - apply wf_validate. now apply built_wf.
Qed.

Lemma main_to_format : forall fmt fmt' dims es t,
  valid_formatb fmt = true -> valid_formatb fmt' = true ->
  dims_okb fmt dims = true -> dims_okb fmt' dims = true -> all_in_rangeb dims es = true ->
  build fmt dims es = Ok t ->
  exists t', to_format_spec fmt' t = Ok t'
    /\ (forall c v, In (c, v) (to_dok_spec t') <-> In (c, v) (to_dok_spec t))
    /\ NoDup (map fst (to_dok_spec t'))
    /\ format_of t' = fmt' /\ Storage.dims t' = dims /\ wf_tensorb true t' = true.
Proof.
  intros fmt fmt' dims es t V V' D D' R B.
  rewrite (build_ok fmt dims es V D R) in B. inversion B; subst t. clear B.
  pose proof (dok_in_range fmt dims es V D R) as Rd.
  exists (built fmt' dims (to_dok_spec (built fmt dims es))).
  destruct (built_format fmt' dims _ V' D' Rd) as [F Dm].
  split; [exact (to_format_ok fmt fmt' dims es V V' D D' R)|].
  split; [exact (to_format_content fmt fmt' dims es V V' D D' R)|].
  split; [exact (roundtrip_NoDup fmt' dims _ V' D' Rd)|].
  split; [assumption|]. split; [assumption|].
  exact (built_wf fmt' dims _ V' D' Rd).
Qed.

Lemma main_pickle : forall fmt dims es t,
  valid_formatb fmt = true -> dims_okb fmt dims = true -> all_in_rangeb dims es = true ->
  build fmt dims es = Ok t -> pickle_roundtrip t = Ok t.
Proof.
  intros fmt dims es t V D R B. rewrite (build_ok fmt dims es V D R) in B. inversion B; subst t.
  apply pickle_identity. now apply built_wf.
Qed.

(** to_format of ANY well-formed stored tensor (not only a constructed one, e.g. a kernel output
    with a scratch value: [strict] arbitrary) *)
Lemma main_to_format_general : forall strict (t : tensor Z) fmt',
  wf_tensorb strict t = true -> valid_formatb fmt' = true ->
  length (fordering fmt') = length (Storage.dims t) ->
  exists t', to_format_spec fmt' t = Ok t'
    /\ (forall c v, In (c, v) (to_dok_spec t') <-> In (c, v) (to_dok_spec t))
    /\ NoDup (map fst (to_dok_spec t'))
    /\ format_of t' = fmt' /\ Storage.dims t' = Storage.dims t /\ wf_tensorb true t' = true.
Proof.
  intros strict t fmt' W V' L.
  pose proof (wf_tensorb_shape _ _ W) as (_ & _ & _ & Dm).
  destruct (wf_entries 0 strict t W) as [ND HR].
  assert (to_dok_spec t = filter nonzero (entries 0 t)) as Ed.
  { unfold to_dok_spec, to_dok, items_spec. change (fun e : entry => negb (snd e =? 0)) with nonzero.
    apply dict_of_NoDup. now apply NoDup_map_fst_filter. }
  set (es := to_dok_spec t).
  assert (NoDup (map fst es)) as NDes by (unfold es; rewrite Ed; now apply NoDup_map_fst_filter).
  assert (all_in_rangeb (Storage.dims t) es = true) as R.
  { unfold all_in_rangeb. apply forallb_forall. intros [c v] Hin. unfold es in Hin. rewrite Ed in Hin.
    apply filter_In in Hin. destruct Hin as [Hin _]. apply in_rangeb_spec. cbn [fst]. exact (HR c v Hin). }
  assert (dims_okb fmt' (Storage.dims t) = true) as D'.
  { unfold dims_okb. apply andb_true_iff. split; [apply Nat.eqb_eq; lia|].
    apply forallb_forall. intros d Hd. rewrite Forall_forall in Dm. specialize (Dm d Hd). lia. }
  destruct (main_roundtrip fmt' (Storage.dims t) es V' D' R) as (t' & B & H1 & H2 & H3 & H4).
  exists t'. unfold to_format_spec. rewrite from_dok_build. fold es.
  split; [exact B|]. split.
  - intros c v. rewrite H1. split.
    + intros [-> Hz]. destruct (sum_at_nonzero_In _ _ Hz) as [w Hw].
      now rewrite (sum_at_NoDup _ _ _ NDes Hw).
    + intros Hin. rewrite (sum_at_NoDup _ _ _ NDes Hin). split; [reflexivity|].
      unfold es in Hin. rewrite Ed in Hin. apply filter_In in Hin. destruct Hin as [_ Hz].
      unfold nonzero in Hz. cbn [snd] in Hz. lia.
  - split; [exact H2|]. split; [exact H3|]. split; [exact H4|].
    rewrite (build_ok fmt' (Storage.dims t) es V' D' R) in B. inversion B; subst t'.
    exact (built_wf fmt' (Storage.dims t) es V' D' R).
Qed.
