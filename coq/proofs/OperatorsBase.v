(** C11 -- basic lemmas about the helper functions of [model/Operators.v]. *)

From Coq Require Import ZArith String Ascii List Bool Lia ZifyBool.
From Coq Require Import Decimal DecimalString DecimalNat.
From TV Require Import spec.Storage spec.PyBase model.Operators.
Import ListNotations.
Open Scope Z_scope.
Open Scope string_scope.
Open Scope list_scope.

(** * list_eqb *)

Lemma list_eqb_spec {A} (eqb : A -> A -> bool) :
  (forall x y, eqb x y = true <-> x = y) ->
  forall a b, list_eqb eqb a b = true <-> a = b.
Proof.
  intros H a; induction a as [|x a IH]; intros [|y b]; simpl; split; intros E;
    try reflexivity; try discriminate.
  - apply andb_true_iff in E as [E1 E2]. apply H in E1. apply IH in E2. congruence.
  - inversion E; subst. apply andb_true_iff; split; [apply H; reflexivity | apply IH; reflexivity].
Qed.

Lemma list_eqb_Z a b : list_eqb Z.eqb a b = true <-> a = b.
Proof. apply list_eqb_spec. intros; apply Z.eqb_eq. Qed.

Lemma list_eqb_nat a b : list_eqb Nat.eqb a b = true <-> a = b.
Proof. apply list_eqb_spec. intros; apply Nat.eqb_eq. Qed.

Lemma list_eqb_Z_refl a : list_eqb Z.eqb a a = true.
Proof. apply list_eqb_Z; reflexivity. Qed.

Lemma mode_eqb_eq a b : mode_eqb a b = true <-> a = b.
Proof. destruct a, b; simpl; split; intros; congruence. Qed.

Lemma format_eqb_refl f : format_eqb f f = true.
Proof.
  unfold format_eqb. apply andb_true_iff; split.
  - apply (list_eqb_spec mode_eqb mode_eqb_eq); reflexivity.
  - apply list_eqb_nat; reflexivity.
Qed.

(** * membership *)

Lemma mem_str_In k l : mem_str k l = true <-> In k l.
Proof.
  unfold mem_str. rewrite existsb_exists. split.
  - intros [x [Hin E]]. apply String.eqb_eq in E. subst; assumption.
  - intros H. exists k. split; [assumption | apply String.eqb_refl].
Qed.

Lemma mem_str_false k l : mem_str k l = false <-> ~ In k l.
Proof.
  rewrite <- mem_str_In. destruct (mem_str k l); split; intros; congruence.
Qed.

Lemma existsb_false {A} (f : A -> bool) l :
  existsb f l = false <-> forall x, In x l -> f x = false.
Proof.
  induction l as [|a l IH]; simpl.
  - split; [intros _ x [] | reflexivity].
  - rewrite orb_false_iff, IH. split.
    + intros [H1 H2] x [<- | Hin]; auto.
    + intros H; split; [apply H; left; reflexivity | intros x Hx; apply H; right; assumption].
Qed.

Lemma dedup_In k l : In k (dedup l) <-> In k l.
Proof.
  induction l as [|x l IH]; simpl; [tauto|].
  destruct (mem_str x l) eqn:E.
  - rewrite IH. split; [auto|]. intros [<- | H]; [apply mem_str_In; assumption | assumption].
  - simpl. rewrite IH. tauto.
Qed.

(** * index names *)

Lemma nat_str_inj a b : nat_str a = nat_str b -> a = b.
Proof.
  unfold nat_str. intros E.
  assert (H : Some (Nat.to_uint a) = Some (Nat.to_uint b)).
  { rewrite <- (NilEmpty.usu (Nat.to_uint a)), <- (NilEmpty.usu (Nat.to_uint b)), E. reflexivity. }
  inversion H as [H1].
  rewrite <- (Unsigned.of_to a), <- (Unsigned.of_to b), H1. reflexivity.
Qed.

Lemma index_name_inj a b : index_name a = index_name b -> a = b.
Proof. unfold index_name. simpl. intros E. inversion E. apply nat_str_inj; assumption. Qed.

Lemma index_names_length n : length (index_names n) = n.
Proof. unfold index_names. rewrite map_length, seq_length. reflexivity. Qed.

Lemma index_names_NoDup n : NoDup (index_names n).
Proof.
  unfold index_names.
  assert (H : forall l, NoDup l -> NoDup (map index_name l)).
  { induction 1 as [|x l Hx Hl IH]; simpl; constructor; auto.
    intros Hin. apply in_map_iff in Hin as [y [E Hy]]. apply index_name_inj in E. subst; auto. }
  apply H, seq_NoDup.
Qed.

Lemma index_names_In k n : In k (index_names n) -> exists i, k = index_name i.
Proof.
  unfold index_names. intros H. apply in_map_iff in H as [i [E _]]. exists i; auto.
Qed.

(** an index name is none of the three tensor names of a request *)
Lemma index_name_not_reserved i :
  mem_str (index_name i) ["output"; "left"; "right"] = false.
Proof. reflexivity. Qed.

Lemma index_names_not_reserved n k :
  In k (index_names n) -> mem_str k ["output"; "left"; "right"] = false.
Proof. intros H. apply index_names_In in H as [i ->]. apply index_name_not_reserved. Qed.

(** * lookup in a valuation built from distinct names *)

Lemma lookup_cons_other rho k v k' :
  k' <> k -> lookup ((k, v) :: rho) k' = lookup rho k'.
Proof.
  intros H. unfold lookup. simpl.
  destruct (String.eqb k' k) eqn:E; [apply String.eqb_eq in E; contradiction | reflexivity].
Qed.

Lemma lookup_cons_same rho k v : lookup ((k, v) :: rho) k = v.
Proof. unfold lookup. simpl. rewrite String.eqb_refl. reflexivity. Qed.

Lemma map_lookup_combine ks : forall c,
  NoDup ks -> length ks = length c -> map (lookup (combine ks c)) ks = c.
Proof.
  induction ks as [|k ks IH]; intros [|v c] Hnd Hlen; simpl in *; try discriminate; auto.
  inversion Hnd as [|? ? Hk Hks]; subst.
  rewrite lookup_cons_same. f_equal.
  rewrite <- (IH c Hks) at 2 by lia.
  apply map_ext_in. intros k' Hin. apply lookup_cons_other. intros ->; contradiction.
Qed.

(** * sums *)

Lemma zsum_ext l f g : (forall x, In x l -> f x = g x) -> zsum l f = zsum l g.
Proof.
  unfold zsum. induction l as [|a l IH]; simpl; intros H; [reflexivity|].
  rewrite H by (left; reflexivity). rewrite IH; [reflexivity|]. intros; apply H; right; assumption.
Qed.

(** * checked_map *)

Lemma checked_map_nth_error {A B} (f : A -> checked B) : forall l ys,
  length l = length ys ->
  (forall i x, nth_error l i = Some x -> exists y, nth_error ys i = Some y /\ f x = Pass y) ->
  checked_map f l = Pass ys.
Proof.
  induction l as [|x l IH]; intros [|y ys] Hlen H; simpl in *; try discriminate; auto.
  destruct (H O x eq_refl) as [y' [Hy Hf]]. simpl in Hy. inversion Hy; subst y'.
  rewrite Hf. rewrite (IH ys); [reflexivity | lia |].
  intros i x' Hi. apply (H (S i) x' Hi).
Qed.

Lemma checked_map_pass {A B} (f : A -> checked B) l :
  (forall x, In x l -> exists y, f x = Pass y) -> exists ys, checked_map f l = Pass ys.
Proof.
  induction l as [|x l IH]; intros H; simpl.
  - exists []; reflexivity.
  - destruct (H x (or_introl eq_refl)) as [y ->].
    destruct IH as [ys ->]; [intros; apply H; right; assumption|].
    exists (y :: ys); reflexivity.
Qed.

(** * natural orderings *)

Lemma index_of_seq n : forall s d, (s <= d < s + n)%nat -> index_of d (seq s n) = (d - s)%nat.
Proof.
  induction n as [|n IH]; intros s d H; [lia|]. simpl.
  destruct (Nat.eqb s d) eqn:E.
  - apply Nat.eqb_eq in E. subst. lia.
  - apply Nat.eqb_neq in E. rewrite IH by lia. lia.
Qed.

Lemma index_of_natural n d : (d < n)%nat -> index_of d (natural n) = d.
Proof. intros H. unfold natural. rewrite index_of_seq by lia. lia. Qed.

Lemma valid_natural_format m : valid_format (natural_format m) = true.
Proof.
  unfold valid_format, natural_format, natural. simpl.
  apply andb_true_iff; split; apply forallb_forall; intros x Hx; apply in_seq in Hx.
  - apply Nat.ltb_lt. lia.
  - apply existsb_exists. exists x. split; [apply in_seq; lia | apply Nat.eqb_refl].
Qed.

Lemma modes_union_length a b : length a = length b -> length (modes_union a b) = length a.
Proof. intros H. unfold modes_union. rewrite map_length, combine_length. lia. Qed.

Lemma modes_intersection_length a b :
  length a = length b -> length (modes_intersection a b) = length a.
Proof. intros H. unfold modes_intersection. rewrite map_length, combine_length. lia. Qed.

Lemma nth_modes_union a b d :
  length a = length b -> (d < length a)%nat ->
  nth d (modes_union a b) MDense = mode_union (nth d a MDense) (nth d b MDense).
Proof.
  intros Hl Hd. unfold modes_union, mode_union.
  rewrite (nth_indep _ MDense (if is_dense (fst (MDense, MDense)) || is_dense (snd (MDense, MDense))
                               then MDense else MCompressed))
    by (rewrite map_length, combine_length; lia).
  rewrite (map_nth (fun p => if is_dense (fst p) || is_dense (snd p) then MDense else MCompressed)).
  rewrite combine_nth by assumption. reflexivity.
Qed.

Lemma nth_modes_intersection a b d :
  length a = length b -> (d < length a)%nat ->
  nth d (modes_intersection a b) MDense = mode_intersection (nth d a MDense) (nth d b MDense).
Proof.
  intros Hl Hd. unfold modes_intersection, mode_intersection.
  rewrite (nth_indep _ MDense (if is_dense (fst (MDense, MDense)) && is_dense (snd (MDense, MDense))
                               then MDense else MCompressed))
    by (rewrite map_length, combine_length; lia).
  rewrite (map_nth (fun p => if is_dense (fst p) && is_dense (snd p) then MDense else MCompressed)).
  rewrite combine_nth by assumption. reflexivity.
Qed.

(** * the well-formedness of operands, unpacked *)

Lemma wf_tensor_inv d m r :
  wf_operand (OTensor d m r) = true ->
  length m = length d /\ length r = length d /\ valid_format (mkFormat m r) = true.
Proof.
  simpl. intros H. apply andb_true_iff in H as [H H3]. apply andb_true_iff in H as [H1 H2].
  apply Nat.eqb_eq in H1, H2. auto.
Qed.

(** an accepted ordering of length 2 is one of the two permutations *)
Lemma valid_format_order2 m0 m1 r :
  length r = 2%nat -> valid_format (mkFormat [m0; m1] r) = true ->
  r = [0%nat; 1%nat] \/ r = [1%nat; 0%nat].
Proof.
  intros Hl H. destruct r as [|a [|b [|c r]]]; simpl in Hl; try discriminate.
  unfold valid_format in H. simpl in H.
  destruct a as [|[|a]], b as [|[|b]]; simpl in H; try discriminate; auto.
Qed.

Lemma valid_format_order1 m0 r :
  length r = 1%nat -> valid_format (mkFormat [m0] r) = true -> r = [0%nat].
Proof.
  intros Hl H. destruct r as [|a [|b r]]; simpl in Hl; try discriminate.
  unfold valid_format in H. simpl in H. destruct a as [|a]; simpl in H; try discriminate; auto.
Qed.
