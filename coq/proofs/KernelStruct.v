(** C01G -- the STRUCTURE (dims, ordering, pos/crd of every level) of the output of the kernel
    model depends only on the structure of the inputs, never on their values: the written flags
    are structural.  Holds for every graph, without side conditions. *)

From Coq Require Import ZArith List Bool Lia String.
From TV Require Import spec.Storage spec.Spec model.Exhaust model.DesugarSemGraph
                       proofs.DesugarSemGraphProofs model.Kernel proofs.KernelEncode proofs.KernelSound.
Import ListNotations.
Local Open Scope Z_scope.

Definition same_structure (t t' : tensor Z) : Prop :=
  dims t = dims t' /\ ordering t = ordering t' /\ levels t = levels t'.

Definition same_ins (a b : list (string * tensor Z)) : Prop :=
  Forall2 (fun p q => fst p = fst q /\ same_structure (snd p) (snd q)) a b.

Definition with_ins (cfg : kcfg) (ins : list (string * tensor Z)) : kcfg :=
  mkCfg ins (k_sizes cfg) (k_oidx cfg) (k_omodes cfg) (k_oord cfg) (k_leaves cfg).

(** * tries up to leaf values *)

Fixpoint shape (t : trie) : trie :=
  match t with
  | TLeaf _ => TLeaf 0
  | TNode kids =>
      TNode ((fix go (l : list (Z * trie)) : list (Z * trie) :=
                match l with
                | [] => []
                | ct :: r => (fst ct, shape (snd ct)) :: go r
                end) kids)
  end.

Lemma shape_node kids : shape (TNode kids) = TNode (map (fun ct => (fst ct, shape (snd ct))) kids).
Proof. reflexivity. Qed.

Lemma kids_of_shape t : kids_of (shape t) = map (fun ct => (fst ct, shape (snd ct))) (kids_of t).
Proof. destruct t as [v|kids]; [reflexivity|]. now rewrite shape_node. Qed.

Lemma flat_map_kids_shape nodes :
  flat_map kids_of (map shape nodes) = map (fun ct => (fst ct, shape (snd ct))) (flat_map kids_of nodes).
Proof.
  induction nodes as [|n nodes IH]; [reflexivity|]. cbn [map flat_map]. now rewrite map_app, IH, kids_of_shape.
Qed.

Lemma enc_levels_shape ms : forall nodes,
  fst (enc_levels ms nodes) = fst (enc_levels ms (map shape nodes)).
Proof.
  induction ms as [|m ms IH]; intros nodes; [reflexivity|]. cbn [enc_levels].
  rewrite flat_map_kids_shape, !map_map. cbn [fst snd].
  specialize (IH (map snd (flat_map kids_of nodes))). rewrite map_map in IH.
  destruct (enc_levels ms (map snd (flat_map kids_of nodes))) as [lv vs].
  destruct (enc_levels ms (map (fun x => shape (snd x)) (flat_map kids_of nodes))) as [lv' vs'].
  cbn [fst] in IH. subst lv'. destruct m; cbn [fst]; [reflexivity|]. f_equal. f_equal. f_equal. f_equal.
  apply map_ext. intros n. rewrite kids_of_shape. unfold zlen. now rewrite map_length.
Qed.

Lemma shape_tabulate ds : forall f, shape (tabulate ds f) = tabulate ds (fun _ => 0).
Proof.
  induction ds as [|d ds IH]; intros f; [reflexivity|]. cbn [tabulate]. rewrite shape_node, map_map.
  cbn [fst snd]. f_equal. apply map_ext. intros i. now rewrite IH.
Qed.

(** * the traversal only looks at the structure of the inputs *)

Lemma lookup_same_gen (a b : list (string * tensor Z)) n :
  same_ins a b ->
  match lookup n a, lookup n b with
  | Some t, Some t' => same_structure t t'
  | None, None => True
  | _, _ => False
  end.
Proof.
  induction 1 as [|[x t] [y t'] l l' [E S] H IH]; [exact I|]. cbn [fst snd] in *. subst y.
  cbn [lookup]. destruct (String.eqb n x); [exact S|exact IH].
Qed.

Lemma forallb_ext' {A} (f g : A -> bool) l : (forall x, f x = g x) -> forallb f l = forallb g l.
Proof. intros H. induction l as [|a l IH]; [reflexivity|]. cbn. now rewrite H, IH. Qed.

Section Struct.
Variable cfg : kcfg.
Variable ins' : list (string * tensor Z).
Hypothesis SAME : same_ins (k_ins cfg) ins'.
Let cfg' := with_ins cfg ins'.

Lemma lookup_same n :
  match lookup n (k_ins cfg), lookup n ins' with
  | Some t, Some t' => same_structure t t'
  | None, None => True
  | _, _ => False
  end.
Proof. now apply lookup_same_gen. Qed.

Lemma seg_coords_same t t' l cs : same_structure t t' -> seg_coords t l cs = seg_coords t' l cs.
Proof.
  intros (Ed & Eo & El). unfold seg_coords, tlevels, level_dims. now rewrite Ed, Eo, El.
Qed.

Lemma leaf_coords_same rho lf : leaf_coords cfg rho lf = leaf_coords cfg' rho lf.
Proof.
  unfold leaf_coords, input_of. cbn [k_leaves k_ins cfg' with_ins].
  destruct (lookup (fst lf) (k_leaves cfg)) as [[[n idx] ms]|]; [|reflexivity].
  pose proof (lookup_same n) as L.
  destruct (lookup n (k_ins cfg)) as [t|], (lookup n ins') as [t'|]; try contradiction; [|reflexivity].
  now apply seg_coords_same.
Qed.

Lemma visits_same k out next dead rho :
  visits cfg k out next dead rho = visits cfg' k out next dead rho.
Proof.
  unfold visits. cbn [k_sizes cfg' with_ins]. destruct (gctx dead k next) as [ctx|]; [|reflexivity].
  assert (forall v, absent_ids cfg rho v (sparse_leaves ctx) = absent_ids cfg' rho v (sparse_leaves ctx)) as Ea.
  { intros v. unfold absent_ids. f_equal. apply filter_ext. intros lf. unfold leaf_absent.
    now rewrite leaf_coords_same. }
  assert (out_sparse cfg out = out_sparse cfg' out) as Eo by reflexivity.
  f_equal.
  - apply flat_map_ext. intros v. now rewrite Ea, Eo.
  - unfold leaves_ok. apply forallb_ext'. intros lf. now rewrite leaf_coords_same.
Qed.

Lemma Gb_flag_same bidx (g : graph Z) : forall dead rho,
  bflag (Gb cfg bidx g dead rho) = bflag (Gb cfg' bidx g dead rho).
Proof.
  induction g using (graph_ind' Z); intros dead rho.
  - cbn [Gb]. destruct (eval_term cfg rho (exhaust_list e dead)), (eval_term cfg' rho (exhaust_list e dead)).
    reflexivity.
  - cbn [Gb]. rewrite <- visits_same. destruct (visits cfg k o g dead rho) as [vs ob].
    rewrite !bflag_app. f_equal. induction vs as [|vd vs IHv]; [reflexivity|].
    cbn [fold_right]. now rewrite !bflag_app, IHg, IHv.
  - rewrite !Gb_sum_unfold. induction H as [|t ts Ht H IH]; [reflexivity|].
    cbn [fold_right]. now rewrite !bflag_app, Ht, IH.
Qed.

Lemma kept_same (vs : list (Z * list string)) (R R' : Z * list string -> ares) (comp : bool) :
  (forall vd, In vd vs -> shape (atrie (R vd)) = shape (atrie (R' vd)) /\ aflag (R vd) = aflag (R' vd)) ->
  map (fun ct : Z * trie => (fst ct, shape (snd ct)))
      (map (fun c : Z * ares => (fst c, fst (fst (snd c))))
           (let kids := map (fun vd => (fst vd, R vd)) vs in
            if comp then filter (fun c => snd (fst (snd c))) kids else kids))
  = map (fun ct : Z * trie => (fst ct, shape (snd ct)))
      (map (fun c : Z * ares => (fst c, fst (fst (snd c))))
           (let kids := map (fun vd => (fst vd, R' vd)) vs in
            if comp then filter (fun c => snd (fst (snd c))) kids else kids))
  /\ existsb (fun c : Z * ares => snd (fst (snd c))) (map (fun vd => (fst vd, R vd)) vs)
     = existsb (fun c : Z * ares => snd (fst (snd c))) (map (fun vd => (fst vd, R' vd)) vs).
Proof.
  cbn zeta. induction vs as [|vd vs IH]; intros H; [now destruct comp|].
  destruct (H vd (or_introl eq_refl)) as [Hs Hf]. unfold atrie, aflag in Hs, Hf.
  destruct (IH (fun x Hx => H x (or_intror Hx))) as [IH1 IH2]. cbn [map existsb fst snd].
  rewrite Hf, IH2. split; [|reflexivity].
  destruct comp; cbn [filter fst snd].
  - rewrite Hf. destruct (snd (fst (R' vd))); cbn [map fst snd]; [rewrite Hs; f_equal|]; exact IH1.
  - cbn [map fst snd]. rewrite Hs. f_equal. exact IH1.
Qed.

Lemma Ga_same (g : graph Z) : forall l dead rho,
  shape (atrie (Ga cfg g l dead rho)) = shape (atrie (Ga cfg' g l dead rho))
  /\ aflag (Ga cfg g l dead rho) = aflag (Ga cfg' g l dead rho).
Proof.
  assert (forall l g dead rho,
            shape (atrie (enter_bucket cfg l g dead rho)) = shape (atrie (enter_bucket cfg' l g dead rho))
            /\ aflag (enter_bucket cfg l g dead rho) = aflag (enter_bucket cfg' l g dead rho)) as EB.
  { intros l g0 dead rho. unfold enter_bucket. cbn [k_oidx k_sizes cfg' with_ins].
    pose proof (Gb_flag_same (skipn l (k_oidx cfg)) g0 dead rho) as F.
    destruct (Gb cfg (skipn l (k_oidx cfg)) g0 dead rho) as [[cs f] o].
    destruct (Gb cfg' (skipn l (k_oidx cfg)) g0 dead rho) as [[cs' f'] o'].
    unfold atrie, aflag, bflag in *. cbn [fst snd] in *. unfold bucket_trie. now rewrite !shape_tabulate. }
  induction g using (graph_ind' Z); intros l dead rho.
  - cbn [Ga]. cbn [k_omodes cfg' with_ins]. destruct (Nat.eqb l (List.length (k_omodes cfg))); [|split; reflexivity].
    destruct (eval_term cfg rho (exhaust_list e dead)), (eval_term cfg' rho (exhaust_list e dead)).
    split; reflexivity.
  - destruct o as [l'|]; [|apply EB]. cbn [Ga]. destruct (Nat.eqb l' l); [|apply EB].
    rewrite <- visits_same. destruct (visits cfg k (Some l') g dead rho) as [vs ov].
    unfold atrie, aflag. cbn [fst snd]. cbn [k_omodes cfg' with_ins].
    set (R := fun vd : Z * list string => Ga cfg g (S l) (snd vd) (upd rho k (fst vd))).
    set (R' := fun vd : Z * list string => Ga cfg' g (S l) (snd vd) (upd rho k (fst vd))).
    set (comp := match nth_error (k_omodes cfg) l with Some MCompressed => true | _ => false end).
    destruct (kept_same vs R R' comp) as [K1 K2].
    { intros vd _. unfold R, R'. apply IHg. }
    split; [|exact K2]. rewrite !shape_node.
    cbn zeta in K1. unfold comp in K1. f_equal.
    destruct (nth_error (k_omodes cfg) l) as [[|]|]; exact K1.
  - apply EB.
Qed.

Theorem G_structure_same_sec (g : graph Z) :
  dims (G_out cfg g) = dims (G_out cfg' g)
  /\ ordering (G_out cfg g) = ordering (G_out cfg' g)
  /\ levels (G_out cfg g) = levels (G_out cfg' g).
Proof.
  unfold G_out. destruct (encode_fields cfg (atrie (G cfg g))) as (Ed & Eo & El & _).
  destruct (encode_fields cfg' (atrie (G cfg' g))) as (Ed' & Eo' & El' & _).
  rewrite Ed, Ed', Eo, Eo', El, El'. repeat split.
  cbn [k_omodes cfg' with_ins]. rewrite (enc_levels_shape _ [atrie (G cfg g)]).
  rewrite (enc_levels_shape _ [atrie (G cfg' g)]). cbn [map]. unfold G.
  now rewrite (proj1 (Ga_same g 0 [] (fun _ => 0))).
Qed.

End Struct.

Theorem G_structure_same (cfg : kcfg) (ins' : list (string * tensor Z)) (g : graph Z) :
  same_ins (k_ins cfg) ins' ->
  dims (G_out cfg g) = dims (G_out (with_ins cfg ins') g)
  /\ ordering (G_out cfg g) = ordering (G_out (with_ins cfg ins') g)
  /\ levels (G_out cfg g) = levels (G_out (with_ins cfg ins') g).
Proof. intros H. exact (G_structure_same_sec cfg ins' H g). Qed.
