(** C01 (stretch): soundness of the graph validator -- a graph accepted by [graph_ok] denotes,
    as a loop nest, exactly what the desugared expression denotes. *)
From Coq Require Import ZArith List Bool String Permutation Ring_theory Ring Lia.
From TV Require Import spec.Storage spec.Spec model.DesugarSem model.Exhaust
  proofs.SpecSums proofs.SpecLemmas proofs.SpecInvariance proofs.DesugarSemProofs.
From TV Require Import model.DesugarSemGraph.
Import ListNotations.

(** * graph induction *)
Section GraphInd.
Variable R : Type.
Variable P : graph R -> Prop.
Hypothesis Ht : forall e, P (GTerminal e).
Hypothesis Hi : forall k o n, P n -> P (GIter k o n).
Hypothesis Hs : forall ts, Forall P ts -> P (GSum ts).

Fixpoint graph_ind' (g : graph R) : P g :=
  match g with
  | GTerminal e => Ht e
  | GIter k o n => Hi k o n (graph_ind' n)
  | GSum ts => Hs ts ((fix go (l : list (graph R)) : Forall P l :=
                         match l with
                         | [] => Forall_nil P
                         | t :: r => Forall_cons t (graph_ind' t) (go r)
                         end) ts)
  end.
End GraphInd.

(** * the boolean permutation test *)
Section Permb.
Variable A : Type.
Variable eqb : A -> A -> bool.

Lemma remove_first_sound : forall x l l',
  remove_first eqb x l = Some l' -> exists y, eqb x y = true /\ Permutation l (y :: l').
Proof.
  induction l; simpl; intros l' H; [discriminate|].
  destruct (eqb x a) eqn:E.
  - inversion H; subst. exists a; split; auto.
  - destruct (remove_first eqb x l) as [r'|] eqn:Er; [|discriminate].
    inversion H; subst. destruct (IHl r' eq_refl) as [y [Hy Hp]].
    exists y; split; auto.
    eapply Permutation_trans; [apply perm_skip; apply Hp | apply perm_swap].
Qed.

Lemma permb_sound : forall l1 l2, permb eqb l1 l2 = true ->
  exists l2', Permutation l2 l2' /\ Forall2 (fun x y => eqb x y = true) l1 l2'.
Proof.
  induction l1; simpl; intros l2 H.
  - destruct l2; [|discriminate]. exists []; split; auto.
  - destruct (remove_first eqb a l2) as [r|] eqn:Er; [|discriminate].
    destruct (remove_first_sound _ _ _ Er) as [y [Hy Hp]].
    destruct (IHl1 r H) as [r' [Hp' Hf]].
    exists (y :: r'); split.
    + eapply Permutation_trans; [apply Hp | apply perm_skip; auto].
    + constructor; auto.
Qed.
End Permb.

Lemma strs_eqb_sound : forall a b, strs_eqb a b = true -> a = b.
Proof.
  induction a; destruct b; simpl; intros; try discriminate; auto.
  apply andb_true_iff in H. destruct H as [H1 H2]. apply String.eqb_eq in H1. subst.
  f_equal; auto.
Qed.

Lemma permb_string_sound : forall l1 l2, permb String.eqb l1 l2 = true -> Permutation l1 l2.
Proof.
  intros l1 l2 H. destruct (permb_sound _ _ _ _ H) as [l2' [Hp Hf]].
  assert (l1 = l2').
  { clear Hp H. induction Hf; auto. apply String.eqb_eq in H. subst. f_equal; auto. }
  subst. apply Permutation_sym; auto.
Qed.

Lemma nodupb_sound : forall l, nodupb l = true -> NoDup l.
Proof.
  induction l; simpl; intros; constructor.
  - apply andb_true_iff in H. destruct H as [H _]. apply negb_true_iff, smem_false in H; auto.
  - apply andb_true_iff in H. destruct H; auto.
Qed.

Lemma disjointb_sound : forall a b, disjointb a b = true -> forall k, In k a -> ~ In k b.
Proof.
  intros a b H k Hk. unfold disjointb in H. rewrite forallb_forall in H.
  specialize (H k Hk). apply negb_true_iff, smem_false in H; auto.
Qed.

Section Sound.
Variable O : ringops.
Hypothesis Oth : ring_ok O.
Let Oth' : ring_theory (@r0 O) (@r1 O) (@radd O) (@rmul O) (@rsub O) (@ropp O) (@eq O) := Oth.
Add Ring Oring6 : Oth'.

Variable E : env O.
Variable sizes : string -> Z.
Variable ords : string -> list nat.
Variable Reqb : O -> O -> bool.
Hypothesis Reqb_sound : forall x y, Reqb x y = true -> x = y.

Local Notation sum_over := (sum_over (O := O) sizes).
Local Notation ninterp := (ninterp (O := O) E sizes).
Local Notation ninterp1 := (ninterp1 (O := O) E sizes).

Lemma nsign_nmul : forall a b : nmono O, nsign (nmul a b) = xorb (nsign a) (nsign b).
Proof. reflexivity. Qed.
Lemma nfactors_nmul : forall a b : nmono O, nfactors (nmul a b) = nfactors a ++ nfactors b.
Proof. reflexivity. Qed.
Lemma nsummed_nmul : forall a b : nmono O, nsummed (nmul a b) = nsummed a ++ nsummed b.
Proof. reflexivity. Qed.
Lemma nsign_add_summed : forall k (m : nmono O), nsign (add_summed k m) = nsign m.
Proof. reflexivity. Qed.
Lemma nfactors_add_summed : forall k (m : nmono O), nfactors (add_summed k m) = nfactors m.
Proof. reflexivity. Qed.
Lemma nsummed_add_summed : forall k (m : nmono O), nsummed (add_summed k m) = k :: nsummed m.
Proof. reflexivity. Qed.

Definition nF (m : nmono O) (r : val) : O := rprod (map (eval_factor E r) (nfactors m)).

Lemma nF_depends : forall m, depends_on O (nidx m) (nF m).
Proof.
  intros m rho rho' A. unfold nF, nidx in *. f_equal. apply map_ext_in. intros f Hf.
  apply (eval_factor_depends O E f). intros x Hx. apply A. apply in_flat_map; exists f; auto.
Qed.

Lemma nF_val_ext : forall m, val_ext O (nF m).
Proof. intros; eapply depends_on_ext; apply nF_depends. Qed.

Lemma ninterp1_unfold : forall m rho,
  ninterp1 m rho = sgn (nsign m) (sum_over (nsummed m) (nF m) rho).
Proof. reflexivity. Qed.

Lemma ninterp_app : forall a b rho, ninterp (a ++ b) rho = radd (ninterp a rho) (ninterp b rho).
Proof. intros; unfold DesugarSemGraph.ninterp. rewrite map_app. apply rsum_app; auto. Qed.

Lemma ninterp_add_summed : forall k ms rho,
  ninterp (map (add_summed k) ms) rho
  = rsum (map (fun v => ninterp ms (upd rho k v)) (zrange (sizes k))).
Proof.
  intros. unfold DesugarSemGraph.ninterp. rewrite map_map.
  rewrite (rsum_swap O Oth _ _ (fun v m => ninterp1 m (upd rho k v))).
  apply rsum_map_ext. intros m _.
  rewrite ninterp1_unfold. rewrite nsign_add_summed, nsummed_add_summed. simpl sum_over.
  rewrite <- rsum_map_sgn; auto.
Qed.

Lemma nF_nmul : forall a b r, nF (nmul a b) r = rmul (nF a r) (nF b r).
Proof. intros; unfold nF. rewrite nfactors_nmul, map_app. apply rprod_app; auto. Qed.

Lemma ninterp1_nmul : forall a b rho, nmul_ok a b = true ->
  ninterp1 (nmul a b) rho = rmul (ninterp1 a rho) (ninterp1 b rho).
Proof.
  intros a b rho H. apply andb_true_iff in H. destruct H as [H1 H2].
  rewrite !ninterp1_unfold. rewrite nsign_nmul, nsummed_nmul.
  rewrite <- sgn_xorb_mul; auto. f_equal.
  rewrite (sum_over_product O Oth sizes (nidx a) (nidx b) (nF a) (nF b)); auto.
  - apply sum_over_ext. intros; apply nF_nmul.
  - apply nF_depends.
  - apply nF_depends.
  - apply disjointb_sound; auto.
  - apply disjointb_sound; auto.
Qed.

Lemma ninterp_nprod : forall la lb rho,
  (forall a b, In a la -> In b lb -> nmul_ok a b = true) ->
  ninterp (nprod la lb) rho = rmul (ninterp la rho) (ninterp lb rho).
Proof.
  induction la; intros lb rho H.
  - unfold DesugarSemGraph.ninterp; simpl. ring.
  - unfold nprod; simpl. fold (nprod la lb). rewrite ninterp_app, IHla.
    2:{ intros; apply H; auto. right; auto. }
    unfold DesugarSemGraph.ninterp at 1 3. simpl. rewrite map_map.
    rewrite (rsum_map_ext O _ _ (fun b => rmul (ninterp1 a rho) (ninterp1 b rho))).
    2:{ intros b Hb. apply ninterp1_nmul. apply H; auto. left; auto. }
    rewrite rsum_map_mul_l; auto. unfold DesugarSemGraph.ninterp. simpl. ring.
Qed.

(** ** desugared expressions *)
Lemma nf_d_sound : forall (d : dexpr O) ms, nf_d d = Some ms ->
  forall rho, denote E sizes d rho = ninterp ms rho.
Proof.
  induction d; simpl; intros ms H rho.
  - inversion H; subst. unfold DesugarSemGraph.ninterp, DesugarSemGraph.ninterp1; simpl. ring.
  - inversion H; subst. unfold DesugarSemGraph.ninterp, DesugarSemGraph.ninterp1; simpl. ring.
  - inversion H; subst. unfold DesugarSemGraph.ninterp, DesugarSemGraph.ninterp1; simpl. ring.
  - destruct (nf_d d1) as [x|]; [|discriminate]. destruct (nf_d d2) as [y|]; [|discriminate].
    inversion H; subst. rewrite ninterp_app, (IHd1 x), (IHd2 y); auto.
  - destruct (nf_d d1) as [x|]; [|discriminate]. destruct (nf_d d2) as [y|]; [|discriminate].
    destruct (forallb (fun ma => forallb (nmul_ok ma) y) x) eqn:Hok; [|discriminate].
    inversion H; subst. rewrite ninterp_nprod, (IHd1 x), (IHd2 y); auto.
    intros a b Ha Hb. rewrite forallb_forall in Hok. specialize (Hok a Ha).
    rewrite forallb_forall in Hok. auto.
  - destruct (nf_d d) as [x|]; [|discriminate]. inversion H; subst.
    rewrite ninterp_add_summed. apply rsum_map_ext. intros; apply IHd; auto.
Qed.

(** ** terminal expressions and graphs *)
Lemma nf_i_summed : forall (e : iexpr O) m, In m (nf_i ords e) -> nsummed m = [].
Proof.
  induction e; simpl; intros m H.
  - destruct H as [<-|[]]; auto.
  - destruct H as [<-|[]]; auto.
  - destruct H as [<-|[]]; auto.
  - apply in_app_or in H; destruct H; auto.
  - unfold nprod in H. apply in_flat_map in H. destruct H as [a [Ha H]].
    apply in_map_iff in H. destruct H as [b [<- Hb]]. unfold nmul; simpl.
    rewrite (IHe1 a Ha), (IHe2 b Hb); auto.
Qed.

Lemma nf_i_sound : forall (e : iexpr O) rho, ieval E ords rho e = ninterp (nf_i ords e) rho.
Proof.
  induction e; intros rho; simpl.
  - unfold DesugarSemGraph.ninterp, DesugarSemGraph.ninterp1; simpl. ring.
  - unfold DesugarSemGraph.ninterp, DesugarSemGraph.ninterp1; simpl. ring.
  - unfold DesugarSemGraph.ninterp, DesugarSemGraph.ninterp1; simpl. ring.
  - rewrite ninterp_app, IHe1, IHe2; auto.
  - rewrite ninterp_nprod, IHe1, IHe2; auto.
    intros a b Ha Hb. unfold nmul_ok. rewrite (nf_i_summed e1 a Ha), (nf_i_summed e2 b Hb). reflexivity.
Qed.

Lemma nf_g_sound : forall (g : graph O) rho, gdenote E sizes ords g rho = ninterp (nf_g ords g) rho.
Proof.
  intros g. induction g using graph_ind'; intros rho.
  - simpl. apply nf_i_sound.
  - destruct o; simpl.
    + apply IHg.
    + rewrite ninterp_add_summed. apply rsum_map_ext. intros; apply IHg.
  - simpl. induction H; simpl.
    + unfold DesugarSemGraph.ninterp; reflexivity.
    + rewrite ninterp_app, H. f_equal. apply IHForall.
Qed.

(** ** equal normal forms denote the same *)
Lemma rprod_perm : forall l l' : list O, Permutation l l' -> rprod l = rprod l'.
Proof. induction 1; simpl; [reflexivity | congruence | ring | congruence]. Qed.

Lemma factor_eqb_sound : forall a b : factor O, factor_eqb Reqb a b = true -> a = b.
Proof.
  destruct a, b; simpl; intros H; try discriminate.
  - apply Z.eqb_eq in H; subst; auto.
  - apply Reqb_sound in H; subst; auto.
  - apply andb_true_iff in H. destruct H as [H1 H2]. apply String.eqb_eq in H1.
    apply strs_eqb_sound in H2. subst; auto.
Qed.

Lemma permb_factor_sound : forall l1 l2 : list (factor O),
  permb (factor_eqb Reqb) l1 l2 = true -> Permutation l1 l2.
Proof.
  intros l1 l2 H. destruct (permb_sound _ _ _ _ H) as [l2' [Hp Hf]].
  assert (l1 = l2').
  { clear Hp H. induction Hf; auto. apply factor_eqb_sound in H. subst. f_equal; auto. }
  subst. apply Permutation_sym; auto.
Qed.

Lemma nmono_eqb_sound : forall a b rho, nmono_eqb Reqb a b = true -> ninterp1 a rho = ninterp1 b rho.
Proof.
  intros a b rho H. unfold nmono_eqb in H.
  apply andb_true_iff in H. destruct H as [H H4]. apply andb_true_iff in H. destruct H as [H H3].
  apply andb_true_iff in H. destruct H as [H1 H2].
  apply eqb_prop in H1. apply permb_factor_sound in H2. apply nodupb_sound in H3.
  apply permb_string_sound in H4.
  rewrite !ninterp1_unfold. rewrite H1. f_equal.
  rewrite (sum_over_perm O Oth sizes _ _ H4 H3 (nF a) rho (nF_val_ext a)).
  apply sum_over_ext. intros r. unfold nF. apply rprod_perm. apply Permutation_map; auto.
Qed.

Lemma permb_nmono_sound : forall l1 l2 rho,
  permb (nmono_eqb Reqb) l1 l2 = true -> ninterp l1 rho = ninterp l2 rho.
Proof.
  intros l1 l2 rho H. destruct (permb_sound _ _ _ _ H) as [l2' [Hp Hf]].
  unfold DesugarSemGraph.ninterp.
  rewrite (rsum_perm O Oth _ _ (Permutation_map (fun m => ninterp1 m rho) Hp)).
  clear Hp H. induction Hf; simpl; auto.
  rewrite (nmono_eqb_sound _ _ rho H), IHHf. reflexivity.
Qed.

(** moving the factors [-1] into the sign does not change the meaning *)
Lemma m1_parity_sound : forall (fs : list (factor O)) r,
  rprod (map (eval_factor E r) fs)
  = sgn (m1_parity fs) (rprod (map (eval_factor E r) (filter (fun f => negb (is_m1 f)) fs))).
Proof.
  induction fs; intros r; simpl.
  - reflexivity.
  - rewrite IHfs. destruct (is_m1 a) eqn:Hm; simpl.
    + destruct a; simpl in Hm; try discriminate. apply Z.eqb_eq in Hm. subst. simpl eval_factor.
      change (of_Z (-1)) with (@of_Z O (-1)). rewrite of_Z_m1_mul; auto.
      destruct (m1_parity fs); simpl; ring.
    + rewrite sgn_mul_r; auto. destruct (m1_parity fs); reflexivity.
Qed.

Lemma nsign_ncanon : forall m : nmono O, nsign (ncanon m) = xorb (nsign m) (m1_parity (nfactors m)).
Proof. reflexivity. Qed.
Lemma nfactors_ncanon : forall m : nmono O,
  nfactors (ncanon m) = filter (fun f => negb (is_m1 f)) (nfactors m).
Proof. reflexivity. Qed.
Lemma nsummed_ncanon : forall m : nmono O, nsummed (ncanon m) = nsummed m.
Proof. reflexivity. Qed.

Lemma ncanon_sound : forall m rho, ninterp1 (ncanon m) rho = ninterp1 m rho.
Proof.
  intros m rho. rewrite !ninterp1_unfold. rewrite nsign_ncanon, nsummed_ncanon.
  rewrite <- sgn_sgn; auto. f_equal.
  rewrite <- sum_over_sgn; auto. apply sum_over_ext. intros r. unfold nF. rewrite nfactors_ncanon.
  symmetry. apply m1_parity_sound.
Qed.

Lemma ninterp_ncanon : forall ms rho, ninterp (map ncanon ms) rho = ninterp ms rho.
Proof.
  intros. unfold DesugarSemGraph.ninterp. rewrite map_map. apply rsum_map_ext. intros; apply ncanon_sound.
Qed.

(** THE THEOREM: an accepted graph computes, as a loop nest, the desugared expression. *)
Theorem graph_validator_sound : forall (d : dexpr O) (g : graph O),
  graph_ok ords Reqb d g = true ->
  forall rho, gdenote E sizes ords g rho = denote E sizes d rho.
Proof.
  intros d g H rho. unfold graph_ok in H.
  destruct (nf_d d) as [a|] eqn:Ed; [|discriminate].
  rewrite (nf_d_sound d a Ed), nf_g_sound.
  rewrite <- (ninterp_ncanon a), <- (ninterp_ncanon (nf_g ords g)).
  symmetry. apply permb_nmono_sound; auto.
Qed.

(** The checker against the specification: an accepted graph computes the specification. *)
Lemma nf_spec_sound : forall (a : assignment O) c,
  ninterp (nf_spec a) (bind (tgt_idx a) c) = spec a E sizes c.
Proof.
  intros. unfold DesugarSemGraph.ninterp, nf_spec, spec. rewrite map_map. reflexivity.
Qed.

Theorem graph_spec_validator_sound : forall (a : assignment O) (g : graph O),
  graph_ok_spec ords Reqb a g = true ->
  forall c, gdenote E sizes ords g (bind (tgt_idx a) c) = spec a E sizes c.
Proof.
  intros a g H c. unfold graph_ok_spec in H.
  rewrite nf_g_sound, <- nf_spec_sound.
  rewrite <- (ninterp_ncanon (nf_spec a)), <- (ninterp_ncanon (nf_g ords g)).
  symmetry. apply permb_nmono_sound; auto.
Qed.

(** Composition with part B: a graph accepted against the desugared right-hand side computes the
    specification -- for the repaired desugaring always, for today's under its guard. *)
Theorem graph_pipeline_correct :
  forall (ord : nat -> list string -> list string),
    (forall n l, Permutation (ord n l) l) ->
  forall (fixed : bool) (a : assignment O) (g : graph O),
    (fixed = true \/ assignment_hoist_ok a = true) ->
    graph_ok ords Reqb (desugar_rhs ord fixed a) g = true ->
    forall c, gdenote E sizes ords g (bind (tgt_idx a) c) = spec a E sizes c.
Proof.
  intros ord Hord fixed a g Hf Hok c.
  rewrite (graph_validator_sound _ _ Hok).
  destruct fixed.
  - apply (desugar_fixed_correct O Oth E sizes ord Hord a c).
  - destruct Hf as [Hf | Hf]; [discriminate|].
    apply (desugar_cur_correct_when_hoist_ok O Oth E sizes ord Hord a c Hf).
Qed.

End Sound.
