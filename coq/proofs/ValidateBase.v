(** Basic facts about association lists, string sets and participant sets (model/ExprAst.v). *)

From Coq Require Import String List ZArith Bool Arith Lia Permutation.
From TV Require Import model.ExprAst.
Import ListNotations.

(* ------------------------------------------------------------------------------------------ *)
(** * string membership *)

Lemma smem_In : forall x l, smem x l = true <-> In x l.
Proof.
  induction l as [|y t IH]; simpl.
  - split; [discriminate | tauto].
  - rewrite orb_true_iff, IH, String.eqb_eq. split; intros [H|H]; auto.
Qed.

Lemma smem_false : forall x l, smem x l = false <-> ~ In x l.
Proof.
  intros x l. rewrite <- smem_In. destruct (smem x l); split; intros; congruence.
Qed.

Lemma sdedup_acc_In : forall l seen x,
  In x (sdedup_acc seen l) <-> In x l /\ ~ In x seen.
Proof.
  induction l as [|y t IH]; intros seen x; simpl.
  - tauto.
  - destruct (smem y seen) eqn:E.
    + apply smem_In in E. rewrite IH. split.
      * intros [H1 H2]. auto.
      * intros [[H1|H1] H2]; [subst; tauto | auto].
    + apply smem_false in E. simpl. rewrite IH. simpl. split.
      * intros [H|[H1 H2]]; [subst; auto | split; auto].
      * intros [[H1|H1] H2]; [auto|].
        destruct (string_dec y x); [auto|]. right. split; auto. intros [H|H]; auto.
Qed.

Lemma sdedup_acc_NoDup : forall l seen, NoDup (sdedup_acc seen l).
Proof.
  induction l as [|y t IH]; intros seen; simpl.
  - constructor.
  - destruct (smem y seen) eqn:E; [apply IH|].
    constructor; [|apply IH].
    rewrite sdedup_acc_In. simpl. tauto.
Qed.

Lemma sdedup_In : forall l x, In x (sdedup l) <-> In x l.
Proof. intros. unfold sdedup. rewrite sdedup_acc_In. simpl. tauto. Qed.

Lemma sdedup_NoDup : forall l, NoDup (sdedup l).
Proof. intros. apply sdedup_acc_NoDup. Qed.

(* ------------------------------------------------------------------------------------------ *)
(** * association lists *)

Section Assoc.
  Context {V : Type}.
  Implicit Types l : list (string * V).

  Lemma aget_In : forall k v l, aget k l = Some v -> In (k, v) l.
  Proof.
    induction l as [|[k' v'] t IH]; simpl; [discriminate|].
    destruct (String.eqb k k') eqn:E.
    - apply String.eqb_eq in E. intros H; inversion H; subst; auto.
    - auto.
  Qed.

  Lemma aget_None : forall k l, aget k l = None <-> ~ In k (akeys l).
  Proof.
    induction l as [|[k' v'] t IH]; simpl; [tauto|].
    destruct (String.eqb k k') eqn:E.
    - apply String.eqb_eq in E. subst. split; [discriminate | tauto].
    - apply String.eqb_neq in E. rewrite IH. split; intros H; [intros [H1|H1]; congruence | tauto].
  Qed.

  Lemma aget_Some_key : forall k v l, aget k l = Some v -> In k (akeys l).
  Proof.
    intros k v l H. destruct (in_dec string_dec k (akeys l)) as [i|n]; [exact i|].
    apply aget_None in n. congruence.
  Qed.

  Lemma aget_key_Some : forall k l, In k (akeys l) -> exists v, aget k l = Some v.
  Proof.
    intros k l H. destruct (aget k l) eqn:E; [eauto|]. apply aget_None in E. contradiction.
  Qed.

  Lemma aget_NoDup_In : forall k v l, NoDup (akeys l) -> In (k, v) l -> aget k l = Some v.
  Proof.
    induction l as [|[k' v'] t IH]; simpl; [tauto|].
    intros ND [H|H].
    - inversion H; subst. rewrite String.eqb_refl. reflexivity.
    - inversion ND as [|? ? Hn ND']; subst.
      destruct (String.eqb k k') eqn:E.
      + apply String.eqb_eq in E. subst. exfalso. apply Hn.
        unfold akeys. change k' with (fst (k', v)). apply in_map. exact H.
      + auto.
  Qed.

  Lemma amem_In : forall k l, amem k l = true <-> In k (akeys l).
  Proof.
    intros. unfold amem. destruct (aget k l) eqn:E.
    - split; [intros _; eapply aget_Some_key; eauto | auto].
    - apply aget_None in E. split; [discriminate | contradiction].
  Qed.

  Lemma aget_aput_same : forall k v l, aget k (aput k v l) = Some v.
  Proof.
    induction l as [|[k' v'] t IH]; simpl.
    - rewrite String.eqb_refl. reflexivity.
    - destruct (String.eqb k k') eqn:E; simpl; rewrite E; auto.
  Qed.

  Lemma aget_aput_other : forall k k' v l, k <> k' -> aget k' (aput k v l) = aget k' l.
  Proof.
    induction l as [|[k2 v2] t IH]; simpl; intros Hne.
    - destruct (String.eqb k' k) eqn:E; [apply String.eqb_eq in E; congruence | reflexivity].
    - destruct (String.eqb k k2) eqn:E; simpl.
      + apply String.eqb_eq in E. subst k2.
        destruct (String.eqb k' k) eqn:E2; [apply String.eqb_eq in E2; congruence | reflexivity].
      + rewrite IH by assumption. reflexivity.
  Qed.

  Lemma akeys_aput_In : forall k v l x, In x (akeys (aput k v l)) <-> x = k \/ In x (akeys l).
  Proof.
    induction l as [|[k2 v2] t IH]; simpl; intros x.
    - split; intros [H|H]; auto; tauto.
    - destruct (String.eqb k k2) eqn:E; simpl.
      + apply String.eqb_eq in E. subst. split; [auto | intros [H|H]; auto].
      + rewrite IH. split; intros H; tauto.
  Qed.

  Lemma akeys_aput_NoDup : forall k v l, NoDup (akeys l) -> NoDup (akeys (aput k v l)).
  Proof.
    induction l as [|[k2 v2] t IH]; simpl; intros ND.
    - constructor; [simpl; tauto | constructor].
    - inversion ND as [|? ? Hn ND']; subst.
      destruct (String.eqb k k2) eqn:E; simpl.
      + constructor; assumption.
      + apply String.eqb_neq in E. constructor; [|auto].
        fold (akeys (aput k v t)). rewrite akeys_aput_In. intros [H|H]; [congruence | contradiction].
  Qed.

  (** keys of [aput]: unchanged when present, appended otherwise *)
  Lemma akeys_aput : forall k v l,
    akeys (aput k v l) = if amem k l then akeys l else akeys l ++ [k].
  Proof.
    induction l as [|[k2 v2] t IH]; simpl.
    - reflexivity.
    - unfold amem in *. simpl. destruct (String.eqb k k2) eqn:E; simpl.
      + reflexivity.
      + rewrite IH. destruct (aget k t); reflexivity.
  Qed.

  (** lookup in a table built from a key list *)
  Lemma aget_map_keys : forall (f : string -> V) ks k,
    aget k (map (fun x => (x, f x)) ks) = if smem k ks then Some (f k) else None.
  Proof.
    induction ks as [|y t IH]; intros k; simpl.
    - reflexivity.
    - destruct (String.eqb k y) eqn:E; simpl.
      + apply String.eqb_eq in E. subst. reflexivity.
      + apply IH.
  Qed.

  Lemma akeys_map_keys : forall (f : string -> V) ks, akeys (map (fun x => (x, f x)) ks) = ks.
  Proof.
    intros. unfold akeys. rewrite map_map. simpl. apply map_id.
  Qed.
End Assoc.

(* ------------------------------------------------------------------------------------------ *)
(** * participant sets *)

Lemma participant_eqb_eq : forall a b, participant_eqb a b = true <-> a = b.
Proof.
  intros [a1 a2] [b1 b2]. unfold participant_eqb. simpl.
  rewrite andb_true_iff, String.eqb_eq, Nat.eqb_eq. split.
  - intros [H1 H2]; subst; reflexivity.
  - intros H; inversion H; auto.
Qed.

Lemma pmem_In : forall x l, pmem x l = true <-> In x l.
Proof.
  induction l as [|y t IH]; simpl.
  - split; [discriminate | tauto].
  - rewrite orb_true_iff, IH, participant_eqb_eq. split; intros [H|H]; auto.
Qed.

Lemma punion_In : forall a b x, In x (punion a b) <-> In x a \/ In x b.
Proof.
  intros a b x. unfold punion. rewrite in_app_iff, filter_In. split.
  - intros [H|[H _]]; auto.
  - intros [H|H]; auto.
    destruct (pmem x a) eqn:E.
    + apply pmem_In in E. auto.
    + right. split; auto.
Qed.

Lemma aget_nil_In_key : forall k m x, In x (aget_nil k m) -> In k (akeys m).
Proof.
  intros k m x H. unfold aget_nil in H. destruct (aget k m) eqn:E.
  - eapply aget_Some_key; eauto.
  - contradiction.
Qed.

(* ------------------------------------------------------------------------------------------ *)
(** * misc *)

Lemma Permutation_NoDup' : forall {A} (l l' : list A), Permutation l l' -> NoDup l' -> NoDup l.
Proof. intros. eapply Permutation_NoDup; [apply Permutation_sym; eauto | auto]. Qed.
