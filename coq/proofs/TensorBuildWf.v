(** The arrays produced by [emit] are well formed (Storage.wf_tensorb, i.e. canonical: pos starts at
    0, weakly increasing, right lengths; crd strictly increasing in every segment and in range;
    one value per leaf position), for every format / dimensions / in-range coordinates.
    Axiom-free. *)

From Coq Require Import ZArith List Bool Lia ZifyBool Permutation Arith.
From TV Require Import spec.Storage model.TensorBuild proofs.StorageLemmas proofs.TensorBuildLemmas.
Import ListNotations.
Open Scope Z_scope.

(** * in-range invariant of the implicit trie *)

Definition lv_dims_ok (lv : list (mode * Z)) : Prop := Forall (fun md => 0 <= snd md) lv.

Fixpoint coord_in_range (lv : list (mode * Z)) (c : list Z) : Prop :=
  match lv, c with
  | [], [] => True
  | (_, d) :: r, x :: c' => 0 <= x < d /\ coord_in_range r c'
  | _, _ => False
  end.

Definition node_in_range (lv : list (mode * Z)) (nd : node) : Prop :=
  Forall (fun e : entry => coord_in_range lv (fst e)) nd.

Lemma coord_in_range_length lv c : coord_in_range lv c -> length c = length lv.
Proof.
  revert c. induction lv as [|[m d] lv IH]; intros [|x c] H; cbn in H; try contradiction; [reflexivity|].
  cbn [length]. f_equal. apply IH. tauto.
Qed.

Lemma select_in_range m d r k nd :
  node_in_range ((m, d) :: r) nd -> node_in_range r (select k nd).
Proof.
  unfold node_in_range. rewrite !Forall_forall. intros H [t v] Hin.
  apply select_In in Hin. specialize (H _ Hin). cbn in H. tauto.
Qed.

Lemma keys_in_range m d r nd k :
  node_in_range ((m, d) :: r) nd -> In k (keys nd) -> 0 <= k < d.
Proof.
  unfold node_in_range. rewrite Forall_forall. intros H Hk.
  apply keys_In, heads_In in Hk. destruct Hk as (t & v & Hin).
  specialize (H _ Hin). cbn in H. tauto.
Qed.

(** * lengths of the next level's node list *)

Lemma flat_map_length_uniform {A B} (f : A -> list B) l n :
  (forall a, length (f a) = n) -> length (flat_map f l) = (length l * n)%nat.
Proof.
  intros H. induction l as [|a l IH]; [reflexivity|].
  cbn [flat_map length]. rewrite app_length, H, IH. lia.
Qed.

Lemma dense_children_zlen d (nodes : list node) :
  0 <= d ->
  zlen (flat_map (fun nd => map (fun i => select i nd) (zrange d)) nodes) = zlen nodes * d.
Proof.
  intros Hd. unfold zlen.
  rewrite (flat_map_length_uniform _ _ (Z.to_nat d)).
  - lia.
  - intros a. now rewrite map_length, zrange_length.
Qed.

Lemma compressed_children_length (nodes : list node) :
  length (flat_map (fun nd => map (fun k => select k nd) (keys nd)) nodes)
  = length (concat (map keys nodes)).
Proof.
  induction nodes as [|nd nodes IH]; [reflexivity|].
  cbn [flat_map map concat]. rewrite !app_length, map_length, IH. reflexivity.
Qed.

(** * the pos/crd pair of one compressed level *)

Lemma offsets_wf_compressed (nodes : list node) m d r :
  Forall (node_in_range ((m, d) :: r)) nodes ->
  wf_compressedb (zlen nodes) d (offsets (map keys nodes)) (concat (map keys nodes)) = true.
Proof.
  intros Hr. set (ks := map keys nodes).
  assert (length ks = length nodes) as Lks by (unfold ks; apply map_length).
  unfold wf_compressedb. rewrite !andb_true_iff. repeat split.
  - unfold zlen, offsets. rewrite offsets_from_length. lia.
  - unfold offsets. destruct ks; reflexivity.
  - apply offsets_weakly_increasing_from.
  - unfold zlen at 1. rewrite <- Lks. rewrite nthZ_of_nat.
    rewrite (nth_indep _ (-1) 0) by (unfold offsets; rewrite offsets_from_length; lia).
    rewrite offsets_nth by lia. rewrite firstn_all. unfold zlen. lia.
  - apply forallb_forall. intros p Hp. apply In_zrange in Hp. unfold zlen in Hp.
    replace p with (Z.of_nat (Z.to_nat p)) by lia.
    rewrite segment_offsets by lia.
    unfold ks. change (@nil Z) with (keys []). rewrite map_nth. apply keys_si.
  - apply forallb_forall. intros c Hc. apply in_concat in Hc. destruct Hc as (l & Hl & Hc).
    unfold ks in Hl. apply in_map_iff in Hl. destruct Hl as (nd & <- & Hnd).
    rewrite Forall_forall in Hr. specialize (Hr nd Hnd).
    pose proof (keys_in_range _ _ _ _ _ Hr Hc). lia.
Qed.

(** * the whole level list *)

Lemma emit_wf lv : forall nodes ls vs,
  lv_dims_ok lv -> Forall (node_in_range lv) nodes -> emit lv nodes = (ls, vs) ->
  wf_levelsb (combine ls (map snd lv)) (zlen nodes) = Some (zlen vs)
  /\ map mode_of_level ls = map fst lv.
Proof.
  induction lv as [|[m d] lv IH]; intros nodes ls vs Hd Hr E.
  - cbn in E. inversion E; subst. cbn. now rewrite zlen_map.
  - inversion Hd as [|? ? Hd0 Hd']; subst. cbn [snd] in Hd0.
    destruct m; cbn [emit] in E.
    + destruct (emit lv _) as [ls' vs'] eqn:E'. inversion E; subst. clear E.
      apply IH in E'; [|assumption|].
      * destruct E' as [W M]. cbn [map snd fst combine wf_levelsb mode_of_level].
        rewrite dense_children_zlen in W by assumption.
        destruct (0 <=? d) eqn:Ed; [|lia]. split; [exact W|now rewrite M].
      * apply Forall_forall. intros ch Hch. apply in_flat_map in Hch.
        destruct Hch as (nd & Hnd & Hch). apply in_map_iff in Hch. destruct Hch as (i & <- & _).
        rewrite Forall_forall in Hr. eapply select_in_range. apply Hr. exact Hnd.
    + destruct (emit lv _) as [ls' vs'] eqn:E'. inversion E; subst. clear E.
      apply IH in E'; [|assumption|].
      * destruct E' as [W M]. cbn [map snd fst combine wf_levelsb mode_of_level].
        rewrite (offsets_wf_compressed nodes MCompressed d lv Hr).
        unfold zlen in W at 1. rewrite compressed_children_length in W.
        split; [exact W|now rewrite M].
      * apply Forall_forall. intros ch Hch. apply in_flat_map in Hch.
        destruct Hch as (nd & Hnd & Hch). apply in_map_iff in Hch. destruct Hch as (k & <- & _).
        rewrite Forall_forall in Hr. eapply select_in_range. apply Hr. exact Hnd.
Qed.
