(** TIE "append", the protocol theorem of C02 on sequences of EMITTED fragments: the invariant of
    proofs/AppendProofs.v ([inv]: the crd block holds the concatenated segments as a prefix, the pos
    block holds [pos_of_segs] as a prefix, cursor = number of stored coordinates, capacity = block
    length) is carried by machine runs of the emitted append / pos-assembly fragments. *)

From Coq Require Import ZArith Bool List String Lia FMapPositive.
From TV Require Import spec.Num spec.Storage gen.IRAst spec.IRSem gen.AppendGen model.Append
  proofs.AppendProofs proofs.GenAppend_machine proofs.GenAppend_equiv.
Import ListNotations.
Open Scope Z_scope.

Theorem emitted_protocol_inv n N ix segs st tr0 c0 pb cb L S st' tr :
  names_distinct N [ix] -> level_at st N pb cb L -> ivar st ix c0 ->
  inv L S -> zlen S + zlen segs + 1 <= zlen (b_arr (s_pos L)) ->
  run_block (Datatypes.S (Datatypes.S (Datatypes.S (Datatypes.S (Datatypes.S n))))) (segs_stmts N ix (zlen S) segs) st tr0 = Normal st' tr ->
  exists L' cb', level_at st' N pb cb' L' /\ inv L' (S ++ segs)
                 /\ run_segs L (zlen S) segs = Some L'.
Proof.
  intros ND LA Hix I Room H.
  eapply run_segs_refines in H; eauto. destruct H as (L' & cb' & c1 & R & LA' & _).
  destruct (run_segs_ok segs L S I Room) as (L'' & R' & I' & _).
  rewrite R in R'. inversion R'; subst L''. exists L', cb'. auto.
Qed.

(** the theorems of proofs/GenAppend_equiv.v under this module's name (tools/props/_tie_append.py) *)
Definition gen_crd_assembly_shape := @GenAppend_equiv.gen_crd_assembly_shape.
Definition gen_crd_assembly_none := @GenAppend_equiv.gen_crd_assembly_none.
Definition gen_pos_assembly_shape := @GenAppend_equiv.gen_pos_assembly_shape.
Definition gen_pos_allocation_shape := @GenAppend_equiv.gen_pos_allocation_shape.
Definition exec_grow_double := @GenAppend_equiv.exec_grow_double.
Definition exec_grow_max := @GenAppend_equiv.exec_grow_max.
Definition crd_assembly_refines := @GenAppend_equiv.crd_assembly_refines.
Definition append_refines := @GenAppend_equiv.append_refines.
Definition pos_assembly_refines := @GenAppend_equiv.pos_assembly_refines.
Definition pos_allocation_double_refines := @GenAppend_equiv.pos_allocation_double_refines.
Definition pos_allocation_max_refines := @GenAppend_equiv.pos_allocation_max_refines.
Definition append_all_refines := @GenAppend_equiv.append_all_refines.
Definition run_segs_refines := @GenAppend_equiv.run_segs_refines.
Definition gen_declarations_c := @GenAppend_equiv.gen_declarations_c.
Definition gen_declarations_compute := @GenAppend_equiv.gen_declarations_compute.
Definition gen_declarations_dc := @GenAppend_equiv.gen_declarations_dc.
Definition gen_declarations_cc := @GenAppend_equiv.gen_declarations_cc.
Definition gen_cleanup_c := @GenAppend_equiv.gen_cleanup_c.
Definition gen_cleanup_cc := @GenAppend_equiv.gen_cleanup_cc.
Definition gen_cleanup_cd := @GenAppend_equiv.gen_cleanup_cd.
Definition gen_cleanup_compute := @GenAppend_equiv.gen_cleanup_compute.
