(** problem.py: the constructor checks, make_problem, equality / hash, and the kernel cache. *)

From Coq Require Import String List ZArith Bool Arith Lia Permutation.
From TV Require Import model.ExprAst model.Problem model.Validate
  proofs.ValidateBase proofs.ValidateIP proofs.ValidateCall proofs.ValidateVars proofs.ValidateWf.
Import ListNotations.

(* ------------------------------------------------------------------------------------------ *)
(** * [Problem(assignment, formats)] *)

Lemma post_init_loop_Error : forall fs vo e,
  post_init_loop vo fs = Error e ->
  (exists n o, e = EUndefinedReference n /\ In (n, o) vo /\ aget n fs = None) \/
  (exists n o f, e = EIncorrectDimensions n /\ In (n, o) vo /\ aget n fs = Some f /\ f_order f <> o).
Proof.
  induction vo as [|[n o] rest IH]; simpl; intros e H; [discriminate|].
  destruct (aget n fs) as [f|] eqn:E.
  - destruct (Nat.eqb o (f_order f)) eqn:E2.
    + destruct (IH e H) as [[n' [o' [H1 [H2 H3]]]]|[n' [o' [f' [H1 [H2 [H3 H4]]]]]]].
      * left. exists n', o'. auto.
      * right. exists n', o', f'. auto.
    + apply Nat.eqb_neq in E2. inversion H; subst. right. exists n, o, f. repeat split; auto.
  - inversion H; subst. left. exists n, o. auto.
Qed.

Theorem problem_ctor_spec : forall a fs,
  (forall p, problem_ctor a fs = Ok p <->
     p = Problem a fs /\
     forall n o, In (n, o) (variable_orders a) -> exists f, aget n fs = Some f /\ f_order f = o) /\
  (forall e, problem_ctor a fs = Error e ->
     (exists n o, e = EUndefinedReference n /\ In (n, o) (variable_orders a) /\ aget n fs = None) \/
     (exists n o f, e = EIncorrectDimensions n /\ In (n, o) (variable_orders a) /\
                    aget n fs = Some f /\ f_order f <> o)).
Proof.
  intros a fs. unfold problem_ctor, problem_post_init. split.
  - intros p. destruct (post_init_loop (variable_orders a) fs) as [[]|e] eqn:E.
    + pose proof (proj1 (post_init_loop_Ok _ _) E) as E'. split.
      * intros H; inversion H. split; [reflexivity|]. intros n o Hin.
        destruct (E' n o Hin) as [f [G1 G2]]. eauto.
      * intros [-> _]. reflexivity.
    + split; [discriminate|]. intros [_ H].
      assert (post_init_loop (variable_orders a) fs = Ok tt); [|congruence].
      apply post_init_loop_Ok. intros n o Hin. destruct (H n o Hin) as [f [H1 H2]]. eauto.
  - intros e. destruct (post_init_loop (variable_orders a) fs) as [[]|e'] eqn:E; [discriminate|].
    intros H; inversion H; subst. eapply post_init_loop_Error; eauto.
Qed.

(* ------------------------------------------------------------------------------------------ *)
(** * [TensorMethod.__init__]: no broadcasting into the target *)

Section Init.
  Variable ord : path -> list string -> list string.
  Hypothesis ord_perm : forall pth l, Permutation (ord pth l) l.

  Theorem tm_init_spec : forall p,
    problem_post_init (p_assignment p) (p_formats p) = Ok tt ->
    (tm_init ord p = Ok tt <->
       forall i, In i (t_indexes (a_target (p_assignment p))) ->
                 In i (flat_map t_indexes (occurrences (a_expr (p_assignment p))))) /\
    (forall e, tm_init ord p = Error e ->
       exists i, e = EBroadcastTargetIndex i /\ In i (t_indexes (a_target (p_assignment p))) /\
                 ~ In i (flat_map t_indexes (occurrences (a_expr (p_assignment p))))).
  Proof.
    intros p PI. unfold tm_init.
    assert (OF : exists f, aget (output_name p) (p_formats p) = Some f).
    { unfold problem_post_init in PI.
      destruct (proj1 (post_init_loop_Ok _ _) PI (output_name p) (t_order (a_target (p_assignment p))))
        as [f [H _]]; [left; reflexivity | eauto]. }
    destruct OF as [f Hf]. rewrite Hf.
    destruct (first_not_in _ _) as [i|] eqn:F.
    - apply first_not_in_Some in F. destruct F as [F1 F2]. split.
      + split; [discriminate|]. intros H. exfalso. apply F2.
        apply (ip_keys_indexes ord ord_perm). apply H. exact F1.
      + intros e H; inversion H; subst. exists i. repeat split; auto.
        intros Hc. apply F2. apply (ip_keys_indexes ord ord_perm). exact Hc.
    - apply first_not_in_None in F. split.
      + split; [|reflexivity]. intros _ i Hi. apply (ip_keys_indexes ord ord_perm _ []). apply F. exact Hi.
      + discriminate.
  Qed.
End Init.

(* ------------------------------------------------------------------------------------------ *)
(** * [make_problem] *)

Lemma first_unused_None : forall names vo, first_unused names vo = None <-> incl names (akeys vo).
Proof.
  induction names as [|n t IH]; intros vo; simpl.
  - split; [intros _ ? [] | reflexivity].
  - destruct (amem n vo) eqn:E.
    + apply amem_In in E. rewrite IH. split.
      * intros H x [->|Hx]; auto.
      * intros H x Hx. apply H. right. exact Hx.
    + split; [discriminate|]. intros H. exfalso.
      assert (amem n vo = true) by (apply amem_In, H; left; reflexivity). congruence.
Qed.

Lemma first_unused_Some : forall names vo n,
  first_unused names vo = Some n -> In n names /\ ~ In n (akeys vo).
Proof.
  induction names as [|x t IH]; intros vo n; simpl; [discriminate|].
  destruct (amem x vo) eqn:E.
  - intros H. apply IH in H. tauto.
  - intros H; inversion H; subst. split; [auto|]. intros Hc. apply amem_In in Hc. congruence.
Qed.

Lemma variable_orders_keys : forall a,
  akeys (variable_orders a) = t_name (a_target a) :: sdedup (map t_name (occurrences (a_expr a))).
Proof.
  intros a. unfold variable_orders. simpl. f_equal.
  rewrite <- variables_keys. unfold akeys. rewrite map_map. reflexivity.
Qed.

Lemma dense_format_order : forall o, f_order (dense_format o) = o.
Proof. intros. unfold f_order, dense_format. simpl. apply repeat_length. Qed.

Lemma fill_formats_keys : forall vo fs, akeys (fill_formats vo fs) = akeys vo.
Proof. intros. unfold fill_formats, akeys. rewrite map_map. reflexivity. Qed.

Lemma make_problem_Ok_inv : forall a fs p,
  make_problem a fs = Ok p ->
  first_unused (akeys fs) (variable_orders a) = None /\
  problem_post_init a (fill_formats (variable_orders a) fs) = Ok tt /\
  p = Problem a (fill_formats (variable_orders a) fs).
Proof.
  intros a fs p H. unfold make_problem in H.
  destruct (first_unused _ _); [discriminate|].
  unfold problem_ctor in H.
  destruct (problem_post_init a (fill_formats (variable_orders a) fs)) as [[]|]; [|discriminate].
  injection H as H. auto.
Qed.

Theorem make_problem_spec : forall a fs,
  (* an accepted request: same assignment; one format per tensor, the output first and the
     others in order of first appearance; each format is the given one, or all-dense of the
     tensor's order when none was given; every given name is used *)
  (forall p, make_problem a fs = Ok p ->
     p_assignment p = a /\
     akeys (p_formats p) = t_name (a_target a) :: sdedup (map t_name (occurrences (a_expr a))) /\
     (forall n f, In (n, f) (p_formats p) ->
        aget n fs = Some f \/
        (aget n fs = None /\ exists o, In (n, o) (variable_orders a) /\ f = dense_format o)) /\
     incl (akeys fs) (akeys (variable_orders a)) /\
     problem_post_init a (p_formats p) = Ok tt) /\
  (* an unused name is refused (the first one in the order given) *)
  (forall n, make_problem a fs = Error (EUnusedFormat n) <->
     first_unused (akeys fs) (variable_orders a) = Some n) /\
  ((exists n, In n (akeys fs) /\ ~ In n (akeys (variable_orders a))) ->
     exists n, make_problem a fs = Error (EUnusedFormat n) /\
               In n (akeys fs) /\ ~ In n (akeys (variable_orders a))) /\
  (* nothing else is refused, provided the given formats have the right orders *)
  (NoDup (akeys (variable_orders a)) ->
   incl (akeys fs) (akeys (variable_orders a)) ->
   (forall n f o, aget n fs = Some f -> In (n, o) (variable_orders a) -> f_order f = o) ->
   exists p, make_problem a fs = Ok p).
Proof.
  intros a fs. repeat split.
  - destruct (make_problem_Ok_inv _ _ _ H) as [F [PI ->]]. reflexivity.
  - destruct (make_problem_Ok_inv _ _ _ H) as [F [PI ->]]. unfold p_formats.
    rewrite fill_formats_keys. apply variable_orders_keys.
  - destruct (make_problem_Ok_inv _ _ _ H) as [F [PI ->]]. unfold p_formats.
    intros n f Hin. unfold fill_formats in Hin. apply in_map_iff in Hin.
    destruct Hin as [[n' o] [Heq Hin]]. unfold fst, snd in Heq. inversion Heq; subst n'.
    destruct (aget n fs) as [f'|] eqn:E.
    + left. congruence.
    + right. split; [reflexivity|]. exists o. split; [exact Hin | reflexivity].
  - destruct (make_problem_Ok_inv _ _ _ H) as [F [PI ->]]. apply first_unused_None in F. exact F.
  - destruct (make_problem_Ok_inv _ _ _ H) as [F [PI ->]]. exact PI.
  - unfold make_problem. destruct (first_unused _ _) eqn:F.
    + intros H; inversion H; reflexivity.
    + unfold problem_ctor. destruct (problem_post_init _ _) as [[]|e] eqn:E; [discriminate|].
      intros H. inversion H; subst.
      apply post_init_loop_Error in E.
      destruct E as [[? [? [? _]]]|[? [? [? [? _]]]]]; discriminate.
  - unfold make_problem. intros H. rewrite H. reflexivity.
  - unfold make_problem. intros [n [H1 H2]].
    destruct (first_unused (akeys fs) (variable_orders a)) as [m|] eqn:F.
    + exists m. apply first_unused_Some in F. tauto.
    + apply first_unused_None in F. exfalso. apply H2, F, H1.
  - unfold make_problem. intros ND Hincl Hord.
    destruct (first_unused _ _) eqn:F.
    + apply first_unused_Some in F. exfalso. destruct F as [F1 F2]. apply F2, Hincl, F1.
    + unfold problem_ctor, problem_post_init.
      assert (P : post_init_loop (variable_orders a) (fill_formats (variable_orders a) fs) = Ok tt).
      { apply post_init_loop_Ok. intros n o Hin.
        assert (G : aget n (fill_formats (variable_orders a) fs)
                    = Some (match aget n fs with Some f => f | None => dense_format o end)).
        { apply aget_NoDup_In; [rewrite fill_formats_keys; exact ND|].
          unfold fill_formats. apply in_map_iff. exists (n, o). auto. }
        rewrite G. eexists. split; [reflexivity|].
        destruct (aget n fs) as [f|] eqn:E.
        - symmetry. eapply Hord; eauto.
        - symmetry. apply dense_format_order. }
      rewrite P. eauto.
Qed.

(* ------------------------------------------------------------------------------------------ *)
(** * equality and hash *)

Lemma slist_eqb_eq : forall a b, slist_eqb a b = true <-> a = b.
Proof.
  induction a as [|x a IH]; destruct b as [|y b]; simpl; try (split; [discriminate|congruence]).
  - tauto.
  - rewrite andb_true_iff, IH, String.eqb_eq. split; [intros [? ?]; congruence | intros H; inversion H; auto].
Qed.

Lemma tref_eqb_eq : forall a b, tref_eqb a b = true <-> a = b.
Proof.
  intros [n i] [n' i']. unfold tref_eqb. simpl. rewrite andb_true_iff, String.eqb_eq, slist_eqb_eq.
  split; [intros [? ?]; congruence | intros H; inversion H; auto].
Qed.

Lemma expr_eqb_eq : forall a b, expr_eqb a b = true <-> a = b.
Proof.
  induction a as [v|v|t|l IHl r IHr|l IHl r IHr|l IHl r IHr]; destruct b; simpl;
    try (split; [discriminate|congruence]).
  - rewrite Z.eqb_eq. split; [congruence | intros H; inversion H; auto].
  - rewrite Z.eqb_eq. split; [congruence | intros H; inversion H; auto].
  - rewrite tref_eqb_eq. split; [congruence | intros H; inversion H; auto].
  - rewrite andb_true_iff, IHl, IHr. split; [intros [? ?]; congruence | intros H; inversion H; auto].
  - rewrite andb_true_iff, IHl, IHr. split; [intros [? ?]; congruence | intros H; inversion H; auto].
  - rewrite andb_true_iff, IHl, IHr. split; [intros [? ?]; congruence | intros H; inversion H; auto].
Qed.

Lemma assignment_eqb_eq : forall a b, assignment_eqb a b = true <-> a = b.
Proof.
  intros [t e] [t' e']. unfold assignment_eqb. simpl. rewrite andb_true_iff, tref_eqb_eq, expr_eqb_eq.
  split; [intros [? ?]; congruence | intros H; inversion H; auto].
Qed.

Lemma format_eqb_eq : forall a b, format_eqb a b = true <-> a = b.
Proof.
  intros [m o] [m' o']. unfold format_eqb. simpl. rewrite andb_true_iff, modes_eqb_eq, nats_eqb_eq.
  split; [intros [? ?]; congruence | intros H; inversion H; auto].
Qed.

Lemma items_eqb_eq : forall a b, items_eqb a b = true <-> a = b.
Proof.
  induction a as [|[k f] a IH]; destruct b as [|[k' f'] b]; simpl; try (split; [discriminate|congruence]).
  - tauto.
  - rewrite !andb_true_iff, IH, String.eqb_eq, format_eqb_eq.
    split; [intros [[? ?] ?]; congruence | intros H; inversion H; auto].
Qed.

Theorem problem_eqb_spec : forall p q, problem_eqb p q = true <-> p = q.
Proof.
  intros [a f] [a' f']. unfold problem_eqb. simpl. rewrite andb_true_iff, assignment_eqb_eq, items_eqb_eq.
  split; [intros [? ?]; congruence | intros H; inversion H; auto].
Qed.

Theorem hash_compatible : forall p q, problem_eqb p q = true -> hash_key p = hash_key q.
Proof. intros p q H. apply problem_eqb_spec in H. subst. reflexivity. Qed.

(** the hashed tuple determines the problem: nothing that [__eq__] looks at is left out *)
Theorem hash_key_injective : forall p q, hash_key p = hash_key q -> p = q.
Proof. intros [a f] [a' f']. unfold hash_key. simpl. intros H; inversion H; reflexivity. Qed.

(* ------------------------------------------------------------------------------------------ *)
(** * the kernel cache *)

Section CacheProofs.
  Variable compiled : Type.
  Variable compile : problem -> backend -> compiled.

  Notation tmethod := (tmethod compiled).
  Notation key_eqb := key_eqb.

  Lemma key_eqb_eq : forall a b : key, key_eqb a b = true <-> a = b.
  Proof.
    intros [p b] [p' b']. unfold Problem.key_eqb. simpl. rewrite andb_true_iff, problem_eqb_spec.
    destruct b, b'; simpl; split; try (intros [? ?]; congruence); try (intros H; inversion H; auto);
      try discriminate.
  Qed.

  Lemma cache_find_Some : forall k (c : cache compiled) k' m,
    cache_find compiled k c = Some (k', m) -> k' = k /\ In (k', m) c.
  Proof.
    induction c as [|[k2 m2] t IH]; simpl; intros k' m H; [discriminate|].
    destruct (key_eqb k k2) eqn:E.
    - apply key_eqb_eq in E. inversion H; subst. auto.
    - destruct (IH _ _ H). auto.
  Qed.

  Lemma cache_remove_In : forall k (c : cache compiled) x, In x (cache_remove compiled k c) -> In x c.
  Proof.
    induction c as [|[k2 m2] t IH]; simpl; intros x H; [exact H|].
    destruct (key_eqb k k2); [auto|]. destruct H as [H|H]; auto.
  Qed.

  Lemma firstn_In : forall {A} n (l : list A) x, In x (firstn n l) -> In x l.
  Proof.
    intros A n l x H. rewrite <- (firstn_skipn n l). apply in_app_iff. left. exact H.
  Qed.

  (** every cached method belongs to the key it is stored under, and was built for it *)
  Definition inv (s : cstate compiled) (owner : nat -> key) : Prop :=
    forall k m, In (k, m) (cs_cache compiled s) ->
      tm_serial compiled m < cs_next compiled s /\ owner (tm_serial compiled m) = k /\
      tm_kernel compiled m = compile (fst k) (snd k).

  Lemma run_inv : forall maxsize ops s owner,
    inv s owner ->
    exists owner',
      (forall n, n < cs_next compiled s -> owner' n = owner n) /\
      forall k m, In (k, m) (run compiled compile maxsize ops s) ->
        owner' (tm_serial compiled m) = k /\ tm_kernel compiled m = compile (fst k) (snd k).
  Proof.
    induction ops as [|[k|] ops IH]; intros s owner I.
    - exists owner. split; [auto | intros ? ? []].
    - simpl. unfold request.
      destruct (cache_find compiled k (cs_cache compiled s)) as [[k' m]|] eqn:F.
      + apply cache_find_Some in F. destruct F as [-> Hin].
        destruct (I _ _ Hin) as [H1 [H2 H3]].
        set (s' := CState compiled ((k, m) :: cache_remove compiled k (cs_cache compiled s)) (cs_next compiled s)).
        assert (I' : inv s' owner).
        { intros k2 m2 [H|H]; [inversion H; subst; auto | apply I; eapply cache_remove_In; eauto]. }
        destruct (IH s' owner I') as [owner' [A B]].
        exists owner'. split; [exact A|].
        intros k2 m2 [H|H]; [|apply B; exact H].
        injection H as <- <-. split; [|exact H3]. rewrite A by exact H1. exact H2.
      + set (m := TMethod compiled (cs_next compiled s) (compile (fst k) (snd k))).
        set (s' := CState compiled (firstn maxsize ((k, m) :: cs_cache compiled s)) (S (cs_next compiled s))).
        set (owner1 := fun n => if Nat.eqb n (cs_next compiled s) then k else owner n).
        assert (I' : inv s' owner1).
        { intros k2 m2 H. apply firstn_In in H. destruct H as [H|H].
          - inversion H; subst. simpl. unfold owner1. rewrite Nat.eqb_refl. auto.
          - destruct (I _ _ H) as [H1 [H2 H3]]. simpl. unfold owner1.
            destruct (Nat.eqb (tm_serial compiled m2) (cs_next compiled s)) eqn:E;
              [apply Nat.eqb_eq in E; lia|]. auto. }
        destruct (IH s' owner1 I') as [owner' [A B]].
        exists owner'. split.
        * intros n Hn. rewrite A by (simpl; lia). unfold owner1.
          destruct (Nat.eqb n (cs_next compiled s)) eqn:E; [apply Nat.eqb_eq in E; lia | reflexivity].
        * intros k2 m2 [H|H]; [|apply B; exact H].
          inversion H; subst. simpl. split; [|reflexivity].
          rewrite A by (simpl; lia). unfold owner1. rewrite Nat.eqb_refl. reflexivity.
    - simpl.
      set (s' := CState compiled [] (cs_next compiled s)).
      assert (I' : inv s' owner) by (intros ? ? []).
      destruct (IH s' owner I') as [owner' [A B]]. exists owner'. auto.
  Qed.

  (** For every history of requests and cache_clear()s: the method handed out for a request
      holds exactly the kernel a fresh compilation of that request gives, and two requests
      are handed the same method object only if they are the same problem and backend. *)
  Theorem cache_transparent : forall maxsize ops,
    let out := run compiled compile maxsize ops (empty_state compiled) in
    (forall k m, In (k, m) out -> tm_kernel compiled m = compile (fst k) (snd k)) /\
    (forall k1 m1 k2 m2, In (k1, m1) out -> In (k2, m2) out ->
       tm_serial compiled m1 = tm_serial compiled m2 -> k1 = k2).
  Proof.
    intros maxsize ops out.
    destruct (run_inv maxsize ops (empty_state compiled) (fun _ => (Problem (Assignment (TRef "" []) (EInteger 0)) [], LLVM)))
      as [owner [_ B]]; [intros ? ? []|].
    split.
    - intros k m H. apply B. exact H.
    - intros k1 m1 k2 m2 H1 H2 E.
      destruct (B _ _ H1) as [O1 _]. destruct (B _ _ H2) as [O2 _]. congruence.
  Qed.
End CacheProofs.
