(** C01 part A: the specification is invariant under everything the property says it must not
    depend on: re-association / commutation / regrouping, renaming, storage of the inputs; and
    a term that lacks a target index is broadcast along it. *)
From Coq Require Import ZArith List Bool String Permutation Ring_theory Ring Lia.
From TV Require Import spec.Storage spec.Spec proofs.SpecSums proofs.SpecLemmas.
Import ListNotations.

Section Inv.
Variable O : ringops.
Hypothesis Oth : ring_ok O.
Let Oth' : ring_theory (@r0 O) (@r1 O) (@radd O) (@rmul O) (@rsub O) (@ropp O) (@eq O) := Oth.
Add Ring Oring4 : Oth'.

Variable sizes : string -> Z.
Local Notation sum_over := (sum_over (O := O) sizes).

(** * Extensionality in the environment *)

Lemma mono_prod_env_ext : forall (E E' : env O) m rho,
  (forall n c, E n c = E' n c) -> mono_prod E m rho = mono_prod E' m rho.
Proof.
  intros E E' [s fs] rho H. unfold mono_prod; simpl. f_equal. apply map_ext.
  intros f; destruct f; simpl; auto.
Qed.

Lemma spec_env_ext : forall (a : assignment O) (E E' : env O) c,
  (forall n cs, E n cs = E' n cs) -> spec a E sizes c = spec a E' sizes c.
Proof.
  intros a E E' c H. unfold spec. apply rsum_map_ext. intros m _. unfold term_value. f_equal.
  apply sum_over_ext. intros; apply mono_prod_env_ext; auto.
Qed.

(** * Storage independence *)

Lemma abs_entries_perm : forall (es es' : list (list Z * O)) c,
  Permutation es es' -> abs_entries es c = abs_entries es' c.
Proof.
  intros es es' c P. unfold abs_entries. induction P; simpl; auto.
  - destruct (coord_eqb (fst x) c); simpl; congruence.
  - destruct (coord_eqb (fst x) c), (coord_eqb (fst y) c); simpl; auto. ring.
  - congruence.
Qed.

Theorem spec_format_independent : forall (a : assignment O) (es es' : string -> list (list Z * O)) c,
  (forall n, Permutation (es n) (es' n)) ->
  spec a (env_of_entries es) sizes c = spec a (env_of_entries es') sizes c.
Proof.
  intros. apply spec_env_ext. intros n cs. unfold env_of_entries. apply abs_entries_perm; auto.
Qed.

(** The same for inputs given as stored tensors: two stored tensors (any formats, any mode
    orderings) with the same stored entries denote the same input. *)
Definition same_entries (ts ts' : list (string * tensor O)) : Prop :=
  forall n, match lookup n ts, lookup n ts' with
            | Some t, Some t' => Permutation (entries r0 t) (entries r0 t')
            | None, None => True
            | _, _ => False
            end.

Theorem spec_stored_format_independent : forall (a : assignment O) ts ts' c,
  same_entries ts ts' ->
  spec a (env_of_stored ts) sizes c = spec a (env_of_stored ts') sizes c.
Proof.
  intros a ts ts' c H. apply spec_env_ext. intros n cs. unfold env_of_stored.
  specialize (H n). destruct (lookup n ts), (lookup n ts'); try contradiction; auto.
  unfold abs_tensor. apply abs_entries_perm; auto.
Qed.

(** * Broadcast *)

Variable E : env O.

Theorem term_value_broadcast : forall tgt (m : monomial O) c c',
  (forall k, In k (midx m) -> bind tgt c k = bind tgt c' k) ->
  term_value tgt E sizes m c = term_value tgt E sizes m c'.
Proof.
  intros tgt m c c' H. unfold term_value. f_equal.
  apply (sum_over_depends O sizes (midx m)); auto. apply mono_prod_depends.
Qed.

Theorem spec_broadcast_gen : forall (a : assignment O) c c',
  (forall k, In k (expr_idx (rhs a)) -> bind (tgt_idx a) c k = bind (tgt_idx a) c' k) ->
  spec a E sizes c = spec a E sizes c'.
Proof.
  intros a c c' H. unfold spec. apply rsum_map_ext. intros m Hm.
  apply term_value_broadcast. intros k Hk. apply H. apply (monomials_idx (rhs a) m); auto.
Qed.

Lemma bind_set_nth : forall tgt p v c j k,
  nth_error tgt p = Some j -> k <> j -> bind tgt (set_nth p v c) k = bind tgt c k.
Proof.
  induction tgt; intros p v c j k Hn Hk.
  - destruct p; discriminate.
  - destruct p; simpl in Hn.
    + inversion Hn; subst. destruct c; simpl; auto. unfold upd.
      destruct (String.eqb_spec k j); congruence.
    + destruct c; simpl; auto. unfold upd. destruct (String.eqb k a); auto. eapply IHtgt; eauto.
Qed.

(** A target index that no term of the right-hand side mentions: the value does not depend on
    that component of the coordinate.  Per term: [term_value_broadcast]. *)
Theorem spec_broadcast : forall (a : assignment O) p j v c,
  nth_error (tgt_idx a) p = Some j -> ~ In j (expr_idx (rhs a)) ->
  spec a E sizes (set_nth p v c) = spec a E sizes c.
Proof.
  intros a p j v c Hn Hj. apply spec_broadcast_gen. intros k Hk.
  eapply bind_set_nth; eauto. intro; subst; auto.
Qed.

(** * Re-association, commutation, regrouping *)

Variable tgt : list string.

(** Two monomials with the same signed product and the same index set. *)
Definition meq (m m' : monomial O) : Prop :=
  (forall rho, sgn (fst m) (mono_prod E m rho) = sgn (fst m') (mono_prod E m' rho))
  /\ (forall k, In k (midx m) <-> In k (midx m')).

Lemma meq_refl : forall m, meq m m.
Proof. split; intros; tauto. Qed.

Lemma meq_sym : forall m m', meq m m' -> meq m' m.
Proof. intros m m' [H1 H2]; split; intros; [symmetry; auto | symmetry; auto]. Qed.

Lemma meq_trans : forall m m' m'', meq m m' -> meq m' m'' -> meq m m''.
Proof.
  intros m m' m'' [H1 H2] [H3 H4]; split; intros.
  - rewrite H1; auto.
  - rewrite H2; auto.
Qed.

Lemma contracted_NoDup : forall (m : monomial O), NoDup (contracted tgt m).
Proof. intros; unfold contracted. apply NoDup_filter, NoDup_nodup. Qed.

Lemma In_contracted : forall (m : monomial O) k,
  In k (contracted tgt m) <-> In k (midx m) /\ ~ In k tgt.
Proof.
  intros; unfold contracted. rewrite filter_In, nodup_In, negb_true_iff, smem_false. tauto.
Qed.

Lemma term_value_meq : forall m m' c, meq m m' ->
  term_value tgt E sizes m c = term_value tgt E sizes m' c.
Proof.
  intros m m' c [H1 H2]. unfold term_value.
  rewrite <- !sum_over_sgn; auto.
  rewrite (sum_over_ext O sizes _ _ (fun r => sgn (fst m') (mono_prod E m' r))) by auto.
  apply sum_over_perm; auto.
  - apply NoDup_Permutation; try apply contracted_NoDup.
    intros k. rewrite !In_contracted, H2. tauto.
  - apply contracted_NoDup.
  - intros rho rho' Hv. f_equal. apply mono_prod_val_ext; auto.
Qed.

Inductive mperm : list (monomial O) -> list (monomial O) -> Prop :=
  | mp_nil : mperm [] []
  | mp_skip : forall m m' l l', meq m m' -> mperm l l' -> mperm (m :: l) (m' :: l')
  | mp_swap : forall m1 m2 l, mperm (m1 :: m2 :: l) (m2 :: m1 :: l)
  | mp_trans : forall l l' l'', mperm l l' -> mperm l' l'' -> mperm l l''.

Lemma mperm_refl : forall l, mperm l l.
Proof. induction l; constructor; auto. apply meq_refl. Qed.

Lemma mperm_sym : forall l l', mperm l l' -> mperm l' l.
Proof.
  induction 1.
  - constructor.
  - constructor; auto. apply meq_sym; auto.
  - apply mp_swap.
  - eapply mp_trans; eauto.
Qed.

Lemma perm_mperm : forall l l', Permutation l l' -> mperm l l'.
Proof.
  induction 1.
  - constructor.
  - constructor; auto. apply meq_refl.
  - apply mp_swap.
  - eapply mp_trans; eauto.
Qed.

Lemma mperm_app_l : forall l l' r, mperm l l' -> mperm (l ++ r) (l' ++ r).
Proof.
  induction 1; simpl.
  - apply mperm_refl.
  - constructor; auto.
  - apply mp_swap.
  - eapply mp_trans; eauto.
Qed.

Lemma mperm_app_r : forall l r r', mperm r r' -> mperm (l ++ r) (l ++ r').
Proof. induction l; simpl; intros; auto. constructor; auto. apply meq_refl. Qed.

Lemma mperm_app : forall l l' r r', mperm l l' -> mperm r r' -> mperm (l ++ r) (l' ++ r').
Proof.
  intros. eapply mp_trans; [apply mperm_app_l; eauto | apply mperm_app_r; auto].
Qed.

Lemma mperm_spec : forall l l' c, mperm l l' ->
  rsum (map (fun m => term_value tgt E sizes m c) l)
  = rsum (map (fun m => term_value tgt E sizes m c) l').
Proof.
  induction 1; simpl; auto.
  - rewrite (term_value_meq m m' c H), IHmperm. reflexivity.
  - ring.
  - congruence.
Qed.

(** ** monomial algebra *)

Lemma mono_prod_mneg_eq : forall (m : monomial O) rho,
  mono_prod E (mneg m) rho = mono_prod E m rho.
Proof. reflexivity. Qed.

Lemma meq_mneg : forall m m', meq m m' -> meq (mneg m) (mneg m').
Proof.
  intros m m' [H1 H2]; split; intros.
  - rewrite !mono_prod_mneg_eq. unfold mneg; simpl fst. rewrite !sgn_negb; auto. f_equal. apply H1.
  - rewrite !midx_mneg; auto.
Qed.

Lemma sgn_xorb_mul : forall a b (x y : O),
  sgn (xorb a b) (rmul x y) = rmul (sgn a x) (sgn b y).
Proof. destruct a, b; simpl; intros; ring. Qed.

Lemma meq_mmul : forall ma ma' mb mb', meq ma ma' -> meq mb mb' -> meq (mmul ma mb) (mmul ma' mb').
Proof.
  intros ma ma' mb mb' [H1 H2] [H3 H4]; split; intros.
  - rewrite !mono_prod_mmul; auto. simpl fst.
    rewrite !sgn_xorb_mul. rewrite H1, H3. reflexivity.
  - rewrite !midx_mmul, !in_app_iff, H2, H4. tauto.
Qed.

Lemma meq_mmul_comm : forall ma mb, meq (mmul ma mb) (mmul mb ma).
Proof.
  intros; split; intros.
  - rewrite !mono_prod_mmul; auto. simpl fst. rewrite xorb_comm. f_equal. ring.
  - rewrite !midx_mmul, !in_app_iff. tauto.
Qed.

Lemma mmul_assoc : forall ma mb mc : monomial O, mmul (mmul ma mb) mc = mmul ma (mmul mb mc).
Proof.
  intros; unfold mmul; simpl. rewrite xorb_assoc, app_assoc. reflexivity.
Qed.

Lemma mneg_mneg : forall m : monomial O, mneg (mneg m) = m.
Proof. intros [s fs]; unfold mneg; simpl. rewrite negb_involutive; auto. Qed.

Lemma meq_neg_mul : forall m, meq (mneg m) (mmul (false, [FInt (-1)]) m).
Proof.
  intros m; split; intros.
  - rewrite mono_prod_mmul; auto. rewrite mono_prod_mneg_eq. unfold mneg; simpl fst.
    rewrite sgn_negb; auto.
    replace (mono_prod E (false, [FInt (-1)]) rho) with (ropp (@r1 O)).
    2:{ unfold mono_prod; simpl. ring. }
    destruct (fst m); simpl; ring.
  - rewrite midx_mneg, midx_mmul. simpl. tauto.
Qed.

Lemma mperm_map_mneg : forall l l', mperm l l' -> mperm (map mneg l) (map mneg l').
Proof.
  induction 1; simpl.
  - constructor.
  - constructor; auto. apply meq_mneg; auto.
  - apply mp_swap.
  - eapply mp_trans; eauto.
Qed.

Lemma mperm_map_mmul : forall lb lb', mperm lb lb' ->
  forall ma ma', meq ma ma' -> mperm (map (mmul ma) lb) (map (mmul ma') lb').
Proof.
  induction 1; intros ma ma' Ha; simpl.
  - constructor.
  - constructor; auto. apply meq_mmul; auto.
  - eapply mp_trans; [apply mp_swap|].
    constructor; [apply meq_mmul; auto; apply meq_refl|].
    constructor; [apply meq_mmul; auto; apply meq_refl|].
    induction l; simpl; constructor; auto. apply meq_mmul; auto; apply meq_refl.
  - eapply mp_trans; [apply IHmperm1; eauto | apply IHmperm2; apply meq_refl].
Qed.

Lemma mprod_cons : forall (ma : monomial O) la lb,
  mprod (ma :: la) lb = map (mmul ma) lb ++ mprod la lb.
Proof. reflexivity. Qed.

Lemma mprod_app_l : forall (la la' lb : list (monomial O)),
  mprod (la ++ la') lb = mprod la lb ++ mprod la' lb.
Proof. intros; unfold mprod. apply flat_map_app. Qed.

Lemma mprod_nil_r : forall la : list (monomial O), mprod la [] = [].
Proof. induction la; simpl; auto. Qed.

Lemma mperm_mprod_r : forall la lb lb', mperm lb lb' -> mperm (mprod la lb) (mprod la lb').
Proof.
  induction la; intros.
  - simpl. constructor.
  - rewrite !mprod_cons. apply mperm_app; auto. apply mperm_map_mmul; auto. apply meq_refl.
Qed.

Lemma mperm_mprod_l : forall la la' lb, mperm la la' -> mperm (mprod la lb) (mprod la' lb).
Proof.
  induction 1.
  - constructor.
  - rewrite !mprod_cons. apply mperm_app; auto. apply mperm_map_mmul; auto. apply mperm_refl.
  - rewrite !mprod_cons. rewrite !app_assoc. apply mperm_app_l.
    apply perm_mperm. apply Permutation_app_comm.
  - eapply mp_trans; eauto.
Qed.

Lemma mperm_mprod : forall la la' lb lb', mperm la la' -> mperm lb lb' ->
  mperm (mprod la lb) (mprod la' lb').
Proof.
  intros. eapply mp_trans; [apply mperm_mprod_l; eauto | apply mperm_mprod_r; auto].
Qed.

Lemma mprod_cons_r : forall la (mb : monomial O) lb,
  mperm (mprod la (mb :: lb)) (map (fun ma => mmul ma mb) la ++ mprod la lb).
Proof.
  induction la; intros.
  - simpl. constructor.
  - rewrite !mprod_cons. simpl map. simpl app. constructor; [apply meq_refl|].
    eapply mp_trans; [apply mperm_app_r; apply IHla|].
    rewrite !app_assoc. apply mperm_app_l. apply perm_mperm. apply Permutation_app_comm.
Qed.

Lemma mperm_mprod_comm : forall la lb, mperm (mprod la lb) (mprod lb la).
Proof.
  induction la; intros.
  - rewrite mprod_nil_r. simpl. constructor.
  - rewrite mprod_cons. eapply mp_trans; [|apply mperm_sym, mprod_cons_r].
    apply mperm_app; auto.
    induction lb; simpl; constructor; auto. apply meq_mmul_comm.
Qed.

Lemma mprod_map_mmul : forall (ma : monomial O) lb lc,
  mprod (map (mmul ma) lb) lc = map (mmul ma) (mprod lb lc).
Proof.
  induction lb; intros; [reflexivity|].
  simpl map at 1. rewrite !mprod_cons. rewrite map_app, IHlb. f_equal.
  rewrite map_map. apply map_ext. intros; apply mmul_assoc.
Qed.

Lemma mprod_assoc : forall la lb lc : list (monomial O),
  mprod (mprod la lb) lc = mprod la (mprod lb lc).
Proof.
  induction la; intros; [reflexivity|].
  rewrite !mprod_cons. rewrite mprod_app_l, IHla, mprod_map_mmul. reflexivity.
Qed.

Lemma mperm_mprod_app_r : forall la lb lc,
  mperm (mprod la (lb ++ lc)) (mprod la lb ++ mprod la lc).
Proof.
  induction la; intros.
  - simpl. constructor.
  - rewrite !mprod_cons. rewrite map_app.
    eapply mp_trans; [apply mperm_app_r; apply IHla|].
    apply perm_mperm.
    rewrite <- !app_assoc. apply Permutation_app_head.
    rewrite !app_assoc. apply Permutation_app_tail. apply Permutation_app_comm.
Qed.

Theorem rearr_mperm : forall e e' : expr O, rearr e e' -> mperm (monomials e) (monomials e').
Proof.
  induction 1; simpl.
  - apply mperm_refl.
  - apply mperm_sym; auto.
  - eapply mp_trans; eauto.
  - apply mperm_app; auto.
  - apply mperm_app; auto. apply mperm_map_mneg; auto.
  - apply mperm_mprod; auto.
  - apply perm_mperm, Permutation_app_comm.
  - rewrite app_assoc. apply mperm_refl.
  - apply mperm_mprod_comm.
  - rewrite mprod_assoc. apply mperm_refl.
  - rewrite map_app, map_map. rewrite (map_ext (fun m : monomial O => mneg (mneg m)) (fun m => m)) by apply mneg_mneg.
    rewrite map_id, app_assoc. apply mperm_refl.
  - rewrite map_app, app_assoc. apply mperm_refl.
  - rewrite app_assoc. apply mperm_refl.
  - apply mperm_app_r. unfold mprod; simpl. rewrite app_nil_r.
    induction (monomials b); simpl; constructor; auto. apply meq_neg_mul.
  - apply mperm_mprod_app_r.
  - rewrite mprod_app_l. apply mperm_refl.
Qed.

Theorem spec_assoc_comm : forall (e e' : expr O) name c, rearr e e' ->
  spec (mkAssign name tgt e) E sizes c = spec (mkAssign name tgt e') E sizes c.
Proof. intros. unfold spec; simpl. apply mperm_spec, rearr_mperm; auto. Qed.

End Inv.
