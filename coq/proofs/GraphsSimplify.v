(** simplify_add: the fuel is sufficient, and the invariants it preserves. *)
From Coq Require Import List String Bool Arith Lia.
From TV Require Import model.Graphs proofs.GraphsInd.
Import ListNotations.
Open Scope list_scope.

Definition grp := (string * list (option olayer * graph))%type.

Definition inode_of (f : nat) (name : nat) (g : grp) : option graph :=
  let '(i, vs) := g in
  match vs with
  | [] => None
  | (o, _) :: _ =>
      match simplify_fuel f name (flat_map (fun v => next_terms_of (snd v)) vs) with
      | Some n' => Some (IterationNode i o n')
      | None => None
      end
  end.

Definition finish (name : nat) (combined : list graph) : graph :=
  match combined with
  | [single] => single
  | _ => SumNode name combined
  end.

Definition tnodes_of (terminals : list iexpr) : list graph :=
  match terminals with
  | [] => []
  | e :: es => [TerminalNode (reduce_add e es)]
  end.

Lemma simplify_fuel_S : forall f name ts,
  simplify_fuel (S f) name ts =
  match sequence (map (inode_of f name) (snd (split_terms ts [] []))) with
  | None => None
  | Some inodes => Some (finish name (tnodes_of (fst (split_terms ts [] [])) ++ inodes))
  end.
Proof.
  intros f name ts. cbn [simplify_fuel].
  destruct (split_terms ts [] []) as [terminals groups]. cbn [fst snd].
  match goal with |- match sequence ?a with _ => _ end = match sequence ?b with _ => _ end =>
    replace a with b end.
  - destruct (sequence (map (inode_of f name) groups)) as [inodes|]; [|reflexivity].
    unfold finish, tnodes_of.
    destruct terminals as [|e es]; cbn [app].
    + destruct inodes as [|x [|y r]]; reflexivity.
    + destruct inodes as [|x r]; reflexivity.
  - apply map_ext. intros [i vs]. reflexivity.
Qed.

(** ** sequence *)
Lemma sequence_Forall2 : forall A B (F : A -> option B) l l',
  sequence (map F l) = Some l' -> Forall2 (fun x y => F x = Some y) l l'.
Proof.
  induction l as [|x l IH]; intros l' H; simpl in H.
  - inversion H. constructor.
  - destruct (F x) eqn:E; [|discriminate].
    destruct (sequence (map F l)) eqn:E2; [|discriminate].
    inversion H; subst. constructor; auto.
Qed.

Lemma sequence_all_some : forall A B (F : A -> option B) l,
  (forall x, In x l -> F x <> None) -> sequence (map F l) <> None.
Proof.
  induction l as [|x l IH]; intros H; simpl.
  - discriminate.
  - destruct (F x) eqn:E; [|exfalso; apply (H x); [now left | exact E]].
    specialize (IH (fun y Hy => H y (or_intror Hy))).
    destruct (sequence (map F l)) eqn:E2; [discriminate | congruence].
Qed.

(** ** groups produced by split_terms *)
Definition grp_ok (all : list graph) (g : grp) : Prop :=
  snd g <> [] /\ forall o n, In (o, n) (snd g) -> In (IterationNode (fst g) o n) all.

Lemma group_insert_ok : forall all i o n gs,
  In (IterationNode i o n) all -> Forall (grp_ok all) gs ->
  Forall (grp_ok all) (group_insert i (o, n) gs).
Proof.
  intros all i o n gs Hin. induction gs as [|[j vs] r IH]; intros H; simpl.
  - constructor; [|constructor]. split; simpl.
    + discriminate.
    + intros o' n' [E|[]]. inversion E; subst. exact Hin.
  - inversion H as [|? ? [H1 H2] H3]; subst. destruct (String.eqb i j) eqn:E.
    + apply String.eqb_eq in E. subst j. constructor; [|exact H3]. split; simpl in *.
      * destruct vs; discriminate.
      * intros o' n' Hi. apply in_app_or in Hi as [Hi|[Hi|[]]].
        -- now apply H2.
        -- inversion Hi; subst. exact Hin.
    + constructor; [split; assumption | apply IH, H3].
Qed.

Lemma split_terms_ok : forall all ts terminals groups,
  incl ts all -> Forall (grp_ok all) groups ->
  Forall (grp_ok all) (snd (split_terms ts terminals groups)).
Proof.
  intros all ts. induction ts as [|t ts IH]; intros terminals groups I H; simpl.
  - exact H.
  - assert (I' : incl ts all) by (intros x Hx; apply I; now right).
    destruct t as [e|i o n|nm tt].
    + apply IH; assumption.
    + apply IH; [assumption|]. apply group_insert_ok; [apply I; now left | assumption].
    + apply IH; assumption.
Qed.

Lemma split_terms_groups : forall ts, Forall (grp_ok ts) (snd (split_terms ts [] [])).
Proof. intros. apply split_terms_ok; [apply incl_refl | constructor]. Qed.

Lemma split_terms_terminals : forall ts terminals groups e,
  In e (fst (split_terms ts terminals groups)) -> In e terminals \/ In (TerminalNode e) ts.
Proof.
  induction ts as [|t ts IH]; intros terminals groups e H; simpl in *.
  - now left.
  - destruct t as [e'|i o n|nm tt].
    + apply IH in H as [H|H]; [|right; now right].
      apply in_app_or in H as [H|[H|[]]]; [now left | subst; right; now left].
    + apply IH in H as [H|H]; [now left | right; now right].
    + apply IH in H as [H|H]; [now left | right; now right].
Qed.

(** ** heights: the fuel [S (height_list ts)] is enough *)
Lemma height_in : forall t ts, In t ts -> height t <= height_list ts.
Proof.
  intros t ts. induction ts as [|x ts IH]; intros H; simpl in *; [contradiction|].
  destruct H as [->|H]; [lia | specialize (IH H); lia].
Qed.

Lemma height_list_le : forall ts b, (forall t, In t ts -> height t <= b) -> height_list ts <= b.
Proof.
  induction ts as [|x ts IH]; intros b H; simpl; [lia|].
  assert (height x <= b) by (apply H; now left).
  assert (height_list ts <= b) by (apply IH; intros; apply H; now right). unfold height_list in *. lia.
Qed.

Lemma height_sum : forall nm ts, height (SumNode nm ts) = height_list ts.
Proof. reflexivity. Qed.

Lemma height_next_terms : forall n t, In t (next_terms_of n) -> height t <= height n.
Proof.
  intros n t H. destruct n as [e|i o m|nm ts]; simpl in H.
  - destruct H as [<-|[]]. lia.
  - destruct H as [<-|[]]. lia.
  - rewrite height_sum. now apply height_in.
Qed.

Lemma simplify_fuel_total : forall fuel name ts,
  height_list ts < fuel -> simplify_fuel fuel name ts <> None.
Proof.
  induction fuel as [|f IH]; intros name ts H; [lia|].
  rewrite simplify_fuel_S.
  destruct (sequence (map (inode_of f name) (snd (split_terms ts [] [])))) eqn:E; [discriminate|].
  exfalso. revert E. apply sequence_all_some.
  intros [i vs] Hg. pose proof (split_terms_groups ts) as G.
  rewrite Forall_forall in G. destruct (G _ Hg) as [Hne Hin]. simpl in Hne, Hin.
  unfold inode_of. destruct vs as [|[o n0] rest]; [contradiction|].
  match goal with |- match simplify_fuel f name ?l with _ => _ end <> None =>
    assert (HL : height_list l < f) end.
  { assert (forall t, In t (flat_map (fun v : option olayer * graph => next_terms_of (snd v)) ((o, n0) :: rest))
                      -> S (height t) <= height_list ts).
    { intros t Ht. apply in_flat_map in Ht as [[o' n'] [Hv Ht]]. simpl in Ht.
      apply height_next_terms in Ht. specialize (Hin _ _ Hv). apply height_in in Hin. simpl in Hin. lia. }
    destruct (flat_map (fun v : option olayer * graph => next_terms_of (snd v)) ((o, n0) :: rest)) as [|t0 l0] eqn:EL.
    - simpl. assert (In (IterationNode i o n0) ts) by (apply Hin; now left).
      apply height_in in H1. simpl in H1. lia.
    - assert (height_list (t0 :: l0) <= pred (height_list ts)).
      { apply height_list_le. intros t Ht. specialize (H0 t Ht). lia. }
      specialize (H0 t0 (or_introl eq_refl)). lia. }
  specialize (IH name _ HL).
  destruct (simplify_fuel f name _); [discriminate | contradiction].
Qed.

Theorem simplify_add_opt_total : forall name ts, simplify_add_opt name ts <> None.
Proof. intros. unfold simplify_add_opt. apply simplify_fuel_total. lia. Qed.

Lemma simplify_add_spec : forall name ts,
  exists g, simplify_fuel (S (height_list ts)) name ts = Some g /\ simplify_add name ts = g.
Proof.
  intros. unfold simplify_add, simplify_add_opt.
  destruct (simplify_fuel (S (height_list ts)) name ts) eqn:E.
  - eauto.
  - exfalso. revert E. apply simplify_fuel_total. lia.
Qed.

(** ** later_indexes of the result *)
Lemma later_next_terms : forall n x,
  In x (flat_map later_indexes (next_terms_of n)) <-> In x (later_indexes n).
Proof.
  intros n x. destruct n as [e|i o m|nm ts]; simpl; rewrite ?app_nil_r; tauto.
Qed.

Lemma finish_later : forall name combined x,
  In x (later_indexes (finish name combined)) <-> In x (flat_map later_indexes combined).
Proof.
  intros name combined x. unfold finish.
  destruct combined as [|a [|b r]]; simpl; rewrite ?app_nil_r; tauto.
Qed.

Lemma simplify_later : forall fuel name ts g,
  simplify_fuel fuel name ts = Some g ->
  incl (later_indexes g) (flat_map later_indexes ts).
Proof.
  induction fuel as [|f IH]; intros name ts g H; [discriminate|].
  rewrite simplify_fuel_S in H.
  destruct (sequence (map (inode_of f name) (snd (split_terms ts [] [])))) as [inodes|] eqn:E; [|discriminate].
  inversion H; subst g. clear H. apply sequence_Forall2 in E.
  intros x Hx. apply finish_later in Hx. rewrite flat_map_app in Hx. apply in_app_or in Hx as [Hx|Hx].
  - unfold tnodes_of in Hx. destruct (fst (split_terms ts [] [])); simpl in Hx; contradiction.
  - pose proof (split_terms_groups ts) as G.
    apply in_flat_map in Hx as [node [Hn Hx]].
    revert G Hn. induction E as [|[i vs] nd gs nds E1 E2 IHE]; intros G Hn; [contradiction|].
    inversion G as [|? ? [Hne Hin] G']; subst. destruct Hn as [->|Hn]; [|now apply IHE].
    unfold inode_of in E1. destruct vs as [|[o n0] rest]; [discriminate|].
    destruct (simplify_fuel f name _) as [n'|] eqn:ES; [|discriminate].
    inversion E1; subst node. clear E1. simpl in Hx. simpl in Hin.
    destruct Hx as [<-|Hx].
    + specialize (Hin o n0 (or_introl eq_refl)). apply in_flat_map. eexists; split; [exact Hin|]. now left.
    + apply IH in ES. apply ES in Hx. apply in_flat_map in Hx as [t [Ht Hx]].
      apply in_flat_map in Ht as [[o' n''] [Hv Ht]]. simpl in Ht.
      assert (In x (later_indexes n'')).
      { apply later_next_terms. apply in_flat_map. eauto. }
      apply in_flat_map. exists (IterationNode i o' n''). split; [now apply Hin | now right].
Qed.

(** ** goodb is preserved *)
Lemma goodb_terminal : forall T k e, goodb T k (TerminalNode e) = true -> k = 0.
Proof. intros T k e H. simpl in H. now apply Nat.eqb_eq in H. Qed.

Lemma goodb_next_terms : forall T k n, goodb T k n = true -> forallb (goodb T k) (next_terms_of n) = true.
Proof.
  intros T k n H. destruct n; simpl in *; rewrite H; reflexivity.
Qed.

Lemma finish_goodb : forall T k name combined,
  forallb (goodb T k) combined = true -> goodb T k (finish name combined) = true.
Proof.
  intros T k name combined H. unfold finish. destruct combined as [|a [|b r]]; simpl in *; auto.
  now rewrite andb_true_r in H.
Qed.

(** what a member of a group tells about its continuation *)
Definition sub_k (T : string -> bool) (i : string) (k : nat) : nat := if T i then pred k else k.

Lemma goodb_iter_inv : forall T k i o n,
  goodb T k (IterationNode i o n) = true ->
  is_some o = T i /\ goodb T (sub_k T i k) n = true.
Proof.
  intros T k i o n H. simpl in H. apply andb_true_iff in H as [H1 H2].
  apply Bool.eqb_prop in H1. split; [exact H1|]. unfold sub_k. rewrite <- H1.
  destruct (is_some o); [|exact H2]. destruct k; [discriminate | exact H2].
Qed.

Lemma goodb_iter_intro : forall T k i o n,
  is_some o = T i -> (T i = true -> k <> 0) -> goodb T (sub_k T i k) n = true ->
  goodb T k (IterationNode i o n) = true.
Proof.
  intros T k i o n H1 H2 H3. simpl. rewrite H1, Bool.eqb_reflx. simpl. unfold sub_k in H3.
  destruct (T i); [|exact H3]. destruct k; [exfalso; now apply H2 | exact H3].
Qed.

Lemma simplify_goodb : forall T fuel name ts k g,
  forallb (goodb T k) ts = true ->
  simplify_fuel fuel name ts = Some g -> goodb T k g = true.
Proof.
  intros T. induction fuel as [|f IH]; intros name ts k g HA H; [discriminate|].
  rewrite simplify_fuel_S in H.
  destruct (sequence (map (inode_of f name) (snd (split_terms ts [] [])))) as [inodes|] eqn:E; [|discriminate].
  inversion H; subst g. clear H. apply sequence_Forall2 in E.
  rewrite forallb_forall in HA.
  apply finish_goodb. rewrite forallb_app. apply andb_true_iff. split.
  - unfold tnodes_of. destruct (fst (split_terms ts [] [])) as [|e es] eqn:ET; [reflexivity|].
    simpl. rewrite andb_true_r.
    assert (In e (fst (split_terms ts [] []))) by (rewrite ET; now left).
    apply split_terms_terminals in H as [[]|H]. apply HA in H. exact H.
  - pose proof (split_terms_groups ts) as G. rewrite forallb_forall. intros node Hn.
    revert G Hn. induction E as [|[i vs] nd gs nds E1 E2 IHE]; intros G Hn; [contradiction|].
    inversion G as [|? ? [Hne Hin] G']; subst. destruct Hn as [->|Hn]; [|now apply IHE].
    unfold inode_of in E1. destruct vs as [|[o n0] rest]; [discriminate|].
    destruct (simplify_fuel f name _) as [n'|] eqn:ES; [|discriminate].
    inversion E1; subst node. clear E1. simpl in Hin.
    assert (Hhead : goodb T k (IterationNode i o n0) = true) by (apply HA, Hin; now left).
    apply goodb_iter_inv in Hhead as [Ho Hn0].
    apply goodb_iter_intro.
    + exact Ho.
    + intros Ti. assert (Hh : goodb T k (IterationNode i o n0) = true) by (apply HA, Hin; now left).
      simpl in Hh. rewrite Ho, Ti in Hh. simpl in Hh. destruct k; [discriminate | discriminate].
    + eapply IH; [|exact ES]. rewrite forallb_forall. intros t Ht.
      apply in_flat_map in Ht as [[o' n''] [Hv Ht]]. simpl in Ht.
      assert (Hm : goodb T k (IterationNode i o' n'') = true) by (apply HA, Hin, Hv).
      apply goodb_iter_inv in Hm as [_ Hm]. apply goodb_next_terms in Hm.
      rewrite forallb_forall in Hm. now apply Hm.
Qed.

Lemma simplify_add_goodb : forall T name ts k,
  forallb (goodb T k) ts = true -> goodb T k (simplify_add name ts) = true.
Proof.
  intros T name ts k H. destruct (simplify_add_spec name ts) as [g [E ->]].
  eapply simplify_goodb; eauto.
Qed.

(** ** nodup_paths is preserved *)
Lemma finish_nodup : forall name combined,
  forallb nodup_paths combined = true -> nodup_paths (finish name combined) = true.
Proof.
  intros name combined H. unfold finish. destruct combined as [|a [|b r]]; simpl in *; auto.
  now rewrite andb_true_r in H.
Qed.

Lemma nodup_next_terms : forall n, nodup_paths n = true -> forallb nodup_paths (next_terms_of n) = true.
Proof. intros n H. destruct n; simpl in *; try rewrite H; reflexivity. Qed.

Lemma simplify_nodup : forall fuel name ts g,
  forallb nodup_paths ts = true ->
  simplify_fuel fuel name ts = Some g -> nodup_paths g = true.
Proof.
  induction fuel as [|f IH]; intros name ts g HA H; [discriminate|].
  rewrite simplify_fuel_S in H.
  destruct (sequence (map (inode_of f name) (snd (split_terms ts [] [])))) as [inodes|] eqn:E; [|discriminate].
  inversion H; subst g. clear H. apply sequence_Forall2 in E.
  rewrite forallb_forall in HA.
  apply finish_nodup. rewrite forallb_app. apply andb_true_iff. split.
  - unfold tnodes_of. destruct (fst (split_terms ts [] [])); reflexivity.
  - pose proof (split_terms_groups ts) as G. rewrite forallb_forall. intros node Hn.
    revert G Hn. induction E as [|[i vs] nd gs nds E1 E2 IHE]; intros G Hn; [contradiction|].
    inversion G as [|? ? [Hne Hin] G']; subst. destruct Hn as [->|Hn]; [|now apply IHE].
    unfold inode_of in E1. destruct vs as [|[o n0] rest]; [discriminate|].
    destruct (simplify_fuel f name _) as [n'|] eqn:ES; [|discriminate].
    inversion E1; subst node. clear E1. simpl in Hin. simpl.
    apply andb_true_iff. split.
    + apply negb_true_iff. apply mem_false. intros Hx.
      apply (simplify_later _ _ _ _ ES) in Hx.
      apply in_flat_map in Hx as [t [Ht Hx]].
      apply in_flat_map in Ht as [[o' n''] [Hv Ht]]. simpl in Ht.
      assert (In i (later_indexes n'')) by (apply later_next_terms; apply in_flat_map; eauto).
      assert (Hm : nodup_paths (IterationNode i o' n'') = true) by (apply HA, Hin, Hv).
      simpl in Hm. apply andb_true_iff in Hm as [Hm _]. apply negb_true_iff, mem_false in Hm. contradiction.
    + eapply IH; [|exact ES]. rewrite forallb_forall. intros t Ht.
      apply in_flat_map in Ht as [[o' n''] [Hv Ht]]. simpl in Ht.
      assert (Hm : nodup_paths (IterationNode i o' n'') = true) by (apply HA, Hin, Hv).
      simpl in Hm. apply andb_true_iff in Hm as [_ Hm]. apply nodup_next_terms in Hm.
      rewrite forallb_forall in Hm. now apply Hm.
Qed.

Lemma simplify_add_nodup : forall name ts,
  forallb nodup_paths ts = true -> nodup_paths (simplify_add name ts) = true.
Proof.
  intros name ts H. destruct (simplify_add_spec name ts) as [g [E ->]]. eapply simplify_nodup; eauto.
Qed.

Lemma simplify_add_later : forall name ts,
  incl (later_indexes (simplify_add name ts)) (flat_map later_indexes ts).
Proof.
  intros name ts. destruct (simplify_add_spec name ts) as [g [E ->]]. eapply simplify_later; eauto.
Qed.
