(** What the C printer's skeleton forgets, on the IR abstract machine (spec/IRSem.v::exec):
    a Block's comment, a Block around a single statement ([else { if .. }] vs [else if ..]), and the
    nesting of Blocks (the printer prints a Block without braces: the text is that of the spliced
    list).  Each step preserves the outcome -- state, returned value, trace, error -- up to fuel
    (a Block level costs one unit; [OutOfFuel] is the explicit out-of-fuel value and is excluded). *)

From Coq Require Import ZArith Bool List String.
From TV Require Import spec.Num gen.IRAst spec.IRSem proofs.PeepholeStmt.
Import ListNotations.
Local Open Scope list_scope.

(** the loop of [exec] on a Block *)
Definition run (n : nat) : list stmt -> state -> list event -> outcome :=
  fix go (l : list stmt) (st : state) (tr : list event) : outcome :=
    match l with
    | [] => Normal st tr
    | s1 :: r =>
        match exec n s1 st with
        | Normal st' t1 => go r st' (tr ++ t1)
        | Returned st' v t1 => Returned st' v (tr ++ t1)
        | Fail x => Fail x
        | OutOfFuel => OutOfFuel
        end
    end.

Lemma exec_block : forall n ss c st, exec (S n) (Block ss c) st = run n ss st [].
Proof. reflexivity. Qed.

(** a comment means nothing *)
Theorem sem_block_comment : forall n ss c st, exec n (Block ss c) st = exec n (Block ss None) st.
Proof. intros [|n] ss c st; reflexivity. Qed.

(** a Block around one statement is that statement *)
Theorem sem_block_singleton : forall n s c st, exec (S n) (Block [s] c) st = exec n s st.
Proof. intros n s c st. cbn. destruct (exec n s st); reflexivity. Qed.

Definition prefix_tr (tr : list event) (o : outcome) : outcome :=
  match o with
  | Normal st t => Normal st (tr ++ t)
  | Returned st v t => Returned st v (tr ++ t)
  | o => o
  end.

Lemma run_prefix : forall n l st tr, run n l st tr = prefix_tr tr (run n l st []).
Proof.
  intros n. induction l as [|s r IH]; intros st tr.
  - cbn. rewrite app_nil_r. reflexivity.
  - cbn [run]. destruct (exec n s st) as [st' t1|st' v t1|x|]; try reflexivity.
    rewrite (IH st' (tr ++ t1)), (IH st' ([] ++ t1)). cbn [app].
    destruct (run n r st' []); cbn [prefix_tr]; rewrite ?app_assoc; reflexivity.
Qed.

Lemma run_app : forall n a b st tr,
  run n (a ++ b) st tr = match run n a st tr with Normal st' tr' => run n b st' tr' | o => o end.
Proof.
  intros n. induction a as [|s a IH]; intros b st tr; [reflexivity|].
  cbn [app run]. destruct (exec n s st); try reflexivity. apply IH.
Qed.

Lemma run_mono : forall n l st tr o, run n l st tr = o -> o <> OutOfFuel -> run (S n) l st tr = o.
Proof.
  intros n. induction l as [|s r IH]; intros st tr o E Ho; [exact E|].
  cbn [run] in *. destruct (exec n s st) as [st' t1|st' v t1|x|] eqn:Es.
  - rewrite (exec_mono n s st _ Es) by discriminate. apply IH; assumption.
  - rewrite (exec_mono n s st _ Es) by discriminate. exact E.
  - rewrite (exec_mono n s st _ Es) by discriminate. exact E.
  - subst o. contradiction.
Qed.

(** splicing a nested Block into the enclosing list, at any position *)
Theorem sem_block_splice : forall n pre a c1 r c c' st o,
  exec (S n) (Block (pre ++ a ++ r) c) st = o -> o <> OutOfFuel ->
  exec (S (S n)) (Block (pre ++ Block a c1 :: r) c') st = o.
Proof.
  intros n pre a c1 r c c' st o E Ho. rewrite exec_block in *.
  rewrite run_app in *.
  destruct (run n pre st []) as [st1 tr1|st1 v tr1|x|] eqn:Ep.
  - rewrite (run_mono n pre st [] _ Ep) by discriminate.
    rewrite run_app in E. cbn [run]. rewrite exec_block.
    rewrite run_prefix in E. destruct (run n a st1 []) as [st2 t|st2 v t|x|]; cbn [prefix_tr] in E.
    + apply run_mono; assumption.
    + exact E.
    + exact E.
    + subst o. contradiction.
  - rewrite (run_mono n pre st [] _ Ep) by discriminate. exact E.
  - rewrite (run_mono n pre st [] _ Ep) by discriminate. exact E.
  - subst o. contradiction.
Qed.

(** [else { if .. }] and [else if ..]: a Branch whose else is a Block around one statement *)
Theorem sem_else_block : forall n c a b cm st o,
  exec (S n) (Branch c a b) st = o -> o <> OutOfFuel ->
  exec (S (S n)) (Branch c a (Block [b] cm)) st = o.
Proof.
  intros n c a b cm st o E Ho. cbn [exec] in E.
  change (exec (S (S n)) (Branch c a (Block [b] cm)) st) with
    (match eval st c with
     | Err x => Fail x
     | Ok (v, t1) =>
         match as_bool v with
         | Err x => Fail x
         | Ok true => match exec (S n) a st with
                      | Normal st' t2 => Normal st' (t1 ++ t2)
                      | Returned st' r t2 => Returned st' r (t1 ++ t2)
                      | o => o end
         | Ok false => match exec (S n) (Block [b] cm) st with
                       | Normal st' t2 => Normal st' (t1 ++ t2)
                       | Returned st' r t2 => Returned st' r (t1 ++ t2)
                       | o => o end
         end
     end).
  destruct (eval st c) as [[v t1]|x]; [|exact E].
  destruct (as_bool v) as [[|]|x]; [| |exact E].
  - destruct (exec n a st) as [st' t2|st' rv t2|x|] eqn:Ea;
      try (rewrite (exec_mono n a st _ Ea) by discriminate; exact E).
    subst o. contradiction.
  - rewrite sem_block_singleton. exact E.
Qed.
