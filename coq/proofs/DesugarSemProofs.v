(** C01 part B: the repaired desugaring denotes the specification; today's desugaring does so
    exactly when it never hoists a contraction it must not hoist ([hoist_ok]). *)
From Coq Require Import ZArith List Bool String Permutation Ring_theory Ring Lia.
From TV Require Import spec.Storage spec.Spec model.DesugarSem proofs.SpecSums proofs.SpecLemmas.
Import ListNotations.

(** * Sets *)

Lemma In_sinter : forall k a b, In k (sinter a b) <-> In k a /\ In k b.
Proof. intros; unfold sinter; rewrite filter_In, smem_In; tauto. Qed.

Lemma In_sdiff : forall k a b, In k (sdiff a b) <-> In k a /\ ~ In k b.
Proof.
  intros; unfold sdiff; rewrite filter_In, negb_true_iff, smem_false; tauto.
Qed.

Lemma NoDup_sinter : forall a b, NoDup a -> NoDup (sinter a b).
Proof. intros; apply NoDup_filter; auto. Qed.

Lemma NoDup_sdiff : forall a b, NoDup a -> NoDup (sdiff a b).
Proof. intros; apply NoDup_filter; auto. Qed.

Lemma NoDup_sdedup : forall l, NoDup (sdedup l).
Proof. intros; apply NoDup_nodup. Qed.

Lemma In_sdedup : forall k l, In k (sdedup l) <-> In k l.
Proof. intros; apply nodup_In. Qed.

Lemma In_iparts : forall R (e : expr R) k, In k (iparts e) <-> In k (expr_idx e).
Proof. intros; apply In_sdedup. Qed.

Lemma NoDup_iparts : forall R (e : expr R), NoDup (iparts e).
Proof. intros; apply NoDup_sdedup. Qed.

Lemma NoDup_app_disj : forall (l l' : list string),
  NoDup l -> NoDup l' -> (forall k, In k l -> ~ In k l') -> NoDup (l ++ l').
Proof.
  induction l; simpl; intros l' H1 H2 H; auto.
  inversion H1; subst. constructor.
  - intro Hin. apply in_app_or in Hin. destruct Hin; auto. apply (H a); auto.
  - apply IHl; auto.
Qed.

Lemma filter_all : forall (A : Type) (p : A -> bool) l, forallb p l = true -> filter p l = l.
Proof.
  induction l; simpl; intros; auto.
  apply andb_true_iff in H. destruct H as [-> H]. rewrite IHl; auto.
Qed.

(** * The concrete oracle of the correspondence is a legal oracle *)

Lemma sinsert_perm : forall s l, Permutation (sinsert s l) (s :: l).
Proof.
  induction l; simpl; auto.
  destruct (String.leb s a); auto.
  eapply Permutation_trans; [apply perm_skip; apply IHl | apply perm_swap].
Qed.

Lemma ssort_perm : forall l, Permutation (ssort l) l.
Proof.
  induction l; simpl; auto.
  eapply Permutation_trans; [apply sinsert_perm | apply perm_skip; auto].
Qed.

Lemma ord_sorted_perm : forall n l, Permutation (ord_sorted n l) l.
Proof. intros; apply ssort_perm. Qed.

(** * [carried] *)

Lemma carried_sound : forall R (e : expr R) k, carried e k = true ->
  forall m, In m (monomials e) -> In k (midx m).
Proof.
  induction e; simpl; intros k H m Hm; try discriminate.
  - destruct Hm as [<- | []]. unfold midx; simpl. rewrite app_nil_r. apply smem_In; auto.
  - apply andb_true_iff in H. destruct H. apply in_app_or in Hm. destruct Hm; eauto.
  - apply andb_true_iff in H. destruct H. apply in_app_or in Hm. destruct Hm; eauto.
    apply in_map_iff in H1. destruct H1 as [m' [<- H1]]. rewrite midx_mneg; eauto.
  - apply in_mprod in Hm. destruct Hm as [ma [mb [Ha [Hb ->]]]]. rewrite midx_mmul.
    apply in_or_app. apply orb_true_iff in H. destruct H; eauto.
Qed.

(** * Today's function coincides with the repaired one wherever it hoists only what it may *)

Lemma desugar_cur_eq_fixed : forall R ord (e : expr R) K n,
  hoist_ok e K = true -> desugar ord false e K n = desugar ord true e K n.
Proof.
  induction e; simpl; intros K n H; auto.
  - apply andb_true_iff in H. destruct H as [H H2]. apply andb_true_iff in H. destruct H as [H0 H1].
    rewrite (filter_all _ _ _ H0).
    rewrite (IHe1 _ n H1).
    destruct (desugar ord true e1 _ n) as [da n1].
    rewrite (IHe2 _ n1 H2). reflexivity.
  - apply andb_true_iff in H. destruct H as [H H2]. apply andb_true_iff in H. destruct H as [H0 H1].
    rewrite (filter_all _ _ _ H0).
    rewrite (IHe1 _ n H1).
    destruct (desugar ord true e1 _ n) as [da n1].
    rewrite (IHe2 _ n1 H2). reflexivity.
  - apply andb_true_iff in H. destruct H as [H H2]. apply andb_true_iff in H. destruct H as [H0 H1].
    rewrite H0. simpl.
    rewrite (IHe1 _ n H1).
    destruct (desugar ord true e1 _ n) as [da n1].
    rewrite (IHe2 _ n1 H2). reflexivity.
Qed.

(** * Meaning *)

Section Sound.
Variable O : ringops.
Hypothesis Oth : ring_ok O.
Let Oth' : ring_theory (@r0 O) (@r1 O) (@radd O) (@rmul O) (@rsub O) (@ropp O) (@eq O) := Oth.
Add Ring Oring3 : Oth'.

Variable E : env O.
Variable sizes : string -> Z.
Variable ord : nat -> list string -> list string.
Hypothesis ord_perm : forall n l, Permutation (ord n l) l.

Local Notation sum_over := (sum_over (O := O) sizes).
Local Notation denote := (denote (O := O) E sizes).

Lemma denote_val_ext : forall e, val_ext O (denote e).
Proof.
  induction e; intros rho rho' Hv; simpl; auto.
  - f_equal. apply map_ext. intros; apply Hv.
  - rewrite (IHe1 _ _ Hv), (IHe2 _ _ Hv); auto.
  - rewrite (IHe1 _ _ Hv), (IHe2 _ _ Hv); auto.
  - apply rsum_map_ext; intros. apply IHe. apply upd_veq; auto.
Qed.

Lemma denote_wrap : forall ks e rho,
  denote (wrap ks e) rho = sum_over (rev ks) (denote e) rho.
Proof.
  induction ks; intros; simpl; auto.
  unfold wrap in *; simpl. rewrite IHks. rewrite sum_over_app. reflexivity.
Qed.

(** The contribution of one monomial when the set of contracted indexes is [K]. *)
Definition mono_sum (K : list string) (m : monomial O) (rho : val) : O :=
  sgn (fst m) (sum_over (sinter (sdedup (midx m)) K) (mono_prod E m) rho).

Definition msum (K : list string) (ms : list (monomial O)) (rho : val) : O :=
  rsum (map (fun m => mono_sum K m rho) ms).

Lemma msum_app : forall K l l' rho, msum K (l ++ l') rho = radd (msum K l rho) (msum K l' rho).
Proof. intros; unfold msum; rewrite map_app; apply rsum_app; auto. Qed.

Lemma sum_over_regroup : forall I J T f rho,
  val_ext O f -> NoDup I -> NoDup J -> NoDup T ->
  (forall k, In k I -> ~ In k J) ->
  (forall k, In k T <-> In k I \/ In k J) ->
  sum_over I (sum_over J f) rho = sum_over T f rho.
Proof.
  intros. rewrite <- sum_over_app. apply sum_over_perm; auto.
  - apply NoDup_Permutation; auto.
    + apply NoDup_app_disj; auto.
    + intros k; rewrite in_app_iff. symmetry; auto.
  - apply NoDup_app_disj; auto.
Qed.

Lemma ord_rev_NoDup : forall n l, NoDup l -> NoDup (rev (ord n l)).
Proof.
  intros. apply (Permutation_NoDup (l := l)); auto.
  eapply Permutation_trans; [apply Permutation_sym, ord_perm | apply Permutation_rev].
Qed.

Lemma ord_rev_In : forall n l k, In k (rev (ord n l)) <-> In k l.
Proof.
  intros; rewrite <- in_rev. split; intro.
  - apply (Permutation_in k (ord_perm n l)); auto.
  - apply (Permutation_in k (Permutation_sym (ord_perm n l))); auto.
Qed.

(** Hoisting the indexes [I] (all carried by every monomial of [ms], all in [K]) over the sum of
    the monomials [ms] of a sub-expression whose own contracted set is [J = LK - I]. *)
Lemma hoist_msum : forall (X I I' J K : list string) (ms : list (monomial O)) rho,
  NoDup I' -> (forall k, In k I' <-> In k I) ->
  (forall m, In m ms -> incl (midx m) X) ->
  (forall m k, In m ms -> In k I -> In k (midx m)) ->
  (forall k, In k I -> In k K) ->
  (forall k, In k J <-> (In k X /\ In k K /\ ~ In k I)) ->
  sum_over I' (msum J ms) rho = msum K ms rho.
Proof.
  intros X I I' J K ms rho ND HI HX Hc HIK HJ.
  unfold msum. rewrite sum_over_rsum; auto.
  apply rsum_map_ext. intros m Hm. unfold mono_sum.
  rewrite sum_over_sgn; auto. f_equal.
  apply sum_over_regroup; auto.
  - apply mono_prod_val_ext.
  - apply NoDup_sinter, NoDup_sdedup.
  - apply NoDup_sinter, NoDup_sdedup.
  - intros k Hk Hk2. apply In_sinter in Hk2. destruct Hk2 as [_ Hk2].
    apply HJ in Hk2. apply HI in Hk. tauto.
  - intros k. rewrite !In_sinter, !In_sdedup, HJ, HI. split.
    + intros [Hk1 Hk2]. destruct (in_dec string_dec k I); auto.
      right. repeat split; auto. apply (HX m Hm); auto.
    + intros [Hk | [Hk1 Hk2]]; [|tauto]. split; [eapply Hc; eauto | auto].
Qed.

Lemma msum_mneg : forall K ms rho,
  msum K (map mneg ms) rho = ropp (msum K ms rho).
Proof.
  intros; unfold msum. rewrite map_map. rewrite <- rsum_map_opp; auto.
  apply rsum_map_ext; intros m _. unfold mono_sum. rewrite midx_mneg. simpl.
  rewrite sgn_negb; auto.
Qed.

(** ** the distributed form *)

Lemma denote_leaf : forall f n rho, denote (fst (desugar_leaf f n)) rho = eval_factor E rho f.
Proof. destruct f; reflexivity. Qed.

Lemma denote_factors : forall fs acc n rho,
  denote (fst (desugar_factors fs acc n)) rho
  = rmul (denote acc rho) (rprod (map (eval_factor E rho) fs)).
Proof.
  induction fs; intros; simpl.
  - ring.
  - destruct (desugar_leaf a n) as [d n1] eqn:El.
    rewrite IHfs. simpl. pose proof (denote_leaf a n rho) as Hl. rewrite El in Hl; simpl in Hl.
    rewrite Hl. ring.
Qed.

Lemma denote_mono : forall K m n rho, snd m <> [] ->
  denote (fst (desugar_mono ord K m n)) rho = mono_sum K m rho.
Proof.
  intros K [s fs] n rho Hne. unfold desugar_mono, mono_sum. simpl in *.
  destruct fs as [|f r]; [contradiction|].
  destruct (desugar_leaf f n) as [d0 n0] eqn:El.
  destruct (desugar_factors r d0 n0) as [p n1] eqn:Ef.
  assert (Hp : forall rho', denote p rho' = mono_prod E (s, f :: r) rho').
  { intros rho'. pose proof (denote_factors r d0 n0 rho') as Hf. rewrite Ef in Hf; simpl in Hf.
    pose proof (denote_leaf f n rho') as Hl. rewrite El in Hl; simpl in Hl.
    rewrite Hf, Hl. reflexivity. }
  assert (Hw : denote (wrap (ord n (sinter (sdedup (midx (s, f :: r))) K)) p) rho
               = sum_over (sinter (sdedup (midx (s, f :: r))) K) (mono_prod E (s, f :: r)) rho).
  { rewrite denote_wrap. rewrite (sum_over_ext O sizes _ _ _ rho Hp).
    symmetry. apply sum_over_perm; auto.
    - eapply Permutation_trans; [apply Permutation_sym, ord_perm | apply Permutation_rev].
    - apply NoDup_sinter, NoDup_sdedup.
    - apply mono_prod_val_ext. }
  destruct s; simpl.
  - simpl in Hw. rewrite Hw. change (of_Z (-1)) with (@of_Z O (-1)). rewrite of_Z_m1_mul; auto.
  - exact Hw.
Qed.

Lemma denote_terms_aux : forall K ms acc n rho,
  (forall m, In m ms -> snd m <> []) ->
  denote (fst (desugar_terms_aux ord K ms acc n)) rho = radd (denote acc rho) (msum K ms rho).
Proof.
  induction ms; intros acc n rho H; simpl.
  - unfold msum; simpl. ring.
  - destruct (desugar_mono ord K a n) as [t n1] eqn:Em.
    rewrite IHms by (intros; apply H; right; auto). simpl.
    pose proof (denote_mono K a n rho (H a (or_introl eq_refl))) as Ht.
    rewrite Em in Ht; simpl in Ht. rewrite Ht.
    unfold msum; simpl. ring.
Qed.

Lemma denote_terms : forall K ms n rho, ms <> [] ->
  (forall m, In m ms -> snd m <> []) ->
  denote (fst (desugar_terms ord K ms n)) rho = msum K ms rho.
Proof.
  intros K [|m ms] n rho Hne H; [contradiction|]. unfold desugar_terms.
  destruct (desugar_mono ord K m n) as [t n1] eqn:Em.
  rewrite denote_terms_aux by (intros; apply H; right; auto).
  pose proof (denote_mono K m n rho (H m (or_introl eq_refl))) as Ht.
  rewrite Em in Ht; simpl in Ht. rewrite Ht. reflexivity.
Qed.

(** ** product of two sums of monomials *)

Lemma msum_mprod : forall (Xa Xb I I' K Ja Jb : list string) (la lb : list (monomial O)) rho,
  NoDup I' -> (forall k, In k I' <-> In k I) ->
  (forall m, In m la -> incl (midx m) Xa) ->
  (forall m, In m lb -> incl (midx m) Xb) ->
  (forall k, In k I <-> In k Xa /\ In k Xb /\ In k K) ->
  (forall ma mb k, In ma la -> In mb lb -> In k I -> In k (midx ma) \/ In k (midx mb)) ->
  (forall k, In k Ja <-> (In k Xa /\ In k K /\ ~ In k I)) ->
  (forall k, In k Jb <-> (In k Xb /\ In k K /\ ~ In k I)) ->
  sum_over I' (fun r => rmul (msum Ja la r) (msum Jb lb r)) rho = msum K (mprod la lb) rho.
Proof.
  intros Xa Xb I I' K Ja Jb la lb rho ND HI HXa HXb HIdef Hc HJa HJb.
  unfold msum at 3. unfold mprod. rewrite flat_map_concat_map, concat_map, map_map.
  rewrite <- flat_map_concat_map, rsum_flat_map; auto.
  (* expand the product of the two sums under the outer summation *)
  rewrite (sum_over_ext O sizes _ _
     (fun r => rsum (map (fun ma => rsum (map (fun mb =>
         rmul (mono_sum Ja ma r) (mono_sum Jb mb r)) lb)) la))).
  2:{ intros r. unfold msum. rewrite <- rsum_map_mul_r; auto.
      apply rsum_map_ext; intros ma _. rewrite <- rsum_map_mul_l; auto. }
  rewrite sum_over_rsum; auto.
  apply rsum_map_ext; intros ma Hma.
  rewrite sum_over_rsum; auto. rewrite map_map.
  apply rsum_map_ext; intros mb Hmb.
  unfold mono_sum. simpl fst. rewrite midx_mmul.
  rewrite (sum_over_ext O sizes _ _
     (fun r => sgn (xorb (fst ma) (fst mb))
        (sum_over (sinter (sdedup (midx ma)) Ja ++ sinter (sdedup (midx mb)) Jb)
           (mono_prod E (mmul ma mb)) r))).
  2:{ intros r. rewrite sgn_mul_l, sgn_mul_r, sgn_sgn; auto. f_equal.
      rewrite (sum_over_product O Oth sizes (midx ma) (midx mb)); auto.
      - apply sum_over_ext; intros; symmetry; apply mono_prod_mmul; auto.
      - apply mono_prod_depends.
      - apply mono_prod_depends.
      - intros k Hk Hk2. apply In_sinter in Hk. destruct Hk as [Hk1 Hk].
        apply In_sdedup in Hk1. apply HJa in Hk. destruct Hk as [Hk3 [Hk4 Hk5]].
        apply Hk5. apply HIdef. repeat split; auto. apply (HXb mb Hmb); auto.
      - intros k Hk Hk2. apply In_sinter in Hk. destruct Hk as [Hk1 Hk].
        apply In_sdedup in Hk1. apply HJb in Hk. destruct Hk as [Hk3 [Hk4 Hk5]].
        apply Hk5. apply HIdef. repeat split; auto. apply (HXa ma Hma); auto. }
  rewrite sum_over_sgn; auto. f_equal.
  assert (Hdisj : forall k, In k (sinter (sdedup (midx ma)) Ja) -> ~ In k (sinter (sdedup (midx mb)) Jb)).
  { intros k Hk Hk2. apply In_sinter in Hk, Hk2. destruct Hk as [_ Hk], Hk2 as [_ Hk2].
    apply HJa in Hk. apply HJb in Hk2. destruct Hk as [? [? Hn]]. apply Hn. apply HIdef. tauto. }
  apply sum_over_regroup; auto.
  - apply mono_prod_val_ext.
  - apply NoDup_app_disj; auto; apply NoDup_sinter, NoDup_sdedup.
  - apply NoDup_sinter, NoDup_sdedup.
  - intros k Hk Hk2. apply HI in Hk. apply in_app_or in Hk2.
    destruct Hk2 as [Hk2 | Hk2]; apply In_sinter in Hk2; destruct Hk2 as [_ Hk2].
    + apply HJa in Hk2; tauto.
    + apply HJb in Hk2; tauto.
  - intros k. rewrite in_app_iff, !In_sinter, !In_sdedup, in_app_iff, HJa, HJb, HI. split.
    + intros [Hk1 Hk2]. destruct (in_dec string_dec k I); auto. right.
      destruct Hk1 as [Hk1 | Hk1].
      * left. repeat split; auto. apply (HXa ma Hma); auto.
      * right. repeat split; auto. apply (HXb mb Hmb); auto.
    + intros [Hk | [[Hk1 Hk2] | [Hk1 Hk2]]]; try tauto.
      split; [apply (Hc ma mb k); auto | apply HIdef in Hk; tauto].
Qed.

(** ** the main induction *)

Lemma desugar_fixed_sound : forall (e : expr O) K n rho,
  NoDup K -> incl K (iparts e) ->
  denote (fst (desugar ord true e K n)) rho = msum K (monomials e) rho.
Proof.
  induction e; intros K n rho HND Hincl.
  - (* integer literal *)
    simpl. unfold msum, mono_sum, midx; simpl. unfold mono_prod; simpl. ring.
  - simpl. unfold msum, mono_sum, midx; simpl. unfold mono_prod; simpl. ring.
  - (* tensor *)
    simpl. rewrite denote_wrap. unfold msum, mono_sum; simpl.
    replace (midx (false, [FTensor name idx])) with idx by (unfold midx; simpl; rewrite app_nil_r; auto).
    rewrite (sum_over_ext O sizes _ _ (mono_prod E (false, [FTensor name idx]))).
    2:{ intros r. unfold mono_prod; simpl. ring. }
    transitivity (sum_over (sinter (sdedup idx) K) (mono_prod E (false, [FTensor name idx])) rho); [|ring].
    apply sum_over_perm; auto.
    + apply NoDup_Permutation.
      * apply ord_rev_NoDup; auto.
      * apply NoDup_sinter, NoDup_sdedup.
      * intros k. rewrite ord_rev_In, In_sinter, In_sdedup. split; [|tauto].
        intros Hk; split; auto. apply Hincl in Hk. apply In_iparts in Hk. exact Hk.
    + apply ord_rev_NoDup; auto.
    + apply mono_prod_val_ext.
  - (* add *)
    simpl.
    set (LK := sinter (iparts e1) K). set (RK := sinter (iparts e2) K).
    set (I := filter (fun k => carried e1 k && carried e2 k) (sinter LK RK)).
    destruct (desugar ord true e1 (sdiff LK I) n) as [da n1] eqn:Ea.
    destruct (desugar ord true e2 (sdiff RK I) n1) as [db n2] eqn:Eb.
    simpl. rewrite denote_wrap. simpl.
    assert (HIin : forall k, In k I -> carried e1 k = true /\ carried e2 k = true /\ In k K
                                       /\ In k (expr_idx e1) /\ In k (expr_idx e2)).
    { intros k Hk. unfold I in Hk. apply filter_In in Hk. destruct Hk as [Hk Hc].
      apply andb_true_iff in Hc. unfold LK, RK in Hk. rewrite !In_sinter, !In_iparts in Hk. tauto. }
    assert (HNDI : NoDup I).
    { unfold I. apply NoDup_filter, NoDup_sinter, NoDup_sinter, NoDup_iparts. }
    rewrite (sum_over_ext O sizes _ _
       (fun r => radd (msum (sdiff LK I) (monomials e1) r) (msum (sdiff RK I) (monomials e2) r))).
    2:{ intros r.
        pose proof (IHe1 (sdiff LK I) n r) as H1. rewrite Ea in H1. simpl in H1. rewrite H1.
        pose proof (IHe2 (sdiff RK I) n1 r) as H2. rewrite Eb in H2. simpl in H2. rewrite H2.
        reflexivity.
        - apply NoDup_sdiff, NoDup_sinter, NoDup_iparts.
        - intros k Hk. apply In_sdiff in Hk. destruct Hk as [Hk _]. apply In_sinter in Hk; tauto.
        - apply NoDup_sdiff, NoDup_sinter, NoDup_iparts.
        - intros k Hk. apply In_sdiff in Hk. destruct Hk as [Hk _]. apply In_sinter in Hk; tauto. }
    rewrite sum_over_add; auto. rewrite msum_app. f_equal.
    + apply (hoist_msum (expr_idx e1) I); auto.
      * apply ord_rev_NoDup; auto.
      * intros; apply ord_rev_In.
      * intros; apply monomials_idx; auto.
      * intros m k Hm Hk. apply (carried_sound _ e1); auto. apply HIin; auto.
      * intros k Hk; apply HIin; auto.
      * intros k. unfold LK. rewrite In_sdiff, In_sinter, In_iparts. tauto.
    + apply (hoist_msum (expr_idx e2) I); auto.
      * apply ord_rev_NoDup; auto.
      * intros; apply ord_rev_In.
      * intros; apply monomials_idx; auto.
      * intros m k Hm Hk. apply (carried_sound _ e2); auto. apply HIin; auto.
      * intros k Hk; apply HIin; auto.
      * intros k. unfold RK. rewrite In_sdiff, In_sinter, In_iparts. tauto.
  - (* subtract *)
    simpl.
    set (LK := sinter (iparts e1) K). set (RK := sinter (iparts e2) K).
    set (I := filter (fun k => carried e1 k && carried e2 k) (sinter LK RK)).
    destruct (desugar ord true e1 (sdiff LK I) n) as [da n1] eqn:Ea.
    destruct (desugar ord true e2 (sdiff RK I) n1) as [db n2] eqn:Eb.
    simpl. rewrite denote_wrap. simpl.
    assert (HIin : forall k, In k I -> carried e1 k = true /\ carried e2 k = true /\ In k K
                                       /\ In k (expr_idx e1) /\ In k (expr_idx e2)).
    { intros k Hk. unfold I in Hk. apply filter_In in Hk. destruct Hk as [Hk Hc].
      apply andb_true_iff in Hc. unfold LK, RK in Hk. rewrite !In_sinter, !In_iparts in Hk. tauto. }
    assert (HNDI : NoDup I).
    { unfold I. apply NoDup_filter, NoDup_sinter, NoDup_sinter, NoDup_iparts. }
    rewrite (sum_over_ext O sizes _ _
       (fun r => radd (msum (sdiff LK I) (monomials e1) r)
                      (msum (sdiff RK I) (map mneg (monomials e2)) r))).
    2:{ intros r.
        pose proof (IHe1 (sdiff LK I) n r) as H1. rewrite Ea in H1. simpl in H1. rewrite H1.
        pose proof (IHe2 (sdiff RK I) n1 r) as H2. rewrite Eb in H2. simpl in H2. rewrite H2.
        rewrite msum_mneg. change (of_Z (-1)) with (@of_Z O (-1)). rewrite of_Z_m1_mul; auto.
        - apply NoDup_sdiff, NoDup_sinter, NoDup_iparts.
        - intros k Hk. apply In_sdiff in Hk. destruct Hk as [Hk _]. apply In_sinter in Hk; tauto.
        - apply NoDup_sdiff, NoDup_sinter, NoDup_iparts.
        - intros k Hk. apply In_sdiff in Hk. destruct Hk as [Hk _]. apply In_sinter in Hk; tauto. }
    rewrite sum_over_add; auto. rewrite msum_app. f_equal.
    + apply (hoist_msum (expr_idx e1) I); auto.
      * apply ord_rev_NoDup; auto.
      * intros; apply ord_rev_In.
      * intros; apply monomials_idx; auto.
      * intros m k Hm Hk. apply (carried_sound _ e1); auto. apply HIin; auto.
      * intros k Hk; apply HIin; auto.
      * intros k. unfold LK. rewrite In_sdiff, In_sinter, In_iparts. tauto.
    + apply (hoist_msum (expr_idx e2) I); auto.
      * apply ord_rev_NoDup; auto.
      * intros; apply ord_rev_In.
      * intros m Hm. apply in_map_iff in Hm. destruct Hm as [m' [<- Hm]]. rewrite midx_mneg.
        apply monomials_idx; auto.
      * intros m k Hm Hk. apply in_map_iff in Hm. destruct Hm as [m' [<- Hm]]. rewrite midx_mneg.
        apply (carried_sound _ e2); auto. apply HIin; auto.
      * intros k Hk; apply HIin; auto.
      * intros k. unfold RK. rewrite In_sdiff, In_sinter, In_iparts. tauto.
  - (* multiply *)
    cbn [desugar].
    set (LK := sinter (iparts e1) K). set (RK := sinter (iparts e2) K).
    set (I := sinter LK RK).
    destruct (forallb (fun k => carried e1 k || carried e2 k) I) eqn:Hall; cbn [andb negb].
    + destruct (desugar ord true e1 (sdiff LK I) n) as [da n1] eqn:Ea.
      destruct (desugar ord true e2 (sdiff RK I) n1) as [db n2] eqn:Eb.
      simpl. rewrite denote_wrap. simpl.
      rewrite (sum_over_ext O sizes _ _
         (fun r => rmul (msum (sdiff LK I) (monomials e1) r) (msum (sdiff RK I) (monomials e2) r))).
      2:{ intros r.
          pose proof (IHe1 (sdiff LK I) n r) as H1. rewrite Ea in H1. simpl in H1. rewrite H1.
          pose proof (IHe2 (sdiff RK I) n1 r) as H2. rewrite Eb in H2. simpl in H2. rewrite H2.
          reflexivity.
          - apply NoDup_sdiff, NoDup_sinter, NoDup_iparts.
          - intros k Hk. apply In_sdiff in Hk. destruct Hk as [Hk _]. apply In_sinter in Hk; tauto.
          - apply NoDup_sdiff, NoDup_sinter, NoDup_iparts.
          - intros k Hk. apply In_sdiff in Hk. destruct Hk as [Hk _]. apply In_sinter in Hk; tauto. }
      assert (HNDI : NoDup I).
      { unfold I. apply NoDup_sinter, NoDup_sinter, NoDup_iparts. }
      apply (msum_mprod (expr_idx e1) (expr_idx e2) I); auto.
      * apply ord_rev_NoDup; auto.
      * intros; apply ord_rev_In.
      * intros; apply monomials_idx; auto.
      * intros; apply monomials_idx; auto.
      * intros k. unfold I, LK, RK. rewrite !In_sinter, !In_iparts. tauto.
      * intros ma mb k Hma Hmb Hk. rewrite forallb_forall in Hall. specialize (Hall k Hk).
        apply orb_true_iff in Hall. destruct Hall as [Hc | Hc].
        -- left. apply (carried_sound _ e1); auto.
        -- right. apply (carried_sound _ e2); auto.
      * intros k. unfold LK. rewrite In_sdiff, In_sinter, In_iparts. tauto.
      * intros k. unfold RK. rewrite In_sdiff, In_sinter, In_iparts. tauto.
    + apply denote_terms.
      * apply (monomials_nonempty (EMul e1 e2)).
      * intros m Hm. apply (monomial_factors_nonempty (EMul e1 e2)); auto.
Qed.

(** ** assignments *)

Lemma contract_indexes_NoDup : forall a : assignment O, NoDup (contract_indexes a).
Proof. intros; apply NoDup_sdiff, NoDup_sdedup. Qed.

Lemma contract_indexes_In : forall (a : assignment O) k,
  In k (contract_indexes a) <-> In k (expr_idx (rhs a)) /\ ~ In k (tgt_idx a).
Proof.
  intros; unfold contract_indexes. rewrite In_sdiff, In_sdedup, in_app_iff. tauto.
Qed.

Lemma msum_spec : forall (a : assignment O) c,
  msum (contract_indexes a) (monomials (rhs a)) (bind (tgt_idx a) c) = spec a E sizes c.
Proof.
  intros; unfold msum, spec. apply rsum_map_ext; intros m Hm.
  unfold mono_sum, term_value. f_equal.
  replace (sinter (sdedup (midx m)) (contract_indexes a)) with (contracted (tgt_idx a) m); auto.
  unfold contracted, sinter, sdedup. apply filter_ext_in. intros k Hk.
  apply nodup_In in Hk.
  destruct (smem k (contract_indexes a)) eqn:E1.
  - apply smem_In, contract_indexes_In in E1. destruct E1 as [_ E1].
    apply smem_false in E1. rewrite E1; auto.
  - apply smem_false in E1. rewrite contract_indexes_In in E1.
    destruct (smem k (tgt_idx a)) eqn:E2; auto.
    apply smem_false in E2. exfalso; apply E1; split; auto.
    apply (monomials_idx (rhs a) m); auto.
Qed.

Theorem desugar_fixed_correct : forall (a : assignment O) c,
  denote_at (tgt_idx a) E sizes (desugar_rhs ord true a) c = spec a E sizes c.
Proof.
  intros; unfold denote_at, desugar_rhs. rewrite desugar_fixed_sound.
  - apply msum_spec.
  - apply contract_indexes_NoDup.
  - intros k Hk. apply contract_indexes_In in Hk. apply In_iparts; tauto.
Qed.

Theorem desugar_cur_correct_when_hoist_ok : forall (a : assignment O) c,
  assignment_hoist_ok a = true ->
  denote_at (tgt_idx a) E sizes (desugar_rhs ord false a) c = spec a E sizes c.
Proof.
  intros a c H. unfold desugar_rhs. unfold assignment_hoist_ok in H.
  rewrite (desugar_cur_eq_fixed _ ord _ _ 1%nat H). apply desugar_fixed_correct.
Qed.

End Sound.
