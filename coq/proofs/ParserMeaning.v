(** C12 -- "the tree gives an expression the conventional meaning of its text".

    spec/Grammar.v defines, besides the tree-building grammar DE, an attribute grammar VE that
    assigns a VALUE to a token list directly (no tree): E + T has the value of E plus the value
    of T, etc.  Here: the value of the tree returned by the parser is the one and only value
    the conventional grammar assigns to the text, for every interpretation of the operators,
    literals and tensors. *)

From Coq Require Import String Ascii List NArith ZArith Bool Arith Lia.
From TV Require Import model.Parser spec.Grammar proofs.ParserFuel proofs.ParserGrammar.
Import ListNotations.

Section Meaning.
  Variable R : Type.
  Variables (radd rsub rmul : R -> R -> R).
  Variable val_int : N -> R.
  Variable val_float : dec -> R.
  Variable val_tensor : string -> list string -> R.

  Let ev := eval R radd rsub rmul val_int val_float val_tensor.
  Let VF' := VF R radd rsub rmul val_int val_float val_tensor.
  Let VT' := VT R radd rsub rmul val_int val_float val_tensor.
  Let VE' := VE R radd rsub rmul val_int val_float val_tensor.

  Lemma derives_value :
    (forall ts e, DF ts e -> VF' ts (ev e)) /\
    (forall ts e, DT ts e -> VT' ts (ev e)) /\
    (forall ts e, DE ts e -> VE' ts (ev e)).
  Proof.
    apply D_mutind; intros; subst ev VF' VT' VE'; simpl; constructor; assumption.
  Qed.

  Lemma value_derives :
    (forall ts v, VF' ts v -> exists e, DF ts e /\ ev e = v) /\
    (forall ts v, VT' ts v -> exists e, DT ts e /\ ev e = v) /\
    (forall ts v, VE' ts v -> exists e, DE ts e /\ ev e = v).
  Proof.
    subst VF' VT' VE'. apply V_mutind.
    - intros n. exists (EInt n). split; [constructor|reflexivity].
    - intros f. exists (EFloat f). split; [constructor|reflexivity].
    - intros x idx. exists (ETensor x idx). split; [constructor|reflexivity].
    - intros ts v _ [e [D E]]. exists e. split; [constructor; assumption|assumption].
    - intros ts v _ [e [D E]]. exists e. split; [constructor; assumption|assumption].
    - intros ts1 ts2 v1 v2 _ [e1 [D1 E1]] _ [e2 [D2 E2]].
      exists (EMul e1 e2). split; [constructor; assumption|]. subst ev. simpl. congruence.
    - intros ts v _ [e [D E]]. exists e. split; [constructor; assumption|assumption].
    - intros ts1 ts2 v1 v2 _ [e1 [D1 E1]] _ [e2 [D2 E2]].
      exists (EAdd e1 e2). split; [constructor; assumption|]. subst ev. simpl. congruence.
    - intros ts1 ts2 v1 v2 _ [e1 [D1 E1]] _ [e2 [D2 E2]].
      exists (ESub e1 e2). split; [constructor; assumption|]. subst ev. simpl. congruence.
  Qed.

  (** the conventional grammar gives every sentence exactly one value *)
  Theorem value_unique : forall ts v1 v2, VE' ts v1 -> VE' ts v2 -> v1 = v2.
  Proof.
    intros ts v1 v2 H1 H2.
    destruct value_derives as [_ [_ HV]].
    destruct (HV _ _ H1) as [e1 [D1 E1]]. destruct (HV _ _ H2) as [e2 [D2 E2]].
    rewrite (DE_unambiguous ts e1 e2 D1 D2) in E1. congruence.
  Qed.

  (** the tree the parser returns evaluates to the conventional value of the text *)
  Theorem parse_meaning :
    forall ts a, parse_tokens ts = POk a ->
      exists body, ts = tensor_toks (tname a) (tindexes a) ++ TEq :: body /\
                   VE' body (ev (rhs a)) /\
                   (forall v, VE' body v -> v = ev (rhs a)).
  Proof.
    intros ts a H. apply parse_tokens_sound in H. destruct H as [D _].
    destruct D as [x idx body e D]. exists body. simpl.
    split; [reflexivity|].
    assert (V : VE' body (ev e)) by (apply derives_value; exact D).
    split; [exact V|]. intros v Hv. apply (value_unique body); assumption.
  Qed.
End Meaning.

(* ------------------------------------------------------------------------------------------ *)
(** * the three rules on characteristic sentences, over atoms x y z (any three factors) *)

Section Characteristic.
  Let x := ETensor "x"%string ["i"%string].
  Let y := EInt 2%N.
  Let z := EFloat (Dec 15%N (-1)%Z).
  Let pre := tensor_toks "a"%string ["i"%string] ++ [TEq].
  Let ok (body : list token) (e : expr) := parse_tokens (pre ++ body) = POk (Assign "a"%string ["i"%string] e).

  (** equal precedence associates to the left *)
  Example left_assoc_sub : ok (toks x ++ TMinus :: toks y ++ TMinus :: toks z) (ESub (ESub x y) z).
  Proof. vm_compute. reflexivity. Qed.
  Example left_assoc_mul : ok (toks x ++ TStar :: toks y ++ TStar :: toks z) (EMul (EMul x y) z).
  Proof. vm_compute. reflexivity. Qed.
  Example left_assoc_mixed : ok (toks x ++ TMinus :: toks y ++ TPlus :: toks z) (EAdd (ESub x y) z).
  Proof. vm_compute. reflexivity. Qed.
  (** * binds tighter than + and - *)
  Example mul_binds_tighter_r : ok (toks x ++ TPlus :: toks y ++ TStar :: toks z) (EAdd x (EMul y z)).
  Proof. vm_compute. reflexivity. Qed.
  Example mul_binds_tighter_l : ok (toks x ++ TStar :: toks y ++ TMinus :: toks z) (ESub (EMul x y) z).
  Proof. vm_compute. reflexivity. Qed.
  (** parentheses override *)
  Example parens_override_prec : ok (TLP :: toks x ++ TPlus :: toks y ++ TRP :: TStar :: toks z) (EMul (EAdd x y) z).
  Proof. vm_compute. reflexivity. Qed.
  Example parens_override_assoc : ok (toks x ++ TMinus :: TLP :: toks y ++ TMinus :: toks z ++ [TRP]) (ESub x (ESub y z)).
  Proof. vm_compute. reflexivity. Qed.
End Characteristic.
