(** Certificates "an unread variable is irrelevant" and "an unread dimension is irrelevant"
    (property C16).

    [sok X DS PS s]: statement [s] never READS a variable of [X] (it may declare / assign them), and
    reads no dimension entry [(T, k)] of the list [DS] (tensor parameter name, position) except as
    the right-hand side of the declaration of a variable of [X]; the tensor parameters [PS] are
    never re-bound (only needed when [DS] is not empty, to know which tensor [T->dimensions[k]]
    talks about).

    Soundness: two runs of such a statement from states that differ only in the values bound to
    the variables of [X] and in the dimension entries [DS] proceed in lock-step: same control
    flow, same heap, same loop-iteration counter, same results, same errors.  Hence a kernel whose
    sparse loops never read [k_dim] does the same work whatever the size of dimension [k]. *)

From Coq Require Import ZArith Bool List String Lia FMapPositive.
From TV Require Import spec.Num gen.IRAst spec.IRSem spec.IRRun proofs.Certs2Base.
Import ListNotations.
Open Scope Z_scope.

Local Arguments fadd : simpl never.
Local Arguments fsub : simpl never.
Local Arguments fmul : simpl never.
Local Arguments chk32 : simpl never.
Local Arguments chkfin : simpl never.

(** * The syntactic check *)

Definition memp (y : string) (k : Z) (DS : list (string * Z)) : bool :=
  existsb (fun p => String.eqb y (fst p) && Z.eqb k (snd p)) DS.

(** [y->a[k]] with a literal [k] *)
Definition special (tgt idx : expr) : option (string * string * Z) :=
  match tgt, idx with
  | AttributeAccess (Var y) a, IntegerLiteral k => Some (y, a, k)
  | _, _ => None
  end.

Lemma special_inv tgt idx y a k : special tgt idx = Some (y, a, k) ->
  tgt = AttributeAccess (Var y) a /\ idx = IntegerLiteral k.
Proof.
  unfold special. destruct tgt; try discriminate. destruct tgt; try discriminate.
  destruct idx; try discriminate. intros H; inv H. auto.
Qed.

Section SYN.
  Variable X : list string.
  Variable DS : list (string * Z).
  Variable PS : list string.

  Definition nodims : bool := match DS with [] => true | _ => false end.

  Definition is_dims (a : string) : bool := String.eqb a "dimensions".

  Fixpoint eok (e : expr) {struct e} : bool :=
    match e with
    | Var y => negb (mem y X)
    | AttributeAccess tgt a => eok tgt && (negb (is_dims a) || nodims)
    | ArrayIndex tgt idx =>
        match special tgt idx with
        | Some (y, a, k) =>
            negb (mem y X) && (negb (is_dims a) || nodims || (mem y PS && negb (memp y k DS)))
        | None => eok tgt && eok idx
        end
    | IntegerLiteral _ => true
    | FloatLiteral _ => true
    | BooleanLiteral _ => true
    | Add l r => eok l && eok r
    | Subtract l r => eok l && eok r
    | Multiply l r => eok l && eok r
    | Equal l r => eok l && eok r
    | NotEqual l r => eok l && eok r
    | GreaterThan l r => eok l && eok r
    | LessThan l r => eok l && eok r
    | GreaterThanOrEqual l r => eok l && eok r
    | LessThanOrEqual l r => eok l && eok r
    | And l r => eok l && eok r
    | Or l r => eok l && eok r
    | Max l r => eok l && eok r
    | Min l r => eok l && eok r
    | BooleanToInteger x => eok x
    | ArrayAllocate _ n => eok n
    | ArrayReallocate old _ n => eok old && eok n
    end.

  (** a variable that may be (re)bound: not a protected tensor parameter *)
  Definition prot (y : string) : bool := nodims || negb (mem y PS).

  Definition loc_ok (tgt : expr) : bool :=
    match tgt with
    | Var y => prot y
    | AttributeAccess t' _ => eok t'
    | ArrayIndex t' i => eok t' && eok i
    | _ => true
    end.

  (** the one place where a listed dimension may be read: [int x = y->dimensions[k]], x in X *)
  Definition is_dim_read (val : expr) : bool :=
    match val with
    | ArrayIndex tgt idx =>
        match special tgt idx with Some (y, _, _) => negb (mem y X) | None => false end
    | _ => false
    end.

  Fixpoint sok (s : stmt) {struct s} : bool :=
    match s with
    | Declaration (Var y) _ => prot y
    | Declaration _ _ => true
    | Assignment tgt val => loc_ok tgt && eok val
    | DeclarationAssignment d val =>
        match d with
        | Declaration (Var x) _ => prot x && (eok val || (mem x X && is_dim_read val))
        | Declaration _ _ => eok val
        | _ => true
        end
    | Block ss _ => forallb sok ss
    | Branch c a b => eok c && sok a && sok b
    | Loop c b => eok c && sok b
    | Return e => eok e
    | SExpr e => eok e
    end.
End SYN.

(** [x] occurs in [s] in a position where it is read *)
Definition reads_var (x : string) (s : stmt) : bool := negb (sok [x] [] [] s).

(** variables declared from a listed dimension entry *)
Fixpoint dim_vars (DS : list (string * Z)) (s : stmt) {struct s} : list string :=
  match s with
  | DeclarationAssignment (Declaration (Var x) _) (ArrayIndex tgt idx) =>
      match special tgt idx with
      | Some (y, a, k) => if is_dims a && memp y k DS then [x] else []
      | None => []
      end
  | Block ss _ => flat_map (dim_vars DS) ss
  | Branch _ a b => dim_vars DS a ++ dim_vars DS b
  | Loop _ b => dim_vars DS b
  | _ => []
  end.

Fixpoint nodupb (l : list string) : bool :=
  match l with [] => true | x :: r => negb (mem x r) && nodupb r end.

Lemma nodupb_NoDup l : nodupb l = true -> NoDup l.
Proof.
  induction l as [|x r IH]; simpl; intros H; constructor.
  - apply andb_prop in H. destruct H as [H _]. apply negb_true_iff in H. now apply mem_false_In.
  - apply andb_prop in H. tauto.
Qed.

(** [DSi]: (tensor-parameter index, position) pairs.  The certificate: the parameters are distinct
    well-formed names, never re-bound; the listed entries are read only into variables that are
    never read. *)
Definition dim_unread_cert (f : function_definition) (DSi : list (nat * Z)) : bool :=
  match f with
  | FunctionDefinition _ ps _ body =>
      let PS := param_names ps in
      let DS := map (fun p => (nth (fst p) PS ""%string, snd p)) DSi in
      let X := dim_vars DS body in
      Nat.eqb (List.length PS) (List.length ps) && nodupb PS
      && forallb (fun p => Nat.ltb (fst p) (List.length PS)) DSi
      && negb (nodims DS)
      && sok X DS PS body
  end.

(** * The relation between the two runs *)

Section SIM.
  Variable X : list string.
  Variable DS : list (string * Z).
  Variable PS : list string.
  Variable D : positive -> Z -> bool.            (* tensor t may differ in dimension entry k *)
  Variable bs : list (string * positive).        (* tensor parameter -> tensor id *)
  Hypothesis link : forall y id k, In (y, id) bs -> memp y k DS = false -> D id k = false.
  Hypothesis bs_names : forall y, mem y PS = true -> exists id, In (y, id) bs.
  Hypothesis bs_in_PS : forall y id, In (y, id) bs -> In y PS.
  Hypothesis nodims_D : nodims DS = true -> forall t k, D t k = false.

  Definition dims_sim (t : positive) (l1 l2 : list Z) : Prop :=
    List.length l1 = List.length l2 /\
    forall k a b, nthZ_opt l1 k = Some a -> nthZ_opt l2 k = Some b ->
      a = b \/ (D t k = true /\ in_int32 a = true /\ in_int32 b = true).

  Definition tensor_sim (t : positive) (a b : tensor_s) : Prop :=
    t_idx a = t_idx b /\ t_vals a = t_vals b /\ t_output a = t_output b /\
    dims_sim t (t_dims a) (t_dims b).

  Definition tensors_sim (m1 m2 : PM.t tensor_s) : Prop :=
    forall t, match PM.find t m1, PM.find t m2 with
              | Some a, Some b => tensor_sim t a b
              | None, None => True
              | _, _ => False
              end.

  Definition env_sim (e1 e2 : list (string * (ty * option value))) : Prop :=
    forall y, (mem y X = false -> lookup y e1 = lookup y e2) /\
              option_map fst (lookup y e1) = option_map fst (lookup y e2).

  Definition params_bound (e : list (string * (ty * option value))) : Prop :=
    nodims DS = false -> forall y id, In (y, id) bs ->
      exists t, lookup y e = Some (t, Some (VTensor id)).

  Record sim (s1 s2 : state) : Prop := mkSim {
    sim_env : env_sim (env s1) (env s2);
    sim_heap : heap s1 = heap s2;
    sim_next : next_blk s1 = next_blk s2;
    sim_iters : iters s1 = iters s2;
    sim_tensors : tensors_sim (tensors s1) (tensors s2);
    sim_params : params_bound (env s1)
  }.

  Lemma sim_tick a b : sim a b -> sim (tick a) (tick b).
  Proof. intros [H1 H2 H3 H4 H5 H6]. constructor; simpl; auto. now rewrite H4. Qed.

  (** ** Expressions *)

  Lemma load_sim s1 s2 b o : heap s1 = heap s2 -> load s1 b o = load s2 b o.
  Proof. intros H. unfold load. now rewrite H. Qed.

  Lemma nthZ_opt_len {A} (l1 l2 : list A) k :
    List.length l1 = List.length l2 -> nthZ_opt l1 k = None -> nthZ_opt l2 k = None.
  Proof.
    unfold nthZ_opt. intros L. destruct (k <? 0); auto.
    rewrite !nth_error_None. lia.
  Qed.

  Lemma tensor_of_sim s1 s2 t : sim s1 s2 ->
    match tensor_of s1 t, tensor_of s2 t with
    | Ok a, Ok b => tensor_sim t a b
    | Err x, Err y => x = y
    | _, _ => False
    end.
  Proof.
    intros S. pose proof (sim_tensors _ _ S t) as H. unfold tensor_of.
    destruct (PM.find t (tensors s1)), (PM.find t (tensors s2)); tauto.
  Qed.

  Lemma index_value_sim s1 s2 v i : sim s1 s2 ->
    (forall t n, v = VDims t -> i = VInt n -> D t n = false) ->
    index_value s1 v i = index_value s2 v i.
  Proof.
    intros S ND. unfold index_value.
    destruct v; try reflexivity; destruct i; try reflexivity.
    - now rewrite (load_sim s1 s2 _ _ (sim_heap _ _ S)).
    - pose proof (tensor_of_sim s1 s2 t S) as H. specialize (ND t z eq_refl eq_refl).
      destruct (tensor_of s1 t) as [a|x], (tensor_of s2 t) as [b|y]; try tauto; [|now subst].
      simpl. destruct H as (_ & _ & _ & L & N).
      destruct (nthZ_opt (t_dims a) z) as [da|] eqn:N1.
      + destruct (nthZ_opt (t_dims b) z) as [db|] eqn:N2.
        * destruct (N z da db N1 N2) as [->|[Q _]]; [reflexivity|congruence].
        * apply (nthZ_opt_len _ (t_dims a)) in N2; [congruence|auto].
      + now rewrite (nthZ_opt_len _ _ z L N1).
    - pose proof (tensor_of_sim s1 s2 t S) as H.
      destruct (tensor_of s1 t) as [a|x], (tensor_of s2 t) as [b|y]; try tauto; [|now subst].
      simpl. destruct H as (-> & _). reflexivity.
  Qed.

  Lemma attribute_value_sim s1 s2 v a : sim s1 s2 -> attribute_value s1 v a = attribute_value s2 v a.
  Proof.
    intros S. unfold attribute_value. destruct v; try reflexivity.
    destruct (String.eqb a "dimensions"); auto. destruct (String.eqb a "indices"); auto.
    destruct (String.eqb a "vals"); auto.
    pose proof (tensor_of_sim s1 s2 t S) as H.
    destruct (tensor_of s1 t) as [x|x], (tensor_of s2 t) as [y|y]; try tauto; [|now subst].
    simpl. destruct H as (_ & -> & _). reflexivity.
  Qed.

  Lemma eval_var_sim s1 s2 y : sim s1 s2 -> mem y X = false -> eval s1 (Var y) = eval s2 (Var y).
  Proof. intros S M. simpl. now rewrite (proj1 (sim_env _ _ S y) M). Qed.

  Lemma eval_special st y a k :
    eval st (ArrayIndex (AttributeAccess (Var y) a) (IntegerLiteral k)) =
    (do '(v, t1) <- (do '(v0, t0) <- eval st (Var y); do r <- attribute_value st v0 a; Ok (r, t0));
     do '(i, t2) <- (do z' <- chk32 k; Ok (VInt z', []));
     do '(r, t3) <- index_value st v i;
     Ok (r, t1 ++ t2 ++ t3)).
  Proof. reflexivity. Qed.

  Lemma eval_sim s1 s2 : sim s1 s2 -> forall e, eok X DS PS e = true -> eval s1 e = eval s2 e.
  Proof.
    intros S. induction e; intros K; cbn [eok] in K;
      try (apply andb_prop in K; destruct K as [K1 K2]; cbn [eval];
           rewrite (IHe1 K1), (IHe2 K2); reflexivity);
      try reflexivity.
    - (* Var *) apply negb_true_iff in K. now apply eval_var_sim.
    - (* AttributeAccess *)
      apply andb_prop in K. destruct K as [K1 _]. cbn [eval]. rewrite (IHe K1).
      destruct (eval s2 e) as [[v t1]|]; auto. unfold bind.
      now rewrite (attribute_value_sim s1 s2 v attribute S).
    - (* ArrayIndex *)
      destruct (special e1 e2) as [[[y a] k]|] eqn:SP.
      + apply special_inv in SP. destruct SP as [-> ->].
        apply andb_prop in K. destruct K as [KX KD]. apply negb_true_iff in KX.
        rewrite !eval_special. rewrite (eval_var_sim s1 s2 y S KX).
        destruct (eval s2 (Var y)) as [[w t0]|] eqn:EV; auto. unfold bind.
        rewrite (attribute_value_sim s1 s2 w a S).
        destruct (attribute_value s2 w a) as [v|] eqn:AV; auto.
        destruct (chk32 k) as [k'|] eqn:CK; auto.
        rewrite (index_value_sim s1 s2 v (VInt k') S); auto.
        intros t n -> Q. inv Q.
        unfold chk32 in CK. destruct (in_int32 k); inv CK.
        (* the value is a dimensions handle: a = "dimensions", y evaluates to VTensor t *)
        apply attribute_value_dims in AV. destruct AV as [AD ->].
        unfold is_dims in KD. rewrite AD in KD. simpl in KD.
        destruct (nodims DS) eqn:NDm; [now apply nodims_D|]. simpl in KD.
        apply andb_prop in KD. destruct KD as [KP KM]. apply negb_true_iff in KM.
        destruct (bs_names y KP) as [id IN].
        destruct (sim_params _ _ S NDm y id IN) as [ty L].
        rewrite <- (eval_var_sim s1 s2 y S KX) in EV. simpl in EV. rewrite L in EV.
        destruct (typed ty (VTensor id)); inv EV. eapply link; eauto.
      + apply andb_prop in K. destruct K as [K1 K2]. cbn [eval].
        rewrite (IHe1 K1), (IHe2 K2).
        destruct (eval s2 e1) as [[v t1]|] eqn:E1; auto.
        destruct (eval s2 e2) as [[i t2]|] eqn:E2; auto. unfold bind.
        rewrite (index_value_sim s1 s2 v i S); auto.
        intros t n -> ->. apply eval_dims_shape in E1. destruct e1; try tauto.
        cbn [eok] in K1. apply andb_prop in K1. destruct K1 as [_ K1]. unfold is_dims in K1.
        rewrite E1 in K1.
        simpl in K1. now apply nodims_D.
    - (* BooleanToInteger *) cbn [eval]. now rewrite (IHe K).
  Qed.

  (** ** Right-hand sides, locations, stores *)

  Definition rsim (r1 r2 : res (state * value * list event)) : Prop :=
    match r1, r2 with
    | Ok (a, v, t), Ok (b, w, u) => sim a b /\ v = w /\ t = u
    | Err x, Err y => x = y
    | _, _ => False
    end.

  Lemma alloc_sim s1 s2 t n : sim s1 s2 -> rsim (alloc s1 t n) (alloc s2 t n).
  Proof.
    intros S. unfold alloc, bind. destruct (elt_is_float t); [|reflexivity].
    destruct (n <? 0); [reflexivity|]. unfold rsim.
    rewrite (sim_next _ _ S), (sim_heap _ _ S). split; [|auto].
    destruct S as [H1 H2 H3 H4 H5 H6]. constructor; simpl; auto.
  Qed.

  Lemma realloc_sim s1 s2 o t n : sim s1 s2 -> rsim (realloc s1 o t n) (realloc s2 o t n).
  Proof.
    intros S. unfold realloc, bind. destruct (elt_is_float t) eqn:Q; simpl; auto.
    destruct (n <? 0) eqn:N0; simpl; auto.
    destruct o; try reflexivity.
    - destruct off; try reflexivity. rewrite <- (sim_heap _ _ S).
      destruct (PM.find blk (heap s1)) as [b0|]; simpl; auto.
      destruct (negb (b_live b0)); simpl; auto. destruct (b_input b0); simpl; auto.
      destruct (negb _); simpl; auto. rewrite <- (sim_next _ _ S). split; [|auto].
      destruct S as [H1 H2 H3 H4 H5 H6]. constructor; simpl; auto.
    - now apply alloc_sim.
  Qed.

  Lemma eval_rhs_sim s1 s2 val : sim s1 s2 -> eok X DS PS val = true ->
    rsim (eval_rhs s1 val) (eval_rhs s2 val).
  Proof.
    intros S K.
    assert (PLAIN : eval_rhs s1 val = (do '(v, t1) <- eval s1 val; Ok (s1, v, t1)) ->
                    eval_rhs s2 val = (do '(v, t1) <- eval s2 val; Ok (s2, v, t1)) ->
                    rsim (eval_rhs s1 val) (eval_rhs s2 val)).
    { intros -> ->. rewrite (eval_sim s1 s2 S val K). unfold bind.
      destruct (eval s2 val) as [[v t1]|]; simpl; auto. }
    destruct val; try (apply PLAIN; reflexivity).
    - cbn [eok] in K. cbn [eval_rhs]. rewrite (eval_sim s1 s2 S _ K). unfold bind.
      destruct (eval s2 val) as [[v t1]|]; simpl; auto. destruct v; simpl; auto.
      pose proof (alloc_sim s1 s2 element_type z S) as A.
      destruct (alloc s1 element_type z) as [[[a p] t2]|], (alloc s2 element_type z) as [[[b q] t3]|];
        simpl in *; try tauto. destruct A as (? & -> & ->). auto.
    - cbn [eok] in K. apply andb_prop in K. destruct K as [K1 K2]. cbn [eval_rhs].
      destruct (negb (is_Assignable val1)); simpl; auto.
      rewrite (eval_sim s1 s2 S _ K1), (eval_sim s1 s2 S _ K2). unfold bind.
      destruct (eval s2 val1) as [[o t1]|]; simpl; auto.
      destruct (eval s2 val2) as [[v t2]|]; simpl; auto. destruct v; simpl; auto.
      pose proof (realloc_sim s1 s2 o element_type z S) as A.
      destruct (realloc s1 o element_type z) as [[[a p] t3]|], (realloc s2 o element_type z) as [[[b q] t4]|];
        simpl in *; try tauto. destruct A as (? & -> & ->). auto.
  Qed.

  Lemma eval_loc_sim s1 s2 tgt : sim s1 s2 -> loc_ok X DS PS tgt = true ->
    eval_loc s1 tgt = eval_loc s2 tgt.
  Proof.
    intros S K. destruct tgt; try reflexivity; simpl in K; cbn [eval_loc].
    - now rewrite (eval_sim s1 s2 S _ K).
    - apply andb_prop in K. destruct K as [K1 K2].
      now rewrite (eval_sim s1 s2 S _ K1), (eval_sim s1 s2 S _ K2).
  Qed.

  Definition asim (r1 r2 : res (state * list event)) : Prop :=
    match r1, r2 with
    | Ok (a, t), Ok (b, u) => sim a b /\ t = u
    | Err x, Err y => x = y
    | _, _ => False
    end.

  (** binding variable [y] in both states: to the same thing, or [y] is never read *)
  Lemma sim_set s1 s2 y t v1 v2 :
    sim s1 s2 -> prot DS PS y = true -> (v1 = v2 \/ mem y X = true) ->
    sim (with_env s1 (set_var y (t, v1) (env s1))) (with_env s2 (set_var y (t, v2) (env s2))).
  Proof.
    intros [H1 H2 H3 H4 H5 H6] PR V. constructor; simpl; auto.
    - intros z. rewrite !lookup_set_var. destruct (String.eqb z y) eqn:Q.
      + apply String.eqb_eq in Q. subst z. split; [|reflexivity].
        intros M. destruct V as [->|V]; [reflexivity|congruence].
      + apply H1.
    - intros ND z id IN. rewrite lookup_set_var. destruct (String.eqb z y) eqn:Q.
      + apply String.eqb_eq in Q. subst z. unfold prot in PR. rewrite ND in PR. simpl in PR.
        apply negb_true_iff in PR.
        (* y is a parameter name: excluded *)
        exfalso. clear - PR IN bs_in_PS. apply mem_false_In in PR. apply PR. eapply bs_in_PS; eauto.
      + now apply H6.
  Qed.

  Lemma store_sim s1 s2 b o v : sim s1 s2 ->
    match store s1 b o v, store s2 b o v with
    | Ok a, Ok c => sim a c
    | Err x, Err y => x = y
    | _, _ => False
    end.
  Proof.
    intros S. unfold store, bind. rewrite <- (sim_heap _ _ S).
    destruct (PM.find b (heap s1)) as [blk|]; auto.
    destruct (negb (b_live blk)); auto. destruct (b_input blk); auto.
    destruct (_ || _); auto. destruct (coerce _ v); auto.
    destruct S as [H1 H2 H3 H4 H5 H6]. constructor; simpl; auto.
  Qed.

  Lemma tensors_sim_add m1 m2 t a b :
    tensors_sim m1 m2 -> tensor_sim t a b -> tensors_sim (PM.add t a m1) (PM.add t b m2).
  Proof.
    intros H T t'. destruct (Pos.eq_dec t' t) as [->|N].
    - now rewrite !PM.gss.
    - rewrite !PM.gso by auto. apply H.
  Qed.

  Lemma assign_sim s1 s2 l v : sim s1 s2 ->
    (match l with LVar y => prot DS PS y = true | _ => True end) ->
    asim (assign s1 l v) (assign s2 l v).
  Proof.
    intros S PR. destruct l; cbn [assign].
    - (* variable *)
      pose proof (sim_env _ _ S x) as [_ TY].
      destruct (lookup x (env s1)) as [[t o1]|], (lookup x (env s2)) as [[t' o2]|];
        simpl in TY; try discriminate; simpl; auto.
      inv TY. unfold bind. destruct (coerce t' v) as [v'|]; simpl; auto.
      split; auto. apply sim_set; auto.
    - (* cell *)
      unfold bind. pose proof (store_sim s1 s2 blk off v S) as H.
      destruct (store s1 blk off v), (store s2 blk off v); simpl; tauto.
    - (* vals field *)
      pose proof (tensor_of_sim s1 s2 t S) as H. unfold bind.
      destruct (tensor_of s1 t) as [a|x], (tensor_of s2 t) as [b|y]; try tauto; simpl; auto.
      destruct H as (HI & HV & HO & HD). rewrite <- HO.
      destruct (negb (t_output a)); simpl; auto. destruct (negb (is_ptr v)); simpl; auto.
      split; auto. destruct S as [H1 H2 H3 H4 H5 H6]. constructor; simpl; auto.
      apply tensors_sim_add; auto. repeat split; simpl; auto; apply HD.
    - (* level field *)
      pose proof (tensor_of_sim s1 s2 t S) as H. unfold bind.
      destruct (tensor_of s1 t) as [a|x], (tensor_of s2 t) as [b|y]; try tauto; simpl; auto.
      destruct H as (HI & HV & HO & HD). rewrite <- HO, <- HI.
      destruct (negb (t_output a)); simpl; auto. destruct (negb (is_ptr v)); simpl; auto.
      destruct (l <? 0); simpl; auto.
      destruct (nth_error (t_idx a) (Z.to_nat l)) as [[p c]|]; simpl; auto.
      destruct (if j =? 0 then _ else _) as [pc'|]; simpl; auto.
      destruct (set_nth (t_idx a) (Z.to_nat l) pc') as [idx'|]; simpl; auto.
      split; auto. destruct S as [H1 H2 H3 H4 H5 H6]. constructor; simpl; auto.
      apply tensors_sim_add; auto. repeat split; simpl; auto; apply HD.
  Qed.

  (** ** The declaration that reads a listed dimension *)

  Definition vsim (r1 r2 : res (value * list event)) : Prop :=
    match r1, r2 with
    | Ok (v, t), Ok (w, u) =>
        t = u /\ (v = w \/ exists a b, v = VInt a /\ w = VInt b /\ in_int32 a = true /\ in_int32 b = true)
    | Err x, Err y => x = y
    | _, _ => False
    end.

  Lemma vsim_refl r : vsim r r.
  Proof. destruct r as [[v t]|]; simpl; auto. Qed.

  Lemma index_value_vsim s1 s2 v i : sim s1 s2 -> vsim (index_value s1 v i) (index_value s2 v i).
  Proof.
    intros S. destruct v; try apply vsim_refl; destruct i; try apply vsim_refl;
      try (rewrite (index_value_sim s1 s2 _ _ S); [apply vsim_refl | intros; discriminate]).
    unfold index_value. pose proof (tensor_of_sim s1 s2 t S) as H.
    destruct (tensor_of s1 t) as [a|x], (tensor_of s2 t) as [b|y]; try tauto; simpl; auto.
    destruct H as (_ & _ & _ & L & N).
    destruct (nthZ_opt (t_dims a) z) as [da|] eqn:N1.
    - destruct (nthZ_opt (t_dims b) z) as [db|] eqn:N2.
      + destruct (N z da db N1 N2) as [->|(_ & Ia & Ib)].
        * apply vsim_refl.
        * unfold chk32. rewrite Ia, Ib. simpl. split; auto. right. eauto 8.
      + apply (nthZ_opt_len _ (t_dims a)) in N2; [congruence|auto].
    - rewrite (nthZ_opt_len _ _ z L N1). simpl. auto.
  Qed.

  Lemma eval_dim_read_vsim s1 s2 val : sim s1 s2 -> is_dim_read X val = true ->
    vsim (eval s1 val) (eval s2 val).
  Proof.
    intros S K. destruct val; try discriminate. simpl in K.
    destruct (special val1 val2) as [[[y a] k]|] eqn:SP; try discriminate.
    apply special_inv in SP. destruct SP as [-> ->]. apply negb_true_iff in K.
    rewrite !eval_special. rewrite (eval_var_sim s1 s2 y S K).
    destruct (eval s2 (Var y)) as [[w t0]|]; simpl; auto.
    rewrite (attribute_value_sim s1 s2 w a S).
    destruct (attribute_value s2 w a) as [v|]; simpl; auto.
    destruct (chk32 k) as [k'|]; simpl; auto.
    pose proof (index_value_vsim s1 s2 v (VInt k') S) as H.
    destruct (index_value s1 v (VInt k')) as [[r1 u1]|], (index_value s2 v (VInt k')) as [[r2 u2]|];
      simpl in *; try tauto.
    destruct H as [-> H]. split; auto.
  Qed.

  Lemma coerce_int_sim t a b : in_int32 a = true -> in_int32 b = true ->
    match coerce t (VInt a), coerce t (VInt b) with
    | Ok _, Ok _ => True
    | Err x, Err y => x = y
    | _, _ => False
    end.
  Proof.
    intros Ia Ib. destruct t as [| | | | |t'| |]; simpl; auto.
    - now rewrite Ia, Ib.
    - destruct t'; auto.
  Qed.

  (** ** Atomic statements *)

  Lemma atomic_sim s s1 s2 :
    is_atomic s = true -> sok X DS PS s = true -> sim s1 s2 ->
    osim sim (exec 1 s s1) (exec 1 s s2).
  Proof.
    intros A K S. destruct s as [name t | tgt val | d val | ss c | c a b | c body | e | e];
      try discriminate A.
    - (* Declaration *)
      cbn [exec]. unfold declare. destruct name; simpl; auto.
      split; auto. apply sim_set; auto.
    - (* Assignment *)
      cbn [sok] in K. apply andb_prop in K. destruct K as [KL KV]. cbn [exec].
      pose proof (eval_rhs_sim s1 s2 val S KV) as R.
      destruct (eval_rhs s1 val) as [[[a v] t1]|x], (eval_rhs s2 val) as [[[b w] t2]|y];
        simpl in R; try tauto.
      destruct R as (S1 & -> & ->).
      rewrite (eval_loc_sim a b tgt S1 KL).
      destruct (eval_loc b tgt) as [[l t3]|] eqn:EL; simpl; auto.
      assert (PR : match l with LVar y => prot DS PS y = true | _ => True end).
      { destruct l; auto. destruct tgt; simpl in EL; try discriminate.
        - inv EL. exact KL.
        - unfold bind in EL. destruct (eval b tgt) as [[? ?]|]; try discriminate.
          destruct v; try discriminate. destruct (String.eqb _ _); discriminate.
        - unfold bind in EL. destruct (eval b tgt1) as [[? ?]|]; try discriminate.
          destruct (eval b tgt2) as [[? ?]|]; try discriminate.
          destruct v, v0; discriminate. }
      pose proof (assign_sim a b l w S1 PR) as AS.
      destruct (assign a l w) as [[a' u1]|], (assign b l w) as [[b' u2]|]; simpl in *; try tauto.
      destruct AS as [? ->]. auto.
    - (* DeclarationAssignment *)
      cbn [exec]. destruct d as [name t| | | | | | |]; simpl; auto.
      assert (GEN : eok X DS PS val = true ->
                    (match name with Var x => prot DS PS x = true | _ => True end) ->
        osim sim
          match eval_rhs s1 val with
          | Ok (st1, v, t1) =>
              match coerce t v with
              | Ok v' => match declare st1 name t (Some v') with
                         | Ok st2 => Normal st2 t1 | Err x => Fail x end
              | Err x => Fail x
              end
          | Err x => Fail x
          end
          match eval_rhs s2 val with
          | Ok (st1, v, t1) =>
              match coerce t v with
              | Ok v' => match declare st1 name t (Some v') with
                         | Ok st2 => Normal st2 t1 | Err x => Fail x end
              | Err x => Fail x
              end
          | Err x => Fail x
          end).
      { intros KV PR. pose proof (eval_rhs_sim s1 s2 val S KV) as R.
        destruct (eval_rhs s1 val) as [[[a v] t1]|x], (eval_rhs s2 val) as [[[b w] t2]|y];
          simpl in R; try tauto.
        destruct R as (S1 & -> & ->). destruct (coerce t w) as [v'|]; simpl; auto.
        unfold declare. destruct name; simpl; auto. split; auto. apply sim_set; auto. }
      cbn [sok] in K.
      destruct name as [x| | | | | | | | | | | | | | | | | | | | |]; try (apply GEN; auto; fail).
      apply andb_prop in K. destruct K as [PR K].
      destruct (eok X DS PS val) eqn:KV; [apply GEN; auto|]. simpl in K.
      apply andb_prop in K. destruct K as [MX DR].
      (* the dimension read *)
      assert (PL : forall s, eval_rhs s val = (do '(v, t1) <- eval s val; Ok (s, v, t1))).
      { intros s. destruct val; try discriminate DR. reflexivity. }
      rewrite !PL. pose proof (eval_dim_read_vsim s1 s2 val S DR) as V. unfold bind.
      destruct (eval s1 val) as [[v1 t1]|], (eval s2 val) as [[v2 t2]|]; simpl in V; try tauto.
      destruct V as [-> [->|(a & b & -> & -> & Ia & Ib)]].
      + destruct (coerce t v2); simpl; auto. split; auto. apply sim_set; auto.
      + pose proof (coerce_int_sim t a b Ia Ib) as C.
        destruct (coerce t (VInt a)), (coerce t (VInt b)); simpl; try tauto.
        split; auto. apply sim_set; auto.
    - (* Return *)
      cbn [exec]. cbn [sok] in K. rewrite (eval_sim s1 s2 S e K).
      destruct (eval s2 e) as [[v t]|]; simpl; auto.
    - (* SExpr *)
      cbn [exec]. cbn [sok] in K. rewrite (eval_sim s1 s2 S e K).
      destruct (eval s2 e) as [[v t]|]; simpl; auto.
  Qed.

  Theorem sok_sound n s s1 s2 :
    sok X DS PS s = true -> sim s1 s2 -> osim sim (exec n s s1) (exec n s s2).
  Proof.
    apply (exec_simulation sim (sok X DS PS) (eok X DS PS)).
    - apply sim_tick.
    - intros ss c H. exact H.
    - intros c a b H. cbn [sok] in H. apply andb_prop in H. destruct H as [H Hb].
      apply andb_prop in H. tauto.
    - intros c b H. cbn [sok] in H. apply andb_prop in H. tauto.
    - intros c a b K S. now apply eval_sim.
    - intros. now apply atomic_sim.
  Qed.
End SIM.

(** * An unread variable is irrelevant *)

Lemma osim_impl (R R' : state -> state -> Prop) o1 o2 :
  (forall a b, R a b -> R' a b) -> osim R o1 o2 -> osim R' o1 o2.
Proof.
  intros H. destruct o1, o2; simpl; try tauto.
  - intros [? ?]. auto.
  - intros (? & ? & ?). auto.
Qed.

(** the two states differ at most in the value bound to [x] *)
Definition same_except (x : string) (st1 st2 : state) : Prop :=
  (forall y, y <> x -> lookup y (env st1) = lookup y (env st2)) /\
  option_map fst (lookup x (env st1)) = option_map fst (lookup x (env st2)) /\
  heap st1 = heap st2 /\ next_blk st1 = next_blk st2 /\ iters st1 = iters st2 /\
  (forall t, PM.find t (tensors st1) = PM.find t (tensors st2)).

Definition noD : positive -> Z -> bool := fun _ _ => false.

Lemma nth_error_ext {A} : forall (l1 l2 : list A),
  List.length l1 = List.length l2 ->
  (forall i a b, nth_error l1 i = Some a -> nth_error l2 i = Some b -> a = b) -> l1 = l2.
Proof.
  induction l1 as [|a r IH]; destruct l2 as [|b r2]; simpl; intros L H; try discriminate; auto.
  f_equal.
  - exact (H O a b eq_refl eq_refl).
  - apply IH; [lia|]. intros i x y H1 H2. exact (H (S i) x y H1 H2).
Qed.

Lemma dims_sim_noD t l1 l2 : dims_sim noD t l1 l2 -> l1 = l2.
Proof.
  intros [L N]. apply nth_error_ext; auto. intros i a b H1 H2.
  destruct (N (Z.of_nat i) a b) as [E|[Q _]]; auto; try discriminate.
  - unfold nthZ_opt. destruct (Z.of_nat i <? 0) eqn:Q; [apply Z.ltb_lt in Q; lia|]. now rewrite Nat2Z.id.
  - unfold nthZ_opt. destruct (Z.of_nat i <? 0) eqn:Q; [apply Z.ltb_lt in Q; lia|]. now rewrite Nat2Z.id.
Qed.

Lemma dims_sim_refl D t l : dims_sim D t l l.
Proof. split; auto. intros k a b H1 H2. left. congruence. Qed.

Lemma same_except_sim x st1 st2 :
  same_except x st1 st2 <-> sim [x] [] noD [] st1 st2.
Proof.
  split.
  - intros (E1 & E2 & H & N & I & T). constructor; auto.
    + intros y. destruct (String.eqb y x) eqn:Q.
      * apply String.eqb_eq in Q. subst y. split; auto.
        unfold mem. simpl. rewrite String.eqb_refl. discriminate.
      * apply String.eqb_neq in Q. rewrite (E1 y Q). auto.
    + intros t. rewrite (T t). destruct (PM.find t (tensors st2)); auto.
      repeat split; auto. apply dims_sim_refl.
    + intros ND. discriminate.
  - intros [H1 H2 H3 H4 H5 H6]. repeat split; auto.
    + intros y N. apply (proj1 (H1 y)). unfold mem. simpl.
      apply String.eqb_neq in N. now rewrite N.
    + apply (proj2 (H1 x)).
    + intros t. specialize (H5 t).
      destruct (PM.find t (tensors st1)) as [a|], (PM.find t (tensors st2)) as [b|]; try tauto.
      destruct H5 as (A & B & C & DD). apply dims_sim_noD in DD.
      destruct a, b; simpl in *. congruence.
Qed.

Theorem unread_var_irrelevant x s : reads_var x s = false ->
  forall n st1 st2, same_except x st1 st2 ->
    osim (same_except x) (exec n s st1) (exec n s st2).
Proof.
  unfold reads_var. intros K n st1 st2 S. apply negb_false_iff in K.
  apply same_except_sim in S.
  eapply osim_impl; [intros a b H; apply same_except_sim; exact H|].
  apply (sok_sound [x] [] [] noD []).
  - intros y id k [].
  - intros y M. discriminate.
  - intros y id [].
  - reflexivity.
  - exact K.
  - exact S.
Qed.

(** in particular: the same number of loop iterations *)
Corollary unread_var_same_iters x s : reads_var x s = false ->
  forall n st1 st2, same_except x st1 st2 ->
    match exec n s st1, exec n s st2 with
    | Normal a _, Normal b _ => iters a = iters b /\ heap a = heap b
    | Returned a v _, Returned b w _ => iters a = iters b /\ heap a = heap b /\ v = w
    | Fail e1, Fail e2 => e1 = e2
    | OutOfFuel, OutOfFuel => True
    | _, _ => False
    end.
Proof.
  intros K n st1 st2 S. pose proof (unread_var_irrelevant x s K n st1 st2 S) as H.
  destruct (exec n s st1), (exec n s st2); simpl in H; try tauto.
  - destruct H as [(_ & _ & ? & _ & ? & _) _]. auto.
  - destruct H as [(_ & _ & ? & _ & ? & _) [? _]]. auto.
Qed.

(** * An unread dimension is irrelevant *)

(** tensor [t] may differ in dimension entry [k]: it is the [i]-th argument for a listed [(i, k)] *)
Definition Dsem (ids : list positive) (DSi : list (nat * Z)) (t : positive) (k : Z) : bool :=
  existsb (fun p => Z.eqb k (snd p) &&
                    match nth_error ids (fst p) with Some t' => Pos.eqb t t' | None => false end) DSi.

(** the two states have the same heap, counters and tensor structs, except for the listed
    dimension entries (which fit in int32 on both sides) *)
Definition dims_differ (ids : list positive) (DSi : list (nat * Z)) (st1 st2 : state) : Prop :=
  heap st1 = heap st2 /\ next_blk st1 = next_blk st2 /\ iters st1 = iters st2 /\
  tensors_sim (Dsem ids DSi) (tensors st1) (tensors st2).

Lemma coerce_tensor t i w : coerce t (VTensor i) = Ok w -> w = VTensor i.
Proof. destruct t as [| | | | |t'| |]; simpl; try discriminate. destruct t'; try discriminate. intros H; now inv H. Qed.

Lemma param_names_wf ps : List.length (param_names ps) = List.length ps ->
  Forall (fun p => exists x t, p = Declaration (Var x) t) ps.
Proof.
  induction ps as [|p r IH]; intros L; constructor.
  - unfold param_names in L. simpl in L. rewrite app_length in L. fold (param_names r) in L.
    assert (LR : (List.length (param_names r) <= List.length r)%nat).
    { clear. induction r as [|q r IH]; simpl; auto. unfold param_names in *. simpl.
      rewrite app_length. destruct q; simpl; try lia. destruct name; simpl; lia. }
    destruct p; simpl in L; try lia. destruct name; simpl in L; try lia. eauto.
  - apply IH. unfold param_names in L. simpl in L. rewrite app_length in L. fold (param_names r) in L.
    assert (LR : (List.length (param_names r) <= List.length r)%nat).
    { clear. induction r as [|q r IH]; simpl; auto. unfold param_names in *. simpl.
      rewrite app_length. destruct q; simpl; try lia. destruct name; simpl; lia. }
    destruct p; simpl in L; try lia. destruct name; simpl in L; lia.
Qed.

Lemma bind_params_bound ps : forall ids e0 e,
  NoDup (param_names ps) ->
  bind_params ps (map VTensor ids) e0 = Ok e ->
  List.length ids = List.length (param_names ps) /\
  forall j y id, nth_error (param_names ps) j = Some y -> nth_error ids j = Some id ->
    exists t, lookup y e = Some (t, Some (VTensor id)).
Proof.
  induction ps as [|p r IH]; intros ids e0 e ND B.
  - destruct ids; simpl in B; try discriminate. split; auto. intros [|j]; discriminate.
  - simpl in B. destruct p as [nm t| | | | | | |]; try discriminate.
    destruct nm as [x| | | | | | | | | | | | | | | | | | | | |]; try discriminate.
    destruct ids as [|i0 ids]; simpl in B; try discriminate.
    unfold bind in B. destruct (coerce t (VTensor i0)) as [w|] eqn:CO; try discriminate.
    apply coerce_tensor in CO. subst w.
    change (param_names (Declaration (Var x) t :: r)) with (x :: param_names r) in *.
    inv ND. destruct (IH _ _ _ H2 B) as [L HB]. split; [simpl; lia|].
    intros [|j] y id H3 H4; simpl in H3, H4.
    + inv H3. inv H4. exists t. rewrite (bind_params_other _ _ _ _ y B H1).
      rewrite lookup_set_var, String.eqb_refl. reflexivity.
    + eauto.
Qed.

Lemma In_combine_nth {A B} : forall (l1 : list A) (l2 : list B) a b,
  In (a, b) (combine l1 l2) -> exists j, nth_error l1 j = Some a /\ nth_error l2 j = Some b.
Proof.
  induction l1 as [|x r IH]; destruct l2 as [|y r2]; simpl; intros a b H; try tauto.
  destruct H as [H|H].
  - inv H. exists O. auto.
  - destruct (IH _ _ _ H) as [j [H1 H2]]. exists (S j). auto.
Qed.

Lemma nth_combine_In {A B} : forall (l1 : list A) (l2 : list B) j a b,
  nth_error l1 j = Some a -> nth_error l2 j = Some b -> In (a, b) (combine l1 l2).
Proof.
  induction l1 as [|x r IH]; destruct l2 as [|y r2]; intros [|j] a b H1 H2; simpl in *; try discriminate.
  - inv H1. inv H2. auto.
  - right. eauto.
Qed.

Theorem dim_unread_sound f DSi : dim_unread_cert f DSi = true ->
  forall fuel ids st1 st2, NoDup ids -> dims_differ ids DSi st1 st2 ->
    osim (dims_differ ids DSi) (call fuel f (map VTensor ids) st1) (call fuel f (map VTensor ids) st2).
Proof.
  destruct f as [name ps rt body]. unfold dim_unread_cert.
  set (PS := param_names ps). set (DS := map (fun p => (nth (fst p) PS ""%string, snd p)) DSi).
  set (X := dim_vars DS body).
  intros C fuel ids st1 st2 NDi (HH & HN & HI & HT).
  apply andb_prop in C. destruct C as [C CS]. apply andb_prop in C. destruct C as [C CN].
  apply andb_prop in C. destruct C as [C CB]. apply andb_prop in C. destruct C as [CL CD].
  apply Nat.eqb_eq in CL. apply nodupb_NoDup in CD. apply negb_true_iff in CN.
  unfold call. destruct (bind_params ps (map VTensor ids) []) as [e|x] eqn:B; [|reflexivity].
  destruct (bind_params_bound ps ids [] e CD B) as [LI PB]. fold PS in LI, PB.
  set (bs := combine PS ids).
  assert (SIM0 : sim X DS (Dsem ids DSi) bs (with_env st1 e) (with_env st2 e)).
  { constructor; simpl; auto.
    - intros y. auto.
    - intros _ y id IN. apply In_combine_nth in IN. destruct IN as [j [H1 H2]]. eauto. }
  assert (LINK : forall y id k, In (y, id) bs -> memp y k DS = false -> Dsem ids DSi id k = false).
  { intros y id k IN M. destruct (Dsem ids DSi id k) eqn:Q; auto. exfalso.
    unfold Dsem in Q. apply existsb_exists in Q. destruct Q as [[i k'] [IN2 Q]]. simpl in Q.
    apply andb_prop in Q. destruct Q as [Qk Qt]. apply Z.eqb_eq in Qk. subst k'.
    destruct (nth_error ids i) as [t'|] eqn:NI; try discriminate. apply Pos.eqb_eq in Qt. subst t'.
    apply In_combine_nth in IN. destruct IN as [j [H1 H2]].
    assert (i = j).
    { eapply (proj1 (NoDup_nth_error ids) NDi); [|congruence].
      apply nth_error_Some. congruence. }
    subst j.
    assert (MP : memp y k DS = true).
    { unfold memp. apply existsb_exists. exists (y, k). split.
      - unfold DS. apply in_map_iff. exists (i, k). split; auto. simpl.
        now rewrite (nth_error_nth PS i ""%string H1).
      - simpl. now rewrite String.eqb_refl, Z.eqb_refl. }
    congruence. }
  assert (NAMES : forall y, mem y PS = true -> exists id, In (y, id) bs).
  { intros y M. apply mem_In in M. apply In_nth_error in M. destruct M as [j Hj].
    assert (j < List.length ids)%nat by (rewrite LI; apply nth_error_Some; congruence).
    destruct (nth_error ids j) as [id|] eqn:NI; [|apply nth_error_None in NI; lia].
    exists id. eapply nth_combine_In; eauto. }
  assert (INPS : forall y id, In (y, id) bs -> In y PS).
  { intros y id IN. eapply in_combine_l; eauto. }
  assert (NOD : nodims DS = true -> forall t k, Dsem ids DSi t k = false) by congruence.
  pose proof (sok_sound X DS PS (Dsem ids DSi) bs LINK NAMES INPS NOD fuel body _ _ CS SIM0) as G.
  assert (PROJ : forall a b, sim X DS (Dsem ids DSi) bs a b -> dims_differ ids DSi a b).
  { intros a b [H1 H2 H3 H4 H5 H6]. repeat split; auto. }
  destruct (exec fuel body (with_env st1 e)) as [a t1|a v t1|x|],
           (exec fuel body (with_env st2 e)) as [b t2|b w t2|y|]; simpl in G; try tauto.
  - reflexivity.
  - destruct G as (S' & -> & ->). destruct (coerce rt w); simpl; auto.
Qed.

(** the single-entry form: tensor parameter [ti], dimension position [d] *)
Definition dim_unread_cert1 (f : function_definition) (ti : nat) (d : Z) : bool :=
  dim_unread_cert f [(ti, d)].
