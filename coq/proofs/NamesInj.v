(** Injectivity of the generated variable names (iteration_graph/_names.py). *)
From Coq Require Import String Ascii List Arith Bool Lia DecimalNat DecimalString Decimal DecimalFacts.
From TV Require Import model.Names.
Import ListNotations.
Open Scope string_scope.
Open Scope bool_scope.

Definition us : ascii := "_"%char.

Fixpoint no_us (s : string) : bool :=
  match s with
  | EmptyString => true
  | String c r => negb (Ascii.eqb c us) && no_us r
  end.

Definition nonempty (s : string) : bool := match s with EmptyString => false | _ => true end.

(** "_".join(fields) *)
Fixpoint join (fs : list string) : string :=
  match fs with
  | [] => ""
  | [f] => f
  | f :: r => f ++ String us (join r)
  end.

Lemma app_assoc_s : forall a b c : string, (a ++ b) ++ c = a ++ (b ++ c).
Proof. induction a; simpl; intros; [reflexivity | now rewrite IHa]. Qed.

Lemma split_us : forall a b r r',
  no_us a = true -> no_us b = true ->
  a ++ String us r = b ++ String us r' -> a = b /\ r = r'.
Proof.
  induction a as [|c a IH]; destruct b as [|d b]; simpl; intros r r' Ha Hb H.
  - inversion H; auto.
  - inversion H; subst. rewrite Ascii.eqb_refl in Hb. discriminate.
  - inversion H; subst. rewrite Ascii.eqb_refl in Ha. discriminate.
  - inversion H; subst.
    apply andb_true_iff in Ha as [_ Ha]. apply andb_true_iff in Hb as [_ Hb].
    destruct (IH _ _ _ Ha Hb H2); subst; auto.
Qed.

Lemma no_us_app_us : forall a r, no_us (a ++ String us r) = false.
Proof.
  induction a; simpl; intros.
  - reflexivity.
  - rewrite IHa. apply andb_false_r.
Qed.

Lemma join_nonempty : forall f r, nonempty f = true -> join (f :: r) <> "".
Proof. intros f r H. destruct f; [discriminate|]. destruct r; simpl; discriminate. Qed.

Lemma join_inj : forall fs gs,
  Forall (fun f => no_us f = true /\ nonempty f = true) fs ->
  Forall (fun f => no_us f = true /\ nonempty f = true) gs ->
  join fs = join gs -> fs = gs.
Proof.
  induction fs as [|f fs IH]; destruct gs as [|g gs]; intros Hf Hg H.
  - reflexivity.
  - inversion Hg; subst. exfalso. symmetry in H. apply (join_nonempty g gs); tauto.
  - inversion Hf; subst. exfalso. apply (join_nonempty f fs); tauto.
  - inversion Hf as [|? ? [Hf1 Hf2] Hf']; inversion Hg as [|? ? [Hg1 Hg2] Hg']; subst.
    destruct fs as [|f2 fs]; destruct gs as [|g2 gs].
    + simpl in H. now subst.
    + exfalso. change (f = g ++ String us (join (g2 :: gs))) in H.
      rewrite H in Hf1. rewrite no_us_app_us in Hf1. discriminate.
    + exfalso. change (f ++ String us (join (f2 :: fs)) = g) in H.
      rewrite <- H in Hg1. rewrite no_us_app_us in Hg1. discriminate.
    + change (f ++ String us (join (f2 :: fs)) = g ++ String us (join (g2 :: gs))) in H.
      destruct (split_us _ _ _ _ Hf1 Hg1 H) as [-> H'].
      f_equal. apply IH; assumption.
Qed.

(** ** character classes of the first character *)
Inductive cls := CEmpty | CDigit | CLetter | COther.
Definition cls_of (s : string) : cls :=
  match s with
  | EmptyString => CEmpty
  | String c _ => if is_digit c then CDigit else if is_letter c then CLetter else COther
  end.

Lemma string_of_uint_no_us : forall d, no_us (NilEmpty.string_of_uint d) = true.
Proof. induction d; simpl; auto. Qed.

Lemma string_of_uint_cls : forall d, d <> Nil -> cls_of (NilEmpty.string_of_uint d) = CDigit.
Proof. destruct d; simpl; intros; congruence || reflexivity. Qed.

Lemma to_uint_nonnil : forall n, Nat.to_uint n <> Nil.
Proof.
  intros n H. pose proof (Unsigned.to_of (Nat.to_uint n)) as E.
  rewrite Unsigned.of_to in E. rewrite H in E at 1.
  symmetry in E. revert E. rewrite H. simpl. discriminate.
Qed.

Lemma nat_str_no_us : forall n, no_us (nat_str n) = true.
Proof. intros; apply string_of_uint_no_us. Qed.

Lemma nat_str_cls : forall n, cls_of (nat_str n) = CDigit.
Proof. intros; apply string_of_uint_cls, to_uint_nonnil. Qed.

Lemma nat_str_nonempty : forall n, nonempty (nat_str n) = true.
Proof. intros n. pose proof (nat_str_cls n). destruct (nat_str n); [discriminate | reflexivity]. Qed.

Lemma string_of_uint_inj : forall d d', NilEmpty.string_of_uint d = NilEmpty.string_of_uint d' -> d = d'.
Proof.
  intros d d' H. pose proof (NilEmpty.usu d) as A. pose proof (NilEmpty.usu d') as B.
  rewrite H in A. congruence.
Qed.

Lemma nat_str_inj : forall n m, nat_str n = nat_str m -> n = m.
Proof. intros n m H. apply Unsigned.to_uint_inj, string_of_uint_inj, H. Qed.

Lemma digit_not_letter : forall c, is_digit c = true -> is_letter c = false.
Proof.
  intros c. unfold is_digit, is_letter. intros H.
  apply andb_true_iff in H as [H1 H2]. apply Nat.leb_le in H1, H2.
  destruct (65 <=? nat_of_ascii c)%nat eqn:E1; destruct (97 <=? nat_of_ascii c)%nat eqn:E2; simpl;
    try reflexivity; try (apply Nat.leb_le in E1; lia); try (apply Nat.leb_le in E2; lia).
Qed.

Lemma all_chars_no_us : forall s, all_chars (fun c => is_letter c || is_digit c) s = true -> no_us s = true.
Proof.
  induction s as [|c s IH]; simpl; intros H; [reflexivity|].
  apply andb_true_iff in H as [H1 H2]. rewrite (IH H2), andb_true_r.
  destruct (Ascii.eqb c us) eqn:E; [|reflexivity].
  apply Ascii.eqb_eq in E. subst c. vm_compute in H1. discriminate.
Qed.

Lemma ident_no_us : forall s, identb s = true -> no_us s = true.
Proof.
  destruct s as [|c s]; simpl; intros H; [discriminate|].
  apply andb_true_iff in H as [H1 H2]. rewrite (all_chars_no_us _ H2), andb_true_r.
  destruct (Ascii.eqb c us) eqn:E; [|reflexivity].
  apply Ascii.eqb_eq in E. subst c. vm_compute in H1. discriminate.
Qed.

Lemma ident_nonempty : forall s, identb s = true -> nonempty s = true.
Proof. destruct s; simpl; intros; [discriminate | reflexivity]. Qed.

Lemma ident_cls : forall s, identb s = true -> cls_of s = CLetter.
Proof.
  destruct s as [|c s]; simpl; intros H; [discriminate|].
  apply andb_true_iff in H as [H1 _]. rewrite H1.
  destruct (is_digit c) eqn:E; [|reflexivity].
  apply digit_not_letter in E. congruence.
Qed.

Lemma ident_not_nat_str : forall s n, identb s = true -> s <> nat_str n.
Proof. intros s n H E. apply ident_cls in H. rewrite E, nat_str_cls in H. discriminate. Qed.

(** ** fields of each generated name *)
Definition fields (g : gname) : list string :=
  match g with
  | NDim i => [i; "dim"]
  | NPos t l => [t; nat_str l; "pos"]
  | NCrd t l => [t; nat_str l; "crd"]
  | NVals t => [t; "vals"]
  | NPosCap t l => [t; nat_str l; "pos"; "capacity"]
  | NCrdCap t l => [t; nat_str l; "crd"; "capacity"]
  | NValsCap t => [t; "vals"; "capacity"]
  | NLayerPtr id t l => ["p"; nat_str id; t; nat_str l]
  | NSparseEnd id t l => ["p"; nat_str id; t; nat_str l; "end"]
  | NValueFromCrd id t l => ["i"; nat_str id; t; nat_str l]
  | NWritten t l => ["written"; t; nat_str l]
  end.

Lemma render_fields : forall g, render g = join (fields g).
Proof.
  destruct g; unfold render, fields, join, dimension_name, pos_name, crd_name, vals_name, pos_capacity_name,
    crd_capacity_name, vals_capacity_name, layer_pointer, sparse_end_name, value_from_crd, written_name,
    reference, us; cbn [append]; repeat rewrite app_assoc_s; cbn [append]; reflexivity.
Qed.

Definition okf (f : string) : Prop := no_us f = true /\ nonempty f = true.

Lemma okf_nat : forall n, okf (nat_str n).
Proof. split; [apply nat_str_no_us | apply nat_str_nonempty]. Qed.
Lemma okf_ident : forall s, identb s = true -> okf s.
Proof. split; [now apply ident_no_us | now apply ident_nonempty]. Qed.

Lemma fields_ok : forall g, identb (gname_ident g) = true -> Forall okf (fields g).
Proof.
  destruct g; simpl; intros H; repeat constructor;
    try (apply okf_nat); try (apply okf_ident; assumption); try (vm_compute; auto).
Qed.

Ltac kill :=
  match goal with
  | H : nat_str _ = nat_str _ |- _ => apply nat_str_inj in H; subst
  | H : nat_str ?n = ?s |- _ =>
      exfalso; let E := fresh in
      assert (E : cls_of (nat_str n) = cls_of s) by (rewrite H; reflexivity);
      rewrite nat_str_cls in E; (discriminate E ||
        (match goal with I : identb s = true |- _ => rewrite (ident_cls _ I) in E; discriminate E end))
  | H : ?s = nat_str ?n |- _ => symmetry in H
  end.

Theorem names_injective : forall g1 g2,
  identb (gname_ident g1) = true -> identb (gname_ident g2) = true ->
  render g1 = render g2 -> g1 = g2.
Proof.
  intros g1 g2 H1 H2 H. rewrite !render_fields in H.
  apply join_inj in H; [| apply fields_ok; assumption | apply fields_ok; assumption].
  destruct g1, g2; simpl in H, H1, H2; try discriminate H;
    injection H as ?; subst; try reflexivity; try congruence; repeat kill; try reflexivity; try congruence.
Qed.

Theorem names_contain_underscore : forall g, no_us (render g) = false.
Proof.
  intros g. rewrite render_fields.
  destruct g; cbn [fields join]; apply no_us_app_us.
Qed.

Theorem names_not_identifiers : forall g x, identb x = true -> render g <> x.
Proof.
  intros g x Hx E. apply ident_no_us in Hx. rewrite <- E, names_contain_underscore in Hx. discriminate.
Qed.
