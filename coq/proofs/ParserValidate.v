(** C12 -- proofs about [validate] (model of tensora's Assignment.__post_init__).

    Main results
      - [validate_spec]         : [validate a = VOk] iff the three declarative clauses hold
      - [validate_mutating]     : VMutating      implies the target occurs on the right hand side
      - [validate_inconsistent] : VInconsistent  implies some tensor is used with two orders
      - [validate_conflict]     : VNameConflict  implies the first two clauses hold and the third fails
      - [validate_first_offender] : which of Mutating / Inconsistent is reported is decided by the
                                  first offending name in dictionary (first appearance) order *)

From Coq Require Import String Ascii List NArith ZArith Bool Arith Lia ZifyBool.
From TV Require Import model.Parser.
Import ListNotations.

(* ------------------------------------------------------------------------------------------ *)
(** * Declarative clauses *)

Definition target_not_on_rhs (a : assignment) : Prop :=
  ~ In (tname a) (map fst (tensors (rhs a))).

Definition one_order_per_tensor (a : assignment) : Prop :=
  forall x i1 i2,
    In (x, i1) (tensors (rhs a)) -> In (x, i2) (tensors (rhs a)) -> length i1 = length i2.

Definition no_tensor_index_clash (a : assignment) : Prop :=
  forall x,
    In x (tname a :: map fst (tensors (rhs a))) ->
    In x (tindexes a ++ flat_map snd (tensors (rhs a))) -> False.

(* ------------------------------------------------------------------------------------------ *)
(** * mem_str *)

Lemma mem_str_In : forall x l, mem_str x l = true <-> In x l.
Proof.
  intros x l. unfold mem_str. rewrite existsb_exists. split.
  - intros [y [Hy E]]. apply String.eqb_eq in E. subst y. exact Hy.
  - intros H. exists x. split; [exact H | apply String.eqb_refl].
Qed.

Lemma mem_str_false : forall x l, mem_str x l = false <-> ~ In x l.
Proof.
  intros x l. rewrite <- mem_str_In. destruct (mem_str x l); intuition congruence.
Qed.

(* ------------------------------------------------------------------------------------------ *)
(** * first_names *)

Lemma first_names_In : forall occ seen x,
  In x (first_names seen occ) <-> In x (map fst occ) /\ ~ In x seen.
Proof.
  induction occ as [|[y i] t IH]; intros seen x; simpl.
  - tauto.
  - destruct (mem_str y seen) eqn:E.
    + apply mem_str_In in E. rewrite IH. split.
      * intros [H1 H2]. tauto.
      * intros [[H1|H1] H2]; [subst y; contradiction | tauto].
    + apply mem_str_false in E. simpl. rewrite IH. simpl. split.
      * intros [H|[H1 H2]]; [subst y; tauto | tauto].
      * intros [[H|H] H2]; [tauto|].
        destruct (string_dec y x) as [e|n]; [tauto|]. right. tauto.
Qed.

Lemma first_names_nil_In : forall occ x,
  In x (first_names [] occ) <-> In x (map fst occ).
Proof.
  intros occ x. rewrite first_names_In. simpl. tauto.
Qed.

(** the keys are pairwise distinct (it is a dictionary) *)
Lemma first_names_NoDup : forall occ seen, NoDup (first_names seen occ).
Proof.
  induction occ as [|[y i] t IH]; intros seen; simpl.
  - constructor.
  - destruct (mem_str y seen); [apply IH|].
    constructor; [|apply IH].
    rewrite first_names_In. simpl. tauto.
Qed.

(* ------------------------------------------------------------------------------------------ *)
(** * orders_of / all_same_order *)

Lemma orders_of_In : forall x occ n,
  In n (orders_of x occ) <-> exists i, In (x, i) occ /\ length i = n.
Proof.
  intros x occ n. unfold orders_of. rewrite in_map_iff. split.
  - intros [[y i] [Hn Hf]]. apply filter_In in Hf. destruct Hf as [Hin He].
    simpl in *. apply String.eqb_eq in He. subst y. exists i. split; assumption.
  - intros [i [Hin Hn]]. exists (x, i). split; [exact Hn|].
    apply filter_In. split; [exact Hin|]. simpl. apply String.eqb_refl.
Qed.

Lemma all_same_order_true : forall os,
  all_same_order os = true <-> (forall n m, In n os -> In m os -> n = m).
Proof.
  intros [|o rest]; simpl.
  - split; [intros _ n m []|reflexivity].
  - rewrite forallb_forall. split.
    + intros H n m Hn Hm.
      assert (K : forall k, o = k \/ In k rest -> o = k).
      { intros k [e|Hk]; [exact e|]. apply Nat.eqb_eq. apply H. exact Hk. }
      rewrite <- (K n Hn). apply K. exact Hm.
    + intros H k Hk. apply Nat.eqb_eq. apply H; [left; reflexivity | right; exact Hk].
Qed.

Lemma all_same_order_orders_of : forall x occ,
  all_same_order (orders_of x occ) = true <->
  (forall i1 i2, In (x, i1) occ -> In (x, i2) occ -> length i1 = length i2).
Proof.
  intros x occ. rewrite all_same_order_true. split.
  - intros H i1 i2 H1 H2. apply H; apply orders_of_In.
    + exists i1. split; [exact H1 | reflexivity].
    + exists i2. split; [exact H2 | reflexivity].
  - intros H n m Hn Hm. apply orders_of_In in Hn. apply orders_of_In in Hm.
    destruct Hn as [i1 [H1 E1]]. destruct Hm as [i2 [H2 E2]]. subst n m.
    apply H; assumption.
Qed.

(* ------------------------------------------------------------------------------------------ *)
(** * check_vars *)

Lemma check_vars_ok : forall target names occ,
  check_vars target names occ = VOk <->
  (forall x, In x names -> x <> target /\ all_same_order (orders_of x occ) = true).
Proof.
  intros target names occ. induction names as [|x rest IH]; simpl.
  - split; [intros _ x []|reflexivity].
  - destruct (String.eqb x target) eqn:E.
    + apply String.eqb_eq in E. split; [discriminate|].
      intros H. destruct (H x (or_introl eq_refl)) as [Hne _]. contradiction.
    + apply String.eqb_neq in E.
      destruct (all_same_order (orders_of x occ)) eqn:A.
      * rewrite IH. split.
        -- intros H y [e|Hy]; [subst y; split; assumption | apply H; exact Hy].
        -- intros H y Hy. apply H. right. exact Hy.
      * split; [discriminate|].
        intros H. destruct (H x (or_introl eq_refl)) as [_ Ht]. congruence.
Qed.

Lemma check_vars_mutating : forall target names occ,
  check_vars target names occ = VMutating -> In target names.
Proof.
  intros target names occ. induction names as [|x rest IH]; simpl; [discriminate|].
  destruct (String.eqb x target) eqn:E.
  - apply String.eqb_eq in E. intros _. left. exact E.
  - destruct (all_same_order (orders_of x occ)); [|discriminate].
    intros H. right. apply IH. exact H.
Qed.

Lemma check_vars_inconsistent : forall target names occ,
  check_vars target names occ = VInconsistent ->
  exists x, In x names /\ all_same_order (orders_of x occ) = false.
Proof.
  intros target names occ. induction names as [|x rest IH]; simpl; [discriminate|].
  destruct (String.eqb x target); [discriminate|].
  destruct (all_same_order (orders_of x occ)) eqn:A.
  - intros H. destruct (IH H) as [y [Hy Ay]]. exists y. split; [right; exact Hy | exact Ay].
  - intros _. exists x. split; [left; reflexivity | exact A].
Qed.

Lemma check_vars_not_conflict : forall target names occ,
  check_vars target names occ <> VNameConflict.
Proof.
  intros target names occ. induction names as [|x rest IH]; simpl; [discriminate|].
  destruct (String.eqb x target); [discriminate|].
  destruct (all_same_order (orders_of x occ)); [exact IH | discriminate].
Qed.

(** Dictionary order: the result of the loop is decided by the first offending name.
    [names = good ++ x :: rest], every name of [good] passes both tests, [x] is the first that
    fails one; the target test is made before the order test. *)
Lemma check_vars_first_offender : forall target good x rest occ,
  (forall y, In y good -> y <> target /\ all_same_order (orders_of y occ) = true) ->
  (x = target -> check_vars target (good ++ x :: rest) occ = VMutating) /\
  (x <> target -> all_same_order (orders_of x occ) = false ->
     check_vars target (good ++ x :: rest) occ = VInconsistent).
Proof.
  intros target good x rest occ. induction good as [|g good IH]; intros Hg; simpl.
  - split.
    + intros e. subst x. rewrite String.eqb_refl. reflexivity.
    + intros Hne A. apply String.eqb_neq in Hne. rewrite Hne, A. reflexivity.
  - destruct (Hg g (or_introl eq_refl)) as [Hne A].
    apply String.eqb_neq in Hne. rewrite Hne, A.
    apply IH. intros y Hy. apply Hg. right. exact Hy.
Qed.

(* ------------------------------------------------------------------------------------------ *)
(** * validate *)

Lemma check_vars_ok_clauses : forall a,
  check_vars (tname a) (first_names [] (tensors (rhs a))) (tensors (rhs a)) = VOk <->
  (target_not_on_rhs a /\ one_order_per_tensor a).
Proof.
  intros a. rewrite check_vars_ok.
  unfold target_not_on_rhs, one_order_per_tensor. split.
  - intros H. split.
    + intros Hin. apply first_names_nil_In in Hin. destruct (H _ Hin) as [Hne _].
      apply Hne. reflexivity.
    + intros x i1 i2 H1 H2.
      assert (Hx : In x (first_names [] (tensors (rhs a)))).
      { apply first_names_nil_In. apply in_map_iff. exists (x, i1). split; [reflexivity|exact H1]. }
      destruct (H x Hx) as [_ A]. rewrite all_same_order_orders_of in A. apply A; assumption.
  - intros [Ht Ho] x Hx. apply first_names_nil_In in Hx. split.
    + intros e. subst x. contradiction.
    + apply all_same_order_orders_of. intros i1 i2. apply Ho.
Qed.

Lemma clash_test : forall a,
  existsb (fun i => mem_str i (tname a :: first_names [] (tensors (rhs a))))
          (tindexes a ++ flat_map snd (tensors (rhs a))) = false <->
  no_tensor_index_clash a.
Proof.
  intros a. unfold no_tensor_index_clash.
  set (idx := (tindexes a ++ flat_map snd (tensors (rhs a)))%list).
  split.
  - intros H x Hx Hi.
    assert (T : existsb (fun i => mem_str i (tname a :: first_names [] (tensors (rhs a)))) idx = true).
    { apply existsb_exists. exists x. split; [exact Hi|].
      apply mem_str_In. destruct Hx as [e|Hx]; [left; exact e|].
      right. apply first_names_nil_In. exact Hx. }
    congruence.
  - intros H.
    destruct (existsb (fun i => mem_str i (tname a :: first_names [] (tensors (rhs a)))) idx) eqn:E;
      [|reflexivity].
    exfalso. apply existsb_exists in E. destruct E as [x [Hi Hm]].
    apply mem_str_In in Hm. apply (H x); [|exact Hi].
    destruct Hm as [e|Hm]; [left; exact e|]. right. apply first_names_nil_In. exact Hm.
Qed.

Theorem validate_spec : forall a,
  validate a = VOk <->
  (target_not_on_rhs a /\ one_order_per_tensor a /\ no_tensor_index_clash a).
Proof.
  intros a. rewrite <- clash_test.
  rewrite <- and_assoc. rewrite <- check_vars_ok_clauses.
  unfold validate. cbv zeta.
  destruct (check_vars (tname a) (first_names [] (tensors (rhs a))) (tensors (rhs a))) eqn:C.
  - destruct (existsb _ _); split; try tauto; try discriminate.
    intros [_ H]. discriminate.
  - split; [discriminate | intros [H _]; discriminate].
  - split; [discriminate | intros [H _]; discriminate].
  - split; [discriminate | intros [H _]; discriminate].
Qed.

Theorem validate_mutating : forall a, validate a = VMutating -> ~ target_not_on_rhs a.
Proof.
  intros a. unfold validate. cbv zeta.
  destruct (check_vars (tname a) (first_names [] (tensors (rhs a))) (tensors (rhs a))) eqn:C;
    try discriminate.
  - destruct (existsb _ _); discriminate.
  - intros _ H. apply H. apply first_names_nil_In.
    apply (check_vars_mutating _ _ _ C).
Qed.

Theorem validate_inconsistent : forall a, validate a = VInconsistent -> ~ one_order_per_tensor a.
Proof.
  intros a. unfold validate. cbv zeta.
  destruct (check_vars (tname a) (first_names [] (tensors (rhs a))) (tensors (rhs a))) eqn:C;
    try discriminate.
  - destruct (existsb _ _); discriminate.
  - intros _ H. destruct (check_vars_inconsistent _ _ _ C) as [x [_ A]].
    assert (T : all_same_order (orders_of x (tensors (rhs a))) = true).
    { apply all_same_order_orders_of. intros i1 i2. apply H. }
    congruence.
Qed.

Theorem validate_conflict : forall a, validate a = VNameConflict ->
  target_not_on_rhs a /\ one_order_per_tensor a /\ ~ no_tensor_index_clash a.
Proof.
  intros a. unfold validate. cbv zeta.
  destruct (check_vars (tname a) (first_names [] (tensors (rhs a))) (tensors (rhs a))) eqn:C;
    try discriminate.
  - apply check_vars_ok_clauses in C. destruct C as [Ht Ho].
    destruct (existsb _ _) eqn:E; [|discriminate].
    intros _. split; [exact Ht|]. split; [exact Ho|].
    intros H. apply clash_test in H. congruence.
  - exfalso. exact (check_vars_not_conflict _ _ _ C).
Qed.

(** The exact converse of the three refinements, so that the four results partition the
    assignments: a VOk-failing assignment is rejected, and the class is determined as follows. *)
Theorem validate_conflict_iff : forall a,
  validate a = VNameConflict <->
  (target_not_on_rhs a /\ one_order_per_tensor a /\ ~ no_tensor_index_clash a).
Proof.
  intros a. split; [apply validate_conflict|].
  intros [Ht [Ho Hc]].
  assert (C : check_vars (tname a) (first_names [] (tensors (rhs a))) (tensors (rhs a)) = VOk).
  { apply check_vars_ok_clauses. split; assumption. }
  unfold validate. cbv zeta. rewrite C.
  destruct (existsb _ _) eqn:E; [reflexivity|].
  apply clash_test in E. contradiction.
Qed.

(** Which of the two loop errors is reported: the first offending key of the dictionary decides. *)
Theorem validate_first_offender : forall a good x rest,
  first_names [] (tensors (rhs a)) = good ++ x :: rest ->
  (forall y, In y good ->
     y <> tname a /\ all_same_order (orders_of y (tensors (rhs a))) = true) ->
  (x = tname a -> validate a = VMutating) /\
  (x <> tname a -> all_same_order (orders_of x (tensors (rhs a))) = false ->
     validate a = VInconsistent).
Proof.
  intros a good x rest Hn Hg.
  destruct (check_vars_first_offender (tname a) good x rest (tensors (rhs a)) Hg) as [M I].
  unfold validate. cbv zeta. rewrite Hn. split.
  - intros e. rewrite (M e). reflexivity.
  - intros Hne A. rewrite (I Hne A). reflexivity.
Qed.

(* ------------------------------------------------------------------------------------------ *)
(** * Concrete examples *)

Open Scope string_scope.

Example ex_mutating :
  validate (Assign "a" ["i"] (EAdd (ETensor "a" ["i"]) (EInt 1%N))) = VMutating.
Proof. vm_compute. reflexivity. Qed.

Example ex_inconsistent :
  validate (Assign "a" ["i"] (EMul (ETensor "b" ["i"; "j"]) (ETensor "b" ["j"]))) = VInconsistent.
Proof. vm_compute. reflexivity. Qed.

Example ex_conflict :
  validate (Assign "a" ["b"] (ETensor "b" ["i"])) = VNameConflict.
Proof. vm_compute. reflexivity. Qed.

(** the index of a right hand side tensor may also clash with the target's name *)
Example ex_conflict_target :
  validate (Assign "a" ["i"] (ETensor "b" ["a"])) = VNameConflict.
Proof. vm_compute. reflexivity. Qed.

(** dictionary order: "b" (two orders) comes before the target "a" -> Inconsistent;
    the other way round -> Mutating *)
Example ex_order_1 :
  validate (Assign "a" ["i"]
     (EAdd (EMul (ETensor "b" ["i"; "j"]) (ETensor "b" ["j"])) (ETensor "a" ["i"]))) = VInconsistent.
Proof. vm_compute. reflexivity. Qed.

Example ex_order_2 :
  validate (Assign "a" ["i"]
     (EAdd (ETensor "a" ["i"]) (EMul (ETensor "b" ["i"; "j"]) (ETensor "b" ["j"])))) = VMutating.
Proof. vm_compute. reflexivity. Qed.

Example ex_ok :
  validate (Assign "a" ["i"]
     (EAdd (EMul (ETensor "b" ["i"; "j"]) (ETensor "c" ["j"])) (EInt 1%N))) = VOk.
Proof. vm_compute. reflexivity. Qed.
