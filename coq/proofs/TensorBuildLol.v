(** from_lol: the entries extracted from a dense nested list of the right shape are exactly its
    non-zero cells, each once and in range; hence the round trip for from_lol.  Axiom-free. *)

From Coq Require Import ZArith List Bool Lia ZifyBool Permutation Arith.
From TV Require Import spec.Storage model.TensorBuild proofs.StorageLemmas proofs.TensorBuildLemmas
  proofs.TensorBuildWalk proofs.TensorBuildTop proofs.TensorBuildMore proofs.TensorBuildMain.
Import ListNotations.
Open Scope Z_scope.

(** x[c] *)
Fixpoint lol_get (c : list Z) (x : lol) {struct c} : option Z :=
  match c, x with
  | [], LNum v => Some v
  | i :: c', LList l =>
      if i <? 0 then None
      else match nth_error l (Z.to_nat i) with Some y => lol_get c' y | None => None end
  | _, _ => None
  end.

(** x is a dense nested list with the given dimensions *)
Fixpoint lol_shapeb (dims : list Z) (x : lol) {struct dims} : bool :=
  match dims, x with
  | [], LNum _ => true
  | d :: r, LList l => (zlen l =? d) && forallb (lol_shapeb r) l
  | _, _ => false
  end.

Fixpoint lol_list_entries (rp : list Z) (l : list lol) (i : Z) : list entry :=
  match l with
  | [] => []
  | y :: r => lol_entries y (i :: rp) ++ lol_list_entries rp r (i + 1)
  end.

Lemma lol_entries_list rp l : lol_entries (LList l) rp = lol_list_entries rp l 0.
Proof.
  cbn [lol_entries]. generalize 0 as i. induction l as [|y r IH]; intros i; [reflexivity|].
  cbn [lol_list_entries]. f_equal. apply IH.
Qed.

Lemma lol_list_entries_In rp l : forall i0 e,
  In e (lol_list_entries rp l i0) <->
  exists j y, nth_error l j = Some y /\ In e (lol_entries y ((i0 + Z.of_nat j) :: rp)).
Proof.
  induction l as [|y r IH]; intros i0 e; cbn [lol_list_entries].
  - split; [intros []|]. intros (j & y & H & _). destruct j; discriminate.
  - rewrite in_app_iff, IH. split.
    + intros [H|(j & y' & Hj & H)].
      * exists O, y. split; [reflexivity|]. now replace (i0 + Z.of_nat 0) with i0 by lia.
      * exists (S j), y'. split; [exact Hj|]. now replace (i0 + Z.of_nat (S j)) with (i0 + 1 + Z.of_nat j) by lia.
    + intros (j & y' & Hj & H). destruct j as [|j].
      * cbn in Hj. inversion Hj; subst. left. now replace (i0 + Z.of_nat 0) with i0 in H by lia.
      * right. exists j, y'. split; [exact Hj|].
        now replace (i0 + Z.of_nat (S j)) with (i0 + 1 + Z.of_nat j) in H by lia.
Qed.

(** the cells listed: exactly the non-zero ones, under the accumulated prefix *)
Lemma lol_entries_spec dims : forall x rp c v,
  lol_shapeb dims x = true ->
  (In (c, v) (lol_entries x rp) <->
   exists c', c = rev rp ++ c' /\ in_rangeb dims c' = true /\ lol_get c' x = Some v /\ v <> 0).
Proof.
  induction dims as [|d dims IH]; intros x rp c v S.
  - destruct x as [w|l]; [|discriminate]. cbn [lol_entries]. split.
    + destruct (w =? 0) eqn:E; [intros []|]. intros [H|[]]. inversion H; subst.
      exists []. rewrite app_nil_r. repeat split; lia.
    + intros (c' & -> & Hr & Hg & Hz). destruct c'; [|discriminate]. cbn in Hg. inversion Hg; subst.
      destruct (v =? 0) eqn:E; [lia|]. left. now rewrite app_nil_r.
  - destruct x as [w|l]; [discriminate|]. cbn [lol_shapeb] in S. apply andb_true_iff in S.
    destruct S as [Sl Sf]. rewrite forallb_forall in Sf.
    rewrite lol_entries_list, lol_list_entries_In. split.
    + intros (j & y & Hj & H).
      apply IH in H; [|apply Sf; eapply nth_error_In; exact Hj].
      destruct H as (c' & -> & Hr & Hg & Hz).
      exists ((0 + Z.of_nat j) :: c'). cbn [rev]. rewrite <- app_assoc. split; [reflexivity|].
      assert (j < length l)%nat by (apply nth_error_Some; congruence).
      unfold zlen in Sl. repeat split.
      * cbn [in_rangeb]. rewrite Hr. lia.
      * cbn [lol_get]. destruct (0 + Z.of_nat j <? 0) eqn:E; [lia|].
        replace (Z.to_nat (0 + Z.of_nat j)) with j by lia. now rewrite Hj.
      * exact Hz.
    + intros (c' & -> & Hr & Hg & Hz). destruct c' as [|i c']; [discriminate|].
      cbn [in_rangeb] in Hr. rewrite !andb_true_iff in Hr. destruct Hr as [[H0 H1] Hr].
      cbn [lol_get] in Hg. destruct (i <? 0) eqn:E; [lia|].
      destruct (nth_error l (Z.to_nat i)) as [y|] eqn:Hj; [|discriminate].
      exists (Z.to_nat i), y. split; [exact Hj|].
      apply IH; [apply Sf; eapply nth_error_In; exact Hj|].
      exists c'. replace (0 + Z.of_nat (Z.to_nat i)) with i by lia.
      cbn [rev]. rewrite <- app_assoc. repeat split; assumption.
Qed.

Lemma lol_list_entries_NoDup rp l :
  (forall y i, In y l -> NoDup (map fst (lol_entries y (i :: rp)))) ->
  (forall j y e, nth_error l j = Some y -> forall i, In e (lol_entries y (i :: rp)) ->
                 exists c', fst e = rev rp ++ i :: c') ->
  forall i0, NoDup (map fst (lol_list_entries rp l i0)).
Proof.
  induction l as [|y r IH]; intros H1 H2 i0; [constructor|].
  cbn [lol_list_entries]. rewrite map_app. apply NoDup_app_intro.
  - apply H1. now left.
  - apply IH.
    + intros y' i Hy. apply H1. now right.
    + intros j y' e Hj. apply (H2 (S j)). exact Hj.
  - intros k Hk Hk'. apply in_map_iff in Hk, Hk'.
    destruct Hk as (e & <- & He), Hk' as (e' & Ee & He').
    destruct (H2 O y e eq_refl i0 He) as (c1 & E1).
    apply lol_list_entries_In in He'. destruct He' as (j & y' & Hj & He').
    destruct (H2 (S j) y' e' Hj _ He') as (c2 & E2).
    rewrite E1, E2 in Ee. apply app_inv_head in Ee. inversion Ee. lia.
Qed.

Lemma lol_entries_NoDup dims : forall x rp,
  lol_shapeb dims x = true -> NoDup (map fst (lol_entries x rp)).
Proof.
  induction dims as [|d dims IH]; intros x rp S.
  - destruct x as [w|l]; [|discriminate]. cbn [lol_entries].
    destruct (w =? 0); [constructor|]. cbn. constructor; [intros []|constructor].
  - destruct x as [w|l]; [discriminate|]. cbn [lol_shapeb] in S. apply andb_true_iff in S.
    destruct S as [Sl Sf]. rewrite forallb_forall in Sf.
    rewrite lol_entries_list. apply lol_list_entries_NoDup.
    + intros y i Hy. apply IH. now apply Sf.
    + intros j y [c v] Hj i He. cbn [fst].
      apply (lol_entries_spec dims) in He; [|apply Sf; eapply nth_error_In; exact Hj].
      destruct He as (c' & -> & _). exists c'. cbn [rev]. now rewrite <- app_assoc.
Qed.

Lemma main_from_lol : forall fmt dims x,
  valid_formatb fmt = true -> dims_okb fmt dims = true -> lol_shapeb dims x = true ->
  exists t, from_lol fmt dims x = Ok t
    /\ (forall c v, In (c, v) (to_dok_spec t) <-> lol_get c x = Some v /\ v <> 0)
    /\ NoDup (map fst (to_dok_spec t))
    /\ format_of t = fmt /\ Storage.dims t = dims.
Proof.
  intros fmt dims x V D S. rewrite from_lol_build.
  set (es := lol_entries x []).
  assert (forall c v, In (c, v) es <-> in_rangeb dims c = true /\ lol_get c x = Some v /\ v <> 0) as Hes.
  { intros c v. unfold es. rewrite (lol_entries_spec dims x [] c v S). cbn [rev app]. split.
    - intros (c' & -> & H). exact H.
    - intros H. now exists c. }
  assert (all_in_rangeb dims es = true) as R.
  { unfold all_in_rangeb. apply forallb_forall. intros [c v] Hin. apply Hes in Hin. tauto. }
  pose proof (lol_entries_NoDup dims x [] S) as ND. fold es in ND.
  destruct (main_roundtrip fmt dims es V D R) as (t & B & H1 & H2 & H3 & H4).
  exists t. split; [exact B|]. split; [|tauto].
  intros c v. rewrite H1. split.
  - intros [-> Hz]. destruct (sum_at_nonzero_In _ _ Hz) as [w Hw].
    rewrite (sum_at_NoDup _ _ _ ND Hw). apply Hes in Hw. tauto.
  - intros [Hg Hz].
    destruct (in_rangeb dims c) eqn:Rc.
    + assert (In (c, v) es) as Hin by (apply Hes; tauto).
      rewrite (sum_at_NoDup _ _ _ ND Hin). tauto.
    + exfalso. clear -Hg Rc S. revert x c S Hg Rc.
      induction dims as [|d dims IH]; intros x c S Hg Rc.
      * destruct x; [|discriminate]. destruct c; [discriminate|]. cbn in Hg. discriminate.
      * destruct x as [w|l]; [discriminate|]. cbn [lol_shapeb] in S. apply andb_true_iff in S.
        destruct S as [Sl Sf]. rewrite forallb_forall in Sf.
        destruct c as [|i c]; [discriminate|]. cbn [lol_get] in Hg.
        destruct (i <? 0) eqn:E; [discriminate|].
        destruct (nth_error l (Z.to_nat i)) as [y|] eqn:Hj; [|discriminate].
        assert (Z.to_nat i < length l)%nat by (apply nth_error_Some; congruence).
        cbn [in_rangeb] in Rc. unfold zlen in Sl.
        destruct (in_rangeb dims c) eqn:Rc'.
        -- rewrite andb_true_r in Rc. lia.
        -- eapply IH; [apply Sf; eapply nth_error_In; exact Hj|exact Hg|exact Rc'].
Qed.
