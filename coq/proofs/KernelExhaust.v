(** C01G -- syntactic facts about exhausting a list of leaves and about contexts, used by the
    soundness proof of the kernel model (values in Z). *)

From Coq Require Import ZArith List Bool Lia ZifyBool String.
From TV Require Import spec.Storage spec.Spec proofs.SpecSums model.Exhaust proofs.ExhaustProofs
                       model.DesugarSemGraph proofs.DesugarSemGraphProofs model.Kernel.
Import ListNotations.
Local Open Scope Z_scope.

Notation evalZ := (evalE (O := ZOps)).

Definition zis_zero : Z -> bool := Z.eqb 0.

Lemma zis_zero_sound : forall r : ZOps, zis_zero r = true -> r = @r0 ZOps.
Proof. intros r H. unfold zis_zero in H. apply Z.eqb_eq in H. now subst. Qed.

(** * exhausting a list *)

Lemma exhaust_list_app e d1 d2 : exhaust_list (exhaust_list e d1) d2 = exhaust_list e (d1 ++ d2).
Proof. unfold exhaust_list. now rewrite fold_left_app. Qed.

Lemma exhaust_list_nil e : exhaust_list e [] = e.
Proof. reflexivity. Qed.

Lemma exhaust_list_cons e t d : exhaust_list e (t :: d) = exhaust_list (exhaust e t) d.
Proof. reflexivity. Qed.

(** every leaf of the list reads 0 *)
Definition zero_all (sigma : string -> Z) (dead : list string) : string -> Z :=
  fun i => if existsb (String.eqb i) dead then 0 else sigma i.

Lemma evalE_ext (e : iexpr ZOps) s1 s2 : (forall i, s1 i = s2 i) -> evalZ s1 e = evalZ s2 e.
Proof.
  intros H. induction e; cbn [evalE]; try reflexivity; [apply H| |]; now rewrite IHe1, IHe2.
Qed.

Lemma exhaust_list_sound (e : iexpr ZOps) dead sigma :
  evalZ sigma (exhaust_list e dead) = evalZ (zero_all sigma dead) e.
Proof.
  revert e sigma. induction dead as [|t dead IH]; intros e sigma.
  - cbn. apply evalE_ext. intros i. reflexivity.
  - rewrite exhaust_list_cons, IH.
    rewrite (exhaust_sound ZOps ZOps_ok e t).
    apply evalE_ext. intros i. unfold zeroed, zero_all. cbn [existsb].
    destruct (String.eqb i t); [|reflexivity].
    cbn [orb]. now destruct (existsb (String.eqb i) dead).
Qed.

(** if the dead leaves read 0 anyway, exhausting them does not change the value *)
Lemma exhaust_list_value (e : iexpr ZOps) dead sigma :
  (forall i, In i dead -> sigma i = 0) -> evalZ sigma (exhaust_list e dead) = evalZ sigma e.
Proof.
  intros H. rewrite exhaust_list_sound. apply evalE_ext. intros i. unfold zero_all.
  destruct (existsb (String.eqb i) dead) eqn:E; [|reflexivity].
  apply existsb_exists in E. destruct E as (j & Hj & E). apply String.eqb_eq in E. subst.
  symmetry. now apply H.
Qed.

(** * leaves after exhausting *)

Lemma exhaust_aux_leaves (e : iexpr Z) t :
  incl (iexpr_leaves (fst (exhaust_aux e t))) (iexpr_leaves e).
Proof.
  induction e; cbn [exhaust_aux].
  - apply incl_refl.
  - apply incl_refl.
  - destruct (String.eqb id t); cbn; [intros x []|apply incl_refl].
  - destruct (exhaust_aux e1 t) as [a' sa]. destruct (exhaust_aux e2 t) as [b' sb].
    cbn [fst] in *. destruct (sa && sb); [apply incl_refl|].
    destruct (is_int0 a'); [cbn [fst iexpr_leaves]; now apply incl_appr|].
    destruct (is_int0 b'); [cbn [fst iexpr_leaves]; now apply incl_appl|].
    cbn [fst iexpr_leaves]. apply incl_app; [now apply incl_appl|now apply incl_appr].
  - destruct (exhaust_aux e1 t) as [a' sa]. destruct (exhaust_aux e2 t) as [b' sb].
    cbn [fst] in *. destruct (sa && sb); [apply incl_refl|].
    destruct (is_int0 a' || is_int0 b'); [cbn; intros x []|].
    cbn [fst iexpr_leaves]. apply incl_app; [now apply incl_appl|now apply incl_appr].
Qed.

Lemma exhaust_list_leaves (e : iexpr Z) dead :
  incl (iexpr_leaves (exhaust_list e dead)) (iexpr_leaves e).
Proof.
  revert e. induction dead as [|t dead IH]; intros e; [apply incl_refl|].
  rewrite exhaust_list_cons. eapply incl_tran; [apply IH|apply exhaust_aux_leaves].
Qed.

(** * contexts *)

(** exhausting keeps a context defined, and keeps it sparse *)
Lemma exhaust_aux_ctx (e : iexpr Z) t k : forall c,
  extract_context zis_zero e k = Some c ->
  exists c', extract_context zis_zero (fst (exhaust_aux e t)) k = Some c'
             /\ (is_sparse c = true -> is_sparse c' = true).
Proof.
  induction e; intros c Hc; cbn [exhaust_aux].
  - exists c. auto.
  - exists c. auto.
  - destruct (String.eqb id t); cbn [fst]; [|exists c; auto].
    cbn. eexists; split; [reflexivity|reflexivity].
  - cbn [extract_context] in Hc.
    destruct (extract_context zis_zero e1 k) as [x|] eqn:E1; [|discriminate].
    destruct (extract_context zis_zero e2 k) as [y|] eqn:E2; [|discriminate].
    inversion Hc; subst c. clear Hc.
    destruct (IHe1 x eq_refl) as (x' & Ex & Sx). destruct (IHe2 y eq_refl) as (y' & Ey & Sy).
    destruct (exhaust_aux e1 t) as [a' sa]. destruct (exhaust_aux e2 t) as [b' sb]. cbn [fst] in *.
    destruct (sa && sb).
    + cbn [fst extract_context]. rewrite E1, E2. eexists; split; [reflexivity|auto].
    + destruct (is_int0 a').
      * cbn [fst]. exists y'. split; [exact Ey|]. cbn. intros H. apply andb_true_iff in H. tauto.
      * destruct (is_int0 b').
        -- cbn [fst]. exists x'. split; [exact Ex|]. cbn. intros H. apply andb_true_iff in H. tauto.
        -- cbn [fst extract_context]. rewrite Ex, Ey. eexists; split; [reflexivity|].
           cbn. intros H. apply andb_true_iff in H. apply andb_true_iff. tauto.
  - cbn [extract_context] in Hc.
    destruct (extract_context zis_zero e1 k) as [x|] eqn:E1; [|discriminate].
    destruct (extract_context zis_zero e2 k) as [y|] eqn:E2; [|discriminate].
    inversion Hc; subst c. clear Hc.
    destruct (IHe1 x eq_refl) as (x' & Ex & Sx). destruct (IHe2 y eq_refl) as (y' & Ey & Sy).
    destruct (exhaust_aux e1 t) as [a' sa]. destruct (exhaust_aux e2 t) as [b' sb]. cbn [fst] in *.
    destruct (sa && sb).
    + cbn [fst extract_context]. rewrite E1, E2. eexists; split; [reflexivity|auto].
    + destruct (is_int0 a' || is_int0 b').
      * cbn. eexists; split; [reflexivity|reflexivity].
      * cbn [fst extract_context]. rewrite Ex, Ey. eexists; split; [reflexivity|].
        cbn. intros H. apply orb_true_iff in H. apply orb_true_iff. tauto.
Qed.

Lemma exhaust_list_ctx (e : iexpr Z) dead k : forall c,
  extract_context zis_zero e k = Some c ->
  exists c', extract_context zis_zero (exhaust_list e dead) k = Some c'
             /\ (is_sparse c = true -> is_sparse c' = true).
Proof.
  revert e. induction dead as [|t dead IH]; intros e c Hc.
  - exists c. auto.
  - rewrite exhaust_list_cons. destruct (exhaust_aux_ctx e t k c Hc) as (c1 & E1 & S1).
    destruct (IH _ c1 E1) as (c2 & E2 & S2). exists c2. split; [exact E2|auto].
Qed.

(** the leaves of a context: which tensor, which layer, and that it is the layer of [k] *)
Lemma context_sparse_leaf (e : iexpr Z) k : forall c lf,
  extract_context zis_zero e k = Some c -> In lf (sparse_leaves c) ->
  exists n idx ms, In (fst lf, (n, idx, ms)) (iexpr_leaves e)
                   /\ index_of_str k idx = Some (snd lf)
                   /\ nth_error ms (snd lf) = Some MCompressed.
Proof.
  induction e; intros c lf Hc Hl; cbn [extract_context] in Hc.
  - inversion Hc; subst. contradiction.
  - inversion Hc; subst. contradiction.
  - destruct (index_of_str k idx) as [l|] eqn:El; [|inversion Hc; subst; contradiction].
    destruct (nth_error modes l) as [[|]|] eqn:Em; inversion Hc; subst; cbn in Hl; try contradiction.
    destruct Hl as [<-|[]]. cbn [fst snd]. exists name, idx, modes. cbn. auto.
  - destruct (extract_context zis_zero e1 k) as [x|] eqn:E1; [|discriminate].
    destruct (extract_context zis_zero e2 k) as [y|] eqn:E2; [|discriminate].
    inversion Hc; subst. cbn in Hl. apply in_app_iff in Hl. cbn [iexpr_leaves].
    destruct Hl as [Hl|Hl]; [destruct (IHe1 _ _ eq_refl Hl) as (n & idx & ms & H1 & H2)
                            |destruct (IHe2 _ _ eq_refl Hl) as (n & idx & ms & H1 & H2)];
      exists n, idx, ms; (split; [apply in_app_iff; auto|exact H2]).
  - destruct (extract_context zis_zero e1 k) as [x|] eqn:E1; [|discriminate].
    destruct (extract_context zis_zero e2 k) as [y|] eqn:E2; [|discriminate].
    inversion Hc; subst. cbn in Hl. apply in_app_iff in Hl. cbn [iexpr_leaves].
    destruct Hl as [Hl|Hl]; [destruct (IHe1 _ _ eq_refl Hl) as (n & idx & ms & H1 & H2)
                            |destruct (IHe2 _ _ eq_refl Hl) as (n & idx & ms & H1 & H2)];
      exists n, idx, ms; (split; [apply in_app_iff; auto|exact H2]).
Qed.

(** * the terminals of a graph *)

Fixpoint terminals (g : graph Z) : list (iexpr Z) :=
  match g with
  | GTerminal e => [e]
  | GIter _ _ next => terminals next
  | GSum ts => (fix go (l : list (graph Z)) : list (iexpr Z) :=
                  match l with
                  | [] => []
                  | t :: r => terminals t ++ go r
                  end) ts
  end.

Lemma terminals_sum ts : terminals (GSum ts) = flat_map terminals ts.
Proof. induction ts as [|t r IH]; [reflexivity|]. cbn [terminals flat_map] in *. now rewrite IH. Qed.

Lemma graph_leaves_sum ts : graph_leaves (GSum ts) = flat_map graph_leaves ts.
Proof. induction ts as [|t r IH]; [reflexivity|]. cbn [graph_leaves flat_map] in *. now rewrite IH. Qed.

Lemma graph_leaves_terminals g : graph_leaves g = flat_map iexpr_leaves (terminals g).
Proof.
  induction g using (graph_ind' Z).
  - cbn. now rewrite app_nil_r.
  - exact IHg.
  - rewrite graph_leaves_sum, terminals_sum. induction H as [|t ts Ht H IH]; [reflexivity|].
    cbn [flat_map]. rewrite flat_map_app, Ht, IH. reflexivity.
Qed.
