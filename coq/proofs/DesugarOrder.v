(** C15: desugar_assignment does not depend on the iteration order of Python's sets, up to the
    nesting order of directly nested Contract nodes. *)

From Coq Require Import String List ZArith Bool Arith Lia Permutation.
From TV Require Import model.ExprAst model.Desugar proofs.ValidateBase proofs.ValidateIP.
Import ListNotations.

(** The least congruence on desugared expressions that exchanges two directly nested Contract
    nodes: "equal after erasing the nesting order of adjacent Contract nodes". *)
Inductive cequiv : dexpr -> dexpr -> Prop :=
  | ce_refl : forall e, cequiv e e
  | ce_sym : forall a b, cequiv a b -> cequiv b a
  | ce_trans : forall a b c, cequiv a b -> cequiv b c -> cequiv a c
  | ce_swap : forall i j e, cequiv (DContract i (DContract j e)) (DContract j (DContract i e))
  | ce_contract : forall i a b, cequiv a b -> cequiv (DContract i a) (DContract i b)
  | ce_add : forall a a' b b', cequiv a a' -> cequiv b b' -> cequiv (DAdd a b) (DAdd a' b')
  | ce_mul : forall a a' b b', cequiv a a' -> cequiv b b' -> cequiv (DMultiply a b) (DMultiply a' b').

Definition dassignment_equiv (a b : dassignment) : Prop :=
  d_target a = d_target b /\ cequiv (d_expr a) (d_expr b).

(* ------------------------------------------------------------------------------------------ *)
(** * chains of Contract nodes *)

Lemma wrap_cong : forall l e e', cequiv e e' -> cequiv (wrap l e) (wrap l e').
Proof.
  unfold wrap. induction l as [|x l IH]; intros e e' H; simpl; [exact H|].
  apply IH. apply ce_contract. exact H.
Qed.

Lemma wrap_perm : forall l l', Permutation l l' ->
  forall e e', cequiv e e' -> cequiv (wrap l e) (wrap l' e').
Proof.
  intros l l' HP. induction HP; intros e e' H.
  - exact H.
  - unfold wrap. simpl. apply IHHP. apply ce_contract. exact H.
  - unfold wrap. simpl. apply wrap_cong.
    eapply ce_trans; [apply ce_swap|]. apply ce_contract, ce_contract. exact H.
  - eapply ce_trans; [apply IHHP1; exact H|]. apply IHHP2. apply ce_refl.
Qed.

(* ------------------------------------------------------------------------------------------ *)
(** * sets as duplicate-free lists: equality of sets *)

Definition seteq (a b : list string) : Prop :=
  NoDup a /\ NoDup b /\ forall x, In x a <-> In x b.

Lemma seteq_perm : forall a b, seteq a b -> Permutation a b.
Proof. intros a b [H1 [H2 H3]]. apply NoDup_Permutation; assumption. Qed.

Lemma sinter_In : forall a b x, In x (sinter a b) <-> In x a /\ In x b.
Proof. intros. unfold sinter. rewrite filter_In, smem_In. tauto. Qed.

Lemma sdiff_In : forall a b x, In x (sdiff a b) <-> In x a /\ ~ In x b.
Proof.
  intros. unfold sdiff. rewrite filter_In, negb_true_iff, smem_false. tauto.
Qed.

Lemma seteq_sinter : forall a a' b b',
  NoDup a -> NoDup a' -> (forall x, In x a <-> In x a') -> (forall x, In x b <-> In x b') ->
  seteq (sinter a b) (sinter a' b').
Proof.
  intros a a' b b' N1 N2 H1 H2. split; [apply NoDup_filter; exact N1|].
  split; [apply NoDup_filter; exact N2|].
  intros x. rewrite !sinter_In, H1, H2. tauto.
Qed.

Lemma seteq_sdiff : forall a a' b b',
  seteq a a' -> (forall x, In x b <-> In x b') -> seteq (sdiff a b) (sdiff a' b').
Proof.
  intros a a' b b' [N1 [N2 H1]] H2. split; [apply NoDup_filter; exact N1|].
  split; [apply NoDup_filter; exact N2|].
  intros x. rewrite !sdiff_In, H1, H2. tauto.
Qed.

Lemma seteq_filter : forall (f : string -> bool) a a',
  seteq a a' -> seteq (filter f a) (filter f a').
Proof.
  intros f a a' [N1 [N2 H]]. split; [apply NoDup_filter; exact N1|].
  split; [apply NoDup_filter; exact N2|].
  intros x. rewrite !filter_In, H. tauto.
Qed.

Lemma forallb_same_members : forall (f : string -> bool) a b,
  (forall x, In x a <-> In x b) -> forallb f a = forallb f b.
Proof.
  intros f a b H.
  destruct (forallb f a) eqn:E1, (forallb f b) eqn:E2; try reflexivity.
  - rewrite forallb_forall in E1.
    assert (forallb f b = true) by (apply forallb_forall; intros x Hx; apply E1, H, Hx). congruence.
  - rewrite forallb_forall in E2.
    assert (forallb f a = true) by (apply forallb_forall; intros x Hx; apply E2, H, Hx). congruence.
Qed.

(** the expansion into a sum of products is never empty: [sum_terms]' empty case is unreachable *)
Lemma additive_terms_nonempty : forall e, additive_terms e <> [].
Proof.
  induction e as [v|v|t|l IHl r IHr|l IHl r IHr|l IHl r IHr]; simpl; try discriminate.
  - destruct (additive_terms l); [contradiction | discriminate].
  - destruct (additive_terms l); [contradiction | discriminate].
  - destruct (additive_terms l) as [|lt ls]; [contradiction|].
    destruct (additive_terms r) as [|rt rs]; [contradiction|]. simpl. discriminate.
Qed.

Lemma fold_add_cequiv : forall ds ds', Forall2 cequiv ds ds' ->
  forall d d', cequiv d d' -> cequiv (fold_left DAdd ds d) (fold_left DAdd ds' d').
Proof.
  induction 1; intros d d' Hd; simpl; [exact Hd|].
  apply IHForall2. apply ce_add; assumption.
Qed.

Lemma sum_terms_cequiv : forall ds ds', Forall2 cequiv ds ds' -> cequiv (sum_terms ds) (sum_terms ds').
Proof.
  intros ds ds' H. destruct H; simpl; [apply ce_refl|]. apply fold_add_cequiv; assumption.
Qed.

(* ------------------------------------------------------------------------------------------ *)
(** * the theorem *)

Section TwoOracles.
  Variable ord ord' : path -> list string -> list string.
  Variable ordi ordi' : path -> path -> list string -> list string.
  Hypothesis ord_perm : forall pth l, Permutation (ord pth l) l.
  Hypothesis ord_perm' : forall pth l, Permutation (ord' pth l) l.
  Hypothesis ordi_perm : forall s pth l, Permutation (ordi s pth l) l.
  Hypothesis ordi_perm' : forall s pth l, Permutation (ordi' s pth l) l.

  Lemma ord_seteq_perm : forall pth pth' c c', seteq c c' -> Permutation (ord pth c) (ord' pth' c').
  Proof.
    intros pth pth' c c' H.
    eapply Permutation_trans; [apply ord_perm|].
    eapply Permutation_trans; [apply seteq_perm; exact H|].
    apply Permutation_sym, ord_perm'.
  Qed.

  Lemma shared_indexes_seteq : forall pth pth' l r c c',
    seteq c c' ->
    let '(li, ri, sh) := shared_indexes ordi pth l r c in
    let '(li', ri', sh') := shared_indexes ordi' pth' l r c' in
    seteq li li' /\ seteq ri ri' /\ seteq sh sh'.
  Proof.
    intros pth pth' l r c c' [N1 [N2 H]]. unfold shared_indexes.
    set (kl := akeys (index_participants (ordi pth) (false :: pth) l)).
    set (kl' := akeys (index_participants (ordi' pth') (false :: pth') l)).
    set (kr := akeys (index_participants (ordi pth) (true :: pth) r)).
    set (kr' := akeys (index_participants (ordi' pth') (true :: pth') r)).
    assert (Hl : forall x, In x kl <-> In x kl').
    { intros x. unfold kl, kl'.
      rewrite (ip_keys_indexes (ordi pth) (ordi_perm pth)), (ip_keys_indexes (ordi' pth') (ordi_perm' pth')). tauto. }
    assert (Hr : forall x, In x kr <-> In x kr').
    { intros x. unfold kr, kr'.
      rewrite (ip_keys_indexes (ordi pth) (ordi_perm pth)), (ip_keys_indexes (ordi' pth') (ordi_perm' pth')). tauto. }
    assert (Nl : NoDup kl) by apply (ip_NoDup (ordi pth) (ordi_perm pth)).
    assert (Nl' : NoDup kl') by apply (ip_NoDup (ordi' pth') (ordi_perm' pth')).
    assert (Nr : NoDup kr) by apply (ip_NoDup (ordi pth) (ordi_perm pth)).
    assert (Nr' : NoDup kr') by apply (ip_NoDup (ordi' pth') (ordi_perm' pth')).
    assert (Sl : seteq (sinter kl c) (sinter kl' c')) by (apply seteq_sinter; assumption).
    assert (Sr : seteq (sinter kr c) (sinter kr' c')) by (apply seteq_sinter; assumption).
    split; [exact Sl|]. split; [exact Sr|].
    destruct Sl as [A [B C]]. destruct Sr as [_ [_ D]]. apply seteq_sinter; assumption.
  Qed.

  Lemma contract_split_add_seteq : forall pth pth' l r c c',
    seteq c c' ->
    let '(cl, cr, inter) := contract_split_add ordi pth l r c in
    let '(cl', cr', inter') := contract_split_add ordi' pth' l r c' in
    seteq cl cl' /\ seteq cr cr' /\ seteq inter inter'.
  Proof.
    intros pth pth' l r c c' S. unfold contract_split_add.
    pose proof (shared_indexes_seteq pth pth' l r c c' S) as SH.
    destruct (shared_indexes ordi pth l r c) as [[li ri] sh].
    destruct (shared_indexes ordi' pth' l r c') as [[li' ri'] sh'].
    destruct SH as [Sl [Sr Ss]].
    assert (Si : seteq (filter (fun i => carried_by_every_term l i && carried_by_every_term r i) sh)
                       (filter (fun i => carried_by_every_term l i && carried_by_every_term r i) sh'))
      by (apply seteq_filter; exact Ss).
    split; [|split].
    - apply seteq_sdiff; [exact Sl | apply Si].
    - apply seteq_sdiff; [exact Sr | apply Si].
    - exact Si.
  Qed.

  Lemma contract_split_mul_seteq : forall pth pth' l r c c',
    seteq c c' ->
    let '(cl, cr, inter) := contract_split_mul ordi pth l r c in
    let '(cl', cr', inter') := contract_split_mul ordi' pth' l r c' in
    seteq cl cl' /\ seteq cr cr' /\ seteq inter inter'.
  Proof.
    intros pth pth' l r c c' S. unfold contract_split_mul.
    pose proof (shared_indexes_seteq pth pth' l r c c' S) as SH.
    destruct (shared_indexes ordi pth l r c) as [[li ri] sh].
    destruct (shared_indexes ordi' pth' l r c') as [[li' ri'] sh'].
    destruct SH as [Sl [Sr Ss]].
    split; [|split].
    - apply seteq_sdiff; [exact Sl | apply Ss].
    - apply seteq_sdiff; [exact Sr | apply Ss].
    - exact Ss.
  Qed.

  (** whether a product is distributed does not depend on the iteration orders *)
  Lemma product_has_a_place_same : forall pth pth' l r c c',
    seteq c c' ->
    product_has_a_place ordi pth l r c = product_has_a_place ordi' pth' l r c'.
  Proof.
    intros pth pth' l r c c' S. unfold product_has_a_place.
    pose proof (shared_indexes_seteq pth pth' l r c c' S) as SH.
    destruct (shared_indexes ordi pth l r c) as [[li ri] sh].
    destruct (shared_indexes ordi' pth' l r c') as [[li' ri'] sh'].
    destruct SH as [_ [_ [_ [_ Ss]]]]. apply forallb_same_members. exact Ss.
  Qed.

  Lemma desugar_term_equiv : forall site site' c c' t n,
    seteq c c' ->
    cequiv (fst (desugar_term ord site c t n)) (fst (desugar_term ord' site' c' t n)) /\
    snd (desugar_term ord site c t n) = snd (desugar_term ord' site' c' t n).
  Proof.
    intros site site' c c' [neg [f fs]] n [N1 [N2 H]]. unfold desugar_term. simpl fst. simpl snd.
    destruct (desugar_leaf f n) as [d0 n0].
    destruct (multiply_factors d0 fs n0) as [body n1]. simpl.
    split; [|reflexivity].
    assert (W : cequiv (wrap (ord site (sinter (sdedup (flat_map leaf_indexes (term_factors (neg, (f, fs))))) c)) body)
                       (wrap (ord' site' (sinter (sdedup (flat_map leaf_indexes (term_factors (neg, (f, fs))))) c')) body)).
    { apply wrap_perm; [|apply ce_refl]. apply ord_seteq_perm.
      apply seteq_sinter; try apply sdedup_NoDup; [tauto | exact H]. }
    destruct neg; [apply ce_mul; [apply ce_refl | exact W] | exact W].
  Qed.

  Lemma desugar_terms_equiv : forall ts pth pth' k k' c c' n,
    seteq c c' ->
    Forall2 cequiv (fst (desugar_terms ord pth k c ts n)) (fst (desugar_terms ord' pth' k' c' ts n)) /\
    snd (desugar_terms ord pth k c ts n) = snd (desugar_terms ord' pth' k' c' ts n).
  Proof.
    induction ts as [|t ts IH]; intros pth pth' k k' c c' n S; simpl.
    - split; [constructor | reflexivity].
    - pose proof (desugar_term_equiv (term_site pth k) (term_site pth' k') c c' t n S) as T.
      destruct (desugar_term ord (term_site pth k) c t n) as [d n1].
      destruct (desugar_term ord' (term_site pth' k') c' t n) as [d' n1'].
      simpl in T. destruct T as [Td Tn]. subst n1'.
      specialize (IH pth pth' (Datatypes.S k) (Datatypes.S k') c c' n1 S).
      destruct (desugar_terms ord pth (Datatypes.S k) c ts n1) as [ds n2].
      destruct (desugar_terms ord' pth' (Datatypes.S k') c' ts n1) as [ds' n2'].
      simpl in IH. destruct IH as [Id In']. subst n2'. simpl.
      split; [constructor; assumption | reflexivity].
  Qed.

  Lemma desugar_distributed_equiv : forall e pth pth' c c' n,
    seteq c c' ->
    cequiv (fst (desugar_distributed ord pth e c n)) (fst (desugar_distributed ord' pth' e c' n)) /\
    snd (desugar_distributed ord pth e c n) = snd (desugar_distributed ord' pth' e c' n).
  Proof.
    intros e pth pth' c c' n S. unfold desugar_distributed.
    pose proof (desugar_terms_equiv (additive_terms e) pth pth' 0 0 c c' n S) as T.
    destruct (desugar_terms ord pth 0 c (additive_terms e) n) as [ds n1].
    destruct (desugar_terms ord' pth' 0 c' (additive_terms e) n) as [ds' n1'].
    simpl in T. destruct T as [Td Tn]. subst n1'. simpl. split; [|reflexivity].
    apply sum_terms_cequiv. exact Td.
  Qed.

  Lemma desugar_expression_equiv : forall e pth pth' c c' n,
    seteq c c' ->
    cequiv (fst (desugar_expression ord ordi pth e c n)) (fst (desugar_expression ord' ordi' pth' e c' n)) /\
    snd (desugar_expression ord ordi pth e c n) = snd (desugar_expression ord' ordi' pth' e c' n).
  Proof.
    induction e as [v|v|t|l IHl r IHr|l IHl r IHr|l IHl r IHr]; intros pth pth' c c' n S;
      cbn [desugar_expression].
    - split; [apply ce_refl | reflexivity].
    - split; [apply ce_refl | reflexivity].
    - simpl. split; [|reflexivity]. apply wrap_perm; [apply ord_seteq_perm; exact S | apply ce_refl].
    - pose proof (contract_split_add_seteq pth pth' l r c c' S) as CS.
      destruct (contract_split_add ordi pth l r c) as [[cl cr] inter].
      destruct (contract_split_add ordi' pth' l r c') as [[cl' cr'] inter'].
      destruct CS as [Sl [Sr Si]].
      specialize (IHl (false :: pth) (false :: pth') cl cl' n Sl).
      destruct (desugar_expression ord ordi (false :: pth) l cl n) as [l1 n1].
      destruct (desugar_expression ord' ordi' (false :: pth') l cl' n) as [l1' n1'].
      simpl in IHl. destruct IHl as [El En]. subst n1'.
      specialize (IHr (true :: pth) (true :: pth') cr cr' n1 Sr).
      destruct (desugar_expression ord ordi (true :: pth) r cr n1) as [r1 n2].
      destruct (desugar_expression ord' ordi' (true :: pth') r cr' n1) as [r1' n2'].
      simpl in IHr. destruct IHr as [Er En]. subst n2'. simpl.
      split; [|reflexivity]. apply wrap_perm; [apply ord_seteq_perm; exact Si|].
      apply ce_add; assumption.
    - pose proof (contract_split_add_seteq pth pth' l r c c' S) as CS.
      destruct (contract_split_add ordi pth l r c) as [[cl cr] inter].
      destruct (contract_split_add ordi' pth' l r c') as [[cl' cr'] inter'].
      destruct CS as [Sl [Sr Si]].
      specialize (IHl (false :: pth) (false :: pth') cl cl' n Sl).
      destruct (desugar_expression ord ordi (false :: pth) l cl n) as [l1 n1].
      destruct (desugar_expression ord' ordi' (false :: pth') l cl' n) as [l1' n1'].
      simpl in IHl. destruct IHl as [El En]. subst n1'.
      specialize (IHr (true :: pth) (true :: pth') cr cr' n1 Sr).
      destruct (desugar_expression ord ordi (true :: pth) r cr n1) as [r1 n2].
      destruct (desugar_expression ord' ordi' (true :: pth') r cr' n1) as [r1' n2'].
      simpl in IHr. destruct IHr as [Er En]. subst n2'. simpl.
      split; [|reflexivity]. apply wrap_perm; [apply ord_seteq_perm; exact Si|].
      apply ce_add; [assumption|]. apply ce_mul; [apply ce_refl | assumption].
    - rewrite (product_has_a_place_same pth pth' l r c c' S).
      destruct (product_has_a_place ordi' pth' l r c').
      + pose proof (contract_split_mul_seteq pth pth' l r c c' S) as CS.
        destruct (contract_split_mul ordi pth l r c) as [[cl cr] inter].
        destruct (contract_split_mul ordi' pth' l r c') as [[cl' cr'] inter'].
        destruct CS as [Sl [Sr Si]].
        specialize (IHl (false :: pth) (false :: pth') cl cl' n Sl).
        destruct (desugar_expression ord ordi (false :: pth) l cl n) as [l1 n1].
        destruct (desugar_expression ord' ordi' (false :: pth') l cl' n) as [l1' n1'].
        simpl in IHl. destruct IHl as [El En]. subst n1'.
        specialize (IHr (true :: pth) (true :: pth') cr cr' n1 Sr).
        destruct (desugar_expression ord ordi (true :: pth) r cr n1) as [r1 n2].
        destruct (desugar_expression ord' ordi' (true :: pth') r cr' n1) as [r1' n2'].
        simpl in IHr. destruct IHr as [Er En]. subst n2'. simpl.
        split; [|reflexivity]. apply wrap_perm; [apply ord_seteq_perm; exact Si|].
        apply ce_mul; assumption.
      + apply desugar_distributed_equiv. exact S.
  Qed.

  Theorem desugar_order_independent : forall a,
    dassignment_equiv (desugar_assignment ord ordi a) (desugar_assignment ord' ordi' a).
  Proof.
    intros a. unfold desugar_assignment, dassignment_equiv. simpl. split; [reflexivity|].
    apply desugar_expression_equiv.
    apply seteq_sdiff; [|tauto].
    unfold assignment_index_participants. split; [apply (merge_NoDup (ordi []) (ordi_perm []))|].
    split; [apply (merge_NoDup (ordi' []) (ordi_perm' []))|].
    intros x. rewrite (merge_keys_In (ordi []) (ordi_perm [])), (merge_keys_In (ordi' []) (ordi_perm' [])).
    rewrite (ip_keys_indexes (ordi []) (ordi_perm [])), (ip_keys_indexes (ordi' []) (ordi_perm' [])). tauto.
  Qed.
End TwoOracles.

(* ------------------------------------------------------------------------------------------ *)
(** * what the later passes read does not see the order either *)

Theorem index_dimensions_expression_cequiv : forall a b,
  cequiv a b -> index_dimensions_expression a = index_dimensions_expression b.
Proof.
  induction 1; simpl; try congruence.
Qed.

Theorem index_dimensions_ignores_contract_order : forall a b,
  dassignment_equiv a b -> index_dimensions a = index_dimensions b.
Proof.
  intros a b [H1 H2]. unfold index_dimensions. rewrite H1.
  rewrite (index_dimensions_expression_cequiv _ _ H2). reflexivity.
Qed.

(* ------------------------------------------------------------------------------------------ *)
(** * the executable comparison used by the correspondence is sound *)

Lemma sremove_perm : forall x l l', sremove x l = Some l' -> Permutation l (x :: l').
Proof.
  induction l as [|y t IH]; simpl; intros l' H; [discriminate|].
  destruct (String.eqb x y) eqn:E.
  - apply String.eqb_eq in E. inversion H; subst. apply Permutation_refl.
  - destruct (sremove x t) as [t'|]; [|discriminate]. inversion H; subst.
    eapply Permutation_trans; [apply perm_skip, IH; reflexivity|]. apply perm_swap.
Qed.

Lemma sperm_perm : forall a b, sperm a b = true -> Permutation a b.
Proof.
  induction a as [|x a IH]; simpl; intros b H.
  - destruct b; [apply perm_nil | discriminate].
  - destruct (sremove x b) as [b'|] eqn:E; [|discriminate].
    apply sremove_perm in E. eapply Permutation_trans; [apply perm_skip, IH; exact H|].
    apply Permutation_sym. exact E.
Qed.

(** [e] is its chain wrapped (outermost first) around its body *)
Fixpoint rewrap (c : list string) (b : dexpr) : dexpr :=
  match c with [] => b | i :: c' => DContract i (rewrap c' b) end.

Lemma chain_rewrap : forall e, e = rewrap (fst (chain e)) (snd (chain e)).
Proof.
  induction e; simpl; try reflexivity.
  destruct (chain e) as [c b]. simpl in *. f_equal. exact IHe.
Qed.

Lemma rewrap_perm : forall c c', Permutation c c' ->
  forall b b', cequiv b b' -> cequiv (rewrap c b) (rewrap c' b').
Proof.
  intros c c' HP. induction HP; intros b b' H; simpl.
  - exact H.
  - apply ce_contract. apply IHHP. exact H.
  - eapply ce_trans; [apply ce_swap|]. apply ce_contract, ce_contract.
    clear -H. induction l; simpl; [exact H | apply ce_contract; exact IHl].
  - eapply ce_trans; [apply IHHP1; exact H|]. apply IHHP2. apply ce_refl.
Qed.

Lemma slist_eqb_true : forall a b, slist_eqb a b = true -> a = b.
Proof.
  induction a as [|x a IH]; destruct b as [|y b]; simpl; try discriminate; [reflexivity|].
  intros H. apply andb_true_iff in H. destruct H as [H1 H2]. apply String.eqb_eq in H1.
  f_equal; auto.
Qed.

Theorem cequivb_fuel_sound : forall fuel a b, cequivb_fuel fuel a b = true -> cequiv a b.
Proof.
  induction fuel as [|f IH]; intros a b H; simpl in H; [discriminate|].
  rewrite (chain_rewrap a), (chain_rewrap b).
  destruct (chain a) as [ca ba]. destruct (chain b) as [cb bb]. simpl.
  apply andb_true_iff in H. destruct H as [P H]. apply sperm_perm in P.
  apply rewrap_perm; [exact P|].
  destruct ba, bb; try discriminate.
  - apply Z.eqb_eq in H. subst. apply ce_refl.
  - apply Z.eqb_eq in H. subst. apply ce_refl.
  - apply andb_true_iff in H. destruct H as [H H3]. apply andb_true_iff in H. destruct H as [H1 H2].
    apply Nat.eqb_eq in H1. apply String.eqb_eq in H2. apply slist_eqb_true in H3. subst. apply ce_refl.
  - apply andb_true_iff in H. destruct H as [H1 H2]. apply ce_add; apply IH; assumption.
  - apply andb_true_iff in H. destruct H as [H1 H2]. apply ce_mul; apply IH; assumption.
Qed.

Theorem dassignment_equivb_sound : forall a b,
  dassignment_equivb a b = true -> cequiv (d_target a) (d_target b) /\ cequiv (d_expr a) (d_expr b).
Proof.
  intros a b H. unfold dassignment_equivb, cequivb in H. apply andb_true_iff in H.
  destruct H as [H1 H2]. split; eapply cequivb_fuel_sound; eauto.
Qed.
