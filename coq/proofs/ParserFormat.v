(** C12 -- proofs about the format parser / printer model (model/FormatParser.v).

    (1) decimal codec for naturals (show_N / digits_val)
    (2) check_ordering is "permutation of 0..n-1" when the lengths agree
    (3) deparse followed by parse is the identity on well-formed formats
    (4) every parsed format is well formed; the fuel of the model is sufficient
    (5) round trip of  name:format
    (6) soundness of the parser with respect to the grammar *)

From Coq Require Import String Ascii List NArith ZArith Bool Arith Lia ZifyBool Permutation.
From TV Require Import model.Parser model.FormatParser.
Import ListNotations.

(* ------------------------------------------------------------------------------------------ *)
(** * (1) Decimal codec *)

Lemma N_of_ascii_0 : N_of_ascii "0" = 48%N.
Proof. reflexivity. Qed.

Lemma N_of_ascii_9 : N_of_ascii "9" = 57%N.
Proof. reflexivity. Qed.

Lemma is_digit_spec : forall c, is_digit c = true <-> (48 <= N_of_ascii c <= 57)%N.
Proof.
  intro c. unfold is_digit, ascii_between. rewrite N_of_ascii_0, N_of_ascii_9.
  rewrite andb_true_iff, !N.leb_le. tauto.
Qed.

Lemma N_of_ascii_digit_char : forall d, (d < 10)%N -> N_of_ascii (digit_char d) = (48 + d)%N.
Proof.
  intros d H. unfold digit_char. apply N_ascii_embedding. lia.
Qed.

Lemma digit_val_digit_char : forall d, (d < 10)%N -> digit_val (digit_char d) = d.
Proof.
  intros d H. unfold digit_val. rewrite N_of_ascii_digit_char by exact H. lia.
Qed.

Lemma is_digit_digit_char : forall d, (d < 10)%N -> is_digit (digit_char d) = true.
Proof.
  intros d H. apply is_digit_spec. rewrite N_of_ascii_digit_char by exact H. lia.
Qed.

Lemma digits_val_nil : digits_val [] = 0%N.
Proof. reflexivity. Qed.

Lemma digits_val_snoc : forall l c, digits_val (l ++ [c]) = (10 * digits_val l + digit_val c)%N.
Proof.
  intros l c. unfold digits_val. rewrite fold_left_app. reflexivity.
Qed.

Lemma digits_val_single : forall c, digits_val [c] = digit_val c.
Proof.
  intro c. change [c] with ([] ++ [c]). rewrite digits_val_snoc, digits_val_nil. lia.
Qed.

Lemma show_N_fuel_S : forall fuel n,
  show_N_fuel (S fuel) n =
  if (n <? 10)%N then [digit_char n]
  else show_N_fuel fuel (n / 10)%N ++ [digit_char (n mod 10)%N].
Proof. reflexivity. Qed.

Lemma pos_lt_pow2_size : forall p, (Npos p < 2 ^ N.of_nat (Pos.size_nat p))%N.
Proof.
  induction p as [p IH | p IH | ]; cbn [Pos.size_nat].
  - rewrite Nat2N.inj_succ, N.pow_succ_r'. lia.
  - rewrite Nat2N.inj_succ, N.pow_succ_r'. lia.
  - rewrite Nat2N.inj_succ, N.pow_succ_r'. change (N.of_nat 0) with 0%N. rewrite N.pow_0_r. lia.
Qed.

Lemma N_lt_pow2_size_nat : forall n, (n < 2 ^ N.of_nat (N.size_nat n))%N.
Proof.
  intros [ | p].
  - cbn [N.size_nat]. change (N.of_nat 0) with 0%N. rewrite N.pow_0_r. lia.
  - cbn [N.size_nat]. apply pos_lt_pow2_size.
Qed.

(** the three facts about [show_N_fuel] with enough fuel, proved together *)
Lemma show_N_fuel_ok : forall fuel n, (n < 2 ^ N.of_nat fuel)%N ->
  digits_val (show_N_fuel (S fuel) n) = n
  /\ forallb is_digit (show_N_fuel (S fuel) n) = true
  /\ show_N_fuel (S fuel) n <> [].
Proof.
  induction fuel as [ | fuel IH]; intros n Hn; rewrite show_N_fuel_S.
  - change (N.of_nat 0) with 0%N in Hn. rewrite N.pow_0_r in Hn.
    assert (n = 0%N) by lia. subst n.
    change (0 <? 10)%N with true. cbv iota.
    rewrite digits_val_single, digit_val_digit_char by lia.
    cbn [forallb]. rewrite is_digit_digit_char by lia.
    repeat split; discriminate.
  - destruct (N.ltb_spec n 10) as [Hlt | Hge].
    + rewrite digits_val_single, digit_val_digit_char by exact Hlt.
      cbn [forallb]. rewrite is_digit_digit_char by exact Hlt.
      repeat split; discriminate.
    + rewrite Nat2N.inj_succ, N.pow_succ_r' in Hn.
      assert (Hq : (n / 10 < 2 ^ N.of_nat fuel)%N).
      { apply N.div_lt_upper_bound; lia. }
      destruct (IH _ Hq) as (Hv & Hd & Hne).
      assert (Hm : (n mod 10 < 10)%N) by (apply N.mod_lt; lia).
      repeat split.
      * rewrite digits_val_snoc, Hv, digit_val_digit_char by exact Hm.
        rewrite (N.div_mod n 10) at 3 by lia. reflexivity.
      * rewrite forallb_app, Hd. cbn [forallb]. rewrite is_digit_digit_char by exact Hm.
        reflexivity.
      * intro E. apply app_eq_nil in E. destruct E as [_ E]. discriminate E.
Qed.

Lemma digits_val_show_N : forall n : N, digits_val (show_N n) = n.
Proof. intro n. apply (show_N_fuel_ok (N.size_nat n) n (N_lt_pow2_size_nat n)). Qed.

Lemma show_N_all_digits : forall n, forallb is_digit (show_N n) = true.
Proof. intro n. apply (show_N_fuel_ok (N.size_nat n) n (N_lt_pow2_size_nat n)). Qed.

Lemma show_N_nonempty : forall n, show_N n <> [].
Proof. intro n. apply (show_N_fuel_ok (N.size_nat n) n (N_lt_pow2_size_nat n)). Qed.

(** [take_while] on a run satisfying [p] followed by something that does not *)
Lemma take_while_app : forall (p : ascii -> bool) ds rest,
  forallb p ds = true ->
  (match rest with c :: _ => p c = false | [] => True end) ->
  take_while p (ds ++ rest) = (ds, rest).
Proof.
  intros p ds rest. induction ds as [ | d ds IH]; intros Hds Hrest.
  - cbn [app]. destruct rest as [ | c r]; [reflexivity | ].
    cbn [take_while]. rewrite Hrest. reflexivity.
  - cbn [forallb] in Hds. apply andb_true_iff in Hds. destruct Hds as [Hd Hds].
    cbn [app take_while]. rewrite Hd, (IH Hds Hrest). reflexivity.
Qed.

Lemma take_while_digits_app : forall ds rest,
  forallb is_digit ds = true ->
  (match rest with c :: _ => is_digit c = false | [] => True end) ->
  take_while is_digit (ds ++ rest) = (ds, rest).
Proof. intros ds rest. apply take_while_app. Qed.

(** what [take_while] returns, in general *)
Lemma take_while_spec : forall (p : ascii -> bool) l a b,
  take_while p l = (a, b) ->
  l = a ++ b /\ forallb p a = true
  /\ (match b with c :: _ => p c = false | [] => True end).
Proof.
  intros p. induction l as [ | c l IH]; intros a b H.
  - cbn [take_while] in H. inversion H. subst. repeat split.
  - cbn [take_while] in H. destruct (p c) eqn:Hc.
    + destruct (take_while p l) as [a' b'] eqn:E. inversion H. subst a b. clear H.
      destruct (IH _ _ eq_refl) as (Hl & Ha & Hb).
      repeat split.
      * cbn [app]. rewrite Hl at 1. reflexivity.
      * cbn [forallb]. rewrite Hc, Ha. reflexivity.
      * exact Hb.
    + inversion H. subst a b. repeat split. exact Hc.
Qed.

Lemma take_while_length : forall (p : ascii -> bool) l,
  length (snd (take_while p l)) <= length l.
Proof.
  intros p l. destruct (take_while p l) as [a b] eqn:E.
  apply take_while_spec in E. destruct E as (E & _ & _).
  cbn [snd]. rewrite E, app_length. lia.
Qed.


(* ------------------------------------------------------------------------------------------ *)
(** * (2) check_ordering *)

Lemma range_length : forall n, length (range n) = n.
Proof. intro n. unfold range. rewrite map_length, seq_length. reflexivity. Qed.

Lemma In_range : forall n k, In k (range n) <-> (k < N.of_nat n)%N.
Proof.
  intros n k. unfold range. rewrite in_map_iff. split.
  - intros (i & Hi & Hin). apply in_seq in Hin. lia.
  - intro H. exists (N.to_nat k). split; [apply N2Nat.id | ]. apply in_seq. lia.
Qed.

Lemma NoDup_range : forall n, NoDup (range n).
Proof.
  intro n. unfold range. apply FinFun.Injective_map_NoDup; [ | apply seq_NoDup].
  intros a b H. apply Nat2N.inj. exact H.
Qed.

Lemma check_ordering_spec : forall n ord,
  check_ordering n ord = true <->
  (forall o, In o ord -> (o < N.of_nat n)%N) /\ (forall k, (k < N.of_nat n)%N -> In k ord).
Proof.
  intros n ord. unfold check_ordering. rewrite andb_true_iff, !forallb_forall. split.
  - intros [H1 H2]. split.
    + intros o Ho. apply N.ltb_lt. apply H1. exact Ho.
    + intros k Hk. apply In_range in Hk. apply H2 in Hk. apply existsb_exists in Hk.
      destruct Hk as (x & Hx & E). apply N.eqb_eq in E. subst x. exact Hx.
  - intros [H1 H2]. split.
    + intros o Ho. apply N.ltb_lt. apply H1. exact Ho.
    + intros k Hk. apply In_range in Hk. apply existsb_exists. exists k.
      split; [apply H2; exact Hk | apply N.eqb_refl].
Qed.

Theorem ordering_check_iff_permutation :
  forall (n : nat) (ord : list N), length ord = n ->
    (check_ordering n ord = true <-> Permutation ord (range n)).
Proof.
  intros n ord Hlen. rewrite check_ordering_spec. split.
  - intros [_ H2]. apply Permutation_sym. apply NoDup_Permutation_bis.
    + apply NoDup_range.
    + rewrite range_length. lia.
    + intros k Hk. apply H2. apply In_range. exact Hk.
  - intro HP. split.
    + intros o Ho. apply In_range. apply (Permutation_in _ HP). exact Ho.
    + intros k Hk. apply (Permutation_in _ (Permutation_sym HP)). apply In_range. exact Hk.
Qed.

(** without the length condition the check does not imply "permutation" *)
Example ordering_check_needs_length :
  check_ordering 2 [0; 0; 1]%N = true /\ ~ Permutation [0; 0; 1]%N (range 2).
Proof.
  split; [reflexivity | ].
  intro HP. apply Permutation_length in HP. discriminate HP.
Qed.

Lemma check_ordering_range : forall n, check_ordering n (range n) = true.
Proof.
  intro n. apply ordering_check_iff_permutation; [apply range_length | apply Permutation_refl].
Qed.


(* ------------------------------------------------------------------------------------------ *)
(** * (3) deparse ; parse = identity *)

Lemma mode_of_char_mode_char : forall m, mode_of_char (mode_char m) = Some m.
Proof. intros [ | ]; reflexivity. Qed.

Lemma is_digit_mode_char : forall m, is_digit (mode_char m) = false.
Proof. intros [ | ]; reflexivity. Qed.

Lemma mode_of_char_Some : forall c m, mode_of_char c = Some m -> c = mode_char m.
Proof.
  intros c m. unfold mode_of_char.
  destruct (Ascii.eqb c "d") eqn:Ed.
  - intro H. inversion H. apply Ascii.eqb_eq in Ed. exact Ed.
  - destruct (Ascii.eqb c "s") eqn:Es; [ | discriminate].
    intro H. inversion H. apply Ascii.eqb_eq in Es. exact Es.
Qed.

Lemma rep_pairs_S : forall n s,
  rep_pairs (S n) s =
  match s with
  | c :: d :: r =>
      match mode_of_char c with
      | Some m =>
          if is_digit d then
            let (ds, r') := take_while is_digit (d :: r) in
            match rep_pairs n r' with
            | Some (ps, r'') => Some ((m, digits_val ds) :: ps, r'')
            | None => None
            end
          else Some ([], s)
      | None => Some ([], s)
      end
  | _ => Some ([], s)
  end.
Proof. reflexivity. Qed.

(** a text made of mode letters only contains no (mode, integer) pair *)
Lemma rep_pairs_modes_only : forall ms n,
  rep_pairs (S n) (map mode_char ms) = Some ([], map mode_char ms).
Proof.
  intros ms n. rewrite rep_pairs_S.
  destruct ms as [ | m [ | m' ms]]; try reflexivity.
  cbn [map]. rewrite mode_of_char_mode_char, is_digit_mode_char. reflexivity.
Qed.

Lemma rep_modes_app : forall ms r,
  (match r with c :: _ => mode_of_char c = None | [] => True end) ->
  rep_modes (map mode_char ms ++ r) = (ms, r).
Proof.
  intros ms r Hr. induction ms as [ | m ms IH].
  - cbn [map app]. destruct r as [ | c r]; [reflexivity | ].
    cbn [rep_modes]. rewrite Hr. reflexivity.
  - cbn [map app rep_modes]. rewrite mode_of_char_mode_char, IH. reflexivity.
Qed.

Lemma rep_modes_map : forall ms, rep_modes (map mode_char ms) = (ms, []).
Proof.
  intro ms. rewrite <- (app_nil_r (map mode_char ms)). apply rep_modes_app. exact I.
Qed.

Definition pair_text (p : mode * N) : list ascii := mode_char (fst p) :: show_N (snd p).

Lemma flat_map_pair_text_head : forall ps,
  match flat_map pair_text ps with c :: _ => is_digit c = false | [] => True end.
Proof.
  intros [ | [m o] ps]; [exact I | ]. cbn [flat_map pair_text fst app]. apply is_digit_mode_char.
Qed.

Lemma flat_map_pair_text_length : forall ps, length ps <= length (flat_map pair_text ps).
Proof.
  induction ps as [ | p ps IH]; [apply Nat.le_refl | ].
  cbn [flat_map pair_text app length]. rewrite app_length. lia.
Qed.

(** the pairs of a printed format are all read back *)
Lemma rep_pairs_flat_map : forall ps n, length ps < n ->
  rep_pairs n (flat_map pair_text ps) = Some (ps, []).
Proof.
  induction ps as [ | [m o] ps IH]; intros n Hn.
  - destruct n as [ | n]; [inversion Hn | ]. reflexivity.
  - destruct n as [ | n]; [inversion Hn | ].
    cbn [length] in Hn. rewrite rep_pairs_S.
    cbn [flat_map pair_text fst snd app].
    destruct (show_N o) as [ | d ds] eqn:Eo; [exfalso; exact (show_N_nonempty o Eo) | ].
    cbn [app]. rewrite mode_of_char_mode_char.
    pose proof (show_N_all_digits o) as Hd. rewrite Eo in Hd.
    assert (Hd0 : is_digit d = true).
    { cbn [forallb] in Hd. apply andb_true_iff in Hd. exact (proj1 Hd). }
    rewrite Hd0.
    change (d :: ds ++ flat_map pair_text ps) with ((d :: ds) ++ flat_map pair_text ps).
    rewrite (take_while_digits_app (d :: ds) _ Hd (flat_map_pair_text_head ps)).
    rewrite IH by lia. rewrite <- Eo, digits_val_show_N. reflexivity.
Qed.

Lemma map_fst_combine : forall (A B : Type) (l : list A) (l' : list B),
  length l = length l' -> map fst (combine l l') = l.
Proof.
  intros A B. induction l as [ | a l IH]; intros [ | b l'] H; try discriminate H; [reflexivity | ].
  cbn [combine map fst]. rewrite IH; [reflexivity | ]. cbn [length] in H. lia.
Qed.

Lemma map_snd_combine : forall (A B : Type) (l : list A) (l' : list B),
  length l = length l' -> map snd (combine l l') = l'.
Proof.
  intros A B. induction l as [ | a l IH]; intros [ | b l'] H; try discriminate H; [reflexivity | ].
  cbn [combine map snd]. rewrite IH; [reflexivity | ]. cbn [length] in H. lia.
Qed.

Lemma list_N_eqb_true : forall a b, list_N_eqb a b = true <-> a = b.
Proof.
  intros a b. unfold list_N_eqb. destruct (list_eq_dec N.eq_dec a b); split; intro H;
    try reflexivity; try assumption; try discriminate H. contradiction.
Qed.

Lemma wf_format_spec : forall f, wf_format f = true <->
  length (modes f) = length (ordering f) /\ check_ordering (length (modes f)) (ordering f) = true.
Proof.
  intro f. unfold wf_format, format_constructible. rewrite andb_true_iff, Nat.eqb_eq. tauto.
Qed.

Theorem format_roundtrip :
  forall f : format, wf_format f = true ->
    exists s, deparse_format f = Some s /\ parse_format_chars s = FOk f.
Proof.
  intros [ms ord] Hwf. apply wf_format_spec in Hwf. cbn [modes ordering] in Hwf.
  destruct Hwf as [Hlen Hchk].
  unfold deparse_format. cbn [modes ordering].
  destruct (list_N_eqb ord (range (length ms))) eqn:Eid.
  - (* identity ordering: mode letters only *)
    apply list_N_eqb_true in Eid. subst ord.
    exists (map mode_char ms). split; [reflexivity | ].
    unfold parse_format_chars. rewrite rep_pairs_modes_only, rep_modes_map. reflexivity.
  - (* explicit ordering *)
    apply Nat.eqb_eq in Hlen. rewrite Hlen. apply Nat.eqb_eq in Hlen.
    eexists. split; [reflexivity | ].
    change (fun p : mode * N => mode_char (fst p) :: show_N (snd p)) with pair_text.
    unfold parse_format_chars.
    rewrite rep_pairs_flat_map
      by (pose proof (flat_map_pair_text_length (combine ms ord)); lia).
    destruct (combine ms ord) as [ | p ps] eqn:Ec.
    + (* no pair at all: then the ordering is empty, hence the identity *)
      exfalso.
      assert (L : length (combine ms ord) = 0) by (rewrite Ec; reflexivity).
      rewrite combine_length, <- Hlen, Nat.min_id in L.
      destruct ms; [ | discriminate L]. destruct ord; [ | discriminate Hlen].
      discriminate Eid.
    + cbv beta iota zeta. rewrite <- Ec.
      rewrite (map_fst_combine _ _ ms ord Hlen), (map_snd_combine _ _ ms ord Hlen).
      rewrite Hchk. reflexivity.
Qed.


(* ------------------------------------------------------------------------------------------ *)
(** * (4) parsed formats are well formed; fuel *)

Lemma rep_pairs_not_None : forall n s, length s < n -> rep_pairs n s <> None.
Proof.
  induction n as [ | n IH]; intros s Hn; [inversion Hn | ].
  rewrite rep_pairs_S.
  destruct s as [ | c [ | d r]]; try discriminate.
  destruct (mode_of_char c) as [m | ]; [ | discriminate].
  destruct (is_digit d); [ | discriminate].
  pose proof (take_while_length is_digit (d :: r)) as Hl.
  destruct (take_while is_digit (d :: r)) as [ds r'].
  cbn [snd length] in Hl. cbn [length] in Hn.
  assert (Hr' : length r' < n) by lia.
  specialize (IH r' Hr').
  destruct (rep_pairs n r') as [[ps r''] | ]; [discriminate | exact IH].
Qed.

Theorem parse_format_fuel_sufficient : forall s, parse_format_chars s <> FFuel.
Proof.
  intro s. unfold parse_format_chars.
  pose proof (rep_pairs_not_None (S (length s)) s (Nat.lt_succ_diag_r _)) as Hn.
  destruct (rep_pairs (S (length s)) s) as [[[ | p ps] r] | ]; [ | | contradiction].
  - destruct (rep_modes s) as [ms [ | c r0]]; discriminate.
  - cbv beta iota zeta.
    destruct (check_ordering _ _); [ | discriminate]. destruct r; discriminate.
Qed.

Theorem parse_format_wf : forall s f, parse_format_chars s = FOk f -> wf_format f = true.
Proof.
  intros s f. unfold parse_format_chars.
  destruct (rep_pairs (S (length s)) s) as [[[ | p ps] r] | ]; [ | | discriminate].
  - destruct (rep_modes s) as [ms [ | c r0]]; [ | discriminate].
    intro H. inversion H. apply wf_format_spec. cbn [modes ordering].
    rewrite range_length. split; [reflexivity | apply check_ordering_range].
  - cbv beta iota zeta.
    destruct (check_ordering _ _) eqn:Hc; [ | discriminate].
    destruct r; [ | discriminate].
    intro H. inversion H. apply wf_format_spec. cbn [modes ordering].
    split; [cbn [map length]; rewrite !map_length; reflexivity | exact Hc].
Qed.

(* ------------------------------------------------------------------------------------------ *)
(** * (5) name:format *)

Theorem named_format_roundtrip :
  forall (nm : list ascii) (f : format),
    (match nm with c :: _ => is_var_start c = true | [] => False end) ->
    forallb is_var_char nm = true ->
    wf_format f = true ->
    exists s, deparse_format f = Some s /\
              parse_named_format_chars (nm ++ ":"%char :: s) = FOk (string_of_list_ascii nm, f).
Proof.
  intros nm f Hstart Hchars Hwf.
  destruct (format_roundtrip f Hwf) as (s & Hd & Hp).
  exists s. split; [exact Hd | ].
  destruct nm as [ | c nm]; [contradiction | ].
  unfold parse_named_format_chars. cbn [app]. rewrite Hstart.
  change (c :: nm ++ ":"%char :: s) with ((c :: nm) ++ ":"%char :: s).
  rewrite (take_while_app is_var_char (c :: nm) (":"%char :: s) Hchars eq_refl).
  rewrite Hp. reflexivity.
Qed.

(* ------------------------------------------------------------------------------------------ *)
(** * (6) soundness with respect to the grammar *)

Definition digit_run (ds : list ascii) : Prop := ds <> [] /\ forallb is_digit ds = true.

Lemma rep_modes_sound : forall s ms r, rep_modes s = (ms, r) -> s = map mode_char ms ++ r.
Proof.
  induction s as [ | c s IH]; intros ms r H.
  - inversion H. reflexivity.
  - cbn [rep_modes] in H. destruct (mode_of_char c) as [m | ] eqn:Em.
    + destruct (rep_modes s) as [ms' r'] eqn:E. inversion H. subst ms r.
      cbn [map app]. rewrite <- (IH _ _ eq_refl). apply mode_of_char_Some in Em. subst c.
      reflexivity.
    + inversion H. reflexivity.
Qed.

Lemma rep_pairs_sound : forall n s ps r, rep_pairs n s = Some (ps, r) ->
  exists dss : list (list ascii),
    length dss = length ps /\
    Forall digit_run dss /\
    map snd ps = map digits_val dss /\
    s = flat_map (fun p => mode_char (fst p) :: snd p) (combine (map fst ps) dss) ++ r.
Proof.
  induction n as [ | n IH]; intros s ps r H; [discriminate H | ].
  rewrite rep_pairs_S in H.
  assert (Hnil : Some (@nil (mode * N), s) = Some (ps, r) ->
    exists dss : list (list ascii),
      length dss = length ps /\ Forall digit_run dss /\ map snd ps = map digits_val dss /\
      s = flat_map (fun p => mode_char (fst p) :: snd p) (combine (map fst ps) dss) ++ r).
  { intro E. inversion E. exists []. repeat split. constructor. }
  destruct s as [ | c [ | d r0]]; try (exact (Hnil H)).
  destruct (mode_of_char c) as [m | ] eqn:Em; [ | exact (Hnil H)].
  destruct (is_digit d) eqn:Ed; [ | exact (Hnil H)].
  clear Hnil.
  destruct (take_while is_digit (d :: r0)) as [ds r'] eqn:Et.
  destruct (rep_pairs n r') as [[ps' r''] | ] eqn:Er; [ | discriminate H].
  inversion H. subst ps r. clear H.
  destruct (IH _ _ _ Er) as (dss & Hlen & Hall & Hval & Hs).
  apply take_while_spec in Et. destruct Et as (Happ & Hds & Hhead).
  exists (ds :: dss). repeat split.
  - cbn [length]. rewrite Hlen. reflexivity.
  - constructor; [ | exact Hall]. split; [ | exact Hds].
    intro E. subst ds. cbn [app] in Happ. subst r'. rewrite Ed in Hhead. discriminate Hhead.
  - cbn [map snd]. rewrite Hval. reflexivity.
  - cbn [map fst combine flat_map snd]. apply mode_of_char_Some in Em. subst c.
    rewrite Happ, Hs. cbn [app]. rewrite app_assoc. reflexivity.
Qed.

Theorem parse_format_sound : forall s f, parse_format_chars s = FOk f ->
  (s = map mode_char (modes f) /\ ordering f = range (length (modes f)))
  \/ (exists dss : list (list ascii), length dss = length (modes f) /\
        Forall (fun ds => ds <> [] /\ forallb is_digit ds = true) dss /\
        ordering f = map digits_val dss /\
        s = flat_map (fun p => mode_char (fst p) :: snd p) (combine (modes f) dss)).
Proof.
  intros s f. unfold parse_format_chars.
  destruct (rep_pairs (S (length s)) s) as [[[ | p ps] r] | ] eqn:Er; [ | | discriminate].
  - destruct (rep_modes s) as [ms [ | c r0]] eqn:Em; [ | discriminate].
    intro H. inversion H. left. cbn [modes ordering].
    apply rep_modes_sound in Em. rewrite app_nil_r in Em. split; [exact Em | reflexivity].
  - cbv beta iota zeta.
    destruct (check_ordering _ _); [ | discriminate].
    destruct r; [ | discriminate].
    intro H. inversion H. right. cbn [modes ordering].
    destruct (rep_pairs_sound _ _ _ _ Er) as (dss & Hlen & Hall & Hval & Hs).
    exists dss. rewrite app_nil_r in Hs. repeat split.
    + rewrite Hlen. cbn [map length]. rewrite map_length. reflexivity.
    + exact Hall.
    + exact Hval.
    + exact Hs.
Qed.


(** corollary: the printed form of a parsed format parses to the same format *)
Corollary parse_deparse_parse : forall s f, parse_format_chars s = FOk f ->
  exists s', deparse_format f = Some s' /\ parse_format_chars s' = FOk f.
Proof. intros s f H. apply format_roundtrip. exact (parse_format_wf s f H). Qed.
