(** C01 part A: the specification is invariant under injective renaming of index variables and
    any renaming of tensors that the environment follows. *)
From Coq Require Import ZArith List Bool String Permutation Ring_theory Ring Lia.
From TV Require Import spec.Storage spec.Spec proofs.SpecSums proofs.SpecLemmas.
Import ListNotations.

Section Rename.
Variable O : ringops.
Variables tn ti : string -> string.
Hypothesis ti_inj : forall x y, ti x = ti y -> x = y.

Lemma smem_map_ti : forall k l, smem (ti k) (map ti l) = smem k l.
Proof.
  intros k l. destruct (smem k l) eqn:E.
  - apply smem_In. apply smem_In in E. apply in_map; auto.
  - apply smem_false. apply smem_false in E. intro H. apply E.
    apply in_map_iff in H. destruct H as [x [Hx Hi]]. apply ti_inj in Hx; subst; auto.
Qed.

Lemma In_map_ti : forall k l, In (ti k) (map ti l) <-> In k l.
Proof.
  intros; split; intro H.
  - apply in_map_iff in H. destruct H as [x [Hx Hi]]. apply ti_inj in Hx; subst; auto.
  - apply in_map; auto.
Qed.

Lemma nodup_map_ti : forall l, nodup string_dec (map ti l) = map ti (nodup string_dec l).
Proof.
  induction l; simpl; auto.
  destruct (in_dec string_dec (ti a) (map ti l)) as [H|H], (in_dec string_dec a l) as [H'|H']; auto.
  - exfalso. apply H'. apply In_map_ti; auto.
  - exfalso. apply H. apply In_map_ti; auto.
  - simpl. rewrite IHl; auto.
Qed.

Lemma filter_map_ti : forall (p p' : string -> bool) l,
  (forall k, p' (ti k) = p k) -> filter p' (map ti l) = map ti (filter p l).
Proof.
  induction l; simpl; intros; auto.
  rewrite H. destruct (p a); simpl; rewrite IHl; auto.
Qed.

Lemma mmul_rename : forall ma mb : monomial O,
  rename_mono tn ti (mmul ma mb) = mmul (rename_mono tn ti ma) (rename_mono tn ti mb).
Proof. intros; unfold rename_mono, mmul; simpl. rewrite map_app; auto. Qed.

Lemma mprod_rename : forall la lb : list (monomial O),
  map (rename_mono tn ti) (mprod la lb)
  = mprod (map (rename_mono tn ti) la) (map (rename_mono tn ti) lb).
Proof.
  induction la; intros; simpl; auto.
  rewrite map_app, IHla. f_equal. rewrite !map_map. apply map_ext. intros; apply mmul_rename.
Qed.

Lemma monomials_rename : forall e : expr O,
  monomials (rename_expr tn ti e) = map (rename_mono tn ti) (monomials e).
Proof.
  induction e; simpl; auto.
  - rewrite IHe1, IHe2, map_app; auto.
  - rewrite IHe1, IHe2, map_app, !map_map; auto.
  - rewrite IHe1, IHe2, mprod_rename; auto.
Qed.

Lemma midx_rename : forall m : monomial O, midx (rename_mono tn ti m) = map ti (midx m).
Proof.
  intros [s fs]; unfold midx, rename_mono; simpl. induction fs; simpl; auto.
  rewrite map_app, IHfs. f_equal. destruct a; auto.
Qed.

Lemma contracted_rename : forall tgt (m : monomial O),
  contracted (map ti tgt) (rename_mono tn ti m) = map ti (contracted tgt m).
Proof.
  intros; unfold contracted. rewrite midx_rename, nodup_map_ti.
  apply filter_map_ti. intros; rewrite smem_map_ti; auto.
Qed.

(** The renamed valuation reads, at a renamed index, what the original reads. *)
Definition vrel (rho' rho : val) : Prop := forall k, rho' (ti k) = rho k.

Lemma vrel_upd : forall rho' rho k v, vrel rho' rho -> vrel (upd rho' (ti k) v) (upd rho k v).
Proof.
  intros rho' rho k v H x. unfold upd.
  destruct (String.eqb_spec x k).
  - subst. rewrite String.eqb_refl; auto.
  - destruct (String.eqb_spec (ti x) (ti k)); auto. apply ti_inj in e; contradiction.
Qed.

Lemma vrel_bind : forall tgt c, vrel (bind (map ti tgt) c) (bind tgt c).
Proof.
  induction tgt; intros c k; simpl.
  - reflexivity.
  - destruct c; auto. apply vrel_upd. apply IHtgt.
Qed.

Variables E E' : env O.
Hypothesis E_compat : forall n cs, E' (tn n) cs = E n cs.
Variables sizes sizes' : string -> Z.
Hypothesis sizes_compat : forall k, sizes' (ti k) = sizes k.

Lemma mono_prod_rename : forall (m : monomial O) rho' rho, vrel rho' rho ->
  mono_prod E' (rename_mono tn ti m) rho' = mono_prod E m rho.
Proof.
  intros [s fs] rho' rho H. unfold mono_prod, rename_mono; simpl. f_equal.
  rewrite map_map. apply map_ext. intros f; destruct f; simpl; auto.
  rewrite E_compat. f_equal. rewrite map_map. apply map_ext. intros; apply H.
Qed.

Lemma sum_over_rename : forall ks (f f' : val -> O),
  (forall rho' rho, vrel rho' rho -> f' rho' = f rho) ->
  forall rho' rho, vrel rho' rho ->
  sum_over sizes' (map ti ks) f' rho' = sum_over sizes ks f rho.
Proof.
  induction ks; intros f f' Hf rho' rho H; simpl.
  - apply Hf; auto.
  - rewrite sizes_compat. apply rsum_map_ext. intros v _.
    apply IHks; auto. apply vrel_upd; auto.
Qed.

Theorem spec_rename : forall (a : assignment O) c,
  spec (rename_assignment tn ti a) E' sizes' c = spec a E sizes c.
Proof.
  intros a c. unfold spec, rename_assignment; simpl.
  rewrite monomials_rename, map_map. apply rsum_map_ext. intros m _.
  unfold term_value. simpl fst. f_equal.
  rewrite contracted_rename. apply sum_over_rename.
  - intros; apply mono_prod_rename; auto.
  - apply vrel_bind.
Qed.

Theorem spec_dims_rename : forall a : assignment O,
  spec_dims (rename_assignment tn ti a) sizes' = spec_dims a sizes.
Proof.
  intros; unfold spec_dims, rename_assignment; simpl. rewrite map_map. apply map_ext; auto.
Qed.

End Rename.
