(** Facts about the numeric model (spec/Num.v) over Flocq's binary64. *)

From Coq Require Import ZArith Bool List Reals Lia Lra Psatz SpecFloat.
From Flocq Require Import Core BinarySingleNaN.
From TV Require Import spec.Num.

Local Open Scope Z_scope.

Lemma is_canon_finite f : is_canon f = true -> is_finite f = true.
Proof. destruct f; simpl; congruence. Qed.

Lemma is_canon_fcanon f : is_canon f = true -> fcanon f = f.
Proof. destruct f as [[|]| | |]; simpl; congruence. Qed.

Lemma fcanon_is_canon f : is_finite f = true -> is_canon (fcanon f) = true.
Proof. destruct f; simpl; congruence. Qed.

Lemma chkfin_Ok f g : chkfin f = Ok g -> is_canon g = true.
Proof.
  unfold chkfin. destruct (is_finite f) eqn:E; intros H; inversion H; subst.
  now apply fcanon_is_canon.
Qed.

Lemma chkfin_canon g : is_canon g = true -> chkfin g = Ok g.
Proof.
  intros H. unfold chkfin. rewrite (is_canon_finite _ H). now rewrite is_canon_fcanon.
Qed.

(** Python's == on two float literals implies they denote the same machine value. *)
Lemma Feqb_chkfin x y : Feqb x y = true -> chkfin x = chkfin y.
Proof.
  unfold Feqb, Beqb, SFeqb, SFcompare, chkfin.
  destruct x as [sx|sx| |sx mx ex Hx], y as [sy|sy| |sy my ey Hy]; simpl.
  all: try discriminate; auto.
  all: try (destruct sx, sy; simpl; discriminate).
  destruct sx, sy; simpl; try discriminate;
    destruct (ex ?= ey)%Z eqn:E; simpl; try discriminate;
    destruct (Pos.compare_cont Eq mx my) eqn:E2; simpl; try discriminate;
    intros _; apply Z.compare_eq in E; apply Pos.compare_eq in E2; subst;
    f_equal; f_equal; apply eqbool_irrelevance.
Qed.

(** * Identities used by the optimiser *)

Lemma fadd_F0_l g : is_canon g = true -> fadd F0 g = Ok g.
Proof. destruct g as [s|s| |s m e H]; try destruct s; simpl; try discriminate; intros _; reflexivity. Qed.

Lemma fadd_F0_r g : is_canon g = true -> fadd g F0 = Ok g.
Proof. destruct g as [s|s| |s m e H]; try destruct s; simpl; try discriminate; intros _; reflexivity. Qed.

Lemma fsub_F0_r g : is_canon g = true -> fsub g F0 = Ok g.
Proof. destruct g as [s|s| |s m e H]; try destruct s; simpl; try discriminate; intros _; reflexivity. Qed.

Lemma fmul_F0_l g : is_canon g = true -> fmul F0 g = Ok F0.
Proof. destruct g as [s|s| |s m e H]; try destruct s; simpl; try discriminate; intros _; reflexivity. Qed.

Lemma fmul_F0_r g : is_canon g = true -> fmul g F0 = Ok F0.
Proof. destruct g as [s|s| |s m e H]; try destruct s; simpl; try discriminate; intros _; reflexivity. Qed.

Lemma F1_B2R : B2R F1 = 1%R.
Proof.
  unfold F1, Fmake.
  generalize (binary_normalize_correct 53 1024 Hprec53 Hmax1024 mode_NE 1 0 false).
  cbv zeta.
  replace (F2R (Float radix2 1 0)) with 1%R by (unfold F2R; simpl; lra).
  rewrite round_generic; auto with typeclass_instances.
  - rewrite Rlt_bool_true.
    + intros [H _]. exact H.
    + rewrite Rabs_R1. change 1%R with (bpow radix2 0). apply bpow_lt. lia.
  - change 1%R with (bpow radix2 0).
    apply generic_format_bpow. vm_compute. discriminate.
Qed.

Lemma F1_finite : is_finite F1 = true.
Proof. reflexivity. Qed.

Lemma Bmult_F1_r x : is_finite x = true -> B2R (Bmult mode_NE x F1) = B2R x /\ is_finite (Bmult mode_NE x F1) = true.
Proof.
  intros Fx.
  generalize (Bmult_correct 53 1024 Hprec53 Hmax1024 mode_NE x F1).
  rewrite F1_B2R, Rmult_1_r.
  rewrite round_generic; auto with typeclass_instances.
  - rewrite Rlt_bool_true.
    + intros [H1 [H2 _]]. rewrite Fx, F1_finite in H2. auto.
    + apply abs_B2R_lt_emax.
  - apply generic_format_B2R.
Qed.

Lemma Bmult_F1_l x : is_finite x = true -> B2R (Bmult mode_NE F1 x) = B2R x /\ is_finite (Bmult mode_NE F1 x) = true.
Proof.
  intros Fx.
  generalize (Bmult_correct 53 1024 Hprec53 Hmax1024 mode_NE F1 x).
  rewrite F1_B2R, Rmult_1_l.
  rewrite round_generic; auto with typeclass_instances.
  - rewrite Rlt_bool_true.
    + intros [H1 [H2 _]]. rewrite Fx, F1_finite in H2. auto.
    + apply abs_B2R_lt_emax.
  - apply generic_format_B2R.
Qed.

(** Two finite floats with the same real value are equal up to the sign of zero. *)
Lemma B2R_fcanon_inj x y :
  is_finite x = true -> is_finite y = true -> B2R x = B2R y -> fcanon x = fcanon y.
Proof.
  intros Fx Fy E.
  destruct x as [sx| | |sx mx ex Hx], y as [sy| | |sy my ey Hy]; try discriminate; simpl; auto.
  - exfalso. simpl in E. symmetry in E. apply eq_0_F2R in E. destruct sy; discriminate.
  - exfalso. simpl in E. apply eq_0_F2R in E. destruct sx; discriminate.
  - apply B2R_inj; auto.
Qed.

Lemma fmul_F1_r g : is_canon g = true -> fmul g F1 = Ok g.
Proof.
  intros C. pose proof (is_canon_finite _ C) as Fg.
  destruct (Bmult_F1_r g Fg) as [R Fi].
  unfold fmul, chkfin. rewrite Fi. f_equal.
  rewrite <- (is_canon_fcanon g C) at 2. apply B2R_fcanon_inj; auto.
Qed.

Lemma fmul_F1_l g : is_canon g = true -> fmul F1 g = Ok g.
Proof.
  intros C. pose proof (is_canon_finite _ C) as Fg.
  destruct (Bmult_F1_l g Fg) as [R Fi].
  unfold fmul, chkfin. rewrite Fi. f_equal.
  rewrite <- (is_canon_fcanon g C) at 2. apply B2R_fcanon_inj; auto.
Qed.

(** * int32 -> binary64 is exact, and so is +, -, * on int32 values whose result is an int32 *)

Lemma generic_format_IZR z : (Z.abs z <= 2 ^ 53)%Z ->
  generic_format radix2 (FLT_exp (3 - 1024 - 53) 53) (IZR z).
Proof.
  intros Hz.
  replace (IZR z) with (F2R (Float radix2 z 0)) by (unfold F2R; simpl; lra).
  destruct (Z.eq_dec (Z.abs z) (2 ^ 53)) as [E|NE].
  - (* |z| = 2^53 = 2^53 * 2^0 : a power of two *)
    assert (z = 2 ^ 53 \/ z = - 2 ^ 53)%Z as [-> | ->] by lia.
    + replace (F2R (Float radix2 (2 ^ 53) 0)) with (bpow radix2 53).
      * apply generic_format_bpow. vm_compute. discriminate.
      * unfold F2R. simpl. lra.
    + replace (F2R (Float radix2 (- 2 ^ 53) 0)) with (- bpow radix2 53)%R.
      * apply generic_format_opp. apply generic_format_bpow. vm_compute. discriminate.
      * unfold F2R. simpl. lra.
  - apply generic_format_F2R. intros Zm.
    unfold cexp, FLT_exp.
    assert (mag radix2 (F2R (Float radix2 z 0)) <= 53)%Z.
    { apply mag_le_bpow.
      - apply F2R_neq_0. exact Zm.
      - rewrite <- F2R_Zabs. unfold F2R. simpl. rewrite Rmult_1_r.
        change (9007199254740992)%R with (IZR (2 ^ 53)). apply IZR_lt. lia. }
    lia.
Qed.

Lemma bpow_1024_big z : (Z.abs z <= 2 ^ 62)%Z -> (Rabs (IZR z) < bpow radix2 1024)%R.
Proof.
  intros H. rewrite <- abs_IZR.
  apply Rle_lt_trans with (IZR (2 ^ 62)).
  - apply IZR_le. exact H.
  - change (IZR (2 ^ 62)) with (bpow radix2 62). apply bpow_lt. lia.
Qed.

Lemma Z2F_correct z : (Z.abs z <= 2 ^ 53)%Z -> B2R (Z2F z) = IZR z /\ is_finite (Z2F z) = true.
Proof.
  intros Hz. unfold Z2F.
  generalize (binary_normalize_correct 53 1024 Hprec53 Hmax1024 mode_NE z 0 false).
  cbv zeta.
  replace (F2R (Float radix2 z 0)) with (IZR z) by (unfold F2R; simpl; lra).
  rewrite round_generic; auto with typeclass_instances.
  - rewrite Rlt_bool_true.
    + intros [H1 [H2 _]]. auto.
    + apply bpow_1024_big. lia.
  - apply generic_format_IZR. exact Hz.
Qed.

Definition cZ2F (z : Z) : F := fcanon (Z2F z).

Lemma in_int32_abs z : in_int32 z = true -> (Z.abs z <= 2 ^ 31)%Z.
Proof.
  unfold in_int32, int32_min, int32_max. intros H.
  apply andb_prop in H. destruct H as [H1 H2].
  apply Z.leb_le in H1. apply Z.leb_le in H2. lia.
Qed.

Lemma cZ2F_canon z : in_int32 z = true -> is_canon (cZ2F z) = true.
Proof.
  intros H. apply fcanon_is_canon. apply Z2F_correct. apply in_int32_abs in H. lia.
Qed.

Lemma cZ2F_B2R z : (Z.abs z <= 2 ^ 53)%Z -> B2R (cZ2F z) = IZR z /\ is_finite (cZ2F z) = true.
Proof.
  intros H. destruct (Z2F_correct z H) as [R Fi]. unfold cZ2F.
  destruct (Z2F z) as [s| | |]; simpl in *; auto; discriminate.
Qed.

Lemma exact_op (op : F -> F -> F) (rop : R -> R -> R) (zop : Z -> Z -> Z) x y :
  (forall a b, is_finite a = true -> is_finite b = true ->
     if Rlt_bool (Rabs (round radix2 (FLT_exp (3 - 1024 - 53) 53) (round_mode mode_NE) (rop (B2R a) (B2R b)))) (bpow radix2 1024)
     then B2R (op a b) = round radix2 (FLT_exp (3 - 1024 - 53) 53) (round_mode mode_NE) (rop (B2R a) (B2R b))
          /\ is_finite (op a b) = true
     else True) ->
  (forall a b, rop (IZR a) (IZR b) = IZR (zop a b)) ->
  (Z.abs x <= 2 ^ 53)%Z -> (Z.abs y <= 2 ^ 53)%Z -> (Z.abs (zop x y) <= 2 ^ 53)%Z ->
  chkfin (op (cZ2F x) (cZ2F y)) = Ok (cZ2F (zop x y)).
Proof.
  intros Hop Hr Hx Hy Hz.
  destruct (cZ2F_B2R x Hx) as [Rx Fx]. destruct (cZ2F_B2R y Hy) as [Ry Fy].
  destruct (cZ2F_B2R _ Hz) as [Rz Fz].
  specialize (Hop _ _ Fx Fy). rewrite Rx, Ry, Hr in Hop.
  rewrite round_generic in Hop; auto with typeclass_instances.
  2:{ apply generic_format_IZR. exact Hz. }
  rewrite Rlt_bool_true in Hop. 2:{ apply bpow_1024_big. lia. }
  destruct Hop as [R Fi].
  unfold chkfin. rewrite Fi. f_equal.
  unfold cZ2F at 3. rewrite <- (is_canon_fcanon (fcanon (Z2F (zop x y)))).
  2:{ apply fcanon_is_canon. apply Z2F_correct. exact Hz. }
  apply B2R_fcanon_inj; auto. fold (cZ2F (zop x y)). congruence.
Qed.

Lemma fadd_exact x y : in_int32 x = true -> in_int32 y = true -> in_int32 (x + y) = true ->
  fadd (cZ2F x) (cZ2F y) = Ok (cZ2F (x + y)).
Proof.
  intros Hx Hy Hz. apply in_int32_abs in Hx, Hy, Hz.
  unfold fadd. apply (exact_op (Bplus mode_NE) Rplus Z.add); try lia.
  - intros a b Fa Fb. generalize (Bplus_correct 53 1024 Hprec53 Hmax1024 mode_NE a b Fa Fb).
    destruct Rlt_bool; auto. intros [H1 [H2 _]]. auto.
  - intros. now rewrite plus_IZR.
Qed.

Lemma fsub_exact x y : in_int32 x = true -> in_int32 y = true -> in_int32 (x - y) = true ->
  fsub (cZ2F x) (cZ2F y) = Ok (cZ2F (x - y)).
Proof.
  intros Hx Hy Hz. apply in_int32_abs in Hx, Hy, Hz.
  unfold fsub. apply (exact_op (Bminus mode_NE) Rminus Z.sub); try lia.
  - intros a b Fa Fb. generalize (Bminus_correct 53 1024 Hprec53 Hmax1024 mode_NE a b Fa Fb).
    destruct Rlt_bool; auto. intros [H1 [H2 _]]. auto.
  - intros. now rewrite minus_IZR.
Qed.

Lemma fmul_exact x y : in_int32 x = true -> in_int32 y = true -> in_int32 (x * y) = true ->
  fmul (cZ2F x) (cZ2F y) = Ok (cZ2F (x * y)).
Proof.
  intros Hx Hy Hz. apply in_int32_abs in Hx, Hy, Hz.
  unfold fmul. apply (exact_op (Bmult mode_NE) Rmult Z.mul); try lia.
  - intros a b Fa Fb. generalize (Bmult_correct 53 1024 Hprec53 Hmax1024 mode_NE a b).
    destruct Rlt_bool; auto. intros [H1 [H2 _]]. rewrite Fa, Fb in H2. auto.
  - intros. now rewrite mult_IZR.
Qed.

Lemma cZ2F_0 : cZ2F 0 = F0. Proof. reflexivity. Qed.
Lemma cZ2F_1 : cZ2F 1 = F1. Proof. reflexivity. Qed.

(** The quotient by the sign of zero is a congruence for +, -, * (justifies [fcanon] in the
    machine: the sign of a zero operand never changes the numerical value of a result). *)
Lemma fcanon_congr_plus x y : is_finite x = true -> is_finite y = true ->
  chkfin (Bplus mode_NE (fcanon x) (fcanon y)) = chkfin (Bplus mode_NE x y).
Proof.
  destruct x as [s|s| |s m e H], y as [s'|s'| |s' m' e' H']; try destruct s; try destruct s'; simpl; try discriminate; reflexivity.
Qed.

Lemma fcanon_congr_minus x y : is_finite x = true -> is_finite y = true ->
  chkfin (Bminus mode_NE (fcanon x) (fcanon y)) = chkfin (Bminus mode_NE x y).
Proof.
  destruct x as [s|s| |s m e H], y as [s'|s'| |s' m' e' H']; try destruct s; try destruct s'; simpl; try discriminate; reflexivity.
Qed.

Lemma fcanon_congr_mult x y : is_finite x = true -> is_finite y = true ->
  chkfin (Bmult mode_NE (fcanon x) (fcanon y)) = chkfin (Bmult mode_NE x y).
Proof.
  destruct x as [s|s| |s m e H], y as [s'|s'| |s' m' e' H']; try destruct s; try destruct s'; simpl; try discriminate; reflexivity.
Qed.
