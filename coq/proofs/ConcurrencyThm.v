(* C14 — theorems about every schedule of the concurrent-evaluation protocol model. *)
From Coq Require Import List Arith Bool Lia PeanoNat.
From TV Require Import model.Concurrency proofs.ConcurrencyInv.
Import ListNotations.

Section Thm.

Variable denote : key -> nat -> nat.
Variable progs : list (list call).

Notation Inv := (Inv denote progs).
Notation seqv := (seqv denote).

(* ------------------------------------------------------------------ results of finished threads *)

Lemma complete_thread : forall st i, complete st = true -> i < nthreads st -> t_calls (threads st i) = [].
Proof.
  intros st i H Hi. unfold complete in H. rewrite forallb_forall in H.
  specialize (H i). rewrite in_seq in H. specialize (H (conj (Nat.le_0_l i) Hi)).
  unfold thread_done in H. destruct (t_calls (threads st i)); [reflexivity|discriminate].
Qed.

Lemma done_results : forall st i, Inv st -> i < nthreads st -> t_calls (threads st i) = [] ->
  results st i = map seqv (nth i progs []).
Proof.
  intros st i I Hi E. destruct (inv_threads _ _ st I i Hi) as [_ [_ R]]. unfold results_ok in R.
  rewrite E in R. simpl in R. rewrite app_nil_r in R. exact R.
Qed.

(* ------------------------------------------------------------------ a thread running alone terminates *)

Definition steps_left (p : pc) : nat :=
  match p with
  | PLookup => 9 | PAcquire => 8 | PCompileCffi => 7 | PRelease => 6 | PCompileLlvm => 6
  | PInsert => 5 | PAlloc => 4 | PRun => 3 | POwn => 2 | PReturn => 1 | PError => 0
  end.

Definition work (t : thread) : nat :=
  match t_calls t with
  | [] => 0
  | _ :: rest => 10 * length rest + steps_left (t_pc t)
  end.

Lemma thread_step_other : forall st i j, j <> i -> threads (thread_step denote st i) j = threads st j.
Proof.
  intros st i j NE. apply Nat.eqb_neq in NE. unfold thread_step.
  destruct (t_calls (threads st i)) as [|c rest]; [reflexivity|].
  destruct (t_pc (threads st i)); simpl; rewrite ?NE; try reflexivity;
    repeat (match goal with
            | |- context [match ?x with _ => _ end] => destruct x
            end; simpl; rewrite ?NE; try reflexivity).
Qed.

Lemma thread_step_nthreads : forall st i, nthreads (thread_step denote st i) = nthreads st.
Proof.
  intros st i. unfold thread_step.
  destruct (t_calls (threads st i)) as [|c rest]; [reflexivity|].
  destruct (t_pc (threads st i)); simpl; try reflexivity;
    repeat (match goal with
            | |- context [match ?x with _ => _ end] => destruct x
            end; simpl; try reflexivity).
Qed.

Ltac wk_ E := cbn [threads set_thread]; rewrite ?Nat.eqb_refl; unfold work, with_method, with_pc;
  cbn [t_calls t_pc]; rewrite ?E; cbn [steps_left length]; try lia.

Lemma thread_step_work : forall st i,
  Inv st -> i < nthreads st ->
  (t_pc (threads st i) = PAcquire -> lock st = None) ->
  t_calls (threads st i) <> [] ->
  work (threads (thread_step denote st i) i) < work (threads st i).
Proof.
  intros st i IV Hi Hfree Hne. unfold thread_step.
  destruct (inv_threads _ _ st IV i Hi) as [Hm [Hs _]]. unfold method_ok, sid_ok in Hm, Hs.
  remember (threads st i) as t eqn:Et.
  destruct (t_calls t) as [|c rest] eqn:Ec; [congruence|].
  assert (W : work t = 10 * length rest + steps_left (t_pc t)) by (unfold work; now rewrite Ec).
  rewrite W. clear W.
  destruct (t_pc t) eqn:Ep; cbn [steps_left].
  - destruct (find_key (c_key c) (cache st)); wk_ Ec. destruct (k_backend (c_key c)); cbn [steps_left]; lia.
  - rewrite (Hfree eq_refl). wk_ Ec.
  - wk_ Ec.
  - wk_ Ec.
  - wk_ Ec.
  - destruct Hm as [m [Em _]]. rewrite Em. wk_ Ec.
  - wk_ Ec.
  - destruct Hm as [m [Em _]]. destruct Hs as [s [Es _]]. rewrite Em, Es. wk_ Ec.
  - destruct Hs as [s [Es [_ [Ts _]]]]. rewrite Es, Ts. wk_ Ec.
  - destruct Hs as [s [Es [_ [_ Ms]]]]. rewrite Es, Ms. wk_ Ec. destruct rest; cbn [length]; lia.
  - contradiction.
Qed.

Lemma work_zero_done : forall st i, Inv st -> i < nthreads st -> work (threads st i) = 0 -> t_calls (threads st i) = [].
Proof.
  intros st i IV Hi W. destruct (inv_threads _ _ st IV i Hi) as [Hm _]. unfold method_ok in Hm. unfold work in W.
  destruct (t_calls (threads st i)) as [|c rest]; [reflexivity|].
  destruct (t_pc (threads st i)); simpl in W; try lia; try contradiction.
Qed.

Definition others_idle (i : nat) (st : state) : Prop :=
  forall j, j <> i -> j < nthreads st -> t_pc (threads st j) = PLookup.

Lemma alone_not_blocked : forall st i, Inv st -> i < nthreads st -> others_idle i st ->
  t_pc (threads st i) = PAcquire -> lock st = None.
Proof.
  intros st i IV Hi O Ep. destruct (lock st) as [j|] eqn:L; [|reflexivity].
  destruct (inv_lock _ _ st IV j L) as [Hj C]. apply in_cs_calls in C. destruct C as [c [r [_ C]]].
  destruct (Nat.eq_dec j i) as [E|NE].
  - subst j. rewrite Ep in C. destruct C; discriminate.
  - rewrite (O j NE Hj) in C. destruct C; discriminate.
Qed.

Lemma alone_terminates : forall n st i,
  Inv st -> i < nthreads st -> others_idle i st -> work (threads st i) <= n ->
  let st' := run_from denote st (repeat (AThread i) n) in
  Inv st' /\ nthreads st' = nthreads st /\ t_calls (threads st' i) = [].
Proof.
  induction n as [|n IH]; intros st i IV Hi O W; simpl.
  - split; [exact IV|]. split; [reflexivity|]. apply work_zero_done; auto. lia.
  - assert (Hlt : Nat.ltb i (nthreads st) = true) by now apply Nat.ltb_lt. rewrite Hlt.
    assert (IV' : Inv (thread_step denote st i)) by now apply thread_step_inv.
    assert (N' : nthreads (thread_step denote st i) = nthreads st) by apply thread_step_nthreads.
    assert (O' : others_idle i (thread_step denote st i)).
    { intros j NE Hj. rewrite thread_step_other by assumption. apply O; [assumption|]. now rewrite <- N'. }
    assert (W' : work (threads (thread_step denote st i) i) <= n).
    { destruct (t_calls (threads st i)) as [|c rest] eqn:Ec.
      - unfold thread_step. rewrite Ec. unfold work. rewrite Ec. lia.
      - assert (work (threads (thread_step denote st i) i) < work (threads st i)).
        { apply thread_step_work; auto; [now apply alone_not_blocked|congruence]. }
        lia. }
    rewrite <- N' in Hi.
    destruct (IH (thread_step denote st i) i IV' Hi O' W') as [A [B C]].
    split; [exact A|]. split; [congruence|exact C].
Qed.

Lemma sequential_result_spec : forall i, i < length progs ->
  sequential_result denote progs i = map seqv (nth i progs []).
Proof.
  intros i Hi. unfold sequential_result, alone_schedule, run.
  pose proof (inv_init denote progs) as IV.
  assert (Hn : i < nthreads (init progs [])) by exact Hi.
  assert (O : others_idle i (init progs [])) by (intros j _ _; reflexivity).
  assert (W : work (threads (init progs []) i) <= call_length * length (nth i progs [])).
  { unfold work. simpl. unfold call_length. destruct (nth i progs []); simpl; lia. }
  destruct (alone_terminates _ _ i IV Hn O W) as [A [B C]].
  apply done_results; [exact A|now rewrite B|exact C].
Qed.

(* ------------------------------------------------------------------ the theorems *)

Theorem interleaving_equals_sequential : forall sched,
  complete (run denote progs sched) = true ->
  forall i, i < length progs ->
  results (run denote progs sched) i = sequential_result denote progs i.
Proof.
  intros sched Hc i Hi. pose proof (run_inv denote progs sched) as IV.
  assert (Hn : nthreads (run denote progs sched) = length progs) by apply (inv_n _ _ _ IV).
  rewrite sequential_result_spec by assumption.
  apply done_results; [exact IV|now rewrite Hn|].
  apply complete_thread; [assumption|now rewrite Hn].
Qed.

(* at every moment of every schedule: no thread has raised, and what a thread has returned so far is a
   prefix of what it returns when run alone *)
Theorem no_error_and_prefix : forall sched i, i < length progs ->
  let t := threads (run denote progs sched) i in
  (t_calls t <> [] -> t_pc t <> PError) /\
  exists rest, sequential_result denote progs i = t_results t ++ rest.
Proof.
  intros sched i Hi t. pose proof (run_inv denote progs sched) as IV.
  assert (Hn : i < nthreads (run denote progs sched)) by now rewrite (inv_n _ _ _ IV).
  destruct (inv_threads _ _ _ IV i Hn) as [Hm [_ Hr]]. fold t in Hm, Hr. split.
  - intros NE E. unfold method_ok in Hm. destruct (t_calls t); [congruence|]. now rewrite E in Hm.
  - rewrite sequential_result_spec by assumption. unfold results_ok in Hr. eexists. symmetry. exact Hr.
Qed.

(* every cache entry for key k holds the kernel of k: it computes what k's kernel computes, whichever of
   several racing misses inserted it *)
Theorem cache_sound : forall sched k m,
  In (k, m) (cache (run denote progs sched)) -> forall x, exec denote m x = denote k x.
Proof.
  intros sched k m H x. pose proof (run_inv denote progs sched) as IV.
  unfold exec. now rewrite (inv_cache _ _ _ IV k m H).
Qed.

(* the method a thread is about to call, or has called, is the kernel of ITS request *)
Theorem method_matches_request : forall sched i c rest m, i < length progs ->
  let t := threads (run denote progs sched) i in
  t_calls t = c :: rest -> t_method t = Some m ->
  (t_pc t = PAlloc \/ t_pc t = PRun \/ t_pc t = POwn \/ t_pc t = PReturn) ->
  forall x, exec denote m x = denote (c_key c) x.
Proof.
  intros sched i c rest m Hi t Ec Em Hp x. pose proof (run_inv denote progs sched) as IV.
  assert (Hn : i < nthreads (run denote progs sched)) by now rewrite (inv_n _ _ _ IV).
  destruct (inv_threads _ _ _ IV i Hn) as [Hm _]. fold t in Hm. unfold method_ok in Hm. rewrite Ec in Hm.
  unfold exec. destruct Hp as [E|[E|[E|E]]]; rewrite E in Hm; destruct Hm as [m' [Em' Cm]]; congruence.
Qed.

Theorem lock_mutual_exclusion : forall sched i j,
  i < length progs -> j < length progs ->
  in_critical_section (threads (run denote progs sched) i) = true ->
  in_critical_section (threads (run denote progs sched) j) = true ->
  i = j.
Proof.
  intros sched i j Hi Hj Ci Cj. pose proof (run_inv denote progs sched) as IV.
  rewrite <- (inv_n _ _ _ IV) in Hi, Hj.
  pose proof (inv_cs _ _ _ IV i Hi Ci) as Li. pose proof (inv_cs _ _ _ IV j Hj Cj) as Lj. congruence.
Qed.

(* the structure a thread is working on is registered in the shared table under that thread and no other
   thread is working on it *)

Lemma active_sid_owner : forall st i s, Inv st -> i < nthreads st ->
  active_sid (threads st i) = Some s -> lookup s (table st) = Some i.
Proof.
  intros st i s IV Hi H. destruct (inv_threads _ _ st IV i Hi) as [_ [Hs _]]. unfold sid_ok in Hs.
  unfold active_sid in H. destruct (t_calls (threads st i)); [discriminate|].
  destruct (t_pc (threads st i)); try discriminate.
  - destruct Hs as [s' [E [_ T]]]. congruence.
  - destruct Hs as [s' [E [_ [T _]]]]. congruence.
  - destruct Hs as [s' [E [_ [T _]]]]. congruence.
Qed.

Theorem table_disjoint : forall sched i j s,
  i < length progs -> j < length progs ->
  active_sid (threads (run denote progs sched) i) = Some s ->
  active_sid (threads (run denote progs sched) j) = Some s ->
  i = j /\ lookup s (table (run denote progs sched)) = Some i.
Proof.
  intros sched i j s Hi Hj Ai Aj. pose proof (run_inv denote progs sched) as IV.
  rewrite <- (inv_n _ _ _ IV) in Hi, Hj.
  pose proof (active_sid_owner _ i s IV Hi Ai) as Ti. pose proof (active_sid_owner _ j s IV Hj Aj) as Tj.
  split; [congruence|exact Ti].
Qed.

(* no deadlock: while some thread has work left, some thread can make a step that is not a wait *)

Theorem no_deadlock : forall sched,
  complete (run denote progs sched) = false ->
  exists i, i < length progs /\ enabled (run denote progs sched) i = true.
Proof.
  intros sched H. pose proof (run_inv denote progs sched) as IV. set (st := run denote progs sched) in *.
  unfold complete in H.
  assert (Hex : exists k, k < nthreads st /\ thread_done (threads st k) = false).
  { pose proof H as E. clear H. assert (X : exists k, In k (seq 0 (nthreads st)) /\ thread_done (threads st k) = false).
    { induction (seq 0 (nthreads st)) as [|a l IHl]; simpl in E; [discriminate|].
      destruct (thread_done (threads st a)) eqn:Ea.
      - simpl in E. destruct (IHl E) as [k [Hk Hd]]. exists k. split; [now right|assumption].
      - exists a. split; [now left|assumption]. }
    destruct X as [k [Hk Hd]]. apply in_seq in Hk. exists k. split; [lia|assumption]. }
  destruct Hex as [k [Hk Hd]]. rewrite (inv_n _ _ _ IV) in Hk.
  assert (Hkn : k < nthreads st) by now rewrite (inv_n _ _ _ IV).
  destruct (inv_threads _ _ _ IV k Hkn) as [Hm _]. unfold method_ok in Hm. unfold thread_done in Hd.
  destruct (t_calls (threads st k)) as [|c rest] eqn:Ec; [discriminate|].
  destruct (lock st) as [h|] eqn:L.
  - (* the holder of the lock is inside the critical section and can go on *)
    destruct (inv_lock _ _ _ IV h L) as [Hh C]. apply in_cs_calls in C. destruct C as [c' [r' [Ec' Ep']]].
    exists h. split; [now rewrite <- (inv_n _ _ _ IV)|]. unfold enabled. rewrite Ec', L.
    destruct Ep' as [Ep'|Ep']; now rewrite Ep'.
  - exists k. split; [assumption|]. unfold enabled. rewrite Ec, L.
    destruct (t_pc (threads st k)); try reflexivity. contradiction.
Qed.

End Thm.

(* ------------------------------------------------------------------ concrete instances *)

Definition ex_denote (k : key) (x : nat) : nat :=
  100 * k_problem k + x + match k_backend k with Llvm => 0 | Cffi => 0 end.

Definition kA := {| k_problem := 1; k_backend := Cffi |}.
Definition kB := {| k_problem := 2; k_backend := Llvm |}.

(* three threads: two race on the same never-seen cffi problem, the third mixes both problems *)
Definition ex_progs : list (list call) :=
  [ [ {| c_key := kA; c_input := 1 |}; {| c_key := kB; c_input := 2 |} ];
    [ {| c_key := kA; c_input := 3 |} ];
    [ {| c_key := kB; c_input := 4 |}; {| c_key := kA; c_input := 5 |} ] ].

(* a round-robin schedule with an eviction in the middle *)
Definition ex_sched : list action :=
  concat (repeat [AThread 0; AThread 1; AThread 2] 6) ++ [AEvict kA] ++
  concat (repeat [AThread 2; AThread 1; AThread 0; AThread 0] 12).

Example ex_complete : complete (run ex_denote ex_progs ex_sched) = true.
Proof. vm_compute. reflexivity. Qed.

Example ex_results :
  map (results (run ex_denote ex_progs ex_sched)) [0; 1; 2] = [[101; 202]; [103]; [204; 105]].
Proof. vm_compute. reflexivity. Qed.

Example ex_sequential :
  map (sequential_result ex_denote ex_progs) [0; 1; 2] = [[101; 202]; [103]; [204; 105]].
Proof. vm_compute. reflexivity. Qed.

(* both racing threads missed the cache and both compiled (thread 1 waited for the lock meanwhile) *)
Example ex_race :
  let st := run ex_denote ex_progs (concat (repeat [AThread 0; AThread 1] 3)) in
  (t_pc (threads st 0), t_pc (threads st 1), lock st) = (PRelease, PAcquire, Some 0).
Proof. vm_compute. reflexivity. Qed.

(* The model can exhibit the faults the theorems exclude.  A protocol that shares one output structure
   between calls (a TensorMethod that caches its allocated output) returns a corrupted result under an
   interleaving: thread 0 allocates, thread 1 re-uses the same structure and overwrites it. *)
Definition shared_output_run (x0 x1 : nat) : nat * nat :=
  (* both calls write into structure 0; each returns what the structure holds when it returns *)
  let mem1 := [(0, ex_denote kB x0)] in            (* thread 0 ran its kernel *)
  let mem2 := (0, ex_denote kB x1) :: mem1 in      (* thread 1 ran its kernel into the same structure *)
  (match lookup 0 mem2 with Some v => v | None => 0 end,   (* thread 0 returns *)
   match lookup 0 mem2 with Some v => v | None => 0 end).  (* thread 1 returns *)

Example mutant_shared_output : shared_output_run 1 2 = (202, 202) /\ ex_denote kB 1 = 201.
Proof. vm_compute. tauto. Qed.
