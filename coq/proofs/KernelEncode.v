(** C01G -- [Kernel.encode]: the arrays built level by level from an output trie are a
    well-formed stored tensor (C02's [wf_tensorb]) whose [walk] lists exactly the root-to-leaf
    paths of the trie, in order. *)

From Coq Require Import ZArith List Bool Lia ZifyBool Permutation.
From Coq Require String.
From TV Require Import spec.Storage spec.Spec proofs.StorageLemmas proofs.StorageWf
                       model.Exhaust model.DesugarSemGraph model.Kernel proofs.KernelLocate.
Import ListNotations.
Local Open Scope Z_scope.

(** * induction principle for tries *)

Section TrieInd.
Variable P : trie -> Prop.
Hypothesis Hl : forall v, P (TLeaf v).
Hypothesis Hn : forall kids, Forall (fun ct => P (snd ct)) kids -> P (TNode kids).

Fixpoint trie_ind' (t : trie) : P t :=
  match t with
  | TLeaf v => Hl v
  | TNode kids =>
      Hn kids ((fix go (l : list (Z * trie)) : Forall (fun ct => P (snd ct)) l :=
                  match l with
                  | [] => Forall_nil _
                  | ct :: r => Forall_cons ct (trie_ind' (snd ct)) (go r)
                  end) kids)
  end.
End TrieInd.

(** * paths and well-shapedness *)

(** root-to-leaf paths (level-order coordinate, leaf value) in storage order *)
Fixpoint paths (t : trie) : list (list Z * Z) :=
  match t with
  | TLeaf v => [([], v)]
  | TNode kids =>
      (fix go (l : list (Z * trie)) : list (list Z * Z) :=
         match l with
         | [] => []
         | ct :: r => map (cons_hd (fst ct)) (paths (snd ct)) ++ go r
         end) kids
  end.

Lemma paths_node kids :
  paths (TNode kids) = flat_map (fun ct => map (cons_hd (fst ct)) (paths (snd ct))) kids.
Proof. induction kids as [|ct r IH]; [reflexivity|]. cbn [paths flat_map] in *. now rewrite IH. Qed.

(** [twf ms t]: [t] has the shape the levels [ms] (mode, dimension) demand *)
Fixpoint twf (ms : list (mode * Z)) (t : trie) : Prop :=
  match ms with
  | [] => exists v, t = TLeaf v
  | (m, d) :: r =>
      exists kids, t = TNode kids
        /\ match m with
           | MDense => map fst kids = zrange d
           | MCompressed => strictly_increasing (map fst kids) = true
                            /\ Forall (fun c => 0 <= c < d) (map fst kids)
           end
        /\ Forall (twf r) (map snd kids)
  end.

(** * offsets into a [flat_map] *)

Section Off.
Context {A B : Type}.
Variable f : A -> list B.

Definition off (nodes : list A) (a : nat) : nat := length (flat_map f (firstn a nodes)).

Lemma off_0 nodes : off nodes 0 = O.
Proof. reflexivity. Qed.

Lemma off_S nodes a da : (a < length nodes)%nat ->
  off nodes (S a) = (off nodes a + length (f (nth a nodes da)))%nat.
Proof.
  revert a. induction nodes as [|x nodes IH]; intros a H; [cbn in H; lia|].
  destruct a as [|a].
  - unfold off. cbn. rewrite app_nil_r. lia.
  - cbn [length] in H. pose proof (IH a ltac:(lia)) as E. unfold off in *.
    change (firstn (S (S a)) (x :: nodes)) with (x :: firstn (S a) nodes).
    change (firstn (S a) (x :: nodes)) with (x :: firstn a nodes).
    cbn [flat_map nth]. rewrite !app_length, E. lia.
Qed.

Lemma off_all nodes : off nodes (length nodes) = length (flat_map f nodes).
Proof. unfold off. now rewrite firstn_all. Qed.

Lemma off_mono nodes a b : (a <= b)%nat -> (off nodes a <= off nodes b)%nat.
Proof.
  intros H. unfold off. rewrite <- (firstn_skipn a (firstn b nodes)).
  rewrite firstn_firstn, Nat.min_l by exact H. rewrite flat_map_app, app_length. lia.
Qed.

Lemma nth_flat_map_off nodes a i da db :
  (a < length nodes)%nat -> (i < length (f (nth a nodes da)))%nat ->
  nth (off nodes a + i) (flat_map f nodes) db = nth i (f (nth a nodes da)) db.
Proof.
  revert a. induction nodes as [|x nodes IH]; intros a Ha Hi; [cbn in Ha; lia|].
  destruct a as [|a].
  - unfold off. cbn [firstn flat_map length nth plus] in *. now rewrite app_nth1.
  - unfold off in *. cbn [firstn flat_map nth] in *. rewrite app_length.
    rewrite app_nth2 by lia.
    replace (length (f x) + length (flat_map f (firstn a nodes)) + i - length (f x))%nat
      with (length (flat_map f (firstn a nodes)) + i)%nat by lia.
    apply IH; [cbn in Ha; lia|exact Hi].
Qed.

Lemma off_const nodes d a :
  Forall (fun x => length (f x) = d) nodes -> (a <= length nodes)%nat -> off nodes a = (a * d)%nat.
Proof.
  intros H. revert a. induction H as [|x nodes Hx H IH]; intros a Ha.
  - destruct a; [reflexivity|cbn in Ha; lia].
  - destruct a as [|a]; [reflexivity|]. unfold off in *. cbn [firstn flat_map]. rewrite app_length.
    cbn [length] in Ha. rewrite IH by lia. lia.
Qed.

End Off.

(** the position array of a compressed level *)
Lemma cum_length a l : length (cum a l) = length l.
Proof. revert a. induction l as [|n l IH]; intros a; [reflexivity|]. cbn. now rewrite IH. Qed.

Lemma cum_nth {A B} (f : A -> list B) (nodes : list A) : forall acc a,
  (a <= length nodes)%nat ->
  nth a (acc :: cum acc (map (fun n => zlen (f n)) nodes)) 0 = acc + Z.of_nat (off f nodes a).
Proof.
  induction nodes as [|x nodes IH]; intros acc a Ha.
  - destruct a; [cbn; unfold off; cbn; lia|cbn in Ha; lia].
  - destruct a as [|a]; [cbn; unfold off; cbn; lia|].
    change (nth (S a) (acc :: cum acc (map (fun n => zlen (f n)) (x :: nodes))) 0)
      with (nth a ((acc + zlen (f x)) :: cum (acc + zlen (f x)) (map (fun n => zlen (f n)) nodes)) 0).
    rewrite IH by (cbn in Ha; lia).
    unfold off. cbn [firstn flat_map]. rewrite app_length. unfold zlen. lia.
Qed.

(** * facts about one level of nodes *)

Definition dims_nonneg (ms : list (mode * Z)) : Prop := Forall (fun md => 0 <= snd md) ms.

Definition dflt_kid : Z * trie := (0, TLeaf 0).

Lemma twf_kids m d r nodes :
  Forall (twf ((m, d) :: r)) nodes -> Forall (twf r) (map snd (flat_map kids_of nodes)).
Proof.
  intros H. apply Forall_forall. intros t Ht. apply in_map_iff in Ht. destruct Ht as (ct & <- & Hct).
  apply in_flat_map in Hct. destruct Hct as (n & Hn & Hct).
  rewrite Forall_forall in H. specialize (H n Hn). cbn [twf] in H.
  destruct H as (kids & -> & _ & Hk). cbn [kids_of] in Hct.
  rewrite Forall_forall in Hk. apply Hk. now apply in_map.
Qed.

Lemma twf_dense_count d r nodes : 0 <= d ->
  Forall (twf ((MDense, d) :: r)) nodes -> Forall (fun n => length (kids_of n) = Z.to_nat d) nodes.
Proof.
  intros Hd H. eapply Forall_impl; [|exact H]. intros n Hn. cbn [twf] in Hn.
  destruct Hn as (kids & -> & Hk & _). cbn [kids_of].
  rewrite <- (map_length fst), Hk. apply zrange_length.
Qed.

Lemma nth_kids_of_in nodes a i :
  (a < length nodes)%nat -> (i < length (kids_of (nth a nodes (TLeaf 0))))%nat ->
  In (nth i (kids_of (nth a nodes (TLeaf 0))) dflt_kid) (flat_map kids_of nodes).
Proof.
  intros Ha Hi. apply in_flat_map. exists (nth a nodes (TLeaf 0)). split; apply nth_In; assumption.
Qed.

(** * the encoded levels are well-formed *)

Lemma enc_levels_length ms : forall nodes, length (fst (enc_levels ms nodes)) = length ms.
Proof.
  induction ms as [|m ms IH]; intros nodes; [reflexivity|].
  cbn [enc_levels]. specialize (IH (map snd (flat_map kids_of nodes))).
  destruct (enc_levels ms (map snd (flat_map kids_of nodes))) as [lv vs].
  destruct m; cbn [fst length] in *; now rewrite IH.
Qed.

Lemma enc_wf ms : forall nodes,
  dims_nonneg ms -> Forall (twf ms) nodes ->
  wf_levels (combine (fst (enc_levels (map fst ms) nodes)) (map snd ms)) (zlen nodes)
            (zlen (snd (enc_levels (map fst ms) nodes))).
Proof.
  induction ms as [|[m d] ms IH]; intros nodes Dn H.
  - cbn. now rewrite zlen_map.
  - inversion Dn as [|? ? Hd Dn']; subst. cbn [snd] in Hd.
    pose proof (twf_kids _ _ _ _ H) as Hk.
    specialize (IH (map snd (flat_map kids_of nodes)) Dn' Hk).
    cbn [map fst snd enc_levels].
    destruct (enc_levels (map fst ms) (map snd (flat_map kids_of nodes))) as [lv vs].
    cbn [fst snd] in IH. destruct m; cbn [fst snd combine wf_levels].
    + split; [exact Hd|].
      replace (zlen nodes * d) with (zlen (map snd (flat_map kids_of nodes))); [exact IH|].
      rewrite zlen_map. unfold zlen. rewrite <- (off_all kids_of).
      rewrite (off_const kids_of nodes (Z.to_nat d)); [lia|eapply twf_dense_count; eauto|lia].
    + split; [|rewrite zlen_map; rewrite zlen_map in IH; exact IH].
      set (pos := 0 :: cum 0 (map (fun n => zlen (kids_of n)) nodes)).
      assert (forall a, (a <= length nodes)%nat -> nthZ 0 pos (Z.of_nat a) = Z.of_nat (off kids_of nodes a)) as Pn.
      { intros a Ha. rewrite nthZ_of_nat. unfold pos. rewrite cum_nth by exact Ha. lia. }
      assert (zlen pos = zlen nodes + 1) as Lp.
      { unfold pos, zlen. cbn [length]. rewrite cum_length, map_length. lia. }
      repeat split.
      * exact Lp.
      * intros i Hi. replace i with (Z.of_nat (Z.to_nat i)) by lia.
        replace (Z.of_nat (Z.to_nat i) + 1) with (Z.of_nat (S (Z.to_nat i))) by lia.
        unfold zlen in Hi. rewrite !Pn by lia.
        pose proof (off_mono kids_of nodes (Z.to_nat i) (S (Z.to_nat i)) ltac:(lia)). lia.
      * rewrite (nthZ_indep (-1) 0) by (pose proof (zlen_nonneg nodes); lia).
        unfold zlen at 1. rewrite Pn by lia. rewrite off_all. unfold zlen. now rewrite map_length.
      * intros p q Hp Hq1 Hq2. unfold zlen in Hp.
        set (a := Z.to_nat p). replace p with (Z.of_nat a) in * by lia.
        replace (Z.of_nat a + 1) with (Z.of_nat (S a)) in Hq2 by lia.
        rewrite Pn in Hq1, Hq2 by lia.
        rewrite (off_S kids_of nodes a (TLeaf 0)) in Hq2 by lia.
        assert (exists i : nat, q = Z.of_nat (off kids_of nodes a + i)
                  /\ (S i < length (kids_of (nth a nodes (TLeaf 0))))%nat) as (i & -> & Hi).
        { exists (Z.to_nat (q - Z.of_nat (off kids_of nodes a))). lia. }
        replace (Z.of_nat (off kids_of nodes a + i) + 1) with (Z.of_nat (off kids_of nodes a + S i)) by lia.
        rewrite !nthZ_of_nat.
        rewrite !(nth_indep (map fst (flat_map kids_of nodes)) (-1) (fst dflt_kid))
          by (rewrite map_length, <- (off_all kids_of);
              pose proof (off_mono kids_of nodes (S a) (length nodes) ltac:(lia));
              rewrite (off_S kids_of nodes a (TLeaf 0)) in * by lia; lia).
        rewrite !map_nth.
        rewrite !(nth_flat_map_off kids_of nodes a _ (TLeaf 0)) by lia.
        rewrite Forall_forall in H. specialize (H (nth a nodes (TLeaf 0)) ltac:(apply nth_In; lia)).
        cbn [twf] in H. destruct H as (kids & E & [Hs _] & _). rewrite E in *. cbn [kids_of] in *.
        rewrite strictly_increasing_nth in Hs. specialize (Hs i). rewrite map_length in Hs.
        rewrite <- !(map_nth fst). cbn [fst dflt_kid]. apply Hs. lia.
      * apply in_map_iff in H0. destruct H0 as (ct & <- & Hct).
        apply in_flat_map in Hct. destruct Hct as (n & Hn & Hct).
        rewrite Forall_forall in H. specialize (H n Hn). cbn [twf] in H.
        destruct H as (kids & -> & [_ Hr] & _). cbn [kids_of] in Hct.
        rewrite Forall_forall in Hr. apply (Hr (fst ct)). now apply in_map.
      * apply in_map_iff in H0. destruct H0 as (ct & <- & Hct).
        apply in_flat_map in Hct. destruct Hct as (n & Hn & Hct).
        rewrite Forall_forall in H. specialize (H n Hn). cbn [twf] in H.
        destruct H as (kids & -> & [_ Hr] & _). cbn [kids_of] in Hct.
        rewrite Forall_forall in Hr. apply (Hr (fst ct)). now apply in_map.
Qed.

(** * [walk] over the encoded levels lists the paths *)

Definition tag (vs : list Z) (cq : list Z * Z) : list Z * Z := (fst cq, nthZ 0 vs (snd cq)).

Lemma tag_cons_hd vs i l : map (tag vs) (map (cons_hd i) l) = map (cons_hd i) (map (tag vs) l).
Proof. rewrite !map_map. apply map_ext. intros [c q]. reflexivity. Qed.

(** the paths of a node, reindexed by the positions of its children *)
Lemma paths_by_index kids (X : Z -> list (list Z * Z)) :
  (forall i, 0 <= i < zlen kids ->
     X i = map (cons_hd (fst (nthZ dflt_kid kids i))) (paths (snd (nthZ dflt_kid kids i)))) ->
  flat_map X (zrange (zlen kids)) = paths (TNode kids).
Proof.
  intros H. rewrite paths_node.
  rewrite <- (map_nthZ_zrange dflt_kid kids) at 2. rewrite flat_map_map.
  apply flat_map_ext_in. intros i Hi. apply In_zrange in Hi. now apply H.
Qed.

Lemma enc_walk ms : forall nodes a,
  dims_nonneg ms -> Forall (twf ms) nodes -> (a < length nodes)%nat ->
  map (tag (snd (enc_levels (map fst ms) nodes)))
      (walk (combine (fst (enc_levels (map fst ms) nodes)) (map snd ms)) (Z.of_nat a) [])
  = paths (nth a nodes (TLeaf 0)).
Proof.
  induction ms as [|[m d] ms IH]; intros nodes a Dn H Ha.
  - cbn. unfold tag. cbn [fst snd]. rewrite nthZ_of_nat.
    rewrite Forall_forall in H. destruct (H (nth a nodes (TLeaf 0)) ltac:(apply nth_In; lia)) as (v & E).
    replace (nth a (map leaf_of nodes) 0) with (leaf_of (nth a nodes (TLeaf 0)))
      by (symmetry; apply (map_nth leaf_of nodes (TLeaf 0))).
    rewrite E. reflexivity.
  - inversion Dn as [|? ? Hd Dn']; subst. cbn [snd] in Hd.
    pose proof (twf_kids _ _ _ _ H) as Hk.
    specialize (IH (map snd (flat_map kids_of nodes))).
    cbn [map fst snd enc_levels].
    destruct (enc_levels (map fst ms) (map snd (flat_map kids_of nodes))) as [lv vs] eqn:E.
    cbn [fst snd] in IH.
    pose proof H as H'. rewrite Forall_forall in H'.
    specialize (H' (nth a nodes (TLeaf 0)) ltac:(apply nth_In; lia)). cbn [twf] in H'.
    destruct H' as (ka & Eka & Hkeys & _).
    assert (forall i : nat, (i < length ka)%nat ->
              map (tag vs) (walk (combine lv (map snd ms)) (Z.of_nat (off kids_of nodes a + i)) [])
              = paths (snd (nth i ka dflt_kid))) as Child.
    { intros i Hi. rewrite IH; [|exact Dn'|exact Hk|].
      - change (TLeaf 0) with (snd dflt_kid). rewrite map_nth.
        rewrite (nth_flat_map_off kids_of nodes a i (TLeaf 0)) by (rewrite ?Eka; cbn [kids_of]; lia).
        rewrite Eka. reflexivity.
      - rewrite map_length, <- (off_all kids_of).
        pose proof (off_mono kids_of nodes (S a) (length nodes) ltac:(lia)).
        rewrite (off_S kids_of nodes a (TLeaf 0)) in * by lia. rewrite Eka in *. cbn [kids_of] in *. lia. }
    rewrite Eka. rewrite <- paths_by_index with
      (X := fun i => map (cons_hd (fst (nthZ dflt_kid ka i)))
                         (map (tag vs) (walk (combine lv (map snd ms))
                                             (Z.of_nat (off kids_of nodes a) + i) []))).
    2:{ intros i Hi. f_equal. replace i with (Z.of_nat (Z.to_nat i)) at 1 by lia.
        rewrite <- Nat2Z.inj_add. rewrite Child by (unfold zlen in Hi; lia).
        now rewrite nthZ_nonneg by lia. }
    destruct m; cbn [fst snd combine walk].
    + (* dense *)
      assert (length ka = Z.to_nat d) as Lk by (rewrite <- (map_length fst), Hkeys; apply zrange_length).
      assert (off kids_of nodes a = (a * Z.to_nat d)%nat) as Eo.
      { apply off_const; [eapply twf_dense_count; eauto|lia]. }
      rewrite map_flat_map. unfold zlen. rewrite Lk, Z2Nat.id by lia.
      apply flat_map_ext_in. intros i Hi. apply In_zrange in Hi.
      rewrite walk_cons_hd, tag_cons_hd. f_equal.
      * f_equal. rewrite nthZ_nonneg by lia. rewrite <- (map_nth fst), Hkeys. cbn [fst dflt_kid].
        unfold zrange. change 0 with (Z.of_nat 0). rewrite map_nth, seq_nth by lia. lia.
      * f_equal. f_equal. rewrite Eo. nia.
    + (* compressed *)
      set (pos := 0 :: cum 0 (map (fun n => zlen (kids_of n)) nodes)).
      assert (forall b, (b <= length nodes)%nat -> nthZ 0 pos (Z.of_nat b) = Z.of_nat (off kids_of nodes b)) as Pn.
      { intros b Hb. rewrite nthZ_of_nat. unfold pos. rewrite cum_nth by exact Hb. lia. }
      replace (Z.of_nat a + 1) with (Z.of_nat (S a)) by lia. rewrite !Pn by lia.
      rewrite (off_S kids_of nodes a (TLeaf 0)) by lia. rewrite Eka. cbn [kids_of].
      rewrite map_flat_map, zrange2_shift.
      replace (Z.of_nat (off kids_of nodes a + length ka) - Z.of_nat (off kids_of nodes a)) with (zlen ka)
        by (unfold zlen; lia).
      rewrite flat_map_map. apply flat_map_ext_in. intros i Hi. apply In_zrange in Hi.
      rewrite walk_cons_hd, tag_cons_hd. f_equal.
      replace i with (Z.of_nat (Z.to_nat i)) at 1 2 by lia. rewrite <- Nat2Z.inj_add, nthZ_of_nat.
      rewrite (nth_indep _ (-1) (fst dflt_kid)).
      2:{ rewrite map_length, <- (off_all kids_of).
          pose proof (off_mono kids_of nodes (S a) (length nodes) ltac:(lia)).
          rewrite (off_S kids_of nodes a (TLeaf 0)) in * by lia. rewrite Eka in *. cbn [kids_of] in *.
          unfold zlen in Hi. lia. }
      rewrite map_nth.
      rewrite (nth_flat_map_off kids_of nodes a _ (TLeaf 0)) by (rewrite ?Eka; cbn [kids_of]; unfold zlen in Hi; lia).
      rewrite Eka. cbn [kids_of]. now rewrite nthZ_of_nat.
Qed.

(** * reading a trie *)

(** the value stored under a level-order coordinate (0 when none) *)
Fixpoint tval (lc : list Z) (t : trie) : Z :=
  match lc with
  | [] => leaf_of t
  | c :: r =>
      match find (fun ct => fst ct =? c) (kids_of t) with
      | Some ct => tval r (snd ct)
      | None => 0
      end
  end.

Lemma abs_entries_app (l1 l2 : list (list Z * Z)) c :
  abs_entries (O := ZOps) (l1 ++ l2) c = abs_entries (O := ZOps) l1 c + abs_entries (O := ZOps) l2 c.
Proof.
  induction l1 as [|[c' v] l1 IH]; [cbn [app]; rewrite abs_entries_nil; lia|].
  cbn [app]. rewrite !abs_entries_cons, IH. destruct (coord_eqb c' c); lia.
Qed.

Lemma abs_entries_cons_hd c' P lc :
  abs_entries (O := ZOps) (map (cons_hd c') P) lc
  = match lc with
    | [] => 0
    | c :: r => if c' =? c then abs_entries (O := ZOps) P r else 0
    end.
Proof.
  induction P as [|[p v] P IH]; [destruct lc as [|c r]; [reflexivity|now destruct (c' =? c)]|].
  cbn [map]. unfold cons_hd at 1. cbn [fst snd]. rewrite abs_entries_cons, IH.
  destruct lc as [|c r]; [reflexivity|]. cbn [coord_eqb]. rewrite abs_entries_cons.
  destruct (c' =? c); cbn [andb]; [reflexivity|lia].
Qed.

Lemma twf_keys_nodup m d r kids :
  twf ((m, d) :: r) (TNode kids) -> NoDup (map fst kids).
Proof.
  cbn [twf]. intros (k' & E & Hk & _). inversion E; subst k'. destruct m.
  - rewrite Hk. apply NoDup_zrange.
  - now apply strictly_increasing_NoDup.
Qed.

Lemma abs_flat_notin (kids : list (Z * trie)) c r :
  ~ In c (map fst kids) ->
  abs_entries (O := ZOps) (flat_map (fun ct => map (cons_hd (fst ct)) (paths (snd ct))) kids) (c :: r) = 0.
Proof.
  induction kids as [|ct kids IH]; intros Hn; [reflexivity|].
  cbn [flat_map]. rewrite abs_entries_app, abs_entries_cons_hd.
  destruct (fst ct =? c) eqn:E.
  - exfalso. apply Hn. apply Z.eqb_eq in E. rewrite <- E. now left.
  - rewrite IH; [lia|]. intros Hin. apply Hn. now right.
Qed.

Lemma paths_tval ms : forall t lc, twf ms t -> abs_entries (O := ZOps) (paths t) lc = tval lc t.
Proof.
  induction ms as [|[m d] ms IH]; intros t lc H.
  - destruct H as (v & ->). cbn [paths]. rewrite abs_entries_cons, abs_entries_nil.
    destruct lc as [|c r]; cbn; lia.
  - pose proof H as H0. cbn [twf] in H. destruct H as (kids & -> & _ & Hk).
    pose proof (twf_keys_nodup _ _ _ _ H0) as ND. clear H0.
    rewrite paths_node. destruct lc as [|c r].
    + cbn [tval leaf_of]. clear ND Hk. induction kids as [|ct kids IHk]; [reflexivity|].
      cbn [flat_map]. rewrite abs_entries_app, abs_entries_cons_hd, IHk. reflexivity.
    + cbn [tval kids_of]. induction kids as [|ct kids IHk]; [reflexivity|].
      cbn [map fst] in ND. inversion ND as [|? ? Hn ND']; subst.
      cbn [map snd] in Hk. inversion Hk as [|? ? Hc Hk']; subst.
      cbn [flat_map find]. rewrite abs_entries_app, abs_entries_cons_hd.
      destruct (fst ct =? c) eqn:Ec.
      * rewrite (IH _ _ Hc).
        assert (abs_entries (O := ZOps) (flat_map (fun ct0 => map (cons_hd (fst ct0)) (paths (snd ct0))) kids) (c :: r) = 0) as ->; [|lia].
        apply Z.eqb_eq in Ec. subst c. now apply abs_flat_notin.
      * rewrite IHk by assumption. lia.
Qed.

(** * the encoded tensor *)

Definition cfg_ok (cfg : kcfg) : Prop :=
  length (k_oidx cfg) = length (k_oord cfg)
  /\ length (k_omodes cfg) = length (k_oord cfg)
  /\ is_permb (k_oord cfg) = true
  /\ Forall (fun k => 0 <= k_sizes cfg k) (k_oidx cfg).

(** the levels of the output: (mode, dimension) in level order *)
Definition olevels (cfg : kcfg) : list (mode * Z) :=
  combine (k_omodes cfg) (map (k_sizes cfg) (k_oidx cfg)).

Lemma encode_fields cfg t :
  dims (encode cfg t) = odims cfg /\ ordering (encode cfg t) = k_oord cfg
  /\ levels (encode cfg t) = fst (enc_levels (k_omodes cfg) [t])
  /\ vals (encode cfg t) = snd (enc_levels (k_omodes cfg) [t]).
Proof. unfold encode. destruct (enc_levels (k_omodes cfg) [t]); repeat split. Qed.

Lemma olevels_fst cfg : cfg_ok cfg -> map fst (olevels cfg) = k_omodes cfg.
Proof.
  intros (L1 & L2 & _). unfold olevels. apply combine_map_fst. rewrite map_length. lia.
Qed.

Lemma olevels_snd cfg : cfg_ok cfg -> map snd (olevels cfg) = map (k_sizes cfg) (k_oidx cfg).
Proof.
  intros (L1 & L2 & _). unfold olevels. apply combine_map_snd. rewrite map_length. lia.
Qed.

Lemma olevels_nonneg cfg : cfg_ok cfg -> dims_nonneg (olevels cfg).
Proof.
  intros C. pose proof (olevels_snd cfg C) as E. destruct C as (_ & _ & _ & Hs).
  unfold dims_nonneg. apply Forall_forall. intros md Hmd.
  assert (In (snd md) (map snd (olevels cfg))) as Hin by (now apply in_map).
  rewrite E in Hin. apply in_map_iff in Hin. destruct Hin as (k & <- & Hk).
  rewrite Forall_forall in Hs. now apply Hs.
Qed.

Lemma level_dims_encode cfg t :
  cfg_ok cfg -> level_dims (encode cfg t) = map (k_sizes cfg) (k_oidx cfg).
Proof.
  intros (L1 & L2 & P & _). destruct (encode_fields cfg t) as (Ed & Eo & _).
  unfold level_dims. rewrite Ed, Eo. unfold odims.
  apply nth_ext with (d := 0) (d' := 0); [rewrite !map_length; lia|].
  intros l Hl. rewrite map_length in Hl.
  rewrite (nth_map_lt _ _ _ _ O) by exact Hl.
  rewrite (nth_map_lt _ _ _ _ String.EmptyString) by lia.
  pose proof (is_permb_nth_lt _ l P Hl) as Hlt.
  rewrite (nth_map_lt _ _ _ _ O) by (rewrite seq_length; exact Hlt).
  rewrite seq_nth by exact Hlt. cbn [plus].
  rewrite index_of_nth; [reflexivity|apply is_permb_NoDup; assumption|assumption].
Qed.

Theorem encode_wf cfg t :
  cfg_ok cfg -> twf (olevels cfg) t -> wf_tensorb true (encode cfg t) = true.
Proof.
  intros C H. apply wf_tensorb_spec. pose proof C as (L1 & L2 & P & Hs).
  destruct (encode_fields cfg t) as (Ed & Eo & El & Ev).
  pose proof (enc_wf (olevels cfg) [t] (olevels_nonneg cfg C) (Forall_cons _ H (Forall_nil _))) as W.
  rewrite (olevels_fst cfg C), (olevels_snd cfg C) in W.
  split.
  - unfold wf_shape. rewrite Ed, Eo, El. repeat split.
    + unfold odims. now rewrite map_length, seq_length.
    + rewrite enc_levels_length. exact L2.
    + now apply is_permb_Permutation.
    + unfold odims. apply Forall_forall. intros x Hx. apply in_map_iff in Hx.
      destruct Hx as (dd & <- & Hd). apply in_seq in Hd.
      rewrite Forall_forall in Hs. apply Hs. apply nth_In.
      pose proof (index_of_In dd (k_oord cfg)) as Hi.
      rewrite L1. apply Hi. apply (is_permb_In _ P). lia.
  - exists (zlen (snd (enc_levels (k_omodes cfg) [t]))). split.
    + rewrite level_dims_encode by exact C. rewrite El. exact W.
    + now rewrite Ev.
Qed.

Lemma paths_length ms : forall t c v, twf ms t -> In (c, v) (paths t) -> length c = length ms.
Proof.
  induction ms as [|[m d] ms IH]; intros t c v H Hin.
  - destruct H as (v' & ->). cbn in Hin. destruct Hin as [E|[]]. now inversion E.
  - cbn [twf] in H. destruct H as (kids & -> & _ & Hk). rewrite paths_node in Hin.
    apply in_flat_map in Hin. destruct Hin as (ct & Hct & Hin).
    apply in_map_iff in Hin. destruct Hin as ([c' v'] & E & Hin). inversion E; subst.
    cbn [length]. f_equal. apply (IH (snd ct) c' v); [|exact Hin].
    rewrite Forall_forall in Hk. apply Hk. now apply in_map.
Qed.

Theorem encode_entries cfg t :
  cfg_ok cfg -> twf (olevels cfg) t ->
  entries 0 (encode cfg t) = map (fun cv => (to_dim_order (k_oord cfg) (fst cv), snd cv)) (paths t).
Proof.
  intros C H. destruct (encode_fields cfg t) as (Ed & Eo & El & Ev).
  pose proof (enc_walk (olevels cfg) [t] O (olevels_nonneg cfg C)
                       (Forall_cons _ H (Forall_nil _)) ltac:(cbn; lia)) as W.
  rewrite (olevels_fst cfg C), (olevels_snd cfg C) in W. cbn [nth Z.of_nat] in W.
  unfold entries. rewrite level_dims_encode by exact C. rewrite El, Ev, Eo, <- W, map_map.
  apply map_ext. intros [lc p]. reflexivity.
Qed.

Lemma abs_entries_to_dim ord (P : list (list Z * Z)) lc :
  is_permb ord = true -> length lc = length ord ->
  (forall c v, In (c, v) P -> length c = length ord) ->
  abs_entries (O := ZOps) (map (fun cv => (to_dim_order ord (fst cv), snd cv)) P) (to_dim_order ord lc)
  = abs_entries (O := ZOps) P lc.
Proof.
  intros Pm L HP. induction P as [|[c v] P IH]; [reflexivity|].
  cbn [map fst snd]. rewrite !abs_entries_cons, IH by (intros c' v' Hin; apply (HP c' v'); now right).
  destruct (coord_eqb c lc) eqn:E.
  - apply coord_eqb_eq in E. subst. now rewrite coord_eqb_refl.
  - destruct (coord_eqb (to_dim_order ord c) (to_dim_order ord lc)) eqn:E'; [|reflexivity].
    apply coord_eqb_eq in E'. apply to_dim_order_inj in E'; auto.
    + subst. rewrite coord_eqb_refl in E. discriminate.
    + apply (HP c v). now left.
Qed.

(** the abstraction of the encoded tensor is the trie read by level-order coordinates *)
Theorem encode_abs cfg t lc :
  cfg_ok cfg -> twf (olevels cfg) t -> length lc = length (k_oord cfg) ->
  abs_tensor (O := ZOps) (encode cfg t) (to_dim_order (k_oord cfg) lc) = tval lc t.
Proof.
  intros C H L. unfold abs_tensor. rewrite encode_entries by assumption.
  pose proof C as (L1 & L2 & P & _).
  rewrite abs_entries_to_dim; [now apply (paths_tval (olevels cfg))|exact P|exact L|].
  intros c v Hin. rewrite (paths_length (olevels cfg) t c v H Hin).
  unfold olevels. rewrite combine_length, map_length. lia.
Qed.

(** * the prefixes stored by the first [k] levels are the nodes of the trie at depth [k] *)

Fixpoint tnode_at (p : list Z) (t : trie) : option trie :=
  match p with
  | [] => Some t
  | c :: r =>
      match find (fun ct : Z * trie => fst ct =? c) (kids_of t) with
      | Some ct => tnode_at r (snd ct)
      | None => None
      end
  end.

(** cut the trie at depth [k] *)
Fixpoint trunc (k : nat) (t : trie) : trie :=
  match k with
  | O => TLeaf 0
  | S k' =>
      match t with
      | TLeaf v => TLeaf v
      | TNode kids => TNode (map (fun ct => (fst ct, trunc k' (snd ct))) kids)
      end
  end.

Lemma kids_of_trunc k t :
  kids_of (trunc (S k) t) = map (fun ct => (fst ct, trunc k (snd ct))) (kids_of t).
Proof. destruct t; reflexivity. Qed.

Lemma flat_map_kids_trunc k nodes :
  flat_map kids_of (map (trunc (S k)) nodes)
  = map (fun ct => (fst ct, trunc k (snd ct))) (flat_map kids_of nodes).
Proof.
  induction nodes as [|n nodes IH]; [reflexivity|]. cbn [map flat_map].
  now rewrite map_app, IH, kids_of_trunc.
Qed.

Lemma enc_levels_trunc k : forall ms nodes,
  firstn k (fst (enc_levels ms nodes)) = fst (enc_levels (firstn k ms) (map (trunc k) nodes)).
Proof.
  induction k as [|k IH]; intros ms nodes; [reflexivity|].
  destruct ms as [|m ms]; [reflexivity|]. cbn [firstn enc_levels].
  rewrite flat_map_kids_trunc, !map_map. cbn [fst snd].
  specialize (IH ms (map snd (flat_map kids_of nodes))). rewrite map_map in IH.
  destruct (enc_levels ms (map snd (flat_map kids_of nodes))) as [lv vs].
  destruct (enc_levels (firstn k ms) (map (fun x => trunc k (snd x)) (flat_map kids_of nodes))) as [lv' vs'].
  cbn [fst] in IH. destruct m; cbn [fst firstn]; rewrite IH; [reflexivity|]. f_equal. f_equal. f_equal. f_equal.
  apply map_ext. intros n. rewrite kids_of_trunc. unfold zlen. now rewrite map_length.
Qed.

Lemma twf_trunc k : forall ms t, twf ms t -> twf (firstn k ms) (trunc k t).
Proof.
  induction k as [|k IH]; intros ms t H; [cbn; eauto|].
  destruct ms as [|[m d] ms]; [destruct H as (v & ->); cbn; eauto|].
  cbn [twf firstn] in *. destruct H as (kids & -> & Hk & Hc). cbn [trunc].
  eexists. split; [reflexivity|]. rewrite !map_map. cbn [fst snd]. split; [exact Hk|].
  apply Forall_forall. intros t' Ht'. apply in_map_iff in Ht'. destruct Ht' as (ct & <- & Hct).
  apply IH. rewrite Forall_forall in Hc. apply Hc. now apply in_map.
Qed.

Lemma find_key_in (kids : list (Z * trie)) ct :
  NoDup (map fst kids) -> In ct kids -> find (fun x : Z * trie => fst x =? fst ct) kids = Some ct.
Proof.
  induction kids as [|a kids IH]; intros ND Hin; [contradiction|].
  cbn [map] in ND. inversion ND as [|? ? Hn ND']; subst. cbn [find].
  destruct Hin as [->|Hin]; [now rewrite Z.eqb_refl|].
  destruct (Z.eqb_spec (fst a) (fst ct)) as [E|N]; [|now apply IH].
  exfalso. apply Hn. rewrite E. now apply in_map.
Qed.

Lemma paths_trunc_node k : forall ms t p v,
  twf ms t -> (k <= length ms)%nat -> In (p, v) (paths (trunc k t)) ->
  length p = k /\ exists sub, tnode_at p t = Some sub.
Proof.
  induction k as [|k IH]; intros ms t p v H Hk Hin.
  - cbn in Hin. destruct Hin as [E|[]]. inversion E; subst. split; [reflexivity|]. cbn. eauto.
  - destruct ms as [|[m d] ms]; [cbn in Hk; lia|].
    pose proof (twf_keys_nodup m d ms) as ND. cbn [twf] in H. destruct H as (kids & -> & Hkeys & Hc).
    specialize (ND kids). cbn [trunc] in Hin. rewrite paths_node in Hin.
    apply in_flat_map in Hin. destruct Hin as (ct' & Hct' & Hin). apply in_map_iff in Hct'.
    destruct Hct' as (ct & <- & Hct). cbn [fst snd] in Hin. apply in_map_iff in Hin.
    destruct Hin as ([p' v'] & E & Hin). inversion E; subst.
    assert (twf ms (snd ct)) as Hch by (rewrite Forall_forall in Hc; apply Hc; now apply in_map).
    destruct (IH ms (snd ct) p' v Hch ltac:(cbn in Hk; lia) Hin) as (Lp & sub & Hsub).
    split; [cbn; now rewrite Lp|]. exists sub. cbn [tnode_at kids_of].
    rewrite (find_key_in kids ct); [exact Hsub| |exact Hct].
    apply ND. cbn [twf]. eauto.
Qed.

Theorem stored_prefixes_nodes cfg t k p :
  cfg_ok cfg -> twf (olevels cfg) t -> (k <= length (k_omodes cfg))%nat ->
  In p (stored_prefixes (encode cfg t) k) ->
  length p = k /\ exists sub, tnode_at p t = Some sub.
Proof.
  intros C H Hk Hin. pose proof C as (L1 & L2 & _).
  destruct (encode_fields cfg t) as (Ed & Eo & El & Ev).
  unfold stored_prefixes in Hin. rewrite level_dims_encode in Hin by exact C.
  rewrite combine_firstn, El in Hin. rewrite <- (olevels_fst cfg C) in Hin.
  rewrite (enc_levels_trunc k (map fst (olevels cfg)) [t]) in Hin. cbn [map] in Hin.
  rewrite <- (olevels_snd cfg C), firstn_map, firstn_map in Hin.
  pose proof (enc_walk (firstn k (olevels cfg)) [trunc k t] O) as W.
  assert (dims_nonneg (firstn k (olevels cfg))) as Dn.
  { pose proof (olevels_nonneg cfg C) as D. unfold dims_nonneg in *. rewrite Forall_forall in *.
    intros x Hx. apply D. rewrite <- (firstn_skipn k (olevels cfg)). apply in_app_iff. now left. }
  specialize (W Dn (Forall_cons _ (twf_trunc k _ _ H) (Forall_nil _)) ltac:(cbn; lia)).
  cbn [nth Z.of_nat] in W.
  apply in_map_iff in Hin. destruct Hin as ([p' q] & E & Hin). cbn [fst] in E. subst p'.
  assert (In (tag (snd (enc_levels (map fst (firstn k (olevels cfg))) [trunc k t])) (p, q)) (paths (trunc k t))) as Hp.
  { rewrite <- W. now apply in_map. }
  unfold tag in Hp. cbn [fst snd] in Hp.
  apply (paths_trunc_node k (olevels cfg) t p _ H) in Hp; [exact Hp|].
  unfold olevels. rewrite combine_length, map_length. lia.
Qed.
