(** TIE -- the argument validation of kernel calls regenerated from compile/_tensor_method.py
    (gen/TensorMethod.v: [TensorMethod_init], [TensorMethod_call]) equals the hand model
    model/Validate.v ([tm_init], [check_arguments] / [check_indexes] / [output_dimensions], i.e.
    [validate] after the library step [bind]) -- same accept / refuse, same first error (class,
    raise site, argument name), same output dimensions -- for every problem, every bound-arguments
    dict and every iteration order of the sets; and C10's main theorems restated on the regenerated
    functions.

    The proofs do not mention the text of the generated loop bodies: the loops are handled by lemmas
    that are generic in the body and ask for a specification of it, which is then proved by
    computation on whatever body was generated. *)

From Coq Require Import ZArith List Bool String Lia Permutation.
From TV Require Import spec.Num spec.PyBase spec.PyLib.
From TV Require gen.Deparse gen.TensorMethod model.ExprAst model.Problem model.Validate
  proofs.ValidateBase proofs.ValidateIP proofs.ValidateCall proofs.ValidateMain
  proofs.GenVariables_equiv proofs.GenIndexParticipants_equiv.
Import ListNotations.
Open Scope string_scope.

Module GD := TV.gen.Deparse.
Module GT := TV.gen.TensorMethod.
Module EA := TV.model.ExprAst.
Module MP := TV.model.Problem.
Module MV := TV.model.Validate.
Module GV := TV.proofs.GenVariables_equiv.
Module GI := TV.proofs.GenIndexParticipants_equiv.
Module VM := TV.proofs.ValidateMain.

(* ------------------------------------------------------------------------------------------ *)
(** * model values as values of the generated types *)

Definition lift_mode (m : MP.mode) : GT.Mode :=
  match m with MP.Dense => GT.Mode_dense | MP.Compressed => GT.Mode_compressed end.

Definition lift_format (f : MP.format) : GT.Format :=
  GT.MkFormat (map lift_mode (MP.f_modes f)) (map Z.of_nat (MP.f_ordering f)).

Definition lift_formats (fs : list (string * MP.format)) : list (string * GT.Format) :=
  map (fun kv => (fst kv, lift_format (snd kv))) fs.

Definition lift_arg (a : MV.argument) : GT.pyarg :=
  match a with
  | MV.ATensor o m r d => GT.PyTensor (Z.of_nat o) (map lift_mode m) (map Z.of_nat r) d
  | MV.ANotTensor => GT.PyOther
  end.

Definition lift_bound (b : list (string * MV.argument)) : list (string * GT.pyarg) :=
  map (fun kv => (fst kv, lift_arg (snd kv))) b.

(** the problem [Problem(Assignment(Tensor(tn, tidx), e), fs)] in both worlds *)
Definition gproblem (tn : string) (tidx : list string) (e : GD.ex_expr) (fs : list (string * MP.format))
  : GT.Problem :=
  GT.MkProblem (GD.ExAssignment (GD.ExTensor tn tidx) e) (lift_formats fs).

Definition mproblem (fid : F -> Z) (tn : string) (tidx : list string) (e : GD.ex_expr)
           (fs : list (string * MP.format)) : MP.problem :=
  MP.Problem (EA.Assignment (EA.TRef tn tidx) (GV.convA fid e)) fs.

(* ------------------------------------------------------------------------------------------ *)
(** * exceptions of the generated functions as errors of the model *)

(** [__call__]: class and raise site (ordinal of the `raise` statement in the method) decide the
    kind; the argument name is the first rendered value of the message.  Everything else -- in
    particular every exception raised by the interpreter (site -1) -- is an internal error. *)
Definition conv_exc (e : GT.pyexc) : EA.error :=
  match e with
  | GT.PyExc cls site vals =>
      let named (k : string -> EA.error) :=
        match vals with GT.VStr n :: _ => k n | _ => EA.EInternal "" end in
      if String.eqb cls "TypeError" && Z.eqb site 0 then named EA.ETypeErrorNotTensor
      else if String.eqb cls "ValueError" && Z.eqb site 1 then named EA.EValueErrorOrder
      else if String.eqb cls "ValueError" && Z.eqb site 2 then named EA.EValueErrorModes
      else if String.eqb cls "ValueError" && Z.eqb site 3 then named EA.EValueErrorOrdering
      else if String.eqb cls "ValueError" && Z.eqb site 4 then EA.EValueErrorDimensions
      else EA.EInternal ""
  end.

(** [__init__] *)
Definition conv_exc_init (e : GT.pyexc) : EA.error :=
  match e with
  | GT.PyExc cls site vals =>
      if String.eqb cls "BroadcastTargetIndexError" && Z.eqb site 0
      then match vals with GT.VStr i :: _ => EA.EBroadcastTargetIndex i | _ => EA.EInternal "" end
      else EA.EInternal ""
  end.

Definition conv_res {A} (r : GT.pyres A) : EA.result A :=
  match r with GT.Ret a => EA.Ok a | GT.Raise e => EA.Error (conv_exc e) end.

(** the model names its internal errors (KeyError / IndexError that no real call can reach) by
    free text; they are compared as one kind *)
Definition canon_err (e : EA.error) : EA.error :=
  match e with EA.EInternal _ => EA.EInternal "" | _ => e end.

Definition canon {A} (r : EA.result A) : EA.result A :=
  match r with EA.Ok a => EA.Ok a | EA.Error e => EA.Error (canon_err e) end.

Lemma builtin_internal : forall cls, conv_exc (GT.builtin_exc cls) = EA.EInternal "".
Proof.
  intros cls. unfold GT.builtin_exc, conv_exc.
  repeat match goal with |- context [Z.eqb (-1) ?k] => change (Z.eqb (-1) k) with false end.
  rewrite !andb_false_r. reflexivity.
Qed.

(* ------------------------------------------------------------------------------------------ *)
(** * small facts about the liftings *)

Lemma Zeqb_of_nat : forall a b, Z.eqb (Z.of_nat a) (Z.of_nat b) = Nat.eqb a b.
Proof.
  intros. destruct (Nat.eqb a b) eqn:E.
  - apply Nat.eqb_eq in E. subst. apply Z.eqb_refl.
  - apply Nat.eqb_neq in E. apply Z.eqb_neq. lia.
Qed.

Lemma modes_lift : forall a b, list_eqb GT.Mode_eqb (map lift_mode a) (map lift_mode b) = MP.modes_eqb a b.
Proof.
  induction a as [|x a IH]; destruct b as [|y b]; simpl; try reflexivity.
  rewrite IH. destruct x, y; reflexivity.
Qed.

Lemma nats_lift : forall a b, list_eqb Z.eqb (map Z.of_nat a) (map Z.of_nat b) = MP.nats_eqb a b.
Proof.
  induction a as [|x a IH]; destruct b as [|y b]; simpl; try reflexivity.
  rewrite IH, Zeqb_of_nat. reflexivity.
Qed.

Lemma dict_get_aget : forall {V} k (d : list (string * V)), dict_get String.eqb k d = EA.aget k d.
Proof. induction d as [|[k' v] r IH]; simpl; [reflexivity | rewrite IH; reflexivity]. Qed.

Lemma dict_get_lift_bound : forall k b,
  dict_get String.eqb k (lift_bound b) = option_map lift_arg (EA.aget k b).
Proof.
  induction b as [|[k' v] r IH]; simpl; [reflexivity|]. destruct (String.eqb k k'); [reflexivity | exact IH].
Qed.

Lemma dict_get_lift_formats : forall k fs,
  dict_get String.eqb k (lift_formats fs) = option_map lift_format (EA.aget k fs).
Proof.
  induction fs as [|[k' v] r IH]; simpl; [reflexivity|]. destruct (String.eqb k k'); [reflexivity | exact IH].
Qed.

Lemma py_getitem_nat : forall {A} (xs : list A) j, py_getitem xs (Z.of_nat j) = nth_error xs j.
Proof.
  intros. unfold py_getitem. replace (0 <=? Z.of_nat j)%Z with true by (symmetry; apply Z.leb_le; lia).
  rewrite Nat2Z.id. reflexivity.
Qed.

Lemma dict_set_fresh : forall {V} k (v : V) d, ~ In k (map fst d) -> dict_set String.eqb k v d = (d ++ [(k, v)])%list.
Proof.
  induction d as [|[k' v'] r IH]; simpl; intros H; [reflexivity|].
  destruct (String.eqb k k') eqn:E.
  - apply String.eqb_eq in E. subst. exfalso. apply H. left. reflexivity.
  - rewrite IH; [reflexivity|]. intros C. apply H. right. exact C.
Qed.

(* ------------------------------------------------------------------------------------------ *)
(** * the loop over the arguments:
      [for name, argument, format in zip(bound.keys(), bound.values(), formats.values(), strict=True)] *)

Lemma args_loop : forall {A} (body : unit -> string * GT.pyarg * GT.Format -> GT.pyres unit),
  (forall n a f, conv_res (body tt (n, lift_arg a, lift_format f)) = canon (MV.check_argument n a f)) ->
  forall bound fs (K : GT.pyres A),
  conv_res (GT.rbind
              (GT.rfold body (GT.zip3 (map fst (lift_bound bound)) (map snd (lift_bound bound))
                                      (map snd (lift_formats fs))) tt)
              (fun _ => if GT.zip3_same (map fst (lift_bound bound)) (map snd (lift_bound bound))
                                        (map snd (lift_formats fs))
                        then K else GT.Raise (GT.builtin_exc "ValueError")))
  = match MV.check_arguments bound fs with EA.Ok _ => conv_res K | EA.Error e => EA.Error (canon_err e) end.
Proof.
  intros A body Hbody. induction bound as [|[n a] bt IH]; intros [|[n' f] ft] K.
  - reflexivity.
  - cbn. try rewrite builtin_internal. reflexivity.
  - unfold GT.zip3_same. cbn. rewrite andb_false_r. cbn. try rewrite builtin_internal. reflexivity.
  - specialize (Hbody n a f). specialize (IH ft K).
    cbn [lift_bound lift_formats map fst snd GT.zip3 GT.rfold MV.check_arguments] in *.
    destruct (body tt (n, lift_arg a, lift_format f)) as [[]|e];
      destruct (MV.check_argument n a f) as [[]|e']; cbn in Hbody; try discriminate.
    + unfold GT.zip3_same in *. cbn [List.length Nat.eqb] in *. exact IH.
    + cbn. inversion Hbody. reflexivity.
Qed.

(* ------------------------------------------------------------------------------------------ *)
(** * participants *)

Definition liftp := GI.liftp.
Definition unliftp (p : string * Z) : EA.participant := (fst p, Z.to_nat (snd p)).

Lemma unlift_lift : forall p, unliftp (liftp p) = p.
Proof. intros [s n]. unfold unliftp, liftp, GI.liftp. simpl. rewrite Nat2Z.id. reflexivity. Qed.

(** the model's oracle that corresponds to the generated one *)
Definition ordp_of (ord_part : list (string * Z) -> list (string * Z))
  : string -> list EA.participant -> list EA.participant :=
  fun _ l => map unliftp (ord_part (map liftp l)).

Lemma ordp_of_perm : forall ord_part, (forall l, Permutation (ord_part l) l) ->
  forall k l, Permutation (ordp_of ord_part k l) l.
Proof.
  intros ord_part H k l. unfold ordp_of.
  eapply Permutation_trans; [apply Permutation_map, H|].
  rewrite map_map. erewrite map_ext; [rewrite map_id; apply Permutation_refl|]. apply unlift_lift.
Qed.

Lemma ordp_of_lift : forall ord_part, (forall l, Permutation (ord_part l) l) ->
  forall k l, ord_part (map liftp l) = map liftp (ordp_of ord_part k l).
Proof.
  intros ord_part H k l. unfold ordp_of. rewrite map_map.
  rewrite <- (map_id (ord_part (map liftp l))) at 1. apply map_ext_in.
  intros x Hx. apply (Permutation_in _ (H _)) in Hx. apply in_map_iff in Hx.
  destruct Hx as [p [<- _]]. rewrite unlift_lift. reflexivity.
Qed.

(** [[(variable, dimension, bound[variable].dimensions[dimension]) for variable, dimension in participants]] *)
Lemma sizes_comprehension : forall bound (f : string * Z -> GT.pyres (string * Z * Z)),
  (forall pt, match MV.size_of bound pt with
              | Some s => f (liftp pt) = GT.Ret (liftp pt, s)
              | None => exists e, f (liftp pt) = GT.Raise e /\ conv_exc e = EA.EInternal ""
              end) ->
  forall l, match MV.all_some (map (MV.size_of bound) l) with
            | Some ss => GT.rmap f (map liftp l) = GT.Ret (combine (map liftp l) ss) /\ List.length ss = List.length l
            | None => exists e, GT.rmap f (map liftp l) = GT.Raise e /\ conv_exc e = EA.EInternal ""
            end.
Proof.
  intros bound f Hf. induction l as [|pt l IH]; cbn [map MV.all_some GT.rmap].
  - split; reflexivity.
  - specialize (Hf pt). destruct (MV.size_of bound pt) as [s|].
    + rewrite Hf. destruct (MV.all_some (map (MV.size_of bound) l)) as [ss|].
      * destruct IH as [-> L]. split; [reflexivity | simpl; congruence].
      * destruct IH as [e [-> He]]. exists e. split; [reflexivity | exact He].
    + destruct Hf as [e [-> He]]. exists e. split; [reflexivity | exact He].
Qed.

(** [for _, _, size in actual_sizes[1:]: if size != reference_size: raise ValueError(...)] *)
Lemma compare_loop : forall (g : unit -> string * Z * Z -> GT.pyres unit) reference,
  (forall t, if Z.eqb (snd t) reference then g tt t = GT.Ret tt
             else exists e, g tt t = GT.Raise e /\ conv_exc e = EA.EValueErrorDimensions) ->
  forall (ps : list (string * Z)) ss, List.length ss = List.length ps ->
  if forallb (fun s => Z.eqb s reference) ss then GT.rfold g (combine ps ss) tt = GT.Ret tt
  else exists e, GT.rfold g (combine ps ss) tt = GT.Raise e /\ conv_exc e = EA.EValueErrorDimensions.
Proof.
  intros g reference Hg. induction ps as [|p ps IH]; intros [|s ss] L; try discriminate; cbn [combine forallb GT.rfold].
  - reflexivity.
  - specialize (Hg (p, s)). cbn [snd] in Hg. destruct (Z.eqb s reference); cbn [andb].
    + rewrite Hg. apply IH. simpl in L. congruence.
    + destruct Hg as [e [-> He]]. exists e. split; [reflexivity | exact He].
Qed.

(* ------------------------------------------------------------------------------------------ *)
(** * the loop over [index_participants.items()] and the output dimensions *)

Lemma conv_rbind : forall {A B} (r : GT.pyres A) (k : A -> GT.pyres B) res,
  conv_res r = res ->
  conv_res (GT.rbind r k) = match res with EA.Ok a => conv_res (k a) | EA.Error e => EA.Error e end.
Proof. intros A B [a|e] k res <-; reflexivity. Qed.

Lemma index_loop : forall ordp bound
    (body : list (string * Z) -> string * list (string * Z) -> GT.pyres (list (string * Z))),
  (forall acc index ps,
     conv_res (body acc (index, map liftp ps))
     = match MV.check_index ordp bound index ps with
       | EA.Ok s => EA.Ok (dict_set String.eqb index s acc)
       | EA.Error e => EA.Error (canon_err e)
       end) ->
  forall ip acc, NoDup (EA.akeys ip) -> (forall k, In k (EA.akeys ip) -> ~ In k (map fst acc)) ->
  conv_res (GT.rfold body (GI.lift_ip ip) acc)
  = match MV.check_indexes ordp bound ip with
    | EA.Ok sizes => EA.Ok (acc ++ sizes)%list
    | EA.Error e => EA.Error (canon_err e)
    end.
Proof.
  intros ordp bound body Hbody. unfold GI.lift_ip.
  induction ip as [|[k ps] rest IH]; intros acc ND Hd; cbn [map GT.rfold MV.check_indexes fst snd].
  - rewrite app_nil_r. reflexivity.
  - specialize (Hbody acc k ps). fold liftp in *.
    destruct (body acc (k, map liftp ps)) as [acc1|e];
      destruct (MV.check_index ordp bound k ps) as [s|e']; cbn [conv_res] in Hbody; try discriminate.
    + inversion Hbody; subst acc1. clear Hbody.
      rewrite dict_set_fresh by (apply Hd; left; reflexivity).
      cbn [EA.akeys map fst] in ND. inversion ND as [|? ? Hk ND']; subst.
      rewrite IH.
      * destruct (MV.check_indexes ordp bound rest); [rewrite <- app_assoc; reflexivity | reflexivity].
      * exact ND'.
      * intros k' Hk' C. rewrite map_app in C. apply in_app_or in C. destruct C as [C|[C|[]]].
        -- apply (Hd k'); [right; exact Hk' | exact C].
        -- simpl in C. subst k'. apply Hk. exact Hk'.
    + exact Hbody.
Qed.

Lemma out_dims : forall sizes (g : string -> GT.pyres Z),
  (forall i, conv_res (g i)
             = match EA.aget i sizes with Some s => EA.Ok s | None => EA.Error (EA.EInternal "") end) ->
  forall idx, conv_res (GT.rmap g idx) = canon (MV.output_dimensions sizes idx).
Proof.
  intros sizes g Hg. induction idx as [|i idx IH]; cbn [GT.rmap MV.output_dimensions]; [reflexivity|].
  specialize (Hg i). destruct (g i) as [s|e]; destruct (EA.aget i sizes) as [s'|]; cbn [conv_res] in Hg; try discriminate.
  - inversion Hg; subst s'. clear Hg.
    destruct (GT.rmap g idx) as [r|e]; destruct (MV.output_dimensions sizes idx) as [r'|e'];
      cbn [conv_res canon] in IH; try discriminate; [inversion IH; subst; reflexivity | exact IH].
  - inversion Hg as [Hg']. cbn [conv_res canon canon_err]. rewrite Hg'. reflexivity.
Qed.

(* ------------------------------------------------------------------------------------------ *)
(** * [TensorMethod.__call__] *)

Section Call.
  Variable ord_set : list string -> list string.
  Variable ord_part : list (string * Z) -> list (string * Z).
  Hypothesis ord_set_perm : forall l, Permutation (ord_set l) l.
  Hypothesis ord_part_perm : forall l, Permutation (ord_part l) l.
  Variable fid : F -> Z.

  (** the model's oracles that correspond to the generated ones *)
  Definition m_ord : EA.path -> list string -> list string := fun _ l => ord_set l.
  Definition m_ordp : string -> list EA.participant -> list EA.participant := ordp_of ord_part.

  Lemma m_ord_perm : forall pth l, Permutation (m_ord pth l) l.
  Proof. intros. apply ord_set_perm. Qed.
  Lemma m_ordp_perm : forall k l, Permutation (m_ordp k l) l.
  Proof. apply ordp_of_perm, ord_part_perm. Qed.

  (** [Validate.validate] after the library step [bind] *)
  Definition decide (p : MP.problem) (bound : list (string * MV.argument)) : EA.result (list Z) :=
    match MV.check_arguments bound (MV.input_formats p) with
    | EA.Error e => EA.Error e
    | EA.Ok _ =>
        match MV.check_indexes m_ordp bound (EA.index_participants m_ord [] (EA.a_expr (MP.p_assignment p))) with
        | EA.Error e => EA.Error e
        | EA.Ok sizes => MV.output_dimensions sizes (EA.t_indexes (EA.a_target (MP.p_assignment p)))
        end
    end.

  Lemma validate_decide : forall p c,
    MV.validate m_ord m_ordp p c
    = match MV.bind (MV.input_names p) c with EA.Error e => EA.Error e | EA.Ok b => decide p b end.
  Proof. reflexivity. Qed.

  Theorem gen_call_equiv : forall tn tidx e fs self bound,
    GT.TensorMethod__problem self = gproblem tn tidx e fs ->
    GT.TensorMethod__input_formats self = lift_formats (MV.input_formats (mproblem fid tn tidx e fs)) ->
    conv_res (GT.TensorMethod_call ord_set ord_part self (lift_bound bound))
    = canon (decide (mproblem fid tn tidx e fs) bound).
  Proof.
    intros tn tidx e fs self bound Hp Hf. unfold GT.TensorMethod_call. rewrite Hp, Hf. unfold decide.
    rewrite args_loop.
    2: { (* one round of the loop over the arguments *)
      intros n a f. destruct a as [o m r d|]; destruct f as [fm fr]; [|reflexivity].
      cbn [lift_arg]. unfold lift_format, MV.check_argument, MP.f_order, GT.Format_order.
      cbn [GT.Format_modes GT.Format_ordering MP.f_modes MP.f_ordering].
      rewrite map_length, Zeqb_of_nat, modes_lift, nats_lift.
      destruct (Nat.eqb o (List.length fm)); [|reflexivity].
      destruct (MP.modes_eqb m fm); [|reflexivity].
      destruct (MP.nats_eqb r fr); reflexivity. }
    destruct (MV.check_arguments bound (MV.input_formats (mproblem fid tn tidx e fs))) as [[]|e0]; [|reflexivity].
    cbv zeta.
    cbn [gproblem mproblem GT.Problem_assignment GD.ex_assignment_expression GD.ex_assignment_target
         MP.p_assignment EA.a_expr EA.a_target EA.t_indexes].
    rewrite (GI.gen_index_participants_equiv ord_set fid e []). fold m_ord.
    set (ip := EA.index_participants m_ord [] (GV.convA fid e)).
    match goal with |- context [GT.rfold ?b (GI.lift_ip ip) nil] =>
      assert (Hbody : forall acc index ps,
                conv_res (b acc (index, map liftp ps))
                = match MV.check_index m_ordp bound index ps with
                  | EA.Ok s => EA.Ok (dict_set String.eqb index s acc)
                  | EA.Error e => EA.Error (canon_err e)
                  end)
    end.
    { (* one round of the loop over the indexes *)
      intros acc index ps. cbv beta iota.
      rewrite (ordp_of_lift ord_part ord_part_perm index ps). fold m_ordp.
      unfold MV.check_index. remember (m_ordp index ps) as l eqn:El. clear El.
      match goal with |- context [GT.rmap ?f _] => pose proof (sizes_comprehension bound f) as SC end.
      assert (SC' := SC ltac:(
        intros [v j]; unfold MV.size_of; cbn [liftp GI.liftp fst snd]; rewrite dict_get_lift_bound;
        destruct (EA.aget v bound) as [[o m r d|]|]; cbn [option_map GT.of_opt GT.rbind lift_arg MV.arg_dims];
        [ rewrite py_getitem_nat; destruct (nth_error d j); cbn [GT.of_opt GT.rbind];
          [ reflexivity | eexists; split; [reflexivity | apply builtin_internal] ]
        | replace (nth_error (@nil Z) j) with (@None Z) by (destruct j; reflexivity);
          eexists; split; [reflexivity | apply builtin_internal]
        | eexists; split; [reflexivity | apply builtin_internal] ]) l).
      clear SC. destruct (MV.all_some (map (MV.size_of bound) l)) as [ss|].
      - destruct SC' as [-> L]. cbn [GT.rbind].
        destruct l as [|p0 l']; destruct ss as [|s0 ss']; try discriminate.
        + cbn. try rewrite builtin_internal. reflexivity.
        + destruct p0 as [pv pj]. cbn [map combine]. change (liftp (pv, pj)) with (pv, Z.of_nat pj).
          change (py_getitem ((pv, Z.of_nat pj, s0) :: combine (map liftp l') ss') 0%Z) with (Some (pv, Z.of_nat pj, s0)).
          cbn [GT.of_opt GT.rbind skipn]. cbv zeta. cbv beta iota.
          match goal with |- context [GT.rfold ?g (combine _ _) tt] =>
            pose proof (compare_loop g s0) as CL end.
          assert (CL' := CL ltac:(
            intros [[a b] s]; cbn [snd]; cbv beta iota; destruct (Z.eqb s s0); cbn [negb];
            [ reflexivity | eexists; split; reflexivity ]) (map liftp l') ss'
            ltac:(rewrite map_length; simpl in L; congruence)).
          clear CL. destruct (forallb (fun s => Z.eqb s s0) ss').
          * rewrite CL'. reflexivity.
          * destruct CL' as [e1 [-> He1]]. cbn [GT.rbind conv_res canon_err]. rewrite He1. reflexivity.
      - destruct SC' as [e1 [-> He1]]. cbn [GT.rbind conv_res canon_err]. rewrite He1. reflexivity. }
    rewrite (conv_rbind _ _ _ (index_loop m_ordp bound _ Hbody ip nil
               (TV.proofs.ValidateIP.ip_NoDup m_ord m_ord_perm _ _) (fun _ _ C => C))).
    destruct (MV.check_indexes m_ordp bound ip) as [sizes|e0]; [|reflexivity].
    cbn [app GT.rbind].
    match goal with |- context [GT.rmap ?g tidx] =>
      assert (Hg : forall i, conv_res (g i)
                = match EA.aget i sizes with Some s => EA.Ok s | None => EA.Error (EA.EInternal "") end)
    end.
    { intros i. cbv beta. rewrite dict_get_aget. destruct (EA.aget i sizes); cbn;
        [reflexivity | try rewrite builtin_internal; reflexivity]. }
    rewrite (conv_rbind _ _ _ (out_dims sizes _ Hg tidx)).
    destruct (MV.output_dimensions sizes tidx); reflexivity.
  Qed.
End Call.

(* ------------------------------------------------------------------------------------------ *)
(** * [TensorMethod.__init__] (the statements before code generation) *)

Lemma py_in_set_of_list : forall x l, py_in String.eqb x (set_of_list String.eqb l) = py_in String.eqb x l.
Proof.
  induction l as [|y r IH]; [reflexivity|]. cbn [set_of_list].
  destruct (py_in String.eqb y r) eqn:E.
  - rewrite IH. unfold py_in at 2. cbn [existsb]. fold (py_in String.eqb x r).
    destruct (String.eqb x y) eqn:Exy; [|reflexivity].
    apply String.eqb_eq in Exy. subst. rewrite E. reflexivity.
  - unfold py_in in *. cbn [existsb]. rewrite IH. reflexivity.
Qed.

Lemma broadcast_loop : forall keys (body : unit -> string -> GT.pyres unit),
  (forall i, if EA.smem i keys then body tt i = GT.Ret tt
             else exists e, body tt i = GT.Raise e /\ conv_exc_init e = EA.EBroadcastTargetIndex i) ->
  forall idx, match MV.first_not_in idx keys with
              | None => GT.rfold body idx tt = GT.Ret tt
              | Some i => exists e, GT.rfold body idx tt = GT.Raise e /\ conv_exc_init e = EA.EBroadcastTargetIndex i
              end.
Proof.
  intros keys body Hb. induction idx as [|i idx IH]; cbn [MV.first_not_in GT.rfold]; [reflexivity|].
  specialize (Hb i). destruct (EA.smem i keys).
  - rewrite Hb. exact IH.
  - destruct Hb as [e [-> He]]. exists e. split; [reflexivity | exact He].
Qed.

Lemma filter_lift_formats : forall tn fs,
  filter (fun '(name, _) => negb (String.eqb name tn)) (lift_formats fs)
  = lift_formats (filter (fun kv => negb (String.eqb (fst kv) tn)) fs).
Proof.
  intros tn. unfold lift_formats. induction fs as [|[k f] r IH]; [reflexivity|]. cbn [map filter fst snd].
  destruct (negb (String.eqb k tn)); cbn [map fst snd]; rewrite IH; reflexivity.
Qed.

Section Init.
  Variable ord_set : list string -> list string.
  Variable ord_part : list (string * Z) -> list (string * Z).
  Hypothesis ord_set_perm : forall l, Permutation (ord_set l) l.
  Hypothesis ord_part_perm : forall l, Permutation (ord_part l) l.
  Variable fid : F -> Z.
  Notation m_ord := (m_ord ord_set).
  Notation m_ordp := (m_ordp ord_part).

  (** the object [__init__] makes for a problem whose output has the format [f] *)
  Definition self_of tn tidx e fs (f : MP.format) : GT.TensorMethod :=
    GT.MkTensorMethod (gproblem tn tidx e fs) tn
      (lift_formats (MV.input_formats (mproblem fid tn tidx e fs))) (lift_format f)
      (MV.input_names (mproblem fid tn tidx e fs)).

  Theorem gen_init_equiv : forall tn tidx e fs,
    match GT.TensorMethod_init ord_set (gproblem tn tidx e fs) with
    | GT.Ret self =>
        MV.tm_init m_ord (mproblem fid tn tidx e fs) = EA.Ok tt /\
        exists f, EA.aget tn fs = Some f /\ self = self_of tn tidx e fs f
    | GT.Raise ex =>
        exists err, MV.tm_init m_ord (mproblem fid tn tidx e fs) = EA.Error err /\
                    canon_err err = conv_exc_init ex
    end.
  Proof.
    intros tn tidx e fs. unfold GT.TensorMethod_init, MV.tm_init. cbv zeta.
    cbn [gproblem mproblem GT.Problem_assignment GT.Problem_formats GD.ex_assignment_expression
         GD.ex_assignment_target MP.p_assignment MP.p_formats EA.a_expr EA.a_target EA.t_indexes GT.rbind].
    rewrite (GI.gen_index_participants_equiv ord_set fid e []), GI.keys_model. fold m_ord.
    set (keys := EA.akeys (EA.index_participants m_ord [] (GV.convA fid e))).
    match goal with |- context [GT.rfold ?b tidx tt] => pose proof (broadcast_loop keys b) as BL end.
    assert (BL' := BL ltac:(
      intros i; cbv beta; rewrite py_in_set_of_list, <- GI.smem_py_in; destruct (EA.smem i keys); cbn [negb];
      [reflexivity | eexists; split; reflexivity]) tidx).
    clear BL. destruct (MV.first_not_in tidx keys) as [i|].
    - destruct BL' as [ex [-> Hex]]. cbn [GT.rbind]. eexists. split; [reflexivity|]. symmetry. exact Hex.
    - rewrite BL'. cbn [GT.rbind]. unfold MV.output_name. cbn [mproblem MP.p_assignment EA.a_target EA.t_name].
      rewrite dict_get_lift_formats. destruct (EA.aget tn fs) as [f|]; cbn [option_map GT.of_opt GT.rbind].
      + split; [reflexivity|]. exists f. split; [reflexivity|]. unfold self_of. f_equal.
        * rewrite filter_lift_formats. reflexivity.
        * rewrite filter_lift_formats. unfold MV.input_names, MV.input_formats, MV.output_name, lift_formats, EA.akeys.
          cbn [mproblem MP.p_assignment MP.p_formats EA.a_target EA.t_name]. rewrite map_map. reflexivity.
      + eexists. split; [reflexivity|]. reflexivity.
  Qed.

  (** ** the whole of [__call__] up to the kernel: the library step [bind] (model/Validate.v, on the
      regenerated signature), then the regenerated decision *)
  Definition gen_validate (self : GT.TensorMethod) (c : MV.call_args) : EA.result (list Z) :=
    match MV.bind (GT.TensorMethod_signature self) c with
    | EA.Error e => EA.Error e
    | EA.Ok b => conv_res (GT.TensorMethod_call ord_set ord_part self (lift_bound b))
    end.

  Theorem gen_validate_equiv : forall tn tidx e fs self c,
    GT.TensorMethod_init ord_set (gproblem tn tidx e fs) = GT.Ret self ->
    gen_validate self c = canon (MV.validate m_ord m_ordp (mproblem fid tn tidx e fs) c).
  Proof.
    intros tn tidx e fs self c Hi. pose proof (gen_init_equiv tn tidx e fs) as G. rewrite Hi in G.
    destruct G as [_ [f [_ ->]]]. unfold gen_validate. rewrite validate_decide.
    cbn [self_of GT.TensorMethod_signature].
    destruct (MV.bind (MV.input_names (mproblem fid tn tidx e fs)) c) as [b|e0] eqn:B.
    - apply (gen_call_equiv ord_set ord_part ord_set_perm ord_part_perm fid); reflexivity.
    - apply TV.proofs.ValidateCall.bind_Error in B. subst e0. reflexivity.
  Qed.

  Lemma canon_Ok : forall {A} (r : EA.result A) a, canon r = EA.Ok a <-> r = EA.Ok a.
  Proof. intros A [x|e] a; simpl; split; intros H; try discriminate; exact H. Qed.

  (** C10's main theorems on the regenerated functions *)
  Theorem gen_validate_ok_implies_consistent : forall tn tidx e fs self c dims,
    GT.TensorMethod_init ord_set (gproblem tn tidx e fs) = GT.Ret self ->
    gen_validate self c = EA.Ok dims ->
    VM.consistent (mproblem fid tn tidx e fs) c dims.
  Proof.
    intros tn tidx e fs self c dims Hi H. rewrite (gen_validate_equiv _ _ _ _ _ _ Hi) in H.
    apply (proj1 (canon_Ok _ _)) in H.
    exact (VM.validate_ok_implies_consistent m_ord m_ordp (m_ord_perm ord_set ord_set_perm)
             (m_ordp_perm ord_part ord_part_perm) _ _ _ H).
  Qed.

  Theorem gen_validate_complete : forall tn tidx e fs self c dims,
    GT.TensorMethod_init ord_set (gproblem tn tidx e fs) = GT.Ret self ->
    VM.consistent (mproblem fid tn tidx e fs) c dims ->
    gen_validate self c = EA.Ok dims.
  Proof.
    intros tn tidx e fs self c dims Hi H. rewrite (gen_validate_equiv _ _ _ _ _ _ Hi). apply (proj2 (canon_Ok _ _)).
    pose proof (gen_init_equiv tn tidx e fs) as G. rewrite Hi in G. destruct G as [T _].
    exact (VM.validate_complete m_ord m_ordp (m_ord_perm ord_set ord_set_perm)
             (m_ordp_perm ord_part ord_part_perm) _ _ _ T H).
  Qed.

  (** a refusal of the regenerated [__call__] is the model's refusal: TypeError / ValueError with the
      model's kind and argument name, or (for ill-formed objects only) an internal error *)
  Theorem gen_validate_refusal : forall tn tidx e fs self c err,
    GT.TensorMethod_init ord_set (gproblem tn tidx e fs) = GT.Ret self ->
    gen_validate self c = EA.Error err ->
    exists err', MV.validate m_ord m_ordp (mproblem fid tn tidx e fs) c = EA.Error err' /\ err = canon_err err'.
  Proof.
    intros tn tidx e fs self c err Hi H. rewrite (gen_validate_equiv _ _ _ _ _ _ Hi) in H.
    destruct (MV.validate m_ord m_ordp (mproblem fid tn tidx e fs) c) as [d|err']; simpl in H; [discriminate|].
    inversion H. exists err'. split; reflexivity.
  Qed.
End Init.
