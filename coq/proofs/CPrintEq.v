(** Python dataclass equality ([expr_eqb], generated) implies equal meaning on the IR machine: the
    printer's test [self.value.left == self.target], which selects the compound-assignment sugar,
    identifies only expressions that evaluate alike (float literals compare numerically, so +0.0 and
    -0.0 are identified; the machine canonicalises the sign of zero). *)

From Coq Require Import ZArith Bool List String Lia Eqdep_dec SpecFloat.
From Flocq Require Import Core BinarySingleNaN.
From TV Require Import spec.Num gen.IRAst spec.IRSem spec.CGrammar model.CPrint.
Import ListNotations.
Local Open Scope Z_scope.

Lemma Feqb_chkfin x y : Feqb x y = true -> chkfin x = chkfin y.
Proof.
  unfold Feqb, Beqb, SFeqb, chkfin.
  destruct x as [sx | sx | | sx mx ex px], y as [sy | sy | | sy my ey py]; simpl; intros H;
    try (discriminate H); try reflexivity;
    try (destruct sx; discriminate H); try (destruct sy; discriminate H);
    try (destruct sx, sy; discriminate H).
  -
    assert (sx = sy /\ ex = ey /\ mx = my) as (-> & -> & ->).
    { destruct sx, sy; try discriminate H.
      - destruct (Z.compare ex ey) eqn:Ee; try discriminate H.
        apply Z.compare_eq in Ee. subst.
        destruct (Pos.compare_cont Eq mx my) eqn:Em; simpl in H; try discriminate H.
        apply Pos.compare_eq in Em. auto.
      - destruct (Z.compare ex ey) eqn:Ee; try discriminate H.
        apply Z.compare_eq in Ee. subst.
        destruct (Pos.compare_cont Eq mx my) eqn:Em; simpl in H; try discriminate H.
        apply Pos.compare_eq in Em. auto. }
    assert (px = py) by (apply UIP_dec; apply Bool.bool_dec). subst. reflexivity.
Qed.

Theorem expr_eqb_eval : forall a b, expr_eqb a b = true -> forall st, eval st a = eval st b.
Proof.
  induction a; destruct b; simpl; intros H st; try discriminate H;
    repeat match goal with
           | H : _ && _ = true |- _ => apply andb_prop in H; destruct H
           end;
    repeat match goal with
           | H : String.eqb _ _ = true |- _ => apply String.eqb_eq in H; subst
           | H : Z.eqb _ _ = true |- _ => apply Z.eqb_eq in H; subst
           | H : Bool.eqb _ _ = true |- _ => apply Bool.eqb_prop in H; subst
           | IHx : forall b, expr_eqb ?x b = true -> _, H : expr_eqb ?x _ = true |- _ =>
               rewrite (IHx _ H st); clear IHx
           end;
    try reflexivity.
  - (* FloatLiteral *) rewrite (Feqb_chkfin _ _ H). reflexivity.
Qed.

(** the value the sugar assigns is the value the IR assignment assigns *)
Theorem sugared_value_eval :
  forall t l r st,
    expr_eqb l t = true ->
    eval st (Add l r) = eval st (Add t r) /\
    eval st (Subtract l r) = eval st (Subtract t r) /\
    eval st (Multiply l r) = eval st (Multiply t r).
Proof.
  intros t l r st H. simpl. rewrite (expr_eqb_eval _ _ H st). auto.
Qed.
