(** Re-valued inputs on the harness (spec/IRRun.v): what [set_input_vals] does to a state that
    holds the blocks of [init_state ts], and the history statement
    [assemble; compute; compute(re-valued) ...]. *)

From Coq Require Import ZArith Bool List String Lia FMapPositive.
From Flocq Require Import Core BinarySingleNaN.
From TV Require Import spec.Num gen.IRAst spec.IRSem spec.IRRun
  proofs.MachineSafety proofs.InitState proofs.Certs proofs.Certs2Base proofs.Certs2Input proofs.Certs2Store
  proofs.Certs3Defs proofs.Certs3Base proofs.Certs3Asm proofs.Certs3Cmp proofs.Certs3Hist.
Import ListNotations.
Open Scope Z_scope.

Local Arguments add_block : simpl never.

Definition vcells (vs : list F) : PM.t value := cells_from (fun f => VFloat (fcanon f)) vs 0 (PM.empty value).
Definition mkB (vs : list F) : block := mkBlock true (zlen vs) (vcells vs) true true.

(** * Blocks and structs laid out by [init_tensors] *)

Lemma add_block_facts s fl n cells inp : wf_heap s ->
  let s' := fst (add_block s fl n cells inp) in
  next_blk s' = Pos.succ (next_blk s) /\
  PM.find (next_blk s) (heap s') = Some (mkBlock fl n cells true inp) /\
  (forall b, b <> next_blk s -> PM.find b (heap s') = PM.find b (heap s)) /\
  tensors s' = tensors s /\ wf_heap s' /\ snd (add_block s fl n cells inp) = VPtr (next_blk s) 0.
Proof.
  intros W. unfold add_block. simpl. split; auto. split; [apply PM.gss|]. split; [intros b N; now apply PM.gso|].
  split; auto. split; auto. intros b blk. simpl. destruct (Pos.eq_dec b (next_blk s)) as [->|N].
  - intros _. lia.
  - rewrite PM.gso by auto. intros F. apply W in F. lia.
Qed.

Lemma add_levels_facts lv : forall s, wf_heap s ->
  let s1 := fst (add_levels s lv) in
  (next_blk s <= next_blk s1)%positive /\
  (forall b, (b < next_blk s)%positive -> PM.find b (heap s1) = PM.find b (heap s)) /\
  (forall b x, (next_blk s <= b)%positive -> PM.find b (heap s1) = Some x -> b_float x = false) /\
  tensors s1 = tensors s /\ wf_heap s1.
Proof.
  induction lv as [|[[pos crd]|] r IH]; intros s W; cbn [add_levels].
  - simpl. split; [lia|]. split; auto. split; auto. intros b x L F. apply W in F. lia.
  - match goal with |- context [add_block s ?a1 ?a2 ?a3 ?a4] =>
      destruct (add_block_facts s a1 a2 a3 a4 W) as (N1 & F1 & O1 & T1 & W1 & _);
      destruct (add_block s a1 a2 a3 a4) as [s1 p] end. cbn [fst] in *.
    match goal with |- context [add_block s1 ?a1 ?a2 ?a3 ?a4] =>
      destruct (add_block_facts s1 a1 a2 a3 a4 W1) as (N2 & F2 & O2 & T2 & W2 & _);
      destruct (add_block s1 a1 a2 a3 a4) as [s2 c] end. cbn [fst] in *.
    destruct (IH s2 W2) as (N3 & O3 & I3 & T3 & W3). destruct (add_levels s2 r) as [s3 l]. cbn [fst] in *.
    split; [lia|]. split; [|split; [|split; [congruence|exact W3]]].
    + intros b L. rewrite O3 by lia. rewrite O2 by lia. apply O1. lia.
    + intros b x L F. destruct (Pos.ltb_spec b (next_blk s2)) as [Lt|Ge]; [|eauto].
      rewrite O3 in F by exact Lt. destruct (Pos.eq_dec b (next_blk s1)) as [->|Q2].
      * rewrite F2 in F. inv F. reflexivity.
      * rewrite O2 in F by exact Q2. destruct (Pos.eq_dec b (next_blk s)) as [->|Q1].
        -- rewrite F1 in F. inv F. reflexivity.
        -- rewrite O1 in F by exact Q1. apply W in F. lia.
  - destruct (IH s W) as (N3 & O3 & I3 & T3 & W3). destruct (add_levels s r) as [s3 l]. cbn [fst] in *. auto.
Qed.

(** an input tensor: its value block is the one float block among the new blocks *)
Lemma add_tensor_facts s id t : wf_heap s -> ti_output t = false ->
  let f := add_tensor s id t in
  (next_blk s <= next_blk f)%positive /\ wf_heap f /\
  (forall b, (b < next_blk s)%positive -> PM.find b (heap f) = PM.find b (heap s)) /\
  exists bv tsk, (next_blk s <= bv < next_blk f)%positive /\
    PM.find id (tensors f) = Some tsk /\ t_vals tsk = VPtr bv 0 /\
    PM.find bv (heap f) = Some (mkB (ti_vals t)) /\
    forall b x, (next_blk s <= b)%positive -> PM.find b (heap f) = Some x -> b_float x = true -> b = bv.
Proof.
  intros W O. unfold add_tensor. rewrite O.
  destruct (add_levels_facts (ti_levels t) s W) as (N1 & O1 & I1 & T1 & W1).
  destruct (add_levels s (ti_levels t)) as [s1 idx]. cbn [fst] in *.
  match goal with |- context [add_block s1 ?a1 ?a2 ?a3 ?a4] =>
    destruct (add_block_facts s1 a1 a2 a3 a4 W1) as (N2 & F2 & O2 & T2 & W2 & P2);
    destruct (add_block s1 a1 a2 a3 a4) as [s2 v] end. cbn [fst snd] in *. subst v.
  simpl. split; [lia|]. split; [exact W2|]. split.
  - intros b L. rewrite O2 by lia. apply O1. exact L.
  - exists (next_blk s1). eexists. split; [lia|]. split; [apply PM.gss|]. split; [reflexivity|].
    split; [exact F2|]. intros b x L F Fl. destruct (Pos.eq_dec b (next_blk s1)) as [->|Q]; auto.
    rewrite O2 in F by exact Q. rewrite (I1 _ _ L F) in Fl. discriminate.
Qed.

Lemma init_tensors_layout ts : forall s id, wf_heap s -> Forall (fun t => ti_output t = false) ts ->
  let f := fst (init_tensors s id ts) in
  (next_blk s <= next_blk f)%positive /\
  (forall b, (b < next_blk s)%positive -> PM.find b (heap f) = PM.find b (heap s)) /\
  (forall k t, nth_error ts k = Some t ->
     exists bv tsk, (next_blk s <= bv)%positive /\
       PM.find (Pos.of_nat (Pos.to_nat id + k)) (tensors f) = Some tsk /\ t_vals tsk = VPtr bv 0 /\
       PM.find bv (heap f) = Some (mkB (ti_vals t))) /\
  (forall b x, (next_blk s <= b)%positive -> PM.find b (heap f) = Some x -> b_float x = true ->
     exists k t tsk, nth_error ts k = Some t /\
       PM.find (Pos.of_nat (Pos.to_nat id + k)) (tensors f) = Some tsk /\ t_vals tsk = VPtr b 0).
Proof.
  induction ts as [|t r IH]; intros s id W Fa; cbn [init_tensors].
  - simpl. split; [lia|]. split; auto. split.
    + intros k t H. destruct k; discriminate.
    + intros b x L F. apply W in F. lia.
  - inv Fa. destruct (add_tensor_facts s id t W H1) as (N1 & W1 & O1 & bv & tsk & Rg & Ft & Vt & Fb & Un).
    destruct (IH (add_tensor s id t) (Pos.succ id) W1 H2) as (N2 & O2 & K2 & J2).
    pose proof (init_tensors_other r (add_tensor s id t) (Pos.succ id)) as Ot.
    destruct (init_tensors (add_tensor s id t) (Pos.succ id) r) as [f args]. cbn [fst] in *.
    assert (Eid : forall k, Pos.of_nat (Pos.to_nat (Pos.succ id) + k) = Pos.of_nat (Pos.to_nat id + S k)).
    { intros k. f_equal. lia. }
    split; [lia|]. split; [|split].
    + intros b L. rewrite O2 by lia. apply O1. exact L.
    + intros k t0 Hk. destruct k as [|k]; simpl in Hk.
      * inv Hk. exists bv, tsk. split; [lia|]. rewrite Nat.add_0_r, Pos2Nat.id.
        rewrite (Ot f args id eq_refl) by lia. rewrite O2 by lia. auto.
      * destruct (K2 k t0 Hk) as (bv' & tsk' & L' & F' & V' & B'). exists bv', tsk'.
        rewrite <- Eid. split; [lia|]. auto.
    + intros b x L F Fl. destruct (Pos.ltb_spec b (next_blk (add_tensor s id t))) as [Lt|Ge].
      * rewrite O2 in F by exact Lt. pose proof (Un _ _ L F Fl) as ->.
        exists 0%nat, t, tsk. simpl. split; auto. rewrite Nat.add_0_r, Pos2Nat.id.
        rewrite (Ot f args id eq_refl) by lia. auto.
      * destruct (J2 _ _ Ge F Fl) as (k & t0 & tsk' & Hk & F' & V'). exists (S k), t0, tsk'.
        rewrite <- Eid. auto.
Qed.

(** * [set_input_vals] *)

Definition points (s : state) (id b : positive) : Prop :=
  exists tsk, PM.find id (tensors s) = Some tsk /\ t_vals tsk = VPtr b 0.

Lemma points_fun s id b b' : points s id b -> points s id b' -> b = b'.
Proof. intros (t1 & F1 & V1) (t2 & F2 & V2). rewrite F1 in F2. inv F2. congruence. Qed.

Lemma set_input_vals_spec s id vs :
  tensors (set_input_vals s id vs) = tensors s /\ next_blk (set_input_vals s id vs) = next_blk s /\
  forall b,
    match PM.find b (heap s) with
    | None => PM.find b (heap (set_input_vals s id vs)) = None
    | Some x =>
        (points s id b /\
         PM.find b (heap (set_input_vals s id vs)) = Some (mkBlock true (b_len x) (vcells vs) true (b_input x))) \/
        (~ points s id b /\ PM.find b (heap (set_input_vals s id vs)) = Some x)
    end.
Proof.
  unfold set_input_vals.
  destruct (PM.find id (tensors s)) as [tsk|] eqn:Ft.
  2:{ split; auto. split; auto. intros b. destruct (PM.find b (heap s)); auto. right. split; auto.
      intros (t & F & _). congruence. }
  destruct (t_vals tsk) as [z0|f0|b0|blk off| |t0|t0|t0|t0 l0] eqn:Vt;
    try (split; auto; split; auto; intros b; destruct (PM.find b (heap s)); auto; right; split; auto;
         intros (t & F & V); rewrite Ft in F; inv F; congruence).
  destruct off;
    try (split; auto; split; auto; intros b; destruct (PM.find b (heap s)); auto; right; split; auto;
         intros (t & F & V); rewrite Ft in F; inv F; congruence).
  destruct (PM.find blk (heap s)) as [x0|] eqn:Fb.
  2:{ split; auto. split; auto. intros b. destruct (PM.find b (heap s)) eqn:Q; auto. right. split; auto.
      intros (t & F & V). rewrite Ft in F. inv F. rewrite Vt in V. inv V. congruence. }
  simpl. split; auto. split; auto. intros b. destruct (Pos.eq_dec b blk) as [->|N].
  - rewrite Fb, PM.gss. left. split; auto. exists tsk. auto.
  - rewrite PM.gso by exact N. destruct (PM.find b (heap s)); auto. right. split; auto.
    intros (t & F & V). rewrite Ft in F. inv F. rewrite Vt in V. inv V. congruence.
Qed.

Definition rv (R : list (positive * list F)) (c : state) : state :=
  fold_left (fun s '(id, vs) => set_input_vals s id vs) R c.

Lemma rv_spec R : forall c,
  tensors (rv R c) = tensors c /\ next_blk (rv R c) = next_blk c /\
  forall b,
    match PM.find b (heap c) with
    | None => PM.find b (heap (rv R c)) = None
    | Some x =>
        (PM.find b (heap (rv R c)) = Some x /\ forall id vs, In (id, vs) R -> ~ points c id b) \/
        (exists id vs, In (id, vs) R /\ points c id b /\
           PM.find b (heap (rv R c)) = Some (mkBlock true (b_len x) (vcells vs) true (b_input x)))
    end.
Proof.
  induction R as [|[id vs] r IH]; intros c; unfold rv; cbn [fold_left].
  - split; auto. split; auto. intros b. destruct (PM.find b (heap c)); auto.
  - fold (rv r (set_input_vals c id vs)).
    destruct (set_input_vals_spec c id vs) as (T1 & N1 & H1).
    destruct (IH (set_input_vals c id vs)) as (T2 & N2 & H2).
    split; [congruence|]. split; [congruence|]. intros b. specialize (H1 b). specialize (H2 b).
    assert (PT : forall i, points (set_input_vals c id vs) i b <-> points c i b).
    { intros i. unfold points. rewrite T1. tauto. }
    destruct (PM.find b (heap c)) as [x|] eqn:Fc.
    + destruct H1 as [[P1 F1]|[P1 F1]]; rewrite F1 in H2.
      * destruct H2 as [[F2 No]|(i & v & I & P & F2)].
        -- right. exists id, vs. split; [now left|]. split; auto.
        -- right. exists i, v. split; [now right|]. split; [now apply PT|]. exact F2.
      * destruct H2 as [[F2 No]|(i & v & I & P & F2)].
        -- left. split; auto. intros i v [Q|I]; [inv Q; exact P1|]. intros P. apply (No i v I). now apply PT.
        -- right. exists i, v. split; [now right|]. split; [now apply PT|]. exact F2.
    + rewrite H1 in H2. exact H2.
Qed.

(** the re-valuation list the harness uses: every input tensor, in order *)
Definition revals (ts' : list tin) : list (positive * list F) :=
  combine (pseq 2 (List.length (tl ts'))) (map ti_vals (tl ts')).

Lemma revals_in_gen rest' : forall id0 id vs,
  In (id, vs) (combine (pseq id0 (List.length rest')) (map ti_vals rest')) ->
  exists k t', nth_error rest' k = Some t' /\ id = Pos.of_nat (Pos.to_nat id0 + k) /\ vs = ti_vals t'.
Proof.
  induction rest' as [|a r IH]; intros id0 id vs I; simpl in I; [contradiction|].
  destruct I as [Q|I].
  - inv Q. exists 0%nat, a. simpl. split; auto. split; auto. now rewrite Nat.add_0_r, Pos2Nat.id.
  - destruct (IH _ _ _ I) as (k & t' & Hk & -> & ->). exists (S k), t'. simpl. split; auto. split; auto.
    f_equal. lia.
Qed.

Lemma revals_has_gen rest' : forall id0 k t', nth_error rest' k = Some t' ->
  In (Pos.of_nat (Pos.to_nat id0 + k), ti_vals t') (combine (pseq id0 (List.length rest')) (map ti_vals rest')).
Proof.
  induction rest' as [|a r IH]; intros id0 k t' Hk; [destruct k; discriminate|].
  destruct k as [|k]; simpl in *.
  - inv Hk. left. now rewrite Nat.add_0_r, Pos2Nat.id.
  - right. replace (Pos.to_nat id0 + S k)%nat with (Pos.to_nat (Pos.succ id0) + k)%nat by lia. now apply IH.
Qed.

Lemma init_layout t0 rest : out_first (t0 :: rest) ->
  let st0 := fst (init_state (t0 :: rest)) in
  (forall k t, nth_error rest k = Some t ->
     exists bv tsk, PM.find (Pos.of_nat (2 + k)) (tensors st0) = Some tsk /\ t_vals tsk = VPtr bv 0 /\
                    PM.find bv (heap st0) = Some (mkB (ti_vals t))) /\
  (forall b x, PM.find b (heap st0) = Some x -> b_float x = true ->
     exists k t tsk, nth_error rest k = Some t /\
       PM.find (Pos.of_nat (2 + k)) (tensors st0) = Some tsk /\ t_vals tsk = VPtr b 0).
Proof.
  intros [O F] st0. unfold st0, init_state. cbn [init_tensors]. change (Pos.succ 1) with 2%positive.
  assert (W1 : wf_heap (add_tensor empty_state 1 t0)).
  { apply add_tensor_wf. intros b blk Fb. simpl in Fb. rewrite PM.gempty in Fb. discriminate. }
  destruct (init_tensors_layout rest (add_tensor empty_state 1 t0) 2%positive W1 F) as (_ & _ & K & J).
  destruct (init_tensors (add_tensor empty_state 1 t0) 2 rest) as [f args]. cbn [fst] in *.
  change (Pos.to_nat 2) with 2%nat in *.
  assert (N1 : next_blk (add_tensor empty_state 1 t0) = 1%positive).
  { unfold add_tensor. rewrite O. reflexivity. }
  split.
  - intros k t Hk. destruct (K k t Hk) as (bv & tsk & _ & X). exists bv, tsk. exact X.
  - intros b x Fb Fl. apply (J b x); auto. rewrite N1. lia.
Qed.

Definition dummy_roles : roles := mkRoles "" [] [] [] [] [] "".

Lemma tin_sim_inputs rest rest' : Forall2 tin_sim rest' rest ->
  Forall (fun t => ti_output t = false) rest -> Forall (fun t => ti_output t = false) rest'.
Proof.
  induction 1 as [|t' t l' l St Sr IH]; intros O; constructor; inversion O; subst; auto.
  destruct St as (_ & _ & So & _). congruence.
Qed.

Lemma tin_sim_out_first ts ts' : Forall2 tin_sim ts' ts -> out_first ts -> out_first ts'.
Proof.
  intros F O. destruct ts as [|t0 rest]; [contradiction|].
  inversion F as [|t' t l' l St Sr]; subst. destruct O as [O1 O2].
  destruct St as (_ & _ & So & _). split; [congruence|]. eapply tin_sim_inputs; eauto.
Qed.

(** Re-valuing all the inputs of a state that compute may be re-run in (for [ts]) gives a state
    compute may be re-run in for [ts'] -- the same state the harness would lay out for [ts'], as far
    as the input blocks go *)
Theorem reval_pre ts ts' b' c : out_first ts -> Forall2 tin_sim ts' ts ->
  recompute_pre (fst (init_state ts)) b' c ->
  recompute_pre (fst (init_state ts')) b' (rv (revals ts') c).
Proof.
  intros OF FS (C1 & C2 & C3 & C4 & C5).
  pose proof (tin_sim_out_first _ _ FS OF) as OF'.
  destruct (RI_init_state dummy_roles [] ts' ts FS) as [RI0 _].
  pose proof (ra_tn _ _ _ _ RI0) as Tn. simpl in Tn.
  destruct ts as [|t0 rest]; [contradiction|]. destruct ts' as [|t0' rest']; [contradiction|].
  inversion FS as [|t1' t1 l1' l1 St0 FR]; subst.
  destruct (init_layout t0 rest OF) as [K J]. destruct (init_layout t0' rest' OF') as [K' J'].
  set (st0 := fst (init_state (t0 :: rest))) in *. set (st0' := fst (init_state (t0' :: rest'))) in *.
  unfold revals. cbn [tl].
  set (R := combine (pseq 2 (List.length rest')) (map ti_vals rest')).
  destruct (rv_spec R c) as (Tr & Nr & Hr).
  (* an element of R that points to [b] *)
  assert (PT : forall id vs b, In (id, vs) R -> points c id b ->
            exists t t', tin_sim t' t /\ vs = ti_vals t' /\
              PM.find b (heap c) = Some (mkB (ti_vals t)) /\ PM.find b (heap st0') = Some (mkB (ti_vals t'))).
  { intros id vs b I P. destruct (revals_in_gen _ _ _ _ I) as (k & t' & Hk' & -> & ->).
    change (Pos.to_nat 2) with 2%nat in *.
    assert (exists t, nth_error rest k = Some t /\ tin_sim t' t) as (t & Hk & St).
    { clear - FR Hk'. revert k Hk'. induction FR; intros k Hk'; destruct k; try discriminate; simpl in *.
      - inv Hk'. eauto.
      - eauto. }
    destruct (K k t Hk) as (bv & tsk & Ft & Vt & Fb). destruct (K' k t' Hk') as (bv' & tsk' & Ft' & Vt' & Fb').
    assert (N1 : Pos.of_nat (2 + k) <> 1%positive) by lia.
    pose proof (C2 _ _ N1 Ft) as Fc. destruct P as (tp & Fp & Vp). rewrite Fc in Fp. inv Fp.
    rewrite Vt in Vp. inv Vp. rewrite Tn, Ft in Ft'. inv Ft'. rewrite Vt in Vt'. inv Vt'.
    exists t, t'. split; [exact St|]. split; [reflexivity|]. split; [apply C1; exact Fb|exact Fb']. }
  split; [|split; [|split; [|split]]].
  - (* the blocks of the re-valued initial state *)
    intros b x' Fx'. pose proof (ra_heap _ _ _ _ RI0 b) as Hb. simpl in Hb. fold st0 st0' in Hb. rewrite Fx' in Hb.
    destruct (PM.find b (heap st0)) as [x|] eqn:Fx; [|contradiction].
    destruct Hb as (H1 & H2 & H3 & H4 & H5).
    specialize (Hr b). rewrite (C1 _ _ Fx) in Hr.
    destruct (b_float x') eqn:Fl.
    + destruct (J' b x' Fx' Fl) as (k & t' & tsk' & Hk' & Ft' & Vt').
      assert (Pc : points c (Pos.of_nat (2 + k)) b).
      { exists tsk'. split; auto. apply C2; [lia|]. fold st0. rewrite <- Tn. exact Ft'. }
      destruct Hr as [[_ No]|(id & vs & I & P & Fy)].
      * exfalso. apply (No _ _ (revals_has_gen rest' 2%positive k t' Hk')). exact Pc.
      * destruct (PT _ _ _ I P) as (t & t2 & St & -> & Fcb & Fsb). rewrite Fy. rewrite Fx' in Fsb. inv Fsb.
        rewrite (C1 _ _ Fx) in Fcb. inv Fcb. simpl. unfold mkB. destruct St as (_ & _ & _ & Sv).
        unfold zlen. now rewrite Sv.
    + assert (x' = x).
      { destruct x', x. simpl in *. rewrite H5 by auto. congruence. }
      subst x'. destruct Hr as [[Fy _]|(id & vs & I & P & Fy)]; [exact Fy|].
      destruct (PT _ _ _ I P) as (t & t2 & _ & _ & Fcb & _). rewrite (C1 _ _ Fx) in Fcb. inv Fcb. discriminate.
  - intros t ts Nt F. rewrite Tr. apply C2; auto. fold st0. rewrite <- Tn. exact F.
  - congruence.
  - destruct C4 as [N4 S4]. split; [congruence|]. intros b. specialize (S4 b). specialize (Hr b).
    destruct (PM.find b (heap b')) as [xb|], (PM.find b (heap c)) as [x|] eqn:Fc; try contradiction.
    + destruct Hr as [[Fy _]|(id & vs & I & P & Fy)]; rewrite Fy; auto.
      destruct (PT _ _ _ I P) as (t & t2 & _ & _ & Fcb & _). rewrite Fc in Fcb. inv Fcb. simpl in *.
      destruct S4 as (X1 & X2 & X3 & X4). auto.
    + now rewrite Hr.
  - intros b x F Fl. specialize (Hr b). rewrite (C5 _ _ F Fl) in Hr.
    destruct Hr as [[Fy _]|(id & vs & I & P & Fy)]; [exact Fy|].
    destruct (PT _ _ _ I P) as (t & t2 & _ & _ & Fcb & _). rewrite (C5 _ _ F Fl) in Fcb. inv Fcb. discriminate.
Qed.

(** * Histories with re-valued inputs *)

Lemma tin_sim_sym_trans tsA tsB ts : Forall2 tin_sim tsA ts -> Forall2 tin_sim tsB ts -> Forall2 tin_sim tsB tsA.
Proof.
  intros FA. revert tsB. induction FA as [|a t la l Sa Fa IH]; intros tsB FB;
    inversion FB as [|b t' lb l' Sb Fb]; subst; constructor.
  - destruct Sa as (A1 & A2 & A3 & A4). destruct Sb as (B1 & B2 & B3 & B4). repeat split; congruence.
  - auto.
Qed.

Lemma run_check_inv fuel f ts exp vals exact : run_check fuel f ts exp vals exact = VOk ->
  exists a' tE, call (fuel_of fuel) f (snd (init_state ts)) (fst (init_state ts)) = Returned a' (VInt 0) tE /\
                check_output a' 1%positive exp vals exact = VOk.
Proof.
  unfold run_check. destruct (init_state ts) as [st args]. simpl.
  destruct (call (fuel_of fuel) f args st) as [|a' v tE| |]; try discriminate.
  destruct v as [z| | | | | | | |]; try discriminate. destruct z; try discriminate. eauto.
Qed.

Definition asm_done (fe fa : function_definition) (fuel : Z) (ts : list tin) (b' : state) : Prop :=
  recompute_pre (fst (init_state ts)) b' b' /\
  (forall tsb bV o x, PM.find 1%positive (tensors b') = Some tsb -> t_vals tsb = VPtr bV o ->
     PM.find bV (heap b') = Some x -> b_input x = false) /\
  (forall ts' a' tE, Forall2 tin_sim ts' ts ->
     call (fuel_of fuel) fe (snd (init_state ts')) (fst (init_state ts')) = Returned a' (VInt 0) tE ->
     RA0 fe fa a' b').

Lemma assemble_phase fe fa fuel ts e1 v1 x1 :
  assemble_cert fe fa = true -> input_safe_cert fa = true -> out_first ts ->
  run_check fuel fe ts e1 v1 x1 = VOk ->
  exists b' trA, call (fuel_of fuel) fa (snd (init_state ts)) (fst (init_state ts)) = Returned b' (VInt 0) trA /\
                 asm_done fe fa fuel ts b'.
Proof.
  intros CA IS OF RCk. destruct (run_check_inv _ _ _ _ _ _ RCk) as (a1 & tE & CE & _).
  pose proof (assemble_cert_runs fe fa CA (fuel_of fuel) ts ts (tin_sim_refl _)) as AR. rewrite CE in AR.
  destruct AR as (b' & trA & CAl & R0 & _). exists b', trA. split; [exact CAl|].
  destruct ts as [|t0 rest]; [contradiction|].
  destruct (init_state_facts t0 rest OF) as (Args & T1 & NO).
  pose proof (init_state_wf (t0 :: rest)) as WF. pose proof (init_state_ai (t0 :: rest)) as AI.
  pose proof (init_state_out_clean t0 rest (proj1 OF)) as OC.
  pose proof (call_preserves_inputs _ _ _ _ _ _ _ WF CAl) as [Fr1 Fr2].
  destruct (input_safe_cert_sound fa IS (fuel_of fuel) _ _ OC) as [_ OCb].
  destruct (OCb _ _ _ CAl) as [OCb' _].
  split; [|split].
  - split; [intros b x F; apply Fr1; [exact F|exact (AI _ _ F)]|].
    split; [intros t tsk Nt F; apply Fr2; [exact F|exact (NO _ _ F Nt)]|].
    split; [reflexivity|]. split; [apply same_shape_refl|auto].
  - intros tsb bV o x F1 Vq Fb. rewrite Args in OCb'. simpl in OCb'.
    destruct (OCb' _ F1) as (_ & Cp & _). rewrite Vq in Cp. simpl in Cp.
    destruct (b_input x) eqn:Q; auto. exfalso. apply Cp. exists x. auto.
  - intros ts' a' tE' FS CE'.
    pose proof (assemble_cert_runs fe fa CA (fuel_of fuel) (t0 :: rest) ts' FS) as AR. rewrite CE' in AR.
    destruct AR as (b2 & tr2 & CA2 & R2 & _). rewrite CAl in CA2. inv CA2. exact R2.
Qed.

(** one compute step: plain (on the inputs [tsA] the state was prepared for) *)
Lemma plain_step fe fa fc fuel ts b' c tsA exp vals exact :
  compute_cert3 fe fc = true -> compute_store_cert fc = true -> out_first ts ->
  asm_done fe fa fuel ts b' -> Forall2 tin_sim tsA ts ->
  recompute_pre (fst (init_state tsA)) b' c ->
  run_check fuel fe tsA exp vals exact = VOk ->
  (exists c' tr, call (fuel_of fuel) fc (snd (init_state ts)) c = Returned c' (VInt 0) tr /\
                 check_output c' 1%positive exp vals exact = VOk /\
                 recompute_pre (fst (init_state tsA)) b' c') \/
  call (fuel_of fuel) fc (snd (init_state ts)) c = Fail EOutOfBounds.
Proof.
  intros CC CS OF (_ & NI & RAall) FS Pre RCk.
  destruct (run_check_inv _ _ _ _ _ _ RCk) as (a' & tE & CE & CO).
  pose proof (tin_sim_out_first _ _ FS OF) as OFA.
  destruct (RI_init_state dummy_roles [] tsA ts FS) as [_ EA].
  destruct tsA as [|t0 rest]; [contradiction|].
  pose proof (compute_after fe fa fc CC CS (fuel_of fuel) t0 rest exp vals exact OFA a' tE b' c CE CO
                (RAall _ _ _ FS CE) NI Pre) as X.
  rewrite EA in X. exact X.
Qed.

(** one compute step after re-valuing all inputs to [tsB] *)
Lemma reval_step fe fa fc fuel ts b' c tsA tsB exp vals exact :
  compute_cert3 fe fc = true -> compute_store_cert fc = true -> out_first ts ->
  asm_done fe fa fuel ts b' ->
  Forall2 tin_sim tsA ts -> Forall2 tin_sim tsB ts ->
  recompute_pre (fst (init_state tsA)) b' c ->
  run_check fuel fe tsB exp vals exact = VOk ->
  (exists c' tr, call (fuel_of fuel) fc (snd (init_state ts)) (rv (revals tsB) c) = Returned c' (VInt 0) tr /\
                 check_output c' 1%positive exp vals exact = VOk /\
                 recompute_pre (fst (init_state tsB)) b' c') \/
  call (fuel_of fuel) fc (snd (init_state ts)) (rv (revals tsB) c) = Fail EOutOfBounds.
Proof.
  intros CC CS OF AD FA FB Pre RCk. apply (plain_step fe fa fc fuel ts b' _ tsB exp vals exact CC CS OF AD FB); auto.
  apply (reval_pre tsA tsB); auto.
  - eapply tin_sim_out_first; eauto.
  - eapply tin_sim_sym_trans; eauto.
Qed.

Lemma run_steps_one fuel f R r args c :
  run_steps fuel ((f, R) :: r) args c =
  match call (fuel_of fuel) f args (rv R c) with
  | Returned st' (VInt 0) _ => run_steps fuel r args st'
  | Returned _ _ _ => RBad (VMismatch "return value")
  | Normal _ _ => RBad VNoReturn
  | Fail e => RBad (VFail e)
  | OutOfFuel => RBad VFuel
  end.
Proof. reflexivity. Qed.

(** assemble; compute; compute (inputs re-valued to [ts2]); compute (re-valued to [ts3]) -- the
    history shape of the C04 sweep *)
Theorem kinds_history_revalued fe fa fc :
  kinds_cert fe fa fc = true -> input_safe_cert fa = true -> compute_store_cert fc = true ->
  forall fuel ts ts2 ts3 e1 v1 x1 e2 v2 x2 exp vals exact,
  out_first ts -> Forall2 tin_sim ts2 ts -> Forall2 tin_sim ts3 ts ->
  run_check fuel fe ts e1 v1 x1 = VOk ->
  run_check fuel fe ts2 e2 v2 x2 = VOk ->
  run_check fuel fe ts3 exp vals exact = VOk ->
  hist_ok (run_history fuel [(fa, []); (fc, []); (fc, revals ts2); (fc, revals ts3)] ts exp vals exact).
Proof.
  intros K IS CS fuel ts ts2 ts3 e1 v1 x1 e2 v2 x2 exp vals exact OF F2 F3 R1 R2 R3.
  unfold kinds_cert in K. apply andb_prop in K. destruct K as [CA CC].
  destruct (assemble_phase fe fa fuel ts _ _ _ CA IS OF R1) as (b' & trA & CAl & AD).
  pose proof (plain_step fe fa fc fuel ts b' b' ts e1 v1 x1 CC CS OF AD (tin_sim_refl _) (proj1 AD) R1) as S1.
  unfold run_history. destruct (init_state ts) as [s0 a0] eqn:E0. cbn [fst snd] in *.
  rewrite run_steps_one. change (rv [] s0) with s0. rewrite CAl.
  rewrite run_steps_one. change (rv [] b') with b'.
  destruct S1 as [(c1 & t1 & C1 & _ & P1)|C1]; rewrite C1; [|right; reflexivity].
  rewrite run_steps_one.
  pose proof (reval_step fe fa fc fuel ts b' c1 ts ts2 e2 v2 x2 CC CS OF AD (tin_sim_refl _) F2) as S2.
  rewrite E0 in S2. cbn [fst snd] in S2.
  destruct (S2 P1 R2) as [(c2 & t2 & C2 & _ & P2)|C2]; rewrite C2; [|right; reflexivity].
  rewrite run_steps_one.
  pose proof (reval_step fe fa fc fuel ts b' c2 ts2 ts3 exp vals exact CC CS OF AD F2 F3 P2 R3) as S3.
  rewrite E0 in S3. cbn [fst snd] in S3.
  destruct S3 as [(c3 & t3 & C3 & O3 & P3)|C3]; rewrite C3; [|right; reflexivity].
  cbn [run_steps]. left. exact O3.
Qed.

(** ... and with a single re-valuation *)
Theorem kinds_history_revalued1 fe fa fc :
  kinds_cert fe fa fc = true -> input_safe_cert fa = true -> compute_store_cert fc = true ->
  forall fuel ts ts3 e1 v1 x1 exp vals exact,
  out_first ts -> Forall2 tin_sim ts3 ts ->
  run_check fuel fe ts e1 v1 x1 = VOk ->
  run_check fuel fe ts3 exp vals exact = VOk ->
  hist_ok (run_history fuel [(fa, []); (fc, []); (fc, revals ts3)] ts exp vals exact).
Proof.
  intros K IS CS fuel ts ts3 e1 v1 x1 exp vals exact OF F3 R1 R3.
  unfold kinds_cert in K. apply andb_prop in K. destruct K as [CA CC].
  destruct (assemble_phase fe fa fuel ts _ _ _ CA IS OF R1) as (b' & trA & CAl & AD).
  pose proof (plain_step fe fa fc fuel ts b' b' ts e1 v1 x1 CC CS OF AD (tin_sim_refl _) (proj1 AD) R1) as S1.
  unfold run_history. destruct (init_state ts) as [s0 a0] eqn:E0. cbn [fst snd] in *.
  rewrite run_steps_one. change (rv [] s0) with s0. rewrite CAl.
  rewrite run_steps_one. change (rv [] b') with b'.
  destruct S1 as [(c1 & t1 & C1 & _ & P1)|C1]; rewrite C1; [|right; reflexivity].
  rewrite run_steps_one.
  pose proof (reval_step fe fa fc fuel ts b' c1 ts ts3 exp vals exact CC CS OF AD (tin_sim_refl _) F3) as S3.
  rewrite E0 in S3. cbn [fst snd] in S3.
  destruct (S3 P1 R3) as [(c3 & t3 & C3 & O3 & P3)|C3]; rewrite C3; [|right; reflexivity].
  cbn [run_steps]. left. exact O3.
Qed.
