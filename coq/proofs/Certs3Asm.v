(** evaluate ~ assemble: soundness of [assemble_cert].

    Relation [RA] between a state of the evaluate run and a state of the assemble run: same block
    identifiers, allocation counter and tensor structs; every block has the same element type,
    length, liveness and ownership; the CELLS of [double] blocks may differ (so the two runs may
    even start from inputs with different values); variables agree except the ones only dropped
    statements assign.  The evaluate state is well TYPED ([TY]): variables declared [int32_t*] hold
    NULL or a pointer into an int32 block, variables declared [double*] NULL or a pointer into a
    double block, same for the fields of the tensor structs; the allocation counter is fresh. *)

From Coq Require Import ZArith Bool List String Lia FMapPositive.
From Flocq Require Import Core BinarySingleNaN.
From TV Require Import spec.Num gen.IRAst spec.IRSem proofs.Certs2Base proofs.Certs3Defs proofs.Certs3Base.
Import ListNotations.
Open Scope Z_scope.

Local Arguments fadd : simpl never.
Local Arguments fsub : simpl never.
Local Arguments fmul : simpl never.
Local Arguments chk32 : simpl never.
Local Arguments chkfin : simpl never.

Definition isint (h : PM.t block) (b : positive) : Prop :=
  exists blk, PM.find b h = Some blk /\ b_float blk = false.
Definition isfloat (h : PM.t block) (b : positive) : Prop :=
  exists blk, PM.find b h = Some blk /\ b_float blk = true.
Definition ptr_int (h : PM.t block) (v : value) : Prop :=
  match v with VPtr b _ => isint h b | _ => True end.
Definition ptr_float (h : PM.t block) (v : value) : Prop :=
  match v with VPtr b _ => isfloat h b | _ => True end.

Definition hext (h h' : PM.t block) : Prop :=
  forall k blk, PM.find k h = Some blk ->
    exists blk', PM.find k h' = Some blk' /\ b_float blk' = b_float blk.

Lemma hext_refl h : hext h h.
Proof. intros k blk H. eauto. Qed.

Lemma ptr_int_hext h h' v : hext h h' -> ptr_int h v -> ptr_int h' v.
Proof.
  intros X. destruct v; simpl; auto. intros (bk & F & Q). destruct (X _ _ F) as (blk' & F' & Q').
  exists blk'. split; auto. congruence.
Qed.

Lemma ptr_float_hext h h' v : hext h h' -> ptr_float h v -> ptr_float h' v.
Proof.
  intros X. destruct v; simpl; auto. intros (bk & F & Q). destruct (X _ _ F) as (blk' & F' & Q').
  exists blk'. split; auto. congruence.
Qed.

Lemma hext_add h k blk :
  (forall old, PM.find k h = Some old -> b_float blk = b_float old) -> hext h (PM.add k blk h).
Proof.
  intros X j old F. destruct (Pos.eq_dec j k) as [->|N].
  - rewrite PM.gss. eexists. split; eauto.
  - rewrite PM.gso by exact N. eauto.
Qed.

Lemma hext_trans h1 h2 h3 : hext h1 h2 -> hext h2 h3 -> hext h1 h3.
Proof.
  intros A B k blk F. destruct (A _ _ F) as (b2 & F2 & Q2). destruct (B _ _ F2) as (b3 & F3 & Q3).
  exists b3. split; auto. congruence.
Qed.

Section ASM.
  Variable rl : roles.
  Variable DB : list string.

  Record TY (st : state) : Prop := mkTY {
    ty_ip : forall x t v, mem x (r_ip rl) = true -> lookup x (env st) = Some (t, Some v) ->
              ptr_int (heap st) v;
    ty_fp : forall x t v, mem x (r_fp rl) = true -> lookup x (env st) = Some (t, Some v) ->
              ptr_float (heap st) v;
    ty_tn : forall t ts, PM.find t (tensors st) = Some ts ->
              ptr_float (heap st) (t_vals ts) /\
              forall p c, In (p, c) (t_idx ts) -> ptr_int (heap st) p /\ ptr_int (heap st) c;
    ty_fresh : forall b, (next_blk st <= b)%positive -> PM.find b (heap st) = None
  }.

  Definition hrel (o1 o2 : option block) : Prop :=
    match o1, o2 with
    | None, None => True
    | Some x, Some y =>
        b_float x = b_float y /\ b_len x = b_len y /\ b_live x = b_live y /\
        b_input x = b_input y /\ (b_float x = false -> b_cells x = b_cells y)
    | _, _ => False
    end.

  Record RA (a b : state) : Prop := mkRA {
    ra_ty : TY a;
    ra_env : forall x, mem x DB = false -> lookup x (env a) = lookup x (env b);
    ra_nb : next_blk a = next_blk b;
    ra_tn : tensors a = tensors b;
    ra_heap : forall k, hrel (PM.find k (heap a)) (PM.find k (heap b))
  }.

  (** ** TY under state changes *)

  Lemma TY_heap st h' nb' :
    TY st -> hext (heap st) h' -> (forall b, (nb' <= b)%positive -> PM.find b h' = None) ->
    TY (mkState (env st) h' nb' (tensors st) (iters st)).
  Proof.
    intros [A B C D] X Fr. constructor; simpl.
    - intros. eapply ptr_int_hext; eauto.
    - intros. eapply ptr_float_hext; eauto.
    - intros t ts F. destruct (C _ _ F) as [C1 C2]. split.
      + eapply ptr_float_hext; eauto.
      + intros p c I. destruct (C2 _ _ I). split; eapply ptr_int_hext; eauto.
    - exact Fr.
  Qed.

  Lemma TY_set_var st x t v :
    TY st ->
    (mem x (r_ip rl) = true -> ptr_int (heap st) v) ->
    (mem x (r_fp rl) = true -> ptr_float (heap st) v) ->
    TY (with_env st (set_var x (t, Some v) (env st))).
  Proof.
    intros [A B C D] Hi Hf. constructor; simpl; auto.
    - intros y t0 v0 M L. rewrite lookup_set_var in L. destruct (String.eqb y x) eqn:Q.
      + apply String.eqb_eq in Q. subst. inv L. auto.
      + eauto.
    - intros y t0 v0 M L. rewrite lookup_set_var in L. destruct (String.eqb y x) eqn:Q.
      + apply String.eqb_eq in Q. subst. inv L. auto.
      + eauto.
  Qed.

  Lemma TY_tick st : TY st -> TY (tick st).
  Proof. intros [A B C D]. constructor; simpl; auto. Qed.

  (** ** loads *)

  Lemma load_rel a b blk off : RA a b -> isint (heap a) blk -> load a blk off = load b blk off.
  Proof.
    intros R (x & F & Q). pose proof (ra_heap _ _ R blk) as H. rewrite F in H.
    unfold load. rewrite F. destruct (PM.find blk (heap b)) as [y|]; [|contradiction].
    destruct H as (H1 & H2 & H3 & H4 & H5). rewrite <- H1, <- H2, <- H3, <- (H5 Q). reflexivity.
  Qed.

  Lemma tensor_of_rel a b t : RA a b -> tensor_of a t = tensor_of b t.
  Proof. intros R. unfold tensor_of. now rewrite (ra_tn _ _ R). Qed.

  Lemma index_value_rel a b v i : RA a b -> ptr_int (heap a) v -> index_value a v i = index_value b v i.
  Proof.
    intros R Pi. unfold index_value. destruct v; auto; destruct i; auto.
    - simpl in Pi. now rewrite (load_rel _ _ _ _ R Pi).
    - now rewrite (tensor_of_rel _ _ _ R).
    - now rewrite (tensor_of_rel _ _ _ R).
  Qed.

  Lemma attribute_value_rel a b v s : RA a b -> attribute_value a v s = attribute_value b v s.
  Proof. intros R. unfold attribute_value. destruct v; auto. now rewrite (tensor_of_rel _ _ _ R). Qed.

  Lemma eval_var_rel a b x : RA a b -> rdA DB x = true -> eval a (Var x) = eval b (Var x).
  Proof.
    intros R H. unfold rdA in H. apply negb_true_iff in H. simpl. now rewrite (ra_env _ _ R x H).
  Qed.

  Lemma eval_var_ty a x v t : TY a -> eval a (Var x) = Ok (v, t) ->
    (mem x (r_ip rl) = true -> ptr_int (heap a) v) /\ (mem x (r_fp rl) = true -> ptr_float (heap a) v).
  Proof.
    intros T H. simpl in H. destruct (lookup x (env a)) as [[ty [w|]]|] eqn:L; try discriminate.
    destruct (typed ty w); try discriminate. inv H. split; intros M.
    - eapply ty_ip; eauto.
    - eapply ty_fp; eauto.
  Qed.

  Lemma index_value_noptr st v i r t : index_value st v i = Ok (r, t) ->
    match v with VIndices _ => True | VDims _ => True | VPtr _ _ => True | _ => False end ->
    match r with VPtr _ _ => False | _ => True end.
  Proof.
    unfold index_value, bind. destruct v, i; try discriminate; intros H X; try contradiction.
    - destruct (load st blk (off + z)) eqn:L; try discriminate. inv H. apply load_shape in L.
      destruct r; tauto.
    - destruct (tensor_of st t0); try discriminate. destruct (nthZ_opt _ _); try discriminate.
      destruct (chk32 _); try discriminate. inv H. exact I.
    - inv H. exact I.
  Qed.

  Lemma eval_attr_unf st tgt s : eval st (AttributeAccess tgt s) =
    (do '(v, t1) <- eval st tgt; do r <- attribute_value st v s; Ok (r, t1)).
  Proof. reflexivity. Qed.

  Lemma eval_idx_unf st tgt idx : eval st (ArrayIndex tgt idx) =
    (do '(v, t1) <- eval st tgt; do '(i, t2) <- eval st idx; do '(r, t3) <- index_value st v i;
     Ok (r, t1 ++ t2 ++ t3)).
  Proof. reflexivity. Qed.

  Lemma eval_index_rel a b tgt idx : RA a b -> eval a tgt = eval b tgt -> eval a idx = eval b idx ->
    (forall v t, eval a tgt = Ok (v, t) -> ptr_int (heap a) v) ->
    eval a (ArrayIndex tgt idx) = eval b (ArrayIndex tgt idx).
  Proof.
    intros R E1 E2 Pv. rewrite !eval_idx_unf. rewrite <- E1, <- E2.
    destruct (eval a tgt) as [[v t1]|]; auto. cbn [bind].
    destruct (eval a idx) as [[i t2]|]; auto. cbn [bind].
    now rewrite (index_value_rel _ _ _ _ R (Pv _ _ eq_refl)).
  Qed.

  Lemma eval_attr_rel a b T s : RA a b -> rdA DB T = true ->
    eval a (AttributeAccess (Var T) s) = eval b (AttributeAccess (Var T) s).
  Proof.
    intros R H. rewrite !eval_attr_unf. rewrite <- (eval_var_rel _ _ _ R H).
    destruct (eval a (Var T)) as [[v t1]|]; auto. cbn [bind].
    now rewrite (attribute_value_rel _ _ _ _ R).
  Qed.

  Lemma eval_attr_noptr st T s v t : s <> "vals"%string ->
    eval st (AttributeAccess (Var T) s) = Ok (v, t) ->
    match v with VIndices _ => True | VDims _ => True | _ => False end.
  Proof.
    intros N H. rewrite eval_attr_unf in H. destruct (eval st (Var T)) as [[w t1]|]; try discriminate.
    cbn [bind] in H. destruct (attribute_value st w s) as [r|] eqn:AV; try discriminate. inv H.
    unfold attribute_value in AV. destruct w; try discriminate.
    destruct (String.eqb s "dimensions"); [inv AV; exact I|].
    destruct (String.eqb s "indices"); [inv AV; exact I|].
    destruct (String.eqb s "vals") eqn:Q; [apply String.eqb_eq in Q; contradiction|discriminate].
  Qed.

  Lemma eval_level_rel a b T k : RA a b -> rdA DB T = true ->
    eval a (ArrayIndex (AttributeAccess (Var T) "indices") (IntegerLiteral k)) =
    eval b (ArrayIndex (AttributeAccess (Var T) "indices") (IntegerLiteral k)).
  Proof.
    intros R H. apply eval_index_rel; [exact R | now apply eval_attr_rel | reflexivity |].
    intros v t E. apply eval_attr_noptr in E; [|discriminate]. destruct v; try contradiction; exact I.
  Qed.

  Lemma eval_level_noptr st T k v t :
    eval st (ArrayIndex (AttributeAccess (Var T) "indices") (IntegerLiteral k)) = Ok (v, t) ->
    match v with VPtr _ _ => False | _ => True end.
  Proof.
    intros H. rewrite eval_idx_unf, eval_attr_unf in H.
    destruct (eval st (Var T)) as [[w t1]|] eqn:E0; try discriminate. cbn [bind] in H.
    destruct (attribute_value st w "indices") as [r|] eqn:AV; try discriminate. cbn [bind] in H.
    destruct (eval st (IntegerLiteral k)) as [[i t2]|]; try discriminate. cbn [bind] in H.
    destruct (index_value st r i) as [[r2 t3]|] eqn:IX; try discriminate. inv H.
    eapply index_value_noptr; eauto.
    unfold attribute_value in AV. destruct w; try discriminate. simpl in AV. inv AV. exact I.
  Qed.

  Lemma eval_sexpA a b e : RA a b -> sexpA rl DB e = true -> eval a e = eval b e.
  Proof.
    intros R. induction e; simpl; intros H; try discriminate; try reflexivity;
      try (apply andb_prop in H; destruct H as [H1 H2]; rewrite (IHe1 H1), (IHe2 H2); reflexivity).
    - (* Var *) exact (eval_var_rel _ _ _ R H).
    - (* AttributeAccess *)
      destruct e; try discriminate. apply andb_prop in H. destruct H as [H1 H2].
      now apply eval_attr_rel.
    - (* ArrayIndex *)
      destruct e1 as [p| tgt at0 | tgt ix | | | | | | | | | | | | | | | | | | |]; try discriminate.
      + (* p[i] *)
        split_andb. apply eval_index_rel; [exact R | now apply eval_var_rel | auto |].
        intros v t Ev. destruct (eval_var_ty _ _ _ _ (ra_ty _ _ R) Ev) as [Ti _]. auto.
      + (* T->dimensions[i] *)
        destruct tgt; try discriminate. split_andb. apply String.eqb_eq in H1. subst at0.
        apply eval_index_rel; [exact R | now apply eval_attr_rel | auto |].
        intros v t E. apply eval_attr_noptr in E; [|discriminate]. destruct v; try contradiction; exact I.
      + (* T->indices[k][j] *)
        destruct tgt; try discriminate. destruct tgt; try discriminate.
        destruct ix; try discriminate. destruct e2; try discriminate. split_andb.
        apply String.eqb_eq in H0. subst attribute.
        apply eval_index_rel; [exact R | now apply eval_level_rel | reflexivity |].
        intros v t E. apply eval_level_noptr in E. destruct v; try contradiction; exact I.
    - (* BooleanToInteger *) now rewrite (IHe H).
  Qed.

  (** ** values of the typed right-hand side forms *)

  Lemma nthZ_opt_In {A} (l : list A) i x : nthZ_opt l i = Some x -> In x l.
  Proof. unfold nthZ_opt. destruct (i <? 0); try discriminate. apply nth_error_In. Qed.

  Lemma index_level_ty st t l i v tr : TY st -> index_value st (VLevel t l) i = Ok (v, tr) ->
    ptr_int (heap st) v.
  Proof.
    intros T H. unfold index_value, bind in H. destruct i; try discriminate.
    unfold tensor_of in H. destruct (PM.find t (tensors st)) as [ts|] eqn:F; try discriminate.
    destruct (nthZ_opt (t_idx ts) l) as [[p c]|] eqn:N; try discriminate.
    apply nthZ_opt_In in N. destruct (ty_tn _ T _ _ F) as [_ X]. destruct (X _ _ N) as [Xp Xc].
    destruct (negb _); try discriminate.
    destruct (z =? 0); [inv H; auto|]. destruct (z =? 1); [inv H; auto|discriminate].
  Qed.

  Lemma index_value_level st v i r tr : index_value st v i = Ok (r, tr) ->
    match r with VLevel _ _ => (match v with VIndices _ => True | _ => False end) | _ => True end.
  Proof.
    unfold index_value, bind. destruct v, i; try discriminate; intros H.
    - destruct (load st blk (off + z)) eqn:L; try discriminate. inv H. apply load_shape in L.
      destruct r; tauto.
    - destruct (tensor_of st t); try discriminate. destruct (nthZ_opt _ _); try discriminate.
      destruct (chk32 _); try discriminate. inv H. exact I.
    - inv H. exact I.
    - destruct (tensor_of st t); try discriminate.
      destruct (nthZ_opt _ _) as [[p c]|]; try discriminate.
      destruct (negb (is_ptr p && is_ptr c)) eqn:Pq; try discriminate.
      apply negb_false_iff in Pq. apply andb_prop in Pq. destruct Pq.
      destruct (z =? 0); [inv H; destruct r; try discriminate; exact I|].
      destruct (z =? 1); [inv H; destruct r; try discriminate; exact I|discriminate].
  Qed.

  Lemma rhs_int_val st e v tr : TY st -> rhs_int rl e = true -> eval st e = Ok (v, tr) ->
    ptr_int (heap st) v.
  Proof.
    intros T H E. destruct e; try discriminate.
    - simpl in H. destruct (eval_var_ty _ _ _ _ T E). auto.
    - destruct e1; try discriminate. rewrite eval_idx_unf in E.
      destruct (eval st (ArrayIndex e1_1 e1_2)) as [[w t1]|] eqn:E1; try discriminate. cbn [bind] in E.
      destruct (eval st e2) as [[i t2]|]; try discriminate. cbn [bind] in E.
      destruct (index_value st w i) as [[r t3]|] eqn:IX; try discriminate. inv E.
      destruct w; try (unfold index_value in IX; destruct i; discriminate).
      + (* a load: a number *)
        unfold index_value, bind in IX. destruct i; try discriminate.
        destruct (load st blk (off + z)) eqn:L; try discriminate. inv IX. apply load_shape in L.
        destruct v; try contradiction; exact I.
      + unfold index_value, bind in IX. destruct i; try discriminate.
        destruct (tensor_of st t); try discriminate. destruct (nthZ_opt _ _); try discriminate.
        destruct (chk32 _); try discriminate. inv IX. exact I.
      + unfold index_value in IX. destruct i; try discriminate. inv IX. exact I.
      + eapply index_level_ty; eauto.
  Qed.

  Lemma arith_ptr iop fop a b v : arith iop fop true a b = Ok v ->
    match v with VPtr blk _ => (match a with VPtr blk' _ => blk' = blk | _ => False end) | _ => True end.
  Proof.
    unfold arith, bind. destruct a, b; try discriminate;
      repeat match goal with |- context [match ?X with _ => _ end] => destruct X; try discriminate end;
      intros H; inv H; auto.
  Qed.

  Lemma rhs_float_val st e v tr : TY st -> rhs_float rl e = true -> eval st e = Ok (v, tr) ->
    ptr_float (heap st) v.
  Proof.
    intros T H E. destruct e; try discriminate.
    - simpl in H. destruct (eval_var_ty _ _ _ _ T E). auto.
    - destruct e; try discriminate. simpl in H. apply String.eqb_eq in H. subst.
      rewrite eval_attr_unf in E. destruct (eval st (Var name)) as [[w t1]|]; try discriminate.
      cbn [bind] in E. destruct (attribute_value st w "vals") as [r|] eqn:AV; try discriminate. inv E.
      unfold attribute_value in AV. destruct w; try discriminate. simpl in AV. unfold bind, tensor_of in AV.
      destruct (PM.find t (tensors st)) as [ts|] eqn:F; try discriminate.
      destruct (is_ptr (t_vals ts)); try discriminate. inv AV. apply (ty_tn _ T _ _ F).
    - destruct e1; try discriminate. simpl in H. simpl in E.
      apply bin2_inv in E. destruct E as (x & t1 & y & t2 & E1 & E2 & OP).
      apply arith_ptr in OP. destruct v; try exact I. destruct x; try contradiction. subst.
      destruct (eval_var_ty _ _ _ _ T E1) as [_ X]. exact (X H).
  Qed.

  Lemma coerce_ptr_int h t v w : coerce t v = Ok w -> ptr_int h v -> ptr_int h w.
  Proof. intros C. destruct (coerce_shape _ _ _ C) as [->|[f ->]]; auto. intros _. exact I. Qed.

  Lemma coerce_ptr_float h t v w : coerce t v = Ok w -> ptr_float h v -> ptr_float h w.
  Proof. intros C. destruct (coerce_shape _ _ _ C) as [->|[f ->]]; auto. intros _. exact I. Qed.

  (** ** RA under state changes *)

  Lemma RA_set_var a b x t v :
    RA a b ->
    (mem x (r_ip rl) = true -> ptr_int (heap a) v) ->
    (mem x (r_fp rl) = true -> ptr_float (heap a) v) ->
    RA (with_env a (set_var x (t, Some v) (env a))) (with_env b (set_var x (t, Some v) (env b))).
  Proof.
    intros [T E N Tn H] Hi Hf. constructor; simpl; auto.
    - apply TY_set_var; auto.
    - intros y M. rewrite !lookup_set_var. destruct (String.eqb y x); auto.
  Qed.

  Lemma RA_set_var_E a b x t v :
    RA a b -> mem x DB = true ->
    (mem x (r_ip rl) = true -> ptr_int (heap a) v) ->
    (mem x (r_fp rl) = true -> ptr_float (heap a) v) ->
    RA (with_env a (set_var x (t, Some v) (env a))) b.
  Proof.
    intros [T E N Tn H] M Hi Hf. constructor; simpl; auto.
    - apply TY_set_var; auto.
    - intros y My. rewrite lookup_set_var. destruct (String.eqb y x) eqn:Q; auto.
      apply String.eqb_eq in Q. subst. congruence.
  Qed.

  Lemma RA_tick a b : RA a b -> RA (tick a) (tick b).
  Proof. intros [T E N Tn H]. constructor; simpl; auto. now apply TY_tick. Qed.

  Lemma RA_tick_E a b : RA a b -> RA (tick a) b.
  Proof. intros [T E N Tn H]. constructor; simpl; auto. now apply TY_tick. Qed.

  Lemma hrel_refl o : hrel o o.
  Proof. destruct o; simpl; auto 6. Qed.

  (** a new block at the allocation counter, on both sides *)
  Lemma RA_new_block a b x y :
    RA a b -> hrel (Some x) (Some y) ->
    RA (mkState (env a) (PM.add (next_blk a) x (heap a)) (Pos.succ (next_blk a)) (tensors a) (iters a))
       (mkState (env b) (PM.add (next_blk b) y (heap b)) (Pos.succ (next_blk b)) (tensors b) (iters b)).
  Proof.
    intros R Hxy. pose proof R as [T E N Tn H]. constructor; simpl; auto.
    - apply TY_heap; auto.
      + apply hext_add. intros old F. rewrite (ty_fresh _ T) in F; [discriminate|lia].
      + intros k L. rewrite PM.gso by lia. apply (ty_fresh _ T). lia.
    - now rewrite N.
    - intros k. rewrite <- N. destruct (Pos.eq_dec k (next_blk a)) as [->|Q].
      + rewrite !PM.gss. exact Hxy.
      + rewrite !PM.gso by exact Q. apply H.
  Qed.

  Lemma alloc_rel a b t n : RA a b ->
    match alloc a t n with
    | Ok (a1, v, tr) =>
        exists b1, alloc b t n = Ok (b1, v, tr) /\ RA a1 b1 /\ env a1 = env a /\ env b1 = env b /\
                   (t = TInteger -> ptr_int (heap a1) v) /\ (t = TFloat -> ptr_float (heap a1) v)
    | Err x => alloc b t n = Err x
    end.
  Proof.
    intros R. unfold alloc, bind. destruct (elt_is_float t) as [fl|] eqn:EF; auto.
    destruct (n <? 0); auto. rewrite <- (ra_nb _ _ R).
    eexists. split; [reflexivity|]. split; [|split; [reflexivity|split; [reflexivity|]]].
    - rewrite (ra_nb _ _ R) at 3 4. apply RA_new_block; auto. apply hrel_refl.
    - simpl. split; intros ->; simpl in EF; inv EF; eexists; rewrite PM.gss; split; reflexivity.
  Qed.

  Lemma realloc_rel a b o t n : RA a b ->
    match realloc a o t n with
    | Ok (a1, v, tr) =>
        exists b1, realloc b o t n = Ok (b1, v, tr) /\ RA a1 b1 /\ env a1 = env a /\ env b1 = env b /\
                   (t = TInteger -> ptr_int (heap a1) v) /\ (t = TFloat -> ptr_float (heap a1) v)
    | Err x => realloc b o t n = Err x
    end.
  Proof.
    intros R. unfold realloc. unfold bind. destruct (elt_is_float t) as [fl|] eqn:EF; auto.
    destruct (n <? 0); auto.
    destruct o; auto.
    2:{ exact (alloc_rel a b t n R). }
    destruct off; auto.
    pose proof (ra_heap _ _ R blk) as Hb.
    destruct (PM.find blk (heap a)) as [x|] eqn:Fa, (PM.find blk (heap b)) as [y|] eqn:Fb;
      try contradiction; auto.
    cbv beta iota.
    destruct Hb as (H1 & H2 & H3 & H4 & H5). rewrite <- H1, <- H3, <- H4.
    destruct (negb (b_live x)); auto. destruct (b_input x); auto.
    destruct (negb (Bool.eqb fl (b_float x))) eqn:Q; auto.
    apply negb_false_iff in Q. apply Bool.eqb_prop in Q.
    rewrite <- (ra_nb _ _ R), <- H2. subst fl.
    set (a0 := mkState (env a) (PM.add blk (mkBlock (b_float x) (b_len x) (b_cells x) false false) (heap a))
                       (next_blk a) (tensors a) (iters a)).
    set (b0 := mkState (env b) (PM.add blk (mkBlock (b_float x) (b_len x) (b_cells y) false false) (heap b))
                       (next_blk b) (tensors b) (iters b)).
    assert (R0 : RA a0 b0).
    { pose proof R as [T E N Tn H]. constructor; simpl; auto.
      - apply TY_heap; auto.
        + apply hext_add. intros old F. rewrite Fa in F. inv F. reflexivity.
        + intros k L. rewrite PM.gso. apply (ty_fresh _ T k L).
          intros ->. rewrite (ty_fresh _ T blk L) in Fa. discriminate.
      - intros k. destruct (Pos.eq_dec k blk) as [->|Nk].
        + rewrite !PM.gss. simpl. auto 6.
        + rewrite !PM.gso by exact Nk. apply H. }
    eexists. split; [reflexivity|]. split; [|split; [reflexivity|split; [reflexivity|]]].
    - pose proof (RA_new_block a0 b0 (mkBlock (b_float x) n (keep_prefix n (b_cells x)) true false)
                    (mkBlock (b_float x) n (keep_prefix n (b_cells y)) true false) R0) as X.
      simpl in X. rewrite (ra_nb _ _ R) at 3 4. apply X. simpl. repeat split; auto.
      intros Fl. rewrite H5; auto.
    - simpl. split; intros ->; simpl in EF; inv EF; eexists; rewrite PM.gss; split;
        try reflexivity; simpl; congruence.
  Qed.

  Lemma store_rel a b blk off v : RA a b -> isint (heap a) blk ->
    match store a blk off v with
    | Ok a1 => exists b1, store b blk off v = Ok b1 /\ RA a1 b1 /\ env a1 = env a /\ env b1 = env b
    | Err x => store b blk off v = Err x
    end.
  Proof.
    intros R (x & Fa & Fl). pose proof (ra_heap _ _ R blk) as Hb. unfold store. rewrite Fa in *.
    destruct (PM.find blk (heap b)) as [y|] eqn:Fb; try contradiction.
    destruct Hb as (H1 & H2 & H3 & H4 & H5). rewrite <- H1, <- H2, <- H3, <- H4, <- (H5 Fl).
    destruct (negb (b_live x)); auto. destruct (b_input x); auto. destruct (_ || _); auto.
    unfold bind. destruct (coerce _ v) as [v'|]; auto.
    eexists. split; [reflexivity|]. split; [|split; reflexivity].
    pose proof R as [T E N Tn H]. constructor; simpl; auto.
    - apply (TY_heap a); auto.
      + apply hext_add. intros old F. rewrite Fa in F. inv F. reflexivity.
      + intros k L. rewrite PM.gso. apply (ty_fresh _ T k L).
        intros ->. rewrite (ty_fresh _ T blk L) in Fa. discriminate.
    - intros k. destruct (Pos.eq_dec k blk) as [->|Nk].
      + rewrite !PM.gss. simpl. auto 6.
      + rewrite !PM.gso by exact Nk. apply H.
  Qed.

  Lemma store_rel_E a b blk off v a1 : RA a b -> isfloat (heap a) blk ->
    store a blk off v = Ok a1 -> RA a1 b /\ env a1 = env a.
  Proof.
    intros R (x & Fa & Fl) S. pose proof (ra_heap _ _ R blk) as Hb. unfold store in S. rewrite Fa in *.
    destruct (negb (b_live x)) eqn:Lv; try discriminate. destruct (b_input x) eqn:Inp; try discriminate.
    destruct (_ || _); try discriminate.
    unfold bind in S. destruct (coerce _ v) as [v'|]; try discriminate. inv S. split; [|reflexivity].
    pose proof R as [T E N Tn H]. constructor; simpl; auto.
    - apply (TY_heap a); auto.
      + apply hext_add. intros old F. rewrite Fa in F. inv F. reflexivity.
      + intros k L. rewrite PM.gso. apply (ty_fresh _ T k L).
        intros ->. rewrite (ty_fresh _ T blk L) in Fa. discriminate.
    - intros k. destruct (Pos.eq_dec k blk) as [->|Nk].
      + rewrite PM.gss. destruct (PM.find blk (heap b)) as [y|]; try contradiction.
        destruct Hb as (H1 & H2 & H3 & H4 & H5). simpl. apply negb_false_iff in Lv.
        repeat split; try congruence.
      + rewrite PM.gso by exact Nk. apply H.
  Qed.


  (** ** right-hand sides *)

  Lemma eval_rhs_pure st e : is_alloc e = false ->
    eval_rhs st e = (do '(v, t1) <- eval st e; Ok (st, v, t1)).
  Proof. destruct e; simpl; try discriminate; reflexivity. Qed.

  Lemma ty_rhs_pure st x e v tr : TY st -> is_alloc e = false -> ty_rhs rl x e = true ->
    eval st e = Ok (v, tr) ->
    (mem x (r_ip rl) = true -> ptr_int (heap st) v) /\ (mem x (r_fp rl) = true -> ptr_float (heap st) v).
  Proof.
    intros T NA H E.
    assert (H' : impb (mem x (r_ip rl)) (rhs_int rl e) && impb (mem x (r_fp rl)) (rhs_float rl e) = true).
    { destruct e; try exact H; discriminate NA. }
    apply andb_prop in H'. destruct H' as [H1 H2]. unfold impb in *. split; intros M; rewrite M in *; simpl in *.
    - eapply rhs_int_val; eauto.
    - eapply rhs_float_val; eauto.
  Qed.

  Lemma eval_rhs_rel a b x e : RA a b -> rhs_sexpA rl DB e = true -> ty_rhs rl x e = true ->
    match eval_rhs a e with
    | Ok (a1, v, tr) =>
        exists b1, eval_rhs b e = Ok (b1, v, tr) /\ RA a1 b1 /\ env a1 = env a /\ env b1 = env b /\
                   (mem x (r_ip rl) = true -> ptr_int (heap a1) v) /\
                   (mem x (r_fp rl) = true -> ptr_float (heap a1) v)
    | Err er => eval_rhs b e = Err er
    end.
  Proof.
    intros R S Ty.
    destruct (is_alloc e) eqn:AL.
    - destruct e; try discriminate AL.
      + (* malloc *)
        simpl in S. simpl. rewrite <- (eval_sexpA _ _ _ R S).
        destruct (eval a e) as [[v t1]|]; try reflexivity. cbn [bind]. destruct v; try reflexivity.
        pose proof (alloc_rel a b element_type z R) as H.
        destruct (alloc a element_type z) as [[[a1 p] t2]|]; [|now rewrite H].
        destruct H as (b1 & H1 & H2 & H3 & H4 & H5 & H6). rewrite H1. cbn [bind].
        eexists. split; [reflexivity|]. split; [exact H2|]. split; [exact H3|]. split; [exact H4|]. split.
        * intros M. simpl in Ty. apply andb_prop in Ty. destruct Ty as [Ty _]. unfold impb in Ty.
          rewrite M in Ty. simpl in Ty. apply ty_same_eq in Ty. exact (H5 Ty).
        * intros M. simpl in Ty. apply andb_prop in Ty. destruct Ty as [_ Ty]. unfold impb in Ty.
          rewrite M in Ty. simpl in Ty. apply ty_same_eq in Ty. exact (H6 Ty).
      + (* realloc *)
        simpl in S. apply andb_prop in S. destruct S as [S1 S2]. simpl.
        destruct (negb (is_Assignable e1)); try reflexivity.
        rewrite <- (eval_sexpA _ _ _ R S1), <- (eval_sexpA _ _ _ R S2).
        destruct (eval a e1) as [[o t1]|]; try reflexivity. cbn [bind].
        destruct (eval a e2) as [[v t2]|]; try reflexivity. cbn [bind]. destruct v; try reflexivity.
        pose proof (realloc_rel a b o element_type z R) as H.
        destruct (realloc a o element_type z) as [[[a1 p] t3]|]; [|now rewrite H].
        destruct H as (b1 & H1 & H2 & H3 & H4 & H5 & H6). rewrite H1. cbn [bind].
        eexists. split; [reflexivity|]. split; [exact H2|]. split; [exact H3|]. split; [exact H4|]. split.
        * intros M. simpl in Ty. destruct e1; try discriminate. apply andb_prop in Ty.
          destruct Ty as [Ty _]. apply andb_prop in Ty. destruct Ty as [_ Ty]. unfold impb in Ty.
          rewrite M in Ty. simpl in Ty. apply ty_same_eq in Ty. exact (H5 Ty).
        * intros M. simpl in Ty. destruct e1; try discriminate. apply andb_prop in Ty.
          destruct Ty as [_ Ty]. unfold impb in Ty.
          rewrite M in Ty. simpl in Ty. apply ty_same_eq in Ty. exact (H6 Ty).
    - rewrite !eval_rhs_pure by exact AL.
      assert (S' : sexpA rl DB e = true) by (destruct e; try exact S; discriminate AL).
      rewrite <- (eval_sexpA _ _ _ R S').
      destruct (eval a e) as [[v t1]|] eqn:E; try reflexivity. cbn [bind].
      eexists. split; [reflexivity|]. split; [exact R|]. split; [reflexivity|]. split; [reflexivity|].
      eapply ty_rhs_pure; eauto. exact (ra_ty _ _ R).
  Qed.

  (** ** field assignments only look at the tensor structs *)

  Definition field_loc (l : loc) : bool :=
    match l with LTVals _ => true | LTIdx _ _ _ => true | _ => false end.

  Lemma set_nth_In {A} (l : list A) : forall n x l' y, set_nth l n x = Some l' -> In y l' -> y = x \/ In y l.
  Proof.
    induction l as [|a r IH]; intros n x l' y H I; destruct n; simpl in H; try discriminate.
    - inv H. simpl in I. destruct I; auto. right. now right.
    - destruct (set_nth r n x) as [r'|] eqn:S; try discriminate. inv H. simpl in I. destruct I as [->|I].
      + right. now left.
      + destruct (IH _ _ _ _ S I); auto. right. now right.
  Qed.

  Lemma assign_field_rel a b l v : RA a b -> field_loc l = true ->
    (match l with LTVals _ => ptr_float (heap a) v | _ => ptr_int (heap a) v end) ->
    match assign a l v with
    | Ok (a1, tr) => exists b1, assign b l v = Ok (b1, tr) /\ RA a1 b1
    | Err x => assign b l v = Err x
    end.
  Proof.
    intros R FL Pv. pose proof R as [T E N Tn H].
    assert (K : forall T', (forall t ts, PM.find t T' = Some ts ->
                  ptr_float (heap a) (t_vals ts) /\
                  forall p c, In (p, c) (t_idx ts) -> ptr_int (heap a) p /\ ptr_int (heap a) c) ->
                RA (with_tensors a T') (with_tensors b T')).
    { intros T' X. constructor; simpl; auto. destruct T as [A B C D]. constructor; simpl; auto. }
    destruct l; try discriminate FL; unfold assign, tensor_of, bind; rewrite <- Tn.
    - destruct (PM.find t (tensors a)) as [ts|] eqn:F; auto.
      destruct (negb (t_output ts)); auto. destruct (negb (is_ptr v)); auto.
      eexists. split; [reflexivity|]. apply K. intros t0 ts0 F0.
      destruct (Pos.eq_dec t0 t) as [->|Nt].
      + rewrite PM.gss in F0. inv F0. simpl. split; auto. exact (proj2 (ty_tn _ T _ _ F)).
      + rewrite PM.gso in F0 by exact Nt. exact (ty_tn _ T _ _ F0).
    - destruct (PM.find t (tensors a)) as [ts|] eqn:F; auto.
      destruct (negb (t_output ts)); auto. destruct (negb (is_ptr v)); auto.
      destruct (l <? 0); auto.
      destruct (nth_error (t_idx ts) (Z.to_nat l)) as [[p c]|] eqn:NE; auto.
      set (pc := if j =? 0 then Some (v, c) else if j =? 1 then Some (p, v) else None).
      assert (PC : forall q, pc = Some q -> ptr_int (heap a) (fst q) /\ ptr_int (heap a) (snd q)).
      { apply nth_error_In in NE. destruct (proj2 (ty_tn _ T _ _ F) _ _ NE) as [Xp Xc].
        intros q. unfold pc. destruct (j =? 0); [intros Q; inv Q; auto|].
        destruct (j =? 1); [intros Q; inv Q; auto|discriminate]. }
      destruct pc as [pc'|]; auto.
      destruct (set_nth (t_idx ts) (Z.to_nat l) pc') as [idx'|] eqn:SN; auto.
      eexists. split; [reflexivity|]. apply K. intros t0 ts0 F0.
      destruct (Pos.eq_dec t0 t) as [->|Nt].
      + rewrite PM.gss in F0. inv F0. simpl. split; [exact (proj1 (ty_tn _ T _ _ F))|].
        intros p0 c0 I0. destruct (set_nth_In _ _ _ _ _ SN I0) as [Q|I1].
        * subst pc'. exact (PC _ eq_refl).
        * exact (proj2 (ty_tn _ T _ _ F) _ _ I1).
      + rewrite PM.gso in F0 by exact Nt. exact (ty_tn _ T _ _ F0).
  Qed.


  (** ** atomic statements *)

  Definition osimA (oE oK : outcome) : Prop :=
    match oE with
    | Normal a' t => exists b', oK = Normal b' t /\ RA a' b'
    | Returned a' v t => exists b', oK = Returned b' v t /\ RA a' b'
    | Fail x => oK = Fail x
    | OutOfFuel => True
    end.

  Lemma eval_var_shape st x v t : eval st (Var x) = Ok (v, t) ->
    match v with VLevel _ _ => False | VDims _ => False | VIndices _ => False | _ => True end.
  Proof.
    simpl. destruct (lookup x (env st)) as [[ty [w|]]|]; try discriminate.
    destruct (typed ty w) eqn:T; try discriminate. intros H. inv H. apply typed_shape in T.
    destruct v; auto.
  Qed.

  Lemma keep_declassign a b x t e : RA a b ->
    rdA DB x && negb (mem x (params rl)) && rhs_sexpA rl DB e && ty_rhs rl x e = true ->
    osimA (exec 1 (DeclarationAssignment (Declaration (Var x) t) e) a)
          (exec 1 (DeclarationAssignment (Declaration (Var x) t) e) b).
  Proof.
    intros R K. split_andb. simpl.
    pose proof (eval_rhs_rel a b x e R H1 H0) as X.
    destruct (eval_rhs a e) as [[[a1 v] t1]|]; [|rewrite X; reflexivity].
    destruct X as (b1 & X1 & X2 & X3 & X4 & X5 & X6). rewrite X1.
    destruct (coerce t v) as [v'|] eqn:C; [|reflexivity]. simpl.
    eexists. split; [reflexivity|]. apply RA_set_var; auto.
    - intros M. eapply coerce_ptr_int; eauto.
    - intros M. eapply coerce_ptr_float; eauto.
  Qed.

  Lemma keep_assign_var a b x e : RA a b ->
    rdA DB x && negb (mem x (params rl)) && rhs_sexpA rl DB e && ty_rhs rl x e = true ->
    osimA (exec 1 (Assignment (Var x) e) a) (exec 1 (Assignment (Var x) e) b).
  Proof.
    intros R K. split_andb. simpl.
    pose proof (eval_rhs_rel a b x e R H1 H0) as X.
    destruct (eval_rhs a e) as [[[a1 v] t1]|]; [|rewrite X; reflexivity].
    destruct X as (b1 & X1 & X2 & X3 & X4 & X5 & X6). rewrite X1.
    unfold rdA in H. apply negb_true_iff in H. rewrite <- (ra_env _ _ X2 x H).
    destruct (lookup x (env a1)) as [[t0 o]|]; [|reflexivity]. unfold bind.
    destruct (coerce t0 v) as [v'|] eqn:C; [|reflexivity].
    eexists. split; [reflexivity|]. apply RA_set_var; auto.
    - intros M. eapply coerce_ptr_int; eauto.
    - intros M. eapply coerce_ptr_float; eauto.
  Qed.

  Lemma keep_store a b p i e : RA a b ->
    mem p (r_ip rl) && rdA DB p && sexpA rl DB i && sexpA rl DB e = true ->
    osimA (exec 1 (Assignment (ArrayIndex (Var p) i) e) a) (exec 1 (Assignment (ArrayIndex (Var p) i) e) b).
  Proof.
    intros R K. split_andb.
    assert (NA : is_alloc e = false) by (destruct e; try reflexivity; discriminate).
    cbn [exec]. rewrite !eval_rhs_pure by exact NA. rewrite <- (eval_sexpA _ _ _ R H0).
    destruct (eval a e) as [[v t1]|]; [|reflexivity]. cbn [bind].
    unfold eval_loc. rewrite <- (eval_var_rel _ _ _ R H2), <- (eval_sexpA _ _ _ R H1).
    destruct (eval a (Var p)) as [[w t2]|] eqn:Ep; [|reflexivity]. cbn [bind].
    destruct (eval a i) as [[iv t3]|]; [|reflexivity]. cbn [bind].
    pose proof (eval_var_shape _ _ _ _ Ep) as Sh.
    destruct (eval_var_ty _ _ _ _ (ra_ty _ _ R) Ep) as [Ti _]. specialize (Ti H).
    destruct w; try reflexivity; try contradiction. destruct iv; try reflexivity.
    unfold assign, bind. pose proof (store_rel a b blk (off + z) v R Ti) as X.
    destruct (store a blk (off + z) v) as [a1|]; [|rewrite X; reflexivity].
    destruct X as (b1 & X1 & X2 & _). rewrite X1. eexists. split; [reflexivity|exact X2].
  Qed.

  Lemma keep_field_idx a b T k j p : RA a b ->
    rdA DB T && rdA DB p && mem p (r_ip rl) = true ->
    osimA (exec 1 (Assignment (ArrayIndex (ArrayIndex (AttributeAccess (Var T) "indices") (IntegerLiteral k)) (IntegerLiteral j)) (Var p)) a)
          (exec 1 (Assignment (ArrayIndex (ArrayIndex (AttributeAccess (Var T) "indices") (IntegerLiteral k)) (IntegerLiteral j)) (Var p)) b).
  Proof.
    intros R K. split_andb.
    cbn [exec]. rewrite !eval_rhs_pure by reflexivity. rewrite <- (eval_var_rel _ _ _ R H1).
    destruct (eval a (Var p)) as [[v t1]|] eqn:Ep; [|reflexivity]. cbn [bind].
    unfold eval_loc. rewrite <- (eval_level_rel _ _ T k R H).
    destruct (eval a (ArrayIndex (AttributeAccess (Var T) "indices") (IntegerLiteral k))) as [[w t2]|] eqn:El;
      [|reflexivity]. cbn [bind].
    change (eval b (IntegerLiteral j)) with (eval a (IntegerLiteral j)).
    destruct (eval a (IntegerLiteral j)) as [[iv t3]|]; [|reflexivity]. cbn [bind].
    pose proof (eval_level_noptr _ _ _ _ _ El) as Sh.
    destruct (eval_var_ty _ _ _ _ (ra_ty _ _ R) Ep) as [Ti _]. specialize (Ti H0).
    destruct w; try reflexivity; try contradiction. destruct iv; try reflexivity.
    pose proof (assign_field_rel a b (LTIdx t l z) v R eq_refl Ti) as X.
    destruct (assign a (LTIdx t l z) v) as [[a1 t4]|]; [|rewrite X; reflexivity].
    destruct X as (b1 & X1 & X2). rewrite X1. eexists. split; [reflexivity|exact X2].
  Qed.

  Lemma keep_field_vals a b T r : RA a b ->
    rdA DB T && rdA DB r && mem r (r_fp rl) = true ->
    osimA (exec 1 (Assignment (AttributeAccess (Var T) "vals") (Var r)) a)
          (exec 1 (Assignment (AttributeAccess (Var T) "vals") (Var r)) b).
  Proof.
    intros R K. split_andb.
    cbn [exec]. rewrite !eval_rhs_pure by reflexivity. rewrite <- (eval_var_rel _ _ _ R H1).
    destruct (eval a (Var r)) as [[v t1]|] eqn:Ep; [|reflexivity]. cbn [bind].
    unfold eval_loc. rewrite <- (eval_var_rel _ _ _ R H).
    destruct (eval a (Var T)) as [[w t2]|]; [|reflexivity]. cbn [bind].
    destruct (eval_var_ty _ _ _ _ (ra_ty _ _ R) Ep) as [_ Tf]. specialize (Tf H0).
    destruct w; try reflexivity. cbn [String.eqb Ascii.eqb Bool.eqb].
    pose proof (assign_field_rel a b (LTVals t) v R eq_refl Tf) as X.
    destruct (assign a (LTVals t) v) as [[a1 t4]|]; [|rewrite X; reflexivity].
    destruct X as (b1 & X1 & X2). rewrite X1. eexists. split; [reflexivity|exact X2].
  Qed.

  Lemma keepA_sound s a b : is_atomic s = true -> keepA rl DB tt s = Some tt -> RA a b ->
    osimA (exec 1 s a) (exec 1 s b).
  Proof.
    intros A K R. unfold keepA in K.
    match type of K with (if ?X then _ else _) = _ => destruct X eqn:Q; [clear K|discriminate] end.
    destruct s as [ | tgt val | d val | | | | val | ]; try discriminate.
    - (* Assignment *)
      destruct tgt as [x | tg at0 | tg ix | | | | | | | | | | | | | | | | | | | ]; try discriminate.
      + now apply keep_assign_var.
      + destruct tg; try discriminate. destruct val; try discriminate. split_andb.
        apply String.eqb_eq in H2. subst. apply keep_field_vals; auto. now rewrite H1, H0, H.
      + destruct tg as [p | | tg2 ix2 | | | | | | | | | | | | | | | | | | | ]; try discriminate.
        * now apply keep_store.
        * destruct tg2 as [ | tg3 at3 | | | | | | | | | | | | | | | | | | | | ]; try discriminate.
          destruct tg3; try discriminate.
          destruct ix2; try discriminate. destruct ix; try discriminate.
          destruct val; try discriminate. split_andb.
          apply String.eqb_eq in H2. subst. apply keep_field_idx; auto. now rewrite H1, H0, H.
    - (* DeclarationAssignment *)
      destruct d as [nm t| | | | | | |]; try discriminate. destruct nm; try discriminate.
      now apply keep_declassign.
    - (* Return *)
      simpl. rewrite <- (eval_sexpA _ _ _ R Q). destruct (eval a val) as [[v t]|]; [|reflexivity].
      eexists. split; [reflexivity|exact R].
  Qed.

  Lemma drop_assign a b x e d : RA a b ->
    mem x DB && negb (mem x (params rl)) && negb (is_alloc e) && ty_rhs rl x e = true ->
    (d = true -> forall t,
      odrop unit (fun _ => RA) tt (exec 1 (DeclarationAssignment (Declaration (Var x) t) e) a) b) /\
    (d = false -> odrop unit (fun _ => RA) tt (exec 1 (Assignment (Var x) e) a) b).
  Proof.
    intros R K. split_andb. apply negb_true_iff in H1.
    split; intros _; [intros t|]; cbn [exec]; rewrite eval_rhs_pure by exact H1;
      destruct (eval a e) as [[v t1]|] eqn:E; try exact I; cbn [bind];
      destruct (ty_rhs_pure _ _ _ _ _ (ra_ty _ _ R) H1 H0 E) as [Ti Tf].
    - destruct (coerce t v) as [v'|] eqn:C; [|exact I]. simpl. apply RA_set_var_E; auto.
      + intros M. eapply coerce_ptr_int; eauto.
      + intros M. eapply coerce_ptr_float; eauto.
    - simpl. destruct (lookup x (env a)) as [[t0 o]|]; [|exact I]. unfold bind.
      destruct (coerce t0 v) as [v'|] eqn:C; [|exact I]. simpl. apply RA_set_var_E; auto.
      + intros M. eapply coerce_ptr_int; eauto.
      + intros M. eapply coerce_ptr_float; eauto.
  Qed.

  Lemma drop_store a b y i e : RA a b -> mem y (r_fp rl) && negb (is_alloc e) = true ->
    odrop unit (fun _ => RA) tt (exec 1 (Assignment (ArrayIndex (Var y) i) e) a) b.
  Proof.
    intros R K. split_andb. apply negb_true_iff in H0.
    cbn [exec]. rewrite eval_rhs_pure by exact H0.
    destruct (eval a e) as [[v t1]|]; [|exact I]. cbn [bind].
    unfold eval_loc.
    destruct (eval a (Var y)) as [[w t2]|] eqn:Ep; [|exact I]. cbn [bind].
    destruct (eval a i) as [[iv t3]|]; [|exact I]. cbn [bind].
    pose proof (eval_var_shape _ _ _ _ Ep) as Sh.
    destruct (eval_var_ty _ _ _ _ (ra_ty _ _ R) Ep) as [_ Tf]. specialize (Tf H).
    destruct w; try exact I; try contradiction. destruct iv; try exact I.
    unfold assign, bind. destruct (store a blk (off + z) v) as [a1|] eqn:S; [|exact I].
    simpl. exact (proj1 (store_rel_E _ _ _ _ _ _ R Tf S)).
  Qed.

  Lemma dropA_sound s a b : is_atomic s = true -> dropA rl DB tt s = Some tt -> RA a b ->
    odrop unit (fun _ => RA) tt (exec 1 s a) b.
  Proof.
    intros A K R. unfold dropA in K.
    match type of K with (if ?X then _ else _) = _ => destruct X eqn:Q; [clear K|discriminate] end.
    destruct s as [ | tgt val | d val | | | | val | ]; try discriminate.
    - destruct tgt as [x | | tg ix | | | | | | | | | | | | | | | | | | | ]; try discriminate.
      + exact (proj2 (drop_assign a b x val false R Q) eq_refl).
      + destruct tg; try discriminate. now apply drop_store.
    - destruct d as [nm t| | | | | | |]; try discriminate. destruct nm; try discriminate.
      exact (proj1 (drop_assign a b name val true R Q) eq_refl t).
  Qed.

  (** ** statements and kernels *)

  Theorem alignA_sound n sE sA a b : alignA rl DB sE sA = true -> RA a b ->
    osimK unit (fun _ => RA) (fun _ => False) tt (exec n sE a) (exec n sA b).
  Proof.
    unfold alignA. intros K R.
    destruct (align unit (fun _ _ => true) (sexpA rl DB) (keepA rl DB) (dropA rl DB) tt sE sA) as [[]|] eqn:AL;
      try discriminate.
    eapply (align_sound unit (fun _ _ => true) (sexpA rl DB) (keepA rl DB) (dropA rl DB)); eauto.
    - intros [] []; reflexivity.
    - intros _ x y. apply RA_tick.
    - intros _ x y. apply RA_tick_E.
    - intros _ c x y v t C Rxy E. rewrite <- (eval_sexpA _ _ _ Rxy C). eauto.
    - intros [] [] s x y At Ke Rxy. pose proof (keepA_sound s x y At Ke Rxy) as H.
      unfold osimK. unfold osimA in H. destruct (exec 1 s x); auto.
      + destruct H as (b' & Eq & H). rewrite Eq. exact H.
      + destruct H as (b' & Eq & H). rewrite Eq. split; [exists tt; exact H|reflexivity].
    - intros [] [] s x y At Dr Rxy. now apply dropA_sound.
  Qed.

End ASM.

(** * Kernels *)

Lemma params_same ps : forall qs, params_ok ps = true -> params_ok qs = true ->
  same_params ps qs = true -> ps = qs.
Proof.
  unfold params_ok, same_params. intros qs P Q S.
  apply andb_prop in P. destruct P as [P _]. apply andb_prop in Q. destruct Q as [Q _].
  apply andb_prop in S. destruct S as [S _].
  revert qs Q S. induction ps as [|p r IH]; intros qs Q S.
  - destruct qs as [|q s]; auto. exfalso. simpl in Q. apply andb_prop in Q. destruct Q as [Q _].
    destruct q as [nm t| | | | | | |]; try discriminate. destruct nm; try discriminate.
  - simpl in P. apply andb_prop in P. destruct P as [P1 P2].
    destruct p as [nm t| | | | | | |]; try discriminate. destruct nm; try discriminate.
    destruct t; try discriminate. destruct t; try discriminate.
    destruct qs as [|q s]; [simpl in S; discriminate|].
    simpl in Q. apply andb_prop in Q. destruct Q as [Q1 Q2].
    destruct q as [nm t| | | | | | |]; try discriminate. destruct nm; try discriminate.
    destruct t; try discriminate. destruct t; try discriminate.
    simpl in S. apply andb_prop in S. destruct S as [S1 S2]. apply String.eqb_eq in S1. subst.
    f_equal. apply IH; auto.
Qed.

Lemma bind_params_tensor ps : forall args e0 e, params_ok ps = true ->
  bind_params ps args e0 = Ok e ->
  (forall x t v, lookup x e0 = Some (t, Some v) -> exists id, v = VTensor id) ->
  (forall x t v, lookup x e = Some (t, Some v) -> exists id, v = VTensor id).
Proof.
  unfold params_ok. intros args e0 e P. apply andb_prop in P. destruct P as [P _].
  revert args e0 e. induction ps as [|p r IH]; intros args e0 e B I0.
  - destruct args; simpl in B; [inv B; auto|discriminate].
  - simpl in P. apply andb_prop in P. destruct P as [P1 P2].
    destruct p as [nm t| | | | | | |]; try discriminate. destruct nm; try discriminate.
    destruct t; try discriminate. destruct t; try discriminate.
    destruct args as [|a args]; simpl in B; try discriminate.
    unfold bind in B. destruct a; try discriminate B.
    apply (IH P2 args _ e B). intros x t0 w L. rewrite lookup_set_var in L.
    destruct (String.eqb x name); [|eauto]. inv L. eauto.
Qed.

Section ASM_CALL.
  Variable rl : roles.
  Variable DB : list string.

  Lemma RA_with_env a b e : RA rl DB (with_env a []) (with_env b []) ->
    (forall x t v, lookup x e = Some (t, Some v) -> exists id, v = VTensor id) ->
    RA rl DB (with_env a e) (with_env b e).
  Proof.
    intros [[A B C D] E N Tn H] X. constructor; simpl in *; auto. constructor; simpl; auto.
    - intros x t v _ L. destruct (X _ _ _ L) as [id ->]. exact I.
    - intros x t v _ L. destruct (X _ _ _ L) as [id ->]. exact I.
  Qed.
End ASM_CALL.

(** the relation between the two states a pair of runs starts from / ends in, without the
    variable environments (which [call] replaces) *)
Definition RA0 (fe fa : function_definition) (a b : state) : Prop :=
  RA (roles_of fe) (assigned_only_in fe fa) (with_env a []) (with_env b []).

Theorem assemble_cert_sound fe fa : assemble_cert fe fa = true ->
  forall fuel args a b, RA0 fe fa a b ->
  match call fuel fe args a with
  | Returned a' v _ => exists b' tr', call fuel fa args b = Returned b' v tr' /\ RA0 fe fa a' b'
  | _ => True
  end.
Proof.
  intros C fuel args a b R. unfold RA0 in *.
  set (rl := roles_of fe) in *. set (DB := assigned_only_in fe fa) in *.
  destruct fe as [nE ps rt be], fa as [nA qs rt' ba]. unfold assemble_cert in C. fold rl DB in C.
  do 5 (apply andb_prop in C; destruct C as [C ?]).
  pose proof (params_same _ _ C H3 H2) as ->. apply ty_same_eq in H0. subst rt'.
  unfold call. destruct (bind_params qs args []) as [e|] eqn:B; auto.
  assert (R1 : RA rl DB (with_env a e) (with_env b e)).
  { apply RA_with_env; auto. eapply bind_params_tensor; eauto. simpl. discriminate. }
  pose proof (alignA_sound rl DB fuel be ba _ _ H R1) as S.
  unfold osimK in S. destruct (exec fuel be (with_env a e)) as [a' t|a' v t|x|]; auto.
  destruct (coerce rt v) as [v'|] eqn:Cv; auto.
  destruct (exec fuel ba (with_env b e)) as [b' t'|b' w t'|y|]; try contradiction.
  destruct S as [[_ S] <-]. rewrite Cv. exists b', t'. split; auto.
  destruct S as [[A1 B1 C1 D1] E N Tn Hh]. constructor; simpl in *; auto. constructor; simpl; auto; discriminate.
Qed.

(** * What the relation says about the output: the STRUCTURE is the same *)

Definition blk_obs (st : state) (v : value) : option (Z * bool * PM.t value) :=
  match v with
  | VPtr b _ =>
      match PM.find b (heap st) with
      | Some blk => Some (b_len blk, b_live blk, b_cells blk)
      | None => None
      end
  | _ => None
  end.

Definition blk_shape (st : state) (v : value) : option (Z * bool) :=
  match v with
  | VPtr b _ =>
      match PM.find b (heap st) with
      | Some blk => Some (b_len blk, b_live blk)
      | None => None
      end
  | _ => None
  end.

(** fields of the output tensor struct, (length, liveness, ALL cells) of every pos / crd block,
    (length, liveness) of the value block *)
Definition out_structure (st : state) (out : positive) :=
  match PM.find out (tensors st) with
  | Some ts =>
      Some (t_idx ts, map (fun pc => (blk_obs st (fst pc), blk_obs st (snd pc))) (t_idx ts),
            t_vals ts, blk_shape st (t_vals ts))
  | None => None
  end.

Lemma blk_obs_rel rl DB a b v : RA rl DB a b -> ptr_int (heap a) v -> blk_obs a v = blk_obs b v.
Proof.
  intros R Pi. destruct v; auto. simpl in *. destruct Pi as (x & F & Fl).
  pose proof (ra_heap _ _ _ _ R blk) as H. rewrite F in *.
  destruct (PM.find blk (heap b)) as [y|]; [|contradiction].
  destruct H as (H1 & H2 & H3 & H4 & H5). rewrite H2, H3, (H5 Fl). reflexivity.
Qed.

Lemma blk_shape_rel rl DB a b v : RA rl DB a b -> blk_shape a v = blk_shape b v.
Proof.
  intros R. destruct v; auto. simpl. pose proof (ra_heap _ _ _ _ R blk) as H.
  destruct (PM.find blk (heap a)) as [x|], (PM.find blk (heap b)) as [y|]; try contradiction; auto.
  destruct H as (H1 & H2 & H3 & H4 & H5). now rewrite H2, H3.
Qed.

Theorem RA0_same_structure fe fa a b out : RA0 fe fa a b -> out_structure a out = out_structure b out.
Proof.
  unfold RA0. intros R. unfold out_structure.
  pose proof (ra_tn _ _ _ _ R) as Tn. simpl in Tn. rewrite <- Tn.
  destruct (PM.find out (tensors a)) as [ts|] eqn:F; auto.
  pose proof (ty_tn _ _ (ra_ty _ _ _ _ R) out ts F) as [_ X]. simpl in X.
  f_equal. f_equal; [f_equal|].
  - f_equal. apply map_ext_in. intros [p c] I. destruct (X _ _ I) as [Xp Xc]. simpl.
    f_equal; eapply (blk_obs_rel _ _ (with_env a []) (with_env b [])); eauto.
  - eapply (blk_shape_rel _ _ (with_env a []) (with_env b [])); eauto.
Qed.

(** * The harness' initial states (spec/IRRun.v) are related, also when the input VALUES differ *)

From TV Require Import spec.IRRun.

Definition tin_sim (t t' : tin) : Prop :=
  ti_dims t = ti_dims t' /\ ti_levels t = ti_levels t' /\ ti_output t = ti_output t' /\
  List.length (ti_vals t) = List.length (ti_vals t').

Section INIT.
  Variable rl : roles.
  Variable DB : list string.

  Definition RI (a b : state) : Prop := RA rl DB (with_env a []) (with_env b []).

  Lemma RI_add_block a b fl n cells cells' inp : RI a b -> (fl = false -> cells = cells') ->
    RI (fst (add_block a fl n cells inp)) (fst (add_block b fl n cells' inp)) /\
    snd (add_block a fl n cells inp) = snd (add_block b fl n cells' inp) /\
    hext (heap a) (heap (fst (add_block a fl n cells inp))) /\
    (if fl then ptr_float (heap (fst (add_block a fl n cells inp))) (snd (add_block a fl n cells inp))
     else ptr_int (heap (fst (add_block a fl n cells inp))) (snd (add_block a fl n cells inp))).
  Proof.
    intros R C. unfold add_block. simpl. split; [|split; [|split]].
    - unfold RI. simpl.
      apply (RA_new_block rl DB (with_env a []) (with_env b [])); auto. simpl. repeat split; auto.
    - pose proof (ra_nb _ _ _ _ R) as N. simpl in N. now rewrite N.
    - apply hext_add. intros old F. pose proof (ty_fresh _ _ (ra_ty _ _ _ _ R) (next_blk a)) as X.
      simpl in X. rewrite X in F; [discriminate|lia].
    - destruct fl; simpl; eexists; rewrite PM.gss; split; reflexivity.
  Qed.

  Local Arguments add_block : simpl never.

  Lemma RI_add_levels lv : forall a b, RI a b ->
    RI (fst (add_levels a lv)) (fst (add_levels b lv)) /\
    snd (add_levels a lv) = snd (add_levels b lv) /\
    hext (heap a) (heap (fst (add_levels a lv))) /\
    (forall p c, In (p, c) (snd (add_levels a lv)) ->
       ptr_int (heap (fst (add_levels a lv))) p /\ ptr_int (heap (fst (add_levels a lv))) c).
  Proof.
    induction lv as [|[[pos crd]|] r IH]; intros a b R; cbn [add_levels].
    - simpl. split; [exact R|]. split; [reflexivity|]. split; [apply hext_refl|]. intros p c [].
    - set (cp := cells_from VInt pos 0 (PM.empty value)). set (cc := cells_from VInt crd 0 (PM.empty value)).
      destruct (RI_add_block a b false (zlen pos) cp cp true R (fun _ => eq_refl)) as (R1 & E1 & X1 & P1).
      destruct (add_block a false (zlen pos) cp true) as [a1 p] eqn:A1.
      destruct (add_block b false (zlen pos) cp true) as [b1 p'] eqn:B1. cbn [fst snd] in *. subst p'.
      destruct (RI_add_block a1 b1 false (zlen crd) cc cc true R1 (fun _ => eq_refl)) as (R2 & E2 & X2 & P2).
      destruct (add_block a1 false (zlen crd) cc true) as [a2 c] eqn:A2.
      destruct (add_block b1 false (zlen crd) cc true) as [b2 c'] eqn:B2. cbn [fst snd] in *. subst c'.
      destruct (IH a2 b2 R2) as (R3 & E3 & X3 & P3).
      destruct (add_levels a2 r) as [a3 l] eqn:A3. destruct (add_levels b2 r) as [b3 l'] eqn:B3.
      cbn [fst snd] in *. subst l'. split; [exact R3|]. split; [reflexivity|]. split.
      + eapply hext_trans; [exact X1|]. eapply hext_trans; [exact X2|exact X3].
      + intros p0 c0 [Q|I0]; [inv Q|auto]. split.
        * eapply ptr_int_hext; [|exact P1]. eapply hext_trans; [exact X2|exact X3].
        * eapply ptr_int_hext; [exact X3|exact P2].
    - destruct (IH a b R) as (R3 & E3 & X3 & P3).
      destruct (add_levels a r) as [a3 l] eqn:A3. destruct (add_levels b r) as [b3 l'] eqn:B3.
      cbn [fst snd] in *. subst l'. split; [exact R3|]. split; [reflexivity|]. split; [exact X3|].
      intros p0 c0 [Q|I0]; [inv Q; simpl; auto|auto].
  Qed.

  Lemma RI_with_tensor a b id ts : RI a b -> ptr_float (heap a) (t_vals ts) ->
    (forall p c, In (p, c) (t_idx ts) -> ptr_int (heap a) p /\ ptr_int (heap a) c) ->
    RI (with_tensors a (PM.add id ts (tensors a))) (with_tensors b (PM.add id ts (tensors b))).
  Proof.
    intros [[A B C D] E N Tn H] Pv Pi. unfold RI. constructor; simpl in *; auto.
    - constructor; simpl; auto. intros t ts0 F. destruct (Pos.eq_dec t id) as [->|Nt].
      + rewrite PM.gss in F. inv F. auto.
      + rewrite PM.gso in F by exact Nt. eauto.
    - now rewrite Tn.
  Qed.

  Lemma RI_add_tensor a b id t t' : RI a b -> tin_sim t t' -> RI (add_tensor a id t) (add_tensor b id t').
  Proof.
    intros R (Sd & Sl & So & Sv). unfold add_tensor. rewrite <- So, <- Sd, <- Sl.
    destruct (ti_output t).
    - apply RI_with_tensor; auto; simpl; auto.
      intros p c I. apply in_map_iff in I. destruct I as (x & Q & _). inv Q. simpl. auto.
    - destruct (RI_add_levels (ti_levels t) a b R) as (R1 & E1 & X1 & P1).
      destruct (add_levels a (ti_levels t)) as [a1 idx] eqn:A1.
      destruct (add_levels b (ti_levels t)) as [b1 idx'] eqn:B1. cbn [fst snd] in *. subst idx'.
      set (cv := cells_from (fun f => VFloat (fcanon f)) (ti_vals t) 0 (PM.empty value)).
      set (cv' := cells_from (fun f => VFloat (fcanon f)) (ti_vals t') 0 (PM.empty value)).
      assert (Z : zlen (ti_vals t') = zlen (ti_vals t)) by (unfold zlen; now rewrite Sv).
      rewrite Z.
      destruct (RI_add_block a1 b1 true (zlen (ti_vals t)) cv cv' true R1) as (R2 & E2 & X2 & P2);
        [discriminate|].
      destruct (add_block a1 true (zlen (ti_vals t)) cv true) as [a2 v] eqn:A2.
      destruct (add_block b1 true (zlen (ti_vals t)) cv' true) as [b2 v'] eqn:B2. cbn [fst snd] in *. subst v'.
      apply RI_with_tensor; auto. simpl. intros p c I. destruct (P1 _ _ I). split; eapply ptr_int_hext; eauto.
  Qed.

  Lemma RI_init_tensors ts : forall ts' a b id, RI a b -> Forall2 tin_sim ts ts' ->
    RI (fst (init_tensors a id ts)) (fst (init_tensors b id ts')) /\
    snd (init_tensors a id ts) = snd (init_tensors b id ts').
  Proof.
    induction ts as [|t r IH]; intros ts' a b id R F; inv F; simpl.
    - auto.
    - pose proof (RI_add_tensor a b id t y R H1) as R1.
      destruct (IH l' _ _ (Pos.succ id) R1 H3) as [R2 E2].
      destruct (init_tensors (add_tensor a id t) (Pos.succ id) r) as [a2 args].
      destruct (init_tensors (add_tensor b id y) (Pos.succ id) l') as [b2 args']. simpl in *.
      subst. auto.
  Qed.

  Lemma RI_empty : RI empty_state empty_state.
  Proof.
    unfold RI. constructor; simpl; auto.
    - constructor; simpl; try discriminate.
      + intros t ts F. rewrite PM.gempty in F. discriminate.
      + intros b _. apply PM.gempty.
    - intros k. rewrite PM.gempty. exact I.
  Qed.

  Theorem RI_init_state ts ts' : Forall2 tin_sim ts ts' ->
    RI (fst (init_state ts)) (fst (init_state ts')) /\ snd (init_state ts) = snd (init_state ts').
  Proof. intros F. unfold init_state. apply RI_init_tensors; auto. apply RI_empty. Qed.
End INIT.

Lemma tin_sim_refl ts : Forall2 tin_sim ts ts.
Proof. induction ts; constructor; auto. repeat split; auto. Qed.

(** evaluate on [ts'] and assemble on [ts] (same dimensions, levels, ownership; input values of the
    same lengths but otherwise arbitrary): if evaluate returns [v], so does assemble, with the same
    fuel, and the output structure is the same *)
Theorem assemble_cert_runs fe fa : assemble_cert fe fa = true ->
  forall fuel ts ts', Forall2 tin_sim ts' ts ->
  match call fuel fe (snd (init_state ts')) (fst (init_state ts')) with
  | Returned a' v _ =>
      exists b' tr', call fuel fa (snd (init_state ts)) (fst (init_state ts)) = Returned b' v tr' /\
                     RA0 fe fa a' b' /\ forall out, out_structure a' out = out_structure b' out
  | _ => True
  end.
Proof.
  intros C fuel ts ts' F.
  destruct (RI_init_state (roles_of fe) (assigned_only_in fe fa) ts' ts F) as [R E].
  pose proof (assemble_cert_sound fe fa C fuel (snd (init_state ts')) _ _ R) as H.
  destruct (call fuel fe (snd (init_state ts')) (fst (init_state ts'))) as [|a' v t| |]; auto.
  destruct H as (b' & tr' & H1 & H2). rewrite <- E. exists b', tr'. split; auto. split; auto.
  intros out. eapply RA0_same_structure; eauto.
Qed.
