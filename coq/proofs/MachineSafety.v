(** Facts about the IR abstract machine that hold for EVERY IR program (properties C04, C05):
    a run that completes never changed an input tensor or one of its arrays, and a program without
    allocation forms / field stores never reallocates or re-points the output structure. *)

From Coq Require Import ZArith Bool List String Lia FMapPositive.
From TV Require Import spec.Num gen.IRAst spec.IRSem.
Import ListNotations.
Open Scope Z_scope.

Ltac inv H := inversion H; subst; clear H.

(** every allocated block id is below [next_blk] *)
Definition wf_heap (st : state) : Prop :=
  forall b blk, PM.find b (heap st) = Some blk -> (b < next_blk st)%positive.

(** input blocks and input tensor structs are exactly preserved *)
Definition frame (st st' : state) : Prop :=
  (forall b blk, PM.find b (heap st) = Some blk -> b_input blk = true ->
                 PM.find b (heap st') = Some blk)
  /\ (forall t ts, PM.find t (tensors st) = Some ts -> t_output ts = false ->
                   PM.find t (tensors st') = Some ts).

Lemma frame_refl st : frame st st.
Proof. split; auto. Qed.

Lemma frame_trans a b c : frame a b -> frame b c -> frame a c.
Proof. intros [H1 H2] [H3 H4]. split; eauto. Qed.

Definition step_ok (st st' : state) : Prop := wf_heap st' /\ frame st st'.

Lemma store_ok st blk off v st' : wf_heap st -> store st blk off v = Ok st' -> step_ok st st'.
Proof.
  unfold store, bind. intros W H.
  destruct (PM.find blk (heap st)) as [b|] eqn:F; try discriminate.
  destruct (negb (b_live b)); try discriminate.
  destruct (b_input b) eqn:I; try discriminate.
  destruct (_ || _); try discriminate.
  destruct (coerce _ v); try discriminate. inv H.
  split; [|split].
  - intros b0 blk0. simpl. destruct (Pos.eq_dec b0 blk) as [->|N].
    + rewrite PM.gss. intros _. eapply W; eauto.
    + rewrite PM.gso by auto. apply W.
  - intros b0 blk0 F0 I0. simpl. destruct (Pos.eq_dec b0 blk) as [->|N].
    + rewrite F in F0. inv F0. congruence.
    + now rewrite PM.gso by auto.
  - auto.
Qed.

Lemma alloc_ok st t n st' p tr : wf_heap st -> alloc st t n = Ok (st', p, tr) -> step_ok st st'.
Proof.
  unfold alloc, bind. intros W H. destruct (elt_is_float t); try discriminate.
  destruct (n <? 0); try discriminate. inv H. split; [|split].
  - intros b blk. simpl. destruct (Pos.eq_dec b (next_blk st)) as [->|N].
    + intros _. lia.
    + rewrite PM.gso by auto. intros F. apply W in F. lia.
  - intros b blk F I. simpl. rewrite PM.gso; auto. apply W in F. lia.
  - auto.
Qed.

Lemma realloc_ok st o t n st' p tr : wf_heap st -> realloc st o t n = Ok (st', p, tr) -> step_ok st st'.
Proof.
  unfold realloc, bind. intros W H. destruct (elt_is_float t) eqn:E; try discriminate.
  destruct (n <? 0) eqn:N0; try discriminate.
  destruct o as [| | |ob off| | | | |]; try discriminate.
  - destruct off; try discriminate.
    destruct (PM.find ob (heap st)) as [b|] eqn:F; try discriminate.
    destruct (negb (b_live b)); try discriminate.
    destruct (b_input b) eqn:I; try discriminate.
    destruct (negb _); try discriminate. inv H. split; [|split].
    + intros b0 blk0. simpl. destruct (Pos.eq_dec b0 (next_blk st)) as [->|N].
      * intros _. lia.
      * rewrite PM.gso by auto. destruct (Pos.eq_dec b0 ob) as [->|N2].
        -- intros _. apply W in F. lia.
        -- rewrite PM.gso by auto. intros F0. apply W in F0. lia.
    + intros b0 blk0 F0 I0. simpl.
      assert (b0 <> next_blk st) by (apply W in F0; lia).
      rewrite PM.gso by auto. destruct (Pos.eq_dec b0 ob) as [->|N2].
      * rewrite F in F0. inv F0. congruence.
      * now rewrite PM.gso by auto.
    + auto.
  - eapply alloc_ok; eauto.
Qed.

Lemma eval_rhs_ok st e st' v tr : wf_heap st -> eval_rhs st e = Ok (st', v, tr) -> step_ok st st'.
Proof.
  intros W H.
  destruct e as [x | tgt attr | tgt idx | z | f | b
    | l r | l r | l r | l r | l r | l r | l r | l r | l r | l r | l r | l r | l r
    | x | ty n | old ty n]; simpl in H; unfold bind in H;
    try (match type of H with
         | context [match ?X with _ => _ end] =>
             destruct X as [[? ?]|]; try discriminate; inv H; split; [auto|apply frame_refl]
         end);
    try (inv H; split; [auto|apply frame_refl]).
  - destruct (eval st n) as [[x t1]|]; try discriminate. destruct x; try discriminate.
    destruct (alloc st ty z) as [[[s p] t2]|] eqn:A; try discriminate. inv H.
    eapply alloc_ok; eauto.
  - destruct (negb _); try discriminate.
    destruct (eval st old) as [[o t1]|]; try discriminate.
    destruct (eval st n) as [[x t2]|]; try discriminate. destruct x; try discriminate.
    destruct (realloc st o ty z) as [[[s p] t3]|] eqn:A; try discriminate. inv H.
    eapply realloc_ok; eauto.
Qed.

Lemma tick_ok st : wf_heap st -> step_ok st (tick st).
Proof. intros W. split; [exact W | split; auto]. Qed.

Lemma with_env_ok st e : wf_heap st -> step_ok st (with_env st e).
Proof. intros W. split; [exact W | split; auto]. Qed.

Lemma assign_ok st l v st' tr : wf_heap st -> assign st l v = Ok (st', tr) -> step_ok st st'.
Proof.
  intros W H. destruct l; simpl in H; unfold bind in H.
  - destruct (lookup x (env st)) as [[t o]|]; try discriminate.
    destruct (coerce t v); try discriminate. inv H. now apply with_env_ok.
  - destruct (store st blk off v) eqn:S; try discriminate. inv H. eapply store_ok; eauto.
  - destruct (tensor_of st t) as [ts|] eqn:T; try discriminate.
    destruct (negb (t_output ts)) eqn:O; try discriminate.
    destruct (negb (is_ptr v)); try discriminate. inv H. split; [exact W|].
    split; auto. intros t0 ts0 F0 O0. simpl. destruct (Pos.eq_dec t0 t) as [->|N].
    + unfold tensor_of in T. rewrite F0 in T. inv T. apply negb_false_iff in O. congruence.
    + now rewrite PM.gso by auto.
  - destruct (tensor_of st t) as [ts|] eqn:T; try discriminate.
    destruct (negb (t_output ts)) eqn:O; try discriminate.
    destruct (negb (is_ptr v)); try discriminate.
    destruct (l <? 0); try discriminate.
    destruct (nth_error _ _) as [[p c]|]; try discriminate.
    destruct (if j =? 0 then _ else _) as [pc|]; try discriminate.
    destruct (set_nth _ _ _); try discriminate. inv H. split; [exact W|].
    split; auto. intros t0 ts0 F0 O0. simpl. destruct (Pos.eq_dec t0 t) as [->|N].
    + unfold tensor_of in T. rewrite F0 in T. inv T. apply negb_false_iff in O. congruence.
    + now rewrite PM.gso by auto.
Qed.

Lemma step_ok_trans a b c : step_ok a b -> step_ok b c -> step_ok a c.
Proof. intros [W1 F1] [W2 F2]. split; auto. eapply frame_trans; eauto. Qed.

Definition outcome_ok (st : state) (o : outcome) : Prop :=
  match o with
  | Normal st' _ => step_ok st st'
  | Returned st' _ _ => step_ok st st'
  | _ => True
  end.

Theorem exec_ok n : forall s st, wf_heap st -> outcome_ok st (exec n s st).
Proof.
  induction n as [|n IH]; intros s st W; [exact I|].
  destruct s as [name t | tgt val | tgt val | ss c | c a b | c body | e | e]; simpl.
  - unfold declare. destruct name; simpl; auto. now apply with_env_ok.
  - destruct (eval_rhs st val) as [[[st1 v] t1]|] eqn:E1; simpl; auto.
    pose proof (eval_rhs_ok _ _ _ _ _ W E1) as [W1 F1].
    destruct (eval_loc st1 tgt) as [[l t2]|]; simpl; auto.
    destruct (assign st1 l v) as [[st2 t3]|] eqn:E2; simpl; auto.
    eapply step_ok_trans; [split; eauto|]. eapply assign_ok; eauto.
  - destruct tgt; simpl; auto.
    destruct (eval_rhs st val) as [[[st1 v] t1]|] eqn:E1; simpl; auto.
    pose proof (eval_rhs_ok _ _ _ _ _ W E1) as [W1 F1].
    destruct (coerce type v); simpl; auto.
    unfold declare. destruct name; simpl; auto.
    eapply step_ok_trans; [split; eauto|]. now apply with_env_ok.
  - assert (G : forall l st0 tr, wf_heap st0 -> step_ok st st0 ->
      outcome_ok st ((fix go (l : list stmt) (st : state) (tr : list event) : outcome :=
           match l with
           | [] => Normal st tr
           | s1 :: r =>
               match exec n s1 st with
               | Normal st' t1 => go r st' (tr ++ t1)
               | Returned st' v t1 => Returned st' v (tr ++ t1)
               | Fail x => Fail x
               | OutOfFuel => OutOfFuel
               end
           end) l st0 tr)).
    { induction l as [|s1 r IHl]; intros st0 tr W0 S0; simpl; auto.
      pose proof (IH s1 st0 W0) as H1.
      destruct (exec n s1 st0) as [st' t1|st' v t1|x|]; simpl in *; auto.
      - apply IHl; [apply H1 | eapply step_ok_trans; eauto].
      - eapply step_ok_trans; eauto. }
    apply G; auto. split; [exact W | apply frame_refl].
  - destruct (eval st c) as [[v t1]|]; simpl; auto.
    destruct (as_bool v) as [[|]|]; simpl; auto.
    + pose proof (IH a st W) as H. destruct (exec n a st); simpl in *; auto.
    + pose proof (IH b st W) as H. destruct (exec n b st); simpl in *; auto.
  - destruct (eval st c) as [[v t1]|]; simpl; auto.
    destruct (as_bool v) as [[|]|]; simpl; auto.
    + pose proof (IH body st W) as H. destruct (exec n body st) as [st' t2|st' r t2|x|]; simpl in *; auto.
      destruct H as [W1 F1].
      pose proof (IH (Loop c body) (tick st') (proj1 (tick_ok _ W1))) as H2.
      destruct (exec n (Loop c body) (tick st')); simpl in *; auto;
        (eapply step_ok_trans; [split; eauto|]); (eapply step_ok_trans; [apply tick_ok; auto|]); auto.
    + split; [exact W | apply frame_refl].
  - destruct (eval st e) as [[v t]|]; simpl; auto. split; [exact W | apply frame_refl].
  - destruct (eval st e) as [[v t]|]; simpl; auto. split; [exact W | apply frame_refl].
Qed.

(** Whole kernels: if the run completes, every input array and every input tensor structure is
    bit-for-bit what it was. *)
Theorem call_preserves_inputs fuel f args st st' v tr :
  wf_heap st -> call fuel f args st = Returned st' v tr -> frame st st'.
Proof.
  intros W. destruct f as [name ps rt body]. unfold call.
  destruct (bind_params ps args []) as [e|]; try discriminate.
  pose proof (exec_ok fuel body (with_env st e) (proj1 (with_env_ok st e W))) as H.
  destruct (exec fuel body (with_env st e)) as [s1 t1|s1 r t1|x|]; try discriminate.
  destruct (coerce rt r); try discriminate. intros E. inv E.
  destruct H as [_ [F1 F2]]. split; auto.
Qed.

(** * What a successful access means (the machine checks every load and store) *)

Lemma load_checked st b o v : load st b o = Ok v ->
  exists blk, PM.find b (heap st) = Some blk /\ b_live blk = true /\ 0 <= o < b_len blk
              /\ PM.find (key o) (b_cells blk) = Some v.
Proof.
  unfold load. destruct (PM.find b (heap st)) as [blk|]; try discriminate.
  destruct (negb (b_live blk)) eqn:L; try discriminate.
  destruct ((o <? 0) || (b_len blk <=? o)) eqn:B; try discriminate.
  destruct (PM.find (key o) (b_cells blk)) as [c|] eqn:C; try discriminate.
  destruct (typed _ c); try discriminate. intros H; inv H.
  exists blk. apply negb_false_iff in L. apply orb_false_iff in B. destruct B as [B1 B2].
  apply Z.ltb_ge in B1. apply Z.leb_gt in B2. repeat split; auto.
Qed.

Lemma store_checked st b o v st' : store st b o v = Ok st' ->
  exists blk, PM.find b (heap st) = Some blk /\ b_live blk = true /\ b_input blk = false
              /\ 0 <= o < b_len blk.
Proof.
  unfold store, bind. destruct (PM.find b (heap st)) as [blk|]; try discriminate.
  destruct (negb (b_live blk)) eqn:L; try discriminate.
  destruct (b_input blk) eqn:I; try discriminate.
  destruct ((o <? 0) || (b_len blk <=? o)) eqn:B; try discriminate.
  destruct (coerce _ v); try discriminate. intros H; inv H.
  exists blk. apply negb_false_iff in L. apply orb_false_iff in B. destruct B as [B1 B2].
  apply Z.ltb_ge in B1. apply Z.leb_gt in B2. repeat split; auto.
Qed.
