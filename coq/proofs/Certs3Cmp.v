(** evaluate ~ compute (started on assemble's result): soundness of the alignment [alignC].

    Relation [RC ph cur a c] between a state [a] of the evaluate run and a state [c] of the compute
    run.  [a] is well typed ([TY]); scalars outside [U] and the input pointers agree; every input
    block of [a] is the same block in [c]; the tensor structs of the inputs agree; compute's value
    pointers ([r_v]) all point into ONE block [bV] (= [out->vals] of the state compute starts in).
    Phase [false]: evaluate's value pointers are NULL.  Phase [true]: the root value pointer of
    evaluate is [(cur, 0)] with [cur] a live double block, every value pointer of evaluate is NULL,
    dead, or [(cur, o)] where compute's copy is [(bV, o)], and every initialised cell of [cur] below
    the length of [bV] has the same content in [bV]. *)

From Coq Require Import ZArith Bool List String Lia FMapPositive SetoidList.
From Flocq Require Import Core BinarySingleNaN.
From TV Require Import spec.Num gen.IRAst spec.IRSem proofs.Certs2Base proofs.Certs3Defs proofs.Certs3Base
  proofs.Certs3Asm.
Import ListNotations.
Open Scope Z_scope.

Local Arguments fadd : simpl never.
Local Arguments fsub : simpl never.
Local Arguments fmul : simpl never.
Local Arguments chk32 : simpl never.
Local Arguments chkfin : simpl never.

(** * keep_prefix *)

Lemma keep_prefix_find n cells k :
  PM.find k (keep_prefix n cells) = if Zpos k <=? n then PM.find k cells else None.
Proof.
  unfold keep_prefix. rewrite PM.fold_1.
  assert (G : forall l acc,
    NoDupA (fun a b : positive * value => fst a = fst b) l ->
    PM.find k (fold_left (fun a p => if Zpos (fst p) <=? n then PM.add (fst p) (snd p) a else a) l acc)
    = match find (fun p => Pos.eqb (fst p) k) l with
      | Some p => if Zpos k <=? n then Some (snd p) else PM.find k acc
      | None => PM.find k acc
      end).
  { induction l as [|[k0 v0] l IH]; intros acc ND; simpl; auto.
    inversion ND as [|? ? NI ND']; subst. rewrite IH by auto.
    destruct (Pos.eqb k0 k) eqn:E.
    - apply Pos.eqb_eq in E. subst k0.
      assert (find (fun p => Pos.eqb (fst p) k) l = None) as ->.
      { destruct (find _ l) as [[k1 v1]|] eqn:F; auto. apply find_some in F. destruct F as [I E1]. simpl in E1.
        apply Pos.eqb_eq in E1. subst k1. exfalso. apply NI. apply InA_alt. exists (k, v1). split; auto. }
      destruct (Zpos k <=? n); auto. now rewrite PM.gss.
    - apply Pos.eqb_neq in E. destruct (find _ l) as [p|]; auto.
      + destruct (Zpos k <=? n); auto. destruct (Zpos k0 <=? n); auto. now rewrite PM.gso by auto.
      + destruct (Zpos k0 <=? n); auto. now rewrite PM.gso by auto. }
  rewrite G by apply PM.elements_3w. rewrite PM.gempty.
  destruct (find (fun p : positive * value => Pos.eqb (fst p) k) (PM.elements cells)) as [[k1 v1]|] eqn:F.
  - apply find_some in F. destruct F as [I E]. simpl in E. apply Pos.eqb_eq in E. subst k1.
    apply PM.elements_complete in I. rewrite I. reflexivity.
  - destruct (PM.find k cells) as [v|] eqn:Fk; [|now destruct (_ <=? _)].
    apply PM.elements_correct in Fk. eapply find_none in F; eauto. simpl in F. rewrite Pos.eqb_refl in F. discriminate.
Qed.

Definition inptr (h : PM.t block) (v : value) : Prop :=
  forall b o, v = VPtr b o -> exists blk, PM.find b h = Some blk /\ b_input blk = true.

Definition dead (h : PM.t block) (b : positive) : Prop :=
  exists blk, PM.find b h = Some blk /\ b_live blk = false.

Definition sub_cells (n : Z) (ce cc : PM.t value) : Prop :=
  forall k v, Zpos k <= n -> PM.find k ce = Some v -> PM.find k cc = Some v.

Section CMP.
  Variable rl : roles.
  Variable U : list string.
  Variable tout bV : positive.
  Hypothesis H_os : forall x, mem x (r_os rl) = true -> mem x (r_ip rl) = true.
  Hypothesis H_v : forall x, mem x (r_v rl) = true -> mem x (r_fp rl) = true.
  Hypothesis H_disj : forall x, mem x (r_ip rl) = true -> mem x (r_fp rl) = false.

  Definition pars : list string := r_out rl :: r_ins rl.
  Definition inP (x : string) : bool := ins_p rl x || inv_p rl x.

  Definition vrel (ph : bool) (a : state) (cur : positive) (vE : value) (o' : Z) : Prop :=
    if ph then vE = VNull \/ exists b o, vE = VPtr b o /\ ((b = cur /\ o' = o) \/ dead (heap a) b)
    else vE = VNull.

  Record cur_ok (a c : state) (cur : positive) : Prop := mkCO {
    co_root : exists t, lookup (r_root rl) (env a) = Some (t, Some (VPtr cur 0));
    co_blk : exists be bc, PM.find cur (heap a) = Some be /\ b_live be = true /\ b_float be = true /\
               b_input be = false /\ PM.find bV (heap c) = Some bc /\
               sub_cells (b_len bc) (b_cells be) (b_cells bc)
  }.

  Record RC (ph : bool) (cur : positive) (a c : state) : Prop := mkRC {
    rc_ty : TY rl a;
    rc_env : forall x, rdC rl U x = true -> lookup x (env a) = lookup x (env c);
    rc_inp : forall x t v, inP x = true -> lookup x (env a) = Some (t, Some v) -> inptr (heap a) v;
    rc_inh : forall b blk, PM.find b (heap a) = Some blk -> b_input blk = true ->
               PM.find b (heap c) = Some blk;
    rc_out : lookup (r_out rl) (env a) = Some (TPointer TTensor, Some (VTensor tout)) /\
             lookup (r_out rl) (env c) = Some (TPointer TTensor, Some (VTensor tout));
    rc_ins : forall T t ov, In T (r_ins rl) -> lookup T (env a) = Some (t, ov) ->
               exists id, ov = Some (VTensor id) /\ id <> tout;
    rc_tn : forall t, t <> tout -> forall ts, PM.find t (tensors a) = Some ts ->
              PM.find t (tensors c) = Some ts /\
              inptr (heap a) (t_vals ts) /\
              forall p q, In (p, q) (t_idx ts) -> inptr (heap a) p /\ inptr (heap a) q;
    rc_tout : exists tsa tsc,
                PM.find tout (tensors a) = Some tsa /\ PM.find tout (tensors c) = Some tsc /\
                t_dims tsa = t_dims tsc /\ List.length (t_idx tsa) = List.length (t_idx tsc) /\
                (forall p q, In (p, q) (t_idx tsc) -> is_ptr p && is_ptr q = true) /\
                t_vals tsc = VPtr bV 0 /\ vrel ph a cur (t_vals tsa) 0;
    rc_bv : exists bc, PM.find bV (heap c) = Some bc /\ b_live bc = true /\ b_float bc = true /\
                       b_input bc = false;
    rc_v : forall x t ov, mem x (r_v rl) = true -> lookup x (env a) = Some (t, ov) ->
             exists o', lookup x (env c) = Some (t, Some (VPtr bV o')) /\
                        (String.eqb x (r_root rl) = true -> o' = 0) /\
                        forall vE, ov = Some vE -> vrel ph a cur vE o';
    rc_cur : ph = true -> cur_ok a c cur
  }.

  Definition RCx (ph : bool) (a c : state) : Prop := exists cur, RC ph cur a c.

  (** ** small facts *)

  Lemma inptr_mono h h' v :
    (forall b blk, PM.find b h = Some blk -> b_input blk = true -> PM.find b h' = Some blk) ->
    inptr h v -> inptr h' v.
  Proof. intros X I b o Q. destruct (I b o Q) as (blk & F & In). eauto. Qed.

  Lemma vrel_mono ph a a' cur vE o' :
    (forall b, dead (heap a) b -> dead (heap a') b) -> vrel ph a cur vE o' -> vrel ph a' cur vE o'.
  Proof.
    intros X. unfold vrel. destruct ph; auto. intros [N|(b & o & Q & [Y|Y])]; auto.
    - right. exists b, o. auto.
    - right. exists b, o. auto.
  Qed.

  Lemma v_not_ip x : mem x (r_v rl) = true -> mem x (r_ip rl) = false.
  Proof.
    intros M. destruct (mem x (r_ip rl)) eqn:Q; auto. apply H_disj in Q. apply H_v in M. congruence.
  Qed.

  Lemma os_not_fp x : mem x (r_os rl) = true -> mem x (r_fp rl) = false.
  Proof. intros M. apply H_disj. now apply H_os. Qed.

  (** ** environment updates *)

  Lemma RC_set ph cur a c x t vE (oc : option value) :
    RC ph cur a c ->
    mem x pars = false ->
    (mem x (r_ip rl) = true -> ptr_int (heap a) vE) ->
    (mem x (r_fp rl) = true -> ptr_float (heap a) vE) ->
    (rdC rl U x = true -> oc = Some vE) ->
    (inP x = true -> inptr (heap a) vE) ->
    (mem x (r_v rl) = true ->
       exists o', lookup x (env (match oc with Some vC => with_env c (set_var x (t, Some vC) (env c)) | None => c end))
                  = Some (t, Some (VPtr bV o')) /\
                  (String.eqb x (r_root rl) = true -> o' = 0) /\ vrel ph a cur vE o') ->
    (String.eqb x (r_root rl) = true -> ph = true -> vE = VPtr cur 0) ->
    RC ph cur (with_env a (set_var x (t, Some vE) (env a)))
       (match oc with Some vC => with_env c (set_var x (t, Some vC) (env c)) | None => c end).
  Proof.
    intros R Np Ti Tf Hrd Hin Hv Hroot.
    assert (Npo : String.eqb (r_out rl) x = false).
    { unfold pars in Np. simpl in Np. apply orb_false_iff in Np. destruct Np as [Np _].
      now rewrite String.eqb_sym. }
    assert (Npi : forall T, In T (r_ins rl) -> String.eqb T x = false).
    { intros T I. destruct (String.eqb T x) eqn:Q; auto. apply String.eqb_eq in Q. subst.
      unfold pars in Np. simpl in Np. apply orb_false_iff in Np. destruct Np as [_ Np].
      apply mem_false_In in Np. contradiction. }
    set (c1 := match oc with Some vC => with_env c (set_var x (t, Some vC) (env c)) | None => c end) in *.
    assert (Hc : heap c1 = heap c /\ tensors c1 = tensors c) by (unfold c1; destruct oc; auto).
    destruct Hc as [Hc1 Hc2].
    assert (Lc : forall y, String.eqb y x = false -> lookup y (env c1) = lookup y (env c)).
    { intros y Q. unfold c1. destruct oc; auto. simpl. rewrite lookup_set_var, Q. reflexivity. }
    destruct R as [T E Ip Ih Ro Ri Tn To Bv Vv Cu]. constructor; simpl; rewrite ?Hc1, ?Hc2; auto.
    - apply TY_set_var; auto.
    - intros y Rd. rewrite lookup_set_var. destruct (String.eqb y x) eqn:Q.
      + apply String.eqb_eq in Q. subst y. unfold c1. rewrite (Hrd Rd). simpl.
        rewrite lookup_set_var, String.eqb_refl. reflexivity.
      + rewrite (Lc _ Q). auto.
    - intros y t0 v0 I L. rewrite lookup_set_var in L. destruct (String.eqb y x) eqn:Q.
      + apply String.eqb_eq in Q. subst y. inv L. auto.
      + eauto.
    - rewrite lookup_set_var, Npo, (Lc _ Npo). exact Ro.
    - intros T0 t0 ov I L. rewrite lookup_set_var, (Npi _ I) in L. eauto.
    - intros y t0 ov M L. rewrite lookup_set_var in L. destruct (String.eqb y x) eqn:Q.
      + apply String.eqb_eq in Q. subst y. inv L. destruct (Hv M) as (o' & L1 & L2 & L3).
        exists o'. split; auto. split; auto. intros vE0 Q0. inv Q0. exact L3.
      + rewrite (Lc _ Q). eauto.
    - intros P. destruct (Cu P) as [[t0 Cr] Cb]. constructor.
      + simpl. rewrite lookup_set_var. destruct (String.eqb (r_root rl) x) eqn:Q.
        * rewrite String.eqb_sym in Q. rewrite (Hroot Q P). eauto.
        * eauto.
      + simpl. rewrite Hc1. exact Cb.
  Qed.


  (** ** heap changes of the evaluate side that stay away from the inputs and from [cur] *)

  Lemma RC_heapA ph cur a a1 c : RC ph cur a c ->
    env a1 = env a -> tensors a1 = tensors a -> TY rl a1 ->
    (forall b blk, PM.find b (heap a) = Some blk -> b_input blk = true -> PM.find b (heap a1) = Some blk) ->
    (forall b blk, PM.find b (heap a1) = Some blk -> b_input blk = true -> PM.find b (heap a) = Some blk) ->
    (forall b, dead (heap a) b -> dead (heap a1) b) ->
    (ph = true -> PM.find cur (heap a1) = PM.find cur (heap a)) ->
    RC ph cur a1 c.
  Proof.
    intros [T E Ip Ih Ro Ri Tn To Bv Vv Cu] He Ht T1 X1 X2 X3 X4.
    constructor; rewrite ?He, ?Ht; auto.
    - intros x t v I L. eapply inptr_mono; eauto.
    - intros t Nt ts F. destruct (Tn t Nt ts F) as (Q1 & Q3 & Q4). split; auto.
      split; [eapply inptr_mono; eauto|]. intros p q I. destruct (Q4 p q I). split; eapply inptr_mono; eauto.
    - destruct To as (tsa & tsc & Q1 & Q2 & Q3 & Q4 & Q5 & Q6 & Q7). exists tsa, tsc. repeat split; auto.
      eapply vrel_mono; [|eauto]. exact X3.
    - intros x t ov M L. destruct (Vv x t ov M L) as (o' & L1 & L2 & L3). exists o'. split; auto. split; auto.
      intros vE Q. eapply vrel_mono; [|eauto]. exact X3.
    - intros P. destruct (Cu P) as [Cr Cb]. constructor; rewrite ?He; auto. rewrite (X4 P). exact Cb.
  Qed.

  (** ** expressions *)

  Lemma typed_ptr_any t b o b' o' : typed t (VPtr b o) = true -> typed t (VPtr b' o') = true.
  Proof. destruct t; simpl; auto. Qed.

  Lemma index_value_ptr st w i r tr :
    match w with VInt _ | VFloat _ | VBool _ | VNull | VTensor _ => True | _ => False end ->
    index_value st w i = Ok (r, tr) -> False.
  Proof. unfold index_value. destruct w; try contradiction; intros _ H; destruct i; discriminate. Qed.

  Lemma eval_var_inv st x v t : eval st (Var x) = Ok (v, t) ->
    exists ty, lookup x (env st) = Some (ty, Some v) /\ typed ty v = true /\ t = [].
  Proof.
    simpl. destruct (lookup x (env st)) as [[ty [w|]]|]; try discriminate.
    destruct (typed ty w) eqn:T; try discriminate. intros H. inv H. eauto.
  Qed.

  Lemma load_input ph cur a c w iv r tr x t :
    RC ph cur a c -> inP x = true -> lookup x (env a) = Some (t, Some w) -> typed t w = true ->
    index_value a w iv = Ok (r, tr) -> index_value c w iv = Ok (r, tr).
  Proof.
    intros R I L Ty H. pose proof (rc_inp _ _ _ _ R x t w I L) as Ip. apply typed_shape in Ty.
    unfold index_value in *. destruct w; try contradiction; try (destruct iv; discriminate).
    destruct iv; try discriminate.
    destruct (Ip blk off eq_refl) as (bk & F & In). pose proof (rc_inh _ _ _ _ R _ _ F In) as Fc.
    unfold load in *. rewrite F in H. rewrite Fc. exact H.
  Qed.

  Lemma dims_value ph cur a c id iv r tr : RC ph cur a c ->
    index_value a (VDims id) iv = Ok (r, tr) -> index_value c (VDims id) iv = Ok (r, tr).
  Proof.
    intros R H. unfold index_value, tensor_of in *. destruct iv; try discriminate.
    destruct (Pos.eq_dec id tout) as [->|N].
    - destruct (rc_tout _ _ _ _ R) as (tsa & tsc & F1 & F2 & D & _). rewrite F1 in H. rewrite F2.
      cbn [bind] in *. now rewrite <- D.
    - destruct (PM.find id (tensors a)) as [ts|] eqn:F; [|discriminate H].
      destruct (rc_tn _ _ _ _ R id N ts F) as (Q & _). now rewrite Q.
  Qed.

  Lemma eval_C0 ph cur a c e : RC ph cur a c -> sexpC rl U false e = true ->
    forall r, eval a e = Ok r -> eval c e = Ok r.
  Proof.
    intros R. induction e; simpl sexpC; intros S r H; try discriminate; try exact H.
    all: try (apply andb_prop in S; destruct S as [S1 S2]; cbn [eval] in *; unfold bin2 in *;
              destruct (eval a e1) as [[x t1]|] eqn:E1; cbn [bind] in H; [|discriminate H];
              rewrite (IHe1 S1 _ eq_refl); cbn [bind] in *;
              try (match type of H with context [as_bool x] => destruct (as_bool x) as [[|]|]; cbn [bind] in *; try exact H; try discriminate H end);
              destruct (eval a e2) as [[y t2]|] eqn:E2; cbn [bind] in H; [|discriminate H];
              rewrite (IHe2 S2 _ eq_refl); exact H).
    - (* Var *)
      split_andb. destruct r as [v t]. cbn [eval] in *. now rewrite <- (rc_env _ _ _ _ R name ltac:(assumption)).
    - (* ArrayIndex *)
      destruct e1 as [p| tgt at0 | | | | | | | | | | | | | | | | | | | |]; try discriminate.
      + apply andb_prop in S. destruct S as [S1 S2]. rewrite orb_false_r in S1. split_andb.
        rewrite eval_idx_unf in *.
        destruct (eval a (Var p)) as [[w t1]|] eqn:Ep; try discriminate. cbn [bind] in H.
        destruct (eval a e2) as [[iv t2]|] eqn:Ei; try discriminate. cbn [bind] in H.
        destruct (index_value a w iv) as [[x t3]|] eqn:IX; try discriminate.
        destruct (eval_var_inv _ _ _ _ Ep) as (ty & L & Ty & ->).
        assert (Ec : eval c (Var p) = Ok (w, [])).
        { cbn [eval]. rewrite <- (rc_env _ _ _ _ R p ltac:(assumption)), L, Ty. reflexivity. }
        rewrite Ec, (IHe2 S2 _ eq_refl). cbn [bind].
        assert (Hin : inP p = true) by (unfold inP; assumption).
        rewrite (load_input _ _ _ _ _ _ _ _ _ _ R Hin L Ty IX). exact H.
      + destruct tgt; try discriminate. split_andb.
        match goal with Hq : String.eqb at0 _ = true |- _ => apply String.eqb_eq in Hq; subst at0 end.
        rewrite eval_idx_unf, eval_attr_unf in *.
        destruct (eval a (Var name)) as [[w t1]|] eqn:Ep; try discriminate. cbn [bind] in H.
        destruct (eval_var_inv _ _ _ _ Ep) as (ty & L & Ty & ->).
        assert (Ec : eval c (Var name) = Ok (w, [])).
        { cbn [eval]. rewrite <- (rc_env _ _ _ _ R name ltac:(assumption)), L, Ty. reflexivity. }
        rewrite Ec. cbn [bind].
        destruct (attribute_value a w "dimensions") as [d|] eqn:AV; try discriminate. cbn [bind] in H.
        unfold attribute_value in AV. destruct w; try discriminate. simpl in AV. inv AV.
        unfold attribute_value. simpl String.eqb. cbn [bind].
        destruct (eval a e2) as [[iv t2]|] eqn:Ei; try discriminate. cbn [bind] in H.
        rewrite (IHe2 ltac:(assumption) _ eq_refl). cbn [bind].
        destruct (index_value a (VDims t) iv) as [[x t3]|] eqn:IX; try discriminate.
        rewrite (dims_value _ _ _ _ _ _ _ _ R IX). exact H.
    - (* BooleanToInteger *)
      cbn [eval] in *. destruct (eval a e) as [[x t1]|] eqn:E1; cbn [bind] in H; [|discriminate H].
      rewrite (IHe S _ eq_refl). exact H.
  Qed.


  Definition okC (rE : value) (rC : res (value * list event)) : Prop :=
    (exists t', rC = Ok (rE, t')) \/ rC = Err EOutOfBounds.

  Lemma bin2_C1 op ra rb ra' rb' v t : bin2 op ra rb = Ok (v, t) ->
    (forall x t1, ra = Ok (x, t1) -> okC x ra') -> (forall y t2, rb = Ok (y, t2) -> okC y rb') ->
    okC v (bin2 op ra' rb').
  Proof.
    intros H A B. apply bin2_inv in H. destruct H as (x & t1 & y & t2 & E1 & E2 & OP).
    unfold bin2. destruct (A _ _ E1) as [[t1' ->]| ->]; cbn [bind]; [|right; reflexivity].
    destruct (B _ _ E2) as [[t2' ->]| ->]; cbn [bind]; [|right; reflexivity].
    rewrite OP. cbn [bind]. left. eauto.
  Qed.

  Lemma load_V cur a c p iv v t3 w ty : RC true cur a c -> mem p (r_v rl) = true ->
    lookup p (env a) = Some (ty, Some w) -> typed ty w = true ->
    index_value a w iv = Ok (v, t3) ->
    exists o, eval c (Var p) = Ok (VPtr bV o, []) /\
              ((exists t', index_value c (VPtr bV o) iv = Ok (v, t')) \/
               index_value c (VPtr bV o) iv = Err EOutOfBounds).
  Proof.
    intros R M L Ty IX. destruct (rc_v _ _ _ _ R p ty (Some w) M L) as (o' & Lc & _ & Vr).
    specialize (Vr w eq_refl). unfold vrel in Vr.
    pose proof (typed_shape _ _ Ty) as Sh.
    destruct w; try contradiction; try (exfalso; eapply index_value_ptr; [|exact IX]; exact I).
    destruct Vr as [Vr|(b & o & Q & Vr)]; [discriminate|]. inv Q.
    unfold index_value in IX. destruct iv; try discriminate. unfold bind in IX.
    destruct (load a b (o + z)) as [x|] eqn:Ld; try discriminate. inv IX.
    destruct Vr as [[-> ->]|(bk & F & Lv)].
    2:{ unfold load in Ld. rewrite F, Lv in Ld. discriminate. }
    exists o. split.
    { cbn [eval]. rewrite Lc. now rewrite (typed_ptr_any _ _ _ bV o Ty). }
    destruct (rc_cur _ _ _ _ R eq_refl) as [_ (be & bc & Fe & Le & Fle & Ie & Fc & Sub)].
    destruct (rc_bv _ _ _ _ R) as (bc' & Fc' & Lc' & Flc & Ic). rewrite Fc in Fc'. inv Fc'.
    unfold index_value, bind, load in *. rewrite Fe, Le, Fle in Ld. rewrite Fc, Lc', Flc. cbn [negb] in *.
    destruct ((o + z <? 0) || (b_len be <=? o + z)) eqn:RgE; try discriminate.
    destruct ((o + z <? 0) || (b_len bc' <=? o + z)) eqn:RgC; [right; reflexivity|].
    destruct (PM.find (key (o + z)) (b_cells be)) as [cv|] eqn:Fk; try discriminate.
    assert (PM.find (key (o + z)) (b_cells bc') = Some cv) as ->.
    { apply Sub; auto. apply orb_false_iff in RgC. destruct RgC as [R1 R2].
      apply Z.ltb_ge in R1. apply Z.leb_gt in R2. unfold key. rewrite Z2Pos.id by lia. lia. }
    destruct (typed TFloat cv); try discriminate. inv Ld. left. eauto.
  Qed.

  Lemma eval_C1 cur a c e : RC true cur a c -> sexpC rl U true e = true ->
    forall v t, eval a e = Ok (v, t) -> okC v (eval c e).
  Proof.
    intros R. induction e; simpl sexpC; intros S v t H; try discriminate;
      try (left; eexists; eapply (eval_C0 true cur a c); eauto; fail).
    all: try (apply andb_prop in S; destruct S as [S1 S2]; cbn [eval] in *;
              eapply bin2_C1; [exact H| |]; intros; eauto; fail).
    - (* ArrayIndex *)
      destruct e1 as [p| tgt at0 | | | | | | | | | | | | | | | | | | | |]; try discriminate.
      + apply andb_prop in S. destruct S as [S1 S2].
        destruct (rdC rl U p && (ins_p rl p || inv_p rl p)) eqn:Q.
        { left. eexists. eapply (eval_C0 true cur a c); eauto. simpl sexpC. now rewrite Q, S2. }
        simpl in S1. rewrite eval_idx_unf in *.
        destruct (eval a (Var p)) as [[w t1]|] eqn:Ep; try discriminate. cbn [bind] in H.
        destruct (eval a e2) as [[iv t2]|] eqn:Ei; try discriminate. cbn [bind] in H.
        destruct (index_value a w iv) as [[x t3]|] eqn:IX; try discriminate. inv H.
        destruct (eval_var_inv _ _ _ _ Ep) as (ty & L & Ty & ->).
        destruct (load_V _ _ _ _ _ _ _ _ _ R S1 L Ty IX) as (o & Ec & Hc).
        rewrite Ec, (eval_C0 _ _ _ _ _ R S2 _ Ei). cbn [bind].
        destruct Hc as [[t' ->]| ->]; cbn [bind]; [left; eauto|right; reflexivity].
      + left. eexists. eapply (eval_C0 true cur a c); eauto.
    - (* BooleanToInteger *)
      cbn [eval] in *. destruct (eval a e) as [[x t1]|] eqn:E1; cbn [bind] in H; [|discriminate H].
      destruct (IHe S _ _ eq_refl) as [[t' ->]| ->]; cbn [bind]; [|right; reflexivity].
      destruct (as_bool x); cbn [bind] in *; [|discriminate H]. inv H. left. eauto.
  Qed.


  (** ** kept atomic statements *)

  Hypothesis H_root : mem (r_root rl) (r_v rl) = true.

  Definition OKF (x : err) : Prop := x = EOutOfBounds.

  Lemma exec_declassign st x t e :
    exec 1 (DeclarationAssignment (Declaration (Var x) t) e) st =
    match eval_rhs st e with
    | Err er => Fail er
    | Ok (st1, v, t1) =>
        match coerce t v with
        | Err er => Fail er
        | Ok v' => Normal (with_env st1 (set_var x (t, Some v') (env st1))) t1
        end
    end.
  Proof. reflexivity. Qed.

  Lemma exec_assign_var st x e :
    exec 1 (Assignment (Var x) e) st =
    match eval_rhs st e with
    | Err er => Fail er
    | Ok (st1, v, t1) =>
        match lookup x (env st1) with
        | Some (t, _) =>
            match coerce t v with
            | Ok v' => Normal (with_env st1 (set_var x (t, Some v') (env st1))) (t1 ++ [] ++ [])
            | Err er => Fail er
            end
        | None => Fail EUnbound
        end
    end.
  Proof.
    simpl. destruct (eval_rhs st e) as [[[st1 v] t1]|]; auto.
    destruct (lookup x (env st1)) as [[t o]|]; auto. unfold bind. destruct (coerce t v); auto.
  Qed.

  Lemma scalar_facts x : scalar_var rl x = true ->
    mem x (r_ip rl) = false /\ mem x (r_fp rl) = false /\ mem x pars = false /\
    mem x (r_os rl) = false /\ mem x (r_v rl) = false /\ inP x = false /\
    String.eqb x (r_root rl) = false.
  Proof.
    unfold scalar_var. intros H. split_andb.
    apply negb_true_iff in H, H0, H1. fold pars in H0.
    assert (O : mem x (r_os rl) = false).
    { destruct (mem x (r_os rl)) eqn:Q; auto. apply H_os in Q. congruence. }
    assert (V : mem x (r_v rl) = false).
    { destruct (mem x (r_v rl)) eqn:Q; auto. apply H_v in Q. congruence. }
    repeat split; auto.
    - unfold inP, ins_p, inv_p. now rewrite H1, H.
    - destruct (String.eqb x (r_root rl)) eqn:Q; auto. apply String.eqb_eq in Q. subst. congruence.
  Qed.

  Lemma RC_set_scalar ph cur a c x t v both :
    RC ph cur a c -> scalar_var rl x = true -> (both = false -> mem x U = true) ->
    (both = true -> mem x U = false) ->
    RC ph cur (with_env a (set_var x (t, Some v) (env a)))
       (if both then with_env c (set_var x (t, Some v) (env c)) else c).
  Proof.
    intros R S B1 B2. destruct (scalar_facts x S) as (F1 & F2 & F3 & F4 & F5 & F6 & F7).
    pose proof (RC_set ph cur a c x t v (if both then Some v else None) R F3) as X.
    destruct both; apply X; try congruence; auto.
    intros Rd. unfold rdC in Rd. rewrite (B1 eq_refl) in Rd. discriminate.
  Qed.

  Lemma sexp_not_alloc lv e : sexpC rl U lv e = true -> is_alloc e = false.
  Proof. destruct e; simpl; auto; discriminate. Qed.

  Lemma keep_scalar ph cur a c x e (decl : option ty) :
    RC ph cur a c -> mem x U = false -> scalar_var rl x = true -> sexpC rl U false e = true ->
    let s := match decl with Some t => DeclarationAssignment (Declaration (Var x) t) e
                           | None => Assignment (Var x) e end in
    osimK bool RCx OKF ph (exec 1 s a) (exec 1 s c).
  Proof.
    intros R Ux S Se s. pose proof (sexp_not_alloc _ _ Se) as NA.
    destruct (scalar_facts x S) as (F1 & F2 & F3 & F4 & F5 & F6 & F7).
    assert (Rd : rdC rl U x = true) by (unfold rdC; now rewrite Ux, F4, F5).
    unfold s. destruct decl as [t|].
    - rewrite !exec_declassign, !eval_rhs_pure by exact NA.
      destruct (eval a e) as [[v t1]|] eqn:E; cbn [bind]; [|exact I].
      rewrite (eval_C0 _ _ _ _ _ R Se _ E). cbn [bind].
      destruct (coerce t v) as [v'|]; [|exact I]. simpl. exists cur.
      apply (RC_set_scalar ph cur a c x t v' true R S); congruence.
    - rewrite !exec_assign_var, !eval_rhs_pure by exact NA.
      destruct (eval a e) as [[v t1]|] eqn:E; cbn [bind]; [|exact I].
      rewrite (eval_C0 _ _ _ _ _ R Se _ E). cbn [bind].
      rewrite <- (rc_env _ _ _ _ R x Rd).
      destruct (lookup x (env a)) as [[t o]|]; [|exact I].
      destruct (coerce t v) as [v'|]; [|exact I]. simpl. exists cur.
      apply (RC_set_scalar ph cur a c x t v' true R S); congruence.
  Qed.

  Lemma keep_return ph cur a c e : RC ph cur a c -> sexpC rl U false e = true ->
    osimK bool RCx OKF ph (exec 1 (Return e) a) (exec 1 (Return e) c).
  Proof.
    intros R Se. simpl. destruct (eval a e) as [[v t]|] eqn:E; [|exact I].
    rewrite (eval_C0 _ _ _ _ _ R Se _ E). split; auto. exists ph, cur. exact R.
  Qed.


  (** ** reading a field of a tensor struct *)

  Definition idx_expr (T : string) (k j : Z) : expr :=
    ArrayIndex (ArrayIndex (AttributeAccess (Var T) "indices") (IntegerLiteral k)) (IntegerLiteral j).

  Definition idx_facts (st : state) (T : string) (k j : Z) (v : value) : Prop :=
    exists ty id k' j' ts p q,
      lookup T (env st) = Some (ty, Some (VTensor id)) /\ typed ty (VTensor id) = true /\
      chk32 k = Ok k' /\ chk32 j = Ok j' /\ PM.find id (tensors st) = Some ts /\
      nthZ_opt (t_idx ts) k' = Some (p, q) /\ is_ptr p && is_ptr q = true /\
      ((j' = 0 /\ v = p) \/ (j' = 1 /\ v = q)).

  Lemma idx_eval_iff st T k j v :
    (exists t, eval st (idx_expr T k j) = Ok (v, t)) <-> idx_facts st T k j v.
  Proof.
    unfold idx_expr, idx_facts. rewrite !eval_idx_unf, eval_attr_unf. cbn [eval]. split.
    - intros [t H].
      destruct (lookup T (env st)) as [[ty [w|]]|] eqn:L; try discriminate.
      destruct (typed ty w) eqn:Ty; try discriminate. cbn [bind] in H.
      destruct (attribute_value st w "indices") as [r|] eqn:AV; try discriminate. cbn [bind] in H.
      unfold attribute_value in AV. destruct w as [z|f|b|blk off| |id|id|id|id l]; try discriminate.
      simpl in AV. inv AV.
      destruct (chk32 k) as [k'|] eqn:Ck; try discriminate. cbn [bind index_value] in H.
      destruct (chk32 j) as [j'|] eqn:Cj; try discriminate. cbn [bind] in H.
      unfold index_value, bind, tensor_of in H.
      destruct (PM.find id (tensors st)) as [ts|] eqn:F; try discriminate.
      destruct (nthZ_opt (t_idx ts) k') as [[p q]|] eqn:N; try discriminate.
      destruct (negb (is_ptr p && is_ptr q)) eqn:P; try discriminate. apply negb_false_iff in P.
      exists ty, id, k', j', ts, p, q. repeat split; auto.
      destruct (j' =? 0) eqn:J0; [apply Z.eqb_eq in J0; inv H; auto|].
      destruct (j' =? 1) eqn:J1; [apply Z.eqb_eq in J1; inv H; auto|discriminate].
    - intros (ty & id & k' & j' & ts & p & q & L & Ty & Ck & Cj & F & N & P & J).
      rewrite L, Ty. cbn [bind]. unfold attribute_value. simpl String.eqb. cbn [bind].
      rewrite Ck. cbn [bind index_value]. rewrite Cj. cbn [bind].
      unfold index_value, bind, tensor_of. rewrite F, N, P. cbn [negb].
      destruct J as [[-> ->]|[-> ->]]; simpl; eauto.
  Qed.

  Definition vals_facts (st : state) (T : string) (v : value) : Prop :=
    exists ty id ts,
      lookup T (env st) = Some (ty, Some (VTensor id)) /\ typed ty (VTensor id) = true /\
      PM.find id (tensors st) = Some ts /\ is_ptr (t_vals ts) = true /\ v = t_vals ts.

  Lemma vals_eval_iff st T v :
    (exists t, eval st (AttributeAccess (Var T) "vals") = Ok (v, t)) <-> vals_facts st T v.
  Proof.
    unfold vals_facts. rewrite eval_attr_unf. cbn [eval]. split.
    - intros [t H].
      destruct (lookup T (env st)) as [[ty [w|]]|] eqn:L; try discriminate.
      destruct (typed ty w) eqn:Ty; try discriminate. cbn [bind] in H.
      destruct (attribute_value st w "vals") as [r|] eqn:AV; try discriminate. cbn [bind] in H. inv H.
      unfold attribute_value in AV. destruct w as [z|f|b|blk off| |id|id|id|id l]; try discriminate.
      simpl in AV.
      unfold bind, tensor_of in AV. destruct (PM.find id (tensors st)) as [ts|] eqn:F; try discriminate.
      destruct (is_ptr (t_vals ts)) eqn:P; try discriminate. inv AV. exists ty, id, ts. auto.
    - intros (ty & id & ts & L & Ty & F & P & ->). rewrite L, Ty. cbn [bind].
      unfold attribute_value. simpl String.eqb. unfold bind, tensor_of. rewrite F, P. eauto.
  Qed.

  Lemma coerce_isptr t v w v' : is_ptr v = true -> is_ptr w = true -> coerce t v = Ok v' ->
    v' = v /\ coerce t w = Ok w.
  Proof.
    destruct v; try discriminate; destruct w; try discriminate; intros _ _;
      destruct t as [| | | | |t0| |]; simpl; try discriminate; destruct t0; simpl; try discriminate;
      intros H; inv H; auto.
  Qed.


  Hypothesis H_pars : forall T, mem T pars = true -> rdC rl U T = true.

  (** a declaration whose initialiser has the same pointer value in both runs *)
  Lemma keep_decl_same ph cur a c x t e : RC ph cur a c -> is_alloc e = false ->
    mem x pars = false -> mem x (r_v rl) = false ->
    (forall v t1, eval a e = Ok (v, t1) ->
       (exists t', eval c e = Ok (v, t')) /\ is_ptr v = true /\
       (mem x (r_ip rl) = true -> ptr_int (heap a) v) /\
       (mem x (r_fp rl) = true -> ptr_float (heap a) v) /\
       (inP x = true -> inptr (heap a) v)) ->
    osimK bool RCx OKF ph (exec 1 (DeclarationAssignment (Declaration (Var x) t) e) a)
                          (exec 1 (DeclarationAssignment (Declaration (Var x) t) e) c).
  Proof.
    intros R NA Np Nv Hv. rewrite !exec_declassign, !eval_rhs_pure by exact NA.
    destruct (eval a e) as [[v t1]|] eqn:E; cbn [bind]; [|exact I].
    destruct (Hv _ _ eq_refl) as ([t' Ec] & Pv & Ti & Tf & Ip). rewrite Ec. cbn [bind].
    destruct (coerce t v) as [v'|] eqn:C; [|exact I].
    destruct (coerce_isptr _ _ _ _ Pv Pv C) as [-> _]. simpl. exists cur.
    apply (RC_set ph cur a c x t v (Some v) R Np); auto; try congruence.
    intros Q. apply String.eqb_eq in Q. subst. congruence.
  Qed.

  (** a declaration of a variable the kept statements never read as a scalar, whose initialiser
      may have different pointer values in the two runs *)
  Lemma keep_decl_diff ph cur a c x t e : RC ph cur a c -> is_alloc e = false ->
    mem x pars = false -> rdC rl U x = false -> inP x = false ->
    (forall vE t1, eval a e = Ok (vE, t1) ->
       exists vC t', eval c e = Ok (vC, t') /\ is_ptr vE = true /\ is_ptr vC = true /\
       (mem x (r_ip rl) = true -> ptr_int (heap a) vE) /\
       (mem x (r_fp rl) = true -> ptr_float (heap a) vE) /\
       (mem x (r_v rl) = true ->
          exists o', vC = VPtr bV o' /\ (String.eqb x (r_root rl) = true -> o' = 0) /\
                     vrel ph a cur vE o') /\
       (String.eqb x (r_root rl) = true -> ph = true -> vE = VPtr cur 0)) ->
    osimK bool RCx OKF ph (exec 1 (DeclarationAssignment (Declaration (Var x) t) e) a)
                          (exec 1 (DeclarationAssignment (Declaration (Var x) t) e) c).
  Proof.
    intros R NA Np Nr Ni Hv. rewrite !exec_declassign, !eval_rhs_pure by exact NA.
    destruct (eval a e) as [[vE t1]|] eqn:E; cbn [bind]; [|exact I].
    destruct (Hv _ _ eq_refl) as (vC & t' & Ec & Pe & Pc & Ti & Tf & Vx & Rx). rewrite Ec. cbn [bind].
    destruct (coerce t vE) as [v'|] eqn:C; [|exact I].
    destruct (coerce_isptr _ _ _ _ Pe Pc C) as [-> Cc]. rewrite Cc. simpl. exists cur.
    apply (RC_set ph cur a c x t vE (Some vC) R Np); auto; try congruence.
    intros M. destruct (Vx M) as (o' & -> & X1 & X2). exists o'. simpl.
    rewrite lookup_set_var, String.eqb_refl. auto.
  Qed.

  Lemma ins_id ph cur a c T ty id : RC ph cur a c -> mem T (r_ins rl) = true ->
    lookup T (env a) = Some (ty, Some (VTensor id)) ->
    id <> tout /\ lookup T (env c) = Some (ty, Some (VTensor id)).
  Proof.
    intros R M L. apply mem_In in M. destruct (rc_ins _ _ _ _ R T ty _ M L) as (id' & Q & N). inv Q.
    split; auto. rewrite <- (rc_env _ _ _ _ R T); auto. apply H_pars. unfold pars. simpl.
    apply mem_In in M. rewrite M. apply orb_true_r.
  Qed.

  Lemma keep_input_idx ph cur a c x t T k j : RC ph cur a c ->
    mem x pars = false -> ins_p rl x = true -> mem T (r_ins rl) = true ->
    osimK bool RCx OKF ph (exec 1 (DeclarationAssignment (Declaration (Var x) t) (idx_expr T k j)) a)
                          (exec 1 (DeclarationAssignment (Declaration (Var x) t) (idx_expr T k j)) c).
  Proof.
    intros R Np Ix MT. unfold ins_p in Ix. apply andb_prop in Ix. destruct Ix as [I1 I2].
    assert (Nv : mem x (r_v rl) = false).
    { destruct (mem x (r_v rl)) eqn:Q; auto. apply H_v in Q. rewrite (H_disj _ I1) in Q. discriminate. }
    apply (keep_decl_same ph cur a c); auto. intros v t1 E.
    destruct (proj1 (idx_eval_iff a T k j v) (ex_intro _ t1 E))
      as (ty & id & k' & j' & ts & p & q & L & Ty & Ck & Cj & F & N & P & J).
    destruct (ins_id _ _ _ _ _ _ _ R MT L) as [Nid Lc].
    destruct (rc_tn _ _ _ _ R id Nid ts F) as (Qt & _ & Qi2).
    pose proof (nthZ_opt_In _ _ _ N) as In. destruct (Qi2 _ _ In) as [Ip Iq].
    destruct (proj2 (ty_tn _ _ (rc_ty _ _ _ _ R) id ts F) _ _ In) as [Tp Tq].
    apply andb_prop in P. destruct P as [Pp Pq].
    split.
    { apply (proj2 (idx_eval_iff c T k j v)). exists ty, id, k', j', ts, p, q.
      repeat split; auto. now rewrite Pp, Pq. }
    destruct J as [[-> ->]|[-> ->]]; repeat split; auto; intros Q; rewrite (H_disj _ I1) in Q; discriminate.
  Qed.

  Lemma keep_input_vals ph cur a c x t T : RC ph cur a c ->
    mem x pars = false -> inv_p rl x = true -> mem T (r_ins rl) = true ->
    osimK bool RCx OKF ph
      (exec 1 (DeclarationAssignment (Declaration (Var x) t) (AttributeAccess (Var T) "vals")) a)
      (exec 1 (DeclarationAssignment (Declaration (Var x) t) (AttributeAccess (Var T) "vals")) c).
  Proof.
    intros R Np Ix MT. unfold inv_p in Ix. apply andb_prop in Ix. destruct Ix as [I1 I2].
    apply negb_true_iff in I2.
    apply (keep_decl_same ph cur a c); auto. intros v t1 E.
    destruct (proj1 (vals_eval_iff a T v) (ex_intro _ t1 E)) as (ty & id & ts & L & Ty & F & P & ->).
    destruct (ins_id _ _ _ _ _ _ _ R MT L) as [Nid Lc].
    destruct (rc_tn _ _ _ _ R id Nid ts F) as (Qt & Qv & _).
    pose proof (proj1 (ty_tn _ _ (rc_ty _ _ _ _ R) id ts F)) as Tv.
    split.
    { apply (proj2 (vals_eval_iff c T (t_vals ts))). exists ty, id, ts. auto. }
    repeat split; auto. intros Q. destruct (mem x (r_ip rl)) eqn:Q2; try discriminate.
    rewrite (H_disj _ Q2) in I1. discriminate.
  Qed.


  Lemma nthZ_opt_len {A B} (l : list A) (l' : list B) i x : List.length l = List.length l' ->
    nthZ_opt l i = Some x -> exists y, nthZ_opt l' i = Some y.
  Proof.
    unfold nthZ_opt. destruct (i <? 0); try discriminate. intros Le H.
    assert (Z.to_nat i < List.length l)%nat by (apply nth_error_Some; congruence).
    destruct (nth_error l' (Z.to_nat i)) eqn:Q; eauto. apply nth_error_None in Q. lia.
  Qed.

  Lemma out_id ph cur a c ty id : RC ph cur a c ->
    lookup (r_out rl) (env a) = Some (ty, Some (VTensor id)) -> id = tout /\ ty = TPointer TTensor.
  Proof. intros R L. destruct (rc_out _ _ _ _ R) as [Q _]. rewrite Q in L. inv L. auto. Qed.

  Lemma keep_os_unpack ph cur a c x t k j : RC ph cur a c ->
    mem x pars = false -> mem x (r_os rl) = true ->
    osimK bool RCx OKF ph
      (exec 1 (DeclarationAssignment (Declaration (Var x) t) (idx_expr (r_out rl) k j)) a)
      (exec 1 (DeclarationAssignment (Declaration (Var x) t) (idx_expr (r_out rl) k j)) c).
  Proof.
    intros R Np Ox. pose proof (H_os _ Ox) as Ix. pose proof (os_not_fp _ Ox) as Fx.
    assert (Nv : mem x (r_v rl) = false).
    { destruct (mem x (r_v rl)) eqn:Q; auto. apply H_v in Q. congruence. }
    assert (Nr : String.eqb x (r_root rl) = false).
    { destruct (String.eqb x (r_root rl)) eqn:Q; auto. apply String.eqb_eq in Q. subst. congruence. }
    apply (keep_decl_diff ph cur a c); auto.
    - unfold rdC. now rewrite Ox, andb_false_r.
    - unfold inP, ins_p, inv_p. now rewrite Ox, Fx, andb_false_r.
    - intros vE t1 E.
      destruct (proj1 (idx_eval_iff a _ k j vE) (ex_intro _ t1 E))
        as (ty & id & k' & j' & ts & p & q & L & Ty & Ck & Cj & F & N & P & J).
      destruct (out_id _ _ _ _ _ _ R L) as [-> ->].
      destruct (rc_tout _ _ _ _ R) as (tsa & tsc & F1 & F2 & D & Len & Pc & Vc & _).
      rewrite F1 in F. inv F.
      destruct (nthZ_opt_len _ (t_idx tsc) _ _ Len N) as [[p' q'] N'].
      pose proof (Pc _ _ (nthZ_opt_In _ _ _ N')) as P'.
      pose proof (nthZ_opt_In _ _ _ N) as In.
      destruct (proj2 (ty_tn _ _ (rc_ty _ _ _ _ R) tout ts F1) _ _ In) as [Tp Tq].
      exists (if j' =? 0 then p' else q').
      assert (Ec : exists t', eval c (idx_expr (r_out rl) k j) = Ok (if j' =? 0 then p' else q', t')).
      { apply (proj2 (idx_eval_iff c _ k j _)). exists (TPointer TTensor), tout, k', j', tsc, p', q'.
        repeat split; auto; try exact (proj2 (rc_out _ _ _ _ R)).
        destruct J as [[-> _]|[-> _]]; simpl; auto. }
      destruct Ec as [t' Ec]. exists t'. split; [exact Ec|].
      apply andb_prop in P. destruct P as [Pp Pq]. apply andb_prop in P'. destruct P' as [Pp' Pq'].
      destruct J as [[-> ->]|[-> ->]]; simpl; repeat split; auto; congruence.
  Qed.

  Lemma keep_root_unpack cur a c t : RC false cur a c ->
    mem (r_root rl) pars = false ->
    osimK bool RCx OKF false
      (exec 1 (DeclarationAssignment (Declaration (Var (r_root rl)) t) (AttributeAccess (Var (r_out rl)) "vals")) a)
      (exec 1 (DeclarationAssignment (Declaration (Var (r_root rl)) t) (AttributeAccess (Var (r_out rl)) "vals")) c).
  Proof.
    intros R Np. pose proof (v_not_ip _ H_root) as Ix.
    apply (keep_decl_diff false cur a c); auto.
    - unfold rdC. now rewrite H_root, andb_false_r.
    - unfold inP, ins_p, inv_p. now rewrite Ix, H_root, andb_false_r.
    - intros vE t1 E.
      destruct (proj1 (vals_eval_iff a _ vE) (ex_intro _ t1 E)) as (ty & id & ts & L & Ty & F & P & ->).
      destruct (out_id _ _ _ _ _ _ R L) as [-> ->].
      destruct (rc_tout _ _ _ _ R) as (tsa & tsc & F1 & F2 & D & Len & Pc & Vc & Vn).
      rewrite F1 in F. inv F. unfold vrel in Vn. rewrite Vn.
      exists (VPtr bV 0).
      assert (Ec : exists t', eval c (AttributeAccess (Var (r_out rl)) "vals") = Ok (VPtr bV 0, t')).
      { apply (proj2 (vals_eval_iff c _ _)). exists (TPointer TTensor), tout, tsc.
        repeat split; auto; try exact (proj2 (rc_out _ _ _ _ R)). now rewrite Vc. }
      destruct Ec as [t' Ec]. exists t'. split; [exact Ec|]. simpl. repeat split; auto; try congruence.
      intros _. exists 0. simpl. auto.
  Qed.

  Lemma typed_null_ptr t b o : typed t VNull = true -> typed t (VPtr b o) = true.
  Proof. destruct t as [| | | | |t0| |]; simpl; try discriminate. destruct t0; auto. Qed.

  Lemma v_var_eval cur a c z vE t1 : RC true cur a c -> mem z (r_v rl) = true ->
    eval a (Var z) = Ok (vE, t1) ->
    exists oz, eval c (Var z) = Ok (VPtr bV oz, []) /\ vrel true a cur vE oz /\ is_ptr vE = true /\
               ptr_float (heap a) vE.
  Proof.
    intros R M E. destruct (eval_var_inv _ _ _ _ E) as (ty & L & Ty & ->).
    destruct (rc_v _ _ _ _ R z ty (Some vE) M L) as (oz & Lc & _ & Vr). specialize (Vr vE eq_refl).
    exists oz. split; [|split; [exact Vr|split]].
    - cbn [eval]. rewrite Lc. unfold vrel in Vr. destruct Vr as [->|(b & o & -> & _)].
      + now rewrite (typed_null_ptr _ bV oz Ty).
      + now rewrite (typed_ptr_any _ _ _ bV oz Ty).
    - unfold vrel in Vr. destruct Vr as [->|(b & o & -> & _)]; reflexivity.
    - exact (ty_fp _ _ (rc_ty _ _ _ _ R) z ty vE (H_v _ M) L).
  Qed.

  Lemma keep_bucket cur a c x t e : RC true cur a c ->
    mem x pars = false -> mem x (r_v rl) = true -> String.eqb x (r_root rl) = false ->
    match e with
    | Var z => mem z (r_v rl)
    | Add (Var z) i => mem z (r_v rl) && sexpC rl U false i
    | _ => false
    end = true ->
    osimK bool RCx OKF true (exec 1 (DeclarationAssignment (Declaration (Var x) t) e) a)
                            (exec 1 (DeclarationAssignment (Declaration (Var x) t) e) c).
  Proof.
    intros R Np Vx Nr He. pose proof (v_not_ip _ Vx) as Ix.
    assert (NA : is_alloc e = false).
    { destruct e; try discriminate; reflexivity. }
    apply (keep_decl_diff true cur a c); auto.
    - unfold rdC. now rewrite Vx, andb_false_r.
    - unfold inP, ins_p, inv_p. now rewrite Ix, Vx, andb_false_r.
    - intros vE t1 E. destruct e; try discriminate.
      + (* copy *)
        destruct (v_var_eval _ _ _ _ _ _ R He E) as (oz & Ec & Vr & Pe & Tf).
        exists (VPtr bV oz), []. repeat split; auto; try congruence.
        intros _. exists oz. repeat split; auto. congruence.
      + (* pointer arithmetic *)
        destruct e1; try discriminate. apply andb_prop in He. destruct He as [Mz Si].
        cbn [eval] in E. apply bin2_inv in E. destruct E as (w & t2 & iv & t3 & E1 & E2 & OP).
        destruct (v_var_eval _ _ _ _ _ _ R Mz E1) as (oz & Ec & Vr & Pe & Tf).
        pose proof (eval_C0 _ _ _ _ _ R Si _ E2) as Ei.
        unfold vrel in Vr. destruct Vr as [->|(b & o & -> & Vr)]; [destruct iv; discriminate|].
        destruct iv; try discriminate. simpl in OP. inv OP.
        exists (VPtr bV (oz + z)), ([] ++ t3).
        change (eval c (Add (Var name) e2)) with (bin2 (arith Z.add fadd true) (eval c (Var name)) (eval c e2)).
        unfold bin2. rewrite Ec, Ei. cbn [bind arith].
        repeat split; auto; try congruence.
        intros _. exists (oz + z). repeat split; auto; try congruence.
        unfold vrel. right. exists b, (o + z). split; auto. destruct Vr as [[-> ->]|D]; auto.
  Qed.


  (** ** the value store *)

  Lemma store_both cur a c o n v a1 : RC true cur a c ->
    store a cur (o + n) v = Ok a1 ->
    (exists c1, store c bV (o + n) v = Ok c1 /\ RC true cur a1 c1) \/
    store c bV (o + n) v = Err EOutOfBounds.
  Proof.
    intros R S. destruct (rc_cur _ _ _ _ R eq_refl) as [Cr (be & bc & Fe & Le & Fle & Ie & Fc & Sub)].
    destruct (rc_bv _ _ _ _ R) as (bc' & Fc' & Lc & Flc & Ic). rewrite Fc in Fc'. inv Fc'.
    unfold store in *. rewrite Fe, Le, Ie, Fle in S. rewrite Fc, Lc, Ic, Flc. cbn [negb] in *.
    destruct ((o + n <? 0) || (b_len be <=? o + n)); try discriminate.
    destruct ((o + n <? 0) || (b_len bc' <=? o + n)); [right; reflexivity|].
    unfold bind in *. destruct (coerce TFloat v) as [v'|]; try discriminate. inv S.
    left. eexists. split; [reflexivity|].
    set (be' := mkBlock true (b_len be) (PM.add (key (o + n)) v' (b_cells be)) true false).
    set (bc2 := mkBlock true (b_len bc') (PM.add (key (o + n)) v' (b_cells bc')) true false).
    assert (X1 : forall b blk, PM.find b (heap a) = Some blk -> b_input blk = true ->
                   PM.find b (PM.add cur be' (heap a)) = Some blk).
    { intros b blk F In. rewrite PM.gso; auto. intros ->. rewrite Fe in F. inv F. congruence. }
    assert (X3 : forall b, dead (heap a) b -> dead (PM.add cur be' (heap a)) b).
    { intros b (blk & F & D). exists blk. split; auto. rewrite PM.gso; auto. intros ->.
      rewrite Fe in F. inv F. congruence. }
    destruct R as [T E Ip Ih Ro Ri Tn To Bv Vv Cu]. constructor; simpl; auto.
    - apply (TY_heap rl a); auto.
      + apply hext_add. intros old F. rewrite Fe in F. inv F. simpl. auto.
      + intros k L. rewrite PM.gso. apply (ty_fresh _ _ T k L).
        intros ->. rewrite (ty_fresh _ _ T cur L) in Fe. discriminate.
    - intros x t w I L. eapply inptr_mono; eauto.
    - intros b blk F In. destruct (Pos.eq_dec b cur) as [->|N].
      + rewrite PM.gss in F. inv F. discriminate.
      + rewrite PM.gso in F by exact N. pose proof (Ih _ _ F In) as Fb. rewrite PM.gso; auto.
        intros ->. rewrite Fc in Fb. inv Fb. congruence.
    - intros t Nt ts F. destruct (Tn t Nt ts F) as (Q1 & Q3 & Q4). split; auto.
      split; [eapply inptr_mono; eauto|]. intros p q I. destruct (Q4 p q I). split; eapply inptr_mono; eauto.
    - destruct To as (tsa & tsc & Q1 & Q2 & Q3 & Q4 & Q5 & Q6 & Q7). exists tsa, tsc. repeat split; auto.
      apply (vrel_mono true a (with_heap a (PM.add cur be' (heap a)))); [exact X3|exact Q7].
    - exists bc2. rewrite PM.gss. auto.
    - intros x t ov M L. destruct (Vv x t ov M L) as (o' & L1 & L2 & L3). exists o'. split; auto. split; auto.
      intros vE Q. apply (vrel_mono true a (with_heap a (PM.add cur be' (heap a)))); [exact X3|eauto].
    - intros _. constructor; simpl; auto. exists be', bc2. rewrite !PM.gss. repeat split; auto.
      intros k v0 Lk F. simpl in *. destruct (Pos.eq_dec k (key (o + n))) as [->|N].
      + rewrite PM.gss in *. exact F.
      + rewrite PM.gso in * by exact N. auto.
  Qed.

  Lemma keep_store cur a c y i e : RC true cur a c ->
    mem y (r_v rl) = true -> sexpC rl U false i = true -> sexpC rl U true e = true ->
    osimK bool RCx OKF true (exec 1 (Assignment (ArrayIndex (Var y) i) e) a)
                            (exec 1 (Assignment (ArrayIndex (Var y) i) e) c).
  Proof.
    intros R My Si Se. pose proof (sexp_not_alloc _ _ Se) as NA.
    cbn [exec]. rewrite !eval_rhs_pure by exact NA.
    destruct (eval a e) as [[v t1]|] eqn:E; cbn [bind]; [|exact I].
    assert (FK : forall o, osimK bool RCx OKF true o (Fail EOutOfBounds)).
    { intros o. destruct o; simpl; auto; reflexivity. }
    destruct (eval_C1 _ _ _ _ R Se _ _ E) as [[t' Ec]|Ec]; rewrite Ec; cbn [bind]; [|apply FK].
    unfold eval_loc.
    destruct (eval a (Var y)) as [[w t2]|] eqn:Ey; cbn [bind]; [|exact I].
    destruct (eval a i) as [[iv t3]|] eqn:Ei; cbn [bind]; [|exact I].
    destruct (v_var_eval _ _ _ _ _ _ R My Ey) as (oy & Eyc & Vr & Pw & _).
    rewrite Eyc, (eval_C0 _ _ _ _ _ R Si _ Ei). cbn [bind].
    unfold vrel in Vr. destruct Vr as [->|(b & o & -> & Vr)]; [exact I|].
    destruct iv; try exact I. unfold assign, bind.
    destruct (store a b (o + z) v) as [a1|] eqn:S; [|exact I].
    destruct Vr as [[-> ->]|(bk & F & D)].
    2:{ unfold store in S. rewrite F, D in S. discriminate. }
    destruct (store_both _ _ _ _ _ _ _ R S) as [(c1 & Sc & R1)| Sc]; rewrite Sc; [|apply FK].
    simpl. exists cur. exact R1.
  Qed.


  (** ** dropped atomic statements: only the evaluate side moves *)

  Lemma drop_scalar ph cur a c x e (decl : option ty) :
    RC ph cur a c -> mem x U = true -> scalar_var rl x = true -> is_alloc e = false ->
    let s := match decl with Some t => DeclarationAssignment (Declaration (Var x) t) e
                           | None => Assignment (Var x) e end in
    odrop bool RCx ph (exec 1 s a) c.
  Proof.
    intros R Ux S NA s. unfold s. destruct decl as [t|].
    - rewrite exec_declassign, eval_rhs_pure by exact NA.
      destruct (eval a e) as [[v t1]|]; cbn [bind]; [|exact I].
      destruct (coerce t v) as [v'|]; [|exact I]. simpl. exists cur.
      apply (RC_set_scalar ph cur a c x t v' false R S); congruence.
    - rewrite exec_assign_var, eval_rhs_pure by exact NA.
      destruct (eval a e) as [[v t1]|]; cbn [bind]; [|exact I].
      destruct (lookup x (env a)) as [[t o]|]; [|exact I].
      destruct (coerce t v) as [v'|]; [|exact I]. simpl. exists cur.
      apply (RC_set_scalar ph cur a c x t v' false R S); congruence.
  Qed.

  Lemma cur_float ph cur a c b : RC ph cur a c -> ph = true -> isint (heap a) b -> b <> cur.
  Proof.
    intros R P (blk & F & Fl) ->. destruct (rc_cur _ _ _ _ R P) as [_ (be & bc & Fe & _ & Fle & _)].
    rewrite Fe in F. inv F. congruence.
  Qed.

  Lemma store_A ph cur a c b off v a1 : RC ph cur a c -> isint (heap a) b ->
    store a b off v = Ok a1 -> RC ph cur a1 c /\ env a1 = env a.
  Proof.
    intros R Ib S. pose proof Ib as (blk & F & Fl). unfold store in S. rewrite F in S.
    destruct (negb (b_live blk)) eqn:Lv; try discriminate. destruct (b_input blk) eqn:Inp; try discriminate.
    destruct (_ || _); try discriminate. unfold bind in S. destruct (coerce _ v) as [v'|]; try discriminate.
    inv S. split; [|reflexivity]. apply negb_false_iff in Lv.
    eapply RC_heapA; eauto; simpl.
    - apply (TY_heap rl a); [exact (rc_ty _ _ _ _ R)| |].
      + apply hext_add. intros old F0. rewrite F in F0. inv F0. reflexivity.
      + intros k L. rewrite PM.gso. apply (ty_fresh _ _ (rc_ty _ _ _ _ R) k L).
        intros ->. rewrite (ty_fresh _ _ (rc_ty _ _ _ _ R) b L) in F. discriminate.
    - intros k bk Fk In. rewrite PM.gso; auto. intros ->. rewrite F in Fk. inv Fk. congruence.
    - intros k bk Fk In. destruct (Pos.eq_dec k b) as [->|N].
      + rewrite PM.gss in Fk. inv Fk. discriminate.
      + now rewrite PM.gso in Fk.
    - intros k (bk & Fk & D). exists bk. split; auto. rewrite PM.gso; auto. intros ->.
      rewrite F in Fk. inv Fk. congruence.
    - intros P. rewrite PM.gso; auto. intros Q. symmetry in Q. revert Q. eapply cur_float; eauto.
  Qed.

  Lemma alloc_A ph cur a c t n a1 v tr : RC ph cur a c -> alloc a t n = Ok (a1, v, tr) ->
    RC ph cur a1 c /\ env a1 = env a /\ v = VPtr (next_blk a) 0 /\
    exists blk, PM.find (next_blk a) (heap a1) = Some blk /\ b_live blk = true /\ b_input blk = false /\
                b_cells blk = PM.empty value /\
                (t = TInteger -> b_float blk = false) /\ (t = TFloat -> b_float blk = true).
  Proof.
    intros R A. unfold alloc, bind in A. destruct (elt_is_float t) as [fl|] eqn:EF; try discriminate.
    destruct (n <? 0); try discriminate. inv A. pose proof (rc_ty _ _ _ _ R) as T.
    assert (Fr : PM.find (next_blk a) (heap a) = None) by (apply (ty_fresh _ _ T); lia).
    split; [|split; [reflexivity|split; [reflexivity|]]].
    - eapply RC_heapA; eauto; simpl.
      + apply (TY_heap rl a); auto.
        * apply hext_add. intros old F. rewrite Fr in F. discriminate.
        * intros k L. rewrite PM.gso by lia. apply (ty_fresh _ _ T). lia.
      + intros k bk Fk In. rewrite PM.gso; auto. intros ->. congruence.
      + intros k bk Fk In. destruct (Pos.eq_dec k (next_blk a)) as [->|N].
        * rewrite PM.gss in Fk. inv Fk. discriminate.
        * now rewrite PM.gso in Fk.
      + intros k (bk & Fk & D). exists bk. split; auto. rewrite PM.gso; auto. intros ->. congruence.
      + intros P. rewrite PM.gso; auto. intros Q.
        destruct (rc_cur _ _ _ _ R P) as [_ (be & bc & Fe & _)]. rewrite Q in Fe. congruence.
    - simpl. eexists. rewrite PM.gss. split; [reflexivity|]. simpl. repeat split; auto.
      + intros ->. simpl in EF. now inv EF.
      + intros ->. simpl in EF. now inv EF.
  Qed.

  Lemma realloc_A ph cur a c w t n a1 v tr : RC ph cur a c -> ptr_int (heap a) w ->
    realloc a w t n = Ok (a1, v, tr) ->
    RC ph cur a1 c /\ env a1 = env a /\ v = VPtr (next_blk a) 0 /\
    (t = TInteger -> ptr_int (heap a1) v) /\ (t = TFloat -> ptr_float (heap a1) v).
  Proof.
    intros R Pw A. pose proof (rc_ty _ _ _ _ R) as T.
    assert (Fr : PM.find (next_blk a) (heap a) = None) by (apply (ty_fresh _ _ T); lia).
    unfold realloc in A. unfold bind at 1 in A. destruct (elt_is_float t) as [fl|] eqn:EF; try discriminate.
    destruct (n <? 0) eqn:Nn; try discriminate.
    destruct w; try discriminate.
    2:{ assert (A' : alloc a t n = Ok (a1, v, tr)) by exact A.
        destruct (alloc_A _ _ _ _ _ _ _ _ _ R A') as (R1 & E1 & -> & blk & F & _ & _ & _ & Fi & Ff).
        split; auto. split; auto. split; auto. split; intros Q; simpl; eexists; split; eauto. }
    destruct off; try discriminate. simpl in Pw. destruct Pw as (ob & Fo & Flo).
    rewrite Fo in A. destruct (negb (b_live ob)) eqn:Lv; try discriminate.
    destruct (b_input ob) eqn:Inp; try discriminate.
    destruct (negb (Bool.eqb fl (b_float ob))) eqn:Q; try discriminate. inv A.
    apply negb_false_iff in Lv. apply negb_false_iff in Q. apply Bool.eqb_prop in Q. subst fl.
    assert (Nb : blk <> next_blk a) by (intros ->; congruence).
    split; [|split; [reflexivity|split; [reflexivity|]]].
    - eapply RC_heapA; eauto; simpl.
      + apply (TY_heap rl a); auto.
        * apply (hext_trans _ (PM.add blk (mkBlock (b_float ob) (b_len ob) (b_cells ob) false false) (heap a))).
          -- apply hext_add. intros old F. rewrite Fo in F. inv F. reflexivity.
          -- apply hext_add. intros old F. rewrite PM.gso in F by auto. congruence.
        * intros k L. rewrite PM.gso by lia. rewrite PM.gso. apply (ty_fresh _ _ T). lia.
          intros ->. rewrite (ty_fresh _ _ T blk) in Fo; [discriminate|lia].
      + intros k bk Fk In. rewrite PM.gso, PM.gso; auto; intros ->; congruence.
      + intros k bk Fk In. destruct (Pos.eq_dec k (next_blk a)) as [->|N1].
        * rewrite PM.gss in Fk. inv Fk. discriminate.
        * rewrite PM.gso in Fk by exact N1. destruct (Pos.eq_dec k blk) as [->|N2].
          -- rewrite PM.gss in Fk. inv Fk. discriminate.
          -- now rewrite PM.gso in Fk.
      + intros k (bk & Fk & D). destruct (Pos.eq_dec k blk) as [->|N2].
        * eexists. rewrite PM.gso, PM.gss by auto. split; reflexivity.
        * exists bk. split; auto. rewrite PM.gso, PM.gso; auto. intros ->. congruence.
      + intros P. assert (blk <> cur).
        { eapply cur_float; eauto. exists ob. auto. }
        rewrite PM.gso, PM.gso; auto. intros Q.
        destruct (rc_cur _ _ _ _ R P) as [_ (be & bc & Fe & _)]. rewrite Q in Fe. congruence.
    - simpl. split; intros ->; simpl in EF; inv EF; eexists; rewrite PM.gss; split; try reflexivity; simpl; congruence.
  Qed.


  Lemma bind_os ph cur a1 c x v t v' : RC ph cur a1 c -> mem x (r_os rl) = true ->
    mem x pars = false -> ptr_int (heap a1) v -> is_ptr v = true -> coerce t v = Ok v' ->
    RC ph cur (with_env a1 (set_var x (t, Some v') (env a1))) c.
  Proof.
    intros R Ox Np Pv Ip C. destruct (coerce_isptr _ _ _ _ Ip Ip C) as [-> _].
    pose proof (H_os _ Ox) as Ix. pose proof (os_not_fp _ Ox) as Fx.
    assert (Nv : mem x (r_v rl) = false).
    { destruct (mem x (r_v rl)) eqn:Q; auto. apply H_v in Q. congruence. }
    apply (RC_set ph cur a1 c x t v None R Np); auto; try congruence.
    - unfold rdC. rewrite Ox, andb_false_r. discriminate.
    - unfold inP, ins_p, inv_p. rewrite Ox, Fx, andb_false_r. discriminate.
    - intros Q. apply String.eqb_eq in Q. subst. congruence.
  Qed.

  Lemma bind_root_up cur a1 c nb blk t ov v' : RC false cur a1 c ->
    PM.find nb (heap a1) = Some blk -> b_live blk = true -> b_input blk = false ->
    b_float blk = true -> b_cells blk = PM.empty value ->
    lookup (r_root rl) (env a1) = Some (t, ov) -> mem (r_root rl) pars = false ->
    coerce t (VPtr nb 0) = Ok v' ->
    RC true nb (with_env a1 (set_var (r_root rl) (t, Some v') (env a1))) c.
  Proof.
    intros R F Lv Inp Fl Ce L Np C. destruct (coerce_isptr _ (VPtr _ 0) (VPtr 1%positive 0) _ eq_refl eq_refl C) as [-> _].
    assert (Npo : String.eqb (r_out rl) (r_root rl) = false).
    { unfold pars in Np. simpl in Np. apply orb_false_iff in Np. destruct Np as [Np _].
      now rewrite String.eqb_sym. }
    assert (Npi : forall T, In T (r_ins rl) -> String.eqb T (r_root rl) = false).
    { intros T I. destruct (String.eqb T (r_root rl)) eqn:Q; auto. apply String.eqb_eq in Q. subst.
      unfold pars in Np. simpl in Np. apply orb_false_iff in Np. destruct Np as [_ Np].
      apply mem_false_In in Np. contradiction. }
    pose proof (v_not_ip _ H_root) as Ix.
    destruct (rc_v _ _ _ _ R _ _ _ H_root L) as (o0 & Lc0 & Z0 & _). rewrite (Z0 (String.eqb_refl _)) in Lc0.
    destruct (rc_bv _ _ _ _ R) as (bc & Fc & Lc & Flc & Ic).
    destruct R as [T E Ip Ih Ro Ri Tn To Bv Vv Cu]. constructor; simpl; auto.
    - apply TY_set_var; auto.
      + congruence.
      + intros _. exists blk. auto.
    - intros y Rd. rewrite lookup_set_var. destruct (String.eqb y (r_root rl)) eqn:Q; auto.
      apply String.eqb_eq in Q. subst. unfold rdC in Rd. rewrite H_root, andb_false_r in Rd. discriminate.
    - intros y t0 v0 I L0. rewrite lookup_set_var in L0. destruct (String.eqb y (r_root rl)) eqn:Q; eauto.
      apply String.eqb_eq in Q. subst. unfold inP, ins_p, inv_p in I. rewrite Ix, H_root, andb_false_r in I.
      discriminate.
    - rewrite lookup_set_var, Npo. exact Ro.
    - intros T0 t0 ov0 I L0. rewrite lookup_set_var, (Npi _ I) in L0. eauto.
    - destruct To as (tsa & tsc & Q1 & Q2 & Q3 & Q4 & Q5 & Q6 & Q7). exists tsa, tsc. repeat split; auto.
    - intros y t0 ov0 M L0. rewrite lookup_set_var in L0. destruct (String.eqb y (r_root rl)) eqn:Q.
      + apply String.eqb_eq in Q. subst. inv L0. exists 0. repeat split; auto.
        intros vE QE. inv QE. unfold vrel. right. exists nb, 0. auto.
      + destruct (Vv y t0 ov0 M L0) as (o' & L1 & L2 & L3). exists o'. split; auto. split; [congruence|].
        intros vE QE. specialize (L3 vE QE). unfold vrel in *. left. exact L3.
    - intros _. constructor; simpl.
      + rewrite lookup_set_var, String.eqb_refl. eauto.
      + exists blk, bc. repeat split; auto. intros k v0 _ Fk. rewrite Ce, PM.gempty in Fk. discriminate.
  Qed.

  Lemma realloc_root cur a c t n a1 v tr ty ov v' : RC true cur a c ->
    realloc a (VPtr cur 0) t n = Ok (a1, v, tr) ->
    lookup (r_root rl) (env a) = Some (ty, ov) -> mem (r_root rl) pars = false ->
    coerce ty v = Ok v' ->
    RC true (next_blk a) (with_env a1 (set_var (r_root rl) (ty, Some v') (env a1))) c.
  Proof.
    intros R A L Np C. pose proof (rc_ty _ _ _ _ R) as T.
    destruct (rc_cur _ _ _ _ R eq_refl) as [_ (be & bc & Fe & Le & Fle & Ie & Fc & Sub)].
    assert (Fr : PM.find (next_blk a) (heap a) = None) by (apply (ty_fresh _ _ T); lia).
    assert (Nb : cur <> next_blk a) by (intros Q; rewrite Q in Fe; congruence).
    unfold realloc in A. unfold bind at 1 in A. destruct (elt_is_float t) as [fl|] eqn:EF; try discriminate.
    destruct (n <? 0) eqn:Nn; try discriminate. rewrite Fe, Le, Ie, Fle in A. cbn [negb] in A.
    destruct (negb (Bool.eqb fl true)) eqn:Q; try discriminate. inv A.
    apply negb_false_iff in Q. apply Bool.eqb_prop in Q. subst fl.
    destruct (coerce_isptr _ (VPtr _ 0) (VPtr 1%positive 0) _ eq_refl eq_refl C) as [-> _].
    set (nb := next_blk a) in *.
    set (dblk := mkBlock true (b_len be) (b_cells be) false false).
    set (nblk := mkBlock true n (keep_prefix n (b_cells be)) true false).
    set (h' := PM.add nb nblk (PM.add cur dblk (heap a))).
    assert (Npo : String.eqb (r_out rl) (r_root rl) = false).
    { unfold pars in Np. simpl in Np. apply orb_false_iff in Np. destruct Np as [Np _].
      now rewrite String.eqb_sym. }
    assert (Npi : forall T0, In T0 (r_ins rl) -> String.eqb T0 (r_root rl) = false).
    { intros T0 I. destruct (String.eqb T0 (r_root rl)) eqn:Q; auto. apply String.eqb_eq in Q. subst.
      unfold pars in Np. simpl in Np. apply orb_false_iff in Np. destruct Np as [_ Np].
      apply mem_false_In in Np. contradiction. }
    pose proof (v_not_ip _ H_root) as Ix.
    assert (X1 : forall b blk, PM.find b (heap a) = Some blk -> b_input blk = true -> PM.find b h' = Some blk).
    { intros b blk F In. unfold h'. rewrite PM.gso, PM.gso; auto; intros ->; congruence. }
    assert (X3 : forall b, dead (heap a) b \/ b = cur -> dead h' b).
    { intros b [(blk & F & D)| ->].
      - destruct (Pos.eq_dec b cur) as [->|N2].
        + exists dblk. unfold h'. rewrite PM.gso, PM.gss by auto. auto.
        + exists blk. split; auto. unfold h'. rewrite PM.gso, PM.gso; auto. intros ->. congruence.
      - exists dblk. unfold h'. rewrite PM.gso, PM.gss by auto. auto. }
    destruct (rc_v _ _ _ _ R _ _ _ H_root L) as (o0 & Lc0 & Z0 & _). rewrite (Z0 (String.eqb_refl _)) in Lc0.
    destruct R as [T' E Ip Ih Ro Ri Tn To Bv Vv Cu]. constructor; simpl; auto.
    - apply (TY_set_var rl (mkState (env a) h' (Pos.succ nb) (tensors a) (iters a))); simpl.
      + apply (TY_heap rl a); auto.
        * apply (hext_trans _ (PM.add cur dblk (heap a))).
          -- apply hext_add. intros old F. rewrite Fe in F. inv F. auto.
          -- apply hext_add. intros old F. rewrite PM.gso in F by auto. fold nb in F. congruence.
        * intros k Lk. unfold h'. rewrite PM.gso by lia. rewrite PM.gso. apply (ty_fresh _ _ T). unfold nb in *. lia.
          intros ->. rewrite (ty_fresh _ _ T cur) in Fe; [discriminate|unfold nb in *; lia].
      + congruence.
      + intros _. exists nblk. unfold h'. rewrite PM.gss. auto.
    - intros y Rd. rewrite lookup_set_var. destruct (String.eqb y (r_root rl)) eqn:Q; auto.
      apply String.eqb_eq in Q. subst. unfold rdC in Rd. rewrite H_root, andb_false_r in Rd. discriminate.
    - intros y t0 v0 I L0. rewrite lookup_set_var in L0. destruct (String.eqb y (r_root rl)) eqn:Q.
      + apply String.eqb_eq in Q. subst. unfold inP, ins_p, inv_p in I. rewrite Ix, H_root, andb_false_r in I.
        discriminate.
      + eapply inptr_mono; eauto.
    - intros b blk F In. apply Ih; auto. unfold h' in F.
      destruct (Pos.eq_dec b nb) as [->|N1]; [rewrite PM.gss in F; inv F; discriminate|].
      rewrite PM.gso in F by exact N1.
      destruct (Pos.eq_dec b cur) as [->|N2]; [rewrite PM.gss in F; inv F; discriminate|].
      now rewrite PM.gso in F.
    - rewrite lookup_set_var, Npo. exact Ro.
    - intros T0 t0 ov0 I L0. rewrite lookup_set_var, (Npi _ I) in L0. eauto.
    - intros t0 Nt ts F. destruct (Tn t0 Nt ts F) as (Q1 & Q3 & Q4). split; auto.
      split; [eapply inptr_mono; eauto|]. intros p q I. destruct (Q4 p q I). split; eapply inptr_mono; eauto.
    - destruct To as (tsa & tsc & Q1 & Q2 & Q3 & Q4 & Q5 & Q6 & Q7). exists tsa, tsc. repeat split; auto.
      unfold vrel in *. destruct Q7 as [->|(b & o & -> & Q7)]; auto.
      right. exists b, o. split; auto. right. apply X3. destruct Q7 as [[-> _]|D]; auto.
    - intros y t0 ov0 M L0. rewrite lookup_set_var in L0. destruct (String.eqb y (r_root rl)) eqn:Q.
      + apply String.eqb_eq in Q. subst. inv L0. exists 0. repeat split; auto.
        intros vE QE. inv QE. unfold vrel. right. exists nb, 0. auto.
      + destruct (Vv y t0 ov0 M L0) as (o' & L1 & L2 & L3). exists o'. split; auto. split; [congruence|].
        intros vE QE. specialize (L3 vE QE). unfold vrel in *. destruct L3 as [->|(b & o & -> & L3)]; auto.
        right. exists b, o. split; auto. right. apply X3. destruct L3 as [[-> _]|D]; auto.
    - intros _. constructor; simpl.
      + rewrite lookup_set_var, String.eqb_refl. eauto.
      + exists nblk, bc. unfold h'. rewrite PM.gss. repeat split; auto.
        intros k v0 Lk Fk. simpl in Fk. rewrite keep_prefix_find in Fk.
        destruct (Zpos k <=? n); try discriminate. auto.
  Qed.


  Lemma set_nth_length {A} (l : list A) : forall n x l', set_nth l n x = Some l' ->
    List.length l' = List.length l.
  Proof.
    induction l as [|a0 r IH]; intros n x l' H; destruct n; simpl in H; try discriminate.
    - inv H. reflexivity.
    - destruct (set_nth r n x) eqn:S; try discriminate. inv H. simpl. f_equal. eauto.
  Qed.

  Lemma RA_self a : TY rl a -> RA rl [] a a.
  Proof. intros T. constructor; auto. intros k. apply hrel_refl. Qed.

  Lemma assign_field_A ph cur a c l w a1 tr : RC ph cur a c ->
    (exists k j, l = LTIdx tout k j /\ ptr_int (heap a) w) \/
    (l = LTVals tout /\ ptr_float (heap a) w /\ ph = true /\ w = VPtr cur 0) ->
    assign a l w = Ok (a1, tr) -> RC ph cur a1 c.
  Proof.
    intros R Hl A. pose proof (rc_ty _ _ _ _ R) as T.
    assert (T1 : TY rl a1).
    { assert (FL : field_loc l = true) by (destruct Hl as [(k & j & -> & _)|(-> & _)]; reflexivity).
      assert (Pv : match l with LTVals _ => ptr_float (heap a) w | _ => ptr_int (heap a) w end).
      { destruct Hl as [(k & j & -> & P)|(-> & P & _)]; exact P. }
      pose proof (assign_field_rel rl [] a a l w (RA_self a T) FL Pv) as X. rewrite A in X.
      destruct X as (b1 & X1 & X2). inv X1. exact (ra_ty _ _ _ _ X2). }
    destruct (rc_tout _ _ _ _ R) as (tsa & tsc & F1 & F2 & D & Len & Pc & Vc & Vn).
    assert (K : exists tsa', a1 = with_tensors a (PM.add tout tsa' (tensors a)) /\
                t_dims tsa' = t_dims tsa /\ List.length (t_idx tsa') = List.length (t_idx tsa) /\
                vrel ph a cur (t_vals tsa') 0).
    { destruct Hl as [(k & j & -> & P)|(-> & P & Ph & Hw)]; unfold assign, tensor_of, bind in A; rewrite F1 in A.
      - destruct (negb (t_output tsa)); try discriminate. destruct (negb (is_ptr w)); try discriminate.
        destruct (k <? 0); try discriminate.
        destruct (nth_error (t_idx tsa) (Z.to_nat k)) as [[p q]|]; try discriminate.
        destruct (if j =? 0 then Some (w, q) else if j =? 1 then Some (p, w) else None) as [pc'|];
          try discriminate.
        destruct (set_nth (t_idx tsa) (Z.to_nat k) pc') as [idx'|] eqn:SN; try discriminate. inv A.
        eexists. split; [reflexivity|]. simpl. repeat split; auto. eapply set_nth_length; eauto.
      - destruct (negb (t_output tsa)); try discriminate. destruct (negb (is_ptr w)); try discriminate.
        inv A. eexists. split; [reflexivity|]. simpl. repeat split; auto. unfold vrel. right. exists cur, 0. auto. }
    destruct K as (tsa' & -> & K1 & K2 & K3).
    destruct R as [T0 E Ip Ih Ro Ri Tn To Bv Vv Cu]. constructor; simpl; auto.
    - intros t Nt ts. rewrite PM.gso by exact Nt. auto.
    - exists tsa', tsc. rewrite PM.gss. repeat split; auto; try congruence.
    - intros P. destruct (Cu P) as [Cr Cb]. constructor; auto.
  Qed.


  Lemma eval_rhs_alloc st t n : eval_rhs st (ArrayAllocate t n) =
    (do '(v, t1) <- eval st n;
     match v with
     | VInt z => do '(st', p, t2) <- alloc st t z; Ok (st', p, t1 ++ t2)
     | _ => Err EIllTyped
     end).
  Proof. reflexivity. Qed.

  Lemma eval_rhs_realloc st x t n : eval_rhs st (ArrayReallocate (Var x) t n) =
    (do '(o, t1) <- eval st (Var x);
     do '(v, t2) <- eval st n;
     match v with
     | VInt z => do '(st', p, t3) <- realloc st o t z; Ok (st', p, t1 ++ t2 ++ t3)
     | _ => Err EIllTyped
     end).
  Proof. reflexivity. Qed.

  Lemma drop_alloc_os ph cur a c x n : RC ph cur a c -> mem x (r_os rl) = true -> mem x pars = false ->
    odrop bool RCx ph (exec 1 (Assignment (Var x) (ArrayAllocate TInteger n)) a) c.
  Proof.
    intros R Ox Np. rewrite exec_assign_var, eval_rhs_alloc.
    destruct (eval a n) as [[v t1]|]; cbn [bind]; [|exact I]. destruct v; try exact I.
    destruct (alloc a TInteger z) as [[[a1 p] t2]|] eqn:A; cbn [bind]; [|exact I].
    destruct (alloc_A _ _ _ _ _ _ _ _ _ R A) as (R1 & E1 & -> & blk & F & _ & _ & _ & Fi & _).
    destruct (lookup x (env a1)) as [[t o]|]; [|exact I].
    destruct (coerce t (VPtr (next_blk a) 0)) as [v'|] eqn:C; [|exact I]. simpl. exists cur.
    apply (bind_os ph cur a1 c x (VPtr (next_blk a) 0) t v' R1 Ox Np); [exists blk; auto|reflexivity|exact C].
  Qed.

  Lemma drop_alloc_root cur a c n : RC false cur a c -> mem (r_root rl) pars = false ->
    odrop bool RCx true (exec 1 (Assignment (Var (r_root rl)) (ArrayAllocate TFloat n)) a) c.
  Proof.
    intros R Np. rewrite exec_assign_var, eval_rhs_alloc.
    destruct (eval a n) as [[v t1]|]; cbn [bind]; [|exact I]. destruct v; try exact I.
    destruct (alloc a TFloat z) as [[[a1 p] t2]|] eqn:A; cbn [bind]; [|exact I].
    destruct (alloc_A _ _ _ _ _ _ _ _ _ R A) as (R1 & E1 & -> & blk & F & Lv & Inp & Ce & _ & Ff).
    destruct (lookup (r_root rl) (env a1)) as [[t o]|] eqn:L; [|exact I].
    destruct (coerce t (VPtr (next_blk a) 0)) as [v'|] eqn:C; [|exact I]. simpl. exists (next_blk a).
    eapply bind_root_up; eauto.
  Qed.

  Lemma drop_realloc_os ph cur a c x n : RC ph cur a c -> mem x (r_os rl) = true -> mem x pars = false ->
    odrop bool RCx ph (exec 1 (Assignment (Var x) (ArrayReallocate (Var x) TInteger n)) a) c.
  Proof.
    intros R Ox Np. rewrite exec_assign_var, eval_rhs_realloc.
    destruct (eval a (Var x)) as [[w t0]|] eqn:Ex; cbn [bind]; [|exact I].
    destruct (eval a n) as [[v t1]|]; cbn [bind]; [|exact I]. destruct v; try exact I.
    destruct (realloc a w TInteger z) as [[[a1 p] t2]|] eqn:A; cbn [bind]; [|exact I].
    destruct (eval_var_inv _ _ _ _ Ex) as (ty & L & Ty & _).
    pose proof (ty_ip _ _ (rc_ty _ _ _ _ R) x ty w (H_os _ Ox) L) as Pw.
    destruct (realloc_A _ _ _ _ _ _ _ _ _ _ R Pw A) as (R1 & E1 & -> & Pi & _).
    destruct (lookup x (env a1)) as [[t o]|]; [|exact I].
    destruct (coerce t (VPtr (next_blk a) 0)) as [v'|] eqn:C; [|exact I]. simpl. exists cur.
    apply (bind_os ph cur a1 c x (VPtr (next_blk a) 0) t v' R1 Ox Np); [exact (Pi eq_refl)|reflexivity|exact C].
  Qed.

  Lemma drop_realloc_root cur a c n : RC true cur a c -> mem (r_root rl) pars = false ->
    odrop bool RCx true
      (exec 1 (Assignment (Var (r_root rl)) (ArrayReallocate (Var (r_root rl)) TFloat n)) a) c.
  Proof.
    intros R Np. rewrite exec_assign_var, eval_rhs_realloc.
    destruct (eval a (Var (r_root rl))) as [[w t0]|] eqn:Ex; cbn [bind]; [|exact I].
    destruct (eval a n) as [[v t1]|]; cbn [bind]; [|exact I]. destruct v; try exact I.
    destruct (realloc a w TFloat z) as [[[a1 p] t2]|] eqn:A; cbn [bind]; [|exact I].
    destruct (eval_var_inv _ _ _ _ Ex) as (ty & L & Ty & _).
    destruct (rc_cur _ _ _ _ R eq_refl) as [[t' Cr] _]. rewrite Cr in L. inv L.
    assert (E1 : env a1 = env a).
    { unfold realloc, bind in A. simpl in A. destruct (z <? 0); try discriminate.
      destruct (PM.find cur (heap a)); try discriminate. destruct (negb (b_live b)); try discriminate.
      destruct (b_input b); try discriminate. destruct (negb _); try discriminate. now inv A. }
    rewrite E1, Cr. destruct (coerce ty p) as [v'|] eqn:C; [|exact I]. simpl.
    exists (next_blk a). rewrite <- E1. eapply realloc_root; eauto.
  Qed.

  Lemma drop_os_store ph cur a c p i e : RC ph cur a c -> mem p (r_os rl) = true ->
    is_alloc e = false ->
    odrop bool RCx ph (exec 1 (Assignment (ArrayIndex (Var p) i) e) a) c.
  Proof.
    intros R Op NA. cbn [exec]. rewrite eval_rhs_pure by exact NA.
    destruct (eval a e) as [[v t1]|]; cbn [bind]; [|exact I]. unfold eval_loc.
    destruct (eval a (Var p)) as [[w t2]|] eqn:Ep; cbn [bind]; [|exact I].
    destruct (eval a i) as [[iv t3]|]; cbn [bind]; [|exact I].
    destruct (eval_var_inv _ _ _ _ Ep) as (ty & L & Ty & _).
    pose proof (ty_ip _ _ (rc_ty _ _ _ _ R) p ty w (H_os _ Op) L) as Pw.
    apply typed_shape in Ty. destruct w; try exact I; try contradiction. destruct iv; try exact I.
    unfold assign, bind. destruct (store a blk (off + z) v) as [a1|] eqn:S; [|exact I]. simpl.
    exists cur. exact (proj1 (store_A _ _ _ _ _ _ _ _ R Pw S)).
  Qed.

  Lemma out_var ph cur a c : RC ph cur a c -> eval a (Var (r_out rl)) = Ok (VTensor tout, []).
  Proof. intros R. cbn [eval]. now rewrite (proj1 (rc_out _ _ _ _ R)). Qed.

  Lemma drop_field_idx ph cur a c k j p : RC ph cur a c -> mem p (r_os rl) = true ->
    odrop bool RCx ph
      (exec 1 (Assignment (idx_expr (r_out rl) k j) (Var p)) a) c.
  Proof.
    intros R Op. unfold idx_expr. cbn [exec]. rewrite eval_rhs_pure by reflexivity.
    destruct (eval a (Var p)) as [[w t1]|] eqn:Ep; cbn [bind]; [|exact I].
    destruct (eval_var_inv _ _ _ _ Ep) as (ty & L & Ty & _).
    pose proof (ty_ip _ _ (rc_ty _ _ _ _ R) p ty w (H_os _ Op) L) as Pw.
    unfold eval_loc. rewrite eval_idx_unf, eval_attr_unf, (out_var _ _ _ _ R). cbn [bind].
    unfold attribute_value. simpl String.eqb. cbn [bind].
    destruct (eval a (IntegerLiteral k)) as [[kv t2]|]; cbn [bind]; [|exact I].
    unfold index_value at 1. destruct kv; try exact I. cbn [bind].
    destruct (eval a (IntegerLiteral j)) as [[jv t3]|]; cbn [bind]; [|exact I].
    destruct jv; try exact I.
    destruct (assign a (LTIdx tout z z0) w) as [[a1 t4]|] eqn:A; [|exact I]. simpl. exists cur.
    apply (assign_field_A ph cur a c (LTIdx tout z z0) w a1 t4 R); [left; eauto|exact A].
  Qed.

  Lemma drop_field_vals cur a c : RC true cur a c ->
    odrop bool RCx true
      (exec 1 (Assignment (AttributeAccess (Var (r_out rl)) "vals") (Var (r_root rl))) a) c.
  Proof.
    intros R. cbn [exec]. rewrite eval_rhs_pure by reflexivity.
    destruct (eval a (Var (r_root rl))) as [[w t1]|] eqn:Ep; cbn [bind]; [|exact I].
    destruct (eval_var_inv _ _ _ _ Ep) as (ty & L & Ty & _).
    pose proof (ty_fp _ _ (rc_ty _ _ _ _ R) _ ty w (H_v _ H_root) L) as Pw.
    unfold eval_loc. rewrite (out_var _ _ _ _ R). cbn [bind]. simpl String.eqb.
    destruct (assign a (LTVals tout) w) as [[a1 t4]|] eqn:A; cbv beta iota; rewrite ?A; [|exact I]. simpl. exists cur.
    destruct (rc_cur _ _ _ _ R eq_refl) as [[t' Cr] _]. rewrite Cr in L. inv L.
    apply (assign_field_A true cur a c (LTVals tout) (VPtr cur 0) a1 t4 R); [right; auto|exact A].
  Qed.


  (** ** the dispatchers *)

  Lemma idx_field_inv ts e : idx_field ts e = true ->
    exists T k j, e = idx_expr T k j /\ mem T ts = true.
  Proof.
    destruct e; try discriminate. destruct e1; try discriminate. destruct e1_1; try discriminate.
    destruct e1_1; try discriminate. simpl. intros H. split_andb.
    destruct e1_2; try discriminate. destruct e2; try discriminate.
    match goal with Hq : String.eqb _ "indices" = true |- _ => apply String.eqb_eq in Hq; subst end.
    unfold idx_expr. eauto.
  Qed.

  Lemma vals_field_inv ts e : vals_field ts e = true ->
    exists T, e = AttributeAccess (Var T) "vals" /\ mem T ts = true.
  Proof.
    destruct e; try discriminate. destruct e; try discriminate. simpl. intros H. split_andb.
    match goal with Hq : String.eqb _ "vals" = true |- _ => apply String.eqb_eq in Hq; subst end. eauto.
  Qed.

  Lemma mem_single x y : mem x [y] = true -> x = y.
  Proof. unfold mem. simpl. rewrite orb_false_r. apply String.eqb_eq. Qed.

  Lemma keepC_var_sound ph cur a c x e d ph' : keepC_var rl U ph x e d = Some ph' -> RC ph cur a c ->
    ph' = ph /\
    (d = true -> forall t, osimK bool RCx OKF ph (exec 1 (DeclarationAssignment (Declaration (Var x) t) e) a)
                                              (exec 1 (DeclarationAssignment (Declaration (Var x) t) e) c)) /\
    (d = false -> osimK bool RCx OKF ph (exec 1 (Assignment (Var x) e) a) (exec 1 (Assignment (Var x) e) c)).
  Proof.
    unfold keepC_var. intros K R.
    destruct (negb (mem x U) && negb (mem x (r_out rl :: r_ins rl))) eqn:Q0; try discriminate.
    apply andb_prop in Q0. destruct Q0 as [Ux Np]. apply negb_true_iff in Ux, Np. fold pars in Np.
    destruct (mem x (r_os rl)) eqn:Ox.
    { destruct (d && idx_field [r_out rl] e) eqn:Q; try discriminate. inv K.
      apply andb_prop in Q. destruct Q as [-> Q]. destruct (idx_field_inv _ _ Q) as (T & k & j & -> & MT).
      apply mem_single in MT. subst T. split; auto. split; [|discriminate].
      intros _ t. now apply (keep_os_unpack ph' cur). }
    destruct (mem x (r_v rl)) eqn:Vx.
    { destruct (d && vals_field [r_out rl] e && negb ph && String.eqb x (r_root rl)) eqn:Q.
      - inv K. split_andb. subst d.
        match goal with Hq : String.eqb x _ = true |- _ => apply String.eqb_eq in Hq; subst x end.
        match goal with Hq : negb ph' = true |- _ => apply negb_true_iff in Hq; subst ph' end.
        match goal with Hq : vals_field _ e = true |- _ => destruct (vals_field_inv _ _ Hq) as (T & -> & MT) end.
        apply mem_single in MT. subst T. split; auto. split; [|discriminate].
        intros _ t. now apply (keep_root_unpack cur).
      - match type of K with (if ?X then _ else _) = _ => destruct X eqn:Q2; try discriminate end.
        inv K. apply andb_prop in Q2. destruct Q2 as [Q2 He]. split_andb. subst d.
        match goal with Hq : negb _ = true |- _ => apply negb_true_iff in Hq end.
        split; auto. split; [|discriminate]. intros _ t. subst ph'. now apply (keep_bucket cur). }
    destruct (ins_p rl x) eqn:Ix.
    { destruct (d && idx_field (r_ins rl) e) eqn:Q; try discriminate. inv K.
      apply andb_prop in Q. destruct Q as [-> Q]. destruct (idx_field_inv _ _ Q) as (T & k & j & -> & MT).
      split; auto. split; [|discriminate]. intros _ t. now apply (keep_input_idx ph' cur). }
    destruct (inv_p rl x) eqn:Vp.
    { destruct (d && vals_field (r_ins rl) e) eqn:Q; try discriminate. inv K.
      apply andb_prop in Q. destruct Q as [-> Q]. destruct (vals_field_inv _ _ Q) as (T & -> & MT).
      split; auto. split; [|discriminate]. intros _ t. now apply (keep_input_vals ph' cur). }
    destruct (scalar_var rl x && sexpC rl U false e) eqn:Q; try discriminate. inv K.
    apply andb_prop in Q. destruct Q as [Sx Se]. split; auto. split.
    - intros _ t. exact (keep_scalar ph' cur a c x e (Some t) R Ux Sx Se).
    - intros _. exact (keep_scalar ph' cur a c x e None R Ux Sx Se).
  Qed.

  Lemma keepC_sound ph ph' s a c : is_atomic s = true -> keepC rl U ph s = Some ph' -> RCx ph a c ->
    osimK bool RCx OKF ph' (exec 1 s a) (exec 1 s c).
  Proof.
    intros _ K [cur R].
    destruct s as [ | tgt val | d val | | | | val | ]; try discriminate.
    - destruct tgt as [x | | tg ix | | | | | | | | | | | | | | | | | | | ]; try discriminate.
      + simpl in K. destruct (keepC_var_sound _ _ _ _ _ _ _ _ K R) as (-> & _ & X). auto.
      + destruct tg; try discriminate. simpl in K.
        match type of K with (if ?X then _ else _) = _ => destruct X eqn:Q; try discriminate end.
        inv K. split_andb. subst. now apply (keep_store cur).
    - destruct d as [nm t| | | | | | |]; try discriminate. destruct nm; try discriminate.
      simpl in K. destruct (keepC_var_sound _ _ _ _ _ _ _ _ K R) as (-> & X & _). auto.
    - simpl in K. destruct (sexpC rl U false val) eqn:Q; try discriminate. inv K.
      now apply (keep_return ph' cur).
  Qed.

  Lemma dropC_var_sound ph cur a c x e d ph' : dropC_var rl U ph x e d = Some ph' -> RC ph cur a c ->
    (d = true -> forall t, odrop bool RCx ph' (exec 1 (DeclarationAssignment (Declaration (Var x) t) e) a) c) /\
    (d = false -> odrop bool RCx ph' (exec 1 (Assignment (Var x) e) a) c).
  Proof.
    unfold dropC_var. intros K R. fold pars in K.
    destruct (mem x pars) eqn:Np; try discriminate.
    assert (SC : forall ph0, (if mem x U && scalar_var rl x then Some ph0 else None) = Some ph' ->
                 is_alloc e = false -> ph0 = ph ->
                 (d = true -> forall t, odrop bool RCx ph' (exec 1 (DeclarationAssignment (Declaration (Var x) t) e) a) c) /\
                 (d = false -> odrop bool RCx ph' (exec 1 (Assignment (Var x) e) a) c)).
    { intros ph0 K0 NA ->. destruct (mem x U && scalar_var rl x) eqn:Q; try discriminate. inv K0.
      apply andb_prop in Q. destruct Q as [Ux Sx]. split.
      - intros _ t. exact (drop_scalar ph' cur a c x e (Some t) R Ux Sx NA).
      - intros _. exact (drop_scalar ph' cur a c x e None R Ux Sx NA). }
    destruct e; try (apply (SC ph K); reflexivity).
    - (* malloc *)
      destruct d; try discriminate. split; [discriminate|]. intros _.
      destruct (ty_same element_type TInteger && mem x (r_os rl)) eqn:Q.
      + inv K. apply andb_prop in Q. destruct Q as [Q1 Q2]. apply ty_same_eq in Q1. subst.
        now apply (drop_alloc_os ph' cur).
      + destruct (ty_same element_type TFloat && String.eqb x (r_root rl) && negb ph) eqn:Q2; try discriminate.
        inv K. split_andb. apply ty_same_eq in H. subst.
        match goal with Hq : String.eqb x _ = true |- _ => apply String.eqb_eq in Hq; subst x end.
        match goal with Hq : negb ph = true |- _ => apply negb_true_iff in Hq; subst ph end.
        now apply (drop_alloc_root cur).
    - (* realloc *)
      destruct e1; try discriminate.
      destruct (negb (String.eqb x name) || d) eqn:Q0; try discriminate.
      apply orb_false_iff in Q0. destruct Q0 as [Q0 ->]. apply negb_false_iff in Q0.
      apply String.eqb_eq in Q0. subst name. split; [discriminate|]. intros _.
      destruct (ty_same element_type TInteger && mem x (r_os rl)) eqn:Q.
      + inv K. apply andb_prop in Q. destruct Q as [Q1 Q2]. apply ty_same_eq in Q1. subst.
        now apply (drop_realloc_os ph' cur).
      + destruct (ty_same element_type TFloat && String.eqb x (r_root rl) && ph) eqn:Q2; try discriminate.
        inv K. split_andb. apply ty_same_eq in H. subst.
        match goal with Hq : String.eqb x _ = true |- _ => apply String.eqb_eq in Hq; subst x end.
        now apply (drop_realloc_root cur).
  Qed.

  Lemma dropC_sound ph ph' s a c : is_atomic s = true -> dropC rl U ph s = Some ph' -> RCx ph a c ->
    odrop bool RCx ph' (exec 1 s a) c.
  Proof.
    intros _ K [cur R].
    destruct s as [ | tgt val | d val | | | | val | ]; try discriminate.
    - destruct tgt as [x | tg at0 | tg ix | | | | | | | | | | | | | | | | | | | ]; try discriminate.
      + simpl in K. exact (proj2 (dropC_var_sound _ _ _ _ _ _ _ _ K R) eq_refl).
      + destruct tg; try discriminate. destruct val; try discriminate. simpl in K.
        match type of K with (if ?X then _ else _) = _ => destruct X eqn:Q; try discriminate end.
        inv K. split_andb. subst.
        repeat match goal with Hq : String.eqb _ _ = true |- _ => apply String.eqb_eq in Hq; subst end.
        now apply (drop_field_vals cur).
      + destruct tg as [p | | tg2 ix2 | | | | | | | | | | | | | | | | | | | ]; try discriminate.
        * simpl in K. destruct (mem p (r_os rl) && negb (is_alloc val)) eqn:Q; try discriminate. inv K.
          apply andb_prop in Q. destruct Q as [Q1 Q2]. apply negb_true_iff in Q2.
          now apply (drop_os_store ph' cur).
        * destruct tg2 as [ | tg3 at3 | | | | | | | | | | | | | | | | | | | | ]; try discriminate.
          destruct tg3; try discriminate. destruct ix2; try discriminate. destruct ix; try discriminate.
          destruct val; try discriminate. simpl in K.
          match type of K with (if ?X then _ else _) = _ => destruct X eqn:Q; try discriminate end.
          inv K. split_andb.
          repeat match goal with Hq : String.eqb _ _ = true |- _ => apply String.eqb_eq in Hq; subst end.
          now apply (drop_field_idx ph' cur).
    - destruct d as [nm t| | | | | | |]; try discriminate. destruct nm; try discriminate.
      simpl in K. exact (proj1 (dropC_var_sound _ _ _ _ _ _ _ _ K R) eq_refl t).
  Qed.


  (** ** statements *)

  Lemma RC_tick2 ph cur a c : RC ph cur a c -> RC ph cur (tick a) (tick c).
  Proof.
    intros [T E Ip Ih Ro Ri Tn To Bv Vv Cu]. constructor; simpl; auto.
    - now apply TY_tick.
    - intros P. destruct (Cu P) as [Cr Cb]. constructor; auto.
  Qed.

  Lemma RC_tickE ph cur a c : RC ph cur a c -> RC ph cur (tick a) c.
  Proof.
    intros [T E Ip Ih Ro Ri Tn To Bv Vv Cu]. constructor; simpl; auto.
    - now apply TY_tick.
    - intros P. destruct (Cu P) as [Cr Cb]. constructor; auto.
  Qed.

  Theorem alignC_stmt_sound n sE sC ph ph' a c :
    align bool Bool.eqb (sexpC rl U false) (keepC rl U) (dropC rl U) ph sE sC = Some ph' ->
    RCx ph a c -> osimK bool RCx OKF ph' (exec n sE a) (exec n sC c).
  Proof.
    intros K R.
    eapply (align_sound bool Bool.eqb (sexpC rl U false) (keepC rl U) (dropC rl U)); eauto.
    - intros x y. apply Bool.eqb_prop.
    - intros p x y [cur Rxy]. exists cur. now apply RC_tick2.
    - intros p x y [cur Rxy]. exists cur. now apply RC_tickE.
    - intros p e x y v t C [cur Rxy] E. exists t. eapply eval_C0; eauto.
    - intros p p' s x y At Ke Rxy. eapply keepC_sound; eauto.
    - intros p p' s x y At Dr Rxy. eapply dropC_sound; eauto.
  Qed.

End CMP.

(** * Kernels *)

Definition is_tparam (p : stmt) : bool :=
  match p with Declaration (Var _) (TPointer TTensor) => true | _ => false end.

Lemma bind_params_nth ps : forall args e0 e,
  forallb is_tparam ps = true -> nodupb (param_names ps) = true ->
  bind_params ps args e0 = Ok e ->
  forall i x, nth_error (param_names ps) i = Some x ->
    exists id, nth_error args i = Some (VTensor id) /\
               lookup x e = Some (TPointer TTensor, Some (VTensor id)).
Proof.
  induction ps as [|p r IH]; intros args e0 e P N B i x Hx.
  - destruct i; discriminate.
  - simpl in P. apply andb_prop in P. destruct P as [P1 P2].
    destruct p as [nm t| | | | | | |]; try discriminate. destruct nm; try discriminate.
    destruct t; try discriminate. destruct t; try discriminate.
    destruct args as [|a args]; simpl in B; try discriminate.
    unfold bind in B. destruct a; try discriminate B.
    rewrite param_names_cons in N, Hx. simpl in N, Hx. apply andb_prop in N. destruct N as [N1 N2].
    destruct i as [|i]; simpl in Hx.
    + inv Hx. exists t. split; auto.
      rewrite (bind_params_other _ _ _ _ x B).
      * rewrite lookup_set_var, String.eqb_refl. reflexivity.
      * apply mem_false_In. now apply negb_true_iff.
    + simpl. eapply IH; eauto.
Qed.

Section CMP_CALL.
  Variable rl : roles.
  Variable U : list string.
  Variable tout bV : positive.

  Definition PreC (a c : state) : Prop :=
    TY rl (with_env a []) /\
    (forall b blk, PM.find b (heap a) = Some blk -> b_input blk = true -> PM.find b (heap c) = Some blk) /\
    (forall t, t <> tout -> forall ts, PM.find t (tensors a) = Some ts ->
       PM.find t (tensors c) = Some ts /\
       inptr (heap a) (t_vals ts) /\
       forall p q, In (p, q) (t_idx ts) -> inptr (heap a) p /\ inptr (heap a) q) /\
    (exists tsa tsc,
       PM.find tout (tensors a) = Some tsa /\ PM.find tout (tensors c) = Some tsc /\
       t_dims tsa = t_dims tsc /\ List.length (t_idx tsa) = List.length (t_idx tsc) /\
       (forall p q, In (p, q) (t_idx tsc) -> is_ptr p && is_ptr q = true) /\
       t_vals tsc = VPtr bV 0 /\ t_vals tsa = VNull) /\
    (exists bc, PM.find bV (heap c) = Some bc /\ b_live bc = true /\ b_float bc = true /\ b_input bc = false).

  Lemma RC_initial a c e out ins cur :
    PreC a c -> r_out rl = out -> r_ins rl = ins ->
    (forall x t v, lookup x e = Some (t, Some v) -> exists id, v = VTensor id) ->
    lookup out e = Some (TPointer TTensor, Some (VTensor tout)) ->
    (forall T t ov, In T ins -> lookup T e = Some (t, ov) -> exists id, ov = Some (VTensor id) /\ id <> tout) ->
    (forall x, mem x (r_v rl) = true -> lookup x e = None) ->
    RC rl U tout bV false cur (with_env a e) (with_env c e).
  Proof.
    intros (T & Ih & Tn & To & Bv) <- <- Hv Ho Hi Hn.
    constructor; simpl; auto.
    - destruct T as [A B C D]. constructor; simpl in *; auto.
      + intros x t v _ L. destruct (Hv _ _ _ L) as [id ->]. exact I.
      + intros x t v _ L. destruct (Hv _ _ _ L) as [id ->]. exact I.
    - intros x t v _ L. destruct (Hv _ _ _ L) as [id ->]. intros b o Q. discriminate.
    - intros x t ov M L. rewrite (Hn x M) in L. discriminate.
    - discriminate.
  Qed.
End CMP_CALL.

Lemma forallb_mem (f : string -> bool) l x : forallb f l = true -> mem x l = true -> f x = true.
Proof. intros F M. rewrite forallb_forall in F. apply F. now apply mem_In. Qed.

Theorem compute_cert3_sound fe fc : compute_cert3 fe fc = true ->
  forall fuel tout bV ids a c, PreC (roles_of fe) tout bV a c -> ~ In tout ids ->
  match call fuel fe (VTensor tout :: map VTensor ids) a with
  | Returned a' v _ =>
      (exists c' tr', call fuel fc (VTensor tout :: map VTensor ids) c = Returned c' v tr' /\
         exists ph cur, RC (roles_of fe) (assigned_only_in fe fc) tout bV ph cur a' c') \/
      call fuel fc (VTensor tout :: map VTensor ids) c = Fail EOutOfBounds
  | _ => True
  end.
Proof.
  intros C fuel tout bV ids a c Pre Nin.
  set (rl := roles_of fe) in *. set (U := assigned_only_in fe fc) in *.
  destruct fe as [nE ps rt be], fc as [nC qs rt' bc]. unfold compute_cert3 in C. fold rl U in C.
  do 10 (apply andb_prop in C; destruct C as [C ?]).
  pose proof (params_same _ _ C H8 H7) as ->. apply ty_same_eq in H5. subst rt'.
  unfold call. destruct (bind_params qs (VTensor tout :: map VTensor ids) []) as [e|] eqn:B; auto.
  assert (H_os : forall x, mem x (r_os rl) = true -> mem x (r_ip rl) = true).
  { intros x M. exact (forallb_mem _ _ _ H3 M). }
  assert (H_v : forall x, mem x (r_v rl) = true -> mem x (r_fp rl) = true).
  { intros x M. exact (forallb_mem _ _ _ H2 M). }
  assert (H_disj : forall x, mem x (r_ip rl) = true -> mem x (r_fp rl) = false).
  { intros x M. pose proof (forallb_mem _ _ _ H4 M) as X. now apply negb_true_iff in X. }
  assert (H_pars : forall T, mem T (pars rl) = true -> rdC rl U T = true).
  { intros T M. exact (forallb_mem _ _ _ H0 M). }
  (* the parameter list *)
  pose proof C as Pq. unfold params_ok in Pq. apply andb_prop in Pq. destruct Pq as [Pq Pl].
  destruct qs as [|q0 qr]; [discriminate Pl|].
  pose proof Pq as Pq'. simpl in Pq'. apply andb_prop in Pq'. destruct Pq' as [Pq0 Pqr].
  destruct q0 as [nm t| | | | | | |]; try discriminate. destruct nm as [o| | | | | | | | | | | | | | | | | | | | |]; try discriminate.
  destruct t; try discriminate. destruct t; try discriminate.
  assert (Ro : r_out rl = o) by reflexivity.
  assert (Ri : r_ins rl = param_names qr) by reflexivity.
  assert (Pn : param_names (Declaration (Var o) (TPointer TTensor) :: qr) = o :: param_names qr) by reflexivity.
  assert (Hv : forall x t v, lookup x e = Some (t, Some v) -> exists id, v = VTensor id).
  { eapply bind_params_tensor; eauto. simpl. discriminate. }
  destruct (bind_params_nth _ _ _ _ Pq H6 B 0%nat o eq_refl) as (id0 & A0 & L0). simpl in A0.
  assert (Eid : id0 = tout) by congruence. rewrite Eid in L0. clear Eid A0.
  assert (Hi : forall T t ov, In T (param_names qr) -> lookup T e = Some (t, ov) ->
                 exists id, ov = Some (VTensor id) /\ id <> tout).
  { intros T t ov I L. apply In_nth_error in I. destruct I as [i Hi'].
    destruct (bind_params_nth _ _ _ _ Pq H6 B (S i) T) as (id & A1 & L1).
    { rewrite Pn. exact Hi'. }
    simpl in A1. rewrite L1 in L. assert (ov = Some (VTensor id)) by congruence. exists id. split; auto.
    apply nth_error_In in A1. apply in_map_iff in A1. destruct A1 as (y & Q & Iy).
    assert (y = id) by congruence. intros Q2. apply Nin. congruence. }
  assert (Hn : forall x, mem x (r_v rl) = true -> lookup x e = None).
  { intros x M. rewrite (bind_params_other _ _ _ _ x B); auto. intros I.
    assert (Mp : mem x (pars rl) = true).
    { unfold pars. rewrite Ro, Ri. apply mem_In. rewrite Pn in I. exact I. }
    apply H_pars in Mp. unfold rdC in Mp. rewrite M in Mp. rewrite andb_false_r in Mp. discriminate. }
  pose proof (RC_initial rl U tout bV a c e o (param_names qr) 1%positive Pre Ro Ri Hv L0 Hi Hn) as R0.
  unfold alignC in H.
  destruct (align bool Bool.eqb (sexpC rl U false) (keepC rl U) (dropC rl U) false be bc) as [ph'|] eqn:AL;
    try discriminate.
  pose proof (alignC_stmt_sound rl U tout bV H_os H_v H_disj H1 H_pars fuel be bc false ph' _ _ AL
                (ex_intro _ 1%positive R0)) as S.
  unfold osimK in S.
  destruct (exec fuel be (with_env a e)) as [a' t|a' v t|x|]; auto.
  destruct (coerce rt v) as [v'|] eqn:Cv; auto.
  destruct (exec fuel bc (with_env c e)) as [c' t'|c' w t'|y|]; try contradiction.
  - destruct S as [[q [cur S]] Evw]. rewrite <- Evw, Cv. left. exists c', t'. split; auto. eauto.
  - right. unfold OKF in S. rewrite S. reflexivity.
Qed.

(** * What the relation says about the output values *)

(** If, in the final state of evaluate, [out->vals] designates a LIVE block [b], then it is [(b, 0)],
    compute's [out->vals] is still [(bV, 0)], and every initialised cell of [b] whose index is below
    the length of [bV] has the same content in [bV]. *)
Theorem RC_values rl U tout bV ph cur a c : RC rl U tout bV ph cur a c ->
  exists tsa tsc, PM.find tout (tensors a) = Some tsa /\ PM.find tout (tensors c) = Some tsc /\
    t_dims tsa = t_dims tsc /\ t_vals tsc = VPtr bV 0 /\
    forall b o be, t_vals tsa = VPtr b o -> PM.find b (heap a) = Some be -> b_live be = true ->
      o = 0 /\ exists bc, PM.find bV (heap c) = Some bc /\ b_live bc = true /\ b_float bc = true /\
                          sub_cells (b_len bc) (b_cells be) (b_cells bc).
Proof.
  intros R. destruct (rc_tout _ _ _ _ _ _ _ _ R) as (tsa & tsc & F1 & F2 & D & _ & _ & Vc & Vr).
  exists tsa, tsc. split; auto. split; auto. split; auto. split; auto.
  intros blk o be Q Fb Lb. unfold vrel in Vr. destruct ph.
  - destruct Vr as [Vr|(b0 & o0 & Q0 & Vr)]; [congruence|]. rewrite Q in Q0. inv Q0.
    destruct Vr as [[Qb Qo]|(bk & Fk & Dk)]; [subst b0 o0|congruence].
    destruct (rc_cur _ _ _ _ _ _ _ _ R eq_refl) as [_ (be' & bc & Fe & Le & Fle & Ie & Fc & Sub)].
    rewrite Fe in Fb. inv Fb. split; auto.
    destruct (rc_bv _ _ _ _ _ _ _ _ R) as (bc' & Fc' & Lc & Flc & Ic). rewrite Fc in Fc'. inv Fc'.
    exists bc'. auto.
  - congruence.
Qed.
