(** evaluate ~ compute (started on assemble's result): soundness of the alignment [alignC].

    Relation [RC ph cur a c] between a state [a] of the evaluate run and a state [c] of the compute
    run.  [a] is well typed ([TY]); scalars outside [U] and the input pointers agree; every input
    block of [a] is the same block in [c]; the tensor structs of the inputs agree; compute's value
    pointers ([r_v]) all point into ONE block [bV] (= [out->vals] of the state compute starts in).
    Phase [false]: evaluate's value pointers are NULL.  Phase [true]: the root value pointer of
    evaluate is [(cur, 0)] with [cur] a live double block, every value pointer of evaluate is NULL,
    dead, or [(cur, o)] where compute's copy is [(bV, o)], and every initialised cell of [cur] below
    the length of [bV] has the same content in [bV]. *)

From Coq Require Import ZArith Bool List String Lia FMapPositive SetoidList.
From Flocq Require Import Core BinarySingleNaN.
From TV Require Import spec.Num gen.IRAst spec.IRSem proofs.Certs2Base proofs.Certs3Defs proofs.Certs3Base
  proofs.Certs3Asm.
Import ListNotations.
Open Scope Z_scope.

Local Arguments fadd : simpl never.
Local Arguments fsub : simpl never.
Local Arguments fmul : simpl never.
Local Arguments chk32 : simpl never.
Local Arguments chkfin : simpl never.

(** * keep_prefix *)

Lemma keep_prefix_find n cells k :
  PM.find k (keep_prefix n cells) = if Zpos k <=? n then PM.find k cells else None.
Proof.
  unfold keep_prefix. rewrite PM.fold_1.
  assert (G : forall l acc,
    NoDupA (fun a b : positive * value => fst a = fst b) l ->
    PM.find k (fold_left (fun a p => if Zpos (fst p) <=? n then PM.add (fst p) (snd p) a else a) l acc)
    = match find (fun p => Pos.eqb (fst p) k) l with
      | Some p => if Zpos k <=? n then Some (snd p) else PM.find k acc
      | None => PM.find k acc
      end).
  { induction l as [|[k0 v0] l IH]; intros acc ND; simpl; auto.
    inversion ND as [|? ? NI ND']; subst. rewrite IH by auto.
    destruct (Pos.eqb k0 k) eqn:E.
    - apply Pos.eqb_eq in E. subst k0.
      assert (find (fun p => Pos.eqb (fst p) k) l = None) as ->.
      { destruct (find _ l) as [[k1 v1]|] eqn:F; auto. apply find_some in F. destruct F as [I E1]. simpl in E1.
        apply Pos.eqb_eq in E1. subst k1. exfalso. apply NI. apply InA_alt. exists (k, v1). split; auto. }
      destruct (Zpos k <=? n); auto. now rewrite PM.gss.
    - apply Pos.eqb_neq in E. destruct (find _ l) as [p|]; auto.
      + destruct (Zpos k <=? n); auto. destruct (Zpos k0 <=? n); auto. now rewrite PM.gso by auto.
      + destruct (Zpos k0 <=? n); auto. now rewrite PM.gso by auto. }
  rewrite G by apply PM.elements_3w. rewrite PM.gempty.
  destruct (find (fun p : positive * value => Pos.eqb (fst p) k) (PM.elements cells)) as [[k1 v1]|] eqn:F.
  - apply find_some in F. destruct F as [I E]. simpl in E. apply Pos.eqb_eq in E. subst k1.
    apply PM.elements_complete in I. rewrite I. reflexivity.
  - destruct (PM.find k cells) as [v|] eqn:Fk; [|now destruct (_ <=? _)].
    apply PM.elements_correct in Fk. eapply find_none in F; eauto. simpl in F. rewrite Pos.eqb_refl in F. discriminate.
Qed.

Definition inptr (h : PM.t block) (v : value) : Prop :=
  forall b o, v = VPtr b o -> exists blk, PM.find b h = Some blk /\ b_input blk = true.

Definition dead (h : PM.t block) (b : positive) : Prop :=
  exists blk, PM.find b h = Some blk /\ b_live blk = false.

Definition sub_cells (n : Z) (ce cc : PM.t value) : Prop :=
  forall k v, Zpos k <= n -> PM.find k ce = Some v -> PM.find k cc = Some v.

Section CMP.
  Variable rl : roles.
  Variable U : list string.
  Variable tout bV : positive.
  Hypothesis H_os : forall x, mem x (r_os rl) = true -> mem x (r_ip rl) = true.
  Hypothesis H_v : forall x, mem x (r_v rl) = true -> mem x (r_fp rl) = true.
  Hypothesis H_disj : forall x, mem x (r_ip rl) = true -> mem x (r_fp rl) = false.

  Definition pars : list string := r_out rl :: r_ins rl.
  Definition inP (x : string) : bool := ins_p rl x || inv_p rl x.

  Definition vrel (ph : bool) (a : state) (cur : positive) (vE : value) (o' : Z) : Prop :=
    if ph then vE = VNull \/ exists b o, vE = VPtr b o /\ ((b = cur /\ o' = o) \/ dead (heap a) b)
    else vE = VNull.

  Record cur_ok (a c : state) (cur : positive) : Prop := mkCO {
    co_root : exists t, lookup (r_root rl) (env a) = Some (t, Some (VPtr cur 0));
    co_blk : exists be bc, PM.find cur (heap a) = Some be /\ b_live be = true /\ b_float be = true /\
               b_input be = false /\ PM.find bV (heap c) = Some bc /\
               sub_cells (b_len bc) (b_cells be) (b_cells bc)
  }.

  Record RC (ph : bool) (cur : positive) (a c : state) : Prop := mkRC {
    rc_ty : TY rl a;
    rc_env : forall x, rdC rl U x = true -> lookup x (env a) = lookup x (env c);
    rc_inp : forall x t v, inP x = true -> lookup x (env a) = Some (t, Some v) -> inptr (heap a) v;
    rc_inh : forall b blk, PM.find b (heap a) = Some blk -> b_input blk = true ->
               PM.find b (heap c) = Some blk;
    rc_out : lookup (r_out rl) (env a) = Some (TPointer TTensor, Some (VTensor tout)) /\
             lookup (r_out rl) (env c) = Some (TPointer TTensor, Some (VTensor tout));
    rc_ins : forall T t ov, In T (r_ins rl) -> lookup T (env a) = Some (t, ov) ->
               exists id, ov = Some (VTensor id) /\ id <> tout;
    rc_tn : forall t, t <> tout ->
              PM.find t (tensors a) = PM.find t (tensors c) /\
              forall ts, PM.find t (tensors a) = Some ts ->
                inptr (heap a) (t_vals ts) /\
                forall p q, In (p, q) (t_idx ts) -> inptr (heap a) p /\ inptr (heap a) q;
    rc_tout : exists tsa tsc,
                PM.find tout (tensors a) = Some tsa /\ PM.find tout (tensors c) = Some tsc /\
                t_dims tsa = t_dims tsc /\ List.length (t_idx tsa) = List.length (t_idx tsc) /\
                (forall p q, In (p, q) (t_idx tsc) -> is_ptr p && is_ptr q = true) /\
                t_vals tsc = VPtr bV 0 /\ (ph = false -> t_vals tsa = VNull);
    rc_bv : exists bc, PM.find bV (heap c) = Some bc /\ b_live bc = true /\ b_float bc = true /\
                       b_input bc = false;
    rc_v : forall x t ov, mem x (r_v rl) = true -> lookup x (env a) = Some (t, ov) ->
             exists o', lookup x (env c) = Some (t, Some (VPtr bV o')) /\
                        (String.eqb x (r_root rl) = true -> o' = 0) /\
                        forall vE, ov = Some vE -> vrel ph a cur vE o';
    rc_cur : ph = true -> cur_ok a c cur
  }.

  Definition RCx (ph : bool) (a c : state) : Prop := exists cur, RC ph cur a c.

  (** ** small facts *)

  Lemma inptr_mono h h' v :
    (forall b blk, PM.find b h = Some blk -> b_input blk = true -> PM.find b h' = Some blk) ->
    inptr h v -> inptr h' v.
  Proof. intros X I b o Q. destruct (I b o Q) as (blk & F & In). eauto. Qed.

  Lemma vrel_mono ph a a' cur vE o' :
    (forall b, dead (heap a) b -> dead (heap a') b) -> vrel ph a cur vE o' -> vrel ph a' cur vE o'.
  Proof.
    intros X. unfold vrel. destruct ph; auto. intros [N|(b & o & Q & [Y|Y])]; auto.
    - right. exists b, o. auto.
    - right. exists b, o. auto.
  Qed.

  Lemma v_not_ip x : mem x (r_v rl) = true -> mem x (r_ip rl) = false.
  Proof.
    intros M. destruct (mem x (r_ip rl)) eqn:Q; auto. apply H_disj in Q. apply H_v in M. congruence.
  Qed.

  Lemma os_not_fp x : mem x (r_os rl) = true -> mem x (r_fp rl) = false.
  Proof. intros M. apply H_disj. now apply H_os. Qed.

  (** ** environment updates *)

  Lemma RC_set ph cur a c x t vE (oc : option value) :
    RC ph cur a c ->
    mem x pars = false ->
    (mem x (r_ip rl) = true -> ptr_int (heap a) vE) ->
    (mem x (r_fp rl) = true -> ptr_float (heap a) vE) ->
    (rdC rl U x = true -> oc = Some vE) ->
    (inP x = true -> inptr (heap a) vE) ->
    (mem x (r_v rl) = true ->
       exists o', lookup x (env (match oc with Some vC => with_env c (set_var x (t, Some vC) (env c)) | None => c end))
                  = Some (t, Some (VPtr bV o')) /\
                  (String.eqb x (r_root rl) = true -> o' = 0) /\ vrel ph a cur vE o') ->
    (mem x (r_v rl) = false -> rdC rl U x = false -> oc = None) ->
    (String.eqb x (r_root rl) = true -> ph = true -> vE = VPtr cur 0) ->
    RC ph cur (with_env a (set_var x (t, Some vE) (env a)))
       (match oc with Some vC => with_env c (set_var x (t, Some vC) (env c)) | None => c end).
  Proof.
    intros R Np Ti Tf Hrd Hin Hv Hno Hroot.
    assert (Npo : String.eqb (r_out rl) x = false).
    { unfold pars in Np. simpl in Np. apply orb_false_iff in Np. destruct Np as [Np _].
      now rewrite String.eqb_sym. }
    assert (Npi : forall T, In T (r_ins rl) -> String.eqb T x = false).
    { intros T I. destruct (String.eqb T x) eqn:Q; auto. apply String.eqb_eq in Q. subst.
      unfold pars in Np. simpl in Np. apply orb_false_iff in Np. destruct Np as [_ Np].
      apply mem_false_In in Np. contradiction. }
    set (c1 := match oc with Some vC => with_env c (set_var x (t, Some vC) (env c)) | None => c end) in *.
    assert (Hc : heap c1 = heap c /\ tensors c1 = tensors c) by (unfold c1; destruct oc; auto).
    destruct Hc as [Hc1 Hc2].
    assert (Lc : forall y, String.eqb y x = false -> lookup y (env c1) = lookup y (env c)).
    { intros y Q. unfold c1. destruct oc; auto. simpl. rewrite lookup_set_var, Q. reflexivity. }
    destruct R as [T E Ip Ih Ro Ri Tn To Bv Vv Cu]. constructor; simpl; rewrite ?Hc1, ?Hc2; auto.
    - apply TY_set_var; auto.
    - intros y Rd. rewrite lookup_set_var. destruct (String.eqb y x) eqn:Q.
      + apply String.eqb_eq in Q. subst y. unfold c1. rewrite (Hrd Rd). simpl.
        rewrite lookup_set_var, String.eqb_refl. reflexivity.
      + rewrite (Lc _ Q). auto.
    - intros y t0 v0 I L. rewrite lookup_set_var in L. destruct (String.eqb y x) eqn:Q.
      + apply String.eqb_eq in Q. subst y. inv L. auto.
      + eauto.
    - rewrite lookup_set_var, Npo, (Lc _ Npo). exact Ro.
    - intros T0 t0 ov I L. rewrite lookup_set_var, (Npi _ I) in L. eauto.
    - intros y t0 ov M L. rewrite lookup_set_var in L. destruct (String.eqb y x) eqn:Q.
      + apply String.eqb_eq in Q. subst y. inv L. destruct (Hv M) as (o' & L1 & L2 & L3).
        exists o'. split; auto. split; auto. intros vE0 Q0. inv Q0. exact L3.
      + rewrite (Lc _ Q). eauto.
    - intros P. destruct (Cu P) as [[t0 Cr] Cb]. constructor.
      + simpl. rewrite lookup_set_var. destruct (String.eqb (r_root rl) x) eqn:Q.
        * rewrite String.eqb_sym in Q. rewrite (Hroot Q P). eauto.
        * eauto.
      + simpl. rewrite Hc1. exact Cb.
  Qed.


  (** ** heap changes of the evaluate side that stay away from the inputs and from [cur] *)

  Lemma RC_heapA ph cur a a1 c : RC ph cur a c ->
    env a1 = env a -> tensors a1 = tensors a -> TY rl a1 ->
    (forall b blk, PM.find b (heap a) = Some blk -> b_input blk = true -> PM.find b (heap a1) = Some blk) ->
    (forall b blk, PM.find b (heap a1) = Some blk -> b_input blk = true -> PM.find b (heap a) = Some blk) ->
    (forall b, dead (heap a) b -> dead (heap a1) b) ->
    (ph = true -> PM.find cur (heap a1) = PM.find cur (heap a)) ->
    RC ph cur a1 c.
  Proof.
    intros [T E Ip Ih Ro Ri Tn To Bv Vv Cu] He Ht T1 X1 X2 X3 X4.
    constructor; rewrite ?He, ?Ht; auto.
    - intros x t v I L. eapply inptr_mono; eauto.
    - intros t Nt. destruct (Tn t Nt) as [Q1 Q2]. split; auto. intros ts F. destruct (Q2 ts F) as [Q3 Q4].
      split; [eapply inptr_mono; eauto|]. intros p q I. destruct (Q4 p q I). split; eapply inptr_mono; eauto.
    - intros x t ov M L. destruct (Vv x t ov M L) as (o' & L1 & L2 & L3). exists o'. split; auto. split; auto.
      intros vE Q. eapply vrel_mono; [|eauto]. exact X3.
    - intros P. destruct (Cu P) as [Cr Cb]. constructor; rewrite ?He; auto. rewrite (X4 P). exact Cb.
  Qed.

  (** ** expressions *)

  Lemma typed_ptr_any t b o b' o' : typed t (VPtr b o) = true -> typed t (VPtr b' o') = true.
  Proof. destruct t; simpl; auto. Qed.

  Lemma index_value_ptr st w i r tr :
    match w with VInt _ | VFloat _ | VBool _ | VNull | VTensor _ => True | _ => False end ->
    index_value st w i = Ok (r, tr) -> False.
  Proof. unfold index_value. destruct w; try contradiction; intros _ H; destruct i; discriminate. Qed.

  Lemma eval_var_inv st x v t : eval st (Var x) = Ok (v, t) ->
    exists ty, lookup x (env st) = Some (ty, Some v) /\ typed ty v = true /\ t = [].
  Proof.
    simpl. destruct (lookup x (env st)) as [[ty [w|]]|]; try discriminate.
    destruct (typed ty w) eqn:T; try discriminate. intros H. inv H. eauto.
  Qed.

  Lemma load_input ph cur a c w iv r tr x t :
    RC ph cur a c -> inP x = true -> lookup x (env a) = Some (t, Some w) -> typed t w = true ->
    index_value a w iv = Ok (r, tr) -> index_value c w iv = Ok (r, tr).
  Proof.
    intros R I L Ty H. pose proof (rc_inp _ _ _ _ R x t w I L) as Ip. apply typed_shape in Ty.
    unfold index_value in *. destruct w; try contradiction; try (destruct iv; discriminate).
    destruct iv; try discriminate.
    destruct (Ip blk off eq_refl) as (bk & F & In). pose proof (rc_inh _ _ _ _ R _ _ F In) as Fc.
    unfold load in *. rewrite F in H. rewrite Fc. exact H.
  Qed.

  Lemma dims_value ph cur a c id iv r tr : RC ph cur a c ->
    index_value a (VDims id) iv = Ok (r, tr) -> index_value c (VDims id) iv = Ok (r, tr).
  Proof.
    intros R H. unfold index_value, tensor_of in *. destruct iv; try discriminate.
    destruct (Pos.eq_dec id tout) as [->|N].
    - destruct (rc_tout _ _ _ _ R) as (tsa & tsc & F1 & F2 & D & _). rewrite F1 in H. rewrite F2.
      cbn [bind] in *. now rewrite <- D.
    - destruct (rc_tn _ _ _ _ R id N) as [Q _]. now rewrite <- Q.
  Qed.

  Lemma eval_C0 ph cur a c e : RC ph cur a c -> sexpC rl U false e = true ->
    forall r, eval a e = Ok r -> eval c e = Ok r.
  Proof.
    intros R. induction e; simpl sexpC; intros S r H; try discriminate; try exact H.
    - (* Var *)
      split_andb. destruct r as [v t]. cbn [eval] in *. now rewrite <- (rc_env _ _ _ _ R name ltac:(assumption)).
    - (* ArrayIndex *)
      destruct e1 as [p| tgt at0 | | | | | | | | | | | | | | | | | | | |]; try discriminate.
      + apply andb_prop in S. destruct S as [S1 S2]. rewrite orb_false_r in S1. split_andb.
        rewrite eval_idx_unf in *.
        destruct (eval a (Var p)) as [[w t1]|] eqn:Ep; try discriminate. cbn [bind] in H.
        destruct (eval a e2) as [[iv t2]|] eqn:Ei; try discriminate. cbn [bind] in H.
        destruct (index_value a w iv) as [[x t3]|] eqn:IX; try discriminate.
        destruct (eval_var_inv _ _ _ _ Ep) as (ty & L & Ty & ->).
        assert (Ec : eval c (Var p) = Ok (w, [])).
        { cbn [eval]. rewrite <- (rc_env _ _ _ _ R p ltac:(assumption)), L, Ty. reflexivity. }
        rewrite Ec, (IHe2 S2 _ eq_refl). cbn [bind].
        assert (Hin : inP p = true) by (unfold inP; assumption).
        rewrite (load_input _ _ _ _ _ _ _ _ _ _ R Hin L Ty IX). exact H.
      + destruct tgt; try discriminate. split_andb.
        match goal with Hq : String.eqb at0 _ = true |- _ => apply String.eqb_eq in Hq; subst at0 end.
        rewrite eval_idx_unf, eval_attr_unf in *.
        destruct (eval a (Var name)) as [[w t1]|] eqn:Ep; try discriminate. cbn [bind] in H.
        destruct (eval_var_inv _ _ _ _ Ep) as (ty & L & Ty & ->).
        assert (Ec : eval c (Var name) = Ok (w, [])).
        { cbn [eval]. rewrite <- (rc_env _ _ _ _ R name ltac:(assumption)), L, Ty. reflexivity. }
        rewrite Ec. cbn [bind].
        destruct (attribute_value a w "dimensions") as [d|] eqn:AV; try discriminate. cbn [bind] in H.
        unfold attribute_value in AV. destruct w; try discriminate. simpl in AV. inv AV.
        unfold attribute_value. simpl String.eqb. cbn [bind].
        destruct (eval a e2) as [[iv t2]|] eqn:Ei; try discriminate. cbn [bind] in H.
        rewrite (IHe2 ltac:(assumption) _ eq_refl). cbn [bind].
        destruct (index_value a (VDims t) iv) as [[x t3]|] eqn:IX; try discriminate.
        rewrite (dims_value _ _ _ _ _ _ _ _ R IX). exact H.
    all: try (apply andb_prop in S; destruct S as [S1 S2]; cbn [eval] in *; unfold bin2 in *;
              destruct (eval a e1) as [[x t1]|] eqn:E1; [|discriminate H];
              rewrite (IHe1 S1 _ eq_refl); cbn [bind] in *;
              try (destruct (as_bool x) as [[|]|]; cbn [bind] in *; try exact H);
              destruct (eval a e2) as [[y t2]|] eqn:E2; [|discriminate H];
              rewrite (IHe2 S2 _ eq_refl); exact H).
    (* BooleanToInteger *)
    cbn [eval] in *. destruct (eval a e) as [[x t1]|] eqn:E1; [|discriminate H].
    rewrite (IHe S _ eq_refl). exact H.
  Qed.

End CMP.
