(** Finite sums and products in a commutative ring; iterated sums over index valuations. *)
From Coq Require Import ZArith List Bool String Permutation Ring_theory Ring Lia.
From TV Require Import spec.Storage spec.Spec.
Import ListNotations.

Lemma ZOps_ok : ring_ok ZOps.
Proof.
  unfold ring_ok, ZOps; simpl.
  constructor; intros; try ring.
Qed.

Section Sums.
Variable O : ringops.
Hypothesis Oth : ring_ok O.
Let Oth' : ring_theory (@r0 O) (@r1 O) (@radd O) (@rmul O) (@rsub O) (@ropp O) (@eq O) := Oth.
Add Ring Oring : Oth'.

Local Infix "+!" := radd (at level 50, left associativity).
Local Infix "*!" := rmul (at level 40, left associativity).
Local Notation "0!" := (@r0 O).
Local Notation "1!" := (@r1 O).

Lemma rsum_app : forall l l' : list O, rsum (l ++ l') = rsum l +! rsum l'.
Proof. induction l; intros; simpl; [ring | rewrite IHl; ring]. Qed.

Lemma rsum_perm : forall l l' : list O, Permutation l l' -> rsum l = rsum l'.
Proof.
  induction 1; simpl; [reflexivity | congruence | ring | congruence].
Qed.

Lemma rsum_map_ext : forall (A : Type) (f g : A -> O) l,
  (forall x, In x l -> f x = g x) -> rsum (map f l) = rsum (map g l).
Proof.
  induction l; intros H; simpl; auto.
  rewrite H by (left; auto). rewrite IHl; auto. intros; apply H; right; auto.
Qed.

Lemma rsum_map_add : forall (A : Type) (f g : A -> O) l,
  rsum (map (fun x => f x +! g x) l) = rsum (map f l) +! rsum (map g l).
Proof. induction l; simpl; [ring | rewrite IHl; ring]. Qed.

Lemma rsum_map_mul_r : forall (A : Type) (f : A -> O) c l,
  rsum (map (fun x => f x *! c) l) = rsum (map f l) *! c.
Proof. induction l; simpl; [ring | rewrite IHl; ring]. Qed.

Lemma rsum_map_mul_l : forall (A : Type) (f : A -> O) c l,
  rsum (map (fun x => c *! f x) l) = c *! rsum (map f l).
Proof. induction l; simpl; [ring | rewrite IHl; ring]. Qed.

Lemma rsum_map_opp : forall (A : Type) (f : A -> O) l,
  rsum (map (fun x => ropp (f x)) l) = ropp (rsum (map f l)).
Proof. induction l; simpl; [ring | rewrite IHl; ring]. Qed.

Lemma rsum_map_sgn : forall (A : Type) b (f : A -> O) l,
  rsum (map (fun x => sgn b (f x)) l) = sgn b (rsum (map f l)).
Proof. destruct b; simpl; intros; [apply rsum_map_opp | reflexivity]. Qed.

Lemma rsum_map_zero : forall (A : Type) (l : list A), rsum (map (fun _ => 0!) l) = 0!.
Proof. induction l; simpl; [reflexivity | rewrite IHl; ring]. Qed.

Lemma rsum_flat_map : forall (A : Type) (f : A -> list O) l,
  rsum (flat_map f l) = rsum (map (fun x => rsum (f x)) l).
Proof. induction l; simpl; auto. rewrite rsum_app, IHl; auto. Qed.

(** Interchange of two finite sums. *)
Lemma rsum_swap : forall (A B : Type) (g : A -> B -> O) la lb,
  rsum (map (fun x => rsum (map (fun y => g x y) lb)) la)
  = rsum (map (fun y => rsum (map (fun x => g x y) la)) lb).
Proof.
  induction la; intros; simpl.
  - rewrite rsum_map_zero; reflexivity.
  - rewrite IHla. rewrite <- rsum_map_add. reflexivity.
Qed.

Lemma rsum_map_rsum : forall (A B : Type) (g : A -> B -> O) la lb,
  rsum (map (fun x => rsum (map (g x) lb)) la)
  = rsum (map (fun y => rsum (map (fun x => g x y) la)) lb).
Proof. intros; apply rsum_swap. Qed.

Lemma sgn_add : forall b (x y : O), sgn b (x +! y) = sgn b x +! sgn b y.
Proof. destruct b; simpl; intros; ring. Qed.

Lemma sgn_mul_l : forall b (x y : O), sgn b x *! y = sgn b (x *! y).
Proof. destruct b; simpl; intros; ring. Qed.

Lemma sgn_mul_r : forall b (x y : O), x *! sgn b y = sgn b (x *! y).
Proof. destruct b; simpl; intros; ring. Qed.

Lemma sgn_sgn : forall a b (x : O), sgn a (sgn b x) = sgn (xorb a b) x.
Proof. destruct a, b; simpl; intros; ring. Qed.

Lemma sgn_negb : forall b (x : O), sgn (negb b) x = ropp (sgn b x).
Proof. destruct b; simpl; intros; ring. Qed.

Lemma sgn_zero : forall b, sgn (O := O) b 0! = 0!.
Proof. destruct b; simpl; ring. Qed.

Lemma rprod_app : forall l l' : list O, rprod (l ++ l') = rprod l *! rprod l'.
Proof. induction l; intros; simpl; [ring | rewrite IHl; ring]. Qed.

Lemma of_Z_m1 : @of_Z O (-1) = ropp 1!.
Proof. reflexivity. Qed.

Lemma of_Z_m1_mul : forall x : O, of_Z (-1) *! x = ropp x.
Proof. intros; rewrite of_Z_m1; ring. Qed.

(** * Valuations *)

Definition veq (rho rho' : val) : Prop := forall x, rho x = rho' x.

Definition agree_on (D : list string) (rho rho' : val) : Prop :=
  forall x, In x D -> rho x = rho' x.

(** [f] reads the valuation only at the indexes in [D]. *)
Definition depends_on (D : list string) (f : val -> O) : Prop :=
  forall rho rho', agree_on D rho rho' -> f rho = f rho'.

Definition val_ext (f : val -> O) : Prop :=
  forall rho rho', veq rho rho' -> f rho = f rho'.

Lemma depends_on_ext : forall D f, depends_on D f -> val_ext f.
Proof. intros D f H rho rho' E. apply H. intros x _. apply E. Qed.

Lemma depends_on_incl : forall D D' f, incl D D' -> depends_on D f -> depends_on D' f.
Proof. intros D D' f Hi H rho rho' A. apply H. intros x Hx. apply A, Hi, Hx. Qed.

Lemma upd_same : forall rho k v, upd rho k v k = v.
Proof. intros; unfold upd; rewrite String.eqb_refl; reflexivity. Qed.

Lemma upd_other : forall rho k v x, x <> k -> upd rho k v x = rho x.
Proof. intros; unfold upd. destruct (String.eqb_spec x k); congruence. Qed.

Lemma upd_agree : forall D rho rho' k v,
  agree_on D rho rho' -> agree_on D (upd rho k v) (upd rho' k v).
Proof.
  intros D rho rho' k v A x Hx. unfold upd.
  destruct (String.eqb x k); auto.
Qed.

Lemma upd_veq : forall rho rho' k v, veq rho rho' -> veq (upd rho k v) (upd rho' k v).
Proof. intros rho rho' k v E x. unfold upd. destruct (String.eqb x k); auto. Qed.

Lemma upd_comm : forall rho k v j w, k <> j -> veq (upd (upd rho k v) j w) (upd (upd rho j w) k v).
Proof.
  intros rho k v j w N x. unfold upd.
  destruct (String.eqb_spec x j), (String.eqb_spec x k); subst; congruence.
Qed.

Lemma upd_agree_notin : forall D rho k v, ~ In k D -> agree_on D (upd rho k v) rho.
Proof.
  intros D rho k v N x Hx. apply upd_other. intro; subst; auto.
Qed.

(** * Iterated sums *)

Variable sizes : string -> Z.
Local Notation sum_over := (sum_over (O := O) sizes).

Lemma sum_over_ext : forall ks f g rho,
  (forall r, f r = g r) -> sum_over ks f rho = sum_over ks g rho.
Proof.
  induction ks; intros; simpl; auto.
  apply rsum_map_ext; intros; apply IHks; auto.
Qed.

Lemma sum_over_depends : forall D ks f, depends_on D f -> depends_on D (sum_over ks f).
Proof.
  intros D ks; induction ks; intros f H rho rho' A; simpl.
  - apply H, A.
  - apply rsum_map_ext; intros. apply IHks; auto. apply upd_agree, A.
Qed.

Lemma sum_over_val_ext : forall ks f, val_ext f -> val_ext (sum_over ks f).
Proof.
  induction ks; intros f H rho rho' E; simpl.
  - apply H, E.
  - apply rsum_map_ext; intros. apply IHks; auto. apply upd_veq, E.
Qed.

(** Weaker extensionality: the integrands agree on every valuation that agrees with [rho]
    outside [ks]. *)
Lemma sum_over_ext_strong : forall ks f g rho,
  (forall r, (forall x, ~ In x ks -> r x = rho x) -> f r = g r) ->
  sum_over ks f rho = sum_over ks g rho.
Proof.
  induction ks; intros f g rho H; simpl.
  - apply H; auto.
  - apply rsum_map_ext; intros v _. apply IHks. intros r Hr. apply H.
    intros x Hx. rewrite Hr by (intro; apply Hx; right; auto).
    apply upd_other. intro; subst; apply Hx; left; auto.
Qed.

Lemma sum_over_add : forall ks f g rho,
  sum_over ks (fun r => f r +! g r) rho = sum_over ks f rho +! sum_over ks g rho.
Proof.
  induction ks; intros; simpl; auto.
  rewrite <- rsum_map_add. apply rsum_map_ext; intros; apply IHks.
Qed.

Lemma sum_over_opp : forall ks f rho,
  sum_over ks (fun r => ropp (f r)) rho = ropp (sum_over ks f rho).
Proof.
  induction ks; intros; simpl; auto.
  rewrite <- rsum_map_opp. apply rsum_map_ext; intros; apply IHks.
Qed.

Lemma sum_over_sgn : forall b ks f rho,
  sum_over ks (fun r => sgn b (f r)) rho = sgn b (sum_over ks f rho).
Proof. destruct b; simpl; intros; [apply sum_over_opp | reflexivity]. Qed.

Lemma sum_over_zero : forall ks rho, sum_over ks (fun _ => 0!) rho = 0!.
Proof.
  induction ks; intros; simpl; auto.
  transitivity (rsum (map (fun _ : Z => 0!) (zrange (sizes a)))).
  - apply rsum_map_ext; intros; apply IHks.
  - apply rsum_map_zero.
Qed.

(** Linearity over a finite family of integrands. *)
Lemma sum_over_rsum : forall (A : Type) (F : A -> val -> O) l ks rho,
  sum_over ks (fun r => rsum (map (fun x => F x r) l)) rho
  = rsum (map (fun x => sum_over ks (F x) rho) l).
Proof.
  induction l; intros; simpl.
  - apply sum_over_zero.
  - rewrite sum_over_add, IHl. reflexivity.
Qed.

Lemma sum_over_app : forall ks ks' f rho,
  sum_over (ks ++ ks') f rho = sum_over ks (sum_over ks' f) rho.
Proof.
  induction ks; intros; simpl; auto.
  apply rsum_map_ext; intros; apply IHks.
Qed.

(** Fubini: the order of the summation indexes does not matter. *)
Lemma sum_over_perm : forall ks ks', Permutation ks ks' -> NoDup ks ->
  forall f rho, val_ext f -> sum_over ks f rho = sum_over ks' f rho.
Proof.
  induction 1; intros ND f rho Hf.
  - reflexivity.
  - simpl. apply rsum_map_ext; intros. apply IHPermutation; auto. inversion ND; auto.
  - simpl. rewrite rsum_swap. apply rsum_map_ext; intros v _.
    apply rsum_map_ext; intros w _.
    apply sum_over_val_ext; auto.
    apply upd_comm. inversion ND; subst. intro; subst; apply H1; left; auto.
  - rewrite IHPermutation1; auto. apply IHPermutation2; auto.
    eapply Permutation_NoDup; eauto.
Qed.

(** A factor that does not read the summation indexes comes out of the sum. *)
Lemma sum_over_mul_r : forall D g, depends_on D g ->
  forall ks, (forall k, In k ks -> ~ In k D) ->
  forall f rho, sum_over ks (fun r => f r *! g r) rho = sum_over ks f rho *! g rho.
Proof.
  intros D g Hg; induction ks; intros Hd f rho; simpl; auto.
  rewrite <- rsum_map_mul_r. apply rsum_map_ext; intros v _.
  rewrite IHks by (intros; apply Hd; right; auto).
  f_equal. apply Hg. apply upd_agree_notin. apply Hd; left; auto.
Qed.

Lemma sum_over_mul_l : forall D g, depends_on D g ->
  forall ks, (forall k, In k ks -> ~ In k D) ->
  forall f rho, sum_over ks (fun r => g r *! f r) rho = g rho *! sum_over ks f rho.
Proof.
  intros D g Hg; induction ks; intros Hd f rho; simpl; auto.
  rewrite <- rsum_map_mul_l. apply rsum_map_ext; intros v _.
  rewrite IHks by (intros; apply Hd; right; auto).
  f_equal. apply Hg. apply upd_agree_notin. apply Hd; left; auto.
Qed.

(** Product of two independent iterated sums. *)
Lemma sum_over_product : forall Df Dg f g ksf ksg,
  depends_on Df f -> depends_on Dg g ->
  (forall k, In k ksf -> ~ In k Dg) ->
  (forall k, In k ksg -> ~ In k Df) ->
  forall rho,
  sum_over ksf f rho *! sum_over ksg g rho
  = sum_over (ksf ++ ksg) (fun r => f r *! g r) rho.
Proof.
  intros Df Dg f g ksf ksg Hf Hg Hfg Hgf rho.
  rewrite sum_over_app.
  rewrite <- (sum_over_mul_r Dg (sum_over ksg g)); auto.
  2:{ apply sum_over_depends; auto. }
  apply sum_over_ext; intros r.
  symmetry. apply (sum_over_mul_l Df f); auto.
Qed.

End Sums.
