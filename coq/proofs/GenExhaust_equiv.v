(** TIE -- the definitions regenerated from
      iteration_graph/identifiable_expression/{ast,_exhaust_tensor,_extract_context}.py
    (gen/ExhaustAst.v, gen/Exhaust.v) are equal to the hand models model/Exhaust.v (C01) and
    model/Context.v (C16).  Unbounded, by induction on the expression.

    The proofs only use the shape "one arm per class, same tests in the same order"; they are
    written with case-splitting tactics so that renaming a local variable or reordering two
    independent statements of the Python source does not break them, while any change of a
    result does. *)

From Coq Require Import ZArith List Bool String Lia.
From TV Require Import spec.Num spec.PyBase spec.PyLib spec.Spec proofs.PyLibFacts.
From TV Require gen.ExhaustAst gen.Exhaust model.Exhaust model.Context.
Import ListNotations.

Module GA := TV.gen.ExhaustAst.
Module G := TV.gen.Exhaust.
Module ME := TV.model.Exhaust.
Module MC := TV.model.Context.

Ltac split_ifs :=
  repeat match goal with
         | |- context [if ?c then _ else _] => destruct c eqn:?
         | |- context [match ?c with (_, _) => _ end] => destruct c eqn:?
         end.

(* ------------------------------------------------------------------------------------------ *)
(** * conversion: generated inductive -> model/Exhaust.v; the float payload through any [fl] *)

Section Conv.
Variable R : Type.
Variable fl : F -> R.

Definition conv_mode (m : GA.Mode) : ME.mode :=
  match m with GA.Mode_dense => ME.MDense | GA.Mode_compressed => ME.MCompressed end.

Fixpoint conv (e : GA.id_expr) : ME.iexpr R :=
  match e with
  | GA.IdInteger z => ME.IInt z
  | GA.IdFloat f => ME.IFloat (fl f)
  | GA.IdTensor id name idx modes => ME.ITensor id name idx (map conv_mode modes)
  | GA.IdAdd a b => ME.IAdd (conv a) (conv b)
  | GA.IdMultiply a b => ME.IMul (conv a) (conv b)
  end.

Definition conv_res (p : GA.id_expr * bool) : ME.iexpr R * bool := (conv (fst p), snd p).

Lemma eqb_int0 : forall x, GA.id_expr_eqb x (GA.IdInteger 0) = ME.is_int0 (conv x).
Proof. destruct x; reflexivity. Qed.

(** ** exhaust_tensor *)
Theorem gen_exhaust_equiv : forall (e : GA.id_expr) (t : string),
  conv_res (G.exhaust_tensor e t) = ME.exhaust_aux (conv e) t.
Proof.
  induction e; intros t; cbn [G.exhaust_tensor conv ME.exhaust_aux]; unfold conv_res in *.
  - reflexivity.
  - reflexivity.
  - destruct (String.eqb id t); reflexivity.
  - rewrite <- IHe1, <- IHe2.
    destruct (G.exhaust_tensor e1 t) as [a sa]; destruct (G.exhaust_tensor e2 t) as [b sb].
    cbn [fst snd]. rewrite <- !eqb_int0. split_ifs; reflexivity.
  - rewrite <- IHe1, <- IHe2.
    destruct (G.exhaust_tensor e1 t) as [a sa]; destruct (G.exhaust_tensor e2 t) as [b sb].
    cbn [fst snd]. rewrite <- !eqb_int0. split_ifs; reflexivity.
Qed.

Corollary gen_exhaust_value_equiv : forall e t,
  conv (fst (G.exhaust_tensor e t)) = ME.exhaust (conv e) t.
Proof. intros. unfold ME.exhaust. rewrite <- gen_exhaust_equiv. reflexivity. Qed.

(** ** extract_context *)
Definition conv_leaf (l : GA.TensorLayer) : ME.leaf :=
  match l with
  | GA.MkTensorLayer (GA.IdTensor id _ _ _) n => (id, Z.to_nat n)
  | GA.MkTensorLayer _ n => (EmptyString, Z.to_nat n)
  end.

Definition conv_ctx (c : GA.Context) : ME.context :=
  ME.mkContext (GA.Context_is_sparse c) (map conv_leaf (GA.Context_sparse_leaves c))
               (map conv_leaf (GA.Context_dense_leaves c)).

Lemma conv_ctx_add : forall x y, conv_ctx (G.Context_add x y) = ME.ctx_add (conv_ctx x) (conv_ctx y).
Proof. intros [a b c d] [a' b' c' d']. unfold conv_ctx, ME.ctx_add. simpl. rewrite !map_app. reflexivity. Qed.

Lemma conv_ctx_mul : forall x y, conv_ctx (G.Context_multiply x y) = ME.ctx_mul (conv_ctx x) (conv_ctx y).
Proof. intros [a b c d] [a' b' c' d']. unfold conv_ctx, ME.ctx_mul. simpl. rewrite !map_app. reflexivity. Qed.

Lemma py_index_model : forall idx k,
  py_index String.eqb idx k = option_map Z.of_nat (ME.index_of_str k idx).
Proof.
  intros idx k. unfold py_index. induction idx as [|x r IH]; simpl; [reflexivity|].
  destruct (String.eqb x k); [reflexivity|].
  rewrite py_index_from_shift, IH. destruct (ME.index_of_str k r); simpl; [f_equal; lia | reflexivity].
Qed.

Variable is_zero : R -> bool.
Hypothesis is_zero_fl : forall f, is_zero (fl f) = Feqb f F0.

Theorem gen_context_equiv : forall (e : GA.id_expr) (k : string),
  option_map conv_ctx (G.extract_context e k) = ME.extract_context is_zero (conv e) k.
Proof.
  induction e; intros k; cbn [G.extract_context conv ME.extract_context].
  - cbn [GA.id_expr_eqb]. rewrite orb_false_r. destruct (Z.eqb value 0); reflexivity.
  - cbn [GA.id_expr_eqb]. rewrite is_zero_fl. cbn [orb]. destruct (Feqb value F0); reflexivity.
  - rewrite py_index_model. destruct (ME.index_of_str k indexes) as [n|]; cbn [option_map]; [|reflexivity].
    rewrite py_getitem_of_nat, nth_error_map.
    destruct (nth_error modes n) as [[|]|]; cbn [option_map conv_mode GA.Mode_eqb];
      unfold conv_ctx; simpl; rewrite ?Nat2Z.id; reflexivity.
  - rewrite <- IHe1, <- IHe2.
    destruct (G.extract_context e1 k), (G.extract_context e2 k); cbn [option_map]; try reflexivity.
    rewrite conv_ctx_add. reflexivity.
  - rewrite <- IHe1, <- IHe2.
    destruct (G.extract_context e1 k), (G.extract_context e2 k); cbn [option_map]; try reflexivity.
    rewrite conv_ctx_mul. reflexivity.
Qed.

End Conv.

(** the flag "result IS the argument" is sound: when Python's [is] test can hold, the value is
    the argument (so translating [is] by this flag never claims an identity that is not even an
    equality) *)
Theorem gen_exhaust_flag_sound : forall e t,
  snd (G.exhaust_tensor e t) = true -> fst (G.exhaust_tensor e t) = e.
Proof.
  induction e; intros t; cbn [G.exhaust_tensor]; try reflexivity.
  - destruct (String.eqb id t); simpl; [discriminate | reflexivity].
  - specialize (IHe1 t). specialize (IHe2 t).
    destruct (G.exhaust_tensor e1 t) as [a sa]; destruct (G.exhaust_tensor e2 t) as [b sb].
    split_ifs; simpl; try discriminate; reflexivity.
  - specialize (IHe1 t). specialize (IHe2 t).
    destruct (G.exhaust_tensor e1 t) as [a sa]; destruct (G.exhaust_tensor e2 t) as [b sb].
    split_ifs; simpl; try discriminate; reflexivity.
Qed.

(** ... and complete: a result that is (Leibniz-)equal to the argument is flagged.  Together: on
    these trees Python's [result is e] holds exactly when the result equals [e]; no tree of the
    family is rebuilt unchanged. *)
Fixpoint size (e : GA.id_expr) : nat :=
  match e with
  | GA.IdAdd a b | GA.IdMultiply a b => S (size a + size b)
  | _ => 1
  end.

Lemma exhaust_size : forall e t, (size (fst (G.exhaust_tensor e t)) <= size e)%nat.
Proof.
  induction e; intros t; cbn [G.exhaust_tensor]; try (simpl; lia).
  - destruct (String.eqb id t); simpl; lia.
  - specialize (IHe1 t). specialize (IHe2 t).
    destruct (G.exhaust_tensor e1 t) as [a sa]; destruct (G.exhaust_tensor e2 t) as [b sb].
    cbn [fst] in *. split_ifs; cbn [fst size]; lia.
  - specialize (IHe1 t). specialize (IHe2 t).
    destruct (G.exhaust_tensor e1 t) as [a sa]; destruct (G.exhaust_tensor e2 t) as [b sb].
    cbn [fst] in *. split_ifs; cbn [fst size]; lia.
Qed.

(** the converse of [gen_exhaust_flag_sound]: a result equal to the argument IS the argument *)
Theorem gen_exhaust_flag_complete : forall e t,
  fst (G.exhaust_tensor e t) = e -> snd (G.exhaust_tensor e t) = true.
Proof.
  induction e; intros t; cbn [G.exhaust_tensor]; try reflexivity.
  - destruct (String.eqb id t); simpl; [discriminate | reflexivity].
  - pose proof (exhaust_size e1 t) as S1. pose proof (exhaust_size e2 t) as S2.
    specialize (IHe1 t). specialize (IHe2 t).
    destruct (G.exhaust_tensor e1 t) as [a sa]; destruct (G.exhaust_tensor e2 t) as [b sb].
    cbn [fst snd] in *. split_ifs; cbn [fst snd]; intros H; try reflexivity;
      try (exfalso; subst; cbn [size] in *; lia).
    inversion H; subst. rewrite (IHe1 eq_refl), (IHe2 eq_refl) in *. discriminate.
  - pose proof (exhaust_size e1 t) as S1. pose proof (exhaust_size e2 t) as S2.
    specialize (IHe1 t). specialize (IHe2 t).
    destruct (G.exhaust_tensor e1 t) as [a sa]; destruct (G.exhaust_tensor e2 t) as [b sb].
    cbn [fst snd] in *. split_ifs; cbn [fst snd]; intros H; try reflexivity; try discriminate.
    inversion H; subst. rewrite (IHe1 eq_refl), (IHe2 eq_refl) in *. discriminate.
Qed.

(* ------------------------------------------------------------------------------------------ *)
(** * the [is_sparse] projection against model/Context.v (C16) *)

Definition conv_mode16 (m : GA.Mode) : MC.mode :=
  match m with GA.Mode_dense => MC.Dense | GA.Mode_compressed => MC.Compressed end.

Fixpoint conv16 (e : GA.id_expr) : MC.iexpr :=
  match e with
  | GA.IdInteger z => if Z.eqb z 0 then MC.ILitZero else MC.ILit
  | GA.IdFloat f => if Feqb f F0 then MC.ILitZero else MC.ILit
  | GA.IdTensor _ _ idx modes => MC.ITensor (combine idx (map conv_mode16 modes))
  | GA.IdAdd a b => MC.IAdd (conv16 a) (conv16 b)
  | GA.IdMultiply a b => MC.IMul (conv16 a) (conv16 b)
  end.

Lemma level_of_combine : forall k idx (ms : list GA.Mode) i,
  match py_index_from String.eqb idx k i with
  | None => MC.level_of k (combine idx (map conv_mode16 ms)) = None
  | Some z => forall m, nth_error ms (Z.to_nat (z - i)) = Some m ->
                        MC.level_of k (combine idx (map conv_mode16 ms)) = Some (conv_mode16 m)
  end.
Proof.
  induction idx as [|x r IH]; intros ms i; simpl; [reflexivity|].
  destruct (String.eqb x k) eqn:E.
  - rewrite Z.sub_diag. destruct ms as [|m0 ms]; simpl; [discriminate|].
    intros m H; inversion H; subst. rewrite E. reflexivity.
  - destruct ms as [|m0 ms].
    + simpl. destruct (py_index_from String.eqb r k (i + 1)) eqn:P; [|reflexivity].
      intros m H. destruct (Z.to_nat (z - i)); discriminate.
    + specialize (IH ms (i + 1)%Z). simpl. rewrite E.
      destruct (py_index_from String.eqb r k (i + 1)) eqn:P; [|exact IH].
      intros m H. apply IH.
      assert (L : (i + 1 <= z)%Z).
      { rewrite py_index_from_shift in P. destruct (py_index_from String.eqb r k 0) eqn:Q; [|discriminate].
        simpl in P. inversion P. pose proof (py_index_nonneg String.eqb r k z0 Q). lia. }
      replace (Z.to_nat (z - i)) with (S (Z.to_nat (z - (i + 1)))) in H by lia. exact H.
Qed.

Theorem gen_is_sparse_equiv : forall (e : GA.id_expr) (k : string) (c : GA.Context),
  G.extract_context e k = Some c -> GA.Context_is_sparse c = MC.is_sparse (conv16 e) k.
Proof.
  induction e; intros k c; cbn [G.extract_context conv16 MC.is_sparse].
  - cbn [GA.id_expr_eqb]. rewrite orb_false_r. destruct (Z.eqb value 0); intros H; inversion H; reflexivity.
  - cbn [GA.id_expr_eqb orb]. destruct (Feqb value F0); intros H; inversion H; reflexivity.
  - pose proof (level_of_combine k indexes modes 0) as L.
    destruct (py_index String.eqb indexes k) as [z|] eqn:P; unfold py_index in P; rewrite P in L.
    + rewrite Z.sub_0_r in L.
      pose proof (py_index_nonneg String.eqb indexes k z P) as Hz.
      destruct (py_getitem modes z) as [m|] eqn:Gm; [|discriminate].
      unfold py_getitem in Gm. destruct (0 <=? z)%Z eqn:E; [|apply Z.leb_gt in E; lia].
      rewrite (L m Gm).
      destruct m; cbn [GA.Mode_eqb conv_mode16]; intros H; inversion H; reflexivity.
    + rewrite L. intros H; inversion H; reflexivity.
  - destruct (G.extract_context e1 k) as [x|] eqn:E1; [|discriminate].
    destruct (G.extract_context e2 k) as [y|] eqn:E2; [|discriminate].
    intros H; inversion H. rewrite <- (IHe1 k x E1), <- (IHe2 k y E2).
    destruct x, y; reflexivity.
  - destruct (G.extract_context e1 k) as [x|] eqn:E1; [|discriminate].
    destruct (G.extract_context e2 k) as [y|] eqn:E2; [|discriminate].
    intros H; inversion H. rewrite <- (IHe1 k x E1), <- (IHe2 k y E2).
    destruct x, y; reflexivity.
Qed.

(** every index has a mode: the constructor invariant of the real [Tensor] objects *)
Fixpoint wf_modes (e : GA.id_expr) : bool :=
  match e with
  | GA.IdTensor _ _ idx modes => Nat.leb (List.length idx) (List.length modes)
  | GA.IdAdd a b | GA.IdMultiply a b => wf_modes a && wf_modes b
  | _ => true
  end.

(** on such expressions extract_context raises no exception *)
Theorem gen_context_total : forall e k, wf_modes e = true -> exists c, G.extract_context e k = Some c.
Proof.
  induction e; intros k W; cbn [G.extract_context]; cbn [wf_modes] in W.
  - split_ifs; eexists; reflexivity.
  - split_ifs; eexists; reflexivity.
  - destruct (py_index String.eqb indexes k) as [z|] eqn:P; [|eexists; reflexivity].
    apply py_index_nonneg in P. apply Nat.leb_le in W.
    unfold py_getitem. destruct (0 <=? z)%Z eqn:E; [|apply Z.leb_gt in E; lia].
    destruct (nth_error modes (Z.to_nat z)) eqn:N.
    + split_ifs; eexists; reflexivity.
    + apply nth_error_None in N. lia.
  - apply andb_true_iff in W as [W1 W2].
    destruct (IHe1 k W1) as [x ->]. destruct (IHe2 k W2) as [y ->]. eexists; reflexivity.
  - apply andb_true_iff in W as [W1 W2].
    destruct (IHe1 k W1) as [x ->]. destruct (IHe2 k W2) as [y ->]. eexists; reflexivity.
Qed.

(* ------------------------------------------------------------------------------------------ *)
(** * theorems of C01 / C16 carried over to the regenerated functions *)

From TV Require proofs.ExhaustProofs proofs.ContextLemmas.

(** C01_exhaust_sound: zeroing a tensor with the regenerated [exhaust_tensor] is evaluating with
    that leaf reading 0 -- in every commutative ring, for every reading [fl] of float literals *)
Theorem gen_exhaust_sound : forall (O : ringops), ring_ok O ->
  forall (fl : F -> O) (e : GA.id_expr) (t : string) (sigma : string -> O),
    ME.evalE sigma (conv O fl (fst (G.exhaust_tensor e t))) = ME.evalE (ME.zeroed sigma t) (conv O fl e).
Proof.
  intros O HO fl e t sigma. rewrite gen_exhaust_value_equiv.
  apply TV.proofs.ExhaustProofs.exhaust_sound. exact HO.
Qed.

(** C01_sparse_context_sound: where every sparse leaf of the regenerated context reads 0, the
    expression is 0.  [is_zero] is the model's zero test on the ring; it has to agree with
    Python's [== Float(0.0)] on the readings of float literals. *)
Theorem gen_sparse_context_sound : forall (O : ringops), ring_ok O ->
  forall (is_zero : O -> bool), (forall r, is_zero r = true -> r = r0) ->
  forall (fl : F -> O), (forall f, is_zero (fl f) = Feqb f F0) ->
  forall (e : GA.id_expr) (k : string) (c : GA.Context) (sigma : string -> O),
    G.extract_context e k = Some c ->
    GA.Context_is_sparse c = true ->
    (forall l, In l (GA.Context_sparse_leaves c) -> sigma (fst (conv_leaf l)) = r0) ->
    ME.evalE sigma (conv O fl e) = r0.
Proof.
  intros O HO is_zero Hz fl Hfl e k c sigma E S L.
  pose proof (gen_context_equiv O fl is_zero Hfl e k) as Q. rewrite E in Q. cbn [option_map] in Q.
  eapply (TV.proofs.ExhaustProofs.sparse_context_sound O HO is_zero Hz); [symmetry; exact Q | exact S |].
  intros l Hl. cbn [conv_ctx ME.sparse_leaves] in Hl. apply in_map_iff in Hl as [x [<- Hx]]. apply L, Hx.
Qed.

(** C16_condition_implies_sparse_context: under the property's condition the regenerated
    [extract_context] answers "sparse" *)
Theorem gen_condition_implies_sparse : forall (e : GA.id_expr) (k : string) (c : GA.Context),
  MC.only_compressed (conv16 e) k = true -> MC.every_term_mentions (conv16 e) k = true ->
  G.extract_context e k = Some c -> GA.Context_is_sparse c = true.
Proof.
  intros e k c H1 H2 E. rewrite (gen_is_sparse_equiv e k c E).
  apply TV.proofs.ContextLemmas.cond_implies_sparse; assumption.
Qed.
