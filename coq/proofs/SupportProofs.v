(** Facts about the structural-support semantics (spec/Support.v), closed under the global context:
    what the boolean definitions mean ([supportb_spec], [assignments_spec], [level_support_spec],
    [no_phantomb_spec]), monotonicity, empty operands, and soundness with respect to the value
    semantics [value] (a non-zero value implies support). *)

From Coq Require Import ZArith List Bool String Lia ZifyBool.
From TV Require Import spec.Storage proofs.StorageLemmas spec.Support.
Import ListNotations.
Open Scope Z_scope.

(** * plumbing *)

Lemma zl_eqb_eq a : forall b, zl_eqb a b = true <-> a = b.
Proof.
  induction a as [|x a IH]; intros [|y b]; cbn; try (split; [discriminate|discriminate]); try tauto.
  rewrite andb_true_iff, Z.eqb_eq, IH. split; [intros [-> ->]; reflexivity|intros H; inversion H; auto].
Qed.

Lemma mem_coord_In c s : mem_coord c s = true <-> In c s.
Proof.
  unfold mem_coord. rewrite existsb_exists. split.
  - intros (x & Hx & E). apply zl_eqb_eq in E. now subst.
  - intros H. exists c. split; [exact H|]. now apply zl_eqb_eq.
Qed.

Lemma completions_spec ds : forall rest,
  In rest (completions ds) <-> Forall2 (fun x d => 0 <= x < d) rest ds.
Proof.
  induction ds as [|d ds IH]; intros rest; cbn [completions].
  - split; [intros [<-|[]]; constructor|intros H; inversion H; now left].
  - rewrite in_flat_map. split.
    + intros (v & Hv & H). apply in_map_iff in H. destruct H as (r & <- & Hr).
      constructor; [now apply In_zrange|now apply IH].
    + intros H. inversion H as [|x d' r ds' Hx Hr]; subst. exists x. split; [now apply In_zrange|].
      apply in_map. now apply IH.
Qed.

Lemma assignments_spec sizes ks : forall r,
  In r (assignments ks sizes) <->
  map fst r = ks /\ Forall (fun kv => 0 <= snd kv < lookup sizes (fst kv)) r.
Proof.
  induction ks as [|k ks IH]; intros r; cbn [assignments].
  - split.
    + intros [<-|[]]. split; [reflexivity|constructor].
    + intros [H _]. destruct r; [now left|discriminate].
  - rewrite in_flat_map. split.
    + intros (v & Hv & H). apply in_map_iff in H. destruct H as (r' & <- & Hr').
      apply IH in Hr'. destruct Hr' as [E F]. cbn [map fst]. split; [now rewrite E|].
      constructor; [cbn; now apply In_zrange|exact F].
    + intros [E F]. destruct r as [|[k' v] r']; [discriminate|]. cbn [map fst] in E.
      inversion E; subst. inversion F as [|? ? Hv F']; subst. cbn in Hv.
      exists v. split; [now apply In_zrange|]. apply in_map. apply IH. split; [reflexivity|exact F'].
Qed.

(** * What the boolean definitions mean *)

Lemma supportb_spec a ins sizes c :
  supportb a ins sizes c = true <->
  exists m r, In m (monomials (a_rhs a))
              /\ In r (assignments (contracted (a_tidx a) m) sizes)
              /\ forall f, In f (snd m) -> factor_suppb ins (combine (a_tidx a) c ++ r) f = true.
Proof.
  unfold supportb, mono_supportb. rewrite existsb_exists. split.
  - intros (m & Hm & H). apply existsb_exists in H. destruct H as (r & Hr & H).
    rewrite forallb_forall in H. exists m, r. auto.
  - intros (m & r & Hm & Hr & H). exists m. split; [exact Hm|]. apply existsb_exists.
    exists r. split; [exact Hr|]. now apply forallb_forall.
Qed.

Lemma level_support_spec a ins sizes ordering k prefix :
  level_support a ins sizes ordering k prefix = true <->
  exists rest, Forall2 (fun x d => 0 <= x < d) rest (skipn k (level_sizes a sizes ordering))
               /\ supportb a ins sizes (to_dim_order ordering (prefix ++ rest)) = true.
Proof.
  unfold level_support. rewrite existsb_exists. split.
  - intros (rest & Hr & H). exists rest. split; [now apply completions_spec|exact H].
  - intros (rest & Hr & H). exists rest. split; [now apply completions_spec|exact H].
Qed.

Lemma compressed_levels_spec {V} (out : tensor V) l :
  In l (compressed_levels out) <-> exists pos crd, nth_error (levels out) l = Some (LCompressed pos crd).
Proof.
  unfold compressed_levels. rewrite filter_In, in_seq. split.
  - intros [Hl H]. destruct (nth_error (levels out) l) as [x|] eqn:E.
    + rewrite (nth_error_nth _ _ _ E) in H. destruct x as [|pos crd]; [discriminate|]. now exists pos, crd.
    + apply nth_error_None in E. lia.
  - intros (pos & crd & E). split.
    + assert (nth_error (levels out) l <> None) as H by congruence. apply nth_error_Some in H. lia.
    + now rewrite (nth_error_nth _ _ _ E).
Qed.

(** The checker run on every swept output decides: every coordinate (prefix) stored by a compressed
    level of the output has structural support. *)
Theorem no_phantomb_spec {V} a ins sizes (out : tensor V) :
  no_phantomb a ins sizes out = true <->
  (forall l pos crd, nth_error (levels out) l = Some (LCompressed pos crd) ->
     forall prefix, In prefix (stored_prefixes out (S l)) ->
       level_support a ins sizes (ordering out) (S l) prefix = true).
Proof.
  unfold no_phantomb. rewrite forallb_forall. split.
  - intros H l pos crd E prefix Hp.
    assert (In l (compressed_levels out)) as Hl by (apply compressed_levels_spec; eauto).
    specialize (H l Hl). rewrite forallb_forall in H. now apply H.
  - intros H l Hl. apply compressed_levels_spec in Hl. destruct Hl as (pos & crd & E).
    apply forallb_forall. intros prefix Hp. eapply H; eassumption.
Qed.

Lemma phantoms_nil {V} a ins sizes (out : tensor V) :
  phantoms a ins sizes out = [] <-> no_phantomb a ins sizes out = true.
Proof.
  unfold phantoms, no_phantomb. induction (compressed_levels out) as [|l ls IH]; cbn [flat_map forallb].
  - tauto.
  - rewrite andb_true_iff, <- IH. split.
    + intros H. apply app_eq_nil in H. destruct H as [H1 H2]. split; [|exact H2].
      apply forallb_forall. intros p Hp.
      destruct (level_support a ins sizes (ordering out) (S l) p) eqn:E; [reflexivity|].
      assert (In (l, p) (map (fun p => (l, p)) (filter (fun p => negb (level_support a ins sizes (ordering out) (S l) p)) (stored_prefixes out (S l))))) as Hin.
      { apply in_map. apply filter_In. split; [exact Hp|now rewrite E]. }
      rewrite H1 in Hin. destruct Hin.
    + intros [H1 H2]. rewrite H2, app_nil_r.
      rewrite forallb_forall in H1.
      destruct (filter _ _) as [|p ps] eqn:E; [reflexivity|].
      assert (In p (filter (fun p => negb (level_support a ins sizes (ordering out) (S l) p)) (stored_prefixes out (S l)))) as Hin
        by (rewrite E; now left).
      apply filter_In in Hin. destruct Hin as [Hp Hn]. rewrite (H1 p Hp) in Hn. discriminate.
Qed.

(** * More stored inputs, more support *)

Definition ins_le (ins ins' : string -> list (list Z)) : Prop :=
  forall n c, In c (ins n) -> In c (ins' n).

Lemma factor_suppb_monotone ins ins' r f :
  ins_le ins ins' -> factor_suppb ins r f = true -> factor_suppb ins' r f = true.
Proof.
  intros L. destruct f as [v|n ix]; cbn; [auto|]. rewrite !mem_coord_In. apply L.
Qed.

Theorem support_monotone a ins ins' sizes c :
  ins_le ins ins' -> supportb a ins sizes c = true -> supportb a ins' sizes c = true.
Proof.
  intros L. rewrite !supportb_spec. intros (m & r & Hm & Hr & H). exists m, r.
  repeat split; try assumption. intros f Hf. eapply factor_suppb_monotone; eauto.
Qed.

Theorem level_support_monotone a ins ins' sizes ordering k prefix :
  ins_le ins ins' -> level_support a ins sizes ordering k prefix = true ->
  level_support a ins' sizes ordering k prefix = true.
Proof.
  intros L. rewrite !level_support_spec. intros (rest & Hr & H). exists rest. split; [exact Hr|].
  eapply support_monotone; eauto.
Qed.

(** * Empty operands *)

(** If every additive term contains an operand that stores nothing at the coordinates the term
    would read (whatever the summed indexes are), there is no support at [c]. *)
Theorem support_absent_operand a ins sizes c :
  (forall m, In m (monomials (a_rhs a)) ->
     exists n ix, In (FTen n ix) (snd m)
                  /\ forall r, mem_coord (map (lookup (combine (a_tidx a) c ++ r)) ix) (ins n) = false) ->
  supportb a ins sizes c = false.
Proof.
  intros H. destruct (supportb a ins sizes c) eqn:E; [|reflexivity].
  apply supportb_spec in E. destruct E as (m & r & Hm & Hr & Hf).
  destruct (H m Hm) as (n & ix & Hin & Habs). specialize (Hf _ Hin). cbn in Hf.
  rewrite Habs in Hf. discriminate.
Qed.

Lemma monomials_mul_left n ix e m :
  In m (monomials (SMul (STensor n ix) e)) -> In (FTen n ix) (snd m).
Proof.
  cbn. rewrite app_nil_r. intros H. apply in_map_iff in H. destruct H as (m2 & <- & _).
  cbn. now left.
Qed.

Lemma monomials_mul_right n ix e m :
  In m (monomials (SMul e (STensor n ix))) -> In (FTen n ix) (snd m).
Proof.
  cbn. intros H. apply in_flat_map in H. destruct H as (m1 & _ & H). destruct H as [<-|[]].
  cbn. apply in_or_app. right. now left.
Qed.

(** A product with an operand that stores nothing has no support anywhere. *)
Theorem support_empty_factor tgt tidx n ix e ins sizes c :
  ins n = [] ->
  supportb (mkAssignment tgt tidx (SMul (STensor n ix) e)) ins sizes c = false
  /\ supportb (mkAssignment tgt tidx (SMul e (STensor n ix))) ins sizes c = false.
Proof.
  intros E. split; apply support_absent_operand; intros m Hm; exists n, ix; cbn [a_rhs] in Hm.
  - split; [now apply monomials_mul_left in Hm|]. intros r. now rewrite E.
  - split; [now apply monomials_mul_right in Hm|]. intros r. now rewrite E.
Qed.

(** [has_tensor e]: every additive term of [e] has at least one tensor factor (no literal-only
    term). *)
Definition is_ften (f : factor) : bool := match f with FTen _ _ => true | FLit _ => false end.
Definition every_term_has_tensor (e : sexpr) : bool :=
  forallb (fun m => existsb is_ften (snd m)) (monomials e).

(** An all-empty right-hand side gives empty support. *)
Theorem support_all_empty a ins sizes c :
  every_term_has_tensor (a_rhs a) = true -> (forall n, ins n = []) ->
  supportb a ins sizes c = false.
Proof.
  intros T E. apply support_absent_operand. intros m Hm.
  unfold every_term_has_tensor in T. rewrite forallb_forall in T. specialize (T m Hm).
  apply existsb_exists in T. destruct T as ([v|n ix] & Hin & Hf); [discriminate|].
  exists n, ix. split; [exact Hin|]. intros r. now rewrite E.
Qed.

(** hence nothing may be stored by a compressed level: the checker accepts only outputs whose
    compressed levels store nothing *)
Theorem no_phantomb_all_empty {V} a ins sizes (out : tensor V) :
  every_term_has_tensor (a_rhs a) = true -> (forall n, ins n = []) ->
  no_phantomb a ins sizes out = true ->
  forall l pos crd, nth_error (levels out) l = Some (LCompressed pos crd) ->
    stored_prefixes out (S l) = [].
Proof.
  intros T E H l pos crd Hl. rewrite no_phantomb_spec in H. specialize (H l pos crd Hl).
  destruct (stored_prefixes out (S l)) as [|p ps]; [reflexivity|].
  specialize (H p (or_introl eq_refl)). apply level_support_spec in H.
  destruct H as (rest & _ & H). rewrite (support_all_empty a ins sizes _ T E) in H. discriminate.
Qed.

(** * Support is sound for values: a non-zero value needs support *)

Lemma zsum_nonzero {A} (f : A -> Z) l : zsum (map f l) <> 0 -> exists x, In x l /\ f x <> 0.
Proof.
  induction l as [|x l IH]; cbn; [lia|]. intros H.
  destruct (Z.eq_dec (f x) 0) as [E|N].
  - rewrite E in H. destruct IH as (y & Hy & Hn); [lia|]. exists y. auto.
  - exists x. auto.
Qed.

Lemma zprod_nonzero {A} (f : A -> Z) l : zprod (map f l) <> 0 -> forall x, In x l -> f x <> 0.
Proof.
  induction l as [|x l IH]; cbn; [intros _ y []|]. intros H y [<-|Hy]; [nia|].
  apply IH; [nia|exact Hy].
Qed.

Lemma tval_nonzero vins n c : tval vins n c <> 0 -> mem_coord c (map fst (vins n)) = true.
Proof.
  unfold tval. intros H.
  destruct (filter (fun e => zl_eqb c (fst e)) (vins n)) as [|e es] eqn:E; [cbn in H; lia|].
  assert (In e (filter (fun e => zl_eqb c (fst e)) (vins n))) as Hin by (rewrite E; now left).
  apply filter_In in Hin. destruct Hin as [Hin Heq]. apply zl_eqb_eq in Heq.
  apply mem_coord_In. subst c. now apply in_map.
Qed.

Theorem support_sound_for_values a vins sizes c :
  value a vins sizes c <> 0 -> supportb a (fun n => map fst (vins n)) sizes c = true.
Proof.
  unfold value. intros H. apply zsum_nonzero in H. destruct H as (m & Hm & H).
  unfold mono_val in H.
  assert (zsum (map (fun r => zprod (map (factor_val vins (combine (a_tidx a) c ++ r)) (snd m)))
                    (assignments (contracted (a_tidx a) m) sizes)) <> 0) as H' by (destruct (fst m); lia).
  apply zsum_nonzero in H'. destruct H' as (r & Hr & Hp).
  apply supportb_spec. exists m, r. repeat split; try assumption.
  intros f Hf. pose proof (zprod_nonzero _ _ Hp f Hf) as Hv.
  destruct f as [v|n ix]; cbn in *; [reflexivity|]. now apply tval_nonzero.
Qed.

(** * Statements bundled for props/C03.v *)

Lemma support_spec_full a ins sizes c :
  supportb a ins sizes c = true <->
  exists m r, In m (monomials (a_rhs a))
              /\ (List.map fst r = contracted (a_tidx a) m
                  /\ Forall (fun kv => 0 <= snd kv < lookup sizes (fst kv)) r)
              /\ forall f, In f (snd m) ->
                   match f with
                   | FLit _ => True
                   | FTen n ix => In (List.map (lookup (combine (a_tidx a) c ++ r)) ix) (ins n)
                   end.
Proof.
  rewrite supportb_spec. split.
  - intros (m & r & Hm & Hr & H). exists m, r. split; [exact Hm|]. split; [now apply assignments_spec|].
    intros f Hf. specialize (H f Hf). destruct f as [v|n ix]; [exact I|]. cbn in H. now apply mem_coord_In.
  - intros (m & r & Hm & Hr & H). exists m, r. split; [exact Hm|]. split; [now apply assignments_spec|].
    intros f Hf. specialize (H f Hf). destruct f as [v|n ix]; [reflexivity|]. cbn. now apply mem_coord_In.
Qed.

Lemma support_empty_operand_all :
  (forall tgt tidx n ix e ins sizes c, ins n = [] ->
     supportb (mkAssignment tgt tidx (SMul (STensor n ix) e)) ins sizes c = false
     /\ supportb (mkAssignment tgt tidx (SMul e (STensor n ix))) ins sizes c = false)
  /\ (forall a ins sizes c,
        (forall m, In m (monomials (a_rhs a)) ->
           exists n ix, In (FTen n ix) (snd m)
                        /\ forall r, mem_coord (List.map (lookup (combine (a_tidx a) c ++ r)) ix) (ins n) = false) ->
        supportb a ins sizes c = false)
  /\ (forall a ins sizes c,
        every_term_has_tensor (a_rhs a) = true -> (forall n, ins n = []) -> supportb a ins sizes c = false)
  /\ (forall (V : Type) a ins sizes (out : tensor V),
        every_term_has_tensor (a_rhs a) = true -> (forall n, ins n = []) ->
        no_phantomb a ins sizes out = true ->
        forall l pos crd, nth_error (levels out) l = Some (LCompressed pos crd) ->
          stored_prefixes out (S l) = []).
Proof.
  split; [exact support_empty_factor|]. split; [exact support_absent_operand|].
  split; [exact support_all_empty|]. intros V. exact (@no_phantomb_all_empty V).
Qed.

(** * Examples (non-trivial instances; also pin the reading of literals and of empty ranges) *)

Local Open Scope string_scope.

(** a(i,j) = b(i,k) * c(k,j): support is the boolean matrix product *)
Example support_matmul :
  let a := mkAssignment "a" ["i"; "j"] (SMul (STensor "b" ["i"; "k"]) (STensor "c" ["k"; "j"])) in
  let ins := ins_of [("b", [[0; 1]; [1; 0]]); ("c", [[1; 2]])] in
  let sizes := [("i", 2); ("j", 3); ("k", 2)] in
  map (supportb a ins sizes) [[0; 2]; [0; 0]; [1; 2]; [1; 0]] = [true; false; false; false].
Proof. vm_compute. reflexivity. Qed.

(** a term that does not mention the summed index is not killed by an empty range of that index:
    a(i) = b(i) + c(i,k) * d(k) with an empty k *)
Example support_empty_range_other_term :
  let a := mkAssignment "a" ["i"] (SAdd (STensor "b" ["i"]) (SMul (STensor "c" ["i"; "k"]) (STensor "d" ["k"]))) in
  let ins := ins_of [("b", [[1]]); ("c", []); ("d", [])] in
  map (supportb a ins [("i", 2); ("k", 0)]) [[0]; [1]] = [false; true].
Proof. vm_compute. reflexivity. Qed.

(** literals (0 included) are present everywhere; explicit stored zeros count as stored *)
Example support_literals :
  let ins := ins_of [("b", [[1]])] in
  supportb (mkAssignment "a" ["i"] (SMul (SLit 0) (STensor "b" ["i"]))) ins [("i", 2)] [1] = true
  /\ supportb (mkAssignment "a" ["i"] (SMul (SLit 0) (STensor "b" ["i"]))) ins [("i", 2)] [0] = false
  /\ supportb (mkAssignment "a" ["i"] (SAdd (STensor "b" ["i"]) (SLit 1))) ins [("i", 2)] [0] = true.
Proof. vm_compute. repeat split. Qed.

(** the checker on a stored output: a(i,j) = b(i,j) with b = {(0,1)}; an output in format ss storing
    row 0 / column 1 is accepted, one that also stores the empty row 1 is a phantom at level 0 *)
Example checker_example :
  let a := mkAssignment "a" ["i"; "j"] (STensor "b" ["i"; "j"]) in
  let ins := ins_of [("b", [[0; 1]])] in
  let sizes := [("i", 2); ("j", 2)] in
  let good := mkTensor [2; 2] [0%nat; 1%nat] [LCompressed [0; 1] [0]; LCompressed [0; 1] [1]] [5] in
  let bad := mkTensor [2; 2] [0%nat; 1%nat] [LCompressed [0; 2] [0; 1]; LCompressed [0; 1; 1] [1]] [5] in
  no_phantomb a ins sizes good = true /\ phantoms a ins sizes bad = [(0%nat, [1])].
Proof. vm_compute. split; reflexivity. Qed.
