(* C13 — basic lemmas about association lists, release_all and partitions of field lists. *)
From Coq Require Import List Arith Bool Lia PeanoNat Permutation.
From TV Require Import model.Ownership.
Import ListNotations.

Definition keys {A} (l : list (nat * A)) : list nat := map fst l.

Lemma lookup_In : forall A k (l : list (nat * A)) v, lookup k l = Some v -> In (k, v) l.
Proof.
  induction l as [|[k' v'] r IH]; simpl; intros v H; [discriminate|].
  destruct (Nat.eqb k' k) eqn:E.
  - apply Nat.eqb_eq in E. inversion H. subst. now left.
  - right. now apply IH.
Qed.

Lemma lookup_None : forall A k (l : list (nat * A)), ~ In k (keys l) -> lookup k l = None.
Proof.
  induction l as [|[k' v'] r IH]; simpl; intros H; [reflexivity|].
  destruct (Nat.eqb k' k) eqn:E.
  - apply Nat.eqb_eq in E. exfalso. apply H. now left.
  - apply IH. intro. apply H. now right.
Qed.

Lemma In_keys : forall A k v (l : list (nat * A)), In (k, v) l -> In k (keys l).
Proof. intros. unfold keys. change k with (fst (k, v)). now apply in_map. Qed.

Lemma keys_In : forall A k (l : list (nat * A)), In k (keys l) -> exists v, In (k, v) l.
Proof.
  intros A k l H. unfold keys in H. apply in_map_iff in H. destruct H as [[k' v] [E H]].
  simpl in E. subst. now exists v.
Qed.

Lemma lookup_some_of_key : forall A k (l : list (nat * A)), In k (keys l) -> exists v, lookup k l = Some v.
Proof.
  induction l as [|[k' v'] r IH]; simpl; intros H; [contradiction|].
  destruct (Nat.eqb k' k) eqn:E; [now eexists|].
  destruct H as [H|H]; [apply Nat.eqb_neq in E; contradiction|]. now apply IH.
Qed.

Lemma lookup_NoDup : forall A k v (l : list (nat * A)), NoDup (keys l) -> In (k, v) l -> lookup k l = Some v.
Proof.
  induction l as [|[k' v'] r IH]; simpl; intros ND H; [contradiction|].
  inversion ND as [|x y Hn ND']; subst.
  destruct H as [H|H].
  - inversion H; subst. now rewrite Nat.eqb_refl.
  - destruct (Nat.eqb k' k) eqn:E.
    + apply Nat.eqb_eq in E. subst. exfalso. apply Hn. eapply In_keys; eauto.
    + now apply IH.
Qed.

Lemma has_key_true : forall A k (l : list (nat * A)), has_key k l = true <-> In k (keys l).
Proof.
  intros. unfold has_key. rewrite existsb_exists. split.
  - intros [[k' v] [H E]]. simpl in E. apply Nat.eqb_eq in E. subst. eapply In_keys; eauto.
  - intros H. apply keys_In in H. destruct H as [v H]. exists (k, v). split; [assumption|]. simpl. apply Nat.eqb_refl.
Qed.

Lemma remove_key_incl : forall A k (l : list (nat * A)) p, In p (remove_key k l) -> In p l.
Proof. intros A k l p H. unfold remove_key in H. apply filter_In in H. tauto. Qed.

Lemma remove_key_not_in : forall A k (l : list (nat * A)), ~ In k (keys (remove_key k l)).
Proof.
  intros A k l H. apply keys_In in H. destruct H as [v H]. unfold remove_key in H.
  apply filter_In in H. destruct H as [_ H]. simpl in H. rewrite Nat.eqb_refl in H. discriminate.
Qed.

Lemma keys_filter_NoDup : forall A (f : nat * A -> bool) (l : list (nat * A)), NoDup (keys l) -> NoDup (keys (filter f l)).
Proof.
  induction l as [|p r IH]; simpl; intros ND; [constructor|].
  inversion ND as [|x y Hn ND']; subst.
  destruct (f p); simpl; [constructor|]; auto.
  intro H. apply Hn. unfold keys in *. apply in_map_iff in H. destruct H as [q [E H]].
  apply filter_In in H. apply in_map_iff. exists q. tauto.
Qed.

Lemma bind_NoDup : forall A k (v : A) l, NoDup (keys l) -> NoDup (keys (bind k v l)).
Proof.
  intros. unfold bind. simpl. constructor.
  - apply remove_key_not_in.
  - unfold remove_key. now apply keys_filter_NoDup.
Qed.

(* ------------------------------------------------------------------ release_all *)

Lemma block_eta : forall b, {| b_kind := b_kind b; b_status := b_status b |} = b.
Proof. now destruct b. Qed.

Lemma release_all_nil : forall h, release_all [] h = h.
Proof.
  intros h. unfold release_all. rewrite <- (map_id h) at 2. apply map_ext.
  intros [a b]. simpl. now rewrite block_eta.
Qed.

Lemma release_all_keys : forall l h, keys (release_all l h) = keys h.
Proof. intros. unfold keys, release_all. rewrite map_map. reflexivity. Qed.

Lemma release_all_In : forall l h a b',
  In (a, b') (release_all l h) ->
  exists b, In (a, b) h /\ b_kind b' = b_kind b /\
            b_status b' = bump_n (count_occ Nat.eq_dec l a) (b_status b).
Proof.
  intros l h a b' H. unfold release_all in H. apply in_map_iff in H.
  destruct H as [[a0 b] [E H]]. simpl in E. inversion E; subst. exists b. auto.
Qed.

Lemma release_all_In' : forall l h a b,
  In (a, b) h ->
  In (a, {| b_kind := b_kind b; b_status := bump_n (count_occ Nat.eq_dec l a) (b_status b) |}) (release_all l h).
Proof.
  intros l h a b H. unfold release_all. apply in_map_iff. exists (a, b). auto.
Qed.

Lemma nfree_bump_n : forall k s, nfree (bump_n k s) = k + nfree s.
Proof.
  induction k; intros s; simpl; [reflexivity|].
  rewrite <- IHk. destruct (bump_n k s); reflexivity.
Qed.

Lemma count_occ_NoDup_In : forall (l : list nat) a, NoDup l -> In a l -> count_occ Nat.eq_dec l a = 1.
Proof.
  intros l a ND H. pose proof (proj1 (NoDup_count_occ Nat.eq_dec l) ND a) as Hle.
  apply (count_occ_In Nat.eq_dec) in H. lia.
Qed.

(* ------------------------------------------------------------------ fields of lists of structures *)

Definition fields_list (S : list (oid * list addr)) : list addr := flat_map snd S.

Lemma fields_list_In : forall S s f a, In (s, f) S -> In a f -> In a (fields_list S).
Proof. intros. unfold fields_list. apply in_flat_map. exists (s, f). auto. Qed.

Lemma NoDup_app_inv : forall (l1 l2 : list nat), NoDup (l1 ++ l2) ->
  NoDup l1 /\ NoDup l2 /\ (forall a, In a l1 -> ~ In a l2).
Proof.
  induction l1 as [|x r IH]; simpl; intros l2 H.
  - repeat split; [constructor|assumption|tauto].
  - inversion H as [|y z Hn ND]; subst. destruct (IH _ ND) as [A [B C]].
    repeat split; [|assumption|].
    + constructor; [|assumption]. intro. apply Hn. apply in_or_app. now left.
    + intros a [E|Ha]; [subst; intro; apply Hn; apply in_or_app; now right|now apply C].
Qed.

Lemma NoDup_app_intro : forall (l1 l2 : list nat), NoDup l1 -> NoDup l2 ->
  (forall a, In a l1 -> ~ In a l2) -> NoDup (l1 ++ l2).
Proof.
  induction l1 as [|x r IH]; simpl; intros l2 H1 H2 D; [assumption|].
  inversion H1 as [|y z Hn ND]; subst. constructor.
  - intro H. apply in_app_or in H. destruct H as [H|H]; [contradiction|]. apply (D x); auto.
  - apply IH; auto.
Qed.

(* splitting the structures by a predicate on their identity splits the (duplicate-free) fields *)
Lemma fields_partition : forall (k : oid -> bool) S,
  NoDup (fields_list S) ->
  let keep := filter (fun p => k (fst p)) S in
  let drop := filter (fun p => negb (k (fst p))) S in
  NoDup (fields_list keep) /\ NoDup (fields_list drop) /\
  (forall a, In a (fields_list keep) -> ~ In a (fields_list drop)) /\
  (forall a, In a (fields_list S) <-> In a (fields_list keep) \/ In a (fields_list drop)).
Proof.
  intros k. induction S as [|[s f] r IH]; simpl; intros ND.
  - repeat split; try constructor; try tauto.
  - apply NoDup_app_inv in ND. destruct ND as [Nf [Nr Dfr]].
    destruct (IH Nr) as [A [B [C D]]]. clear IH.
    destruct (k s) eqn:E; simpl.
    + repeat split.
      * apply NoDup_app_intro; auto. intros a Ha Hb. apply (Dfr a Ha). apply D. now left.
      * assumption.
      * intros a Ha Hb. apply in_app_or in Ha. destruct Ha as [Ha|Ha].
        -- apply (Dfr a Ha). apply D. now right.
        -- now apply (C a).
      * intros H. apply in_app_or in H. destruct H as [H|H].
        -- left. apply in_or_app. now left.
        -- apply D in H. destruct H; [left; apply in_or_app; now right|now right].
      * intros [H|H].
        -- apply in_app_or in H. apply in_or_app. destruct H; [now left|right; apply D; now left].
        -- apply in_or_app. right. apply D. now right.
    + repeat split.
      * assumption.
      * apply NoDup_app_intro; auto. intros a Ha Hb. apply (Dfr a Ha). apply D. now right.
      * intros a Ha Hb. apply in_app_or in Hb. destruct Hb as [Hb|Hb].
        -- apply (Dfr a Hb). apply D. now left.
        -- now apply (C a).
      * intros H. apply in_app_or in H. destruct H as [H|H].
        -- right. apply in_or_app. now left.
        -- apply D in H. destruct H; [now left|right; apply in_or_app; now right].
      * intros [H|H].
        -- apply in_or_app. right. apply D. now left.
        -- apply in_app_or in H. apply in_or_app. destruct H; [now left|right; apply D; now right].
Qed.

(* ------------------------------------------------------------------ holders aligned with structures *)

Definition aligned (p : oid * list addr) (q : oid * list hentry) : Prop :=
  fst p = fst q /\ map haddr (snd q) = snd p.

Lemma aligned_filter : forall (k : oid -> bool) S W,
  Forall2 aligned S W ->
  Forall2 aligned (filter (fun p => k (fst p)) S) (filter (fun q => k (fst q)) W) /\
  map haddr (flat_map (fun q => if k (fst q) then [] else snd q) W)
  = fields_list (filter (fun p => negb (k (fst p))) S).
Proof.
  intros k S W H. induction H as [|p q S W [E1 E2] H IH]; simpl.
  - split; [constructor|reflexivity].
  - destruct IH as [IH1 IH2]. rewrite <- E1. destruct (k (fst p)) eqn:E; simpl.
    + split; [constructor; [split|]; assumption|assumption].
    + split; [assumption|]. rewrite map_app. rewrite IH2. now rewrite E2.
Qed.

Lemma aligned_keys : forall S W, Forall2 aligned S W -> keys W = keys S.
Proof.
  intros S W H. induction H as [|p q S W [E1 E2] H IH]; [reflexivity|].
  unfold keys in *. simpl. f_equal; [symmetry; exact E1|exact IH].
Qed.

Lemma aligned_In_wkd : forall S W s h, Forall2 aligned S W -> In (s, h) W -> In (s, map haddr h) S.
Proof.
  intros S W s h H. induction H as [|p q S W [E1 E2] H IH]; simpl; intros Hin; [contradiction|].
  destruct Hin as [Hin|Hin].
  - subst q. simpl in *. left. destruct p. simpl in *. now subst.
  - right. now apply IH.
Qed.

Lemma filter_ext_in' : forall A (f g : A -> bool) l, (forall x, In x l -> f x = g x) -> filter f l = filter g l.
Proof.
  induction l as [|x r IH]; simpl; intros H; [reflexivity|].
  rewrite (H x) by now left. rewrite IH; [reflexivity|]. intros. apply H. now right.
Qed.

Lemma flat_map_ext_in' : forall A B (f g : A -> list B) l, (forall x, In x l -> f x = g x) -> flat_map f l = flat_map g l.
Proof.
  induction l as [|x r IH]; simpl; intros H; [reflexivity|].
  rewrite (H x) by now left. rewrite IH; [reflexivity|]. intros. apply H. now right.
Qed.

(* free() calls vs released addresses *)
Lemma gc_frees_incl : forall l a, In a (gc_frees l) -> In (HGc a) l.
Proof.
  intros l a H. unfold gc_frees in H. apply in_flat_map in H. destruct H as [e [He Ha]].
  destruct e; simpl in Ha; [|contradiction]. destruct Ha as [->|[]]. assumption.
Qed.

Lemma gc_frees_count : forall l a,
  (forall e, In e l -> haddr e = a -> e = HGc a) ->
  count_occ Nat.eq_dec (gc_frees l) a = count_occ Nat.eq_dec (map haddr l) a.
Proof.
  induction l as [|e r IH]; simpl; intros a H; [reflexivity|].
  assert (IH' := IH a (fun e' He' => H e' (or_intror He'))).
  destruct e as [x|x]; simpl.
  - destruct (Nat.eq_dec x a); now rewrite IH'.
  - destruct (Nat.eq_dec x a) as [E|E].
    + subst. specialize (H (HNew a) (or_introl eq_refl) eq_refl). discriminate.
    + assumption.
Qed.

Lemma count_occ_app_nat : forall (l1 l2 : list nat) a,
  count_occ Nat.eq_dec (l1 ++ l2) a = count_occ Nat.eq_dec l1 a + count_occ Nat.eq_dec l2 a.
Proof. intros. apply count_occ_app. Qed.
