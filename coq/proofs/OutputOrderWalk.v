(** The failure part of the IR generator on the graphs of the enumeration. *)
From Coq Require Import List String Bool Arith Lia.
From TV Require Import model.Graphs model.OutputOrder proofs.GraphsInd proofs.GraphsOrders
  proofs.GraphsSimplify proofs.GraphsMerge proofs.GraphsAssign.
Import ListNotations.
Open Scope list_scope.
Open Scope nat_scope.

Definition walk_terms (k : kind) (modes : list mode) (st : ostate) : list graph -> wres unit :=
  fix go (ts : list graph) : wres unit :=
    match ts with
    | [] => WOk tt
    | t :: r => match walk k modes t st with
                | WFail f => WFail f
                | WOk _ => go r
                end
    end.

Lemma walk_sum : forall k modes nm terms st,
  walk k modes (SumNode nm terms) st =
  if is_compute k || has_sparse_layer modes then
    match next_output modes st None with
    | WFail f => WFail f
    | WOk st' => walk_terms k modes st' terms
    end
  else WOk tt.
Proof. reflexivity. Qed.

(** BucketOutput never raises *)
Lemma walk_bucket : forall k modes g, walk k modes g OBucket = WOk tt.
Proof.
  intros k modes g. induction g as [e|i o n IH|nm ts IH] using graph_ind2.
  - simpl. destruct (is_compute k); reflexivity.
  - simpl. destruct (negb (is_compute k) && negb (has_sparse_layer modes)); [reflexivity|].
    destruct (node_skips_body i o n); [reflexivity | exact IH].
  - rewrite walk_sum. destruct (is_compute k || has_sparse_layer modes); [|reflexivity].
    simpl. induction IH as [|t r Ht _ IHr]; simpl; [reflexivity|]. rewrite Ht. exact IHr.
Qed.

Lemma walk_terms_bucket : forall k modes ts, walk_terms k modes OBucket ts = WOk tt.
Proof. intros. induction ts as [|t r IH]; simpl; [reflexivity|]. now rewrite walk_bucket. Qed.

Lemma next_output_append : forall modes n out,
  next_output modes (OAppend n) out =
  if (match out with Some o => Nat.eqb n (ol_layer o) | None => false end) then WOk (OAppend (S n))
  else if forallb is_dense (skipn n modes) then WOk OBucket else WFail FAppendNextOutput.
Proof. reflexivity. Qed.

(** ** the RuntimeError of write_assignment is unreachable on complete graphs *)
Lemma walk_no_write : forall T k modes g c n,
  goodb T c g = true -> n + c = List.length modes ->
  walk k modes g (OAppend n) <> WFail FWriteAssignment.
Proof.
  intros T k modes g. induction g as [e|i o nx IH|nm ts IH] using graph_ind2; intros c n G L.
  - simpl in *. apply Nat.eqb_eq in G. subst c. destruct (is_compute k); [|discriminate].
    replace (n =? List.length modes) with true by (symmetry; apply Nat.eqb_eq; lia). discriminate.
  - cbn [walk]. destruct (negb (is_compute k) && negb (has_sparse_layer modes)); [discriminate|].
    rewrite next_output_append.
    destruct (match o with Some o0 => n =? ol_layer o0 | None => false end) eqn:M.
    + destruct (node_skips_body i o nx); [discriminate|].
      destruct o as [ol|]; [|discriminate]. simpl in G. apply andb_true_iff in G as [_ G].
      destruct c as [|c']; [discriminate|]. apply (IH c' (S n)); [exact G | lia].
    + destruct (forallb is_dense (skipn n modes)); [|discriminate].
      destruct (node_skips_body i o nx); [discriminate|]. rewrite walk_bucket. discriminate.
  - rewrite walk_sum. destruct (is_compute k || has_sparse_layer modes); [|discriminate].
    rewrite next_output_append. destruct (forallb is_dense (skipn n modes)); [|discriminate].
    rewrite walk_terms_bucket. discriminate.
Qed.

(** ** the NotImplementedError of next_output: structural characterisation *)
Lemma no_sparse_all_dense : forall modes n,
  has_sparse_layer modes = false -> forallb is_dense (skipn n modes) = true.
Proof.
  intros modes n H. apply forallb_forall. intros m Hm.
  assert (In m modes).
  { rewrite <- (firstn_skipn n modes). apply in_or_app. now right. }
  unfold has_sparse_layer in H.
  destruct m; [reflexivity|]. exfalso.
  assert (existsb is_compressed modes = true) by (apply existsb_exists; exists Compressed; auto).
  congruence.
Qed.

Lemma bad_from_sparse : forall modes g n, bad_from modes n g = true -> has_sparse_layer modes = true.
Proof.
  intros modes g. induction g as [e|i o nx IH|nm ts IH] using graph_ind2; intros n H; cbn [bad_from] in H.
  - discriminate.
  - destruct (match o with Some o0 => n =? ol_layer o0 | None => false end).
    + apply andb_true_iff in H as [_ H]. eapply IH; eauto.
    + destruct (has_sparse_layer modes) eqn:HS; [reflexivity|].
      rewrite (no_sparse_all_dense _ n HS) in H. discriminate.
  - destruct (has_sparse_layer modes) eqn:HS; [reflexivity|].
    rewrite (no_sparse_all_dense _ n HS) in H. discriminate.
Qed.

Lemma walk_fappend_iff : forall k modes g n,
  walk k modes g (OAppend n) = WFail FAppendNextOutput <-> bad_from modes n g = true.
Proof.
  intros k modes g. induction g as [e|i o nx IH|nm ts IH] using graph_ind2; intros n.
  - simpl. destruct (is_compute k); simpl.
    + destruct (n =? List.length modes); split; discriminate.
    + split; discriminate.
  - destruct (negb (is_compute k) && negb (has_sparse_layer modes)) eqn:Gate.
    + (* early return: the output is fully dense, nothing is bad *)
      cbn [walk]. rewrite Gate.
      apply andb_true_iff in Gate as [_ HS]. apply negb_true_iff in HS.
      split; [discriminate|]. intros B. apply bad_from_sparse in B. congruence.
    + cbn [walk bad_from]. rewrite Gate, next_output_append.
      destruct (match o with Some o0 => n =? ol_layer o0 | None => false end).
      * destruct (node_skips_body i o nx); simpl; [split; discriminate | apply IH].
      * destruct (forallb is_dense (skipn n modes)); simpl.
        -- destruct (node_skips_body i o nx); [split; discriminate|]. rewrite walk_bucket. split; discriminate.
        -- tauto.
  - rewrite walk_sum. cbn [bad_from]. rewrite next_output_append.
    destruct (is_compute k || has_sparse_layer modes) eqn:Gate.
    + destruct (forallb is_dense (skipn n modes)); simpl.
      * rewrite walk_terms_bucket. split; discriminate.
      * tauto.
    + apply orb_false_iff in Gate as [_ HS]. rewrite (no_sparse_all_dense _ n HS). simpl. split; discriminate.
Qed.

(** ** generate *)
Lemma generate_all_bad : forall modes g k ks,
  graph_bad modes g = true -> generate_all modes g (k :: ks) = WFail FAppendNextOutput.
Proof.
  intros modes g k ks B. simpl. unfold generate_ir.
  apply (walk_fappend_iff k) in B. rewrite B. reflexivity.
Qed.

Lemma generate_all_not_bad : forall modes g ks,
  graph_bad modes g = false -> generate_all modes g ks <> WFail FAppendNextOutput.
Proof.
  intros modes g ks B. induction ks as [|k ks IH]; simpl; [discriminate|].
  unfold generate_ir. destruct (walk k modes g (OAppend 0)) as [u|f] eqn:W; [exact IH|].
  destruct f; [|discriminate]. apply walk_fappend_iff in W. unfold graph_bad in B. congruence.
Qed.

Lemma generate_all_no_write : forall T modes g ks,
  goodb T (List.length modes) g = true -> generate_all modes g ks <> WFail FWriteAssignment.
Proof.
  intros T modes g ks G. induction ks as [|k ks IH]; simpl; [discriminate|].
  unfold generate_ir. destruct (walk k modes g (OAppend 0)) as [u|f] eqn:W; [exact IH|].
  destruct f; [discriminate|]. exfalso. revert W. eapply walk_no_write; eauto.
Qed.

(** characterisation of the internal error *)
Theorem internal_iff_first_graph_bad : forall a fs ks,
  generate a fs ks = InternalAppendNextOutput <-> first_graph_bad a fs ks = true.
Proof.
  intros a fs ks. unfold generate, first_graph_bad, generate_from.
  destruct (output_modes a fs) as [modes|]; [|split; discriminate].
  destruct (best_algorithm a fs) as [g| | |]; try (split; discriminate).
  destruct ks as [|k ks].
  - simpl. split; discriminate.
  - destruct (graph_bad modes g) eqn:B.
    + rewrite (generate_all_bad _ _ _ _ B). tauto.
    + pose proof (generate_all_not_bad modes g (k :: ks) B).
      destruct (generate_all modes g (k :: ks)) as [u|[|]]; split; try discriminate; congruence.
Qed.

Definition typed_partial (o : outcome) : Prop :=
  o = Code \/ o = Diagonal \/ o = NoKernel \/ o = InternalAppendNextOutput.

Definition typed_full (o : outcome) : Prop := o = Code \/ o = Diagonal \/ o = NoKernel.

Lemma best_of_in : forall r g, best_of r = BGraph g -> exists gs, r = ROk gs /\ In g gs.
Proof.
  intros r g H. destruct r as [[|g0 gs]| |]; simpl in H; try discriminate.
  inversion H; subst. exists (g :: gs). split; [reflexivity | now left].
Qed.

Theorem generate_outcomes_typed_partial : forall a fs ks,
  wf_problem a fs = true -> typed_partial (generate a fs ks).
Proof.
  intros a fs ks WF. destruct (to_iteration_graphs_wf _ _ WF) as [NI NM].
  unfold generate, generate_from, best_algorithm, typed_partial.
  destruct (output_modes a fs) as [modes|] eqn:EM; [|contradiction].
  destruct (best_of (to_iteration_graphs a fs)) as [g| | |] eqn:EB; auto.
  - destruct (best_of_in _ _ EB) as [gs [Er Hin]].
    pose proof (to_iteration_graphs_complete _ _ _ _ Er EM) as C. rewrite Forall_forall in C.
    destruct (C _ Hin) as [T G].
    pose proof (generate_all_no_write T modes g ks G).
    destruct (generate_all modes g ks) as [u|[|]]; auto. contradiction.
  - exfalso. destruct (to_iteration_graphs a fs) as [[|]| |]; simpl in EB; try discriminate. contradiction.
Qed.

(** the repaired enumeration (skip graphs that cannot be lowered) is total *)
Theorem generate_filtered_total : forall a fs ks,
  wf_problem a fs = true -> typed_full (generate_filtered a fs ks).
Proof.
  intros a fs ks WF. destruct (to_iteration_graphs_wf _ _ WF) as [NI NM].
  unfold generate_filtered, generate_from, typed_full.
  destruct (output_modes a fs) as [modes|] eqn:EM; [|contradiction].
  destruct (best_of (filter_good modes (to_iteration_graphs a fs))) as [g| | |] eqn:EB; auto.
  - destruct (best_of_in _ _ EB) as [gs [Er Hin]].
    destruct (to_iteration_graphs a fs) as [gs0| |] eqn:E0; simpl in Er; try discriminate.
    injection Er as <-. apply filter_In in Hin as [Hin NB]. apply negb_true_iff in NB.
    pose proof (to_iteration_graphs_complete _ _ _ _ E0 EM) as C. rewrite Forall_forall in C.
    destruct (C _ Hin) as [T G].
    pose proof (generate_all_no_write T modes g ks G).
    pose proof (generate_all_not_bad modes g ks NB).
    destruct (generate_all modes g ks) as [u|[|]]; auto; contradiction.
  - exfalso. destruct (to_iteration_graphs a fs) as [gs0| |]; simpl in EB; try contradiction.
    + destruct (filter _ gs0); discriminate.
    + discriminate.
Qed.

Lemma bad_from_le_struct : forall modes g n, bad_from modes n g = true -> bad_struct_from modes n g = true.
Proof.
  intros modes g. induction g as [e|i o nx IH|nm ts IH] using graph_ind2; intros n H;
    cbn [bad_from bad_struct_from] in *.
  - discriminate.
  - destruct (match o with Some o0 => n =? ol_layer o0 | None => false end); [|exact H].
    apply andb_true_iff in H as [_ H]. now apply IH.
  - exact H.
Qed.

Theorem generate_filtered_struct_total : forall a fs ks,
  wf_problem a fs = true -> typed_full (generate_filtered_struct a fs ks).
Proof.
  intros a fs ks WF. destruct (to_iteration_graphs_wf _ _ WF) as [NI NM].
  unfold generate_filtered_struct, generate_from, typed_full.
  destruct (output_modes a fs) as [modes|] eqn:EM; [|contradiction].
  destruct (best_of (filter_good_struct modes (to_iteration_graphs a fs))) as [g| | |] eqn:EB; auto.
  - destruct (best_of_in _ _ EB) as [gs [Er Hin]].
    destruct (to_iteration_graphs a fs) as [gs0| |] eqn:E0; simpl in Er; try discriminate.
    injection Er as <-. apply filter_In in Hin as [Hin NB]. apply negb_true_iff in NB.
    assert (NB' : graph_bad modes g = false).
    { unfold graph_bad, graph_bad_struct in *. destruct (bad_from modes 0 g) eqn:B; [|reflexivity].
      apply bad_from_le_struct in B. congruence. }
    pose proof (to_iteration_graphs_complete _ _ _ _ E0 EM) as C. rewrite Forall_forall in C.
    destruct (C _ Hin) as [T G].
    pose proof (generate_all_no_write T modes g ks G).
    pose proof (generate_all_not_bad modes g ks NB').
    destruct (generate_all modes g ks) as [u|[|]]; auto; contradiction.
  - exfalso. destruct (to_iteration_graphs a fs) as [gs0| |]; simpl in EB; try contradiction.
    + destruct (filter _ gs0); discriminate.
    + discriminate.
Qed.

(** tensor_method *)
Theorem tensor_method_outcomes_typed_partial : forall a fs,
  wf_problem a fs = true ->
  typed_partial (tensor_method a fs) \/ tensor_method a fs = BroadcastTarget.
Proof.
  intros a fs WF. unfold tensor_method.
  destruct (forallb _ _); [left; now apply generate_outcomes_typed_partial | right; reflexivity].
Qed.

(** the RuntimeError site is unreachable for EVERY graph of the enumeration, not only the first *)
Theorem write_assignment_unreachable : forall a fs gs modes g ks,
  to_iteration_graphs a fs = ROk gs -> output_modes a fs = Some modes -> In g gs ->
  generate_all modes g ks <> WFail FWriteAssignment.
Proof.
  intros a fs gs modes g ks E EM Hin.
  pose proof (to_iteration_graphs_complete _ _ _ _ E EM) as C. rewrite Forall_forall in C.
  destruct (C _ Hin) as [T G]. eapply generate_all_no_write; eauto.
Qed.
