(** TIE target "cprint": every proved statement under one module name (tools/props/_tie_cprint.py
    builds this file and prints the assumptions of these names).  Definitions by name only. *)
From TV Require proofs.GenCPrint_equiv proofs.GenCStruct_equiv proofs.GenCStruct_fun.

Definition tie_cprint_lex := GenCPrint_equiv.tie_cprint_lex.
Definition tie_cprint_equiv := GenCPrint_equiv.tie_cprint_equiv.
Definition gen_type_equiv := GenCPrint_equiv.gen_type_equiv.
Definition tie_cprint_stmt_equiv := GenCPrint_equiv.tie_cprint_stmt_equiv.
Definition tie_cprint_derives := GenCPrint_equiv.tie_cprint_derives.
Definition tie_cprint_derives_prec := GenCPrint_equiv.tie_cprint_derives_prec.
Definition tie_cprint_derives_exact := GenCPrint_equiv.tie_cprint_derives_exact.
Definition tie_cprint_parses := GenCPrint_equiv.tie_cprint_parses.
Definition tie_cprint_stmt_derives := GenCPrint_equiv.tie_cprint_stmt_derives.
Definition sparse_flats := GenCStruct_equiv.sparse_flats.
Definition sparse_cprint_stmts := GenCStruct_equiv.sparse_cprint_stmts.
Definition gen_struct_equiv := GenCStruct_equiv.gen_struct_equiv.
Definition gen_struct_none := GenCStruct_equiv.gen_struct_none.
Definition gen_function_equiv := GenCStruct_fun.gen_function_equiv.
Definition gen_module_equiv := GenCStruct_fun.gen_module_equiv.
From TV Require proofs.GenCStruct_sem.
Definition sem_block_comment := GenCStruct_sem.sem_block_comment.
Definition sem_block_singleton := GenCStruct_sem.sem_block_singleton.
Definition sem_block_splice := GenCStruct_sem.sem_block_splice.
Definition sem_else_block := GenCStruct_sem.sem_else_block.
