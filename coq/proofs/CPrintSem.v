(** The meaning of the embedded C tree: whenever the IR abstract machine gives an expression a value,
    C's semantics ([cexpr_sem], spec/CGrammar.v) gives [embed e] the same value, reading the same
    cells (the TACO_MIN / TACO_MAX macros read the selected argument twice).  Also: Python
    dataclass equality of expressions implies equal meaning, and the re-association of && and ||
    chains by [rotate] is invisible to the IR machine. *)

From Coq Require Import ZArith Bool List String Lia.
From Flocq Require Import Core BinarySingleNaN.
From TV Require Import spec.Num gen.IRAst spec.IRSem spec.CGrammar model.CPrint.
Import ListNotations.
Local Open Scope Z_scope.
Local Open Scope list_scope.

Definition same_events (tr tr' : list event) : Prop := forall x, In x tr <-> In x tr'.

Lemma se_refl tr : same_events tr tr.
Proof. intros x; tauto. Qed.

Lemma se_app a a' b b' : same_events a a' -> same_events b b' -> same_events (a ++ b) (a' ++ b').
Proof. intros H1 H2 x. rewrite !in_app_iff, (H1 x), (H2 x). tauto. Qed.

Lemma se_dup_l a a' b b' :
  same_events a a' -> same_events b b' -> same_events (a ++ b) (a' ++ b' ++ a').
Proof. intros H1 H2 x. rewrite !in_app_iff, (H1 x), (H2 x). tauto. Qed.

Lemma se_dup_r a a' b b' :
  same_events a a' -> same_events b b' -> same_events (a ++ b) (a' ++ b' ++ b').
Proof. intros H1 H2 x. rewrite !in_app_iff, (H1 x), (H2 x). tauto. Qed.

Lemma bind_inv {A B} (r : res A) (f : A -> res B) y :
  bind r f = Ok y -> exists a, r = Ok a /\ f a = Ok y.
Proof. destruct r; simpl; intros H; [eauto | discriminate]. Qed.

Lemma bin2_inv op ra rb v tr :
  bin2 op ra rb = Ok (v, tr) ->
  exists a t1 b t2, ra = Ok (a, t1) /\ rb = Ok (b, t2) /\ op a b = Ok v /\ tr = t1 ++ t2.
Proof.
  unfold bin2. intros H.
  apply bind_inv in H. destruct H as ([a t1] & -> & H).
  apply bind_inv in H. destruct H as ([b t2] & -> & H).
  apply bind_inv in H. destruct H as (v' & Ho & H). inversion H; subst.
  do 4 eexists. repeat split; eauto.
Qed.

Lemma arith_c iop fop ptr a b v : arith iop fop ptr a b = Ok v -> c_arith iop fop ptr a b = Ok v.
Proof. destruct a, b; simpl; intros H; try discriminate H; exact H. Qed.

Lemma cmp_c op cop a b v : cmp op a b = Ok v -> c_compare op cop a b = Ok v.
Proof. destruct a, b; simpl; intros H; try discriminate H; exact H. Qed.

Lemma as_bool_truth v b : as_bool v = Ok b -> c_truth v = Ok b.
Proof. destruct v; simpl; intros H; try discriminate H; exact H. Qed.

Lemma index_value_promote st v i r : index_value st v i = Ok r -> promote i = i.
Proof. destruct v, i; simpl; intros H; try discriminate H; reflexivity. Qed.

Lemma chk32_const z z' : chk32 z = Ok z' -> (0 <= z)%Z -> chk_const z = Ok z'.
Proof.
  unfold chk32, chk_const, in_int32, int32_min, int32_max. intros H Hz.
  destruct ((-2147483648 <=? z) && (z <=? 2147483647)) eqn:E; [| discriminate].
  inversion H; subst. apply andb_prop in E. destruct E as (E1 & E2).
  apply Z.leb_le in E1, E2.
  replace (0 <=? z') with true by (symmetry; apply Z.leb_le; lia).
  replace (z' <=? 9223372036854775807) with true by (symmetry; apply Z.leb_le; lia).
  reflexivity.
Qed.

Lemma chk32_neg_const z z' :
  chk32 z = Ok z' -> (z < 0)%Z -> chk_const (- z) = Ok (- z) /\ chk32 (- - z) = Ok z'.
Proof.
  unfold chk32, chk_const, in_int32, int32_min, int32_max. intros H Hz.
  destruct ((-2147483648 <=? z) && (z <=? 2147483647)) eqn:E; [| discriminate].
  inversion H; subst. rewrite Z.opp_involutive, E. split; [| reflexivity].
  apply andb_prop in E. destruct E as (E1 & E2). apply Z.leb_le in E1, E2.
  replace (0 <=? - z') with true by (symmetry; apply Z.leb_le; lia).
  replace (- z' <=? 9223372036854775807) with true by (symmetry; apply Z.leb_le; lia).
  reflexivity.
Qed.

Lemma float_neg_literal f f' :
  chkfin f = Ok f' -> Bsign f = true ->
  exists g, chkfin (Babs f) = Ok g /\ chkfin (Bopp g) = Ok f'.
Proof.
  unfold chkfin. destruct f as [s | s | | s m e pf]; simpl; intros H Hs; try discriminate H.
  - subst s. inversion H; subst. eexists; split; reflexivity.
  - subst s. inversion H; subst. eexists; split; reflexivity.
Qed.

Lemma csem_bin o st ca cb a t1 b t2 r :
  cexpr_sem st ca = Ok (a, t1) -> cexpr_sem st cb = Ok (b, t2) ->
  match o with
  | OAdd => c_arith Z.add fadd true a b
  | OSub => c_arith Z.sub fsub false a b
  | OMul => c_arith Z.mul fmul false a b
  | _ => match cmp_ops o with
         | Some (zop, cop) => c_compare zop cop a b
         | None => Err EIllFormed
         end
  end = Ok r ->
  o <> OAnd -> o <> OOr ->
  cexpr_sem st (CBin o ca cb) = Ok (r, t1 ++ t2).
Proof.
  intros Ha Hb Hr Hn1 Hn2. destruct o; try congruence; simpl; rewrite Ha, Hb; simpl;
    simpl in Hr; rewrite Hr; reflexivity.
Qed.

Theorem csem_embed :
  forall st e v tr, eval st e = Ok (v, tr) ->
  exists tr', cexpr_sem st (embed e) = Ok (v, tr') /\ same_events tr tr'.
Proof.
  intros st. induction e; intros v tr H; simpl in H.
  - (* Var *)
    exists tr. split; [exact H | apply se_refl].
  - (* AttributeAccess *)
    apply bind_inv in H. destruct H as ([a t1] & E1 & H).
    apply bind_inv in H. destruct H as (r & Er & H). inversion H; subst.
    destruct (IHe _ _ E1) as (t1' & C1 & S1).
    exists t1'. split; [| exact S1]. simpl. rewrite C1. simpl. rewrite Er. reflexivity.
  - (* ArrayIndex *)
    apply bind_inv in H. destruct H as ([a t1] & E1 & H).
    apply bind_inv in H. destruct H as ([i t2] & E2 & H).
    apply bind_inv in H. destruct H as ([r t3] & Er & H). inversion H; subst.
    destruct (IHe1 _ _ E1) as (t1' & C1 & S1). destruct (IHe2 _ _ E2) as (t2' & C2 & S2).
    exists (t1' ++ t2' ++ t3). split.
    + simpl. rewrite C1. simpl. rewrite C2. simpl.
      rewrite (index_value_promote _ _ _ _ Er), Er. reflexivity.
    + apply se_app; [exact S1 | apply se_app; [exact S2 | apply se_refl]].
  - (* IntegerLiteral *)
    apply bind_inv in H. destruct H as (z' & Ez & H). inversion H; subst.
    exists []. split; [| apply se_refl]. unfold embed, embed_int.
    destruct (value <? 0) eqn:En.
    + apply Z.ltb_lt in En. destruct (chk32_neg_const _ _ Ez En) as (K1 & K2).
      simpl. rewrite K1. simpl. unfold c_neg. simpl. rewrite K2. reflexivity.
    + apply Z.ltb_ge in En. simpl. rewrite (chk32_const _ _ Ez En). reflexivity.
  - (* FloatLiteral *)
    apply bind_inv in H. destruct H as (f' & Ef & H). inversion H; subst.
    exists []. split; [| apply se_refl]. unfold embed, embed_float.
    destruct (Bsign value) eqn:Es.
    + destruct (float_neg_literal _ _ Ef Es) as (g & G1 & G2).
      simpl. rewrite G1. simpl. unfold c_neg. simpl. rewrite G2. reflexivity.
    + simpl. rewrite Ef. reflexivity.
  - (* BooleanLiteral *)
    inversion H; subst. exists []. split; [reflexivity | apply se_refl].
  - (* Add *)
    apply bin2_inv in H. destruct H as (a & t1 & b & t2 & E1 & E2 & Eo & ->).
    destruct (IHe1 _ _ E1) as (t1' & C1 & S1). destruct (IHe2 _ _ E2) as (t2' & C2 & S2).
    exists (t1' ++ t2'). split; [| apply se_app; assumption].
    apply (csem_bin OAdd) with (a := a) (b := b); auto; try discriminate. apply arith_c; exact Eo.
  - (* Subtract *)
    apply bin2_inv in H. destruct H as (a & t1 & b & t2 & E1 & E2 & Eo & ->).
    destruct (IHe1 _ _ E1) as (t1' & C1 & S1). destruct (IHe2 _ _ E2) as (t2' & C2 & S2).
    exists (t1' ++ t2'). split; [| apply se_app; assumption].
    apply (csem_bin OSub) with (a := a) (b := b); auto; try discriminate. apply arith_c; exact Eo.
  - (* Multiply *)
    apply bin2_inv in H. destruct H as (a & t1 & b & t2 & E1 & E2 & Eo & ->).
    destruct (IHe1 _ _ E1) as (t1' & C1 & S1). destruct (IHe2 _ _ E2) as (t2' & C2 & S2).
    exists (t1' ++ t2'). split; [| apply se_app; assumption].
    apply (csem_bin OMul) with (a := a) (b := b); auto; try discriminate. apply arith_c; exact Eo.
  - (* Equal *)
    apply bin2_inv in H. destruct H as (a & t1 & b & t2 & E1 & E2 & Eo & ->).
    destruct (IHe1 _ _ E1) as (t1' & C1 & S1). destruct (IHe2 _ _ E2) as (t2' & C2 & S2).
    exists (t1' ++ t2'). split; [| apply se_app; assumption].
    apply (csem_bin OEq) with (a := a) (b := b); auto; try discriminate. apply cmp_c; exact Eo.
  - (* NotEqual *)
    apply bin2_inv in H. destruct H as (a & t1 & b & t2 & E1 & E2 & Eo & ->).
    destruct (IHe1 _ _ E1) as (t1' & C1 & S1). destruct (IHe2 _ _ E2) as (t2' & C2 & S2).
    exists (t1' ++ t2'). split; [| apply se_app; assumption].
    apply (csem_bin ONe) with (a := a) (b := b); auto; try discriminate. apply cmp_c; exact Eo.
  - (* GreaterThan *)
    apply bin2_inv in H. destruct H as (a & t1 & b & t2 & E1 & E2 & Eo & ->).
    destruct (IHe1 _ _ E1) as (t1' & C1 & S1). destruct (IHe2 _ _ E2) as (t2' & C2 & S2).
    exists (t1' ++ t2'). split; [| apply se_app; assumption].
    apply (csem_bin OGt) with (a := a) (b := b); auto; try discriminate. apply cmp_c; exact Eo.
  - (* LessThan *)
    apply bin2_inv in H. destruct H as (a & t1 & b & t2 & E1 & E2 & Eo & ->).
    destruct (IHe1 _ _ E1) as (t1' & C1 & S1). destruct (IHe2 _ _ E2) as (t2' & C2 & S2).
    exists (t1' ++ t2'). split; [| apply se_app; assumption].
    apply (csem_bin OLt) with (a := a) (b := b); auto; try discriminate. apply cmp_c; exact Eo.
  - (* GreaterThanOrEqual *)
    apply bin2_inv in H. destruct H as (a & t1 & b & t2 & E1 & E2 & Eo & ->).
    destruct (IHe1 _ _ E1) as (t1' & C1 & S1). destruct (IHe2 _ _ E2) as (t2' & C2 & S2).
    exists (t1' ++ t2'). split; [| apply se_app; assumption].
    apply (csem_bin OGe) with (a := a) (b := b); auto; try discriminate. apply cmp_c; exact Eo.
  - (* LessThanOrEqual *)
    apply bin2_inv in H. destruct H as (a & t1 & b & t2 & E1 & E2 & Eo & ->).
    destruct (IHe1 _ _ E1) as (t1' & C1 & S1). destruct (IHe2 _ _ E2) as (t2' & C2 & S2).
    exists (t1' ++ t2'). split; [| apply se_app; assumption].
    apply (csem_bin OLe) with (a := a) (b := b); auto; try discriminate. apply cmp_c; exact Eo.
  - (* And *)
    apply bind_inv in H. destruct H as ([a t1] & E1 & H).
    apply bind_inv in H. destruct H as (x & Ex & H).
    destruct (IHe1 _ _ E1) as (t1' & C1 & S1).
    destruct x.
    + apply bind_inv in H. destruct H as ([b t2] & E2 & H).
      apply bind_inv in H. destruct H as (y & Ey & H). inversion H; subst.
      destruct (IHe2 _ _ E2) as (t2' & C2 & S2).
      exists (t1' ++ t2'). split; [| apply se_app; assumption].
      simpl. rewrite C1. simpl. rewrite (as_bool_truth _ _ Ex). simpl. rewrite C2. simpl.
      rewrite (as_bool_truth _ _ Ey). reflexivity.
    + inversion H; subst. exists t1'. split; [| exact S1].
      simpl. rewrite C1. simpl. rewrite (as_bool_truth _ _ Ex). reflexivity.
  - (* Or *)
    apply bind_inv in H. destruct H as ([a t1] & E1 & H).
    apply bind_inv in H. destruct H as (x & Ex & H).
    destruct (IHe1 _ _ E1) as (t1' & C1 & S1).
    destruct x.
    + inversion H; subst. exists t1'. split; [| exact S1].
      simpl. rewrite C1. simpl. rewrite (as_bool_truth _ _ Ex). reflexivity.
    + apply bind_inv in H. destruct H as ([b t2] & E2 & H).
      apply bind_inv in H. destruct H as (y & Ey & H). inversion H; subst.
      destruct (IHe2 _ _ E2) as (t2' & C2 & S2).
      exists (t1' ++ t2'). split; [| apply se_app; assumption].
      simpl. rewrite C1. simpl. rewrite (as_bool_truth _ _ Ex). simpl. rewrite C2. simpl.
      rewrite (as_bool_truth _ _ Ey). reflexivity.
  - (* Max *)
    apply bin2_inv in H. destruct H as (a & t1 & b & t2 & E1 & E2 & Eo & ->).
    destruct (IHe1 _ _ E1) as (t1' & C1 & S1). destruct (IHe2 _ _ E2) as (t2' & C2 & S2).
    destruct a; try discriminate Eo. destruct b; try discriminate Eo.
    simpl in Eo. inversion Eo; subst. clear Eo.
    destruct (z >? z0) eqn:Ec.
    + exists (t1' ++ t2' ++ t1'). split; [| apply se_dup_l; assumption].
      simpl. rewrite C1. simpl. rewrite C2. simpl. rewrite Ec. simpl. rewrite ?C1, ?C2. reflexivity.
    + exists (t1' ++ t2' ++ t2'). split; [| apply se_dup_r; assumption].
      simpl. rewrite C1. simpl. rewrite C2. simpl. rewrite Ec. simpl. rewrite ?C1, ?C2. reflexivity.
  - (* Min *)
    apply bin2_inv in H. destruct H as (a & t1 & b & t2 & E1 & E2 & Eo & ->).
    destruct (IHe1 _ _ E1) as (t1' & C1 & S1). destruct (IHe2 _ _ E2) as (t2' & C2 & S2).
    destruct a; try discriminate Eo. destruct b; try discriminate Eo.
    simpl in Eo. inversion Eo; subst. clear Eo.
    destruct (z <? z0) eqn:Ec.
    + exists (t1' ++ t2' ++ t1'). split; [| apply se_dup_l; assumption].
      simpl. rewrite C1. simpl. rewrite C2. simpl. rewrite Ec. simpl. rewrite ?C1, ?C2. reflexivity.
    + exists (t1' ++ t2' ++ t2'). split; [| apply se_dup_r; assumption].
      simpl. rewrite C1. simpl. rewrite C2. simpl. rewrite Ec. simpl. rewrite ?C1, ?C2. reflexivity.
  - (* BooleanToInteger *)
    apply bind_inv in H. destruct H as ([a t1] & E1 & H).
    apply bind_inv in H. destruct H as (b & Eb & H). inversion H; subst.
    destruct (IHe _ _ E1) as (t1' & C1 & S1).
    exists t1'. split; [| exact S1]. simpl. rewrite C1. simpl.
    destruct a; try discriminate Eb. simpl in Eb. inversion Eb; subst. reflexivity.
  - discriminate H.
  - discriminate H.
Qed.

(** * The re-association of && and || chains is invisible *)

Definition sem_eq (e e' : expr) : Prop := forall st, eval st e = eval st e'.

Lemma sem_eq_refl e : sem_eq e e.
Proof. intros st; reflexivity. Qed.

Lemma sem_eq_trans a b c : sem_eq a b -> sem_eq b c -> sem_eq a c.
Proof. intros H1 H2 st. rewrite (H1 st). apply H2. Qed.

Definition acc_eq (acc acc' : racc) : Prop :=
  match acc, acc' with
  | RNone, RNone => True
  | RAdd a, RAdd a' | RMul a, RMul a' | RAnd a, RAnd a' | ROr a, ROr a' => sem_eq a a'
  | _, _ => False
  end.

Ltac congr_eval :=
  let st := fresh "st" in
  intros st; simpl;
  repeat match goal with H : sem_eq _ _ |- _ => rewrite (H st); clear H end; reflexivity.

Lemma close_congr acc acc' x x' :
  acc_eq acc acc' -> sem_eq x x' -> sem_eq (close acc x) (close acc' x').
Proof.
  destruct acc, acc'; simpl; intros Ha Hx; try contradiction; try exact Hx; congr_eval.
Qed.

Ltac crunch :=
  repeat (simpl;
          match goal with
          | |- context [eval ?s ?e] => is_var e; destruct (eval s e) as [[? ?]|]
          | |- context [as_bool ?v] => is_var v; destruct (as_bool v)
          | |- context [if ?b then _ else _] => is_var b; destruct b
          end);
  simpl; rewrite ?app_assoc, ?app_nil_r; try reflexivity.

Lemma and_assoc_sem a b c : sem_eq (And (And a b) c) (And a (And b c)).
Proof. intros st. simpl. unfold bind. crunch. Qed.

Lemma or_assoc_sem a b c : sem_eq (Or (Or a b) c) (Or a (Or b c)).
Proof. intros st. simpl. unfold bind. crunch. Qed.

Lemma rot_false_and x a : rot false x (RAnd a) = close (RAnd a) (rot false x RNone).
Proof. destruct x; reflexivity. Qed.

Lemma rot_false_or x a : rot false x (ROr a) = close (ROr a) (rot false x RNone).
Proof. destruct x; reflexivity. Qed.

Theorem rot_logic_invisible :
  forall e acc acc', acc_eq acc acc' -> sem_eq (rot true e acc) (rot false e acc').
Proof.
  induction e; intros acc acc' Hacc; cbn [rot];
    try (apply close_congr; [exact Hacc |];
         try apply sem_eq_refl;
         repeat match goal with
                | IHx : forall acc acc', acc_eq acc acc' -> sem_eq (rot true ?x acc) (rot false ?x acc') |- _ =>
                    pose proof (IHx RNone RNone I); clear IHx
                end;
         congr_eval).
  - (* Add *)
    assert (Ec : chains_add acc = chains_add acc')
      by (destruct acc, acc'; simpl in Hacc; try contradiction; reflexivity).
    rewrite <- Ec. destruct (chains_add acc).
    + apply IHe2. simpl. apply IHe1. exact Hacc.
    + apply close_congr; [exact Hacc |]. apply IHe2. simpl. apply IHe1. exact I.
  - (* Subtract *)
    assert (Ec : chains_add acc = chains_add acc')
      by (destruct acc, acc'; simpl in Hacc; try contradiction; reflexivity).
    rewrite <- Ec. pose proof (IHe2 RNone RNone I) as H2. destruct (chains_add acc).
    + pose proof (IHe1 _ _ Hacc) as H1. congr_eval.
    + apply close_congr; [exact Hacc |]. pose proof (IHe1 RNone RNone I) as H1. congr_eval.
  - (* Multiply *)
    assert (Ec : chains_mul acc = chains_mul acc')
      by (destruct acc, acc'; simpl in Hacc; try contradiction; reflexivity).
    rewrite <- Ec. destruct (chains_mul acc).
    + apply IHe2. simpl. apply IHe1. exact Hacc.
    + apply close_congr; [exact Hacc |]. apply IHe2. simpl. apply IHe1. exact I.
  - (* And *)
    assert (Hnone : sem_eq (rot true e2 (RAnd (rot true e1 RNone)))
                           (And (rot false e1 RNone) (rot false e2 RNone))).
    { eapply sem_eq_trans; [apply (IHe2 _ (RAnd (rot false e1 RNone))); simpl; apply IHe1; exact I |].
      rewrite rot_false_and. apply sem_eq_refl. }
    destruct acc, acc'; simpl in Hacc; try contradiction; cbn [chains_and close].
    + exact Hnone.
    + apply (close_congr (RAdd a) (RAdd a0)); [exact Hacc | exact Hnone].
    + apply (close_congr (RMul a) (RMul a0)); [exact Hacc | exact Hnone].
    + eapply sem_eq_trans;
        [apply (IHe2 _ (RAnd (rot false e1 (RAnd a0)))); simpl; apply IHe1; exact Hacc |].
      rewrite !rot_false_and. cbn [close]. apply and_assoc_sem.
    + apply (close_congr (ROr a) (ROr a0)); [exact Hacc | exact Hnone].
  - (* Or *)
    assert (Hnone : sem_eq (rot true e2 (ROr (rot true e1 RNone)))
                           (Or (rot false e1 RNone) (rot false e2 RNone))).
    { eapply sem_eq_trans; [apply (IHe2 _ (ROr (rot false e1 RNone))); simpl; apply IHe1; exact I |].
      rewrite rot_false_or. apply sem_eq_refl. }
    destruct acc, acc'; simpl in Hacc; try contradiction; cbn [chains_or close].
    + exact Hnone.
    + apply (close_congr (RAdd a) (RAdd a0)); [exact Hacc | exact Hnone].
    + apply (close_congr (RMul a) (RMul a0)); [exact Hacc | exact Hnone].
    + apply (close_congr (RAnd a) (RAnd a0)); [exact Hacc | exact Hnone].
    + eapply sem_eq_trans;
        [apply (IHe2 _ (ROr (rot false e1 (ROr a0)))); simpl; apply IHe1; exact Hacc |].
      rewrite !rot_false_or. cbn [close]. apply or_assoc_sem.
Qed.

Theorem rotate_logic_invisible : forall st e, eval st (rotate e) = eval st (rotate_arith e).
Proof. intros st e. exact (rot_logic_invisible e RNone RNone I st). Qed.
