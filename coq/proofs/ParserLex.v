(** C12 -- character level: the lexer is total, and printing an assignment as text and parsing the
    text gives back the assignment (lifting  ParserGrammar.parse_deparse  from tokens to characters).

    (A) lexer totality, fuel monotonicity
    (B) integers:  lex_number (show_N n ++ rest)
    (C) main theorem, with the float codec as a Section hypothesis
    (D) the canonical float printer of the model satisfies the codec hypothesis
    (E) integer-only trees need no codec *)

From Coq Require Import String Ascii List NArith ZArith Bool Arith Lia ZifyBool.
From TV Require Import model.Parser proofs.ParserFuel proofs.ParserGrammar proofs.ParserFormat.
Import ListNotations.

(* ------------------------------------------------------------------------------------------ *)
(** * Definitions *)

Definition lex_chars (l : list ascii) : option (list token) := lex_fuel (length l) l.

Definition valid_name (s : string) : bool :=
  match list_ascii_of_string s with
  | c :: r => is_alpha c && forallb is_alnum r
  | [] => false
  end.

(** what the lexer produces: mantissa without trailing zeros, zero spelled  Dec 0 0 *)
Definition dec_norm (f : dec) : Prop := mkdec (dmant f) (dexp f) = f.

Fixpoint names_ok (e : expr) : bool :=
  match e with
  | EInt _ | EFloat _ => true
  | ETensor x idx => valid_name x && forallb valid_name idx
  | EAdd l r | ESub l r | EMul l r => names_ok l && names_ok r
  end.

Fixpoint floats_ok (e : expr) : Prop :=
  match e with
  | EInt _ | ETensor _ _ => True
  | EFloat f => dec_norm f
  | EAdd l r | ESub l r | EMul l r => floats_ok l /\ floats_ok r
  end.

Definition wf_ast (a : assignment) : Prop :=
  validate a = VOk /\ valid_name (tname a) = true /\ forallb valid_name (tindexes a) = true
  /\ names_ok (rhs a) = true /\ floats_ok (rhs a).

(** what may follow a number in printed text: end of text, a blank or a closing parenthesis *)
Definition delim (rest : list ascii) : Prop :=
  match rest with [] => True | c :: _ => c = " "%char \/ c = ")"%char end.

(* ------------------------------------------------------------------------------------------ *)
(** * Character facts (by enumeration of the 256 characters) *)

Ltac all_chars c :=
  destruct c as [[ | ] [ | ] [ | ] [ | ] [ | ] [ | ] [ | ] [ | ]].

Lemma digit_not_space : forall c, is_digit c = true -> Ascii.eqb c " " = false.
Proof. intro c. all_chars c; vm_compute; intro H; try reflexivity; discriminate H. Qed.

Lemma digit_not_alpha : forall c, is_digit c = true -> is_alpha c = false.
Proof. intro c. all_chars c; vm_compute; intro H; try reflexivity; discriminate H. Qed.

Lemma alpha_not_space : forall c, is_alpha c = true -> Ascii.eqb c " " = false.
Proof. intro c. all_chars c; vm_compute; intro H; try reflexivity; discriminate H. Qed.

Lemma alpha_alnum : forall c, is_alpha c = true -> is_alnum c = true.
Proof. intros c H. unfold is_alnum. rewrite H. reflexivity. Qed.

(** the optional sign of an exponent, when the next character is a digit *)
Lemma sign_digit : forall (c : ascii) (r : list ascii), is_digit c = true ->
  match c :: r with
  | "+"%char :: r2 => (false, r2)
  | "-"%char :: r2 => (true, r2)
  | _ => (false, c :: r)
  end = (false, c :: r).
Proof. intros c r. all_chars c; vm_compute; intro H; try reflexivity; discriminate H. Qed.

Lemma sign_digit_list : forall (l : list ascii) c r, l = c :: r -> is_digit c = true ->
  match l with
  | "+"%char :: r2 => (false, r2)
  | "-"%char :: r2 => (true, r2)
  | _ => (false, l)
  end = (false, l).
Proof. intros l c r E H. subst l. apply sign_digit. exact H. Qed.

(* ------------------------------------------------------------------------------------------ *)
(** * (A) the lexer is total *)

Lemma take_while_split : forall (p : ascii -> bool) l a b, take_while p l = (a, b) -> l = a ++ b.
Proof. intros p l a b H. apply take_while_spec in H. apply H. Qed.

Lemma sign_split : forall r1 : list ascii, exists (neg : bool) (r2 : list ascii),
  match r1 with
  | "+"%char :: r2 => (false, r2)
  | "-"%char :: r2 => (true, r2)
  | _ => (false, r1)
  end = (neg, r2) /\ length r2 <= length r1.
Proof.
  intros [ | d r]; [exists false, []; split; [reflexivity | apply Nat.le_refl] | ].
  all_chars d; eexists; eexists; (split; [reflexivity | cbn [length]; lia]).
Qed.

Lemma lex_exponent_length : forall r e r3, lex_exponent r = Some (e, r3) -> length r3 <= length r.
Proof.
  intros r e r3. unfold lex_exponent. destruct r as [ | c r1]; [discriminate | ].
  destruct (is_e c); [ | discriminate].
  destruct (sign_split r1) as (neg & r2 & E & L). rewrite E.
  pose proof (take_while_length is_digit r2) as T.
  destruct (take_while is_digit r2) as [ep r3']. cbn [snd] in T.
  destruct ep; [discriminate | ]. intro H. inversion H. subst r3'. cbn [length]. lia.
Qed.

(** on a text that starts with a digit, [lex_number] consumes at least that digit *)
Lemma lex_number_length : forall c r t r', is_digit c = true ->
  lex_number (c :: r) = (t, r') -> length r' <= length r.
Proof.
  intros c r t r' Hc. unfold lex_number. cbn [take_while]. rewrite Hc.
  pose proof (take_while_length is_digit r) as T.
  destruct (take_while is_digit r) as [ip r0]. cbn [snd] in T.
  assert (F : forall fr : option (list ascii * list ascii),
    (match fr with Some (_, r2) => length r2 <= length r0 | None => True end) ->
    match fr with
    | Some (fp, r2) =>
        match lex_exponent r2 with
        | Some (e, r3) =>
            (TFloat (mkdec (digits_val ((c :: ip) ++ fp)) (e - Z.of_nat (length fp))%Z), r3)
        | None => (TFloat (mkdec (digits_val ((c :: ip) ++ fp)) (- Z.of_nat (length fp))%Z), r2)
        end
    | None =>
        match lex_exponent r0 with
        | Some (e, r3) => (TFloat (mkdec (digits_val (c :: ip)) e), r3)
        | None => (TInt (digits_val (c :: ip)), r0)
        end
    end = (t, r') -> length r' <= length r).
  { intros [[fp r2] | ] L.
    - destruct (lex_exponent r2) as [[e r3] | ] eqn:E; intro H; inversion H; subst.
      + apply lex_exponent_length in E. lia.
      + lia.
    - destruct (lex_exponent r0) as [[e r3] | ] eqn:E; intro H; inversion H; subst.
      + apply lex_exponent_length in E. lia.
      + lia. }
  cbv zeta. apply F.
  destruct r0 as [ | d r1]; [exact I | ].
  all_chars d; cbv beta iota zeta; try exact I.
  pose proof (take_while_length is_digit r1) as T1.
  destruct (take_while is_digit r1) as [fp r2]. cbn [snd] in T1.
  destruct fp; [exact I | ]. cbn [length]. lia.
Qed.

Lemma lex_fuel_total : forall n l, length l <= n -> lex_fuel n l <> None.
Proof.
  induction n as [ | n IH]; intros l L.
  - destruct l; [discriminate | inversion L].
  - destruct l as [ | c r]; [discriminate | ]. cbn [length] in L.
    assert (Lr : length r <= n) by lia.
    assert (K : forall t r', length r' <= n -> cons_tok t (lex_fuel n r') <> None).
    { intros t r' L'. specialize (IH r' L'). destruct (lex_fuel n r'); [discriminate | exact IH]. }
    cbn [lex_fuel].
    destruct (Ascii.eqb c " "); [apply IH; exact Lr | ].
    destruct (is_alpha c) eqn:Ea.
    + cbn [take_while]. rewrite (alpha_alnum c Ea).
      pose proof (take_while_length is_alnum r) as T.
      destruct (take_while is_alnum r) as [nm r']. cbn [snd] in T. apply K. lia.
    + destruct (is_digit c) eqn:Ed.
      * destruct (lex_number (c :: r)) as [t r'] eqn:E.
        apply lex_number_length in E; [ | exact Ed]. apply K. lia.
      * apply K. exact Lr.
Qed.

Theorem lex_total : forall s, lex s <> None.
Proof. intro s. unfold lex. apply lex_fuel_total. apply Nat.le_refl. Qed.

Theorem parse_assignment_total : forall s, parse_assignment s <> PFuel.
Proof.
  intro s. unfold parse_assignment. pose proof (lex_total s) as T.
  destruct (lex s) as [ts | ]; [apply parse_tokens_fuel_sufficient | contradiction].
Qed.

(** more fuel does not change the result *)
Lemma lex_fuel_mono : forall n l ts, lex_fuel n l = Some ts ->
  forall m, n <= m -> lex_fuel m l = Some ts.
Proof.
  induction n as [ | n IH]; intros l ts H m L.
  - destruct l; [ | discriminate H]. destruct m; exact H.
  - destruct l as [ | c r]; [destruct m; exact H | ].
    destruct m as [ | m]; [inversion L | ].
    assert (L' : n <= m) by lia.
    assert (K : forall t r', cons_tok t (lex_fuel n r') = Some ts ->
                             cons_tok t (lex_fuel m r') = Some ts).
    { intros t r' E. destruct (lex_fuel n r') as [l0 | ] eqn:E0; [ | discriminate E].
      rewrite (IH _ _ E0 m L'). exact E. }
    cbn [lex_fuel] in H |- *.
    destruct (Ascii.eqb c " "); [exact (IH _ _ H m L') | ].
    destruct (is_alpha c).
    + destruct (take_while is_alnum (c :: r)) as [nm r']. apply K. exact H.
    + destruct (is_digit c).
      * destruct (lex_number (c :: r)) as [t r']. apply K. exact H.
      * apply K. exact H.
Qed.

Lemma lex_chars_of_fuel : forall n l ts, lex_fuel n l = Some ts -> lex_chars l = Some ts.
Proof.
  intros n l ts H. unfold lex_chars.
  pose proof (lex_fuel_total (length l) l (Nat.le_refl _)) as T.
  destruct (lex_fuel (length l) l) as [ts' | ] eqn:E; [ | contradiction].
  pose proof (lex_fuel_mono _ _ _ H (Nat.max n (length l)) (Nat.le_max_l _ _)) as H1.
  pose proof (lex_fuel_mono _ _ _ E (Nat.max n (length l)) (Nat.le_max_r _ _)) as H2.
  rewrite H1 in H2. symmetry. exact H2.
Qed.

(* ------------------------------------------------------------------------------------------ *)
(** * Lexing with some fuel: the relation used for the compositional proofs *)

Definition Lx (l : list ascii) (ts : list token) : Prop := exists n, lex_fuel n l = Some ts.

Lemma Lx_nil : Lx [] [].
Proof. exists 0. reflexivity. Qed.

Lemma Lx_space : forall r ts, Lx r ts -> Lx (" "%char :: r) ts.
Proof. intros r ts [n H]. exists (S n). exact H. Qed.

Lemma Lx_punct : forall c r ts,
  Ascii.eqb c " " = false -> is_alpha c = false -> is_digit c = false ->
  Lx r ts -> Lx (c :: r) (punct c :: ts).
Proof.
  intros c r ts H1 H2 H3 [n H]. exists (S n). cbn [lex_fuel]. rewrite H1, H2, H3, H. reflexivity.
Qed.

Lemma Lx_lp : forall r ts, Lx r ts -> Lx ("("%char :: r) (TLP :: ts).
Proof. intros r ts H. apply (Lx_punct "("%char); try reflexivity. exact H. Qed.
Lemma Lx_rp : forall r ts, Lx r ts -> Lx (")"%char :: r) (TRP :: ts).
Proof. intros r ts H. apply (Lx_punct ")"%char); try reflexivity. exact H. Qed.
Lemma Lx_comma : forall r ts, Lx r ts -> Lx (","%char :: r) (TComma :: ts).
Proof. intros r ts H. apply (Lx_punct ","%char); try reflexivity. exact H. Qed.
Lemma Lx_eq : forall r ts, Lx r ts -> Lx ("="%char :: r) (TEq :: ts).
Proof. intros r ts H. apply (Lx_punct "="%char); try reflexivity. exact H. Qed.
Lemma Lx_plus : forall r ts, Lx r ts -> Lx ("+"%char :: r) (TPlus :: ts).
Proof. intros r ts H. apply (Lx_punct "+"%char); try reflexivity. exact H. Qed.
Lemma Lx_minus : forall r ts, Lx r ts -> Lx ("-"%char :: r) (TMinus :: ts).
Proof. intros r ts H. apply (Lx_punct "-"%char); try reflexivity. exact H. Qed.
Lemma Lx_star : forall r ts, Lx r ts -> Lx ("*"%char :: r) (TStar :: ts).
Proof. intros r ts H. apply (Lx_punct "*"%char); try reflexivity. exact H. Qed.

Lemma Lx_number : forall c r t r' ts, is_digit c = true -> lex_number (c :: r) = (t, r') ->
  Lx r' ts -> Lx (c :: r) (t :: ts).
Proof.
  intros c r t r' ts Hd E [n H]. exists (S n). cbn [lex_fuel].
  rewrite (digit_not_space c Hd), (digit_not_alpha c Hd), Hd, E, H. reflexivity.
Qed.

(** a name followed by a character that is not alphanumeric *)
Lemma Lx_name : forall s rest ts, valid_name s = true ->
  (match rest with c :: _ => is_alnum c = false | [] => True end) ->
  Lx rest ts -> Lx (list_ascii_of_string s ++ rest) (TName s :: ts).
Proof.
  intros s rest ts V Hr [n H]. unfold valid_name in V.
  destruct (list_ascii_of_string s) as [ | c r] eqn:Es; [discriminate V | ].
  apply andb_true_iff in V. destruct V as [Ha Hall].
  exists (S n). cbn [app]. cbn [lex_fuel]. rewrite (alpha_not_space c Ha), Ha.
  change (c :: r ++ rest) with ((c :: r) ++ rest).
  rewrite (take_while_app is_alnum (c :: r) rest).
  - rewrite H, <- Es, string_of_list_ascii_of_string. reflexivity.
  - cbn [forallb]. rewrite (alpha_alnum c Ha), Hall. reflexivity.
  - exact Hr.
Qed.

(** index list up to and including the closing parenthesis *)
Lemma Lx_join : forall idx rest ts, forallb valid_name idx = true -> Lx rest ts ->
  Lx (join_names idx ++ ")"%char :: rest) (sep_names idx ++ TRP :: ts).
Proof.
  induction idx as [ | x t IH]; intros rest ts V H.
  - cbn [join_names sep_names app]. apply Lx_rp. exact H.
  - cbn [forallb] in V. apply andb_true_iff in V. destruct V as [Vx Vt].
    destruct t as [ | y t'].
    + cbn [join_names sep_names app]. apply Lx_name; [exact Vx | reflexivity | ].
      apply Lx_rp. exact H.
    + change (join_names (x :: y :: t'))
        with (list_ascii_of_string x ++ ","%char :: join_names (y :: t')).
      change (sep_names (x :: y :: t')) with (TName x :: TComma :: sep_names (y :: t')).
      rewrite <- app_assoc. cbn [app].
      apply Lx_name; [exact Vx | reflexivity | ]. apply Lx_comma.
      apply IH; [exact Vt | exact H].
Qed.

Lemma Lx_tensor : forall x idx rest ts, valid_name x = true -> forallb valid_name idx = true ->
  Lx rest ts -> Lx (print_tensor x idx ++ rest) (tensor_toks x idx ++ ts).
Proof.
  intros x idx rest ts Vx Vi H. unfold print_tensor, tensor_toks.
  rewrite <- app_assoc. cbn [app]. rewrite <- !app_assoc. cbn [app].
  apply Lx_name; [exact Vx | reflexivity | ]. apply Lx_lp. apply Lx_join; [exact Vi | exact H].
Qed.

Lemma Lx_wrap : forall b s tk rest ts,
  (forall rest ts, delim rest -> Lx rest ts -> Lx (s ++ rest) (tk ++ ts)) ->
  delim rest -> Lx rest ts -> Lx (wrap_chars b s ++ rest) (wrap b tk ++ ts).
Proof.
  intros b s tk rest ts IH D H. destruct b; cbn [wrap_chars wrap].
  - cbn [app]. rewrite <- !app_assoc. cbn [app]. apply Lx_lp. apply IH.
    + right. reflexivity.
    + apply Lx_rp. exact H.
  - apply IH; [exact D | exact H].
Qed.

(* ------------------------------------------------------------------------------------------ *)
(** * (B) integers *)

Lemma delim_not_digit : forall rest, delim rest ->
  match rest with c :: _ => is_digit c = false | [] => True end.
Proof. intros [ | c r] D; [exact I | ]. destruct D as [E | E]; subst c; reflexivity. Qed.

Lemma lex_exponent_delim : forall rest, delim rest -> lex_exponent rest = None.
Proof. intros [ | c r] D; [reflexivity | ]. destruct D as [E | E]; subst c; reflexivity. Qed.

Lemma lex_number_digits : forall ds rest, forallb is_digit ds = true -> delim rest ->
  lex_number (ds ++ rest) = (TInt (digits_val ds), rest).
Proof.
  intros ds rest Hd D. unfold lex_number.
  rewrite (take_while_digits_app ds rest Hd (delim_not_digit rest D)).
  destruct rest as [ | c r].
  - reflexivity.
  - destruct D as [E | E]; subst c; reflexivity.
Qed.

Lemma lex_number_show_N : forall n rest, delim rest ->
  lex_number (show_N n ++ rest) = (TInt n, rest).
Proof.
  intros n rest D. rewrite (lex_number_digits _ _ (show_N_all_digits n) D), digits_val_show_N.
  reflexivity.
Qed.

Lemma show_N_head : forall n, exists c r, show_N n = c :: r /\ is_digit c = true.
Proof.
  intro n. pose proof (show_N_all_digits n) as A. pose proof (show_N_nonempty n) as NE.
  destruct (show_N n) as [ | c r]; [contradiction | ].
  exists c, r. split; [reflexivity | ]. cbn [forallb] in A. apply andb_true_iff in A. apply A.
Qed.

Lemma Lx_int : forall n rest ts, delim rest -> Lx rest ts -> Lx (show_N n ++ rest) (TInt n :: ts).
Proof.
  intros n rest ts D H. pose proof (lex_number_show_N n rest D) as E.
  destruct (show_N_head n) as (c & r & Es & Hc). rewrite Es in E |- *. cbn [app] in E |- *.
  exact (Lx_number _ _ _ _ _ Hc E H).
Qed.

(* ------------------------------------------------------------------------------------------ *)
(** * (C) the main theorem, for any float spelling the lexer reads back *)

Section Codec.
  Variable show_float : dec -> list ascii.
  Hypothesis show_float_lex : forall f rest, dec_norm f -> delim rest ->
    (exists c r, show_float f = c :: r /\ is_digit c = true)
    /\ lex_number (show_float f ++ rest) = (TFloat f, rest).

  Lemma Lx_float : forall f rest ts, dec_norm f -> delim rest -> Lx rest ts ->
    Lx (show_float f ++ rest) (TFloat f :: ts).
  Proof.
    intros f rest ts N D H. destruct (show_float_lex f rest N D) as [(c & r & Es & Hc) E].
    rewrite Es in E |- *. cbn [app] in E |- *. exact (Lx_number _ _ _ _ _ Hc E H).
  Qed.

  Lemma Lx_expr : forall e rest ts, names_ok e = true -> floats_ok e -> delim rest ->
    Lx rest ts -> Lx (print_expr show_float e ++ rest) (toks e ++ ts).
  Proof.
    induction e as [n | f | x idx | l IHl r IHr | l IHl r IHr | l IHl r IHr];
      intros rest ts NO FO D H; cbn [print_expr toks].
    - cbn [app]. apply Lx_int; [exact D | exact H].
    - cbn [app]. apply Lx_float; [exact FO | exact D | exact H].
    - cbn [names_ok] in NO. apply andb_true_iff in NO. destruct NO as [Vx Vi].
      apply Lx_tensor; [exact Vx | exact Vi | exact H].
    - cbn [names_ok] in NO. apply andb_true_iff in NO. destruct NO as [Nl Nr].
      destruct FO as [Fl Fr].
      change (list_ascii_of_string " + ") with [" "; "+"; " "]%char.
      rewrite <- !app_assoc. cbn [app].
      apply IHl; [exact Nl | exact Fl | left; reflexivity | ].
      apply Lx_space, Lx_plus, Lx_space.
      apply Lx_wrap; [ | exact D | exact H].
      intros rest' ts' D' H'. apply IHr; assumption.
    - cbn [names_ok] in NO. apply andb_true_iff in NO. destruct NO as [Nl Nr].
      destruct FO as [Fl Fr].
      change (list_ascii_of_string " - ") with [" "; "-"; " "]%char.
      rewrite <- !app_assoc. cbn [app].
      apply IHl; [exact Nl | exact Fl | left; reflexivity | ].
      apply Lx_space, Lx_minus, Lx_space.
      apply Lx_wrap; [ | exact D | exact H].
      intros rest' ts' D' H'. apply IHr; assumption.
    - cbn [names_ok] in NO. apply andb_true_iff in NO. destruct NO as [Nl Nr].
      destruct FO as [Fl Fr].
      change (list_ascii_of_string " * ") with [" "; "*"; " "]%char.
      rewrite <- !app_assoc. cbn [app].
      apply Lx_wrap.
      + intros rest' ts' D' H'. apply IHl; assumption.
      + left. reflexivity.
      + apply Lx_space, Lx_star, Lx_space.
        apply Lx_wrap; [ | exact D | exact H].
        intros rest' ts' D' H'. apply IHr; assumption.
  Qed.

  Theorem lex_print_assignment : forall a,
    valid_name (tname a) = true -> forallb valid_name (tindexes a) = true ->
    names_ok (rhs a) = true -> floats_ok (rhs a) ->
    lex_chars (print_assignment show_float a) = Some (deparse a).
  Proof.
    intros a Vx Vi NO FO.
    assert (L : Lx (print_assignment show_float a) (deparse a)).
    { unfold print_assignment, deparse.
      change (list_ascii_of_string " = ") with [" "; "="; " "]%char. cbn [app].
      apply Lx_tensor; [exact Vx | exact Vi | ].
      apply Lx_space, Lx_eq, Lx_space.
      rewrite <- (app_nil_r (print_expr show_float (rhs a))), <- (app_nil_r (toks (rhs a))).
      apply Lx_expr; [exact NO | exact FO | exact I | exact Lx_nil]. }
    destruct L as [n L]. exact (lex_chars_of_fuel _ _ _ L).
  Qed.

  Theorem print_parse_roundtrip : forall a, wf_ast a ->
    parse_assignment (string_of_list_ascii (print_assignment show_float a)) = POk a.
  Proof.
    intros a (V & Vx & Vi & NO & FO). unfold parse_assignment, lex.
    rewrite list_ascii_of_string_of_list_ascii.
    change (lex_fuel (length (print_assignment show_float a)) (print_assignment show_float a))
      with (lex_chars (print_assignment show_float a)).
    rewrite (lex_print_assignment a Vx Vi NO FO). apply parse_deparse. exact V.
  Qed.
End Codec.

(* ------------------------------------------------------------------------------------------ *)
(** * (D) the canonical float spelling satisfies the codec hypothesis *)

Lemma lex_exponent_show : forall (neg : bool) k rest, delim rest ->
  lex_exponent ("e"%char :: (if neg then "-"%char :: show_N k else show_N k) ++ rest)
  = Some (if neg then (- Z.of_N k)%Z else Z.of_N k, rest).
Proof.
  intros neg k rest D. unfold lex_exponent. change (is_e "e") with true. cbv iota.
  destruct (show_N_head k) as (c & r & Es & Hc).
  pose proof (take_while_digits_app (show_N k) rest (show_N_all_digits k)
                (delim_not_digit rest D)) as T.
  pose proof (digits_val_show_N k) as V.
  destruct neg.
  - cbn [app]. cbv beta iota zeta. rewrite T. rewrite Es at 1. rewrite V. reflexivity.
  - cbv iota. rewrite (sign_digit_list (show_N k ++ rest) c (r ++ rest)).
    + cbv beta iota zeta. rewrite T. rewrite Es at 1. rewrite V. reflexivity.
    + rewrite Es. reflexivity.
    + exact Hc.
Qed.

Lemma show_dec_canonical_lex : forall f rest, dec_norm f -> delim rest ->
  (exists c r, show_dec_canonical f = c :: r /\ is_digit c = true)
  /\ lex_number (show_dec_canonical f ++ rest) = (TFloat f, rest).
Proof.
  intros [m e] rest N D. unfold dec_norm in N. cbn [dmant dexp] in N.
  unfold show_dec_canonical. cbn [dmant dexp]. split.
  - destruct (show_N_head m) as (c & r & Es & Hc). rewrite Es. cbn [app].
    exists c. eexists. split; [reflexivity | exact Hc].
  - rewrite <- app_assoc. cbn [app]. unfold lex_number.
    rewrite take_while_digits_app; [ | apply show_N_all_digits | reflexivity].
    cbv beta iota zeta.
    set (neg := (e <? 0)%Z).
    set (k := if neg then Z.to_N (- e) else Z.to_N e).
    assert (Ek : (if neg then "-"%char :: show_N (Z.to_N (- e)) else show_N (Z.to_N e))
                 = (if neg then "-"%char :: show_N k else show_N k)).
    { unfold k. destruct neg; reflexivity. }
    rewrite Ek, (lex_exponent_show neg k rest D), digits_val_show_N.
    assert (Ee : (if neg then (- Z.of_N k)%Z else Z.of_N k) = e).
    { unfold k, neg. destruct (Z.ltb_spec e 0); lia. }
    rewrite Ee, N. reflexivity.
Qed.

Corollary print_parse_roundtrip_canonical : forall a, wf_ast a ->
  parse_assignment (string_of_list_ascii (print_assignment show_dec_canonical a)) = POk a.
Proof. exact (print_parse_roundtrip show_dec_canonical show_dec_canonical_lex). Qed.

(* ------------------------------------------------------------------------------------------ *)
(** * (E) integer-only trees need no codec *)

Lemma print_expr_float_free : forall sf1 sf2 e, float_free e = true ->
  print_expr sf1 e = print_expr sf2 e.
Proof.
  intros sf1 sf2. induction e as [n | f | x idx | l IHl r IHr | l IHl r IHr | l IHl r IHr];
    intro F; cbn [float_free] in F; try discriminate F; try reflexivity;
    apply andb_true_iff in F; destruct F as [Fl Fr]; cbn [print_expr];
    rewrite (IHl Fl), (IHr Fr); reflexivity.
Qed.

Theorem print_parse_roundtrip_int : forall show_float a, wf_ast a -> float_free (rhs a) = true ->
  parse_assignment (string_of_list_ascii (print_assignment show_float a)) = POk a.
Proof.
  intros sf a W F. unfold print_assignment.
  rewrite (print_expr_float_free sf show_dec_canonical _ F).
  exact (print_parse_roundtrip_canonical a W).
Qed.

(* ------------------------------------------------------------------------------------------ *)
(** * Examples: the hypotheses are satisfiable by trees with floats and nested parentheses *)

Local Open Scope string_scope.   (* only string literals below; no [++] *)

Definition ex_ast : assignment :=
  Assign "A" ["i"; "j"]
    (EMul (EAdd (ETensor "B" ["i"; "k"]) (EFloat (Dec 25 (-1))))
          (EMul (ETensor "C2" ["k"; "j"]) (ESub (EInt 10) (ESub (EInt 3) (ETensor "d" []))))).

Example ex_ast_wf : wf_ast ex_ast.
Proof. repeat split; vm_compute; reflexivity. Qed.

Example ex_ast_text :
  string_of_list_ascii (print_assignment show_dec_canonical ex_ast)
  = "A(i,j) = (B(i,k) + 25e-1) * (C2(k,j) * (10 - (3 - d())))"%string.
Proof. vm_compute. reflexivity. Qed.

Example ex_ast_roundtrip :
  parse_assignment "A(i,j) = (B(i,k) + 25e-1) * (C2(k,j) * (10 - (3 - d())))" = POk ex_ast.
Proof. rewrite <- ex_ast_text. apply print_parse_roundtrip_canonical. exact ex_ast_wf. Qed.

(** the same text with the usual spelling of the float lexes to the same tokens *)
Example ex_ast_roundtrip_dot :
  parse_assignment "A(i,j) = (B(i,k) + 2.50) * (C2(k,j) * (10 - (3 - d())))" = POk ex_ast.
Proof. vm_compute. reflexivity. Qed.

(** [dec_norm] is needed: a mantissa with a trailing zero is not what the lexer returns *)
Example dec_norm_needed :
  lex_number (show_dec_canonical (Dec 250 (-2))) = (TFloat (Dec 25 (-1)), []).
Proof. vm_compute. reflexivity. Qed.
