(** [Expression.variables()] and [Assignment.__post_init__] (model/ExprAst.v):
    the dict maps each tensor name to its references in order; keys are in first-appearance order. *)

From Coq Require Import String List ZArith Bool Arith Lia Permutation.
From TV Require Import model.ExprAst proofs.ValidateBase.
Import ListNotations.

Definition refs_of (n : string) (l : list tref) : list tref :=
  filter (fun t => String.eqb (t_name t) n) l.

Definition opt_app (a b : option (list tref)) : option (list tref) :=
  match a, b with
  | Some x, Some y => Some (x ++ y)
  | Some x, None => Some x
  | None, Some y => Some y
  | None, None => None
  end.

Definition opt_refs (l : list tref) : option (list tref) :=
  match l with [] => None | _ => Some l end.

Lemma opt_refs_app : forall a b, opt_refs (a ++ b) = opt_app (opt_refs a) (opt_refs b).
Proof.
  intros [|x a] [|y b]; simpl; try reflexivity. rewrite app_nil_r. reflexivity.
Qed.

Lemma vars_add_get : forall acc k v n,
  aget n (vars_add acc (k, v)) =
  if String.eqb k n then opt_app (aget n acc) (Some v) else aget n acc.
Proof.
  intros acc k v n. unfold vars_add. simpl.
  destruct (String.eqb k n) eqn:E.
  - apply String.eqb_eq in E. subst n. destruct (aget k acc); rewrite aget_aput_same; reflexivity.
  - apply String.eqb_neq in E. destruct (aget k acc); rewrite aget_aput_other by assumption; reflexivity.
Qed.

Lemma vars_add_NoDup : forall acc kv, NoDup (akeys acc) -> NoDup (akeys (vars_add acc kv)).
Proof.
  intros acc [k v] H. unfold vars_add. simpl. destruct (aget k acc); apply akeys_aput_NoDup; assumption.
Qed.

Lemma vars_merge_NoDup : forall r l, NoDup (akeys l) -> NoDup (akeys (vars_merge l r)).
Proof.
  unfold vars_merge. induction r as [|kv r IH]; intros l H; simpl; [assumption|].
  apply IH. apply vars_add_NoDup. assumption.
Qed.

Lemma vars_merge_get : forall r l n,
  NoDup (akeys r) ->
  aget n (vars_merge l r) = opt_app (aget n l) (aget n r).
Proof.
  unfold vars_merge. induction r as [|[k v] r IH]; intros l n ND; simpl.
  - destruct (aget n l); reflexivity.
  - inversion ND as [|? ? Hk ND']; subst. rewrite IH by assumption. rewrite vars_add_get.
    destruct (String.eqb n k) eqn:E.
    + apply String.eqb_eq in E. subst n. rewrite String.eqb_refl.
      assert (R : aget k r = None) by (apply aget_None; exact Hk). rewrite R.
      destruct (aget k l); reflexivity.
    + rewrite String.eqb_sym, E. reflexivity.
Qed.

Lemma variables_NoDup : forall e, NoDup (akeys (variables e)).
Proof.
  induction e; simpl; try constructor; try (apply vars_merge_NoDup; assumption).
  - simpl; tauto.
  - constructor.
Qed.

(** the dict value of a name: all its references, left to right *)
Lemma variables_get : forall e n, aget n (variables e) = opt_refs (refs_of n (occurrences e)).
Proof.
  induction e as [v|v|t|l IHl r IHr|l IHl r IHr|l IHl r IHr]; intros n; simpl;
    try reflexivity;
    try (rewrite vars_merge_get by apply variables_NoDup;
         unfold refs_of; rewrite filter_app, opt_refs_app; fold (refs_of n (occurrences l));
         fold (refs_of n (occurrences r)); rewrite IHl, IHr; reflexivity).
  unfold refs_of. simpl. rewrite String.eqb_sym. destruct (String.eqb (t_name t) n); reflexivity.
Qed.

Lemma refs_of_In : forall n l t, In t (refs_of n l) <-> In t l /\ t_name t = n.
Proof. intros. unfold refs_of. rewrite filter_In, String.eqb_eq. tauto. Qed.

Lemma variables_entry : forall e n refs,
  In (n, refs) (variables e) ->
  refs <> [] /\ forall t, In t refs <-> In t (occurrences e) /\ t_name t = n.
Proof.
  intros e n refs H.
  assert (G : aget n (variables e) = Some refs) by (apply aget_NoDup_In; [apply variables_NoDup | exact H]).
  rewrite variables_get in G. unfold opt_refs in G.
  destruct (refs_of n (occurrences e)) eqn:E; [discriminate|]. inversion G; subst refs.
  split; [discriminate|]. intros t0. rewrite <- E. apply refs_of_In.
Qed.

Lemma variables_occurrence : forall e t,
  In t (occurrences e) -> exists refs, In (t_name t, refs) (variables e) /\ In t refs.
Proof.
  intros e t H.
  assert (R : In t (refs_of (t_name t) (occurrences e))) by (apply refs_of_In; auto).
  destruct (refs_of (t_name t) (occurrences e)) as [|x xs] eqn:E; [destruct R|].
  exists (x :: xs). split; [|exact R].
  apply aget_In. rewrite variables_get, E. reflexivity.
Qed.

(* ------------------------------------------------------------------------------------------ *)
(** * keys in first-appearance order *)

Lemma sdedup_acc_ext : forall l s1 s2,
  (forall y, In y s1 <-> In y s2) -> sdedup_acc s1 l = sdedup_acc s2 l.
Proof.
  induction l as [|y l IH]; intros s1 s2 H; simpl; [reflexivity|].
  assert (E : smem y s1 = smem y s2).
  { destruct (smem y s1) eqn:E1, (smem y s2) eqn:E2; try reflexivity.
    - apply smem_In in E1. apply smem_false in E2. apply H in E1. contradiction.
    - apply smem_In in E2. apply smem_false in E1. apply H in E2. contradiction. }
  rewrite E. destruct (smem y s2).
  - apply IH; assumption.
  - f_equal. apply IH. intros z. simpl. rewrite H. tauto.
Qed.

Lemma sdedup_acc_app : forall a b seen,
  sdedup_acc seen (a ++ b) = sdedup_acc seen a ++ sdedup_acc (rev a ++ seen) b.
Proof.
  induction a as [|x a IH]; intros b seen; simpl; [reflexivity|].
  destruct (smem x seen) eqn:E.
  - rewrite IH. f_equal. apply sdedup_acc_ext. intros y. rewrite !in_app_iff. simpl.
    apply smem_In in E. split; intros H; intuition (subst; auto).
  - simpl. rewrite IH. f_equal. f_equal. rewrite <- app_assoc. reflexivity.
Qed.

(** keys of a merge: the left keys, then the new right keys in their order *)
Lemma vars_merge_keys : forall r l,
  NoDup (akeys r) ->
  akeys (vars_merge l r) = akeys l ++ filter (fun k => negb (smem k (akeys l))) (akeys r).
Proof.
  unfold vars_merge. induction r as [|[k v] r IH]; intros l ND; simpl.
  - rewrite app_nil_r. reflexivity.
  - inversion ND as [|? ? Hk ND']; subst. rewrite IH by assumption.
    assert (K : akeys (vars_add l (k, v)) = if smem k (akeys l) then akeys l else akeys l ++ [k]).
    { unfold vars_add. simpl. destruct (aget k l) eqn:E; rewrite akeys_aput; unfold amem; rewrite E.
      - assert (smem k (akeys l) = true) by (apply smem_In; eapply aget_Some_key; eauto).
        rewrite H. reflexivity.
      - assert (smem k (akeys l) = false) by (apply smem_false, aget_None; exact E).
        rewrite H. reflexivity. }
    rewrite K. destruct (smem k (akeys l)) eqn:E; simpl.
    + reflexivity.
    + rewrite <- app_assoc. simpl. f_equal. f_equal.
      apply filter_ext_in. intros x Hx. f_equal.
      assert (x <> k) by (intros ->; contradiction).
      destruct (smem x (akeys l ++ [k])) eqn:E1, (smem x (akeys l)) eqn:E2; try reflexivity.
      * apply smem_In in E1. apply smem_false in E2. apply in_app_iff in E1.
        destruct E1 as [?|[?|[]]]; [contradiction | congruence].
      * apply smem_In in E2. apply smem_false in E1. exfalso. apply E1, in_app_iff. auto.
Qed.

Lemma filter_sdedup_acc : forall l seen (a : list string),
  filter (fun k => negb (smem k a)) (sdedup_acc seen l) = sdedup_acc (a ++ seen) l.
Proof.
  induction l as [|x l IH]; intros seen a; simpl; [reflexivity|].
  destruct (smem x seen) eqn:E.
  - assert (E' : smem x (a ++ seen) = true) by (apply smem_In, in_app_iff; right; apply smem_In; exact E).
    rewrite E'. apply IH.
  - simpl. destruct (smem x a) eqn:Ea; simpl.
    + assert (E' : smem x (a ++ seen) = true) by (apply smem_In, in_app_iff; left; apply smem_In; exact Ea).
      rewrite E'. rewrite IH. apply sdedup_acc_ext. intros y. rewrite !in_app_iff. simpl.
      apply smem_In in Ea. split; intros H; intuition (subst; auto).
    + assert (E' : smem x (a ++ seen) = false).
      { apply smem_false. rewrite in_app_iff. apply smem_false in E. apply smem_false in Ea. tauto. }
      rewrite E'. f_equal. rewrite IH. apply sdedup_acc_ext. intros y. rewrite !in_app_iff. simpl.
      rewrite in_app_iff. tauto.
Qed.

(** [variables(e)] lists the tensor names in order of first appearance *)
Lemma variables_keys : forall e, akeys (variables e) = sdedup (map t_name (occurrences e)).
Proof.
  induction e as [v|v|t|l IHl r IHr|l IHl r IHr|l IHl r IHr]; simpl; try reflexivity;
    rewrite vars_merge_keys by apply variables_NoDup;
    rewrite map_app; unfold sdedup; rewrite sdedup_acc_app, app_nil_r;
    rewrite IHl, IHr; unfold sdedup; f_equal;
    rewrite filter_sdedup_acc, app_nil_r;
    apply sdedup_acc_ext; intros y; rewrite <- in_rev;
    rewrite sdedup_acc_In; simpl; tauto.
Qed.
