(** The initial states built by spec/IRRun.v satisfy the hypothesis of the safety theorems. *)
From Coq Require Import ZArith Bool List String Lia FMapPositive.
From TV Require Import spec.Num gen.IRAst spec.IRSem spec.IRRun proofs.MachineSafety.
Import ListNotations.

Lemma add_block_wf st fl n cells inp st' p :
  wf_heap st -> add_block st fl n cells inp = (st', p) -> wf_heap st' /\ (next_blk st <= next_blk st')%positive.
Proof.
  unfold add_block. intros W H. inv H. split; [|simpl; lia].
  intros b blk. simpl. destruct (Pos.eq_dec b (next_blk st)) as [->|N].
  - intros _. lia.
  - rewrite PM.gso by auto. intros F. apply W in F. lia.
Qed.

Local Arguments add_block : simpl never.

Lemma add_levels_wf lv : forall st st' l, wf_heap st -> add_levels st lv = (st', l) -> wf_heap st'.
Proof.
  induction lv as [|[[pos crd]|] r IH]; intros st st' l W H; cbn [add_levels] in H.
  - now inv H.
  - match type of H with context [add_block st ?a1 ?a2 ?a3 ?a4] =>
      destruct (add_block st a1 a2 a3 a4) as [st1 p] eqn:E1 end.
    match type of H with context [add_block st1 ?a1 ?a2 ?a3 ?a4] =>
      destruct (add_block st1 a1 a2 a3 a4) as [st2 c] eqn:E2 end.
    destruct (add_levels st2 r) as [st3 l3] eqn:E3. inv H.
    apply add_block_wf in E1; auto. destruct E1 as [W1 _].
    apply add_block_wf in E2; auto. destruct E2 as [W2 _]. eauto.
  - destruct (add_levels st r) as [st1 l1] eqn:E. inv H. eauto.
Qed.

Lemma add_tensor_wf st id t : wf_heap st -> wf_heap (add_tensor st id t).
Proof.
  intros W. unfold add_tensor. destruct (ti_output t).
  - exact W.
  - destruct (add_levels st (ti_levels t)) as [st1 idx] eqn:E1.
    match goal with |- context [add_block st1 ?a1 ?a2 ?a3 ?a4] =>
      destruct (add_block st1 a1 a2 a3 a4) as [st2 v] eqn:E2 end.
    apply add_levels_wf in E1; auto. apply add_block_wf in E2; auto. destruct E2 as [W2 _]. exact W2.
Qed.

Lemma init_tensors_wf ts : forall st id st' args,
  wf_heap st -> init_tensors st id ts = (st', args) -> wf_heap st'.
Proof.
  induction ts as [|t r IH]; intros st id st' args W H; simpl in H.
  - now inv H.
  - destruct (init_tensors (add_tensor st id t) (Pos.succ id) r) as [st'' a] eqn:E. inv H.
    eapply IH; [|eauto]. now apply add_tensor_wf.
Qed.

Theorem init_state_wf ts : wf_heap (fst (init_state ts)).
Proof.
  unfold init_state. destruct (init_tensors empty_state 1 ts) as [st args] eqn:E. simpl.
  eapply init_tensors_wf; [|eauto]. intros b blk. simpl. rewrite PM.gempty. discriminate.
Qed.
