(** Soundness of the optimiser on statements and whole functions (property C07). *)

From Coq Require Import ZArith Bool List String Lia FMapPositive.
From Flocq Require Import Core BinarySingleNaN.
From TV Require Import spec.Num gen.IRAst gen.Peephole spec.IRSem proofs.NumLemmas proofs.PeepholeExpr.
Import ListNotations.
Open Scope Z_scope.

(** * Small facts about the machine *)

Lemma coerce_vle t v' v w : vle v' v -> coerce t v = Ok w -> coerce t v' = Ok w.
Proof.
  intros [-> | (z & -> & -> & Hz)] H; auto.
  destruct t as [| | | | |t'| |]; simpl in *; try discriminate; try (destruct t'; discriminate).
  destruct (is_canon (cZ2F z)); try discriminate. inv H. reflexivity.
Qed.

Lemma typed_coerce t v : typed t v = true -> coerce t v = Ok v.
Proof.
  destruct t as [| | | | |t'| |], v; simpl; try discriminate; auto;
    try (intros ->; reflexivity); destruct t'; try discriminate; auto.
Qed.

Lemma pm_add_same {A} (m : PM.t A) : forall k v, PM.find k m = Some v -> PM.add k v m = m.
Proof.
  induction m as [|l IHl o r IHr]; intros k v H.
  - destruct k; discriminate.
  - destruct k; simpl in *.
    + f_equal. auto.
    + f_equal. auto.
    + now subst.
Qed.

Lemma set_var_same x d e : lookup x e = Some d -> set_var x d e = e.
Proof.
  induction e as [|[y d0] e IH]; simpl; try discriminate.
  destruct (String.eqb x y) eqn:E.
  - intros H. inv H. reflexivity.
  - intros H. f_equal. auto.
Qed.

Lemma set_nth_same {A} (l : list A) : forall n x, nth_error l n = Some x -> set_nth l n x = Some l.
Proof.
  induction l as [|a l IH]; intros [|n] x H; simpl in *; try discriminate.
  - now inv H.
  - now rewrite (IH _ _ H).
Qed.

Lemma with_env_id st : with_env st (env st) = st.
Proof. now destruct st. Qed.
Lemma with_heap_id st : with_heap st (heap st) = st.
Proof. now destruct st. Qed.
Lemma with_tensors_id st : with_tensors st (tensors st) = st.
Proof. now destruct st. Qed.

(** * Reading a location: what [eval] does on an assignable, via [eval_loc] *)

Definition read_loc (st : state) (l : loc) : res (value * list event) :=
  match l with
  | LVar x =>
      match lookup x (env st) with
      | Some (t, Some v) => if typed t v then Ok (v, []) else Err EIllTyped
      | _ => Err EUnbound
      end
  | LCell blk off => do x <- load st blk off; Ok (x, [ELoad blk off])
  | LTVals t => do ts <- tensor_of st t; if is_ptr (t_vals ts) then Ok (t_vals ts, []) else Err EIllTyped
  | LTIdx t l j => index_value st (VLevel t l) (VInt j)
  end.

Lemma eval_via_loc st e l t :
  eval_loc st e = Ok (l, t) ->
  eval st e = (do '(v, t') <- read_loc st l; Ok (v, t ++ t')).
Proof.
  destruct e; simpl; try discriminate; unfold bind.
  - intros H. inv H. simpl. destruct (lookup name (env st)) as [[ty [v|]]|]; auto.
    destruct (typed ty v); auto.
  - destruct (eval st e) as [[v t1]|]; try discriminate.
    destruct v; try discriminate.
    destruct (String.eqb attribute "vals") eqn:E; try discriminate. intros H. inv H.
    simpl. apply String.eqb_eq in E. subst. simpl. unfold bind.
    destruct (tensor_of st t0); auto. destruct (is_ptr _); auto. now rewrite app_nil_r.
  - destruct (eval st e1) as [[v t1]|]; try discriminate.
    destruct (eval st e2) as [[i t2]|]; try discriminate.
    destruct v, i; try discriminate; intros H; inv H; simpl; unfold bind.
    + destruct (load st blk (off + z)); auto. now rewrite app_assoc.
    + destruct (tensor_of st t0); auto. destruct (nthZ_opt _ _) as [[p c]|]; auto.
      destruct (negb _); auto.
      destruct (z =? 0); [now rewrite !app_nil_r|].
      destruct (z =? 1); [now rewrite !app_nil_r|auto].
Qed.

Lemma read_loc_no_overflow st l : read_loc st l <> Err EOverflow.
Proof.
  destruct l; simpl; unfold bind.
  - destruct (lookup x (env st)) as [[ty [v|]]|]; try discriminate. destruct (typed ty v); discriminate.
  - unfold load. destruct (PM.find blk (heap st)); try discriminate.
    destruct (negb _); try discriminate. destruct (_ || _); try discriminate.
    destruct (PM.find _ _); try discriminate. destruct (typed _ _); discriminate.
  - unfold tensor_of. destruct (PM.find t (tensors st)); try discriminate.
    destruct (is_ptr _); discriminate.
  - unfold tensor_of. destruct (PM.find t (tensors st)); try discriminate.
    destruct (nthZ_opt _ _) as [[p c]|]; try discriminate. destruct (negb _); try discriminate.
    destruct (j =? 0); try discriminate. destruct (j =? 1); discriminate.
Qed.

(** writing back what was read changes nothing *)
Lemma assign_read_same st l v t st' t' :
  read_loc st l = Ok (v, t) -> assign st l v = Ok (st', t') -> st' = st.
Proof.
  intros R A. destruct l; simpl in *; unfold bind in *.
  - destruct (lookup x (env st)) as [[ty [v0|]]|] eqn:L; try discriminate.
    destruct (typed ty v0) eqn:T; try discriminate. inv R.
    rewrite (typed_coerce _ _ T) in A. inv A. rewrite (set_var_same _ _ _ L). apply with_env_id.
  - destruct (load st blk off) eqn:L; try discriminate. inv R.
    unfold load in L. unfold store in A.
    destruct (PM.find blk (heap st)) as [b|] eqn:Fb; try discriminate.
    destruct (negb (b_live b)) eqn:Lv; try discriminate.
    destruct (b_input b) eqn:Bi; try discriminate.
    destruct (_ || _); try discriminate.
    destruct (PM.find (key off) (b_cells b)) as [c|] eqn:Fc; try discriminate.
    destruct (typed _ c) eqn:T; try discriminate. inv L.
    unfold bind in A. rewrite (typed_coerce _ _ T) in A. inv A.
    rewrite (pm_add_same _ _ _ Fc).
    assert (mkBlock (b_float b) (b_len b) (b_cells b) true false = b) as ->.
    { destruct b; simpl in *. apply negb_false_iff in Lv. now subst. }
    rewrite (pm_add_same _ _ _ Fb). apply with_heap_id.
  - destruct (tensor_of st t0) as [ts|] eqn:Tt; try discriminate.
    destruct (is_ptr (t_vals ts)) eqn:P; try discriminate. inv R.
    destruct (negb (t_output ts)) eqn:O; try discriminate. rewrite P in A. simpl in A. inv A.
    unfold tensor_of in Tt. destruct (PM.find t0 (tensors st)) as [ts'|] eqn:F; try discriminate. inv Tt.
    assert (mkTensorS (t_dims ts) (t_idx ts) (t_vals ts) true = ts) as ->.
    { destruct ts; simpl in *. apply negb_false_iff in O. now subst. }
    rewrite (pm_add_same _ _ _ F). apply with_tensors_id.
  - destruct (tensor_of st t0) as [ts|] eqn:Tt; try discriminate.
    unfold nthZ_opt in R.
    destruct (l <? 0) eqn:Ln; try discriminate.
    destruct (nth_error (t_idx ts) (Z.to_nat l)) as [[p c]|] eqn:N; try discriminate.
    destruct (negb (is_ptr p && is_ptr c)) eqn:PC; try discriminate.
    destruct (negb (t_output ts)) eqn:O; try discriminate.
    unfold tensor_of in Tt. destruct (PM.find t0 (tensors st)) as [ts'|] eqn:F; try discriminate. inv Tt.
    assert (forall pc, pc = (p, c) ->
            match set_nth (t_idx ts) (Z.to_nat l) pc with
            | Some idx' => Ok (with_tensors st (PM.add t0 (mkTensorS (t_dims ts) idx' (t_vals ts) true) (tensors st)), [EField t0])
            | None => Err EOutOfBounds
            end = Ok (st', t') -> st' = st) as K.
    { intros pc -> H. rewrite (set_nth_same _ _ _ N) in H. inv H.
      assert (mkTensorS (t_dims ts) (t_idx ts) (t_vals ts) true = ts) as ->.
      { destruct ts; simpl in *. apply negb_false_iff in O. now subst. }
      rewrite (pm_add_same _ _ _ F). apply with_tensors_id. }
    destruct (j =? 0) eqn:J0.
    + inv R. destruct (negb (is_ptr v)); try discriminate. simpl in A. apply (K _ eq_refl A).
    + destruct (j =? 1) eqn:J1; try discriminate. inv R.
      destruct (negb (is_ptr v)); try discriminate. simpl in A. apply (K _ eq_refl A).
Qed.

(** * Locations and right-hand sides under the optimiser *)

Lemma eval_loc_sound st e l t :
  eval_loc st e = Ok (l, t) ->
  exists t', eval_loc st (peephole_assignable e) = Ok (l, t') /\ sub t' t.
Proof.
  destruct e; simpl; try discriminate; unfold bind.
  - intros H. inv H. eauto using sub_refl.
  - pose proof (pa_sound st _ (peephole_expression_sound e st)) as He.
    destruct (eval st e) as [[v t1]|]; try discriminate.
    destruct v; try discriminate.
    destruct (erel_exact _ _ _ He (fun x => x)) as (t1' & -> & S).
    destruct (String.eqb attribute "vals"); try discriminate. intros H; inv H. eauto.
  - pose proof (pa_sound st _ (peephole_expression_sound e1 st)) as H1.
    pose proof (peephole_expression_sound e2 st) as H2.
    destruct (eval st e1) as [[v t1]|]; try discriminate.
    destruct (eval st e2) as [[i t2]|]; try discriminate.
    destruct v, i; try discriminate;
      destruct (erel_exact _ _ _ H1 (fun x => x)) as (t1' & -> & S1);
      destruct (erel_exact _ _ _ H2 (fun x => x)) as (t2' & -> & S2);
      intros H; inv H; eexists; split; eauto with subdb.
Qed.

Lemma pe_not_alloc st e v t :
  eval st e = Ok (v, t) ->
  eval_rhs st (peephole_expression e) =
    (do '(v', t') <- eval st (peephole_expression e); Ok (st, v', t')).
Proof.
  intros E. pose proof (peephole_expression_sound e st) as H. rewrite E in H.
  destruct (peephole_expression e) eqn:P; try reflexivity; exfalso;
    destruct H as [(v' & t' & H & _) | (_ & H)]; simpl in H; discriminate.
Qed.

Lemma is_Assignable_pa e : is_Assignable (peephole_assignable e) = is_Assignable e.
Proof. destruct e; reflexivity. Qed.

Lemma eval_rhs_plain st e :
  (forall a b, e <> ArrayAllocate a b) -> (forall a b c, e <> ArrayReallocate a b c) ->
  eval_rhs st e = (do '(v, t1) <- eval st e; Ok (st, v, t1)).
Proof. intros N1 N2. destruct e; try reflexivity; exfalso; [eapply N1 | eapply N2]; reflexivity. Qed.

Lemma eval_rhs_sound_plain st e st1 v t :
  (forall a b, e <> ArrayAllocate a b) -> (forall a b c, e <> ArrayReallocate a b c) ->
  eval_rhs st e = Ok (st1, v, t) ->
  (exists v' t', eval_rhs st (peephole_expression e) = Ok (st1, v', t') /\ vle v' v /\ sub t' t)
  \/ (is_float v /\ eval_rhs st (peephole_expression e) = Err EOverflow).
Proof.
  intros N1 N2 H. rewrite (eval_rhs_plain st e N1 N2) in H. unfold bind in H.
  destruct (eval st e) as [[v0 t0]|] eqn:E; try discriminate. injection H as <- <- <-.
  rewrite (pe_not_alloc st _ _ _ E).
  pose proof (peephole_expression_sound e st) as S. rewrite E in S.
  destruct S as [(v' & t' & -> & V & Sb) | (Fv & ->)]; [left; simpl; eauto | right; simpl; auto].
Qed.

Lemma eval_rhs_sound st e st1 v t :
  eval_rhs st e = Ok (st1, v, t) ->
  (exists v' t', eval_rhs st (peephole_expression e) = Ok (st1, v', t') /\ vle v' v /\ sub t' t)
  \/ (is_float v /\ eval_rhs st (peephole_expression e) = Err EOverflow).
Proof.
  intros H.
  destruct e as [x | tgt attr | tgt idx | z | f | b
    | l r | l r | l r | l r | l r | l r | l r | l r | l r | l r | l r | l r | l r
    | x | ty n | old ty n];
  try (apply eval_rhs_sound_plain; [intros; discriminate | intros; discriminate | exact H]).
  - (* ArrayAllocate *)
    simpl in H. unfold bind in H. cbn [peephole_expression]. cbv zeta. simpl. unfold bind.
    pose proof (peephole_expression_sound n st) as Hn.
    destruct (eval st n) as [[vn t1]|]; try discriminate.
    destruct vn; try discriminate.
    destruct (erel_exact _ _ _ Hn (fun x => x)) as (t1' & -> & S1).
    destruct (alloc st ty z) as [[[st' p] t2]|]; try discriminate. inv H.
    left. eexists _, _. split; [reflexivity|]. auto using vle_refl with subdb.
  - (* ArrayReallocate *)
    simpl in H. unfold bind in H. cbn [peephole_expression]. cbv zeta. simpl. unfold bind.
    rewrite is_Assignable_pa.
    destruct (negb (is_Assignable old)); try discriminate.
    pose proof (pa_sound st _ (peephole_expression_sound old st)) as Ho.
    pose proof (peephole_expression_sound n st) as Hn.
    destruct (eval st old) as [[vo t1]|]; try discriminate.
    destruct (eval st n) as [[vn t2]|]; try discriminate.
    destruct vn; try discriminate.
    destruct (realloc st vo ty z) as [[[st' p] t3]|] eqn:R; try discriminate. inv H.
    assert (No : ~ is_float vo).
    { unfold realloc, bind in R. destruct (elt_is_float ty); try discriminate.
      destruct (z <? 0); try discriminate. destruct vo; simpl; try discriminate; tauto. }
    destruct (erel_exact _ _ _ Ho No) as (t1' & -> & S1).
    destruct (erel_exact _ _ _ Hn (fun x => x)) as (t2' & -> & S2).
    rewrite R. left. eexists _, _. split; [reflexivity|]. auto using vle_refl with subdb.
Qed.

Lemma assign_vle st l v' v st2 t :
  vle v' v -> assign st l v = Ok (st2, t) -> assign st l v' = Ok (st2, t).
Proof.
  intros V A. destruct l; simpl in *; unfold bind in *.
  - destruct (lookup x (env st)) as [[ty o]|]; try discriminate.
    destruct (coerce ty v) eqn:C; try discriminate. now rewrite (coerce_vle _ _ _ _ V C).
  - unfold store in *. destruct (PM.find blk (heap st)); try discriminate.
    destruct (negb _); try discriminate. destruct (b_input b); try discriminate.
    destruct (_ || _); try discriminate. unfold bind in *.
    destruct (coerce _ v) eqn:C; try discriminate. now rewrite (coerce_vle _ _ _ _ V C).
  - destruct (tensor_of st t0) as [ts|]; try discriminate. destruct (negb (t_output ts)); try discriminate.
    destruct (negb (is_ptr v)) eqn:P; try discriminate.
    assert (v' = v) as ->; [|now rewrite P].
    apply vle_nonfloat; auto. destruct v; simpl in *; try discriminate; tauto.
  - destruct (tensor_of st t0) as [ts|]; try discriminate. destruct (negb (t_output ts)); try discriminate.
    destruct (negb (is_ptr v)) eqn:P; try discriminate.
    assert (v' = v) as ->; [|now rewrite P].
    apply vle_nonfloat; auto. destruct v; simpl in *; try discriminate; tauto.
Qed.

(** * Statements *)

Section RUN_BLOCK.
  Variable ex : stmt -> state -> outcome.
  Fixpoint run_block (l : list stmt) (st : state) (tr : list event) : outcome :=
    match l with
    | [] => Normal st tr
    | s1 :: r =>
        match ex s1 st with
        | Normal st' t1 => run_block r st' (tr ++ t1)
        | Returned st' v t1 => Returned st' v (tr ++ t1)
        | Fail x => Fail x
        | OutOfFuel => OutOfFuel
        end
    end.
End RUN_BLOCK.

Lemma exec_block n ss c st : exec (S n) (Block ss c) st = run_block (exec n) ss st [].
Proof. reflexivity. Qed.

Definition pblock : list stmt -> list stmt :=
  fix loop_ (l_ : list stmt) : list stmt :=
    match l_ with
    | nil => nil
    | old_statement :: rest_ =>
        let statement := peephole_statement old_statement in
        if is_Block statement && Block_is_empty statement then loop_ rest_
        else statement :: loop_ rest_
    end.

Lemma peephole_block ss c : peephole_statement (Block ss c) = Block (pblock ss) c.
Proof. reflexivity. Qed.

Lemma empty_block_inv s : is_Block s && Block_is_empty s = true -> exists c, s = Block [] c.
Proof.
  destruct s; simpl; try discriminate. destruct statements; simpl; try discriminate; eauto.
Qed.

(** ** Fuel monotonicity *)

Lemma run_block_mono (ex ex' : stmt -> state -> outcome) :
  (forall s st o, ex s st = o -> o <> OutOfFuel -> ex' s st = o) ->
  forall l st tr o, run_block ex l st tr = o -> o <> OutOfFuel -> run_block ex' l st tr = o.
Proof.
  intros H l. induction l as [|s1 r IH]; intros st tr o E N; simpl in *; auto.
  destruct (ex s1 st) as [st' t1|st' v t1|x|] eqn:E1.
  - rewrite (H _ _ _ E1) by discriminate. auto.
  - rewrite (H _ _ _ E1) by discriminate. auto.
  - rewrite (H _ _ _ E1) by discriminate. auto.
  - congruence.
Qed.

Definition prepend (t1 : list event) (o : outcome) : outcome :=
  match o with
  | Normal st' t2 => Normal st' (t1 ++ t2)
  | Returned st' r t2 => Returned st' r (t1 ++ t2)
  | o => o
  end.

Lemma exec_branch n c a b st :
  exec (S n) (Branch c a b) st =
  match eval st c with
  | Err x => Fail x
  | Ok (v, t1) =>
      match as_bool v with
      | Err x => Fail x
      | Ok true => prepend t1 (exec n a st)
      | Ok false => prepend t1 (exec n b st)
      end
  end.
Proof.
  simpl. destruct (eval st c) as [[v t1]|]; auto. destruct (as_bool v) as [[|]|]; auto.
  - destruct (exec n a st); reflexivity.
  - destruct (exec n b st); reflexivity.
Qed.

Lemma exec_loop n c body st :
  exec (S n) (Loop c body) st =
  match eval st c with
  | Err x => Fail x
  | Ok (v, t1) =>
      match as_bool v with
      | Err x => Fail x
      | Ok false => Normal st t1
      | Ok true =>
          match exec n body st with
          | Normal st' t2 => prepend (t1 ++ t2) (exec n (Loop c body) (tick st'))
          | Returned st' r t2 => Returned st' r (t1 ++ t2)
          | o => o
          end
      end
  end.
Proof.
  simpl. destruct (eval st c) as [[v t1]|]; auto. destruct (as_bool v) as [[|]|]; auto.
  destruct (exec n body st); auto.
  destruct (exec n (Loop c body) (tick st0)); simpl; rewrite ?app_assoc; reflexivity.
Qed.

Lemma prepend_not_fuel t o : prepend t o <> OutOfFuel -> o <> OutOfFuel.
Proof. destruct o; simpl; congruence. Qed.

Lemma exec_mono n : forall s st o, exec n s st = o -> o <> OutOfFuel -> exec (S n) s st = o.
Proof.
  induction n as [|n IH]; intros s st o E N.
  - simpl in E. congruence.
  - destruct s as [name t | tgt val | tgt val | ss c | c a b | c body | e | e].
    + exact E.
    + exact E.
    + exact E.
    + rewrite exec_block in *. eapply run_block_mono; eauto.
    + rewrite exec_branch in *.
      destruct (eval st c) as [[v t1]|]; auto.
      destruct (as_bool v) as [[|]|]; auto; subst o; apply prepend_not_fuel in N;
        erewrite IH by (try reflexivity; exact N); reflexivity.
    + rewrite exec_loop in *.
      destruct (eval st c) as [[v t1]|]; auto.
      destruct (as_bool v) as [[|]|]; auto.
      destruct (exec n body st) as [st' t2|st' r t2|x|] eqn:E1;
        try (rewrite (IH _ _ _ E1) by discriminate); auto; try congruence.
      subst o. apply prepend_not_fuel in N.
      erewrite (IH (Loop c body)) by (try reflexivity; exact N). reflexivity.
    + exact E.
    + exact E.
Qed.

(** ** The refinement relation on outcomes *)

Definition orel (o' o : outcome) : Prop :=
  match o with
  | Normal st t => (exists t', o' = Normal st t' /\ sub t' t) \/ o' = Fail EOverflow
  | Returned st v t =>
      (exists v' t', o' = Returned st v' t' /\ vle v' v /\ sub t' t) \/ o' = Fail EOverflow
  | Fail _ => True
  | OutOfFuel => True
  end.

Lemma orel_refl o : orel o o.
Proof. destruct o; simpl; auto; left; eauto using vle_refl, sub_refl. Qed.

Lemma orel_overflow o : orel (Fail EOverflow) o.
Proof. destruct o; simpl; auto. Qed.

Lemma orel_not_fuel o' o : orel o' o -> o <> OutOfFuel -> (forall x, o <> Fail x) -> o' <> OutOfFuel.
Proof.
  destruct o; simpl; intros H N1 N2; try congruence.
  - destruct H as [(t' & -> & _) | ->]; discriminate.
  - destruct H as [(v' & t' & -> & _) | ->]; discriminate.
Qed.

(** evaluation does not depend on the iteration counter *)
Lemma eval_tick st e : eval (tick st) e = eval st e.
Proof.
  induction e; simpl; unfold bind;
    repeat match goal with H : eval (tick st) _ = _ |- _ => rewrite H; clear H end; reflexivity.
Qed.

Lemma empty_loop_diverges c cb n : forall st t1,
  eval st c = Ok (VBool true, t1) ->
  exec n (Loop c (Block [] cb)) st = OutOfFuel.
Proof.
  induction n as [|n IH]; intros st t1 E; [reflexivity|].
  simpl. rewrite E. simpl. destruct n as [|n]; [reflexivity|].
  change (exec (S n) (Block [] cb) st) with (Normal st []).
  cbv iota. rewrite (IH (tick st) t1); auto. now rewrite eval_tick.
Qed.

(** ** Main theorem *)

Lemma exec_empty_block n c st : n <> O -> exec n (Block [] c) st = Normal st [].
Proof. destruct n; [congruence | reflexivity]. Qed.

Lemma exec_0 s st : exec 0 s st = OutOfFuel.
Proof. reflexivity. Qed.

Lemma orel_prepend t1' t1 o' o : sub t1' t1 -> orel o' o -> orel (prepend t1' o') (prepend t1 o).
Proof.
  intros S. destruct o; simpl; auto.
  - intros [(t' & -> & S2) | ->]; [left; simpl; eauto with subdb | now right].
  - intros [(v' & t' & -> & V & S2) | ->]; [left; simpl; eauto 8 with subdb | now right].
Qed.

(** relation between an outcome at fuel n and at fuel S n of the optimised statement *)
Lemma orel_mono n s' st o : orel (exec n s' st) o -> orel (exec (S n) s' st) o.
Proof.
  intros H. destruct o; unfold orel in *; auto.
  - destruct H as [(t' & E & S) | E]; rewrite (exec_mono _ _ _ _ E) by discriminate; eauto.
  - destruct H as [(v' & t' & E & V & S) | E]; rewrite (exec_mono _ _ _ _ E) by discriminate; eauto 8.
Qed.

Section BLOCK.
  Variable n : nat.
  Hypothesis IH : forall s st, orel (exec n (peephole_statement s) st) (exec n s st).

  Lemma run_block_sound l : forall st tr tr', sub tr' tr ->
    orel (run_block (exec n) (pblock l) st tr') (run_block (exec n) l st tr).
  Proof.
    induction l as [|s1 r IHl]; intros st tr tr' S.
    - simpl. left. eauto.
    - cbn [pblock run_block]. cbv zeta. fold pblock.
      specialize (IH s1 st).
      destruct (is_Block (peephole_statement s1) && Block_is_empty (peephole_statement s1)) eqn:C.
      + apply empty_block_inv in C. destruct C as (c & C). rewrite C in IH.
        destruct (exec n s1 st) as [st1 t1|st1 v t1|x|] eqn:E1; simpl; auto.
        * assert (n <> O) by (intros ->; rewrite exec_0 in E1; discriminate).
          rewrite exec_empty_block in IH by auto. simpl in IH.
          destruct IH as [(t' & E & S') | E]; [|discriminate]. inv E.
          apply IHl. auto with subdb.
        * assert (n <> O) by (intros ->; rewrite exec_0 in E1; discriminate).
          rewrite exec_empty_block in IH by auto. simpl in IH.
          destruct IH as [(v' & t' & E & _) | E]; discriminate.
      + cbn [run_block].
        destruct (exec n s1 st) as [st1 t1|st1 v t1|x|] eqn:E1; simpl; auto.
        * simpl in IH. destruct IH as [(t' & -> & S') | ->].
          -- apply IHl. auto with subdb.
          -- apply orel_overflow.
        * simpl in IH. destruct IH as [(v' & t' & -> & V & S') | ->].
          -- left. eauto 8 with subdb.
          -- now right.
  Qed.
End BLOCK.

Lemma head_assignable_eqb a b : expr_eqb a b = true -> is_Assignable a = is_Assignable b.
Proof. destruct a, b; simpl; try discriminate; reflexivity. Qed.

Lemma pe_alloc_head e :
  (forall a b, e <> ArrayAllocate a b) -> (forall a b c, e <> ArrayReallocate a b c) \/ True.
Proof. auto. Qed.

Lemma eval_loc_assignable st e l t : eval_loc st e = Ok (l, t) -> is_Assignable e = true.
Proof. destruct e; simpl; try discriminate; reflexivity. Qed.

Lemma not_alloc_of_pe e :
  is_Assignable (peephole_expression e) = true ->
  (forall a b, e <> ArrayAllocate a b) /\ (forall a b c, e <> ArrayReallocate a b c).
Proof. destruct e; simpl; intros H; split; intros; discriminate. Qed.

Theorem peephole_statement_sound n : forall s st,
  orel (exec n (peephole_statement s) st) (exec n s st).
Proof.
  induction n as [|n IH]; intros s st; [exact I|].
  destruct s as [name t | tgt val | tgt val | ss c | c a b | c body | e | e].
  - (* Declaration *) apply orel_refl.
  - (* Assignment *)
    cbn [peephole_statement]. cbv zeta.
    destruct (exec (S n) (Assignment tgt val) st) as [st2 tr| | |] eqn:E;
      try (destruct (expr_eqb _ _); exact I).
    2:{ exfalso. simpl in E. destruct (eval_rhs st val) as [[[st1 v1] t1]|]; try discriminate.
        destruct (eval_loc st1 tgt) as [[l t2]|]; try discriminate.
        destruct (assign st1 l v1) as [[s3 t3]|]; discriminate. }
    simpl in E.
    destruct (eval_rhs st val) as [[[st1 v] t1]|] eqn:Er; try discriminate.
    destruct (eval_loc st1 tgt) as [[l t2]|] eqn:El; try discriminate.
    destruct (assign st1 l v) as [[s3 t3]|] eqn:Ea; try discriminate. inv E.
    destruct (eval_loc_sound _ _ _ _ El) as (t2' & El' & S2).
    destruct (expr_eqb (peephole_assignable tgt) (peephole_expression val)) eqn:C.
    + (* self-assignment removed: the original store wrote back the value it had read *)
      simpl.
      pose proof (eval_loc_assignable _ _ _ _ El) as At.
      pose proof (head_assignable_eqb _ _ C) as Hh. rewrite is_Assignable_pa, At in Hh.
      destruct (not_alloc_of_pe val (eq_sym Hh)) as [N1 N2].
      rewrite (eval_rhs_plain st val N1 N2) in Er. unfold bind in Er.
      destruct (eval st val) as [[v0 t0]|] eqn:Ev; try discriminate. injection Er as <- <- <-.
      pose proof (peephole_expression_sound val st) as Hs. rewrite Ev in Hs.
      rewrite <- (expr_eqb_eval st _ _ C) in Hs.
      rewrite (eval_via_loc _ _ _ _ El') in Hs. unfold bind in Hs.
      destruct (read_loc st l) as [[v'' tt]|] eqn:R.
      * destruct Hs as [(v' & t' & E & V & _) | (_ & E)]; [|discriminate]. inv E.
        pose proof (assign_vle _ _ _ _ _ _ V Ea) as Ea'.
        rewrite (assign_read_same _ _ _ _ _ _ R Ea').
        left. exists []. auto with subdb.
      * destruct Hs as [(v' & t' & E & _) | (_ & E)]; [discriminate|]. inv E.
        exfalso. eapply read_loc_no_overflow. exact R.
    + simpl.
      destruct (eval_rhs_sound _ _ _ _ _ Er) as [(v' & t1' & -> & V & S1) | (_ & ->)]; [|now right].
      rewrite El'. rewrite (assign_vle _ _ _ _ _ _ V Ea).
      left. eexists. split; [reflexivity|]. auto with subdb.
  - (* DeclarationAssignment *)
    cbn [peephole_statement]. cbv zeta.
    destruct tgt as [name t | | | | | | |]; try exact I.
    simpl.
    destruct (eval_rhs st val) as [[[st1 v] t1]|] eqn:Er; simpl; auto.
    destruct (coerce t v) as [w|] eqn:Cw; simpl; auto.
    destruct (declare st1 name t (Some w)) as [st2|] eqn:D; simpl; auto.
    destruct (eval_rhs_sound _ _ _ _ _ Er) as [(v' & t1' & -> & V & S1) | (_ & ->)]; [|now right].
    rewrite (coerce_vle _ _ _ _ V Cw), D. left. eauto.
  - (* Block *)
    rewrite peephole_block, !exec_block. apply run_block_sound; auto. constructor.
  - (* Branch *)
    cbn [peephole_statement]. cbv zeta. rewrite (exec_branch n c a b st).
    pose proof (peephole_expression_sound c st) as Hc.
    destruct (eval st c) as [[v t1]|] eqn:Ec;
      [|repeat match goal with |- context [if ?x then _ else _] => destruct x end; exact I].
    destruct (as_bool v) as [x|] eqn:Ex;
      [|repeat match goal with |- context [if ?x then _ else _] => destruct x end; exact I].
    destruct (erel_bool _ _ _ _ Hc Ex) as (t1' & Ec' & S1).
    pose proof (IH a st) as Ha. pose proof (IH b st) as Hb.
    destruct (expr_eqb (peephole_expression c) (BooleanLiteral true)) eqn:C1.
    { rewrite (bool_lit st _ _ C1) in Ec'. inv Ec'. apply orel_mono.
      apply (orel_prepend [] t1) in Ha; [|auto with subdb].
      destruct (exec n (peephole_statement a) st); exact Ha. }
    destruct (expr_eqb (peephole_expression c) (BooleanLiteral false)) eqn:C2.
    { rewrite (bool_lit st _ _ C2) in Ec'. inv Ec'. apply orel_mono.
      apply (orel_prepend [] t1) in Hb; [|auto with subdb].
      destruct (exec n (peephole_statement b) st); exact Hb. }
    match goal with |- context [if ?x then _ else _] => destruct x eqn:C3 end.
    { (* both branches optimise to nothing *)
      apply andb_prop in C3. destruct C3 as [C3 C4].
      assert (C3' : is_Block (peephole_statement a) && Block_is_empty (peephole_statement a) = true).
      { apply andb_prop in C3. destruct C3 as [C3 C5]. apply andb_prop in C3. destruct C3. now rewrite H, H0. }
      assert (C4' : is_Block (peephole_statement b) && Block_is_empty (peephole_statement b) = true).
      { apply andb_prop in C3. destruct C3 as [C3 C5]. now rewrite C5, C4. }
      apply empty_block_inv in C3'. apply empty_block_inv in C4'.
      destruct C3' as (ca & Ca). destruct C4' as (cb & Cb). rewrite Ca in Ha. rewrite Cb in Hb.
      change (exec (S n) (Block [] None) st) with (Normal st []).
      destruct x.
      - destruct (exec n a st) as [st1 t2|st1 r t2|x|] eqn:E1; simpl; auto;
          assert (n <> O) by (intros ->; rewrite exec_0 in E1; discriminate);
          rewrite exec_empty_block in Ha by auto; simpl in Ha.
        + destruct Ha as [(t' & E & _) | E]; [|discriminate]. inv E. left. eauto with subdb.
        + destruct Ha as [(v' & t' & E & _) | E]; discriminate.
      - destruct (exec n b st) as [st1 t2|st1 r t2|x|] eqn:E1; simpl; auto;
          assert (n <> O) by (intros ->; rewrite exec_0 in E1; discriminate);
          rewrite exec_empty_block in Hb by auto; simpl in Hb.
        + destruct Hb as [(t' & E & _) | E]; [|discriminate]. inv E. left. eauto with subdb.
        + destruct Hb as [(v' & t' & E & _) | E]; discriminate. }
    rewrite exec_branch, Ec'. simpl. destruct x; apply orel_prepend; auto.
  - (* Loop *)
    cbn [peephole_statement]. cbv zeta. rewrite (exec_loop n c body st).
    pose proof (peephole_expression_sound c st) as Hc.
    destruct (eval st c) as [[v t1]|] eqn:Ec;
      [|repeat match goal with |- context [if ?x then _ else _] => destruct x end; exact I].
    destruct (as_bool v) as [x|] eqn:Ex;
      [|repeat match goal with |- context [if ?x then _ else _] => destruct x end; exact I].
    destruct (erel_bool _ _ _ _ Hc Ex) as (t1' & Ec' & S1).
    destruct (expr_eqb (peephole_expression c) (BooleanLiteral false)) eqn:C1.
    { rewrite (bool_lit st _ _ C1) in Ec'. inv Ec'.
      change (exec (S n) (Block [] None) st) with (Normal st []). left. eauto with subdb. }
    destruct (is_Block body && Block_is_empty body) eqn:C2.
    { apply empty_block_inv in C2. destruct C2 as (cb & ->).
      change (exec (S n) (Block [] None) st) with (Normal st []).
      destruct x; [|left; eauto with subdb].
      apply as_bool_inv in Ex. subst v.
      pose proof (empty_loop_diverges c cb (S n) st t1 Ec) as D.
      rewrite exec_loop, Ec in D. simpl in D. rewrite D. exact I. }
    rewrite exec_loop, Ec'. simpl. destruct x; [|left; eauto].
    pose proof (IH body st) as Hb.
    destruct (exec n body st) as [st1 t2|st1 r t2|y|] eqn:E1; simpl; auto.
    + simpl in Hb. destruct Hb as [(t2' & -> & S2) | ->]; [|now apply orel_overflow].
      pose proof (IH (Loop c body) (tick st1)) as Hl.
      cbn [peephole_statement] in Hl. cbv zeta in Hl. rewrite C1, C2 in Hl.
      apply orel_prepend; auto with subdb.
    + simpl in Hb. destruct Hb as [(v' & t2' & -> & V & S2) | ->]; [|now right].
      left. eauto 8 with subdb.
  - (* Return *)
    cbn [peephole_statement]. cbv zeta. simpl.
    pose proof (peephole_expression_sound e st) as He.
    destruct (eval st e) as [[v t]|]; simpl; auto.
    destruct He as [(v' & t' & -> & V & S) | (_ & ->)]; [left; eauto 8 | now right].
  - (* expression statement *)
    cbn [peephole_statement]. cbv zeta. simpl.
    pose proof (peephole_expression_sound e st) as He.
    destruct (eval st e) as [[v t]|]; simpl; auto.
    destruct He as [(v' & t' & -> & V & S) | (_ & ->)]; [left; eauto | now right].
Qed.

(** * Whole functions *)

Theorem peephole_function_sound fuel f args st st' v tr :
  call fuel f args st = Returned st' v tr ->
  (exists tr', call fuel (peephole_function_definition f) args st = Returned st' v tr' /\ sub tr' tr)
  \/ call fuel (peephole_function_definition f) args st = Fail EOverflow.
Proof.
  destruct f as [name ps rt body]. unfold call. cbn [peephole_function_definition]. cbv zeta.
  destruct (bind_params ps args []) as [e|]; try discriminate.
  pose proof (peephole_statement_sound fuel body (with_env st e)) as H.
  destruct (exec fuel body (with_env st e)) as [s1 t1|s1 r t1|x|]; try discriminate.
  destruct (coerce rt r) as [w|] eqn:C; try discriminate. intros E. inv E.
  simpl in H. destruct H as [(v' & t' & -> & V & S) | ->]; [|now right].
  rewrite (coerce_vle _ _ _ _ V C). left. eauto.
Qed.

(** the optimised program needs no more fuel, never runs longer: same executed loop iterations
    (the counter is part of the state) *)
Corollary peephole_preserves_iterations fuel f args st st' v tr st'' v' tr' :
  call fuel f args st = Returned st' v tr ->
  call fuel (peephole_function_definition f) args st = Returned st'' v' tr' ->
  iters st'' = iters st' /\ st'' = st' /\ v' = v.
Proof.
  intros H1 H2. destruct (peephole_function_sound _ _ _ _ _ _ _ H1) as [(t2 & E & _) | E];
    rewrite E in H2; inv H2. auto.
Qed.
