(** TIE "grammar", format part -- the parsita grammar [FormatParsers] regenerated from
    format/_parser.py (gen/GrammarGen.v [format_grammar], a term of the combinator embedding
    model/Parsita.v), run by the interpreter, computes exactly the hand model model/FormatParser.v
    ([parse_format], [parse_named_format]; C12) on EVERY string. *)

From Coq Require Import String Ascii List NArith ZArith Bool Arith Lia.
From TV Require Import spec.Num model.Parser model.FormatParser model.Parsita proofs.ParsitaFacts.
From TV Require gen.GrammarGen gen.Deparse gen.ExhaustAst proofs.ParserFormat.
Import ListNotations.

Module GG := TV.gen.GrammarGen.
Notation FG := GG.format_grammar.
Notation R := (Parsita.result GG.uval).

Definition cm (m : mode) : GG.Mode :=
  match m with MDense => GG.Mode_dense | MCompressed => GG.Mode_compressed end.
Definition VM (m : mode) : Parsita.val GG.uval := VU (GG.UMode (cm m)).
Definition VZ (n : N) : Parsita.val GG.uval := VU (GG.UInt (Z.of_N n)).
Definition back_format (f : format) : GG.gformat := GG.GFormat (map cm (modes f)) (map Z.of_N (ordering f)).

Local Open Scope list_scope.

Lemma eqb_sym_false : forall a b, Ascii.eqb a b = false -> Ascii.eqb b a = false.
Proof. intros a b H. rewrite Ascii.eqb_sym. exact H. Qed.

Lemma L_dense : forall n s,
  run GG.uval (S (S n)) FG (PRef "dense") s
  = match s with c :: r => if Ascii.eqb c "d" then ROk (VM MDense) r else RFail | [] => RFail end.
Proof.
  intros n s. rewrite run_ref. cbn [lookup g_prods FG GG.format_grammar String.eqb Ascii.eqb Bool.eqb].
  rewrite run_map. unfold sem_map. rewrite run_lit. unfold sem_lit. cbn [g_ws FG GG.format_grammar skip_ws].
  destruct s as [|c r]; [reflexivity|].
  cbn [list_ascii_of_string strip_prefix]. rewrite (Ascii.eqb_sym "d" c).
  destruct (Ascii.eqb c "d"); reflexivity.
Qed.

Lemma L_compressed : forall n s,
  run GG.uval (S (S n)) FG (PRef "compressed") s
  = match s with c :: r => if Ascii.eqb c "s" then ROk (VM MCompressed) r else RFail | [] => RFail end.
Proof.
  intros n s. rewrite run_ref. cbn [lookup g_prods FG GG.format_grammar String.eqb Ascii.eqb Bool.eqb].
  rewrite run_map. unfold sem_map. rewrite run_lit. unfold sem_lit. cbn [g_ws FG GG.format_grammar skip_ws].
  destruct s as [|c r]; [reflexivity|].
  cbn [list_ascii_of_string strip_prefix]. rewrite (Ascii.eqb_sym "s" c).
  destruct (Ascii.eqb c "s"); reflexivity.
Qed.

Lemma L_mode : forall n s,
  run GG.uval (S (S (S n))) FG (PRef "mode") s
  = match s with
    | c :: r => match mode_of_char c with Some m => ROk (VM m) r | None => RFail end
    | [] => RFail
    end.
Proof.
  intros n s. rewrite run_ref. cbn [lookup g_prods FG GG.format_grammar String.eqb Ascii.eqb Bool.eqb].
  rewrite run_alt. cbn [map]. unfold sem_alt. cbn [sem_alt_from].
  rewrite L_dense, L_compressed.
  destruct s as [|c r]; [reflexivity|]. unfold mode_of_char.
  destruct (Ascii.eqb_spec c "d") as [->|Hd].
  - cbn. reflexivity.
  - destruct (Ascii.eqb c "s"); reflexivity.
Qed.

Lemma las_sla : forall l, list_ascii_of_string (string_of_list_ascii l) = l.
Proof. exact list_ascii_of_string_of_list_ascii. Qed.

Lemma take_while_forallb : forall p s, forallb p (fst (take_while p s)) = true.
Proof.
  induction s as [|c t IH]; simpl; [reflexivity|]. destruct (p c) eqn:E; [|reflexivity].
  destruct (take_while p t); simpl in *. rewrite E, IH. reflexivity.
Qed.

(** int(x) on the text matched by [0-9]+ *)
Lemma py_int_digits : forall l, l <> [] -> forallb is_digit l = true ->
  GG.py_int_v (VStr (string_of_list_ascii l)) = AOk (VZ (digits_val l)).
Proof.
  intros l NE D. unfold GG.py_int_v. rewrite las_sla. destruct l as [|c t]; [congruence|].
  rewrite D. reflexivity.
Qed.

Lemma L_integer : forall n s,
  run GG.uval (S (S n)) FG (PRef "integer") s
  = match s with
    | c :: _ =>
        if is_digit c then ROk (VZ (digits_val (fst (take_while is_digit s)))) (snd (take_while is_digit s))
        else RFail
    | [] => RFail
    end.
Proof.
  intros n s. rewrite run_ref. cbn [lookup g_prods FG GG.format_grammar String.eqb Ascii.eqb Bool.eqb].
  rewrite run_map. unfold sem_map. rewrite run_reg. unfold sem_reg. cbn [g_ws FG GG.format_grammar skip_ws].
  rewrite re_match_plus_set. destruct s as [|c t]; [reflexivity|].
  rewrite in_set_digit. destruct (is_digit c) eqn:D; [|reflexivity].
  rewrite (take_while_ext _ is_digit t in_set_digit).
  assert (E : take_while is_digit (c :: t) = (c :: fst (take_while is_digit t), snd (take_while is_digit t))).
  { simpl. rewrite D. destruct (take_while is_digit t); reflexivity. }
  rewrite E. cbn [fst snd].
  replace (snd (take_while is_digit t)) with (snd (take_while is_digit (c :: t))) at 1 by (rewrite E; reflexivity).
  rewrite consumed_take_while, E. cbn [fst].
  rewrite py_int_digits; [reflexivity|discriminate|].
  simpl. rewrite D. apply take_while_forallb.
Qed.

(** rep(mode) *)
Lemma L_rep_mode : forall n k s, List.length s < k ->
  rep_loop GG.uval (run GG.uval (S (S (S n))) FG (PRef "mode")) k s
  = ROk (VList (map VM (fst (rep_modes s)))) (snd (rep_modes s)).
Proof.
  induction k as [|k IH]; intros s L; [lia|].
  cbn [rep_loop]. rewrite L_mode. destruct s as [|c r]; [reflexivity|].
  cbn [rep_modes]. destruct (mode_of_char c) as [m|]; [|reflexivity].
  assert (E : (List.length r <? List.length (c :: r)) = true) by (apply Nat.ltb_lt; simpl; lia).
  rewrite E, IH by (simpl in L; lia).
  destruct (rep_modes r) as [ms r']. reflexivity.
Qed.

(* ------------------------------------------------------------------------------------------ *)
(** ** the Format constructor and its __post_init__ *)

Lemma omapv_modes : forall ms, GG.omapv GG.as_mode (map VM ms) = Some (map cm ms).
Proof. induction ms as [|m t IH]; simpl; [reflexivity|]. rewrite IH. reflexivity. Qed.

Lemma omapv_ints : forall os, GG.omapv GG.as_int (map VZ os) = Some (map Z.of_N os).
Proof. induction os as [|m t IH]; simpl; [reflexivity|]. rewrite IH. reflexivity. Qed.

Lemma zrange_range : forall n, GG.zrange n = map Z.of_N (range n).
Proof.
  intros n. unfold GG.zrange, range. rewrite map_map. apply map_ext. intros a. symmetry. apply nat_N_Z.
Qed.

Lemma existsb_zeqb_map : forall k os, existsb (Z.eqb (Z.of_N k)) (map Z.of_N os) = existsb (N.eqb k) os.
Proof.
  induction os as [|o t IH]; simpl; [reflexivity|]. rewrite IH. f_equal.
  destruct (N.eqb_spec k o) as [->|NE]; [apply Z.eqb_refl|].
  apply Z.eqb_neq. intros H. apply N2Z.inj in H. contradiction.
Qed.

Lemma existsb_range : forall o n, existsb (N.eqb o) (range n) = (o <? N.of_nat n)%N.
Proof.
  intros o n. unfold range. induction n as [|n IH].
  - simpl. symmetry. apply N.ltb_ge. lia.
  - rewrite seq_S, map_app, existsb_app, IH. simpl. rewrite orb_false_r.
    destruct (N.ltb_spec o (N.of_nat n)), (N.eqb_spec o (N.of_nat n)), (N.ltb_spec o (N.of_nat (S n))); try reflexivity; lia.
Qed.

Lemma forallb_map' : forall {A B} (f : A -> B) (p : B -> bool) l, forallb p (map f l) = forallb (fun x => p (f x)) l.
Proof. induction l as [|a t IH]; simpl; [reflexivity|]. rewrite IH. reflexivity. Qed.

Lemma forallb_ext' : forall {A} (p q : A -> bool) l, (forall x, p x = q x) -> forallb p l = forallb q l.
Proof. induction l as [|a t IH]; intros E; simpl; [reflexivity|]. rewrite E, IH by exact E. reflexivity. Qed.

(** set(ordering) == set(range(len(modes))) is the model's check *)
Lemma zset_eqb_check : forall n os,
  GG.zset_eqb (map Z.of_N os) (GG.zrange n) = check_ordering n os.
Proof.
  intros n os. unfold GG.zset_eqb, check_ordering. rewrite zrange_range. f_equal.
  - rewrite forallb_map'. apply forallb_ext'. intros o. rewrite existsb_zeqb_map. apply existsb_range.
  - rewrite forallb_map'. apply forallb_ext'. intros k. apply existsb_zeqb_map.
Qed.

Lemma check_ordering_range : forall n, check_ordering n (range n) = true.
Proof.
  intros n. unfold check_ordering. apply andb_true_iff. split; apply forallb_forall; intros o H.
  - rewrite <- existsb_range. apply existsb_exists. exists o. split; [exact H | apply N.eqb_refl].
  - apply existsb_exists. exists o. split; [exact H | apply N.eqb_refl].
Qed.

Lemma mk_Format_model : forall ms os,
  GG.mk_Format (VList (map VM ms)) (VList (map VZ os))
  = if check_ordering (List.length ms) os
    then AOk (VU (GG.UFormat (back_format (Format ms os))))
    else AExn "InvalidModeOrderingError".
Proof.
  intros ms os. unfold GG.mk_Format, GG.as_list. rewrite omapv_modes, omapv_ints.
  rewrite map_length, zset_eqb_check. destruct (check_ordering (List.length ms) os); reflexivity.
Qed.

(** format_without_orderings *)
Lemma L_fwo : forall n s,
  run GG.uval (S (S (S (S (S n))))) FG (PRef "format_without_orderings") s
  = let ms := fst (rep_modes s) in
    ROk (VU (GG.UFormat (back_format (Format ms (range (List.length ms)))))) (snd (rep_modes s)).
Proof.
  intros n s. rewrite run_ref. cbn [lookup g_prods FG GG.format_grammar String.eqb Ascii.eqb Bool.eqb].
  rewrite run_map. unfold sem_map. rewrite run_rep. unfold sem_rep.
  rewrite L_rep_mode by lia. cbv zeta.
  set (ms := fst (rep_modes s)).
  unfold alift1, alift2, py_tuple, GG.py_len_v, GG.py_range_v. rewrite map_length, Nat2Z.id.
  replace (map (fun i : nat => VU (GG.UInt (Z.of_nat i))) (seq 0 (List.length ms))) with (map VZ (range (List.length ms))).
  2:{ unfold range. rewrite map_map. apply map_ext. intros a. unfold VZ. rewrite nat_N_Z. reflexivity. }
  rewrite mk_Format_model, check_ordering_range. reflexivity.
Qed.

(* ------------------------------------------------------------------------------------------ *)
(** ** format_with_orderings *)

Definition pairV (p : mode * N) : Parsita.val GG.uval := VList [VM (fst p); VZ (snd p)].

Lemma L_pair : forall n s,
  run GG.uval (S (S (S n))) FG (PSeq [PRef "mode"; PRef "integer"]) s
  = match s with
    | c :: d :: r =>
        match mode_of_char c with
        | Some m =>
            if is_digit d then
              ROk (pairV (m, digits_val (fst (take_while is_digit (d :: r))))) (snd (take_while is_digit (d :: r)))
            else RFail
        | None => RFail
        end
    | _ => RFail
    end.
Proof.
  intros n s. rewrite run_seq. cbn [map sem_seq]. rewrite L_mode.
  destruct s as [|c [|d r]]; [reflexivity| |].
  - destruct (mode_of_char c); [|reflexivity]. rewrite L_integer. reflexivity.
  - destruct (mode_of_char c); [|reflexivity]. rewrite L_integer.
    destruct (is_digit d); reflexivity.
Qed.

Lemma L_rep_pairs : forall n k' s ps r, rep_pairs k' s = Some (ps, r) ->
  forall k, List.length s < k ->
  rep_loop GG.uval (run GG.uval (S (S (S n))) FG (PSeq [PRef "mode"; PRef "integer"])) k s
  = ROk (VList (map pairV ps)) r.
Proof.
  induction k' as [|k' IH]; intros s ps r H k L; [discriminate|].
  destruct k as [|k]; [lia|]. cbn [rep_loop]. rewrite L_pair.
  cbn [rep_pairs] in H.
  destruct s as [|c [|d r0]]; try (inversion H; subst; reflexivity).
  destruct (mode_of_char c) as [m|]; [|inversion H; subst; reflexivity].
  destruct (is_digit d) eqn:D; [|inversion H; subst; reflexivity].
  pose proof (take_while_length is_digit (d :: r0)) as TL.
  destruct (take_while is_digit (d :: r0)) as [ds r'] eqn:E. cbn [fst snd] in *.
  destruct (rep_pairs k' r') as [[ps' r'']|] eqn:RP; [|discriminate].
  inversion H; subst; clear H.
  assert (Lt : (List.length r' <? List.length (c :: d :: r0)) = true) by (apply Nat.ltb_lt; simpl in *; lia).
  rewrite Lt. rewrite (IH r' ps' r RP k) by (simpl in *; lia). reflexivity.
Qed.

(** make_format_with_orderings on the list of [mode, integer] pairs *)
Lemma make_format_model : forall ps,
  GG.py_make_format_with_orderings (VList (map pairV ps))
  = GG.mk_Format (VList (map VM (map fst ps))) (VList (map VZ (map snd ps))).
Proof.
  intros ps. unfold GG.py_make_format_with_orderings, GG.abind, alift1, afor.
  match goal with |- context [afold ?b _ _] => set (body := b) end.
  assert (F : forall l am ao,
    afold body (map pairV l) (VList [VList am; VList ao])
    = AOk (VList [VList (am ++ map VM (map fst l)); VList (ao ++ map VZ (map snd l))])).
  { induction l as [|p t IH]; intros am ao.
    - simpl. rewrite !app_nil_r. reflexivity.
    - cbn [map afold]. unfold body at 1. cbn beta iota. unfold pairV at 1. cbn [unpack2 alift2 alift1 py_append GG.abind fst snd].
      rewrite IH. rewrite <- !app_assoc. reflexivity. }
  rewrite (F ps [] []). cbn [unpack2 app alift2 alift1 py_tuple]. reflexivity.
Qed.

(** rep_pairs never runs out of its fuel *)
Lemma rep_pairs_fuel : forall k s, List.length s < k -> rep_pairs k s <> None.
Proof.
  induction k as [|k IH]; intros s L; [lia|]. cbn [rep_pairs].
  destruct s as [|c [|d r0]]; try discriminate.
  destruct (mode_of_char c); [|discriminate]. destruct (is_digit d); [|discriminate].
  pose proof (take_while_length is_digit (d :: r0)) as TL.
  destruct (take_while is_digit (d :: r0)) as [ds r']. cbn [snd] in TL.
  specialize (IH r'). destruct (rep_pairs k r') as [[? ?]|]; [discriminate|].
  exfalso. apply IH; [simpl in *; lia | reflexivity].
Qed.

Lemma L_fw : forall n s ps r, rep_pairs (S (List.length s)) s = Some (ps, r) ->
  run GG.uval (S (S (S (S (S n))))) FG (PRef "format_with_orderings") s
  = if check_ordering (List.length ps) (map snd ps)
    then ROk (VU (GG.UFormat (back_format (Format (map fst ps) (map snd ps))))) r
    else RExn "InvalidModeOrderingError".
Proof.
  intros n s ps r H. rewrite run_ref. cbn [lookup g_prods FG GG.format_grammar String.eqb Ascii.eqb Bool.eqb].
  rewrite run_map. unfold sem_map. rewrite run_rep. unfold sem_rep.
  rewrite (L_rep_pairs _ _ _ _ _ H) by lia.
  rewrite make_format_model, mk_Format_model, map_length.
  destruct (check_ordering (List.length ps) (map snd ps)); reflexivity.
Qed.

(* ------------------------------------------------------------------------------------------ *)
(** ** format = format_without_orderings | format_with_orderings  (longest, first on a tie) *)

Lemma rep_modes_length : forall s, List.length (snd (rep_modes s)) <= List.length s.
Proof.
  induction s as [|c t IH]; simpl; [lia|]. destruct (mode_of_char c); [|simpl; lia].
  destruct (rep_modes t); simpl in *; lia.
Qed.

Lemma rep_pairs_length : forall k s ps r, rep_pairs k s = Some (ps, r) -> List.length r <= List.length s.
Proof.
  induction k as [|k IH]; intros s ps r H; [discriminate|]. cbn [rep_pairs] in H.
  destruct s as [|c [|d r0]]; try (inversion H; subst; simpl; lia).
  destruct (mode_of_char c); [|inversion H; subst; simpl; lia].
  destruct (is_digit d); [|inversion H; subst; simpl; lia].
  pose proof (take_while_length is_digit (d :: r0)) as TL.
  destruct (take_while is_digit (d :: r0)) as [ds r']. cbn [snd] in TL.
  destruct (rep_pairs k r') as [[ps' r'']|] eqn:RP; [|discriminate].
  inversion H; subst. apply IH in RP. simpl in *. lia.
Qed.

Lemma rep_pairs_nil : forall k s r, rep_pairs k s = Some ([], r) -> r = s.
Proof.
  intros [|k] s r H; [discriminate|]. cbn [rep_pairs] in H.
  destruct s as [|c [|d r0]]; try (inversion H; reflexivity).
  destruct (mode_of_char c); [|inversion H; reflexivity].
  destruct (is_digit d); [|inversion H; reflexivity].
  destruct (take_while is_digit (d :: r0)) as [ds r'].
  destruct (rep_pairs k r') as [[ps' r'']|]; discriminate.
Qed.

Lemma digit_not_mode : forall d, is_digit d = true -> mode_of_char d = None.
Proof.
  intros d D. unfold mode_of_char.
  destruct (Ascii.eqb_spec d "d") as [->|_]; [discriminate|].
  destruct (Ascii.eqb_spec d "s") as [->|_]; [discriminate|]. reflexivity.
Qed.

(** a first pair makes format_with_orderings strictly longer *)
Lemma rep_pairs_cons_longer : forall k s p ps r, rep_pairs k s = Some (p :: ps, r) ->
  List.length r < List.length (snd (rep_modes s)).
Proof.
  intros [|k] s p ps r H; [discriminate|]. cbn [rep_pairs] in H.
  destruct s as [|c [|d r0]]; try discriminate.
  destruct (mode_of_char c) as [m|] eqn:M; [|discriminate].
  destruct (is_digit d) eqn:D; [|discriminate].
  pose proof (take_while_length is_digit r0) as TL.
  assert (E : take_while is_digit (d :: r0) = (d :: fst (take_while is_digit r0), snd (take_while is_digit r0))).
  { simpl. rewrite D. destruct (take_while is_digit r0); reflexivity. }
  rewrite E in H.
  destruct (rep_pairs k (snd (take_while is_digit r0))) as [[ps' r'']|] eqn:RP; [|discriminate].
  inversion H; subst. apply rep_pairs_length in RP.
  cbn [rep_modes]. rewrite M, (digit_not_mode d D). simpl. lia.
Qed.

Definition format_pre (s : list ascii) : R :=
  match rep_pairs (S (List.length s)) s with
  | None => RFuel
  | Some ([], _) =>
      let ms := fst (rep_modes s) in
      ROk (VU (GG.UFormat (back_format (Format ms (range (List.length ms)))))) (snd (rep_modes s))
  | Some (ps, r1) =>
      if check_ordering (List.length (map fst ps)) (map snd ps)
      then ROk (VU (GG.UFormat (back_format (Format (map fst ps) (map snd ps))))) r1
      else RExn "InvalidModeOrderingError"
  end.

Lemma L_format : forall n s,
  run GG.uval (S (S (S (S (S (S n)))))) FG (PRef "format") s = format_pre s.
Proof.
  intros n s. rewrite run_ref. cbn [lookup g_prods FG GG.format_grammar String.eqb Ascii.eqb Bool.eqb].
  rewrite run_alt. cbn [map]. unfold sem_alt. cbn [sem_alt_from]. rewrite L_fwo. cbv zeta.
  unfold format_pre.
  destruct (rep_pairs (S (List.length s)) s) as [[ps r1]|] eqn:RP.
  2:{ exfalso. apply (rep_pairs_fuel (S (List.length s)) s); [lia | exact RP]. }
  rewrite (L_fw n s ps r1 RP). rewrite map_length.
  destruct ps as [|p ps].
  - cbn [List.length map]. change (check_ordering 0 []) with true. cbv iota.
    apply rep_pairs_nil in RP. subst r1.
    pose proof (rep_modes_length s) as ML.
    assert (E : (List.length s <? List.length (snd (rep_modes s))) = false) by (apply Nat.ltb_ge; lia).
    rewrite E. reflexivity.
  - destruct (check_ordering (List.length (p :: ps)) (map snd (p :: ps))); [|reflexivity].
    apply rep_pairs_cons_longer in RP.
    assert (E : (List.length r1 <? List.length (snd (rep_modes s))) = true) by (apply Nat.ltb_lt; lia).
    rewrite E. reflexivity.
Qed.

(* ------------------------------------------------------------------------------------------ *)
(** ** parse_format *)

Definition back_fres (r : fres format) : GG.presult :=
  match r with
  | FOk f => GG.PSuccess (VU (GG.UFormat (back_format f)))
  | FSyntax => GG.PFailure "ParseError"
  | FInvalid => GG.PFailure "InvalidModeOrderingError"
  | FFuel => GG.PFuel
  end.

Lemma format_fuel : forall l, exists k, default_fuel GG.uval FG l = S (S (S (S (S (S (S k)))))).
Proof.
  intros l. unfold default_fuel. cbn [g_prods FG GG.format_grammar List.length].
  exists (4 + 11 * List.length l). lia.
Qed.

(** what the [format] production leaves, by the answer of the hand model *)
Lemma format_pre_cases : forall l,
  match parse_format_chars l with
  | FOk f => format_pre l = ROk (VU (GG.UFormat (back_format f))) []
  | FSyntax => exists v c r, format_pre l = ROk v (c :: r)
  | FInvalid => format_pre l = RExn "InvalidModeOrderingError"
  | FFuel => format_pre l = RFuel
  end.
Proof.
  intros l. unfold format_pre, parse_format_chars.
  destruct (rep_pairs (S (List.length l)) l) as [[[|p ps] r1]|]; [| |reflexivity].
  - cbv zeta. destruct (rep_modes l) as [ms r0]. cbn [fst snd]. destruct r0; [reflexivity|]. eauto.
  - rewrite map_length.
    destruct (check_ordering (List.length (p :: ps)) (map snd (p :: ps))); [|reflexivity].
    destruct r1; [reflexivity|]. eauto.
Qed.

(** the except clauses of the entry points catch InvalidModeOrderingError *)
Lemma format_handlers_catch :
  GG.is_caught GG.exn_ancestors GG.parse_format_handlers "InvalidModeOrderingError" = true.
Proof. vm_compute. reflexivity. Qed.
Lemma named_format_handlers_catch :
  GG.is_caught GG.exn_ancestors GG.parse_named_format_handlers "InvalidModeOrderingError" = true.
Proof. vm_compute. reflexivity. Qed.

Theorem gen_parse_format_equiv : forall s : string,
  GG.parse_format s = back_fres (FormatParser.parse_format s).
Proof.
  intros s. unfold GG.parse_format, Parsita.parse, FormatParser.parse_format, parse_fuel.
  destruct (format_fuel (list_ascii_of_string s)) as [k ->].
  change GG.parse_format_start with "format"%string.
  rewrite L_format. pose proof (format_pre_cases (list_ascii_of_string s)) as FC.
  destruct (parse_format_chars (list_ascii_of_string s)) as [f| | |].
  - rewrite FC. reflexivity.
  - destruct FC as (v & c & r & ->). reflexivity.
  - rewrite FC. unfold GG.entry. rewrite format_handlers_catch. reflexivity.
  - rewrite FC. reflexivity.
Qed.

(* ------------------------------------------------------------------------------------------ *)
(** ** parse_named_format:  variable << ":" & format > tuple *)

Lemma range_single : forall c x,
  in_range c (x, x) = Ascii.eqb c x.
Proof.
  intros c x. unfold in_range. cbn [fst snd].
  destruct (Ascii.eqb_spec c x) as [->|NE].
  - rewrite N.leb_refl. reflexivity.
  - apply andb_false_iff.
    destruct (N.leb_spec (N_of_ascii x) (N_of_ascii c)); [|left; reflexivity].
    destruct (N.leb_spec (N_of_ascii c) (N_of_ascii x)); [|right; reflexivity].
    exfalso. apply NE. rewrite <- (ascii_N_embedding c), <- (ascii_N_embedding x). f_equal. lia.
Qed.

Lemma in_set_var_start : forall c,
  in_set [("a"%char, "z"%char); ("A"%char, "Z"%char); ("_"%char, "_"%char)] c = is_var_start c.
Proof.
  intros c. unfold in_set. cbn [existsb]. rewrite range_single, orb_false_r, orb_assoc. reflexivity.
Qed.

Lemma in_set_var_char : forall c,
  in_set [("a"%char, "z"%char); ("A"%char, "Z"%char); ("0"%char, "9"%char); ("_"%char, "_"%char)] c = is_var_char c.
Proof.
  intros c. unfold in_set. cbn [existsb]. rewrite range_single, orb_false_r.
  unfold is_var_char, is_alnum, is_alpha, is_digit, ascii_between, in_range. cbn [fst snd].
  rewrite !orb_assoc. reflexivity.
Qed.

Lemma var_start_char : forall c, is_var_start c = true -> is_var_char c = true.
Proof.
  intros c. unfold is_var_start, is_var_char, is_alnum. intros H.
  apply orb_true_iff in H as [H|H]; [rewrite H; reflexivity | rewrite H; apply orb_true_r].
Qed.

Lemma L_variable : forall n s,
  run GG.uval (S (S n)) FG (PRef "variable") s
  = match s with
    | c :: _ =>
        if is_var_start c
        then ROk (VStr (string_of_list_ascii (fst (take_while is_var_char s)))) (snd (take_while is_var_char s))
        else RFail
    | [] => RFail
    end.
Proof.
  intros n s. rewrite run_ref. cbn [lookup g_prods FG GG.format_grammar String.eqb Ascii.eqb Bool.eqb].
  rewrite run_reg. unfold sem_reg. cbn [g_ws FG GG.format_grammar skip_ws].
  rewrite re_match_set_star. destruct s as [|c t]; [reflexivity|].
  rewrite in_set_var_start. destruct (is_var_start c) eqn:D; [|reflexivity].
  rewrite (take_while_ext _ is_var_char t in_set_var_char).
  assert (E : take_while is_var_char (c :: t) = (c :: fst (take_while is_var_char t), snd (take_while is_var_char t))).
  { simpl. rewrite (var_start_char c D). destruct (take_while is_var_char t); reflexivity. }
  rewrite E. cbn [fst snd].
  replace (snd (take_while is_var_char t)) with (snd (take_while is_var_char (c :: t))) at 1 by (rewrite E; reflexivity).
  rewrite consumed_take_while, E. reflexivity.
Qed.

Definition back_named (r : fres (string * format)) : GG.presult :=
  match r with
  | FOk (n, f) => GG.PSuccess (VList [VStr n; VU (GG.UFormat (back_format f))])
  | FSyntax => GG.PFailure "ParseError"
  | FInvalid => GG.PFailure "InvalidModeOrderingError"
  | FFuel => GG.PFuel
  end.

Lemma L_named : forall n s,
  run GG.uval (S (S (S (S (S (S (S n))))))) FG (PRef "named_format") s
  = match s with
    | c :: _ =>
        if is_var_start c then
          match snd (take_while is_var_char s) with
          | ":"%char :: r' =>
              match format_pre r' with
              | ROk v r'' => ROk (VList [VStr (string_of_list_ascii (fst (take_while is_var_char s))); v]) r''
              | e => e
              end
          | _ => RFail
          end
        else RFail
    | [] => RFail
    end.
Proof.
  intros n s. rewrite run_ref. cbn [lookup g_prods FG GG.format_grammar String.eqb Ascii.eqb Bool.eqb].
  rewrite run_map. unfold sem_map. rewrite run_seq. cbn [map sem_seq].
  rewrite run_discard_r. unfold sem_discard_r. rewrite L_variable.
  destruct s as [|c t]; [reflexivity|].
  destruct (is_var_start c); [|reflexivity].
  rewrite run_lit. unfold sem_lit. cbn [g_ws FG GG.format_grammar skip_ws list_ascii_of_string strip_prefix].
  destruct (snd (take_while is_var_char (c :: t))) as [|x r']; [reflexivity|].
  rewrite (Ascii.eqb_sym ":" x).
  destruct (Ascii.eqb_spec x ":") as [->|NE].
  - rewrite L_format. destruct (format_pre r') as [v r''| | | |]; try reflexivity.
  - destruct x as [[] [] [] [] [] [] [] []]; try reflexivity. exfalso. apply NE. reflexivity.
Qed.

Lemma named_fuel : forall l, exists k, default_fuel GG.uval FG l = S (S (S (S (S (S (S (S k))))))).
Proof.
  intros l. unfold default_fuel. cbn [g_prods FG GG.format_grammar List.length].
  exists (3 + 11 * List.length l). lia.
Qed.

Theorem gen_parse_named_format_equiv : forall s : string,
  GG.parse_named_format s = back_named (FormatParser.parse_named_format s).
Proof.
  intros s. unfold GG.parse_named_format, Parsita.parse, FormatParser.parse_named_format, parse_fuel.
  destruct (named_fuel (list_ascii_of_string s)) as [k ->].
  change GG.parse_named_format_start with "named_format"%string.
  rewrite L_named. unfold parse_named_format_chars.
  destruct (list_ascii_of_string s) as [|c t]; [reflexivity|].
  destruct (is_var_start c); [|reflexivity].
  destruct (take_while is_var_char (c :: t)) as [nm r]. cbn [fst snd].
  destruct r as [|x r']; [reflexivity|].
  destruct (Ascii.eqb_spec x ":") as [->|NE].
  2:{ destruct x as [[] [] [] [] [] [] [] []]; try reflexivity. exfalso. apply NE. reflexivity. }
  pose proof (format_pre_cases r') as FC.
  destruct (parse_format_chars r') as [f| | |].
  - rewrite FC. reflexivity.
  - destruct FC as (v & c0 & r0 & ->). reflexivity.
  - rewrite FC. unfold GG.entry. rewrite named_format_handlers_catch. reflexivity.
  - rewrite FC. reflexivity.
Qed.

(* ------------------------------------------------------------------------------------------ *)
(** ** C12_format_roundtrip / C12_named_format_roundtrip on the regenerated grammar *)

Theorem gen_format_roundtrip : forall f : format, wf_format f = true ->
  exists s, deparse_format f = Some s
            /\ GG.parse_format (string_of_list_ascii s) = GG.PSuccess (VU (GG.UFormat (back_format f))).
Proof.
  intros f W. destruct (TV.proofs.ParserFormat.format_roundtrip f W) as (s & D & P).
  exists s. split; [exact D|]. rewrite gen_parse_format_equiv. unfold FormatParser.parse_format.
  rewrite las_sla, P. reflexivity.
Qed.

Theorem gen_named_format_roundtrip : forall (nm : list ascii) (f : format),
  (match nm with c :: _ => is_var_start c = true | [] => False end) ->
  forallb is_var_char nm = true -> wf_format f = true ->
  exists s, deparse_format f = Some s
            /\ GG.parse_named_format (string_of_list_ascii (nm ++ ":"%char :: s))
               = GG.PSuccess (VList [VStr (string_of_list_ascii nm); VU (GG.UFormat (back_format f))]).
Proof.
  intros nm f H1 H2 W. destruct (TV.proofs.ParserFormat.named_format_roundtrip nm f H1 H2 W) as (s & D & P).
  exists s. split; [exact D|]. rewrite gen_parse_named_format_equiv. unfold FormatParser.parse_named_format.
  rewrite las_sla, P. reflexivity.
Qed.

(** what the regenerated format parser returns is a Success or a typed Failure, never an escaping
    exception, a stuck action or exhausted fuel *)
Theorem gen_parse_format_total : forall s : string,
  match GG.parse_format s with GG.PSuccess _ | GG.PFailure _ => True | _ => False end.
Proof.
  intros s. rewrite gen_parse_format_equiv. unfold FormatParser.parse_format.
  pose proof (TV.proofs.ParserFormat.parse_format_fuel_sufficient (list_ascii_of_string s)) as NF.
  destruct (parse_format_chars (list_ascii_of_string s)); try exact I. congruence.
Qed.
