(** The assumptions that proofs/GenCPrint_equiv.v makes about the two float oracles -- Python's
    [str(float)] and the decoder of C floating constants -- are satisfiable: a (toy) pair that meets
    them.  The spelling of a non-negative float is "0." followed by its IEEE-754 bit pattern in
    decimal; the decoder reads the bit pattern back (Flocq's [Bits]).  Nothing else is claimed about
    this pair; it only shows that the theorems of props/TIE_cprint.v are not vacuous. *)

From Coq Require Import ZArith NArith Bool List String Ascii DecimalString Decimal DecimalN Lia.
From Flocq Require Import Core BinarySingleNaN.
From Flocq Require Binary Bits.
From TV Require Import spec.Num spec.PyLib model.CLexer.
Import ListNotations.
Local Open Scope string_scope.

Definition nan64 : {x : Binary.binary_float 53 1024 | Binary.is_nan 53 1024 x = true} :=
  exist _ (Binary.B754_nan 53 1024 false 1 eq_refl) eq_refl.

Definition fbits (f : F) : N := Z.to_N (Bits.bits_of_b64 (Binary.BSN2B 53 1024 nan64 f)).

Definition toy_body (f : F) : string := "0." ++ show_N (fbits f).

Definition toy_str_float (f : F) : string :=
  if Bsign f then "-" ++ toy_body (Babs f) else toy_body f.

Definition toy_fdec (s : string) : option F :=
  match s with
  | String "0" (String "." r) =>
      match NilEmpty.uint_of_string r with
      | Some d => Some (Binary.B2BSN 53 1024 (Bits.b64_of_bits (Z.of_N (N.of_uint d))))
      | None => None
      end
  | _ => None
  end.

Lemma uint_digits' : forall d, num_tail false (NilEmpty.string_of_uint d) = true.
Proof. induction d; cbn; auto. Qed.

Lemma toy_body_shape : forall f, float_shape (toy_body f) = true.
Proof.
  intros f. unfold float_shape, toy_body. cbn [append].
  apply andb_true_iff. split.
  - cbn. apply uint_digits'.
  - cbn [NilEmpty.uint_of_string]. destruct (NilEmpty.uint_of_string (show_N (fbits f))); reflexivity.
Qed.

Lemma toy_body_decodes : forall f, toy_fdec (toy_body f) = Some f.
Proof.
  intros f. unfold toy_body. cbn [append toy_fdec]. unfold show_N. rewrite NilEmpty.usu.
  rewrite DecimalN.Unsigned.of_to. unfold fbits.
  rewrite Z2N.id by apply (Bits.bits_of_binary_float_range 52 11 eq_refl eq_refl).
  unfold Bits.b64_of_bits, Bits.bits_of_b64.
  rewrite Bits.binary_float_of_bits_of_binary_float. rewrite Binary.B2BSN_BSN2B. reflexivity.
Qed.

Theorem float_oracle_satisfiable :
  (forall f, is_finite f = true -> Bsign f = true ->
     toy_str_float f = ("-" ++ toy_str_float (Babs f))%string) /\
  (forall f, is_finite f = true -> Bsign f = false ->
     float_shape (toy_str_float f) = true /\ toy_fdec (toy_str_float f) = Some f).
Proof.
  split.
  - intros f _ Hs. unfold toy_str_float. rewrite Hs. rewrite Bsign_Babs. reflexivity.
  - intros f _ Hs. unfold toy_str_float. rewrite Hs. split.
    + apply toy_body_shape.
    + apply toy_body_decodes.
Qed.

Theorem float_oracle_satisfiable_ex : exists fdec str_float, float_oracle_ok fdec str_float.
Proof. exists toy_fdec, toy_str_float. exact float_oracle_satisfiable. Qed.
