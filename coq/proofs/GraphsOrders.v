(** legal_iteration_orders: every order is a permutation of [0 .. n-1]. *)
From Coq Require Import List String Bool Arith Lia Permutation.
From TV Require Import model.Graphs.
Import ListNotations.
Open Scope list_scope.
Local Notation concat := (@List.concat _).

Lemma concat_append_last : forall i gs, concat (append_last i gs) = concat gs ++ [i].
Proof.
  intros i gs. induction gs as [|g r IH].
  - reflexivity.
  - destruct r as [|g2 r'].
    + simpl. rewrite !app_nil_r. reflexivity.
    + change (append_last i (g :: g2 :: r')) with (g :: append_last i (g2 :: r')).
      change (concat (g :: append_last i (g2 :: r'))) with (g ++ concat (append_last i (g2 :: r'))).
      rewrite IH. change (concat (g :: g2 :: r')) with (g ++ concat (g2 :: r')).
      rewrite app_assoc. reflexivity.
Qed.

Lemma concat_groups_from : forall ms i restart gs,
  concat (groups_from ms i restart gs) = concat gs ++ seq i (List.length ms).
Proof.
  induction ms as [|m ms IH]; intros i restart gs; simpl.
  - now rewrite app_nil_r.
  - destruct m.
    + rewrite IH. destruct restart.
      * rewrite concat_app. simpl. rewrite <- app_assoc. reflexivity.
      * rewrite concat_append_last. rewrite <- app_assoc. reflexivity.
    + rewrite IH. rewrite concat_app. simpl. rewrite <- app_assoc. reflexivity.
Qed.

Lemma concat_reorderable_groups : forall ms,
  concat (reorderable_groups ms) = seq 0 (List.length ms).
Proof. intros. unfold reorderable_groups. now rewrite concat_groups_from. Qed.

Lemma pick_perm : forall A k (l : list A) x rest,
  pick k l = Some (x, rest) -> Permutation l (x :: rest) /\ List.length l = S (List.length rest).
Proof.
  intros A k l. revert k. induction l as [|y l IH]; intros k x rest H.
  - destruct k; discriminate.
  - destruct k; simpl in H.
    + inversion H; subst. split; [apply Permutation_refl | reflexivity].
    + destruct (pick k l) as [[z r']|] eqn:E; [|discriminate].
      inversion H; subst. destruct (IH _ _ _ E) as [P L]. split.
      * eapply Permutation_trans; [apply perm_skip, P | apply perm_swap].
      * simpl. now rewrite L.
Qed.

Lemma perms_fuel_perm : forall A n (l p : list A),
  List.length l = n -> In p (perms_fuel n l) -> Permutation l p.
Proof.
  intros A n. induction n as [|n IH]; intros l p L H; simpl in H.
  - destruct l; [|discriminate]. destruct H as [<-|[]]. constructor.
  - apply in_flat_map in H as [k [_ H]].
    destruct (pick k l) as [[x rest]|] eqn:E; [|destruct H].
    apply in_map_iff in H as [q [<- Hq]].
    destruct (pick_perm _ _ _ _ _ E) as [P L'].
    eapply Permutation_trans; [exact P|]. apply perm_skip. apply IH; [lia | exact Hq].
Qed.

Lemma permutations_perm : forall A (l p : list A), In p (permutations l) -> Permutation l p.
Proof. intros. eapply perms_fuel_perm; [reflexivity | exact H]. Qed.

Lemma product_chain_perm : forall A (gs : list (list A)) (o : list A),
  In o (product_chain (map permutations gs)) -> Permutation (concat gs) o.
Proof.
  intros A gs. induction gs as [|g gs IH]; intros o H; simpl in H.
  - destruct H as [<-|[]]. constructor.
  - apply in_flat_map in H as [c [Hc H]]. apply in_map_iff in H as [rest [<- Hr]].
    simpl. apply Permutation_app; [apply permutations_perm, Hc | apply IH, Hr].
Qed.

Theorem legal_orders_perm : forall f o,
  In o (legal_iteration_orders f) -> Permutation (seq 0 (List.length (f_modes f))) o.
Proof.
  intros f o H. unfold legal_iteration_orders in H.
  rewrite <- concat_reorderable_groups. apply product_chain_perm, H.
Qed.

Lemma legal_orders_nodup : forall f o, In o (legal_iteration_orders f) -> NoDup o.
Proof. intros. eapply Permutation_NoDup; [eapply legal_orders_perm; eauto | apply seq_NoDup]. Qed.

Lemma legal_orders_bound : forall f o x,
  In o (legal_iteration_orders f) -> In x o -> x < List.length (f_modes f).
Proof.
  intros f o x H Hx. apply legal_orders_perm in H.
  apply Permutation_sym in H. eapply Permutation_in in Hx; [|exact H].
  apply in_seq in Hx. lia.
Qed.

(** at least one order exists (so NoKernelFoundError is never caused by an empty set of orders) *)
Lemma permutations_nonempty : forall A (l : list A), permutations l <> [].
Proof.
  intros A l. unfold permutations. remember (List.length l) as n eqn:E. revert l E.
  induction n as [|n IH]; intros l E; simpl.
  - discriminate.
  - destruct l as [|x l]; [discriminate|]. simpl. injection E as E.
    specialize (IH l E). destruct (perms_fuel n l) eqn:P; [contradiction|]. simpl. discriminate.
Qed.

Lemma product_chain_nonempty : forall A (ls : list (list (list A))),
  Forall (fun c => c <> []) ls -> product_chain ls <> [].
Proof.
  induction ls as [|c ls IH]; intros H; simpl.
  - discriminate.
  - inversion H; subst. destruct c as [|c0 c]; [contradiction|]. simpl.
    specialize (IH H3). destruct (product_chain ls); [contradiction|]. simpl. discriminate.
Qed.

Lemma legal_orders_nonempty : forall f, legal_iteration_orders f <> [].
Proof.
  intros f. unfold legal_iteration_orders. apply product_chain_nonempty.
  apply Forall_forall. intros c Hc. apply in_map_iff in Hc as [g [<- _]]. apply permutations_nonempty.
Qed.
