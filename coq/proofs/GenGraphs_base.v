(** * TIE "graphs": the iteration-graph enumeration REGENERATED from
    /repo/src/tensora/desugar/_to_iteration_graphs.py (gen/IterGraphs.v) is the hand model
    model/Graphs.v (+ the filter of commit 601f2d3, see [to_iteration_graphs_src] below):
    same list of graphs, same order, same exception class.

    Direction of the statements: for every MODEL input [x], [gen_f (up x) = up (model_f x)], where
    [up] embeds model values into the regenerated types (ids [n] become Python's ["n_name"], orderings
    become [Z], float literals go through an arbitrary [fval : string -> F], SumNode names are erased
    to the one constant the translation uses).  [up] is injective on everything the model compares. *)
From Coq Require Import ZArith List Bool String Lia Arith ZifyBool.
From TV Require Import spec.Num spec.PyBase spec.PyLib model.GraphsIter.
From TV Require Import gen.ExhaustAst gen.Exhaust gen.Desugar.
From TV Require model.Graphs model.OutputOrder.
From TV Require Import proofs.GraphsInd proofs.PyLibFacts.
From TV Require proofs.GraphsAssign proofs.GraphsOrders proofs.GraphsSimplify proofs.OutputOrderWalk.
From TV Require Import gen.IterGraphs.
Import ListNotations.
Open Scope list_scope.

Module M := TV.model.Graphs.

(** ** embedding of model values *)
Definition up_mode (m : M.mode) : Mode :=
  match m with M.Dense => Mode_dense | M.Compressed => Mode_compressed end.

Definition up_tref (t : M.tref) : id_expr :=
  IdTensor (show_Z (Z.of_nat (M.t_id t)) ++ "_" ++ M.t_name t)%string (M.t_name t) (M.t_indexes t)
           (map up_mode (M.t_modes t)).

Definition up_ol (o : M.olayer) : TensorLayer :=
  MkTensorLayer (up_tref (M.ol_tensor o)) (Z.of_nat (M.ol_layer o)).

Definition sum_name : string := ("sum_" ++ show_Z sum_counter_value)%string.

Definition up_format (f : M.format) : Format :=
  MkFormat (map up_mode (M.f_modes f)) (map Z.of_nat (M.f_ordering f)).

Definition up_formats (fs : M.formats) : pydict string Format :=
  map (fun kf => (fst kf, up_format (snd kf))) fs.

Section WithFloats.
Variable fval : string -> F.

Fixpoint up_iexpr (e : M.iexpr) : id_expr :=
  match e with
  | M.IInteger v => IdInteger v
  | M.IFloat h => IdFloat (fval h)
  | M.ITensor t => up_tref t
  | M.IAdd l r => IdAdd (up_iexpr l) (up_iexpr r)
  | M.IMultiply l r => IdMultiply (up_iexpr l) (up_iexpr r)
  end.

Fixpoint up_graph (g : M.graph) : ig_graph :=
  match g with
  | M.TerminalNode e => IgTerminalNode (up_iexpr e)
  | M.IterationNode i o n => IgIterationNode i (option_map up_ol o) (up_graph n)
  | M.SumNode _ ts => IgSumNode sum_name (map up_graph ts)
  end.

Fixpoint up_dexpr (e : M.dexpr) : de_expr :=
  match e with
  | M.DInteger v => DeInteger v
  | M.DFloat h => DeFloat (fval h)
  | M.DTensor t => DeTensor (Z.of_nat (M.d_id t)) (M.d_name t) (M.d_indexes t)
  | M.DAdd l r => DeAdd (up_dexpr l) (up_dexpr r)
  | M.DMultiply l r => DeMultiply (up_dexpr l) (up_dexpr r)
  | M.DContract i x => DeContract i (up_dexpr x)
  end.

Definition up_assign (a : M.dassign) : de_assignment :=
  DeAssignment (up_dexpr (M.DTensor (M.a_target a))) (up_dexpr (M.a_expr a)).

(** a model result as a generator run to completion: nothing is yielded before an exception *)
Definition up_res (exc_ill : string) (r : M.res (list M.graph)) : pgen ig_graph :=
  match r with
  | M.ROk gs => (map up_graph gs, None)
  | M.RDiagonal => ([], Some "DiagonalAccessError"%string)
  | M.RIllFormed => ([], Some exc_ill)
  end.

(** ** generators that do not raise *)
Lemma g_for_items_pure : forall A B (h : B -> list A) (body : B -> pgen A) items,
  (forall x, In x items -> body x = (h x, None)) ->
  g_for_items body items None = (flat_map h items, None).
Proof.
  induction items as [|x r IH]; intros Hb; simpl; [reflexivity|].
  rewrite (Hb x (or_introl eq_refl)). rewrite IH by (intros; apply Hb; now right). reflexivity.
Qed.

Lemma g_for_pure : forall A B (h : B -> list A) (body : B -> pgen A) items,
  (forall x, In x items -> body x = (h x, None)) ->
  g_for (items, None) body = (flat_map h items, None).
Proof. intros. unfold g_for. simpl. now apply g_for_items_pure. Qed.

Lemma flat_map_single : forall A B (f : A -> B) l, flat_map (fun x => [f x]) l = map f l.
Proof. induction l; simpl; congruence. Qed.

Lemma g_for_map : forall A B C (f : C -> B) (body : B -> pgen A) items stop,
  g_for (map f items, stop) body = g_for (items, stop) (fun x => body (f x)).
Proof.
  intros. unfold g_for. simpl. induction items as [|x r IH]; simpl; [reflexivity|]. now rewrite IH.
Qed.

Lemma g_for_yield : forall A B (f : B -> A) items,
  g_for (items, None) (fun x => g_yield (f x)) = (map f items, None).
Proof.
  intros. unfold g_for. simpl. induction items as [|x r IH]; simpl; [reflexivity|].
  rewrite IH. reflexivity.
Qed.

Lemma g_for_raise : forall A B (body : B -> pgen A) e, g_for ([], Some e) body = ([], Some e).
Proof. reflexivity. Qed.

Lemma g_seq_pure : forall A (a b : list A), g_seq (a, None) (b, None) = (a ++ b, None).
Proof. reflexivity. Qed.

Lemma map_map_up : forall (f : M.graph -> M.graph) (g : ig_graph -> ig_graph) l,
  (forall x, up_graph (f x) = g (up_graph x)) -> map g (map up_graph l) = map up_graph (map f l).
Proof. intros. rewrite !map_map. apply map_ext. intros. now rewrite H. Qed.

(** ** later_indexes *)
Lemma py_in_mem : forall s l, py_in String.eqb s l = M.mem s l.
Proof. reflexivity. Qed.

Lemma up_later : forall g, ig_later_indexes (up_graph g) = M.later_indexes g.
Proof.
  induction g using graph_ind2; simpl; [reflexivity | now rewrite IHg |].
  induction H as [|t r Ht _ IH]; simpl; [reflexivity|]. now rewrite Ht, IH.
Qed.

(** ** merge_add / merge_multiply *)
Definition iter_tail (i : string) (o : option TensorLayer) : ig_graph -> pgen ig_graph :=
  fun tail => g_yield (IgIterationNode i o tail).

Lemma merge_add_TI : forall le ri ro rn,
  merge_add (IgTerminalNode le) (IgIterationNode ri ro rn)
  = g_for (merge_add (IgTerminalNode le) rn) (iter_tail ri ro).
Proof. reflexivity. Qed.
Lemma merge_add_IT : forall li lo ln re,
  merge_add (IgIterationNode li lo ln) (IgTerminalNode re)
  = g_for (merge_add ln (IgTerminalNode re)) (iter_tail li lo).
Proof. reflexivity. Qed.
Lemma merge_add_II : forall li lo ln ri ro rn,
  merge_add (IgIterationNode li lo ln) (IgIterationNode ri ro rn)
  = if String.eqb li ri then g_for (merge_add ln rn) (iter_tail li lo)
    else g_seq (if negb (py_in String.eqb li (ig_later_indexes rn))
                then g_for (merge_add ln (IgIterationNode ri ro rn)) (iter_tail li lo) else g_done)
               (if negb (py_in String.eqb ri (ig_later_indexes ln))
                then g_for (merge_add (IgIterationNode li lo ln) rn) (iter_tail ri ro) else g_done).
Proof. reflexivity. Qed.

Lemma merge_multiply_TI : forall le ri ro rn,
  merge_multiply (IgTerminalNode le) (IgIterationNode ri ro rn)
  = g_for (merge_multiply (IgTerminalNode le) rn) (iter_tail ri ro).
Proof. reflexivity. Qed.
Lemma merge_multiply_IT : forall li lo ln re,
  merge_multiply (IgIterationNode li lo ln) (IgTerminalNode re)
  = g_for (merge_multiply ln (IgTerminalNode re)) (iter_tail li lo).
Proof. reflexivity. Qed.
Lemma merge_multiply_II : forall li lo ln ri ro rn,
  merge_multiply (IgIterationNode li lo ln) (IgIterationNode ri ro rn)
  = if String.eqb li ri then g_for (merge_multiply ln rn) (iter_tail li lo)
    else g_seq (if negb (py_in String.eqb li (ig_later_indexes rn))
                then g_for (merge_multiply ln (IgIterationNode ri ro rn)) (iter_tail li lo) else g_done)
               (if negb (py_in String.eqb ri (ig_later_indexes ln))
                then g_for (merge_multiply (IgIterationNode li lo ln) rn) (iter_tail ri ro) else g_done).
Proof. reflexivity. Qed.

Lemma m_merge_II : forall mk li lo ln ri ro rn,
  M.merge_with mk (M.IterationNode li lo ln) (M.IterationNode ri ro rn)
  = if String.eqb li ri then map (M.IterationNode li lo) (M.merge_with mk ln rn)
    else (if negb (M.mem li (M.later_indexes rn))
          then map (M.IterationNode li lo) (M.merge_with mk ln (M.IterationNode ri ro rn)) else [])
         ++ (if negb (M.mem ri (M.later_indexes ln))
             then map (M.IterationNode ri ro) (M.merge_with mk (M.IterationNode li lo ln) rn) else []).
Proof. reflexivity. Qed.
Lemma m_merge_TI : forall mk le ri ro rn,
  M.merge_with mk (M.TerminalNode le) (M.IterationNode ri ro rn)
  = map (M.IterationNode ri ro) (M.merge_with mk (M.TerminalNode le) rn).
Proof. reflexivity. Qed.
Lemma m_merge_IT : forall mk li lo ln re,
  M.merge_with mk (M.IterationNode li lo ln) (M.TerminalNode re)
  = map (M.IterationNode li lo) (M.merge_with mk ln (M.TerminalNode re)).
Proof. reflexivity. Qed.

Lemma g_for_iter_tail : forall i o l,
  g_for (map up_graph l, None) (iter_tail i (option_map up_ol o))
  = (map up_graph (map (M.IterationNode i o) l), None).
Proof. intros. unfold iter_tail. rewrite g_for_yield, !map_map. reflexivity. Qed.

Lemma if_gen : forall (c : bool) (l : list M.graph),
  (if c then (map up_graph l, @None string) else g_done) = (map up_graph (if c then l else []), None).
Proof. now destruct c. Qed.

Lemma merge_add_equiv : forall l r,
  merge_add (up_graph l) (up_graph r) = (map up_graph (M.merge_add l r), None).
Proof.
  unfold M.merge_add.
  induction l as [le | li lo ln IHl | ln lts _] using graph_ind2;
    induction r as [re | ri ro rn IHr | rn rts _] using graph_ind2; try reflexivity.
  - cbn [up_graph]. rewrite merge_add_TI, m_merge_TI.
    change (IgTerminalNode (up_iexpr le)) with (up_graph (M.TerminalNode le)).
    now rewrite IHr, g_for_iter_tail.
  - cbn [up_graph]. rewrite merge_add_IT, m_merge_IT.
    change (IgTerminalNode (up_iexpr re)) with (up_graph (M.TerminalNode re)).
    now rewrite IHl, g_for_iter_tail.
  - cbn [up_graph]. rewrite merge_add_II, m_merge_II.
    change (IgIterationNode ri (option_map up_ol ro) (up_graph rn)) with (up_graph (M.IterationNode ri ro rn)).
    change (IgIterationNode li (option_map up_ol lo) (up_graph ln)) with (up_graph (M.IterationNode li lo ln)).
    rewrite !IHl, IHr, !g_for_iter_tail, !up_later, !py_in_mem, !if_gen, g_seq_pure.
    destruct (String.eqb li ri); [reflexivity|]. now rewrite map_app.
Qed.

Lemma merge_multiply_equiv : forall l r,
  merge_multiply (up_graph l) (up_graph r) = (map up_graph (M.merge_multiply l r), None).
Proof.
  unfold M.merge_multiply.
  induction l as [le | li lo ln IHl | ln lts _] using graph_ind2;
    induction r as [re | ri ro rn IHr | rn rts _] using graph_ind2; try reflexivity.
  - cbn [up_graph]. rewrite merge_multiply_TI, m_merge_TI.
    change (IgTerminalNode (up_iexpr le)) with (up_graph (M.TerminalNode le)).
    now rewrite IHr, g_for_iter_tail.
  - cbn [up_graph]. rewrite merge_multiply_IT, m_merge_IT.
    change (IgTerminalNode (up_iexpr re)) with (up_graph (M.TerminalNode re)).
    now rewrite IHl, g_for_iter_tail.
  - cbn [up_graph]. rewrite merge_multiply_II, m_merge_II.
    change (IgIterationNode ri (option_map up_ol ro) (up_graph rn)) with (up_graph (M.IterationNode ri ro rn)).
    change (IgIterationNode li (option_map up_ol lo) (up_graph ln)) with (up_graph (M.IterationNode li lo ln)).
    rewrite !IHl, IHr, !g_for_iter_tail, !up_later, !py_in_mem, !if_gen, g_seq_pure.
    destruct (String.eqb li ri); [reflexivity|]. now rewrite map_app.
Qed.

End WithFloats.

(** ** legal_iteration_orders *)
Lemma map_flat_map' : forall A B C (f : B -> C) (g : A -> list B) l,
  map f (flat_map g l) = flat_map (fun x => map f (g x)) l.
Proof. induction l; simpl; [reflexivity|]. now rewrite map_app, IHl. Qed.

Lemma it_pick_map : forall A B (f : A -> B) k l,
  it_pick k (map f l) = option_map (fun xr => (f (fst xr), map f (snd xr))) (M.pick k l).
Proof.
  induction k; destruct l; simpl; try reflexivity.
  rewrite IHk. destruct (M.pick k l) as [[y r]|]; reflexivity.
Qed.

Lemma it_perms_map : forall A B (f : A -> B) n l,
  it_perms_fuel n (map f l) = map (map f) (M.perms_fuel n l).
Proof.
  induction n; intros l; simpl; [reflexivity|].
  rewrite map_length, map_flat_map'. apply flat_map_ext. intros k.
  rewrite it_pick_map. destruct (M.pick k l) as [[y r]|]; simpl; [|reflexivity].
  rewrite IHn, !map_map. reflexivity.
Qed.

Lemma it_permutations_map : forall A B (f : A -> B) l,
  it_permutations (map f l) = map (map f) (M.permutations l).
Proof. intros. unfold it_permutations, M.permutations. rewrite map_length. apply it_perms_map. Qed.

Lemma it_product_chain : forall A (ls : list (list (list A))),
  map (@List.concat A) (it_product ls) = M.product_chain ls.
Proof.
  induction ls as [|c r IH]; simpl; [reflexivity|].
  rewrite map_flat_map'. apply flat_map_ext. intros x. rewrite map_map. simpl.
  rewrite <- IH, map_map. reflexivity.
Qed.

Lemma product_chain_map : forall A B (f : A -> B) (ls : list (list (list A))),
  M.product_chain (map (map (map f)) ls) = map (map f) (M.product_chain ls).
Proof.
  induction ls as [|c r IH]; simpl; [reflexivity|].
  rewrite map_flat_map', flat_map_concat_map, map_map, <- flat_map_concat_map.
  apply flat_map_ext. intros x. rewrite IH, !map_map. apply map_ext. intros y. now rewrite map_app.
Qed.

Definition upn (l : list nat) : list Z := map Z.of_nat l.

Lemma append_to_last_up : forall gs i, gs <> [] ->
  append_to_last (map upn gs) (Z.of_nat i) = POk (map upn (M.append_last i gs)).
Proof.
  induction gs as [|g r IH]; intros i Hne; [congruence|].
  destruct r as [|g' r'].
  - simpl. unfold upn. now rewrite map_app.
  - specialize (IH i ltac:(discriminate)).
    change (append_to_last (map upn (g :: g' :: r')) (Z.of_nat i))
      with (match append_to_last (map upn (g' :: r')) (Z.of_nat i) with
            | POk r'' => POk (upn g :: r'') | PRaise e => PRaise e end).
    rewrite IH. reflexivity.
Qed.

Lemma append_last_nonempty : forall i gs, M.append_last i gs <> [].
Proof. destruct gs as [|g [|g' r]]; simpl; discriminate. Qed.

Section Orders.
  Variable step : list (list Z) * bool -> Z * Mode -> pres (list (list Z) * bool).
  Hypothesis step_dense_restart : forall gs i, step (gs, true) (i, Mode_dense) = POk (gs ++ [[i]], false).
  Hypothesis step_dense_continue : forall gs i,
    step (gs, false) (i, Mode_dense) = r_bind (append_to_last gs i) (fun g => POk (g, false)).
  Hypothesis step_compressed : forall gs r i, step (gs, r) (i, Mode_compressed) = POk (gs ++ [[i]], true).

  Lemma lio_fold : forall ms i restart gs, (restart = false -> gs <> []) ->
    exists r', r_fold step (py_enumerate_from (Z.of_nat i) (map up_mode ms)) (map upn gs, restart)
               = POk (map upn (M.groups_from ms i restart gs), r').
  Proof.
    induction ms as [|m r IH]; intros i restart gs Hinv; [eexists; reflexivity|].
    cbn [map py_enumerate_from M.groups_from].
    replace (Z.of_nat i + 1)%Z with (Z.of_nat (S i)) by lia.
    change (r_fold step ((Z.of_nat i, up_mode m) :: ?l) ?acc)
      with (match step acc (Z.of_nat i, up_mode m) with PRaise e => PRaise e | POk acc' => r_fold step l acc' end).
    destruct m; cbn [up_mode].
    - destruct restart.
      + rewrite step_dense_restart.
        replace (map upn gs ++ [[Z.of_nat i]]) with (map upn (gs ++ [[i]])) by (now rewrite map_app).
        apply IH. intros _. destruct gs; discriminate.
      + rewrite step_dense_continue, append_to_last_up by auto. cbn [r_bind].
        apply IH. intros _. apply append_last_nonempty.
    - rewrite step_compressed.
      replace (map upn gs ++ [[Z.of_nat i]]) with (map upn (gs ++ [[i]])) by (now rewrite map_app).
      apply IH. discriminate.
  Qed.
End Orders.

Theorem legal_iteration_orders_equiv : forall f,
  legal_iteration_orders (up_format f) = (map upn (M.legal_iteration_orders f), None).
Proof.
  intros f. unfold legal_iteration_orders, M.legal_iteration_orders, M.reorderable_groups.
  match goal with |- context [r_fold ?st _ _] => set (step := st) end.
  destruct (lio_fold step) with (ms := M.f_modes f) (i := 0) (restart := true) (gs := @nil (list nat))
    as [r' E]; try (intros; reflexivity); try discriminate.
  { intros gs i. unfold step. cbn. destruct (append_to_last gs i); reflexivity. }
  cbv zeta. unfold py_enumerate. cbn [up_format Format_modes]. simpl (map upn []) in E. simpl (Z.of_nat 0) in E.
  rewrite E. cbn [g_bind]. unfold g_of_list. rewrite g_for_yield.
  rewrite it_product_chain. f_equal. unfold upn.
  rewrite <- product_chain_map. f_equal.
  rewrite !map_map. apply map_ext. intros g. apply it_permutations_map.
Qed.

(** ** contains_contraction *)
Lemma contains_contraction_equiv : forall fval e,
  contains_contraction (up_dexpr fval e) = M.contains_contraction e.
Proof. induction e; simpl; congruence. Qed.

(** ** the filters on the target chain, and merge_assignment *)
Lemma r_map_ok : forall A B (f : A -> pres B) (h : A -> B) l,
  (forall x, In x l -> f x = POk (h x)) -> r_map f l = POk (map h l).
Proof.
  induction l as [|x r IH]; intros H; [reflexivity|].
  change (r_map f (x :: r)) with (match f x with PRaise e => PRaise e | POk y =>
    match r_map f r with PRaise e => PRaise e | POk ys => POk (y :: ys) end end).
  rewrite (H x (or_introl eq_refl)), IH by (intros; apply H; now right). reflexivity.
Qed.

Lemma r_map_map : forall A B C (g : A -> B) (f : B -> pres C) l,
  r_map f (map g l) = r_map (fun x => f (g x)) l.
Proof.
  induction l as [|x r IH]; [reflexivity|].
  change (r_map f (map g (x :: r))) with (match f (g x) with PRaise e => PRaise e | POk y =>
    match r_map f (map g r) with PRaise e => PRaise e | POk ys => POk (y :: ys) end end).
  rewrite IH. reflexivity.
Qed.

Lemma skipn_map' : forall A B (f : A -> B) n l, skipn n (map f l) = map f (skipn n l).
Proof. induction n; destruct l; simpl; auto. Qed.

Lemma it_product_map : forall A B (f : A -> B) (ls : list (list A)),
  it_product (map (map f) ls) = map (map f) (M.product ls).
Proof.
  induction ls as [|c r IH]; simpl; [reflexivity|].
  rewrite map_flat_map', flat_map_concat_map, map_map, <- flat_map_concat_map.
  apply flat_map_ext. intros x. rewrite IH, !map_map. reflexivity.
Qed.

(** what [target_order_supported] computes, on the model's representation of a target chain
    (the hand model model/Graphs.v predates commit 601f2d3 and has no such filter) *)
Fixpoint target_supported_from (n : nat) (tgt : list M.tlayer) : bool :=
  match tgt with
  | [] => true
  | (_, l) :: r =>
      if negb (Nat.eqb (M.ol_layer l) n)
      then forallb M.is_dense (skipn n (M.t_modes (M.ol_tensor l)))
      else target_supported_from (S n) r
  end.
Definition target_supported (tgt : list M.tlayer) : bool := target_supported_from 0 tgt.

Section Assign.
  Variable fval : string -> F.
  Notation up := (up_graph fval).

  Variable ol : pydict string TensorLayer.
  Variable bottom : M.iexpr.

  Definition tgt_graph (tgt : list M.tlayer) : ig_graph :=
    up (M.chain_graph (map fst tgt) (M.TerminalNode bottom)).

  (** the dictionary [output_layers] agrees with the chain, and every layer has a mode *)
  Definition tgt_ok (tgt : list M.tlayer) : Prop :=
    forall i l, In (i, l) tgt ->
      dict_get String.eqb i ol = Some (up_ol l) /\ M.ol_mode l <> None.

  Lemma tgt_ok_tail : forall x r, tgt_ok (x :: r) -> tgt_ok r.
  Proof. intros x r H i l Hin. apply H. now right. Qed.

  Lemma layer_mode_up : forall l m, M.ol_mode l = Some m -> TensorLayer_mode (up_ol l) = POk (up_mode m).
  Proof.
    intros l m H. unfold TensorLayer_mode, up_ol, M.ol_mode in *. cbn.
    unfold py_getitem. destruct (0 <=? Z.of_nat (M.ol_layer l))%Z eqn:E; [|lia].
    rewrite Nat2Z.id, nth_error_map, H. reflexivity.
  Qed.

  Lemma pending_step : forall i o n,
    target_has_pending_compressed (IgIterationNode i o n) ol
    = r_bind (r_bind (r_bind (r_of_opt "KeyError" (dict_get String.eqb i ol)) TensorLayer_mode)
                     (fun v => POk (Mode_eqb v Mode_compressed)))
             (fun c => if c then POk true else target_has_pending_compressed n ol).
  Proof. reflexivity. Qed.

  Lemma pending_equiv : forall tgt, tgt_ok tgt ->
    target_has_pending_compressed (tgt_graph tgt) ol = POk (M.pending_compressed tgt).
  Proof.
    unfold tgt_graph.
    induction tgt as [|[i l] r IH]; intros H; [reflexivity|].
    cbn [map fst M.chain_graph up_graph]. rewrite pending_step.
    destruct (H i l (or_introl eq_refl)) as [Hd Hm]. rewrite Hd. cbn [r_of_opt r_bind].
    destruct (M.ol_mode l) as [m|] eqn:Em; [|congruence].
    rewrite (layer_mode_up _ _ Em). cbn [r_bind].
    unfold M.pending_compressed. cbn [existsb snd]. rewrite Em.
    destruct m; cbn [up_mode Mode_eqb orb].
    - apply IH. eapply tgt_ok_tail; eauto.
    - reflexivity.
  Qed.

  Lemma supported_from_equiv : forall tgt n, tgt_ok tgt ->
    (fix loop_1 (node : ig_graph) (next_layer : Z) {struct node} : pres bool :=
       match node with
       | IgIterationNode node_index_variable _ node_next =>
           r_bind (r_of_opt "KeyError" (dict_get String.eqb node_index_variable ol)) (fun layer =>
           if negb (Z.eqb (TensorLayer_layer layer) next_layer)
           then r_bind (r_bind (r_bind (id_expr_get_modes (TensorLayer_tensor layer))
                  (fun v_2 => POk (py_slice_from v_2 next_layer)))
                  (fun v_3 => POk (map (fun mode => Mode_eqb mode Mode_dense) v_3)))
                  (fun v_4 => POk (forallb (fun b_ => b_) v_4))
           else let next_layer := (next_layer + 1)%Z in loop_1 node_next next_layer)
       | _ => POk true
       end) (tgt_graph tgt) (Z.of_nat n) = POk (target_supported_from n tgt).
  Proof.
    unfold tgt_graph.
    induction tgt as [|[i l] r IH]; intros n H; [reflexivity|].
    cbn [map fst M.chain_graph up_graph]. cbn fix beta iota.
    destruct (H i l (or_introl eq_refl)) as [Hd _]. rewrite Hd. cbn [r_of_opt r_bind].
    cbn [target_supported_from up_ol TensorLayer_layer TensorLayer_tensor].
    replace (Z.of_nat (M.ol_layer l) =? Z.of_nat n)%Z with (Nat.eqb (M.ol_layer l) n)
      by (destruct (Nat.eqb_spec (M.ol_layer l) n); [subst; now rewrite Z.eqb_refl | symmetry; apply Z.eqb_neq; lia]).
    destruct (Nat.eqb (M.ol_layer l) n); cbn [negb].
    - replace (Z.of_nat n + 1)%Z with (Z.of_nat (S n)) by lia. apply IH. eapply tgt_ok_tail; eauto.
    - cbn. unfold py_slice_from. destruct (0 <=? Z.of_nat n)%Z eqn:E; [|lia].
      rewrite Nat2Z.id. f_equal. rewrite skipn_map', map_map.
      generalize (skipn n (M.t_modes (M.ol_tensor l))). induction l0 as [|m r' IHr]; [reflexivity|].
      simpl. rewrite IHr. now destruct m.
  Qed.

  Lemma supported_equiv : forall tgt, tgt_ok tgt ->
    target_order_supported (tgt_graph tgt) ol = POk (target_supported tgt).
  Proof. intros tgt H. apply (supported_from_equiv tgt 0 H). Qed.
End Assign.

(** ** merge_assignment *)
Definition simplify_hyp (fval : string -> F) : Prop :=
  forall name ts,
    simplify_add (S (ig_graph_size (IgSumNode sum_name (map (up_graph fval) ts))))
                 (IgSumNode sum_name (map (up_graph fval) ts))
    = POk (up_graph fval (M.simplify_add name ts)).

Lemma ma_T_any : forall te e ol, merge_assignment (IgTerminalNode te) e ol = g_yield e.
Proof. destruct e; reflexivity. Qed.
Lemma ma_I_T : forall ti to tn ee ol,
  merge_assignment (IgIterationNode ti to tn) (IgTerminalNode ee) ol
  = g_bind (r_of_opt "KeyError" (dict_get String.eqb ti ol)) (fun leaf =>
      g_for (merge_assignment tn (IgTerminalNode ee) ol) (iter_tail ti (Some leaf))).
Proof. reflexivity. Qed.
Lemma ma_I_I : forall ti to tn ei eo en ol,
  merge_assignment (IgIterationNode ti to tn) (IgIterationNode ei eo en) ol
  = if String.eqb ti ei
    then g_bind (r_of_opt "KeyError" (dict_get String.eqb ti ol)) (fun leaf =>
           g_for (merge_assignment tn en ol) (iter_tail ti (Some leaf)))
    else g_seq
      (if negb (py_in String.eqb ti (ig_later_indexes en))
       then g_bind (r_of_opt "KeyError" (dict_get String.eqb ti ol)) (fun leaf =>
              g_for (merge_assignment tn (IgIterationNode ei eo en) ol) (iter_tail ti (Some leaf)))
       else g_done)
      (g_bind (r_bind (POk (negb (py_in String.eqb ei (ig_later_indexes tn))))
                 (fun b => if b then r_bind (target_has_pending_compressed (IgIterationNode ti to tn) ol)
                                            (fun v => POk (negb v)) else POk false))
         (fun c => if c then g_for (merge_assignment (IgIterationNode ti to tn) en ol) (iter_tail ei eo)
                   else g_done)).
Proof. reflexivity. Qed.
Lemma ma_I_S : forall ti to tn name terms ol,
  merge_assignment (IgIterationNode ti to tn) (IgSumNode name terms) ol
  = g_bind (r_bind (r_map (fun term => g_collect (merge_assignment (IgIterationNode ti to tn) term ol)) terms)
                   (fun ls => POk (it_product ls)))
      (fun xs => g_for (g_of_list xs) (fun merged =>
         g_bind (simplify_add (S (ig_graph_size (IgSumNode name merged))) (IgSumNode name merged))
                (fun y => g_yield y))).
Proof. reflexivity. Qed.

Section Assign2.
  Variable fval : string -> F.
  Notation up := (up_graph fval).
  Hypothesis Hsimp : simplify_hyp fval.
  Variable ol : pydict string TensorLayer.
  Variable bottom : M.iexpr.

  Lemma later_chain : forall ixs b, M.later_indexes (M.chain_graph ixs (M.TerminalNode b)) = ixs.
  Proof. induction ixs; simpl; congruence. Qed.

  Lemma g_for_iter_tail_some : forall i l gs,
    g_for (map up gs, None) (iter_tail i (Some (up_ol l)))
    = (map up (map (M.IterationNode i (Some l)) gs), None).
  Proof. intros. apply (g_for_iter_tail fval i (Some l)). Qed.

  Lemma merge_assignment_equiv : forall e tgt, tgt_ok ol tgt ->
    merge_assignment (tgt_graph fval bottom tgt) (up e) ol = (map up (M.merge_assignment e tgt), None).
  Proof.
    induction e as [ee | ei eo en IHe | name terms IHt] using graph_ind2.
    - (* terminal *)
      induction tgt as [|[ti tl] ts IH]; intros Hok.
      + unfold tgt_graph. cbn [map M.chain_graph up_graph]. now rewrite ma_T_any.
      + unfold tgt_graph in *. cbn [map fst M.chain_graph up_graph]. cbn [up_graph] in IH.
        rewrite ma_I_T. destruct (Hok ti tl (or_introl eq_refl)) as [Hd _]. rewrite Hd. cbn [r_of_opt g_bind].
        rewrite IH by (eapply tgt_ok_tail; eauto).
        rewrite g_for_iter_tail_some. reflexivity.
    - (* iteration node *)
      induction tgt as [|[ti tl] ts IH]; intros Hok.
      + unfold tgt_graph. cbn [map M.chain_graph]. cbn [up_graph]. now rewrite ma_T_any.
      + pose proof (tgt_ok_tail _ _ _ Hok) as Hok'.
        destruct (Hok ti tl (or_introl eq_refl)) as [Hd _].
        specialize (IH Hok').
        pose proof (IHe ts Hok') as IHe1.
        pose proof (IHe ((ti, tl) :: ts) Hok) as IHe2.
        pose proof (pending_equiv fval ol bottom _ Hok) as Hp.
        unfold tgt_graph in *. cbn [map fst M.chain_graph] in *. cbn [up_graph] in *.
        rewrite ma_I_I, Hp, Hd, IHe1, IHe2, IH. cbn [r_of_opt g_bind r_bind].
        rewrite !g_for_iter_tail_some, (g_for_iter_tail fval ei eo), !up_later, later_chain.
        repeat change (py_in String.eqb ?a ?b) with (M.mem a b).
        rewrite GraphsAssign.ma_I.
        destruct (String.eqb ti ei); [reflexivity|].
        unfold M.tlayer in *.
        destruct (M.mem ti (M.later_indexes en)); destruct (M.mem ei (map fst ts));
          destruct (M.pending_compressed ((ti, tl) :: ts)); cbn [negb andb r_bind g_bind];
          unfold g_done; rewrite ?g_seq_pure, ?map_app, ?app_nil_r; reflexivity.
    - (* sum node *)
      intros tgt Hok. destruct tgt as [|[ti tl] ts].
      + unfold tgt_graph. cbn [map M.chain_graph]. cbn [up_graph]. now rewrite ma_T_any.
      + rewrite GraphsAssign.ma_S.
        unfold tgt_graph in *. cbn [map fst M.chain_graph] in *. cbn [up_graph] in *.
        rewrite ma_I_S.
        rewrite r_map_map.
        rewrite (r_map_ok _ _ _ (fun t => map up (M.merge_assignment t ((ti, tl) :: ts)))).
        2:{ intros t Ht. rewrite Forall_forall in IHt.
            pose proof (IHt t Ht ((ti, tl) :: ts) Hok) as E.
            cbn [map fst M.chain_graph] in E. cbn [up_graph] in E. rewrite E. reflexivity. }
        cbn [r_bind g_bind]. unfold g_of_list.
        replace (map (fun x => map up (M.merge_assignment x ((ti, tl) :: ts))) terms)
          with (map (map up) (map (fun t => M.merge_assignment t ((ti, tl) :: ts)) terms))
          by (now rewrite map_map).
        rewrite it_product_map.
        rewrite g_for_map.
        rewrite (g_for_pure _ _ (fun merged => [up (M.simplify_add name merged)])).
        * f_equal. rewrite !map_map, flat_map_single. reflexivity.
        * intros m _. rewrite (Hsimp name m). reflexivity.
  Qed.
End Assign2.

(** ** to_iteration_graphs_expression *)
Lemma dict_get_up_formats : forall k fs,
  dict_get String.eqb k (up_formats fs) = option_map up_format (M.lookup k fs).
Proof.
  induction fs as [|[k' f] r IH]; [reflexivity|]. simpl. destruct (String.eqb k k'); [reflexivity | apply IH].
Qed.

Lemma py_getitem_nat : forall A (l : list A) n, py_getitem l (Z.of_nat n) = nth_error l n.
Proof. intros. unfold py_getitem. destruct (0 <=? Z.of_nat n)%Z eqn:E; [now rewrite Nat2Z.id | lia]. Qed.

Lemma r_map_cons : forall A B (f : A -> pres B) x r,
  r_map f (x :: r) = match f x with PRaise e => PRaise e | POk y =>
    match r_map f r with PRaise e => PRaise e | POk ys => POk (y :: ys) end end.
Proof. reflexivity. Qed.

Lemma r_fold_cons : forall A S (f : S -> A -> pres S) x r acc,
  r_fold f (x :: r) acc = match f acc x with PRaise e => PRaise e | POk acc' => r_fold f r acc' end.
Proof. reflexivity. Qed.

Lemma r_fold_app : forall A S (f : S -> A -> pres S) l1 l2 acc,
  r_fold f (l1 ++ l2) acc = r_bind (r_fold f l1 acc) (r_fold f l2).
Proof.
  induction l1 as [|x r IH]; intros; [reflexivity|].
  rewrite <- app_comm_cons, !r_fold_cons. destruct (f acc x); [apply IH | reflexivity].
Qed.

Lemma permute_indexes_up : forall idx ord,
  r_map (fun i => r_of_opt "IndexError" (py_getitem idx i)) (map Z.of_nat ord)
  = match M.permute_indexes idx ord with Some ivs => POk ivs | None => PRaise "IndexError" end.
Proof.
  induction ord as [|o r IH]; [reflexivity|].
  cbn [map M.permute_indexes]. rewrite r_map_cons, py_getitem_nat, IH.
  destruct (nth_error idx o); cbn [r_of_opt]; [|reflexivity].
  destruct (M.permute_indexes idx r); reflexivity.
Qed.

Lemma set_of_list_length : forall l, (List.length (set_of_list String.eqb l) <= List.length l)%nat.
Proof. induction l; simpl; [lia|]. destruct (py_in String.eqb a l); simpl; lia. Qed.

Lemma nodup_len : forall l,
  Z.eqb (Z.of_nat (List.length (set_of_list String.eqb l))) (Z.of_nat (List.length l)) = M.nodupb l.
Proof.
  induction l as [|x r IH]; [reflexivity|].
  cbn [set_of_list M.nodupb]. change (py_in String.eqb x r) with (M.mem x r).
  destruct (M.mem x r); cbn [negb andb].
  - pose proof (set_of_list_length r). apply Z.eqb_neq. simpl. lia.
  - rewrite <- IH. simpl List.length.
    destruct (Z.eqb_spec (Z.of_nat (List.length (set_of_list String.eqb r))) (Z.of_nat (List.length r)));
      [apply Z.eqb_eq | apply Z.eqb_neq]; lia.
Qed.

Section Chain.
  Variable fval : string -> F.
  Notation up := (up_graph fval).
  Variable ivs : list string.
  Variable stepf : ig_graph -> Z -> pres ig_graph.
  Hypothesis stepf_spec : forall g i,
    stepf g i = r_bind (r_of_opt "IndexError" (py_getitem ivs i)) (fun iv => POk (IgIterationNode iv None g)).

  Lemma chain_up : forall o b,
    r_fold stepf (rev (upn o)) (up b)
    = match M.chain_indexes ivs o with
      | Some ixs => POk (up (M.chain_graph ixs b))
      | None => PRaise "IndexError"
      end.
  Proof.
    induction o as [|a r IH]; intros b; [reflexivity|].
    unfold upn in *. cbn [map rev M.chain_indexes]. rewrite r_fold_app, IH.
    destruct (M.chain_indexes ivs r) as [ixs|]; cbn [r_bind].
    - rewrite r_fold_cons, stepf_spec, py_getitem_nat.
      destruct (nth_error ivs a); reflexivity.
    - destruct (nth_error ivs a); reflexivity.
  Qed.
End Chain.

Lemma chain_indexes_none_iff : forall ivs o,
  M.chain_indexes ivs o = None <-> exists x, In x o /\ (List.length ivs <= x)%nat.
Proof.
  induction o as [|a r IH]; simpl.
  - split; [discriminate | intros [x [[] _]]].
  - destruct (nth_error ivs a) eqn:E.
    + destruct (M.chain_indexes ivs r) eqn:E2.
      * split; [discriminate|]. intros [x [[<-|Hin] Hx]].
        -- apply nth_error_None in Hx. congruence.
        -- assert (@None (list string) = None) as _ by reflexivity.
           destruct IH as [_ IH]. discriminate IH. eauto.
      * split; [|reflexivity]. intros _. destruct IH as [IH _]. destruct (IH eq_refl) as [x [Hin Hx]]. eauto.
    + split; [|reflexivity]. intros _. exists a. split; [now left | now apply nth_error_None].
Qed.

Lemma sequence_chain : forall ivs orders,
  (forall o o', In o orders -> In o' orders -> forall x, In x o -> In x o') ->
  (exists chains, M.sequence (map (M.chain_indexes ivs) orders) = Some chains
                  /\ Forall2 (fun o c => M.chain_indexes ivs o = Some c) orders chains)
  \/ (M.sequence (map (M.chain_indexes ivs) orders) = None
      /\ exists o r, orders = o :: r /\ M.chain_indexes ivs o = None).
Proof.
  intros ivs orders Hsame.
  destruct orders as [|o r]; [left; exists []; split; [reflexivity | constructor]|].
  destruct (M.chain_indexes ivs o) as [c|] eqn:Eo.
  - left.
    assert (Hall : forall o', In o' (o :: r) -> M.chain_indexes ivs o' <> None).
    { intros o' Hin Hn. apply chain_indexes_none_iff in Hn as [x [Hx Hl]].
      assert (M.chain_indexes ivs o = None) by (apply chain_indexes_none_iff; exists x; split; [eapply Hsame; eauto; now left | assumption]).
      congruence. }
    clear Eo c Hsame. revert Hall. generalize (o :: r). induction l as [|a l IH]; intros Hall.
    + exists []. split; [reflexivity | constructor].
    + destruct IH as [cs [E F]]; [intros; apply Hall; now right|].
      destruct (M.chain_indexes ivs a) as [ca|] eqn:Ea; [|exfalso; eapply Hall; [now left | eassumption]].
      exists (ca :: cs). split; [simpl; now rewrite Ea, E | now constructor].
  - right. split; [simpl; now rewrite Eo | eauto].
Qed.

Section Expr.
  Variable fval : string -> F.
  Notation up := (up_graph fval).
  Notation upd := (up_dexpr fval).

  (** relation between a regenerated generator and a model result *)
  Definition rel (g : pgen ig_graph) (r : M.res (list M.graph)) : Prop :=
    match r with
    | M.ROk gs => g = (map up gs, None)
    | M.RDiagonal => g = ([], Some "DiagonalAccessError"%string)
    | M.RIllFormed => exists e, g = ([], Some e) /\ e <> "DiagonalAccessError"%string
    end.

  Lemma tensor_graphs_equiv : forall t fs,
    rel (to_iteration_graphs_expression (upd (M.DTensor t)) (up_formats fs)) (M.tensor_graphs t fs).
  Proof.
    intros [id name idx] fs. cbn [up_dexpr to_iteration_graphs_expression M.d_id M.d_name M.d_indexes].
    unfold M.tensor_graphs, M.identify. cbn [M.d_id M.d_name M.d_indexes].
    rewrite dict_get_up_formats.
    destruct (M.lookup name fs) as [f|]; cbn [option_map r_of_opt g_bind r_bind];
      [|exists "KeyError"%string; split; [reflexivity | discriminate]].
    cbn [up_format Format_ordering Format_modes]. rewrite permute_indexes_up.
    destruct (M.permute_indexes idx (M.f_ordering f)) as [ivs|]; cbn [g_bind];
      [|exists "IndexError"%string; split; [reflexivity | discriminate]].
    cbn [M.t_indexes]. rewrite nodup_len.
    destruct (M.nodupb ivs); cbn [negb]; [|reflexivity].
    change (MkFormat (map up_mode (M.f_modes f)) (map Z.of_nat (M.f_ordering f))) with (up_format f).
    rewrite legal_iteration_orders_equiv, g_for_map. cbv zeta.
    set (tr := M.mkT id name ivs (M.f_modes f)).
    change (IgTerminalNode (IdTensor _ name ivs (map up_mode (M.f_modes f))))
      with (up (M.TerminalNode (M.ITensor tr))).
    match goal with |- context [r_fold ?st _ _] => set (stepf := st) end.
    assert (Hbody : forall o,
      g_bind (r_fold stepf (rev (upn o)) (up (M.TerminalNode (M.ITensor tr)))) (fun graph => g_yield graph)
      = match M.chain_indexes ivs o with
        | Some ixs => ([up (M.chain_graph ixs (M.TerminalNode (M.ITensor tr)))], None)
        | None => ([], Some "IndexError"%string)
        end).
    { intros o. rewrite (chain_up fval ivs stepf (fun g i => eq_refl)).
      destruct (M.chain_indexes ivs o); reflexivity. }
    destruct (sequence_chain ivs (M.legal_iteration_orders f)) as [[chains [E F2]] | [E [o [r [Eo En]]]]].
    - intros o o' Ho Ho' x Hx.
      apply GraphsOrders.legal_orders_perm in Ho, Ho'.
      eapply Permutation.Permutation_in; [exact Ho'|].
      eapply Permutation.Permutation_in; [apply Permutation.Permutation_sym; exact Ho | exact Hx].
    - rewrite E. cbn [rel].
      rewrite (g_for_pure _ _ (fun o => match M.chain_indexes ivs o with
                                        | Some ixs => [up (M.chain_graph ixs (M.TerminalNode (M.ITensor tr)))]
                                        | None => [] end)).
      + f_equal. clear E. induction F2 as [|o c os cs Hc _ IH]; [reflexivity|]. simpl. rewrite Hc. simpl. f_equal. exact IH.
      + intros o Ho. rewrite Hbody.
        assert (exists c, M.chain_indexes ivs o = Some c) as [c Hc].
        { clear -F2 Ho. induction F2 as [|o' c os cs Hc _ IH]; [destruct Ho|].
          destruct Ho as [<-|Ho]; eauto. }
        now rewrite Hc.
    - rewrite E, Eo. cbn [rel]. exists "IndexError"%string. split; [|discriminate].
      unfold g_for. cbn [fst snd g_for_items]. rewrite Hbody, En. reflexivity.
  Qed.
End Expr.

Section Expr2.
  Variable fval : string -> F.
  Notation up := (up_graph fval).
  Notation upd := (up_dexpr fval).
  Hypothesis Hsimp : simplify_hyp fval.

  Lemma for_both_rel : forall gl gr L R (bg : ig_graph -> ig_graph -> pgen ig_graph) body,
    rel fval gl L -> rel fval gr R ->
    (forall l r, bg (up l) (up r) = (map up (body l r), None)) ->
    rel fval (g_for gl (fun left => g_for gr (fun right => bg left right))) (M.for_both L R body).
  Proof.
    intros gl gr L R bg body HL HR Hb.
    destruct L as [ls | |]; cbn [rel] in HL.
    - subst gl. destruct ls as [|l0 ls]; [reflexivity|].
      cbn [M.for_both]. destruct R as [rs | |]; cbn [rel] in HR |- *.
      + subst gr. rewrite g_for_map.
        rewrite (g_for_pure _ _ (fun l => map up (flat_map (fun r => body l r) rs))).
        * f_equal. rewrite !flat_map_concat_map, concat_map, !map_map. reflexivity.
        * intros l _. rewrite g_for_map.
          rewrite (g_for_pure _ _ (fun r => map up (body l r))) by (intros; apply Hb).
          f_equal. rewrite !flat_map_concat_map, concat_map, !map_map. reflexivity.
      + subst gr. reflexivity.
      + destruct HR as [e [-> Hne]]. exists e. split; [reflexivity | assumption].
    - subst gl. reflexivity.
    - destruct HL as [e [-> Hne]]. exists e. split; [reflexivity | assumption].
  Qed.

  Lemma sum_graph_up : forall l r,
    match up l, up r with
    | IgSumNode _ lt, IgSumNode _ rt => IgSumNode sum_name (lt ++ rt)
    | IgSumNode _ lt, _ => IgSumNode sum_name (lt ++ [up r])
    | _, IgSumNode _ rt => IgSumNode sum_name ([up l] ++ rt)
    | _, _ => IgSumNode sum_name ([up l] ++ [up r])
    end = IgSumNode sum_name (map up (M.sum_terms l r)).
  Proof.
    intros l r. destruct l, r; cbn [up_graph M.sum_terms]; rewrite ?map_app; reflexivity.
  Qed.

  Theorem expr_graphs_equiv : forall e fs c,
    rel fval (to_iteration_graphs_expression (upd e) (up_formats fs)) (M.expr_graphs e fs c).
  Proof.
    induction e as [v | h | t | l IHl r IHr | l IHl r IHr | i x IHx]; intros fs c.
    - reflexivity.
    - reflexivity.
    - apply tensor_graphs_equiv.
    - cbn [up_dexpr to_iteration_graphs_expression M.expr_graphs].
      rewrite !contains_contraction_equiv.
      destruct (negb (M.contains_contraction l || M.contains_contraction r)).
      + apply for_both_rel; [apply IHl | apply IHr | apply merge_add_equiv].
      + cbv zeta. apply for_both_rel; [apply IHl | apply IHr |].
        intros lg rg. fold sum_name.
        pose proof (sum_graph_up lg rg) as E. cbn [app] in E.
        match goal with |- g_bind (simplify_add (S (ig_graph_size ?g)) ?g) _ = _ =>
          replace g with (IgSumNode sum_name (map up (M.sum_terms lg rg)))
        end.
        rewrite (Hsimp c). reflexivity.
    - cbn [up_dexpr to_iteration_graphs_expression M.expr_graphs].
      apply for_both_rel; [apply IHl | apply IHr | apply merge_multiply_equiv].
    - cbn [up_dexpr to_iteration_graphs_expression M.expr_graphs]. apply IHx.
  Qed.
End Expr2.

