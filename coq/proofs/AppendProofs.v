(** Proofs about the append protocol (model/Append.v):

    - [run_level_spec]: for EVERY initial capacity >= 1 and EVERY trace the loops can produce, no
      store leaves the current allocation, every returned cell was initialised, and the returned
      arrays are exactly the encoding ([pos_of_segs], [concat]) of the stored segments;
    - [encoding_wf]: that encoding is a well-formed compressed level when every segment is a
      strictly increasing list of in-range coordinates;
    - [run_vals_level_spec]: the value array is never overrun and its final size covers every leaf
      position.
    - [capacity_zero_overflows]: with capacity 0 the protocol does write outside the allocation.

    Closed under the global context. *)

From Coq Require Import ZArith List Bool Lia ZifyBool Arith.
From TV Require Import spec.Storage proofs.StorageLemmas proofs.StorageWf model.Append.
Import ListNotations.
Open Scope Z_scope.

(** * Arrays *)

Lemma zlen_repeat {A} (x : A) n : zlen (repeat x n) = Z.of_nat n.
Proof. unfold zlen. now rewrite repeat_length. Qed.

Lemma zlen_alloc n : 0 <= n -> zlen (alloc n) = n.
Proof. intros. unfold alloc. rewrite zlen_repeat. lia. Qed.

Lemma zlen_realloc a n : 0 <= n -> zlen (realloc a n) = n.
Proof.
  intros. unfold realloc. rewrite zlen_app, zlen_repeat. unfold zlen. rewrite firstn_length. lia.
Qed.

Lemma realloc_grow a n : zlen a <= n -> realloc a n = a ++ repeat None (Z.to_nat n - length a).
Proof.
  intros H. unfold realloc. rewrite firstn_all2; [reflexivity|]. unfold zlen in H. lia.
Qed.

Definition prefix_is (a : arr) (l : list Z) : Prop := exists rest, a = map Some l ++ rest.

Lemma prefix_is_len a l : prefix_is a l -> zlen l <= zlen a.
Proof. intros (r & ->). rewrite zlen_app, zlen_map. pose proof (zlen_nonneg r). lia. Qed.

Lemma prefix_is_app_l a l l' : prefix_is a (l ++ l') -> prefix_is a l.
Proof. intros (r & ->). exists (map Some l' ++ r). now rewrite map_app, <- app_assoc. Qed.

Lemma prefix_is_realloc_grow a l n : prefix_is a l -> zlen a <= n -> prefix_is (realloc a n) l.
Proof.
  intros (r & ->) H. rewrite realloc_grow by exact H. eexists. rewrite <- app_assoc. reflexivity.
Qed.

Lemma realloc_shrink_prefix a l : prefix_is a l -> realloc a (zlen l) = map Some l.
Proof.
  intros (r & ->). unfold realloc, zlen. rewrite Nat2Z.id.
  rewrite firstn_app, map_length, Nat.sub_diag, firstn_O, app_nil_r.
  rewrite firstn_all2 by (rewrite map_length; lia).
  rewrite app_length, map_length.
  replace (length l - (length l + length r))%nat with O by lia. cbn. now rewrite app_nil_r.
Qed.

Lemma prefix_is_exact a l : prefix_is a l -> zlen a = zlen l -> a = map Some l.
Proof.
  intros (r & ->) H. rewrite zlen_app, zlen_map in H.
  destruct r; [now rewrite app_nil_r|]. rewrite zlen_cons in H. pose proof (zlen_nonneg r). lia.
Qed.

Lemma contents_map_Some l : contents (map Some l) = Some l.
Proof. induction l as [|x l IH]; [reflexivity|]. cbn. now rewrite IH. Qed.

Lemma store_in_bounds a i v :
  0 <= i < zlen a -> exists a', store a i v = Some a' /\ zlen a' = zlen a.
Proof.
  intros H. unfold store. destruct ((0 <=? i) && (i <? zlen a)) eqn:E; [|lia].
  eexists. split; [reflexivity|]. unfold zlen in *.
  rewrite app_length, firstn_length. cbn [length]. rewrite skipn_length. lia.
Qed.

Lemma store_at_prefix a l v :
  prefix_is a l -> zlen l < zlen a ->
  exists a', store a (zlen l) v = Some a' /\ prefix_is a' (l ++ [v]) /\ zlen a' = zlen a.
Proof.
  intros (r & ->) H. rewrite zlen_app, zlen_map in H.
  destruct r as [|x r]; [rewrite zlen_nil in H; lia|].
  pose proof (zlen_nonneg l). pose proof (zlen_nonneg r).
  assert (store (map Some l ++ x :: r) (zlen l) v = Some (map Some l ++ Some v :: r)) as E'.
  { unfold store. rewrite zlen_app, zlen_map, zlen_cons.
    destruct ((0 <=? zlen l) && (zlen l <? zlen l + (1 + zlen r))) eqn:E; [|lia].
    f_equal. unfold zlen. rewrite Nat2Z.id.
    rewrite firstn_app, map_length, Nat.sub_diag, firstn_O, app_nil_r.
    rewrite firstn_all2 by (rewrite map_length; lia).
    replace (skipn (S (length l)) (map Some l ++ x :: r)) with r; [reflexivity|].
    symmetry. replace (S (length l)) with (length (map Some l) + 1)%nat by (rewrite map_length; lia).
    rewrite skipn_app, skipn_all2 by lia.
    replace (length (map Some l) + 1 - length (map Some l))%nat with 1%nat by lia. reflexivity. }
  rewrite E'. eexists. split; [reflexivity|]. split.
  - exists r. rewrite map_app, <- app_assoc. reflexivity.
  - rewrite !zlen_app, !zlen_cons. reflexivity.
Qed.

(** * Growable buffers *)

Definition buf_ok (b : buf) : Prop := b_cap b = zlen (b_arr b).

Lemma grow_double_spec b m l :
  buf_ok b -> 1 <= b_cap b -> m <= b_cap b -> prefix_is (b_arr b) l ->
  let b' := grow_double b m in
  buf_ok b' /\ m < b_cap b' /\ b_cap b <= b_cap b' /\ prefix_is (b_arr b') l.
Proof.
  intros Ok C M P. unfold grow_double, buf_ok in *. destruct (m >=? b_cap b) eqn:E; cbn.
  - repeat split; try lia.
    + rewrite zlen_realloc; lia.
    + apply prefix_is_realloc_grow; [exact P|lia].
  - repeat split; try lia; assumption.
Qed.

Lemma grow_max_spec b m l :
  buf_ok b -> 1 <= b_cap b -> prefix_is (b_arr b) l ->
  let b' := grow_max b m in
  buf_ok b' /\ m <= b_cap b' /\ b_cap b <= b_cap b' /\ prefix_is (b_arr b') l.
Proof.
  intros Ok C P. unfold grow_max, buf_ok in *. destruct (m >=? b_cap b) eqn:E; cbn.
  - repeat split; try lia.
    + rewrite zlen_realloc; lia.
    + apply prefix_is_realloc_grow; [exact P|lia].
  - repeat split; try lia; assumption.
Qed.

(** * The level *)

Lemma offsets_app st S T : offsets st (S ++ T) = offsets st S ++ offsets (st + zlen (concat S)) T.
Proof.
  revert st. induction S as [|s S IH]; intros st; cbn [app offsets concat].
  - rewrite zlen_nil. now replace (st + 0) with st by lia.
  - rewrite IH, zlen_app. cbn [app]. do 3 f_equal. lia.
Qed.

Lemma zlen_offsets st S : zlen (offsets st S) = zlen S.
Proof. revert st. induction S as [|s S IH]; intros st; [reflexivity|]. cbn [offsets]. rewrite !zlen_cons, IH. reflexivity. Qed.

Lemma zlen_pos_of_segs S : zlen (pos_of_segs S) = zlen S + 1.
Proof. unfold pos_of_segs. rewrite zlen_cons, zlen_offsets. lia. Qed.

Lemma pos_of_segs_app S T :
  pos_of_segs (S ++ T) = pos_of_segs S ++ offsets (zlen (concat S)) T.
Proof. unfold pos_of_segs. rewrite offsets_app. reflexivity. Qed.

Lemma pos_of_segs_snoc S s :
  pos_of_segs (S ++ [s]) = pos_of_segs S ++ [zlen (concat S) + zlen s].
Proof. rewrite pos_of_segs_app. reflexivity. Qed.

Lemma concat_snoc {A} (S : list (list A)) s : concat (S ++ [s]) = concat S ++ s.
Proof. rewrite concat_app. cbn. now rewrite app_nil_r. Qed.

Lemma concat_nils {A} (T : list (list A)) : forallb is_nil T = true -> concat T = [].
Proof.
  induction T as [|t T IH]; [reflexivity|]. cbn [forallb]. intros H. apply andb_true_iff in H.
  destruct H as [H1 H2]. destruct t; [|discriminate]. cbn. now apply IH.
Qed.

Record crd_inv (st : lstate) (l : list Z) : Prop := {
  ci_cur : s_cur st = zlen l;
  ci_ok : buf_ok (s_crd st);
  ci_cap : 1 <= b_cap (s_crd st);
  ci_prefix : prefix_is (b_arr (s_crd st)) l }.

Lemma append_ok st l c :
  crd_inv st l -> exists st', append st c = Some st' /\ crd_inv st' (l ++ [c]) /\ s_pos st' = s_pos st.
Proof.
  intros [H1 H2 H3 H4].
  pose proof (prefix_is_len _ _ H4) as Hl.
  assert (s_cur st <= b_cap (s_crd st)) as Hc by (unfold buf_ok in H2; lia).
  destruct (grow_double_spec (s_crd st) (s_cur st) l H2 H3 Hc H4) as (G1 & G2 & G3 & G4).
  unfold append, crd_assembly, bstore.
  set (b' := grow_double (s_crd st) (s_cur st)) in *.
  destruct (store_at_prefix (b_arr b') l c G4) as (a' & S1 & S2 & S3).
  { unfold buf_ok in G1. lia. }
  rewrite H1, S1. eexists. split; [reflexivity|]. cbn. split; [|reflexivity].
  constructor; cbn.
  - rewrite zlen_app, zlen_cons, zlen_nil. lia.
  - unfold buf_ok in *. cbn. lia.
  - lia.
  - exact S2.
Qed.

Lemma append_all_ok s : forall st l,
  crd_inv st l ->
  exists st', append_all st s = Some st' /\ crd_inv st' (l ++ s) /\ s_pos st' = s_pos st.
Proof.
  induction s as [|c s IH]; intros st l H.
  - exists st. rewrite app_nil_r. auto.
  - destruct (append_ok st l c H) as (st1 & A1 & A2 & A3).
    destruct (IH st1 (l ++ [c]) A2) as (st2 & B1 & B2 & B3).
    exists st2. cbn [append_all]. rewrite A1. split; [exact B1|].
    rewrite <- app_assoc in B2. split; [exact B2|congruence].
Qed.

Record inv (st : lstate) (S : list (list Z)) : Prop := {
  inv_crd : crd_inv st (concat S);
  inv_pos_ok : buf_ok (s_pos st);
  inv_pos : prefix_is (b_arr (s_pos st)) (pos_of_segs S) }.

Lemma run_segs_ok segs : forall st S,
  inv st S -> zlen S + zlen segs + 1 <= zlen (b_arr (s_pos st)) ->
  exists st', run_segs st (zlen S) segs = Some st' /\ inv st' (S ++ segs)
              /\ b_cap (s_pos st') = b_cap (s_pos st).
Proof.
  induction segs as [|s segs IH]; intros st S [I1 I2 I3] Room.
  - exists st. rewrite app_nil_r. split; [reflexivity|]. split; [constructor; assumption|reflexivity].
  - rewrite zlen_cons in Room. pose proof (zlen_nonneg segs).
    destruct (append_all_ok s st (concat S) I1) as (st1 & A1 & A2 & A3).
    cbn [run_segs]. rewrite A1.
    unfold pos_assembly, bstore. rewrite A3.
    replace (zlen S + 1) with (zlen (pos_of_segs S)) by apply zlen_pos_of_segs.
    destruct (store_at_prefix (b_arr (s_pos st)) (pos_of_segs S) (s_cur st1) I3) as (a' & S1 & S2 & S3).
    { rewrite zlen_pos_of_segs. lia. }
    rewrite S1.
    set (st2 := mkL (mkBuf (b_cap (s_pos st)) a') (s_crd st1) (s_cur st1)).
    assert (inv st2 (S ++ [s])) as I'.
    { destruct A2 as [C1 C2 C3 C4]. constructor.
      - rewrite concat_snoc. constructor; assumption.
      - unfold buf_ok in *. cbn. lia.
      - cbn. rewrite pos_of_segs_snoc. rewrite C1, zlen_app in S2. exact S2. }
    destruct (IH st2 (S ++ [s]) I') as (st3 & R1 & R2 & R3).
    { cbn. rewrite zlen_app, zlen_cons, zlen_nil. lia. }
    exists st3. rewrite zlen_app, zlen_cons, zlen_nil in R1.
    replace (zlen S + (1 + 0)) with (zlen S + 1) in R1 by lia.
    rewrite zlen_pos_of_segs. split; [exact R1|]. rewrite <- app_assoc in R2. split; [exact R2|exact R3].
Qed.

Lemma inv_drop_nils st S T : forallb is_nil T = true -> inv st (S ++ T) -> inv st S.
Proof.
  intros N [I1 I2 I3]. constructor.
  - rewrite concat_app, (concat_nils _ N), app_nil_r in I1. exact I1.
  - exact I2.
  - rewrite pos_of_segs_app in I3. eapply prefix_is_app_l. exact I3.
Qed.

Definition grows (k : parent_kind) : Prop := match k with PFixed => False | _ => True end.

Definition cap_inv (k : parent_kind) (st : lstate) (pp : Z) : Prop :=
  1 <= b_cap (s_pos st) /\
  match k with
  | PDouble => pp + 1 <= b_cap (s_pos st)
  | PMax D => 0 <= D
  | PFixed => True
  end.

Lemma filter_app_visits (vs ws : list visit) : filter v_adv (vs ++ ws) = filter v_adv vs ++ filter v_adv ws.
Proof. apply filter_app. Qed.

Lemma run_visits_ok k vs : grows k -> forall st S pp,
  inv st S -> 0 <= pp -> zlen S = pp * group_size k -> cap_inv k st pp ->
  forallb (visit_okb k) vs = true ->
  exists st', run_visits k st pp vs = Some (st', pp + advances vs)
              /\ inv st' (S ++ flat_map v_segs (filter v_adv vs))
              /\ zlen (S ++ flat_map v_segs (filter v_adv vs)) = (pp + advances vs) * group_size k.
Proof.
  intros G. induction vs as [|v vs IH]; intros st S pp I Hpp HS [C1 C2] OK.
  - exists st. unfold advances. cbn [filter flat_map run_visits]. rewrite app_nil_r, zlen_nil, Z.add_0_r.
    split; [reflexivity|]. split; assumption.
  - cbn [forallb] in OK. apply andb_true_iff in OK. destruct OK as [OKv OK].
    assert (zlen (v_segs v) = group_size k /\ (v_adv v = false -> forallb is_nil (v_segs v) = true)) as [Lv Nv].
    { destruct k; [destruct G| |]; cbn [visit_okb] in OKv; apply andb_true_iff in OKv;
        destruct OKv as [E1 E2]; (split; [lia|]); intros Hf; rewrite Hf in E2; exact E2. }
    (* allocation *)
    destruct I as [I1 I2 I3].
    assert (exists st1, pos_allocation k st pp = st1 /\ inv st1 S /\ 1 <= b_cap (s_pos st1)
                        /\ zlen S + group_size k + 1 <= zlen (b_arr (s_pos st1))
                        /\ (match k with PDouble => pp + 1 < b_cap (s_pos st1) | _ => True end))
      as (st1 & E1 & J & C1' & Room & C2').
    { destruct k as [| |D]; [destruct G| |]; cbn [pos_allocation group_size] in *.
      - destruct (grow_double_spec (s_pos st) (pp + 1) (pos_of_segs S) I2 C1 C2 I3) as (G1 & G2 & G3 & G4).
        eexists. split; [reflexivity|]. cbn [s_pos s_crd s_cur].
        split. { constructor; cbn [s_pos s_crd s_cur]; [destruct I1; constructor; assumption|exact G1|exact G4]. }
        unfold buf_ok in G1. repeat split; lia.
      - destruct (grow_max_spec (s_pos st) ((pp + 1) * D + 1) (pos_of_segs S) I2 C1 I3) as (G1 & G2 & G3 & G4).
        eexists. split; [reflexivity|]. cbn [s_pos s_crd s_cur].
        split. { constructor; cbn [s_pos s_crd s_cur]; [destruct I1; constructor; assumption|exact G1|exact G4]. }
        unfold buf_ok in G1. repeat split; lia. }
    cbn [run_visits]. rewrite E1, <- HS.
    destruct (run_segs_ok (v_segs v) st1 S J) as (st2 & R1 & R2 & R3); [lia|].
    rewrite R1.
    destruct (v_adv v) eqn:Adv.
    + destruct (IH st2 (S ++ v_segs v) (pp + 1) R2) as (st3 & T1 & T2 & T3).
      * lia.
      * rewrite zlen_app. lia.
      * split; [lia|]. destruct k; [destruct G| |]; cbn in *; lia.
      * exact OK.
      * exists st3. unfold advances in *. cbn [filter]. rewrite Adv. cbn [flat_map].
        rewrite zlen_cons. rewrite app_assoc.
        replace (pp + (1 + zlen (filter v_adv vs))) with (pp + 1 + zlen (filter v_adv vs)) by lia.
        split; [exact T1|]. split; [exact T2|exact T3].
    + pose proof (inv_drop_nils _ _ _ (Nv eq_refl) R2) as R2'.
      destruct (IH st2 S pp R2') as (st3 & T1 & T2 & T3).
      * lia.
      * lia.
      * split; [lia|]. destruct k; [destruct G| |]; cbn in *; lia.
      * exact OK.
      * exists st3. unfold advances in *. cbn [filter]. rewrite Adv.
        split; [exact T1|]. split; [exact T2|exact T3].
Qed.

Lemma decl_level_ok pos_size c0 :
  1 <= pos_size -> 1 <= c0 ->
  exists st, decl_level pos_size c0 = Some st /\ inv st [] /\ b_cap (s_pos st) = pos_size.
Proof.
  intros Hp Hc. unfold decl_level.
  destruct (store_at_prefix (alloc pos_size) [] 0) as (a' & S1 & S2 & S3).
  { exists (alloc pos_size). reflexivity. }
  { rewrite zlen_nil, zlen_alloc; lia. }
  rewrite zlen_nil in S1. rewrite S1. eexists. split; [reflexivity|].
  rewrite zlen_alloc in S3 by lia. split; [|reflexivity]. constructor; cbn.
  - constructor; cbn.
    + reflexivity.
    + unfold buf_ok. cbn. rewrite zlen_alloc; lia.
    + lia.
    + exists (alloc c0). reflexivity.
  - unfold buf_ok. cbn. lia.
  - exact S2.
Qed.

(** The whole life of one level: no store outside the allocation, every returned cell initialised,
    and the result is the encoding of the stored segments. *)
Theorem run_level_spec k c0 vs :
  1 <= c0 ->
  forallb (visit_okb k) vs = true ->
  match k with PFixed => zlen vs = 1 | PDouble => True | PMax D => 0 <= D end ->
  run_level k c0 vs = Some (pos_of_segs (stored_segs k vs), concat (stored_segs k vs)).
Proof.
  intros Hc OK Hk. unfold run_level.
  destruct k as [| |D].
  - (* fixed *)
    destruct vs as [|v [|v' vs']].
    { rewrite zlen_nil in Hk. lia. }
    2:{ rewrite !zlen_cons in Hk. pose proof (zlen_nonneg vs'). lia. }
    cbn [flat_map]. rewrite app_nil_r.
    pose proof (zlen_nonneg (v_segs v)) as Hn.
    destruct (decl_level_ok (zlen (v_segs v) + 1) c0) as (st0 & D1 & D2 & D3); [lia|lia|].
    rewrite D1. cbn [run_visits pos_allocation group_size].
    replace (0 * 0) with (zlen (@nil (list Z))) by reflexivity.
    destruct (run_segs_ok (v_segs v) st0 [] D2) as (st1 & R1 & R2 & R3).
    { destruct D2 as [_ B _]. unfold buf_ok in B. rewrite zlen_nil. lia. }
    rewrite R1. cbn [app] in R2. destruct R2 as [[C1 C2 C3 C4] P1 P2].
    unfold cleanup. cbn [s_pos s_crd s_cur b_arr].
    rewrite C1, (realloc_shrink_prefix _ _ C4), contents_map_Some.
    rewrite (prefix_is_exact _ _ P2), contents_map_Some.
    + unfold stored_segs. cbn [flat_map]. now rewrite app_nil_r.
    + unfold buf_ok in P1. rewrite zlen_pos_of_segs. lia.
  - (* doubling *)
    destruct (decl_level_ok c0 c0 Hc Hc) as (st0 & D1 & D2 & D3). rewrite D1.
    destruct (run_visits_ok PDouble vs I st0 [] 0 D2 ltac:(lia) ltac:(reflexivity)
                ltac:(unfold cap_inv; rewrite D3; split; lia) OK) as (st1 & R1 & R2 & R3).
    rewrite R1. cbn [app] in R2, R3. destruct R2 as [[C1 C2 C3 C4] P1 P2].
    unfold cleanup. cbn [s_pos s_crd s_cur b_arr].
    rewrite C1, (realloc_shrink_prefix _ _ C4), contents_map_Some.
    replace ((0 + advances vs) * group_size PDouble + 1) with (zlen (pos_of_segs (flat_map v_segs (filter v_adv vs))))
      by (rewrite zlen_pos_of_segs; lia).
    rewrite (realloc_shrink_prefix _ _ P2), contents_map_Some. reflexivity.
  - (* max *)
    destruct (decl_level_ok c0 c0 Hc Hc) as (st0 & D1 & D2 & D3). rewrite D1.
    destruct (run_visits_ok (PMax D) vs I st0 [] 0 D2 ltac:(lia) ltac:(cbn [group_size]; rewrite zlen_nil; lia)
                ltac:(unfold cap_inv; rewrite D3; split; lia) OK) as (st1 & R1 & R2 & R3).
    rewrite R1. cbn [app] in R2, R3. destruct R2 as [[C1 C2 C3 C4] P1 P2].
    unfold cleanup. cbn [s_pos s_crd s_cur b_arr].
    rewrite C1, (realloc_shrink_prefix _ _ C4), contents_map_Some.
    replace ((0 + advances vs) * group_size (PMax D) + 1) with (zlen (pos_of_segs (flat_map v_segs (filter v_adv vs))))
      by (rewrite zlen_pos_of_segs; lia).
    rewrite (realloc_shrink_prefix _ _ P2), contents_map_Some. reflexivity.
Qed.

(** * The encoding of sorted in-range segments is a well-formed compressed level *)

Lemma nthZ_app_l {A} (d : A) l r i : 0 <= i < zlen l -> nthZ d (l ++ r) i = nthZ d l i.
Proof. intros H. rewrite !nthZ_nonneg by lia. apply app_nth1. unfold zlen in H. lia. Qed.

Lemma nthZ_app_r {A} (d : A) l r i : zlen l <= i -> nthZ d (l ++ r) i = nthZ d r (i - zlen l).
Proof.
  intros H. pose proof (zlen_nonneg l). rewrite !nthZ_nonneg by lia. unfold zlen in *.
  rewrite app_nth2 by lia. f_equal. lia.
Qed.

Lemma seg_okb_spec d s :
  seg_okb d s = true ->
  (forall j, 0 <= j -> j + 1 < zlen s -> nthZ (-1) s j < nthZ (-1) s (j + 1))
  /\ (forall c, In c s -> 0 <= c < d).
Proof.
  unfold seg_okb. rewrite andb_true_iff, forallb_forall. intros [H1 H2]. split.
  - rewrite strictly_increasing_nth in H1. intros j Hj0 Hj1.
    rewrite (nthZ_indep (-1) 0), (nthZ_indep (-1) 0 _ (j + 1)) by lia.
    rewrite !nthZ_nonneg by lia. replace (Z.to_nat (j + 1)) with (S (Z.to_nat j)) by lia.
    apply H1. unfold zlen in Hj1. lia.
  - intros c Hc. specialize (H2 c Hc). lia.
Qed.

Lemma wf_compressed_snoc n d pos crd s :
  wf_compressed n d pos crd -> seg_okb d s = true ->
  wf_compressed (n + 1) d (pos ++ [zlen crd + zlen s]) (crd ++ s).
Proof.
  intros W Hs. pose proof (wf_compressed_n_nonneg _ _ _ _ W) as Hn.
  pose proof (wf_compressed_pos_bounds _ _ _ _ W) as PB.
  pose proof (wf_compressed_pos_last _ _ _ _ W) as PL.
  destruct (seg_okb_spec _ _ Hs) as [S1 S2].
  destruct W as (H1 & H2 & H3 & H4 & H5 & H6).
  pose proof (zlen_nonneg s) as Hs0. pose proof (zlen_nonneg crd) as Hc0.
  assert (forall i dd, 0 <= i <= n -> nthZ dd (pos ++ [zlen crd + zlen s]) i = nthZ dd pos i) as Pl
    by (intros; apply nthZ_app_l; lia).
  assert (forall dd, nthZ dd (pos ++ [zlen crd + zlen s]) (n + 1) = zlen crd + zlen s) as Pr.
  { intros. rewrite nthZ_app_r by lia. replace (n + 1 - zlen pos) with 0 by lia. reflexivity. }
  repeat split.
  - rewrite zlen_app, zlen_cons, zlen_nil. lia.
  - rewrite Pl by lia. exact H2.
  - intros i Hi. destruct (Z.eq_dec i n) as [->|Ne].
    + rewrite Pl, Pr by lia. lia.
    + rewrite !Pl by lia. apply H3. lia.
  - rewrite Pr, zlen_app. reflexivity.
  - intros p q Hp Hq1 Hq2. destruct (Z.eq_dec p n) as [->|Ne].
    + rewrite Pl in Hq1 by lia. rewrite Pr in Hq2. rewrite PL in Hq1.
      rewrite !nthZ_app_r by lia.
      replace (q + 1 - zlen crd) with (q - zlen crd + 1) by lia. apply S1; lia.
    + rewrite Pl in Hq1 by lia. rewrite Pl in Hq2 by lia.
      pose proof (PB p ltac:(lia)). pose proof (PB (p + 1) ltac:(lia)).
      rewrite !nthZ_app_l by lia. apply (H5 p); lia.
  - apply in_app_or in H. destruct H as [H|H]; [apply (H6 _ H)|apply (S2 _ H)].
  - apply in_app_or in H. destruct H as [H|H]; [apply (H6 _ H)|apply (S2 _ H)].
Qed.

Lemma wf_compressed_empty d : wf_compressed 0 d [0] [].
Proof.
  unfold wf_compressed. split; [reflexivity|]. split; [reflexivity|]. split; [intros; lia|].
  split; [reflexivity|]. split; [intros; lia|]. intros c [].
Qed.

Theorem encoding_wf d S :
  forallb (seg_okb d) S = true -> wf_compressed (zlen S) d (pos_of_segs S) (concat S).
Proof.
  induction S as [|s S IH] using rev_ind; intros H.
  - apply wf_compressed_empty.
  - rewrite forallb_app in H. apply andb_true_iff in H. destruct H as [H1 H2].
    cbn [forallb] in H2. rewrite andb_true_r in H2.
    rewrite zlen_app, zlen_cons, zlen_nil, pos_of_segs_snoc, concat_snoc.
    replace (zlen S + (1 + 0)) with (zlen S + 1) by lia.
    apply wf_compressed_snoc; [apply IH; exact H1|exact H2].
Qed.

Lemma stored_segs_ok k d vs :
  forallb (seg_okb d) (flat_map v_segs vs) = true -> forallb (seg_okb d) (stored_segs k vs) = true.
Proof.
  intros H. rewrite forallb_forall in *. intros s Hs. apply H.
  destruct k; cbn [stored_segs] in Hs; try exact Hs;
    apply in_flat_map in Hs; destruct Hs as (v & Hv & Hs); apply filter_In in Hv;
    apply in_flat_map; exists v; tauto.
Qed.

Lemma stored_segs_len k vs :
  forallb (visit_okb k) vs = true ->
  match k with PFixed => True | PDouble => True | PMax D => 0 <= D end ->
  zlen (stored_segs k vs) = parents_of k vs.
Proof.
  intros OK Hk. destruct k as [| |D]; [reflexivity| |]; cbn [stored_segs parents_of]; unfold advances;
    induction vs as [|v vs IH]; try reflexivity;
    cbn [forallb] in OK; apply andb_true_iff in OK; destruct OK as [OKv OK];
    cbn [visit_okb] in OKv; apply andb_true_iff in OKv; destruct OKv as [E1 _];
    cbn [filter]; destruct (v_adv v); cbn [flat_map]; rewrite ?zlen_app, ?zlen_cons, ?IH by exact OK; cbn [group_size] in *; lia.
Qed.

(** C02, protocol level: any initial capacity >= 1, any trace of sorted in-range segments:
    no overflow, and the result is a well-formed compressed level over the final number of parent
    positions, holding exactly the appended coordinates. *)
Theorem append_protocol_wf k c0 d vs :
  1 <= c0 -> trace_okb k d vs = true ->
  exists pos crd,
    run_level k c0 vs = Some (pos, crd)
    /\ wf_compressedb (parents_of k vs) d pos crd = true
    /\ crd = concat (stored_segs k vs)
    /\ pos = pos_of_segs (stored_segs k vs).
Proof.
  intros Hc OK. unfold trace_okb in OK. rewrite !andb_true_iff in OK. destruct OK as [[O1 O2] O3].
  assert (match k with PFixed => zlen vs = 1 | PDouble => True | PMax D => 0 <= D end) as Hk
    by (destruct k; lia).
  exists (pos_of_segs (stored_segs k vs)), (concat (stored_segs k vs)).
  split; [apply run_level_spec; assumption|]. split; [|split; reflexivity].
  apply wf_compressedb_spec. rewrite <- stored_segs_len.
  - apply encoding_wf. apply stored_segs_ok. exact O2.
  - exact O1.
  - destruct k; auto.
Qed.

(** * The value array *)

Lemma store_all_ok idx : forall b,
  buf_ok b -> (forall i, In i idx -> 0 <= i < b_cap b) ->
  exists b', store_all b idx = Some b' /\ buf_ok b' /\ b_cap b' = b_cap b.
Proof.
  induction idx as [|i idx IH]; intros b Ok H.
  - exists b. auto.
  - cbn [store_all]. unfold bstore.
    destruct (store_in_bounds (b_arr b) i 0) as (a' & S1 & S2).
    { unfold buf_ok in Ok. rewrite <- Ok. apply H. now left. }
    rewrite S1. destruct (IH (mkBuf (b_cap b) a')) as (b' & T1 & T2 & T3).
    + unfold buf_ok in *. cbn. lia.
    + intros j Hj. cbn. apply H. now right.
    + exists b'. auto.
Qed.

Definition count_true (l : list bool) : Z := zlen (filter (fun b => b) l).

Lemma run_vals_ok k advs : grows k -> forall b p,
  buf_ok b -> 1 <= b_cap b -> 0 <= p ->
  match k with PDouble => p <= b_cap b | PMax D => 0 <= D | PFixed => True end ->
  exists b', run_vals k b p advs = Some (b', p + count_true advs) /\ buf_ok b'.
Proof.
  intros G. induction advs as [|adv advs IH]; intros b p Ok C Hp Hk.
  - exists b. unfold count_true. cbn [filter run_vals]. rewrite zlen_nil, Z.add_0_r. auto.
  - cbn [run_vals].
    assert (exists b1, vals_allocation k b p = b1 /\ buf_ok b1 /\ 1 <= b_cap b1
                       /\ (p + 1) * group_size k <= b_cap b1 /\ 0 <= group_size k
                       /\ match k with PDouble => p + 1 <= b_cap b1 | _ => True end)
      as (b1 & E1 & Ok1 & C1 & Room & Dn & K1).
    { destruct k as [| |D]; [destruct G| |]; cbn [vals_allocation group_size].
      - destruct (grow_double_spec b p [] Ok C Hk) as (G1 & G2 & G3 & _); [exists (b_arr b); reflexivity|].
        eexists. split; [reflexivity|]. repeat split; try assumption; lia.
      - destruct (grow_max_spec b ((p + 1) * D) [] Ok C) as (G1 & G2 & G3 & _); [exists (b_arr b); reflexivity|].
        eexists. split; [reflexivity|]. repeat split; try assumption; lia. }
    rewrite E1.
    destruct (store_all_ok (map (fun j => p * group_size k + j) (zrange (group_size k))) b1 Ok1)
      as (b2 & S1 & S2 & S3).
    { intros i Hi. apply in_map_iff in Hi. destruct Hi as (j & <- & Hj). apply In_zrange in Hj. nia. }
    rewrite S1.
    destruct (IH b2 (if adv then p + 1 else p)) as (b3 & T1 & T2); try assumption; try lia.
    + destruct adv; lia.
    + destruct k; [destruct G| |]; destruct adv; try lia; exact Hk.
    + exists b3. split; [|exact T2]. rewrite T1. unfold count_true. cbn [filter].
      destruct adv; [rewrite zlen_cons|]; do 2 f_equal; lia.
Qed.

(** C02 "the value array supplies a value for every stored position": the value array is never
    overrun (whatever the initial capacity >= 1) and its final size is (kept + 1) * Dv, which
    covers the kept * Dv leaf positions under the kept coordinates. *)
Theorem run_vals_level_spec k c0 advs :
  grows k -> 1 <= c0 -> match k with PMax D => 0 <= D | _ => True end ->
  run_vals_level k c0 advs = Some ((count_true advs + 1) * group_size k)
  /\ count_true advs * group_size k <= (count_true advs + 1) * group_size k.
Proof.
  intros G Hc Hk. unfold run_vals_level.
  destruct (run_vals_ok k advs G (mkBuf c0 (alloc c0)) 0) as (b' & R1 & R2).
  - unfold buf_ok. cbn. rewrite zlen_alloc; lia.
  - cbn. lia.
  - lia.
  - destruct k; cbn; try lia; auto.
  - rewrite R1. assert (0 <= count_true advs) by (unfold count_true; apply zlen_nonneg).
    assert (0 <= group_size k) by (destruct k; [destruct G|cbn; lia|cbn; exact Hk]).
    split; [|nia]. rewrite zlen_realloc by nia. f_equal; lia.
Qed.

(** The final sizes of write_cleanup are what [wf_levels] needs for a compressed level followed by
    dense levels of total size [Dv]: pos has parents + 1 entries, crd has one entry per stored
    coordinate, and the value array has at least (stored coordinates) * Dv entries. *)
Lemma wf_levels_dense_tail ds : forall n,
  Forall (fun d => 0 <= d) ds ->
  wf_levels (map (fun d => (LDense, d)) ds) n (n * fold_right Z.mul 1 ds).
Proof.
  induction ds as [|d ds IH]; intros n F; cbn [map wf_levels fold_right].
  - lia.
  - inversion F; subst. split; [assumption|].
    replace (n * (d * fold_right Z.mul 1 ds)) with (n * d * fold_right Z.mul 1 ds) by lia.
    now apply IH.
Qed.

Theorem realloc_sizes_cover k kv c0 d ds vs advs :
  1 <= c0 -> trace_okb k d vs = true -> Forall (fun x => 0 <= x) ds ->
  kv = (match ds with [] => PDouble | _ => PMax (fold_right Z.mul 1 ds) end) ->
  count_true advs = zlen (concat (stored_segs k vs)) ->
  exists pos crd nvals,
    run_level k c0 vs = Some (pos, crd) /\ run_vals_level kv c0 advs = Some nvals
    /\ zlen pos = parents_of k vs + 1
    /\ exists leaf, wf_levels ((LCompressed pos crd, d) :: map (fun x => (LDense, x)) ds) (parents_of k vs) leaf
                    /\ leaf <= nvals.
Proof.
  intros Hc OK F -> Hadv.
  destruct (append_protocol_wf k c0 d vs Hc OK) as (pos & crd & R & W & Ec & Ep).
  set (Dv := fold_right Z.mul 1 ds).
  assert (0 <= Dv) as HD.
  { subst Dv. clear -F. induction F; cbn; [lia|nia]. }
  set (kv := match ds with [] => PDouble | _ => PMax Dv end).
  assert (group_size kv = Dv) as GS by (subst kv Dv; destruct ds; reflexivity).
  destruct (run_vals_level_spec kv c0 advs) as [V1 V2].
  { subst kv. destruct ds; exact I. }
  { exact Hc. }
  { subst kv. destruct ds; [exact I|exact HD]. }
  exists pos, crd, ((count_true advs + 1) * Dv).
  rewrite <- GS. split; [exact R|]. split; [exact V1|].
  apply wf_compressedb_spec in W. split; [apply W|].
  exists (zlen crd * Dv). split.
  - cbn [wf_levels]. split; [exact W|]. apply wf_levels_dense_tail. exact F.
  - rewrite GS. rewrite Hadv, <- Ec. nia.
Qed.

(** With initial capacity 0 doubling never grows (0 * 2 = 0): the first append writes outside the
    allocation.  Hence the hypothesis [1 <= c0] above. *)
Lemma capacity_zero_overflows :
  run_level PDouble 0 [mkVisit [[0]] true] = None /\ run_level PFixed 0 [mkVisit [[0]] true] = None.
Proof. vm_compute. split; reflexivity. Qed.

(** The hypotheses are satisfiable by non-trivial traces (growth from capacity 1, discarded
    parent coordinates whose scratch pos cells are overwritten, a dense size of 2 in between). *)
Example append_example :
  let vs := [mkVisit [[0; 2]; []] true; mkVisit [[]; []] false; mkVisit [[1]; [0; 1; 2]] true;
             mkVisit [[]; []] false] in
  trace_okb (PMax 2) 3 vs = true
  /\ run_level (PMax 2) 1 vs = Some ([0; 2; 2; 3; 6], [0; 2; 1; 0; 1; 2])
  /\ run_vals_level (PMax 3) 1 [true; false; true; true; false] = Some 12.
Proof. vm_compute. repeat split. Qed.
