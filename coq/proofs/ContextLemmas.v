From Coq Require Import Bool List String.
From TV Require Import model.Context.

Lemma cond_implies_sparse e k :
  only_compressed e k = true -> every_term_mentions e k = true -> is_sparse e k = true.
Proof.
  induction e as [| |lv|l IHl r IHr|l IHl r IHr]; simpl; intros C M; auto.
  - destruct (level_of k lv) as [[|]|]; auto; discriminate.
  - apply andb_prop in C. apply andb_prop in M. destruct C, M. rewrite IHl, IHr; auto.
  - apply andb_prop in C. destruct C as [C1 C2]. apply orb_true_iff in M. destruct M as [M|M].
    + rewrite IHl; auto.
    + rewrite IHr; auto. apply orb_true_r.
Qed.

Theorem c16_condition_sparse_node e k out :
  c16_condition e k out = true -> node_is_sparse e k out = true.
Proof.
  unfold c16_condition, node_is_sparse. intros H.
  apply andb_prop in H. destruct H as [H O]. apply andb_prop in H. destruct H as [C M].
  rewrite (cond_implies_sparse e k C M). destruct out as [[|]|]; auto; discriminate.
Qed.

(** the condition is necessary as well for the input part: if some additive term lacks [k] (and is
    not the zero literal) the node is iterated densely *)
Theorem term_without_k_dense e k :
  only_compressed e k = true -> every_term_mentions e k = false -> is_sparse e k = false.
Proof.
  induction e as [| |lv|l IHl r IHr|l IHl r IHr]; simpl; intros C M; auto; try discriminate.
  - destruct (level_of k lv) as [[|]|]; auto; discriminate.
  - apply andb_prop in C. destruct C as [C1 C2]. apply andb_false_iff in M. destruct M as [M|M].
    + rewrite IHl; auto.
    + rewrite IHr; auto. apply andb_false_r.
  - apply andb_prop in C. destruct C as [C1 C2]. apply orb_false_iff in M. destruct M as [M1 M2].
    rewrite IHl, IHr; auto.
Qed.
