(** Machine-level facts used by GenAppend_equiv.v: how the blocks and variables of the IR abstract
    machine (spec/IRSem.v) are read as the arrays and capacities of model/Append.v, and what the three
    primitive effects of the emitted fragments (store into a cell, reallocation, assignment of a
    variable) do to that reading. *)

From Coq Require Import ZArith Bool List String Lia FMapPositive SetoidList.
From TV Require Import spec.Num spec.Storage gen.IRAst spec.IRSem proofs.MachineSafety proofs.Certs2Base model.Append.
Import ListNotations.
Open Scope Z_scope.

(** * Lists *)

Lemma nth_error_ext {A} (l1 l2 : list A) :
  List.length l1 = List.length l2 -> (forall i, (i < List.length l1)%nat -> nth_error l1 i = nth_error l2 i) -> l1 = l2.
Proof.
  revert l2. induction l1 as [|a l1 IH]; destruct l2 as [|b l2]; simpl; intros L H; try discriminate; auto.
  f_equal.
  - specialize (H 0%nat ltac:(lia)). simpl in H. congruence.
  - apply IH; [lia|]. intros i Hi. apply (H (S i)). lia.
Qed.

Lemma nth_error_firstn_lt {A} (l : list A) : forall n i, (i < n)%nat -> nth_error (firstn n l) i = nth_error l i.
Proof.
  induction l as [|a l IH]; intros n i H.
  - now rewrite firstn_nil.
  - destruct n; [lia|]. destruct i; simpl; auto. apply IH. lia.
Qed.

Lemma nth_error_skipn_plus {A} (l : list A) : forall n i, nth_error (skipn n l) i = nth_error l (n + i).
Proof.
  induction l as [|a l IH]; intros n i.
  - rewrite skipn_nil. assert (N : forall j, nth_error (@nil A) j = None) by (intros []; reflexivity). now rewrite !N.
  - destruct n; simpl; auto.
Qed.

Lemma nth_error_repeat_lt {A} (x : A) n i : (i < n)%nat -> nth_error (repeat x n) i = Some x.
Proof. revert i. induction n; intros i H; [lia|]. destruct i; simpl; auto. apply IHn. lia. Qed.

Lemma zrange_length n : List.length (zrange n) = Z.to_nat n.
Proof. unfold zrange. now rewrite map_length, seq_length. Qed.

Lemma nth_error_zrange n i : (i < Z.to_nat n)%nat -> nth_error (zrange n) i = Some (Z.of_nat i).
Proof.
  intros H. unfold zrange. rewrite nth_error_map.
  assert (nth_error (seq 0 (Z.to_nat n)) i = Some i) as ->; [|reflexivity].
  rewrite nth_error_nth' with (d := 0%nat) by now rewrite seq_length. now rewrite seq_nth.
Qed.

Lemma nth_error_map_zrange {A} (f : Z -> A) n i :
  nth_error (map f (zrange n)) i = if (i <? Z.to_nat n)%nat then Some (f (Z.of_nat i)) else None.
Proof.
  destruct (i <? Z.to_nat n)%nat eqn:E.
  - apply Nat.ltb_lt in E. now rewrite nth_error_map, nth_error_zrange.
  - apply Nat.ltb_ge in E. apply nth_error_None. now rewrite map_length, zrange_length.
Qed.

(** * Reading a block as an array of model/Append.v *)

Definition cell_of (b : block) (i : Z) : option Z :=
  match PM.find (key i) (b_cells b) with
  | Some (VInt z) => Some z
  | Some _ => Some 0      (* a float cell: only "initialised" is kept, as in model/Append.v ([store_all]) *)
  | None => None
  end.

Definition arr_of (b : block) : arr := map (cell_of b) (zrange (b_len b)).

Definition cells_in_range (b : block) : Prop :=
  forall k, PM.find k (b_cells b) <> None -> Zpos k <= b_len b.

Lemma zlen_arr_of b : 0 <= b_len b -> zlen (arr_of b) = b_len b.
Proof. intros. unfold zlen, arr_of. rewrite map_length, zrange_length. lia. Qed.

Lemma key_inj i j : 0 <= i -> 0 <= j -> key i = key j -> i = j.
Proof. unfold key. intros. assert (Z.pos (Z.to_pos (i + 1)) = Z.pos (Z.to_pos (j + 1))) by congruence.
  rewrite !Z2Pos.id in * by lia. lia. Qed.

Lemma key_pos i : 0 <= i -> Zpos (key i) = i + 1.
Proof. intros. unfold key. rewrite Z2Pos.id; lia. Qed.

(** a store of an int32 into cell [i] *)
Lemma arr_of_store b i v :
  0 <= i < b_len b ->
  Append.store (arr_of b) i v
  = Some (arr_of (mkBlock (b_float b) (b_len b) (PM.add (key i) (VInt v) (b_cells b)) true false)).
Proof.
  intros Hi. unfold Append.store. rewrite zlen_arr_of by lia.
  replace ((0 <=? i) && (i <? b_len b)) with true by (symmetry; apply andb_true_iff; split; [apply Z.leb_le|apply Z.ltb_lt]; lia).
  f_equal. symmetry. apply nth_error_ext.
  - unfold arr_of; cbn [b_len b_cells]. rewrite app_length. cbn [List.length].
    rewrite firstn_length, skipn_length, !map_length, !zrange_length. lia.
  - intros k Hk. unfold arr_of in *; cbn [b_len b_cells] in *. rewrite map_length, zrange_length in Hk.
    rewrite nth_error_map_zrange. replace (k <? Z.to_nat (b_len b))%nat with true by (symmetry; apply Nat.ltb_lt; lia).
    assert (L : List.length (firstn (Z.to_nat i) (map (cell_of b) (zrange (b_len b)))) = Z.to_nat i).
    { rewrite firstn_length, map_length, zrange_length. lia. }
    destruct (Nat.lt_ge_cases k (Z.to_nat i)) as [Lt|Ge].
    + rewrite nth_error_app1 by lia. rewrite nth_error_firstn_lt by lia. rewrite nth_error_map_zrange.
      replace (k <? Z.to_nat (b_len b))%nat with true by (symmetry; apply Nat.ltb_lt; lia).
      f_equal. unfold cell_of; simpl. rewrite PM.gso; auto.
      intros E. apply key_inj in E; lia.
    + rewrite nth_error_app2 by lia. rewrite L.
      destruct (k - Z.to_nat i)%nat as [|d] eqn:D.
      * cbn [nth_error]. assert (Z.of_nat k = i) by lia. subst i. unfold cell_of; simpl. now rewrite PM.gss.
      * cbn [nth_error]. rewrite nth_error_skipn_plus. replace (S (Z.to_nat i) + d)%nat with k by lia.
        rewrite nth_error_map_zrange. replace (k <? Z.to_nat (b_len b))%nat with true by (symmetry; apply Nat.ltb_lt; lia).
        f_equal. unfold cell_of; simpl. rewrite PM.gso; auto. intros E. apply key_inj in E; lia.
Qed.

Lemma cells_in_range_add b i v fl lv inp :
  0 <= i < b_len b -> cells_in_range b ->
  cells_in_range (mkBlock fl (b_len b) (PM.add (key i) v (b_cells b)) lv inp).
Proof.
  intros Hi C k. simpl. destruct (Pos.eq_dec k (key i)) as [->|N].
  - intros _. rewrite key_pos; lia.
  - rewrite PM.gso by auto. apply C.
Qed.

(** * keep_prefix *)

Lemma keep_prefix_find n cells k :
  PM.find k (keep_prefix n cells) = if Zpos k <=? n then PM.find k cells else None.
Proof.
  unfold keep_prefix. rewrite PM.fold_1.
  assert (G : forall l acc,
    NoDupA (fun a b : positive * value => fst a = fst b) l ->
    PM.find k (fold_left (fun a p => if Zpos (fst p) <=? n then PM.add (fst p) (snd p) a else a) l acc)
    = match find (fun p => Pos.eqb (fst p) k) l with
      | Some p => if Zpos k <=? n then Some (snd p) else PM.find k acc
      | None => PM.find k acc
      end).
  { induction l as [|[k0 v0] l IH]; intros acc ND; simpl; auto.
    inversion ND as [|? ? NI ND']; subst. rewrite IH by auto.
    destruct (Pos.eqb k0 k) eqn:E.
    - apply Pos.eqb_eq in E. subst k0.
      assert (find (fun p => Pos.eqb (fst p) k) l = None) as ->.
      { destruct (find _ l) as [[k1 v1]|] eqn:F; auto. apply find_some in F. destruct F as [I E1]. simpl in E1.
        apply Pos.eqb_eq in E1. subst k1. exfalso. apply NI. apply InA_alt. exists (k, v1). split; auto. }
      destruct (Zpos k <=? n); auto. now rewrite PM.gss.
    - apply Pos.eqb_neq in E. destruct (find _ l) as [p|]; auto.
      + destruct (Zpos k <=? n); auto. destruct (Zpos k0 <=? n); auto. now rewrite PM.gso by auto.
      + destruct (Zpos k0 <=? n); auto. now rewrite PM.gso by auto. }
  rewrite G by apply PM.elements_3w. rewrite PM.gempty.
  destruct (find (fun p : positive * value => Pos.eqb (fst p) k) (PM.elements cells)) as [[k1 v1]|] eqn:F.
  - apply find_some in F. destruct F as [I E]. simpl in E. apply Pos.eqb_eq in E. subst k1.
    apply PM.elements_complete in I. rewrite I. reflexivity.
  - destruct (PM.find k cells) as [v|] eqn:Fk; [|now destruct (_ <=? _)].
    apply PM.elements_correct in Fk. eapply find_none in F; eauto. simpl in F. rewrite Pos.eqb_refl in F. discriminate.
Qed.

(** the block made by realloc reads as [Append.realloc] of the old one *)
Lemma arr_of_realloc b n fl :
  0 <= n -> 0 <= b_len b -> cells_in_range b ->
  arr_of (mkBlock fl n (keep_prefix n (b_cells b)) true false) = Append.realloc (arr_of b) n.
Proof.
  intros Hn Hl C. unfold Append.realloc. apply nth_error_ext.
  - unfold arr_of; simpl. rewrite app_length, firstn_length, repeat_length, !map_length, !zrange_length. lia.
  - intros k Hk. unfold arr_of in *; simpl in *. rewrite map_length, zrange_length in Hk.
    rewrite nth_error_map_zrange. replace (k <? Z.to_nat n)%nat with true by (symmetry; apply Nat.ltb_lt; lia).
    assert (L : List.length (firstn (Z.to_nat n) (map (cell_of b) (zrange (b_len b)))) = Nat.min (Z.to_nat n) (Z.to_nat (b_len b))).
    { now rewrite firstn_length, map_length, zrange_length. }
    assert (CK : cell_of (mkBlock fl n (keep_prefix n (b_cells b)) true false) (Z.of_nat k) = cell_of b (Z.of_nat k)).
    { unfold cell_of; simpl. rewrite keep_prefix_find. rewrite key_pos by lia.
      replace (Z.of_nat k + 1 <=? n) with true by (symmetry; apply Z.leb_le; lia). reflexivity. }
    rewrite CK.
    destruct (Nat.lt_ge_cases k (Z.to_nat (b_len b))) as [Lt|Ge].
    + rewrite nth_error_app1 by lia. rewrite nth_error_firstn_lt by lia. rewrite nth_error_map_zrange.
      replace (k <? Z.to_nat (b_len b))%nat with true by (symmetry; apply Nat.ltb_lt; lia). reflexivity.
    + rewrite nth_error_app2 by lia. rewrite L.
      assert (cell_of b (Z.of_nat k) = None) as ->.
      { unfold cell_of. destruct (PM.find (key (Z.of_nat k)) (b_cells b)) eqn:F; auto.
        assert (Zpos (key (Z.of_nat k)) <= b_len b) by (apply C; congruence). rewrite key_pos in *; lia. }
      symmetry. apply nth_error_repeat_lt. rewrite map_length, zrange_length. lia.
Qed.

Lemma cells_in_range_keep_prefix b n fl :
  0 <= n -> cells_in_range (mkBlock fl n (keep_prefix n (b_cells b)) true false).
Proof.
  intros Hn k. simpl. rewrite keep_prefix_find. destruct (Zpos k <=? n) eqn:E; [|congruence].
  intros _. now apply Z.leb_le.
Qed.

Lemma arr_of_fresh fl n : arr_of (mkBlock fl n (PM.empty value) true false) = Append.alloc n.
Proof.
  unfold arr_of, Append.alloc; simpl. apply nth_error_ext.
  - now rewrite map_length, zrange_length, repeat_length.
  - intros k Hk. rewrite map_length, zrange_length in Hk. rewrite nth_error_map_zrange.
    replace (k <? Z.to_nat n)%nat with true by (symmetry; apply Nat.ltb_lt; lia).
    unfold cell_of; simpl. rewrite PM.gempty. symmetry. now apply nth_error_repeat_lt.
Qed.

Lemma cells_in_range_fresh fl n : cells_in_range (mkBlock fl n (PM.empty value) true false).
Proof. intros k. simpl. rewrite PM.gempty. congruence. Qed.

(** * Blocks: statement lists *)

Definition run_block (n : nat) : list stmt -> state -> list event -> outcome :=
  fix go (l : list stmt) (st : state) (tr : list event) : outcome :=
    match l with
    | [] => Normal st tr
    | s1 :: r =>
        match exec n s1 st with
        | Normal st' t1 => go r st' (tr ++ t1)
        | Returned st' v t1 => Returned st' v (tr ++ t1)
        | Fail x => Fail x
        | OutOfFuel => OutOfFuel
        end
    end.

Lemma exec_block n ss c st : exec (S n) (Block ss c) st = run_block n ss st [].
Proof. reflexivity. Qed.

Lemma run_block_cons n s r st tr :
  run_block n (s :: r) st tr =
  match exec n s st with
  | Normal st' t1 => run_block n r st' (tr ++ t1)
  | Returned st' v t1 => Returned st' v (tr ++ t1)
  | Fail x => Fail x
  | OutOfFuel => OutOfFuel
  end.
Proof. reflexivity. Qed.

Lemma run_block_nil n st tr : run_block n [] st tr = Normal st tr.
Proof. reflexivity. Qed.

(** a block that completes: its first statement completed, then the rest *)
Lemma run_block_cons_inv n s r st tr st' tr' :
  run_block n (s :: r) st tr = Normal st' tr' ->
  exists st1 t1, exec n s st = Normal st1 t1 /\ run_block n r st1 (tr ++ t1) = Normal st' tr'.
Proof. rewrite run_block_cons. destruct (exec n s st); try discriminate. eauto. Qed.

Lemma run_block_app n a : forall b st tr st' tr',
  run_block n (a ++ b) st tr = Normal st' tr' ->
  exists st1 t1, run_block n a st tr = Normal st1 t1 /\ run_block n b st1 t1 = Normal st' tr'.
Proof.
  induction a as [|s a IH]; intros b st tr st' tr' H.
  - exists st, tr. split; auto.
  - simpl in H. apply run_block_cons_inv in H. destruct H as (st1 & t1 & E & R).
    apply IH in R. destruct R as (st2 & t2 & R1 & R2). exists st2, t2. split; auto.
    rewrite run_block_cons, E. exact R1.
Qed.

(** * Variables *)

Definition ivar (st : state) (x : string) (z : Z) : Prop :=
  lookup x (env st) = Some (TInteger, Some (VInt z)) /\ in_int32 z = true.

Definition pvar (st : state) (x : string) (ety : ty) (b : positive) : Prop :=
  lookup x (env st) = Some (TPointer ety, Some (VPtr b 0)) /\ (ety = TInteger \/ ety = TFloat).

Lemma eval_ivar st x z : ivar st x z -> eval st (Var x) = Ok (VInt z, []).
Proof. intros [L I]. simpl. rewrite L. simpl. now rewrite I. Qed.

Lemma eval_pvar st x ety b : pvar st x ety b -> eval st (Var x) = Ok (VPtr b 0, []).
Proof. intros [L [E|E]]; subst; simpl; rewrite L; reflexivity. Qed.

Lemma ivar_fun st x z z' : ivar st x z -> ivar st x z' -> z = z'.
Proof. intros [A _] [B _]. congruence. Qed.

(** assignment of an int32 to an integer variable *)
Definition set_int (st : state) (x : string) (z : Z) : state :=
  with_env st (set_var x (TInteger, Some (VInt z)) (env st)).

Lemma ivar_set_int_same st x z : in_int32 z = true -> ivar (set_int st x z) x z.
Proof. intros I. split; auto. unfold set_int; simpl. rewrite lookup_set_var, String.eqb_refl. reflexivity. Qed.

Lemma lookup_set_int_other st x z y : y <> x -> lookup y (env (set_int st x z)) = lookup y (env st).
Proof. intros N. unfold set_int; simpl. rewrite lookup_set_var. apply String.eqb_neq in N. now rewrite N. Qed.

Definition is_alloc_form (e : expr) : bool :=
  match e with ArrayAllocate _ _ | ArrayReallocate _ _ _ => true | _ => false end.

Lemma eval_rhs_pure st e : is_alloc_form e = false -> eval_rhs st e = (do '(v, t1) <- eval st e; Ok (st, v, t1)).
Proof. destruct e; simpl; intros; try discriminate; reflexivity. Qed.

Lemma exec_assign_int n st x e z t z0 :
  is_alloc_form e = false -> eval st e = Ok (VInt z, t) -> ivar st x z0 -> in_int32 z = true ->
  exec (S n) (Assignment (Var x) e) st = Normal (set_int st x z) (t ++ [] ++ []).
Proof.
  intros A E [L _] I. simpl. rewrite eval_rhs_pure by auto. rewrite E. simpl. rewrite L. simpl. rewrite I. reflexivity.
Qed.
