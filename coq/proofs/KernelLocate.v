(** C01G -- [Kernel.locate] against [Storage.walk] / [Storage.entries]:
    on a well-formed stored tensor, following coordinates level by level finds exactly the
    position [walk] lists for them, so the value the kernel model reads for a leaf is the
    abstraction [abs_tensor] used by the specification (0 where nothing is stored). *)

From Coq Require Import ZArith List Bool Lia ZifyBool Permutation.
From TV Require Import spec.Storage spec.Spec proofs.StorageLemmas proofs.StorageWf
                       model.Exhaust model.DesugarSemGraph model.Kernel.
Import ListNotations.
Local Open Scope Z_scope.

(** * [find_crd] on a strictly increasing segment *)

Lemma find_some_iff {A} (f : A -> bool) l x :
  NoDup l -> (forall y, In y l -> f y = true -> y = x \/ f x = false) ->
  In x l -> f x = true -> find f l = Some x.
Proof.
  induction l as [|a l IH]; intros ND U Hin Hf; [contradiction|].
  cbn. destruct (f a) eqn:Ea.
  - destruct (U a (or_introl eq_refl) Ea) as [->|C]; [reflexivity|congruence].
  - destruct Hin as [->|Hin]; [congruence|].
    inversion ND; subst. apply IH; auto. intros y Hy. apply U. now right.
Qed.

Lemma find_crd_spec n d pos crd p c q :
  wf_compressed n d pos crd -> 0 <= p < n ->
  (find_crd crd c (zrange2 (nthZ 0 pos p) (nthZ 0 pos (p + 1))) = Some q
   <-> (nthZ 0 pos p <= q < nthZ 0 pos (p + 1) /\ nthZ (-1) crd q = c)).
Proof.
  intros W Hp. unfold find_crd. split.
  - intros H. apply find_some in H. destruct H as [H1 H2]. apply In_zrange2 in H1. split; [exact H1|lia].
  - intros [H1 H2]. apply find_some_iff.
    + unfold zrange2. apply FinFun.Injective_map_NoDup; [|apply NoDup_zrange].
      intros a b. lia.
    + intros y Hy Ey. apply In_zrange2 in Hy. left.
      destruct (Z.lt_trichotomy y q) as [L|[E|L]]; [|exact E|].
      * pose proof (wf_compressed_segment_lt _ _ _ _ W p y q Hp ltac:(lia) L ltac:(lia)). lia.
      * pose proof (wf_compressed_segment_lt _ _ _ _ W p q y Hp ltac:(lia) L ltac:(lia)). lia.
    + apply In_zrange2. exact H1.
    + lia.
Qed.

Lemma find_crd_none n d pos crd p c :
  wf_compressed n d pos crd -> 0 <= p < n ->
  (find_crd crd c (zrange2 (nthZ 0 pos p) (nthZ 0 pos (p + 1))) = None
   <-> ~ In c (segment pos crd p)).
Proof.
  intros W Hp. unfold find_crd, segment. split.
  - intros H Hin. apply in_map_iff in Hin. destruct Hin as (q & E & Hq).
    pose proof (find_none _ _ H q Hq) as F. cbn in F. lia.
  - intros H. destruct (find _ _) eqn:F; [|reflexivity]. exfalso. apply H.
    apply find_some in F. destruct F as [F1 F2]. apply in_map_iff. exists z. split; [lia|exact F1].
Qed.

(** * [locate] finds exactly what [walk] lists *)

Lemma locate_walk lv : forall n k p cs q,
  wf_levels lv n k -> 0 <= p < n ->
  (In (cs, q) (walk lv p []) <-> locate lv cs p = Some q).
Proof.
  induction lv as [|[l d] lv IH]; intros n k p cs q W Hp.
  - cbn. destruct cs; split; intros H.
    + destruct H as [H|[]]. now inversion H.
    + inversion H. now left.
    + destruct H as [H|[]]. inversion H.
    + discriminate.
  - destruct l as [|pos crd]; cbn [wf_levels] in W; destruct W as [W1 W2]; cbn [walk locate].
    + rewrite in_flat_map. split.
      * intros (i & Hi & Hin). rewrite walk_cons_hd in Hin. apply in_map_iff in Hin.
        destruct Hin as ([c' q'] & E & Hin). inversion E; subst. apply In_zrange in Hi.
        destruct ((0 <=? i) && (i <? d)) eqn:B; [|lia].
        apply (IH (n * d) k); [exact W2|nia|exact Hin].
      * destruct cs as [|c cs']; [discriminate|].
        destruct ((0 <=? c) && (c <? d)) eqn:B; [|discriminate]. intros H.
        exists c. split; [apply In_zrange; lia|].
        rewrite walk_cons_hd. apply in_map_iff. exists (cs', q). split; [reflexivity|].
        apply (IH (n * d) k); [exact W2|nia|exact H].
    + rewrite in_flat_map. split.
      * intros (q0 & Hq0 & Hin). rewrite walk_cons_hd in Hin. apply in_map_iff in Hin.
        destruct Hin as ([c' q'] & E & Hin). inversion E; subst.
        apply In_zrange2 in Hq0.
        assert (find_crd crd (nthZ (-1) crd q0) (zrange2 (nthZ 0 pos p) (nthZ 0 pos (p + 1))) = Some q0) as F.
        { apply (find_crd_spec _ _ _ _ _ _ _ W1 Hp). split; [exact Hq0|reflexivity]. }
        rewrite F.
        pose proof (wf_compressed_pos_bounds _ _ _ _ W1 p ltac:(lia)).
        pose proof (wf_compressed_pos_bounds _ _ _ _ W1 (p + 1) ltac:(lia)).
        apply (IH (zlen crd) k); [exact W2|lia|exact Hin].
      * destruct cs as [|c cs']; [discriminate|].
        destruct (find_crd crd c _) as [q0|] eqn:F; [|discriminate]. intros H.
        apply (find_crd_spec _ _ _ _ _ _ _ W1 Hp) in F. destruct F as [F1 F2].
        exists q0. split; [apply In_zrange2; exact F1|].
        rewrite walk_cons_hd. apply in_map_iff. exists (cs', q). split; [cbn; now rewrite F2|].
        pose proof (wf_compressed_pos_bounds _ _ _ _ W1 p ltac:(lia)).
        pose proof (wf_compressed_pos_bounds _ _ _ _ W1 (p + 1) ltac:(lia)).
        apply (IH (zlen crd) k); [exact W2|lia|exact H].
Qed.

(** a located position is a leaf position *)
Lemma locate_bounds lv : forall n k p cs q,
  wf_levels lv n k -> 0 <= p < n -> locate lv cs p = Some q -> 0 <= q < k.
Proof.
  intros n k p cs q W Hp H. apply (locate_walk lv n k p cs q W Hp) in H.
  apply wf_levelsb_spec in W. destruct (walk_wf lv n k p W Hp) as [_ HW].
  apply (HW _ _ H).
Qed.

(** * sums over duplicate-free keyed lists *)

Lemma coord_eqb_eq a : forall b, coord_eqb a b = true <-> a = b.
Proof.
  induction a as [|x a IH]; intros [|y b]; cbn; split; intros H; try discriminate; try reflexivity.
  - apply andb_true_iff in H. destruct H as [H1 H2]. apply Z.eqb_eq in H1. apply IH in H2. now subst.
  - inversion H; subst. apply andb_true_iff. split; [apply Z.eqb_refl|now apply IH].
Qed.

Lemma coord_eqb_refl a : coord_eqb a a = true.
Proof. now apply coord_eqb_eq. Qed.

Lemma abs_entries_cons (c' : list Z) (v' : Z) es c :
  abs_entries (O := ZOps) ((c', v') :: es) c
  = if coord_eqb c' c then v' + abs_entries (O := ZOps) es c else abs_entries (O := ZOps) es c.
Proof. unfold abs_entries. cbn [filter fst]. destruct (coord_eqb c' c); reflexivity. Qed.

Lemma abs_entries_nil c : abs_entries (O := ZOps) [] c = 0.
Proof. reflexivity. Qed.

Lemma abs_entries_notin (es : list (list Z * Z)) c :
  ~ In c (map fst es) -> abs_entries (O := ZOps) es c = 0.
Proof.
  induction es as [|[c' v] es IH]; intros H; [reflexivity|].
  rewrite abs_entries_cons. destruct (coord_eqb c' c) eqn:E.
  - apply coord_eqb_eq in E. subst. exfalso. apply H. now left.
  - apply IH. intros Hin. apply H. now right.
Qed.

Lemma abs_entries_in (es : list (list Z * Z)) c v :
  NoDup (map fst es) -> In (c, v) es -> abs_entries (O := ZOps) es c = v.
Proof.
  induction es as [|[c' v'] es IH]; intros ND Hin; [contradiction|].
  cbn [map fst] in ND. inversion ND as [|? ? Hn ND']; subst.
  rewrite abs_entries_cons. destruct Hin as [E|Hin].
  - inversion E; subst. rewrite coord_eqb_refl. rewrite abs_entries_notin by exact Hn. lia.
  - destruct (coord_eqb c' c) eqn:E.
    + apply coord_eqb_eq in E. subst. exfalso. apply Hn. apply in_map_iff. now exists (c, v).
    + now apply IH.
Qed.

(** * the leaf value read through [locate] is the abstraction of the stored tensor *)

Definition located_value (t : tensor Z) (lc : list Z) : Z :=
  match locate (tlevels t) lc 0 with
  | Some p => nthZ 0 (vals t) p
  | None => 0
  end.

Lemma wf_tensorb_wf_levels strict (t : tensor Z) :
  wf_tensorb strict t = true -> exists k, wf_levels (tlevels t) 1 k.
Proof.
  intros W. apply wf_tensorb_spec in W. destruct W as [_ (k & W & _)]. now exists k.
Qed.

Theorem abs_tensor_located strict (t : tensor Z) (lc : list Z) :
  wf_tensorb strict t = true -> length lc = length (ordering t) ->
  abs_tensor (O := ZOps) t (to_dim_order (ordering t) lc) = located_value t lc.
Proof.
  intros W L. destruct (wf_entries 0 strict t W) as [ND _].
  pose proof (wf_tensorb_shape _ _ W) as (L1 & L2 & P & _).
  destruct (wf_tensorb_wf_levels _ _ W) as (k & Wl).
  unfold abs_tensor, located_value.
  destruct (locate (tlevels t) lc 0) as [p|] eqn:E.
  - apply (locate_walk _ 1 k 0 lc p Wl ltac:(lia)) in E.
    apply abs_entries_in; [exact ND|]. unfold entries. apply in_map_iff.
    exists (lc, p). split; [reflexivity|exact E].
  - apply abs_entries_notin. intros Hin. unfold entries in Hin. rewrite map_map in Hin.
    apply in_map_iff in Hin. destruct Hin as ([lc' p'] & Eq & Hin). cbn [fst] in Eq.
    assert (length lc' = length (ordering t)) as L'.
    { pose proof (walk_length _ _ _ _ _ Hin) as Hl. cbn [length] in Hl.
      assert (length (combine (levels t) (level_dims t)) = length (ordering t)) as Ll.
      { unfold level_dims. rewrite combine_length, map_length. lia. }
      rewrite Hl. exact Ll. }
    assert (lc' = lc) as ->.
    { apply (to_dim_order_inj (ordering t)); auto. }
    change (combine (levels t) (level_dims t)) with (tlevels t) in Hin.
    apply (proj1 (locate_walk (tlevels t) 1 k 0 lc p' Wl ltac:(lia))) in Hin. rewrite Hin in E. discriminate.
Qed.
