(** C01G -- no phantom coordinates: a compressed level of the output of the kernel model stores a
    coordinate only where the graph has STRUCTURAL SUPPORT, i.e. where its loop nest, read in the
    boolean semiring over "is this coordinate stored in the input" (literals are everywhere
    present, products are conjunctions, sums and contractions disjunctions), is true.

    Along the way: every leaf that is still alive (not exhausted) when a terminal is reached can
    be located in its stored tensor, so the sanity bit of the model is [true]. *)

From Coq Require Import ZArith List Bool Lia ZifyBool String.
From TV Require Import spec.Storage spec.Spec proofs.SpecSums proofs.SpecLemmas proofs.StorageLemmas proofs.StorageWf
                       model.DesugarSem model.Exhaust proofs.ExhaustProofs
                       model.DesugarSemGraph proofs.DesugarSemGraphProofs
                       model.Kernel proofs.KernelLocate proofs.KernelEncode proofs.KernelExhaust
                       proofs.KernelSound proofs.KernelBucket.
Import ListNotations.
Local Open Scope Z_scope.

(** * structural support *)

Fixpoint isupp (P : string -> bool) (e : iexpr Z) : bool :=
  match e with
  | IInt _ | IFloat _ => true
  | ITensor id _ _ _ => P id
  | IAdd a b => isupp P a || isupp P b
  | IMul a b => isupp P a && isupp P b
  end.

(** is the coordinate the leaf [id] reads stored in its tensor? *)
Definition present (cfg : kcfg) (rho : val) (id : string) : bool :=
  match leaf_value cfg rho id with Some _ => true | None => false end.

(** the loop nest of the graph in the boolean semiring of stored-ness *)
Fixpoint gsupp (cfg : kcfg) (g : graph Z) (rho : val) : bool :=
  match g with
  | GTerminal e => isupp (present cfg rho) e
  | GIter k None next => existsb (fun v => gsupp cfg next (upd rho k v)) (zrange (k_sizes cfg k))
  | GIter k (Some _) next => gsupp cfg next rho
  | GSum ts => (fix go (l : list (graph Z)) : bool :=
                  match l with
                  | [] => false
                  | t :: r => gsupp cfg t rho || go r
                  end) ts
  end.

Lemma gsupp_sum cfg ts rho : gsupp cfg (GSum ts) rho = existsb (fun t => gsupp cfg t rho) ts.
Proof. induction ts as [|t r IH]; [reflexivity|]. cbn [gsupp existsb] in *. now rewrite IH. Qed.

(** * exhausting only removes support *)

Lemma exhaust_aux_isupp P (e : iexpr Z) t :
  is_int0 (fst (exhaust_aux e t)) = false ->
  isupp P (fst (exhaust_aux e t)) = true -> isupp P e = true.
Proof.
  induction e; cbn [exhaust_aux].
  - auto.
  - auto.
  - destruct (String.eqb id t); cbn; [discriminate|auto].
  - destruct (exhaust_aux e1 t) as [a' sa]. destruct (exhaust_aux e2 t) as [b' sb]. cbn [fst] in *.
    destruct (sa && sb); [cbn [fst]; auto|].
    destruct (is_int0 a') eqn:Ea.
    + cbn [fst isupp]. intros N S. rewrite (IHe2 N S). apply orb_true_r.
    + destruct (is_int0 b') eqn:Eb.
      * cbn [fst isupp]. intros N S. now rewrite (IHe1 eq_refl S).
      * cbn [fst isupp]. intros _ S. apply orb_true_iff in S. apply orb_true_iff.
        destruct S as [S|S]; [left; now apply IHe1|right; now apply IHe2].
  - destruct (exhaust_aux e1 t) as [a' sa]. destruct (exhaust_aux e2 t) as [b' sb]. cbn [fst] in *.
    destruct (sa && sb); [cbn [fst]; auto|].
    destruct (is_int0 a' || is_int0 b') eqn:Eab; [cbn; discriminate|].
    apply orb_false_iff in Eab. destruct Eab as [Ea Eb].
    cbn [fst isupp]. intros _ S. apply andb_true_iff in S. destruct S as [S1 S2].
    apply andb_true_iff. split; [now apply IHe1|now apply IHe2].
Qed.

Lemma exhaust_list_int0 (e : iexpr Z) dead : is_int0 e = true -> is_int0 (exhaust_list e dead) = true.
Proof.
  revert e. induction dead as [|t dead IH]; intros e H; [exact H|].
  rewrite exhaust_list_cons. apply IH. destruct e; try discriminate. exact H.
Qed.

Lemma exhaust_list_isupp P dead : forall (e : iexpr Z),
  is_int0 (exhaust_list e dead) = false ->
  isupp P (exhaust_list e dead) = true -> isupp P e = true.
Proof.
  induction dead as [|t dead IH]; intros e N S; [exact S|].
  rewrite exhaust_list_cons in *. unfold exhaust in *.
  apply (exhaust_aux_isupp P e t); [|now apply IH].
  destruct (is_int0 (fst (exhaust_aux e t))) eqn:E; [|reflexivity].
  now rewrite (exhaust_list_int0 _ dead E) in N.
Qed.

Lemma all_present_isupp P (e : iexpr Z) :
  (forall li, In li (iexpr_leaves e) -> P (fst li) = true) -> isupp P e = true.
Proof.
  induction e; intros H; cbn [isupp iexpr_leaves] in *; try reflexivity.
  - apply (H (id, (name, idx, modes))). now left.
  - rewrite IHe1; [reflexivity|]. intros li Hl. apply H. apply in_app_iff. now left.
  - rewrite IHe1, IHe2; [reflexivity| |]; intros li Hl; apply H; apply in_app_iff; auto.
Qed.

(** exhausted leaves do not occur any more *)
Lemma leaves_ids (e : iexpr Z) li : In li (iexpr_leaves e) -> In (fst li) (tensor_ids e).
Proof.
  induction e; cbn; intros H; try contradiction.
  - destruct H as [<-|[]]. now left.
  - apply in_app_iff in H. apply in_app_iff. tauto.
  - apply in_app_iff in H. apply in_app_iff. tauto.
Qed.

Lemma exhaust_list_leaves_not dead : forall (e : iexpr Z) li,
  In li (iexpr_leaves (exhaust_list e dead)) -> ~ In (fst li) dead.
Proof.
  induction dead as [|t dead IH]; intros e li H; [intros []|].
  rewrite exhaust_list_cons in H. intros [E|Hd]; [|exact (IH _ _ H Hd)].
  apply (exhaust_removes ZOps e t).
  pose proof (leaves_ids _ _ (exhaust_list_leaves (exhaust e t) dead li H)) as Hi.
  now rewrite <- E in Hi.
Qed.

(** * small facts *)

Lemma ctx_contains (e : iexpr Z) k : forall c id n idx ms l,
  extract_context zis_zero e k = Some c -> In (id, (n, idx, ms)) (iexpr_leaves e) ->
  index_of_str k idx = Some l -> nth_error ms l = Some MCompressed -> In (id, l) (sparse_leaves c).
Proof.
  induction e; intros c id0 n idx0 ms l Hc Hin Hk Hm; cbn [extract_context iexpr_leaves] in *.
  - contradiction.
  - contradiction.
  - destruct Hin as [E|[]]. inversion E; subst. rewrite Hk, Hm in Hc. inversion Hc. cbn. now left.
  - destruct (extract_context zis_zero e1 k) as [x|] eqn:E1; [|discriminate].
    destruct (extract_context zis_zero e2 k) as [y|] eqn:E2; [|discriminate].
    inversion Hc; subst. cbn. apply in_app_iff. apply in_app_iff in Hin.
    destruct Hin as [H|H]; [left; eapply IHe1; eauto|right; eapply IHe2; eauto].
  - destruct (extract_context zis_zero e1 k) as [x|] eqn:E1; [|discriminate].
    destruct (extract_context zis_zero e2 k) as [y|] eqn:E2; [|discriminate].
    inversion Hc; subst. cbn. apply in_app_iff. apply in_app_iff in Hin.
    destruct Hin as [H|H]; [left; eapply IHe1; eauto|right; eapply IHe2; eauto].
Qed.

Lemma index_of_str_nodup k idx l :
  NoDup idx -> nth_error idx l = Some k -> index_of_str k idx = Some l.
Proof.
  revert l. induction idx as [|x idx IH]; intros l ND H; [destruct l; discriminate|].
  inversion ND as [|? ? Hn ND']; subst. destruct l as [|l]; cbn in H.
  - inversion H; subst. cbn. now rewrite String.eqb_refl.
  - cbn. destruct (String.eqb_spec x k) as [->|N].
    + exfalso. apply Hn. eapply nth_error_In; eauto.
    + now rewrite (IH l ND' H).
Qed.

Lemma find_crd_present crd v qs :
  zmem v (map (fun q => nthZ (-1) crd q) qs) = true -> exists q, find_crd crd v qs = Some q.
Proof.
  unfold find_crd, zmem. induction qs as [|q qs IH]; intros H; [discriminate|].
  cbn [map existsb] in H. cbn [find]. rewrite Z.eqb_sym. destruct (v =? nthZ (-1) crd q); [eauto|].
  now apply IH.
Qed.

Lemma firstn_S_snoc {A} (L : list A) m x : nth_error L m = Some x -> firstn (S m) L = firstn m L ++ [x].
Proof.
  revert m. induction L as [|a L IH]; intros m H; [destruct m; discriminate|].
  destruct m as [|m]; cbn in H; [inversion H; reflexivity|].
  change (firstn (S (S m)) (a :: L)) with (a :: firstn (S m) L). rewrite (IH m H). reflexivity.
Qed.

(** * the invariant: the bound compressed layers of every live leaf are located *)

Fixpoint closedb (B : list string) (g : graph Z) : bool :=
  match g with
  | GTerminal e => forallb (fun li : leafinfo => forallb (fun x => smem x B) (snd (fst (snd li)))) (iexpr_leaves e)
  | GIter k _ next => closedb (k :: B) next
  | GSum ts => (fix go (l : list (graph Z)) : bool :=
                  match l with
                  | [] => true
                  | t :: r => closedb B t && go r
                  end) ts
  end.

Lemma closedb_sum B ts : closedb B (GSum ts) = forallb (closedb B) ts.
Proof. induction ts as [|t r IH]; [reflexivity|]. cbn [closedb forallb] in *. now rewrite IH. Qed.

Section Support.
Variable cfg : kcfg.
Hypothesis LOK : leaves_okb cfg = true.

(** further static conditions: no index twice in one leaf (diagonals are refused by tensora), the
    dimensions of every input are the sizes of its indexes *)
Definition leaf_extrab (li : leafinfo) : bool :=
  let '(_, (n, idx, _)) := li in
  nodupb idx &&
  match lookup n (k_ins cfg) with
  | Some t => list_eqb Z.eqb (level_dims t) (map (k_sizes cfg) idx)
  | None => false
  end.

Definition leaves_extrab : bool := forallb leaf_extrab (k_leaves cfg).
Hypothesis LEX : leaves_extrab = true.

Lemma leaf_extra id n idx ms :
  In (id, (n, idx, ms)) (k_leaves cfg) ->
  NoDup idx /\ exists t, lookup n (k_ins cfg) = Some t /\ level_dims t = map (k_sizes cfg) idx.
Proof.
  intros Hin. unfold leaves_extrab in LEX. rewrite forallb_forall in LEX. specialize (LEX _ Hin).
  cbn in LEX. apply andb_true_iff in LEX. destruct LEX as [H1 H2]. split; [now apply nodupb_sound|].
  destruct (lookup n (k_ins cfg)) as [t|]; [|discriminate]. exists t. split; [reflexivity|].
  apply (list_eqb_eq Z.eqb); [|exact H2]. intros a b. apply Z.eqb_eq.
Qed.

Definition RB (rho : val) (B : list string) : Prop := forall x, In x B -> 0 <= rho x < k_sizes cfg x.

Definition LP (dead : list string) (rho : val) (B : list string) (g : graph Z) : Prop :=
  forall e, In e (terminals g) ->
  forall id n idx ms, In (id, (n, idx, ms)) (iexpr_leaves (exhaust_list e dead)) ->
  forall l x, nth_error ms l = Some MCompressed -> nth_error idx l = Some x -> In x B ->
    incl (firstn (S l) idx) B
    /\ exists t q, lookup n (k_ins cfg) = Some t
                   /\ locate (firstn (S l) (tlevels t)) (map rho (firstn (S l) idx)) 0 = Some q.

Lemma LP_nil dead rho g : LP dead rho [] g.
Proof. intros e _ id n idx ms _ l x _ _ []. Qed.

Lemma LP_sub dead rho B ts t : LP dead rho B (GSum ts) -> In t ts -> LP dead rho B t.
Proof. intros H Ht e He. apply H. rewrite terminals_sum. apply in_flat_map. eauto. Qed.

Lemma RB_step rho B k v : RB rho B -> 0 <= v < k_sizes cfg k -> RB (upd rho k v) (k :: B).
Proof.
  intros R Hv x [<-|Hx]; [now rewrite upd_same|]. unfold upd.
  destruct (String.eqb_spec x k) as [->|N]; [exact Hv|now apply R].
Qed.

Lemma map_upd_notin rho k v (l : list string) : ~ In k l -> map (upd rho k v) l = map rho l.
Proof.
  intros H. apply map_ext_in. intros x Hx. apply upd_other. intros ->. contradiction.
Qed.

Lemma LP_step dead rho B k v next ctx :
  LP dead rho B next -> ~ In k B -> gctx dead k next = Some ctx ->
  incl (graph_leaves next) (k_leaves cfg) ->
  forallb (leaf_scopedb B k) (graph_leaves next) = true ->
  LP (dead ++ absent_ids cfg rho v (sparse_leaves ctx)) (upd rho k v) (k :: B) next.
Proof.
  intros L Hk Hc Hi Hs e He id n idx ms Hin l x Hm Hx HxB.
  set (dead_v := dead ++ absent_ids cfg rho v (sparse_leaves ctx)) in *.
  assert (In (id, (n, idx, ms)) (iexpr_leaves (exhaust_list e dead))) as Hin0.
  { unfold dead_v in Hin. rewrite <- exhaust_list_app in Hin.
    now apply (exhaust_list_leaves (exhaust_list e dead) _) in Hin. }
  assert (In (id, (n, idx, ms)) (k_leaves cfg)) as Hreg.
  { apply Hi. rewrite graph_leaves_terminals. apply in_flat_map. exists e. split; [exact He|].
    now apply (exhaust_list_leaves e dead). }
  destruct (leaf_extra _ _ _ _ Hreg) as (NDi & _).
  destruct (String.eqb_spec x k) as [->|Nxk].
  - (* the layer of the index iterated now *)
    pose proof (index_of_str_nodup _ _ _ NDi Hx) as Hix.
    assert (incl (firstn l idx) B) as Hpre.
    { assert (In (id, (n, idx, ms)) (graph_leaves next)) as Hg.
      { rewrite graph_leaves_terminals. apply in_flat_map. exists e. split; [exact He|].
        now apply (exhaust_list_leaves e dead). }
      rewrite forallb_forall in Hs. pose proof (Hs _ Hg) as Hsc. cbn in Hsc. rewrite Hix, Hm in Hsc.
      rewrite forallb_forall in Hsc. intros y Hy. apply smem_In. now apply Hsc. }
    split.
    { rewrite (firstn_S_snoc _ _ _ Hx). intros y Hy. apply in_app_iff in Hy.
      destruct Hy as [Hy|[<-|[]]]; [right; now apply Hpre|now left]. }
    destruct (gctx_terminals dead k next ctx Hc e He) as (c & Ec & _ & Ic).
    assert (In (id, l) (sparse_leaves ctx)) as Hsl by (apply Ic; eapply ctx_contains; eauto).
    assert (fst (leaf_absent cfg rho v (id, l)) = false) as Hna.
    { destruct (fst (leaf_absent cfg rho v (id, l))) eqn:Ea; [|reflexivity]. exfalso.
      apply (exhaust_list_leaves_not dead_v e _ Hin). cbn [fst]. unfold dead_v. apply in_app_iff. right.
      unfold absent_ids. apply in_map_iff. exists (id, l). split; [reflexivity|].
      apply filter_In. auto. }
    destruct (leaf_registered cfg LOK _ _ _ _ Hreg) as (Hl & t & Ht & W & Ll & Ems).
    unfold leaf_absent, leaf_coords, input_of in Hna. cbn [fst snd] in Hna. rewrite Hl, Ht in Hna.
    unfold seg_coords in Hna.
    destruct (locate (firstn l (tlevels t)) (map rho (firstn l idx)) 0) as [p|] eqn:Ep; [|discriminate].
    destruct (nth_error (levels t) l) as [[|pos crd]|] eqn:Elv; try discriminate.
    cbn [fst] in Hna. apply negb_false_iff in Hna. unfold segment in Hna.
    destruct (find_crd_present _ _ _ Hna) as (q & Eq).
    exists t, q. split; [exact Ht|].
    assert (exists d, nth_error (tlevels t) l = Some (LCompressed pos crd, d)) as (d & Etl).
    { pose proof (wf_tensorb_shape _ _ W) as (_ & L2 & _).
      assert (l < List.length (level_dims t))%nat as Hlt.
      { unfold level_dims. rewrite map_length, <- L2. apply nth_error_Some. congruence. }
      destruct (nth_error (level_dims t) l) as [d|] eqn:Ed; [|apply nth_error_None in Ed; lia].
      exists d. unfold tlevels. now apply nth_error_combine. }
    rewrite (firstn_S_snoc _ _ _ Etl), (firstn_S_snoc _ _ _ Hx), map_app.
    rewrite locate_app by (rewrite map_length, !firstn_length;
                           pose proof (nth_error_Some idx l); pose proof (nth_error_Some (tlevels t) l);
                           assert (l < List.length idx)%nat by (apply nth_error_Some; congruence);
                           assert (l < List.length (tlevels t))%nat by (apply nth_error_Some; congruence); lia).
    rewrite map_upd_notin.
    2:{ intros Hkin. apply Hk. now apply Hpre. }
    rewrite Ep. cbn [map locate]. rewrite upd_same, Eq. reflexivity.
  - (* a layer bound earlier *)
    destruct HxB as [E|HxB]; [congruence|].
    destruct (L e He id n idx ms Hin0 l x Hm Hx HxB) as (Hinc & t & q & Ht & Eq).
    split; [intros y Hy; right; now apply Hinc|].
    exists t, q. split; [exact Ht|]. rewrite map_upd_notin; [exact Eq|].
    intros Hkin. apply Hk. now apply Hinc.
Qed.


(** * a live leaf whose indexes are all bound is located *)

Lemma locate_prefix rho B id n idx ms t :
  In (id, (n, idx, ms)) (k_leaves cfg) -> lookup n (k_ins cfg) = Some t -> RB rho B ->
  (forall l x, nth_error ms l = Some MCompressed -> nth_error idx l = Some x -> In x B ->
     exists q, locate (firstn (S l) (tlevels t)) (map rho (firstn (S l) idx)) 0 = Some q) ->
  forall m, (m <= List.length idx)%nat -> incl (firstn m idx) B ->
    exists q, locate (firstn m (tlevels t)) (map rho (firstn m idx)) 0 = Some q.
Proof.
  intros Hreg Ht R HL.
  destruct (leaf_registered cfg LOK _ _ _ _ Hreg) as (Hl & t0 & Ht0 & W & Ll & Ems).
  rewrite Ht in Ht0. inversion Ht0; subst t0. clear Ht0.
  destruct (leaf_extra _ _ _ _ Hreg) as (_ & t1 & Ht1 & Ed). rewrite Ht in Ht1. inversion Ht1; subst t1. clear Ht1.
  pose proof (wf_tensorb_shape _ _ W) as (_ & L2 & _).
  assert (List.length (level_dims t) = List.length (ordering t)) as Lld by (unfold level_dims; apply map_length).
  induction m as [|m IH]; intros Hm Hinc; [exists 0; reflexivity|].
  destruct (nth_error idx m) as [x|] eqn:Ex; [|apply nth_error_None in Ex; lia].
  assert (In x B) as HxB by (apply Hinc; rewrite (firstn_S_snoc _ _ _ Ex); apply in_app_iff; right; now left).
  destruct (nth_error (levels t) m) as [lvl|] eqn:Elv; [|apply nth_error_None in Elv; lia].
  destruct lvl as [|pos crd].
  - (* dense: in range *)
    destruct IH as (p & Ep); [lia|intros y Hy; apply Hinc; rewrite (firstn_S_snoc _ _ _ Ex); apply in_app_iff; now left|].
    assert (nth_error (level_dims t) m = Some (k_sizes cfg x)) as Edm.
    { rewrite Ed. rewrite nth_error_map, Ex. reflexivity. }
    pose proof (nth_error_combine _ _ _ _ _ Elv Edm) as Etl. fold (tlevels t) in Etl.
    rewrite (firstn_S_snoc _ _ _ Etl), (firstn_S_snoc _ _ _ Ex), map_app.
    rewrite locate_app.
    2:{ rewrite map_length, !firstn_length.
        assert (m < List.length (tlevels t))%nat by (apply nth_error_Some; congruence). lia. }
    rewrite Ep. cbn [map locate]. specialize (R x HxB).
    destruct ((0 <=? rho x) && (rho x <? k_sizes cfg x)) eqn:Er; [eauto|lia].
  - (* compressed: located by the invariant *)
    apply (HL m x); auto. rewrite Ems, nth_error_map, Elv. reflexivity.
Qed.

Lemma live_leaf_present dead rho B e id n idx ms :
  LP dead rho B (GTerminal e) -> RB rho B -> incl (iexpr_leaves e) (k_leaves cfg) ->
  In (id, (n, idx, ms)) (iexpr_leaves (exhaust_list e dead)) -> incl idx B ->
  present cfg rho id = true.
Proof.
  intros L R Hi Hin Hc.
  assert (In (id, (n, idx, ms)) (k_leaves cfg)) as Hreg by (apply Hi; now apply (exhaust_list_leaves e dead)).
  destruct (leaf_registered cfg LOK _ _ _ _ Hreg) as (Hl & t & Ht & W & Ll & Ems).
  destruct (locate_prefix rho B id n idx ms t Hreg Ht R) with (m := List.length idx) as (q & Eq).
  - intros l x Hm Hx HxB. destruct (L e (or_introl eq_refl) id n idx ms Hin l x Hm Hx HxB) as (_ & t' & q & Ht' & Eq).
    rewrite Ht in Ht'. inversion Ht'; subst. eauto.
  - lia.
  - now rewrite firstn_all.
  - rewrite firstn_all in Eq. rewrite firstn_all2 in Eq.
    + unfold present, leaf_value, input_of. now rewrite Hl, Ht, Eq.
    + pose proof (wf_tensorb_shape _ _ W) as (_ & L2 & _).
      unfold tlevels, level_dims. rewrite combine_length, map_length. lia.
Qed.

(** a terminal that raises the flags has support *)
Lemma terminal_flag_support dead rho B e :
  LP dead rho B (GTerminal e) -> RB rho B -> incl (iexpr_leaves e) (k_leaves cfg) ->
  closedb B (GTerminal e) = true ->
  is_int0 (exhaust_list e dead) = false -> isupp (present cfg rho) e = true.
Proof.
  intros L R Hi Hc N. apply (exhaust_list_isupp _ dead e N). apply all_present_isupp.
  intros [id [[n idx] ms]] Hin. cbn [fst].
  apply (live_leaf_present dead rho B e id n idx ms L R Hi Hin).
  cbn [closedb] in Hc. rewrite forallb_forall in Hc.
  assert (In (id, (n, idx, ms)) (iexpr_leaves e)) as Hin0 by (now apply (exhaust_list_leaves e dead)).
  specialize (Hc _ Hin0). cbn [fst snd] in Hc. rewrite forallb_forall in Hc.
  intros y Hy. apply smem_In. now apply Hc.
Qed.

(** * flags imply support *)

Lemma visits_in k out next dead rho v dead_v :
  In (v, dead_v) (fst (visits cfg k out next dead rho)) ->
  0 <= v < k_sizes cfg k
  /\ exists ctx, gctx dead k next = Some ctx /\ dead_v = dead ++ absent_ids cfg rho v (sparse_leaves ctx).
Proof.
  unfold visits. destruct (gctx dead k next) as [ctx|]; [|intros []]. cbn [fst]. intros H.
  apply in_flat_map in H. destruct H as (v' & Hv' & H). apply In_zrange in Hv'.
  destruct (negb _ || _); [|destruct H]. destruct H as [E|[]]. inversion E; subst. eauto.
Qed.

Lemma bflag_fold {A} (f : A -> bres) l :
  bflag (fold_right (fun x acc => bres_app (f x) acc) bres_nil l) = existsb (fun x => bflag (f x)) l.
Proof.
  induction l as [|x l IH]; [reflexivity|]. cbn [fold_right existsb]. now rewrite bflag_app, IH.
Qed.

Lemma Gb_flag_support bidx (g : graph Z) : forall B dead rho,
  no_outb g = true -> scopedb B g = true -> closedb B g = true ->
  incl (graph_leaves g) (k_leaves cfg) -> LP dead rho B g -> RB rho B ->
  bflag (Gb cfg bidx g dead rho) = true -> gsupp cfg g rho = true.
Proof.
  induction g using (graph_ind' Z); intros B dead rho Hn Hs Hc Hi L R Hf.
  - cbn [Gb gsupp] in *. destruct (eval_term cfg rho (exhaust_list e dead)) as [v o].
    unfold bflag in Hf. cbn [fst snd] in Hf. apply negb_true_iff in Hf.
    now apply (terminal_flag_support dead rho B).
  - destruct o as [l|]; [discriminate|]. cbn [no_outb gsupp graph_leaves closedb] in *.
    cbn [Gb] in Hf. destruct (visits cfg k None g dead rho) as [vs ov] eqn:Ev.
    rewrite bflag_app in Hf. unfold bflag at 2 in Hf. cbn [fst snd] in Hf. rewrite orb_false_r in Hf.
    rewrite bflag_fold in Hf. apply existsb_exists in Hf. destruct Hf as ([v dead_v] & Hin & Hfv).
    cbn [fst snd] in Hfv.
    assert (In (v, dead_v) (fst (visits cfg k None g dead rho))) as Hin' by (now rewrite Ev).
    destruct (visits_in _ _ _ _ _ _ _ Hin') as (Hv & ctx & Ec & ->).
    cbn [scopedb] in Hs. apply andb_true_iff in Hs. destruct Hs as [Hs H3].
    apply andb_true_iff in Hs. destruct Hs as [H1 H2]. apply negb_true_iff in H1. apply smem_false in H1.
    apply existsb_exists. exists v. split; [apply In_zrange; exact Hv|].
    apply (IHg (k :: B) (dead ++ absent_ids cfg rho v (sparse_leaves ctx)) (upd rho k v) Hn H3 Hc Hi);
      [|now apply RB_step|exact Hfv].
    now apply (LP_step dead rho B k v g ctx).
  - rewrite no_outb_sum in Hn. rewrite scopedb_sum in Hs. rewrite closedb_sum in Hc.
    rewrite forallb_forall in Hn, Hs, Hc. rewrite Gb_sum_unfold, bflag_fold in Hf. rewrite gsupp_sum.
    apply existsb_exists in Hf. destruct Hf as (t & Ht & Hft). apply existsb_exists. exists t. split; [exact Ht|].
    rewrite Forall_forall in H. apply (H t Ht B dead rho); auto.
    + intros x Hx. apply Hi. rewrite graph_leaves_sum. apply in_flat_map. eauto.
    + now apply (LP_sub dead rho B ts).
Qed.


Definition in_range (cs : list Z) (ks : list string) : Prop :=
  Forall2 (fun c x => 0 <= c < k_sizes cfg x) cs ks.

Lemma Ga_flag_support (g : graph Z) : forall l B dead rho,
  chainb cfg g l = true -> scopedb B g = true -> closedb B g = true ->
  incl (graph_leaves g) (k_leaves cfg) -> LP dead rho B g -> RB rho B ->
  aflag (Ga cfg g l dead rho) = true ->
  exists rest, in_range rest (skipn l (k_oidx cfg))
               /\ gsupp cfg g (bind_from rho (skipn l (k_oidx cfg)) rest) = true.
Proof.
  assert (forall (g : graph Z) l B dead rho,
            Nat.eqb l (List.length (k_oidx cfg)) && Nat.eqb l (order cfg) && no_outb g = true ->
            scopedb B g = true -> closedb B g = true -> incl (graph_leaves g) (k_leaves cfg) ->
            LP dead rho B g -> RB rho B -> aflag (enter_bucket cfg l g dead rho) = true ->
            exists rest, in_range rest (skipn l (k_oidx cfg))
                         /\ gsupp cfg g (bind_from rho (skipn l (k_oidx cfg)) rest) = true) as EB.
  { intros g0 l B dead rho Hc Hs Hcl Hi L R Hf. apply andb_true_iff in Hc. destruct Hc as [Hc Hn].
    apply andb_true_iff in Hc. destruct Hc as [H1 _]. apply Nat.eqb_eq in H1. subst l.
    rewrite skipn_all in *. exists []. split; [constructor|]. cbn [bind_from].
    unfold enter_bucket in Hf. rewrite skipn_all in Hf.
    pose proof (Gb_flag_support [] g0 B dead rho Hn Hs Hcl Hi L R) as S.
    destruct (Gb cfg [] g0 dead rho) as [[cs f] o]. unfold aflag, bflag in *. cbn [fst snd] in *. auto. }
  induction g using (graph_ind' Z); intros l B dead rho Hc Hs Hcl Hi L R Hf.
  - cbn [chainb] in Hc. pose proof Hc as Hc0. apply andb_true_iff in Hc. destruct Hc as [Hc _].
    apply andb_true_iff in Hc. destruct Hc as [H1 H2]. apply Nat.eqb_eq in H1, H2. subst l.
    rewrite skipn_all. exists []. split; [constructor|]. cbn [bind_from gsupp].
    cbn [Ga] in Hf. unfold order in H2. rewrite <- H2, Nat.eqb_refl in Hf.
    destruct (eval_term cfg rho (exhaust_list e dead)) as [v o]. unfold aflag in Hf. cbn [fst snd] in Hf.
    apply negb_true_iff in Hf. now apply (terminal_flag_support dead rho B).
  - destruct o as [l'|]; [|exact (EB _ l B dead rho Hc Hs Hcl Hi L R Hf)].
    cbn [chainb] in Hc. apply andb_true_iff in Hc. destruct Hc as [Hc Hc4].
    apply andb_true_iff in Hc. destruct Hc as [Hc Hc3]. apply andb_true_iff in Hc. destruct Hc as [Hc1 Hc2].
    apply Nat.eqb_eq in Hc1. subst l'. apply Nat.ltb_lt in Hc2. apply String.eqb_eq in Hc3.
    rewrite (skipn_nth cfg LOK _ _ EmptyString Hc2). rewrite <- Hc3. clear Hc3.
    cbn [Ga] in Hf. rewrite Nat.eqb_refl in Hf.
    destruct (visits cfg k (Some l) g dead rho) as [vs ov] eqn:Ev. unfold aflag in Hf. cbn [fst snd] in Hf.
    apply existsb_exists in Hf. destruct Hf as (c0 & Hc0 & Hfc). apply in_map_iff in Hc0.
    destruct Hc0 as ([v dead_v] & <- & Hin). cbn [fst snd] in Hfc.
    assert (In (v, dead_v) (fst (visits cfg k (Some l) g dead rho))) as Hin' by (now rewrite Ev).
    destruct (visits_in _ _ _ _ _ _ _ Hin') as (Hv & ctx & Ec & ->).
    cbn [scopedb closedb graph_leaves] in *. apply andb_true_iff in Hs. destruct Hs as [Hs H3].
    apply andb_true_iff in Hs. destruct Hs as [H1 H2]. apply negb_true_iff in H1. apply smem_false in H1.
    destruct (IHg (S l) (k :: B) (dead ++ absent_ids cfg rho v (sparse_leaves ctx)) (upd rho k v) Hc4 H3 Hcl Hi)
      as (rest' & Hr & Hsupp); [now apply (LP_step dead rho B k v g ctx)|now apply RB_step|exact Hfc|].
    exists (v :: rest'). split; [constructor; assumption|]. cbn [bind_from gsupp]. exact Hsupp.
  - exact (EB _ l B dead rho Hc Hs Hcl Hi L R Hf).
Qed.

(** * stored nodes of the output trie *)

Lemma enter_bucket_leaf l (g : graph Z) dead rho :
  l = List.length (k_oidx cfg) -> kids_of (atrie (enter_bucket cfg l g dead rho)) = [].
Proof.
  intros ->. unfold enter_bucket. rewrite skipn_all.
  destruct (Gb cfg [] g dead rho) as [[cs f] o]. reflexivity.
Qed.

Lemma Ga_stored_support (g : graph Z) : forall l B dead rho p sub,
  chainb cfg g l = true -> scopedb B g = true -> closedb B g = true ->
  incl (graph_leaves g) (k_leaves cfg) -> LP dead rho B g -> RB rho B ->
  p <> [] -> tnode_at p (atrie (Ga cfg g l dead rho)) = Some sub ->
  nth_error (k_omodes cfg) (l + List.length p - 1) = Some MCompressed ->
  exists rest, in_range (p ++ rest) (skipn l (k_oidx cfg))
               /\ gsupp cfg g (bind_from rho (skipn l (k_oidx cfg)) (p ++ rest)) = true.
Proof.
  induction g using (graph_ind' Z); intros l B dead rho p sub Hc Hs Hcl Hi L R Hp Hn Hm.
  - exfalso. destruct p as [|c p]; [congruence|]. cbn [tnode_at] in Hn.
    cbn [Ga] in Hn. destruct (Nat.eqb l (List.length (k_omodes cfg)));
      [destruct (eval_term cfg rho (exhaust_list e dead))|]; discriminate.
  - destruct o as [l'|].
    + cbn [chainb] in Hc. apply andb_true_iff in Hc. destruct Hc as [Hc Hc4].
      apply andb_true_iff in Hc. destruct Hc as [Hc Hc3]. apply andb_true_iff in Hc. destruct Hc as [Hc1 Hc2].
      apply Nat.eqb_eq in Hc1. subst l'. apply Nat.ltb_lt in Hc2. apply String.eqb_eq in Hc3.
      rewrite (skipn_nth cfg LOK _ _ EmptyString Hc2). rewrite <- Hc3. clear Hc3.
      destruct p as [|v p']; [congruence|]. cbn [tnode_at] in Hn.
      cbn [scopedb closedb graph_leaves] in *. apply andb_true_iff in Hs. destruct Hs as [Hs H3].
      apply andb_true_iff in Hs. destruct Hs as [H1 H2]. apply negb_true_iff in H1. apply smem_false in H1.
      cbn [Ga] in Hn. rewrite Nat.eqb_refl in Hn. unfold visits in Hn.
      destruct (gctx_defined cfg LOK dead k g Hi) as (ctx & Ec). rewrite Ec in Hn.
      unfold atrie in Hn. cbn [fst snd kids_of] in Hn.
      set (cnd := fun v0 => negb (is_sparse ctx && out_sparse cfg (Some l))
                   || has_sparse_leaf (gctx (dead ++ absent_ids cfg rho v0 (sparse_leaves ctx)) k g)) in *.
      set (dv := fun v0 => dead ++ absent_ids cfg rho v0 (sparse_leaves ctx)) in *.
      set (RR := fun vd : Z * list string => Ga cfg g (S l) (snd vd) (upd rho k (fst vd))) in *.
      set (comp := match nth_error (k_omodes cfg) l with Some MCompressed => true | _ => false end) in *.
      match type of Hn with match find _ (map _ ?K) with _ => _ end = _ =>
        replace K with (let kids := map (fun vd => (fst vd, RR vd))
                                        (flat_map (fun v0 => if cnd v0 then [(v0, dv v0)] else []) (zrange (k_sizes cfg k))) in
                        if comp then filter (fun c0 : Z * ares => snd (fst (snd c0))) kids else kids) in Hn
          by (unfold comp; cbn zeta; destruct (nth_error (k_omodes cfg) l) as [[|]|]; reflexivity)
      end.
      rewrite (find_kept _ cnd dv RR comp v (NoDup_zrange _)), (existsb_zrange cfg LOK) in Hn.
      destruct ((0 <=? v) && (v <? k_sizes cfg k)) eqn:Ev; [|discriminate].
      destruct (cnd v) eqn:Ecv; [|discriminate]. cbn [andb] in Hn.
      destruct (negb comp || aflag (RR (v, dv v))) eqn:Ek; [|discriminate]. cbn [snd] in Hn.
      assert (LP (dv v) (upd rho k v) (k :: B) g) as L' by (now apply (LP_step dead rho B k v g ctx)).
      assert (RB (upd rho k v) (k :: B)) as R' by (apply RB_step; [exact R|lia]).
      destruct p' as [|c p''].
      * (* the node of this very level: kept because its flag was raised *)
        cbn [List.length] in Hm. replace (l + 1 - 1)%nat with l in Hm by lia.
        assert (comp = true) as Ecomp by (unfold comp; now rewrite Hm).
        rewrite Ecomp in Ek. cbn [negb orb] in Ek.
        destruct (Ga_flag_support g (S l) (k :: B) (dv v) (upd rho k v) Hc4 H3 Hcl Hi L' R' Ek) as (rest & Hr & Hsupp).
        exists rest. cbn [app]. split; [constructor; [lia|exact Hr]|]. cbn [bind_from gsupp]. exact Hsupp.
      * destruct (IHg (S l) (k :: B) (dv v) (upd rho k v) (c :: p'') sub Hc4 H3 Hcl Hi L' R') as (rest & Hr & Hsupp);
          [discriminate|exact Hn| |].
        { cbn [List.length] in *. replace (S l + S (List.length p'') - 1)%nat with (l + S (S (List.length p'')) - 1)%nat by lia.
          exact Hm. }
        exists rest. split; [cbn [app]; constructor; [lia|exact Hr]|]. cbn [app bind_from gsupp]. exact Hsupp.
    + exfalso. cbn [chainb] in Hc. apply andb_true_iff in Hc. destruct Hc as [Hc _].
      apply andb_true_iff in Hc. destruct Hc as [H1 _]. apply Nat.eqb_eq in H1.
      destruct p as [|c p]; [congruence|]. cbn [tnode_at Ga] in Hn. now rewrite (enter_bucket_leaf _ _ _ _ H1) in Hn.
  - exfalso. cbn [chainb] in Hc. apply andb_true_iff in Hc. destruct Hc as [Hc _].
    apply andb_true_iff in Hc. destruct Hc as [H1 _]. apply Nat.eqb_eq in H1.
    destruct p as [|c p]; [congruence|]. cbn [tnode_at Ga] in Hn. now rewrite (enter_bucket_leaf _ _ _ _ H1) in Hn.
Qed.


(** * the same with buckets *)

Lemma leaf_value_veq rho rho' id : veq rho rho' -> leaf_value cfg rho id = leaf_value cfg rho' id.
Proof.
  intros V. unfold leaf_value. destruct (input_of cfg id) as [[t idx]|]; [|reflexivity].
  now rewrite (map_ext rho rho' V).
Qed.

Lemma isupp_ext P Q (e : iexpr Z) : (forall i, P i = Q i) -> isupp P e = isupp Q e.
Proof. intros H. induction e; cbn [isupp]; try reflexivity; [apply H| |]; now rewrite IHe1, IHe2. Qed.

Lemma gsupp_veq (g : graph Z) : forall rho rho', veq rho rho' -> gsupp cfg g rho = gsupp cfg g rho'.
Proof.
  induction g using (graph_ind' Z); intros rho rho' V.
  - cbn [gsupp]. apply isupp_ext. intros i. unfold present. now rewrite (leaf_value_veq rho rho' i V).
  - destruct o; cbn [gsupp]; [now apply IHg|].
    induction (zrange (k_sizes cfg k)) as [|v L IHL]; [reflexivity|]. cbn [existsb].
    rewrite IHL. f_equal. apply IHg. now apply upd_veq.
  - rewrite !gsupp_sum. induction H as [|t ts Ht H IH]; [reflexivity|]. cbn [existsb]. now rewrite (Ht rho rho' V), IH.
Qed.

Definition overt (rho tau : val) (U : list string) : val := fun x => if smem x U then tau x else rho x.

Lemma Gb_flag_support_gen bidx bidx' (g : graph Z) : forall U B dead rho,
  bucket_okb bidx U g = true -> incl U bidx -> scopedb B g = true -> closedb B g = true ->
  incl (graph_leaves g) (k_leaves cfg) -> LP dead rho B g -> RB rho B ->
  bflag (Gb cfg bidx' g dead rho) = true ->
  exists tau, (forall x, In x U -> 0 <= tau x < k_sizes cfg x) /\ gsupp cfg g (overt rho tau U) = true.
Proof.
  induction g using (graph_ind' Z); intros U B dead rho Hb HU Hs Hc Hi L R Hf.
  - cbn [bucket_okb] in Hb. destruct U; [|discriminate]. exists (fun _ => 0). split; [intros x []|].
    cbn [Gb gsupp] in *. destruct (eval_term cfg rho (exhaust_list e dead)) as [v o].
    unfold bflag in Hf. cbn [fst snd] in Hf. apply negb_true_iff in Hf.
    rewrite (isupp_ext _ (present cfg rho)); [now apply (terminal_flag_support dead rho B)|].
    intros i. unfold present. apply f_equal with (f := fun o => match o with Some _ => true | None => false end).
    apply leaf_value_veq. intros x. reflexivity.
  - cbn [graph_leaves closedb] in *. cbn [Gb] in Hf.
    destruct (visits cfg k o g dead rho) as [vs ov] eqn:Ev.
    rewrite bflag_app in Hf. unfold bflag at 2 in Hf. cbn [fst snd] in Hf. rewrite orb_false_r in Hf.
    rewrite bflag_fold in Hf. apply existsb_exists in Hf. destruct Hf as ([v dead_v] & Hin & Hfv).
    cbn [fst snd] in Hfv.
    assert (In (v, dead_v) (fst (visits cfg k o g dead rho))) as Hin' by (now rewrite Ev).
    destruct (visits_in _ _ _ _ _ _ _ Hin') as (Hv & ctx & Ec & ->).
    cbn [scopedb] in Hs. apply andb_true_iff in Hs. destruct Hs as [Hs H3].
    apply andb_true_iff in Hs. destruct Hs as [H1 H2]. apply negb_true_iff in H1. apply smem_false in H1.
    assert (LP (dead ++ absent_ids cfg rho v (sparse_leaves ctx)) (upd rho k v) (k :: B) g) as L'
      by (now apply (LP_step dead rho B k v g ctx)).
    assert (RB (upd rho k v) (k :: B)) as R' by (now apply RB_step).
    destruct o as [lo|]; cbn [bucket_okb gsupp] in *.
    + apply andb_true_iff in Hb. destruct Hb as [HkU Hb]. apply smem_In in HkU.
      destruct (IHg (filter (fun x => negb (String.eqb x k)) U) (k :: B)
                    (dead ++ absent_ids cfg rho v (sparse_leaves ctx)) (upd rho k v) Hb) as (tau & Ht & Hsupp); auto.
      { intros x Hx. apply HU. apply filter_In in Hx. tauto. }
      exists (upd tau k v). split.
      * intros x Hx. destruct (String.eqb_spec x k) as [->|N]; [now rewrite upd_same|].
        rewrite upd_other by exact N. apply Ht. apply filter_In. split; [exact Hx|].
        apply negb_true_iff. now apply String.eqb_neq.
      * rewrite <- Hsupp. apply gsupp_veq. intros x. unfold overt.
        destruct (String.eqb_spec x k) as [->|N].
        -- apply smem_In in HkU. rewrite HkU, (smem_filter_eq k U). now rewrite !upd_same.
        -- rewrite (smem_filter_ne x k U N). now rewrite !(upd_other _ k v x N).
    + apply andb_true_iff in Hb. destruct Hb as [Hkb Hb]. apply negb_true_iff in Hkb. apply smem_false in Hkb.
      destruct (IHg U (k :: B) (dead ++ absent_ids cfg rho v (sparse_leaves ctx)) (upd rho k v) Hb) as (tau & Ht & Hsupp); auto.
      exists tau. split; [exact Ht|]. apply existsb_exists. exists v. split; [now apply In_zrange|].
      rewrite <- Hsupp. apply gsupp_veq. intros x. unfold overt, upd.
      destruct (String.eqb_spec x k) as [->|N]; [|reflexivity].
      assert (smem k U = false) as ->; [|reflexivity].
      apply smem_false. intros HkU. apply Hkb. now apply HU.
  - rewrite bucket_okb_sum in Hb. rewrite scopedb_sum in Hs. rewrite closedb_sum in Hc.
    rewrite forallb_forall in Hb, Hs, Hc. rewrite Gb_sum_unfold, bflag_fold in Hf.
    apply existsb_exists in Hf. destruct Hf as (t & Ht & Hft). rewrite Forall_forall in H.
    destruct (H t Ht U B dead rho) as (tau & Htau & Hsupp); auto.
    + intros x Hx. apply Hi. rewrite graph_leaves_sum. apply in_flat_map. eauto.
    + now apply (LP_sub dead rho B ts).
    + exists tau. split; [exact Htau|]. rewrite gsupp_sum. apply existsb_exists. eauto.
Qed.

Lemma bind_from_map_tau bidx (tau : val) : NoDup bidx ->
  forall rho, veq (bind_from rho bidx (map tau bidx)) (overt rho tau bidx).
Proof.
  intros ND rho x. rewrite (bind_from_char cfg LOK bidx) by (now rewrite map_length). unfold overt.
  destruct (smem x bidx) eqn:E; [|reflexivity]. apply smem_In in E.
  pose proof (map_bind_from cfg LOK bidx (map tau bidx) ND ltac:(now rewrite map_length)) as M.
  exact (proj1 map_ext_in_iff M x E).
Qed.

Hypothesis CFG : cfg_ok cfg.

Lemma enter_bucket_flag_support l (g : graph Z) B dead rho :
  bucket_entryb cfg g l = true -> NoDup (skipn l (k_oidx cfg)) ->
  scopedb B g = true -> closedb B g = true -> incl (graph_leaves g) (k_leaves cfg) ->
  LP dead rho B g -> RB rho B -> aflag (enter_bucket cfg l g dead rho) = true ->
  exists rest, in_range rest (skipn l (k_oidx cfg))
               /\ gsupp cfg g (bind_from rho (skipn l (k_oidx cfg)) rest) = true.
Proof.
  intros Hb ND Hs Hcl Hi L R Hf. unfold bucket_entryb in Hb. apply andb_true_iff in Hb. destruct Hb as [_ Hb].
  unfold enter_bucket in Hf.
  pose proof (Gb_flag_support_gen (skipn l (k_oidx cfg)) (skipn l (k_oidx cfg)) g _ B dead rho Hb (incl_refl _) Hs Hcl Hi L R) as S.
  destruct (Gb cfg (skipn l (k_oidx cfg)) g dead rho) as [[cs f] o]. unfold aflag, bflag in *. cbn [fst snd] in *.
  destruct (S Hf) as (tau & Ht & Hsupp). exists (map tau (skipn l (k_oidx cfg))). split.
  - unfold in_range. clear -Ht. induction (skipn l (k_oidx cfg)) as [|x xs IH]; cbn [map]; constructor.
    + apply Ht. now left.
    + apply IH. intros y Hy. apply Ht. now right.
  - rewrite <- Hsupp. apply gsupp_veq. now apply bind_from_map_tau.
Qed.

Lemma Ga_flag_support_gen (g : graph Z) : forall l B dead rho,
  wellb cfg g l = true -> NoDup (skipn l (k_oidx cfg)) ->
  scopedb B g = true -> closedb B g = true ->
  incl (graph_leaves g) (k_leaves cfg) -> LP dead rho B g -> RB rho B ->
  aflag (Ga cfg g l dead rho) = true ->
  exists rest, in_range rest (skipn l (k_oidx cfg))
               /\ gsupp cfg g (bind_from rho (skipn l (k_oidx cfg)) rest) = true.
Proof.
  induction g using (graph_ind' Z); intros l B dead rho Hc ND Hs Hcl Hi L R Hf.
  - cbn [wellb] in Hc. apply andb_true_iff in Hc. destruct Hc as [H1 H2]. apply Nat.eqb_eq in H1, H2. subst l.
    rewrite skipn_all. exists []. split; [constructor|]. cbn [bind_from gsupp].
    cbn [Ga] in Hf. unfold order in H2. rewrite <- H2, Nat.eqb_refl in Hf.
    destruct (eval_term cfg rho (exhaust_list e dead)) as [v o]. unfold aflag in Hf. cbn [fst snd] in Hf.
    apply negb_true_iff in Hf. now apply (terminal_flag_support dead rho B).
  - destruct o as [l'|]; [|exact (enter_bucket_flag_support l _ B dead rho Hc ND Hs Hcl Hi L R Hf)].
    cbn [wellb] in Hc. cbn [Ga] in Hf. destruct (Nat.eqb l' l) eqn:El; [|exact (enter_bucket_flag_support l _ B dead rho Hc ND Hs Hcl Hi L R Hf)].
    apply Nat.eqb_eq in El. subst l'.
    apply andb_true_iff in Hc. destruct Hc as [Hc Hc4]. apply andb_true_iff in Hc. destruct Hc as [Hc2 Hc3].
    apply Nat.ltb_lt in Hc2. apply String.eqb_eq in Hc3.
    rewrite (skipn_nth cfg LOK _ _ EmptyString Hc2) in *. rewrite <- Hc3 in *. clear Hc3.
    inversion ND as [|? ? Hkn ND']; subst.
    destruct (visits cfg k (Some l) g dead rho) as [vs ov] eqn:Ev. unfold aflag in Hf. cbn [fst snd] in Hf.
    apply existsb_exists in Hf. destruct Hf as (c0 & Hc0 & Hfc). apply in_map_iff in Hc0.
    destruct Hc0 as ([v dead_v] & <- & Hin). cbn [fst snd] in Hfc.
    assert (In (v, dead_v) (fst (visits cfg k (Some l) g dead rho))) as Hin' by (now rewrite Ev).
    destruct (visits_in _ _ _ _ _ _ _ Hin') as (Hv & ctx & Ec & ->).
    cbn [scopedb closedb graph_leaves] in *. apply andb_true_iff in Hs. destruct Hs as [Hs H3].
    apply andb_true_iff in Hs. destruct Hs as [H1 H2]. apply negb_true_iff in H1. apply smem_false in H1.
    destruct (IHg (S l) (k :: B) (dead ++ absent_ids cfg rho v (sparse_leaves ctx)) (upd rho k v) Hc4 ND' H3 Hcl Hi)
      as (rest' & Hr & Hsupp); [now apply (LP_step dead rho B k v g ctx)|now apply RB_step|exact Hfc|].
    exists (v :: rest'). split; [constructor; assumption|]. cbn [bind_from gsupp]. exact Hsupp.
  - cbn [wellb] in Hc. exact (enter_bucket_flag_support l _ B dead rho Hc ND Hs Hcl Hi L R Hf).
Qed.

Lemma nth_error_skipn' {A} (L : list A) : forall n m, nth_error (skipn n L) m = nth_error L (n + m).
Proof.
  induction L as [|a L IH]; intros n m; [destruct n, m; reflexivity|].
  destruct n as [|n]; [reflexivity|]. cbn [skipn plus nth_error]. apply IH.
Qed.

Lemma dense_not_compressed l (p : list Z) :
  forallb mode_is_dense (skipn l (k_omodes cfg)) = true -> p <> [] ->
  nth_error (k_omodes cfg) (l + List.length p - 1) = Some MCompressed -> False.
Proof.
  intros Hd Hp Hm. destruct p as [|c0 p]; [congruence|]. cbn [List.length] in Hm.
  replace (l + S (List.length p) - 1)%nat with (l + List.length p)%nat in Hm by lia.
  rewrite <- nth_error_skipn' in Hm. rewrite forallb_forall in Hd.
  apply nth_error_In in Hm. specialize (Hd _ Hm). discriminate.
Qed.

Lemma Ga_stored_support_gen (g : graph Z) : forall l B dead rho p sub,
  wellb cfg g l = true -> NoDup (skipn l (k_oidx cfg)) ->
  scopedb B g = true -> closedb B g = true ->
  incl (graph_leaves g) (k_leaves cfg) -> LP dead rho B g -> RB rho B ->
  p <> [] -> tnode_at p (atrie (Ga cfg g l dead rho)) = Some sub ->
  nth_error (k_omodes cfg) (l + List.length p - 1) = Some MCompressed ->
  exists rest, in_range (p ++ rest) (skipn l (k_oidx cfg))
               /\ gsupp cfg g (bind_from rho (skipn l (k_oidx cfg)) (p ++ rest)) = true.
Proof.
  assert (forall (g : graph Z) l (p : list Z), bucket_entryb cfg g l = true -> p <> [] ->
            nth_error (k_omodes cfg) (l + List.length p - 1) = Some MCompressed -> False) as BE.
  { intros g0 l p Hb. unfold bucket_entryb in Hb. apply andb_true_iff in Hb. destruct Hb as [Hd _].
    now apply dense_not_compressed. }
  induction g using (graph_ind' Z); intros l B dead rho p sub Hc ND Hs Hcl Hi L R Hp Hn Hm.
  - exfalso. destruct p as [|c p]; [congruence|]. cbn [tnode_at] in Hn.
    cbn [Ga] in Hn. destruct (Nat.eqb l (List.length (k_omodes cfg)));
      [destruct (eval_term cfg rho (exhaust_list e dead))|]; discriminate.
  - destruct o as [l'|]; [|exfalso; exact (BE _ l p Hc Hp Hm)].
    cbn [wellb] in Hc. cbn [Ga] in Hn. destruct (Nat.eqb l' l) eqn:El; [|exfalso; exact (BE _ l p Hc Hp Hm)].
    apply Nat.eqb_eq in El. subst l'.
    apply andb_true_iff in Hc. destruct Hc as [Hc Hc4]. apply andb_true_iff in Hc. destruct Hc as [Hc2 Hc3].
    apply Nat.ltb_lt in Hc2. apply String.eqb_eq in Hc3.
    rewrite (skipn_nth cfg LOK _ _ EmptyString Hc2) in *. rewrite <- Hc3 in *. clear Hc3.
    inversion ND as [|? ? Hkn ND']; subst.
    destruct p as [|v p']; [congruence|]. cbn [tnode_at] in Hn.
    cbn [scopedb closedb graph_leaves] in *. apply andb_true_iff in Hs. destruct Hs as [Hs H3].
    apply andb_true_iff in Hs. destruct Hs as [H1 H2]. apply negb_true_iff in H1. apply smem_false in H1.
    unfold visits in Hn.
    destruct (gctx_defined cfg LOK dead k g Hi) as (ctx & Ec). rewrite Ec in Hn.
    unfold atrie in Hn. cbn [fst snd kids_of] in Hn.
    set (cnd := fun v0 => negb (is_sparse ctx && out_sparse cfg (Some l))
                 || has_sparse_leaf (gctx (dead ++ absent_ids cfg rho v0 (sparse_leaves ctx)) k g)) in *.
    set (dv := fun v0 => dead ++ absent_ids cfg rho v0 (sparse_leaves ctx)) in *.
    set (RR := fun vd : Z * list string => Ga cfg g (S l) (snd vd) (upd rho k (fst vd))) in *.
    set (comp := match nth_error (k_omodes cfg) l with Some MCompressed => true | _ => false end) in *.
    match type of Hn with match find _ (map _ ?K) with _ => _ end = _ =>
      replace K with (let kids := map (fun vd => (fst vd, RR vd))
                                      (flat_map (fun v0 => if cnd v0 then [(v0, dv v0)] else []) (zrange (k_sizes cfg k))) in
                      if comp then filter (fun c0 : Z * ares => snd (fst (snd c0))) kids else kids) in Hn
        by (unfold comp; cbn zeta; destruct (nth_error (k_omodes cfg) l) as [[|]|]; reflexivity)
    end.
    rewrite (find_kept _ cnd dv RR comp v (NoDup_zrange _)), (existsb_zrange cfg LOK) in Hn.
    destruct ((0 <=? v) && (v <? k_sizes cfg k)) eqn:Ev; [|discriminate].
    destruct (cnd v) eqn:Ecv; [|discriminate]. cbn [andb] in Hn.
    destruct (negb comp || aflag (RR (v, dv v))) eqn:Ek; [|discriminate]. cbn [snd] in Hn.
    assert (LP (dv v) (upd rho k v) (k :: B) g) as L' by (now apply (LP_step dead rho B k v g ctx)).
    assert (RB (upd rho k v) (k :: B)) as R' by (apply RB_step; [exact R|lia]).
    destruct p' as [|c p''].
    + cbn [List.length] in Hm. replace (l + 1 - 1)%nat with l in Hm by lia.
      assert (comp = true) as Ecomp by (unfold comp; now rewrite Hm).
      rewrite Ecomp in Ek. cbn [negb orb] in Ek.
      destruct (Ga_flag_support_gen g (S l) (k :: B) (dv v) (upd rho k v) Hc4 ND' H3 Hcl Hi L' R' Ek) as (rest & Hr & Hsupp).
      exists rest. cbn [app]. split; [constructor; [lia|exact Hr]|]. cbn [bind_from gsupp]. exact Hsupp.
    + destruct (IHg (S l) (k :: B) (dv v) (upd rho k v) (c :: p'') sub Hc4 ND' H3 Hcl Hi L' R') as (rest & Hr & Hsupp);
        [discriminate|exact Hn| |].
      { cbn [List.length] in *. replace (S l + S (List.length p'') - 1)%nat with (l + S (S (List.length p'')) - 1)%nat by lia.
        exact Hm. }
      exists rest. split; [cbn [app]; constructor; [lia|exact Hr]|]. cbn [app bind_from gsupp]. exact Hsupp.
  - exfalso. cbn [wellb] in Hc. exact (BE _ l p Hc Hp Hm).
Qed.

Theorem G_no_phantoms_level_gen (g : graph Z) (l : nat) (p : list Z) :
  incl (graph_leaves g) (k_leaves cfg) -> wellb cfg g 0 = true -> NoDup (k_oidx cfg) ->
  scopedb [] g = true -> closedb [] g = true ->
  nth_error (k_omodes cfg) l = Some MCompressed ->
  In p (stored_prefixes (G_out cfg g) (S l)) ->
  exists rest, in_range (p ++ rest) (k_oidx cfg)
               /\ gsupp cfg g (bind_from (fun _ => 0) (k_oidx cfg) (p ++ rest)) = true.
Proof.
  intros Hi Hc ND Hs Hcl Hm Hin.
  assert (twf (olevels cfg) (atrie (G cfg g))) as TW.
  { apply (Ga_twf cfg LOK CFG g 0 [] (fun _ => 0)); [now apply (wellb_shape cfg LOK CFG)|exact Hi]. }
  assert (S l <= List.length (k_omodes cfg))%nat as Hl.
  { assert (l < List.length (k_omodes cfg))%nat by (apply nth_error_Some; congruence). lia. }
  destruct (stored_prefixes_nodes cfg _ (S l) p CFG TW Hl Hin) as (Lp & sub & Hsub).
  apply (Ga_stored_support_gen g 0 [] [] (fun _ => 0) p sub Hc ND Hs Hcl Hi (LP_nil _ _ _)).
  - intros x [].
  - intros ->. discriminate.
  - exact Hsub.
  - rewrite Lp. cbn. now rewrite Nat.sub_0_r.
Qed.

Theorem G_no_phantoms_level (g : graph Z) (l : nat) (p : list Z) :
  incl (graph_leaves g) (k_leaves cfg) -> chainb cfg g 0 = true -> scopedb [] g = true ->
  closedb [] g = true ->
  nth_error (k_omodes cfg) l = Some MCompressed ->
  In p (stored_prefixes (G_out cfg g) (S l)) ->
  exists rest, in_range (p ++ rest) (k_oidx cfg)
               /\ gsupp cfg g (bind_from (fun _ => 0) (k_oidx cfg) (p ++ rest)) = true.
Proof.
  intros Hi Hc Hs Hcl Hm Hin.
  assert (twf (olevels cfg) (atrie (G cfg g))) as TW.
  { apply (Ga_twf cfg LOK CFG g 0 [] (fun _ => 0)); [now apply chainb_shape|exact Hi]. }
  assert (S l <= List.length (k_omodes cfg))%nat as Hl.
  { assert (l < List.length (k_omodes cfg))%nat by (apply nth_error_Some; congruence). lia. }
  destruct (stored_prefixes_nodes cfg _ (S l) p CFG TW Hl Hin) as (Lp & sub & Hsub).
  apply (Ga_stored_support g 0 [] [] (fun _ => 0) p sub Hc Hs Hcl Hi (LP_nil _ _ _)).
  - intros x [].
  - intros ->. discriminate.
  - exact Hsub.
  - rewrite Lp. cbn. now rewrite Nat.sub_0_r.
Qed.

End Support.
