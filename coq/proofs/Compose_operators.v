(** COMPOSE (2) -- TIE "operators" + TIE "deparse" + TIE "grammar" + TIE "problem": the assignment STRING
    that the regenerated operator layer (gen/TensorOps.v) hands to [evaluate_tensora], parsed by the
    regenerated parsita grammar (gen/GrammarGen.v) whose [Assignment(...)] runs the regenerated
    [__post_init__] (gen/ProblemGen.v, [Compose_post.gen_post]), is EXACTLY the request AST of
    model/Operators.v -- the tree that C11's "request denotes" theorems speak about.  And that string is
    what the regenerated printer (gen/Deparse.v) prints for this tree.

    model/Operators.v has its own AST type [MO.expr] (no float literals).  [toP] / [toG] write such a tree in
    model/Parser.v's type / in the regenerated type; [GE.back fl (toP e) = toG e] for literal-free trees. *)

From Coq Require Import String Ascii List NArith ZArith Bool Arith Lia Decimal DecimalString.
From TV Require Import spec.Num spec.PyBase spec.PyLib proofs.PyLibFacts.
From TV Require model.Parser model.Operators model.Parsita gen.Deparse gen.TensorOps gen.GrammarGen.
From TV Require proofs.ParserLex proofs.GenDeparse_equiv proofs.GenGrammarExpr_equiv proofs.GenGrammarRoundtrip
  proofs.GenOperators_equiv.
From TV Require Import proofs.Compose_post.
Import ListNotations.
Open Scope string_scope.
Open Scope list_scope.

Module MO := TV.model.Operators.
Module GO := TV.gen.TensorOps.
Module GOE := TV.proofs.GenOperators_equiv.
Module GDE := TV.proofs.GenDeparse_equiv.
Module PL := TV.proofs.ParserLex.

Notation las := list_ascii_of_string.

(* ------------------------------------------------------------------------------------------ *)
(** * the three AST types *)

Fixpoint toP (e : MO.expr) : P.expr :=
  match e with
  | MO.EInteger z => P.EInt (Z.to_N z)
  | MO.ETensor n i => P.ETensor n i
  | MO.EAdd l r => P.EAdd (toP l) (toP r)
  | MO.ESub l r => P.ESub (toP l) (toP r)
  | MO.EMul l r => P.EMul (toP l) (toP r)
  end.

Definition toPa (a : MO.assignment) : P.assignment :=
  P.Assign (MO.a_target_name a) (MO.a_target_indexes a) (toP (MO.a_rhs a)).

Fixpoint toG (e : MO.expr) : GD.ex_expr :=
  match e with
  | MO.EInteger z => GD.ExInteger z
  | MO.ETensor n i => GD.ExTensor n i
  | MO.EAdd l r => GD.ExAdd (toG l) (toG r)
  | MO.ESub l r => GD.ExSubtract (toG l) (toG r)
  | MO.EMul l r => GD.ExMultiply (toG l) (toG r)
  end.

Definition toGa (a : MO.assignment) : GD.ex_assignment :=
  GD.ExAssignment (GD.ExTensor (MO.a_target_name a) (MO.a_target_indexes a)) (toG (MO.a_rhs a)).

(** no integer literal (the operator layer writes none: a Python number is bound as an order-0 tensor) *)
Fixpoint lit_free (e : MO.expr) : bool :=
  match e with
  | MO.EInteger _ => false
  | MO.ETensor _ _ => true
  | MO.EAdd l r | MO.ESub l r | MO.EMul l r => lit_free l && lit_free r
  end.

Lemma back_toP : forall fl e, lit_free e = true -> GE.back fl (toP e) = toG e.
Proof.
  induction e; cbn [lit_free toP toG GE.back]; intros H; try discriminate; try reflexivity;
    apply andb_true_iff in H as [H1 H2]; rewrite IHe1, IHe2 by assumption; reflexivity.
Qed.

Lemma conv_toG : forall fdec e, lit_free e = true -> GDE.conv fdec (toG e) = toP e.
Proof.
  induction e; cbn [lit_free toP toG GDE.conv]; intros H; try discriminate; try reflexivity;
    apply andb_true_iff in H as [H1 H2]; rewrite IHe1, IHe2 by assumption; reflexivity.
Qed.

Lemma nonneg_toG : forall e, lit_free e = true -> GDE.nonneg (toG e) = true.
Proof.
  induction e; cbn [lit_free toG GDE.nonneg]; intros H; try discriminate; try reflexivity;
    apply andb_true_iff in H as [H1 H2]; rewrite IHe1, IHe2 by assumption; reflexivity.
Qed.

Lemma float_free_toP : forall e, P.float_free (toP e) = true.
Proof. induction e; cbn [toP P.float_free]; try reflexivity; rewrite IHe1, IHe2; reflexivity. Qed.

(* ------------------------------------------------------------------------------------------ *)
(** * the model's printer = the regenerated printer (as strings) *)

Lemma addsub_toG : forall e, (GD.is_ExAdd (toG e) || GD.is_ExSubtract (toG e))%bool = MO.is_add_sub e.
Proof. destruct e; reflexivity. Qed.

Lemma addsubmul_toG : forall e,
  (GD.is_ExAdd (toG e) || GD.is_ExSubtract (toG e) || GD.is_ExMultiply (toG e))%bool = MO.is_add_sub_mul e.
Proof. destruct e; reflexivity. Qed.

Lemma deparse_tensor_gen : forall sf n i,
  MO.deparse_tensor n i = GD.Expression_deparse sf (GD.ExTensor n i).
Proof.
  intros sf n i. cbn [GD.Expression_deparse]. unfold MO.deparse_tensor.
  change (py_join "," i) with (String.concat "," i). rewrite !sapp_assoc. reflexivity.
Qed.

Theorem deparse_gen : forall sf e, lit_free e = true -> MO.deparse e = GD.Expression_deparse sf (toG e).
Proof.
  intros sf. induction e; intros H; cbn [lit_free] in H; try discriminate.
  - apply deparse_tensor_gen.
  - apply andb_true_iff in H as [H1 H2]. cbn [MO.deparse toG GD.Expression_deparse]. cbv zeta.
    rewrite <- IHe1, <- IHe2, addsub_toG by assumption. unfold MO.paren.
    destruct (MO.is_add_sub e2); rewrite ?sapp_assoc; reflexivity.
  - apply andb_true_iff in H as [H1 H2]. cbn [MO.deparse toG GD.Expression_deparse]. cbv zeta.
    rewrite <- IHe1, <- IHe2, addsub_toG by assumption. unfold MO.paren.
    destruct (MO.is_add_sub e2); rewrite ?sapp_assoc; reflexivity.
  - apply andb_true_iff in H as [H1 H2]. cbn [MO.deparse toG GD.Expression_deparse]. cbv zeta.
    rewrite <- IHe1, <- IHe2, addsub_toG, addsubmul_toG by assumption. unfold MO.paren.
    destruct (MO.is_add_sub e1), (MO.is_add_sub_mul e2); rewrite ?sapp_assoc; reflexivity.
Qed.

(** the string of the request = the regenerated [Assignment.deparse] of the request tree *)
Theorem deparse_assignment_gen : forall sf a, lit_free (MO.a_rhs a) = true ->
  MO.deparse_assignment a = GD.ex_assignment_deparse sf (toGa a).
Proof.
  intros sf a H. unfold MO.deparse_assignment, toGa, GD.ex_assignment_deparse.
  rewrite <- (deparse_gen sf _ H), <- deparse_tensor_gen, !sapp_assoc. reflexivity.
Qed.

(* ------------------------------------------------------------------------------------------ *)
(** * the printed text lexes to the printed tokens, also with the finiteness refinement *)

Lemma no_float_wrap : forall b ts, GR.no_float ts = true -> GR.no_float (P.wrap b ts) = true.
Proof.
  intros [|] ts H; cbn [P.wrap]; [|exact H].
  change (TV.model.Parser.TLP :: ts ++ [TV.model.Parser.TRP]) with ([TV.model.Parser.TLP] ++ ts ++ [TV.model.Parser.TRP]).
  rewrite !GR.no_float_app, H. reflexivity.
Qed.

Lemma no_float_toks : forall e, GR.no_float (P.toks (toP e)) = true.
Proof.
  induction e; cbn [toP P.toks]; try reflexivity.
  - apply GR.no_float_tensor.
  - change (?a ++ ?t :: ?b) with (a ++ [t] ++ b).
    rewrite !GR.no_float_app, IHe1, no_float_wrap by assumption. reflexivity.
  - change (?a ++ ?t :: ?b) with (a ++ [t] ++ b).
    rewrite !GR.no_float_app, IHe1, no_float_wrap by assumption. reflexivity.
  - change (?a ++ ?t :: ?b) with (a ++ [t] ++ b).
    rewrite !GR.no_float_app, !no_float_wrap by assumption. reflexivity.
Qed.

Lemma no_float_deparse : forall a, GR.no_float (P.deparse (toPa a)) = true.
Proof.
  intros a. unfold P.deparse, toPa. cbn [P.tname P.tindexes P.rhs].
  change (?a ++ ?t :: ?b) with (a ++ [t] ++ b).
  rewrite !GR.no_float_app, GR.no_float_tensor, no_float_toks. reflexivity.
Qed.

(** a rendering of floats that satisfies both codecs (never used: the trees have no float) *)
Definition sf0 : F -> string := fun _ => string_of_list_ascii (P.show_dec_canonical (P.Dec 0 0)).
Definition fdec0 : F -> P.dec := fun _ => P.Dec 0 0.

Lemma codec0 : forall f, P.show_dec_canonical (fdec0 f) = las (sf0 f).
Proof. intros f. unfold sf0, fdec0. rewrite list_ascii_of_string_of_list_ascii. reflexivity. Qed.

Lemma floats_ok_toP : forall e, PL.floats_ok (toP e).
Proof. induction e; cbn [toP PL.floats_ok]; auto. Qed.

(** GENERAL: every literal-free assignment of model/Operators.v's AST with lexable names that passes
    validation is read back from its printed text by the fully regenerated parser *)
Theorem text_parses : forall (fl : P.dec -> F) (a : MO.assignment),
  lit_free (MO.a_rhs a) = true ->
  PL.valid_name (MO.a_target_name a) = true ->
  forallb PL.valid_name (MO.a_target_indexes a) = true ->
  PL.names_ok (toP (MO.a_rhs a)) = true ->
  P.validate (toPa a) = P.VOk ->
  GG.parse_assignment fl gen_post (MO.deparse_assignment a) = GG.PSuccess (Parsita.VU (GG.UAsg (toGa a))).
Proof.
  intros fl a LF Vn Vi NO Vd.
  assert (TXT : las (MO.deparse_assignment a) = P.print_assignment P.show_dec_canonical (toPa a)).
  { rewrite (deparse_assignment_gen sf0 a LF). unfold toGa.
    rewrite (GDE.gen_assignment_deparse_equiv fdec0 sf0 P.show_dec_canonical codec0 _ _ _ (nonneg_toG _ LF)).
    rewrite (conv_toG fdec0 _ LF). reflexivity. }
  pose proof (PL.lex_print_assignment P.show_dec_canonical PL.show_dec_canonical_lex (toPa a)
                Vn Vi NO (floats_ok_toP _)) as LX.
  unfold PL.lex_chars in LX. rewrite <- TXT in LX.
  pose proof (GE.lexF_floats_finite fl _ _ _ LX (GR.no_float_finite fl _ (no_float_deparse a))) as LF'.
  rewrite (compose_parse_deparse fl _ (toPa a) LF' Vd).
  unfold GE.back_asg, toPa, toGa. cbn [P.tname P.tindexes P.rhs]. rewrite (back_toP fl _ LF). reflexivity.
Qed.

(* ------------------------------------------------------------------------------------------ *)
(** * the requests of the operator layer *)

(** an index name of a request: lexable, and not one of the three tensor names *)
Definition idx_ok (s : string) : bool :=
  PL.valid_name s && negb (P.mem_str s ["output"; "left"; "right"]).

(** [output(T) = left(L) <op> right(R)] *)
Definition req_shape (a : MO.assignment) : Prop :=
  exists o idxT idxL idxR,
    a = MO.mkAssignment "output" idxT (MO.op_expr o (MO.ETensor "left" idxL) (MO.ETensor "right" idxR))
    /\ forallb idx_ok (idxT ++ idxL ++ idxR) = true.

Lemma uint_alnum : forall u, forallb P.is_alnum (las (NilEmpty.string_of_uint u)) = true.
Proof. induction u; cbn [NilEmpty.string_of_uint las forallb]; try reflexivity; rewrite IHu; reflexivity. Qed.

Lemma index_name_ok : forall n, idx_ok (MO.index_name n) = true.
Proof.
  intros n. unfold idx_ok, MO.index_name, PL.valid_name, MO.nat_str.
  cbn [String.append las]. rewrite uint_alnum. reflexivity.
Qed.

Lemma index_names_ok : forall n, forallb idx_ok (MO.index_names n) = true.
Proof.
  intros n. unfold MO.index_names. apply forallb_forall. intros x Hx.
  apply in_map_iff in Hx as [k [<- _]]. apply index_name_ok.
Qed.

Lemma forallb_app3 : forall {A} (f : A -> bool) a b c,
  forallb f a = true -> forallb f b = true -> forallb f c = true -> forallb f (a ++ b ++ c) = true.
Proof. intros. rewrite !forallb_app, H, H0, H1. reflexivity. Qed.

Lemma binary_request_shape : forall l r o q,
  MO.binary_operator_request l r o = MO.Ok q -> req_shape (MO.rq_assignment q).
Proof.
  intros l r o q H. unfold MO.binary_operator_request in H.
  destruct l as [ld lm lo| |], r as [rd rm ro| |]; try discriminate H.
  - destruct (negb (list_eqb Z.eqb ld rd)); [discriminate|]. inversion H; subst. cbn [MO.rq_assignment].
    do 4 eexists. split; [reflexivity|]. apply forallb_app3; apply index_names_ok.
  - inversion H; subst. cbn [MO.rq_assignment].
    do 4 eexists. split; [reflexivity|]. apply forallb_app3; try apply index_names_ok; reflexivity.
  - inversion H; subst. cbn [MO.rq_assignment].
    do 4 eexists. split; [reflexivity|]. apply forallb_app3; try apply index_names_ok; reflexivity.
Qed.

Lemma matmul_request_shape : forall l r q,
  MO.matmul_request l r = MO.Ok q -> req_shape (MO.rq_assignment q).
Proof.
  intros l r q H. unfold MO.matmul_request in H.
  destruct l as [ld lm lo| |], r as [rd rm ro| |]; try discriminate H.
  destruct ld as [|l0 [|l1 [|]]]; try discriminate H;
    destruct rd as [|r0 [|r1 [|]]]; try discriminate H;
    repeat match type of H with
           | (if ?b then _ else _) = _ => destruct b; try discriminate H
           | match ?x with Some _ => _ | None => _ end = _ => destruct x; try discriminate H
           end;
    inversion H; subst; cbn [MO.rq_assignment];
    exists MO.OpMul; do 3 eexists; (split; [reflexivity | vm_compute; reflexivity]).
Qed.

Lemma method_request_shape : forall m self other q,
  MO.method_request m self other = MO.Ok q -> req_shape (MO.rq_assignment q).
Proof.
  intros m self other q H. destruct m; cbn [MO.method_request] in H;
    first [eapply binary_request_shape; exact H | eapply matmul_request_shape; exact H].
Qed.

Lemma python_operator_shape : forall p a b q,
  MO.python_operator p a b = MO.Ok q -> req_shape (MO.rq_assignment q).
Proof.
  intros p a b q H. unfold MO.python_operator in H.
  destruct (MO.is_tensor a); [eapply method_request_shape; exact H|].
  destruct (MO.is_tensor b); [eapply method_request_shape; exact H | discriminate].
Qed.

Lemma idx_ok_no_clash : forall l, forallb idx_ok l = true ->
  existsb (fun i => P.mem_str i ["output"; "left"; "right"]) l = false.
Proof.
  induction l as [|x l IH]; intros H; [reflexivity|]. cbn [forallb] in H.
  apply andb_true_iff in H as [H1 H2]. unfold idx_ok in H1. apply andb_true_iff in H1 as [_ H1].
  cbn [existsb]. rewrite (IH H2). apply negb_true_iff in H1. rewrite H1. reflexivity.
Qed.

Lemma idx_ok_valid : forall l, forallb idx_ok l = true -> forallb PL.valid_name l = true.
Proof.
  induction l as [|x l IH]; intros H; [reflexivity|]. cbn [forallb] in *.
  apply andb_true_iff in H as [H1 H2]. unfold idx_ok in H1. apply andb_true_iff in H1 as [H1 _].
  rewrite H1, (IH H2). reflexivity.
Qed.

(** a request of that shape satisfies every hypothesis of [text_parses] *)
Lemma req_shape_hyps : forall a, req_shape a ->
  lit_free (MO.a_rhs a) = true /\ PL.valid_name (MO.a_target_name a) = true /\
  forallb PL.valid_name (MO.a_target_indexes a) = true /\ PL.names_ok (toP (MO.a_rhs a)) = true /\
  P.validate (toPa a) = P.VOk.
Proof.
  intros a (o & idxT & idxL & idxR & -> & OK).
  pose proof OK as OK'. rewrite !forallb_app in OK'.
  apply andb_true_iff in OK' as [OT OK']. apply andb_true_iff in OK' as [OL OR].
  cbn [MO.a_rhs MO.a_target_name MO.a_target_indexes].
  assert (NC : existsb (fun i => P.mem_str i ["output"; "left"; "right"])
                 (idxT ++ idxL ++ idxR ++ []) = false).
  { rewrite app_nil_r. apply idx_ok_no_clash. exact OK. }
  repeat split.
  - destruct o; reflexivity.
  - apply idx_ok_valid; exact OT.
  - destruct o; cbn [MO.op_expr toP PL.names_ok];
      rewrite (idx_ok_valid _ OL), (idx_ok_valid _ OR); reflexivity.
  - unfold toPa, P.validate. cbn [MO.a_rhs MO.a_target_name MO.a_target_indexes P.tname P.tindexes P.rhs].
    assert (T : P.tensors (toP (MO.op_expr o (MO.ETensor "left" idxL) (MO.ETensor "right" idxR)))
                = [("left", idxL); ("right", idxR)]) by (destruct o; reflexivity).
    rewrite T.
    change (P.first_names [] [("left", idxL); ("right", idxR)]) with ["left"; "right"].
    assert (CV : P.check_vars "output" ["left"; "right"] [("left", idxL); ("right", idxR)] = P.VOk).
    { cbn [P.check_vars]. change (String.eqb "left" "output") with false.
      change (String.eqb "right" "output") with false. cbv iota.
      unfold P.orders_of. cbn [filter fst snd map].
      change (String.eqb "left" "left") with true. change (String.eqb "right" "left") with false.
      change (String.eqb "left" "right") with false. change (String.eqb "right" "right") with true.
      cbv iota. cbn [map P.all_same_order forallb snd]. reflexivity. }
    rewrite CV. cbn [flat_map snd]. rewrite NC. reflexivity.
Qed.

Theorem request_text_parses : forall (fl : P.dec -> F) a, req_shape a ->
  GG.parse_assignment fl gen_post (MO.deparse_assignment a) = GG.PSuccess (Parsita.VU (GG.UAsg (toGa a))).
Proof.
  intros fl a S. destruct (req_shape_hyps a S) as (A & B & C & D & E). apply text_parses; assumption.
Qed.

Theorem request_text_printed : forall (sf : F -> string) a, req_shape a ->
  GD.ex_assignment_deparse sf (toGa a) = MO.deparse_assignment a.
Proof.
  intros sf a S. destruct (req_shape_hyps a S) as (A & _). symmetry. apply deparse_assignment_gen. exact A.
Qed.

(* ------------------------------------------------------------------------------------------ *)
(** * end to end: regenerated operator function -> string -> regenerated parser -> the denoted tree *)

Theorem compose_binary_operator_text :
  forall (fl : P.dec -> F) (sf : F -> string) (l r : MO.operand) (o : MO.op) (s f : string)
         (kw : list (string * GO.argval)),
    GO.evaluate_binary_operator (GOE.emb l) (GOE.emb r) (MO.op_char o) = GO.Val (GO.Evaluate s f kw) ->
    exists q : MO.request,
      MO.binary_operator_request l r o = MO.Ok q /\
      GG.parse_assignment fl gen_post s = GG.PSuccess (Parsita.VU (GG.UAsg (toGa (MO.rq_assignment q)))) /\
      GD.ex_assignment_deparse sf (toGa (MO.rq_assignment q)) = s /\
      kw = map (fun nb => (fst nb, GOE.conv_binding l r (snd nb))) (MO.rq_bindings q) /\
      forall (lv rv : MO.opvalue) (c : MO.coord),
        List.length c = List.length (MO.pointwise_dims l r) ->
        MO.denote_request q l r lv rv c = MO.apply_op o (MO.broadcast l lv c) (MO.broadcast r rv c).
Proof.
  intros fl sf l r o s f kw H.
  destruct (GOE.gen_request_denotes_pointwise l r o s f kw H) as (q & Hq & -> & _ & Hkw & Hd).
  pose proof (binary_request_shape _ _ _ _ Hq) as S.
  exists q. repeat split; try assumption.
  - apply request_text_parses; exact S.
  - apply request_text_printed; exact S.
Qed.

Theorem compose_matmul_operator_text :
  forall (fl : P.dec -> F) (sf : F -> string) (l r : MO.operand) (s f : string) (kw : list (string * GO.argval)),
    GO.evaluate_matrix_multiplication_operator (GOE.emb l) (GOE.emb r) = GO.Val (GO.Evaluate s f kw) ->
    exists q : MO.request,
      MO.matmul_request l r = MO.Ok q /\
      GG.parse_assignment fl gen_post s = GG.PSuccess (Parsita.VU (GG.UAsg (toGa (MO.rq_assignment q)))) /\
      GD.ex_assignment_deparse sf (toGa (MO.rq_assignment q)) = s /\
      kw = map (fun nb => (fst nb, GOE.conv_binding l r (snd nb))) (MO.rq_bindings q) /\
      forall (lv rv : MO.opvalue) (c : MO.coord),
        List.length c = List.length (MO.matmul_dims l r) ->
        MO.denote_request q l r lv rv c = MO.matmul_spec l r lv rv c.
Proof.
  intros fl sf l r s f kw H.
  destruct (GOE.gen_matmul_request_denotes l r s f kw H) as (q & Hq & -> & _ & Hkw & Hd).
  pose proof (matmul_request_shape _ _ _ Hq) as S.
  exists q. repeat split; try assumption.
  - apply request_text_parses; exact S.
  - apply request_text_printed; exact S.
Qed.

(** the eight methods ([self] a tensor view, [other] any object; no invariant assumed) *)
Theorem compose_method_text :
  forall (fl : P.dec -> F) (sf : F -> string) (m : MO.method) d mm r (other : MO.operand) (s f : string)
         (kw : list (string * GO.argval)),
    GOE.gen_method m (GOE.emb_view d mm r) (GOE.emb other) = GO.Val (GO.Evaluate s f kw) ->
    exists q : MO.request,
      MO.method_request m (MO.OTensor d mm r) other = MO.Ok q /\
      GG.parse_assignment fl gen_post s = GG.PSuccess (Parsita.VU (GG.UAsg (toGa (MO.rq_assignment q)))) /\
      GD.ex_assignment_deparse sf (toGa (MO.rq_assignment q)) = s.
Proof.
  intros fl sf m d mm r other s f kw H.
  destruct (GOE.refines_evaluate_inv _ _ _ _ _ _ _ _ (GOE.gen_methods_refines m d mm r other) H) as [q [Hq E]].
  unfold GOE.conv_request in E. inversion E; subst.
  pose proof (method_request_shape _ _ _ _ Hq) as S.
  exists q. repeat split; try assumption.
  - apply request_text_parses; exact S.
  - apply request_text_printed; exact S.
Qed.

(** a non-trivial instance: [v + 2.5] for a vector of 3 entries -- the text, and its parse *)
Example compose_operator_instance :
  exists kw,
    GO.evaluate_binary_operator (GOE.emb (MO.OTensor [3%Z] [MO.MCompressed] [0%nat])) (GOE.emb MO.OScalar) "+"
    = GO.Val (GO.Evaluate "output(i0) = left(i0) + right()" "d" kw).
Proof. eexists. vm_compute. reflexivity. Qed.
