(** The stages of [TensorMethod.__call__] (model/Validate.v), each characterised by an
    oracle-free statement. *)

From Coq Require Import String List ZArith Bool Arith Lia Permutation.
From TV Require Import model.ExprAst model.Problem model.Validate proofs.ValidateBase proofs.ValidateIP.
Import ListNotations.

(* ------------------------------------------------------------------------------------------ *)
(** * small boolean reflections *)

Lemma has_dup_false : forall l, has_dup l = false <-> NoDup l.
Proof.
  induction l as [|x t IH]; simpl.
  - split; [constructor | reflexivity].
  - rewrite orb_false_iff, IH, smem_false. split.
    + intros [H1 H2]. constructor; assumption.
    + intros H. inversion H; auto.
Qed.

Lemma first_not_in_None : forall xs ys, first_not_in xs ys = None <-> incl xs ys.
Proof.
  induction xs as [|x t IH]; intros ys; simpl.
  - split; [intros _ ? [] | reflexivity].
  - destruct (smem x ys) eqn:E.
    + apply smem_In in E. rewrite IH. split.
      * intros H y [->|Hy]; auto.
      * intros H y Hy. apply H. right. exact Hy.
    + apply smem_false in E. split; [discriminate|]. intros H. exfalso. apply E, H. left. reflexivity.
Qed.

Lemma first_not_in_Some : forall xs ys x,
  first_not_in xs ys = Some x -> In x xs /\ ~ In x ys.
Proof.
  induction xs as [|y t IH]; intros ys x; simpl; [discriminate|].
  destruct (smem y ys) eqn:E.
  - intros H. apply IH in H. tauto.
  - apply smem_false in E. intros H. inversion H; subst. auto.
Qed.

Lemma modes_eqb_eq : forall a b, modes_eqb a b = true <-> a = b.
Proof.
  induction a as [|x a IH]; destruct b as [|y b]; simpl; try (split; [discriminate|congruence]).
  - tauto.
  - rewrite andb_true_iff, IH. destruct x, y; simpl; split;
      try (intros [? ?]; congruence); try (intros H; inversion H; auto); try discriminate.
Qed.

Lemma nats_eqb_eq : forall a b, nats_eqb a b = true <-> a = b.
Proof.
  induction a as [|x a IH]; destruct b as [|y b]; simpl; try (split; [discriminate|congruence]).
  - tauto.
  - rewrite andb_true_iff, IH, Nat.eqb_eq. split; [intros [? ?]; congruence | intros H; inversion H; auto].
Qed.

(* ------------------------------------------------------------------------------------------ *)
(** * bind *)

(** the value a bound parameter gets *)
Definition kwget (kw : list (string * argument)) (n : string) : argument :=
  match aget n kw with Some a => a | None => ANotTensor end.

Definition names_exact (params : list string) (c : call_args) : Prop :=
  positional c = [] /\ NoDup (akeys (keywords c)) /\
  (forall n, In n (akeys (keywords c)) <-> In n params).

Lemma bind_Ok : forall params c bound,
  bind params c = Ok bound <->
  names_exact params c /\ bound = map (fun n => (n, kwget (keywords c) n)) params.
Proof.
  intros params c bound. unfold bind, names_exact.
  destruct (positional c) eqn:P.
  2:{ split; [discriminate | intros [[H _] _]; discriminate]. }
  destruct (has_dup (akeys (keywords c))) eqn:D.
  { split; [discriminate|]. intros [[_ [H _]] _]. apply has_dup_false in H. congruence. }
  apply has_dup_false in D.
  destruct (first_not_in (akeys (keywords c)) params) eqn:F1.
  { split; [discriminate|]. intros [[_ [_ H]] _]. apply first_not_in_Some in F1.
    destruct F1 as [F1 F2]. apply H in F1. contradiction. }
  destruct (first_not_in params (akeys (keywords c))) eqn:F2.
  { split; [discriminate|]. intros [[_ [_ H]] _]. apply first_not_in_Some in F2.
    destruct F2 as [F2 F3]. apply H in F2. contradiction. }
  apply first_not_in_None in F1. apply first_not_in_None in F2.
  split.
  - intros H. inversion H. repeat split; auto.
  - intros [_ ->]. reflexivity.
Qed.

Lemma bind_Error : forall params c e, bind params c = Error e -> e = ETypeErrorBind.
Proof.
  intros params c e. unfold bind.
  destruct (positional c); [|intros H; inversion H; reflexivity].
  destruct (has_dup _); [intros H; inversion H; reflexivity|].
  destruct (first_not_in (akeys (keywords c)) params); [intros H; inversion H; reflexivity|].
  destruct (first_not_in params (akeys (keywords c))); [intros H; inversion H; reflexivity|].
  discriminate.
Qed.

Lemma aget_bound : forall (f : string -> argument) params n,
  aget n (map (fun x => (x, f x)) params) = if smem n params then Some (f n) else None.
Proof. intros. apply aget_map_keys. Qed.

(* ------------------------------------------------------------------------------------------ *)
(** * the per-argument loop *)

Definition arg_matches (a : argument) (f : format) : Prop :=
  exists o m r d, a = ATensor o m r d /\ o = f_order f /\ m = f_modes f /\ r = f_ordering f.

Lemma check_argument_Ok : forall n a f, check_argument n a f = Ok tt <-> arg_matches a f.
Proof.
  intros n a f. unfold check_argument, arg_matches. destruct a as [o m r d|].
  2:{ split; [discriminate | intros [? [? [? [? [H _]]]]]; discriminate]. }
  destruct (Nat.eqb o (f_order f)) eqn:E1; simpl.
  2:{ apply Nat.eqb_neq in E1. split; [discriminate|].
      intros [? [? [? [? [H [H1 _]]]]]]. inversion H; subst. congruence. }
  destruct (modes_eqb m (f_modes f)) eqn:E2; simpl.
  2:{ split; [discriminate|]. intros [? [? [? [? [H [_ [H2 _]]]]]]]. inversion H; subst.
      assert (modes_eqb (f_modes f) (f_modes f) = true) by (apply modes_eqb_eq; reflexivity). congruence. }
  destruct (nats_eqb r (f_ordering f)) eqn:E3; simpl.
  2:{ split; [discriminate|]. intros [? [? [? [? [H [_ [_ H3]]]]]]]. inversion H; subst.
      assert (nats_eqb (f_ordering f) (f_ordering f) = true) by (apply nats_eqb_eq; reflexivity). congruence. }
  apply Nat.eqb_eq in E1. apply modes_eqb_eq in E2. apply nats_eqb_eq in E3.
  split; [|reflexivity]. intros _. exists o, m, r, d. auto.
Qed.

Definition is_arg_error (e : error) : Prop :=
  (exists n, e = ETypeErrorNotTensor n) \/ (exists n, e = EValueErrorOrder n) \/
  (exists n, e = EValueErrorModes n) \/ (exists n, e = EValueErrorOrdering n).

Lemma check_argument_Error : forall n a f e, check_argument n a f = Error e -> is_arg_error e.
Proof.
  intros n a f e. unfold check_argument, is_arg_error. destruct a as [o m r d|].
  - destruct (negb (Nat.eqb o (f_order f))); [intros H; inversion H; eauto 6|].
    destruct (negb (modes_eqb m (f_modes f))); [intros H; inversion H; eauto 6|].
    destruct (negb (nats_eqb r (f_ordering f))); [intros H; inversion H; eauto 8|].
    discriminate.
  - intros H; inversion H; eauto.
Qed.

Lemma check_arguments_Ok : forall (g : string -> argument) fs,
  check_arguments (map (fun n => (n, g n)) (akeys fs)) fs = Ok tt <->
  (forall n f, In (n, f) fs -> arg_matches (g n) f).
Proof.
  induction fs as [|[n f] t IH]; simpl.
  - split; [intros _ ? ? [] | reflexivity].
  - destruct (check_argument n (g n) f) as [[]|e] eqn:E.
    + apply check_argument_Ok in E. fold (akeys t). rewrite IH. split.
      * intros H n' f' [H'|H']; [inversion H'; subst; exact E | auto].
      * intros H n' f' H'. apply H. right. exact H'.
    + split; [discriminate|]. intros H.
      assert (A : arg_matches (g n) f) by (apply H; left; reflexivity).
      apply (check_argument_Ok n) in A. congruence.
Qed.

Lemma check_arguments_Error : forall (g : string -> argument) fs e,
  check_arguments (map (fun n => (n, g n)) (akeys fs)) fs = Error e -> is_arg_error e.
Proof.
  induction fs as [|[n f] t IH]; simpl; intros e.
  - discriminate.
  - destruct (check_argument n (g n) f) as [[]|e'] eqn:E.
    + apply IH.
    + intros H; inversion H; subst. eapply check_argument_Error; eauto.
Qed.

(* ------------------------------------------------------------------------------------------ *)
(** * the dimension loop *)

Lemma all_some_Some : forall l r, all_some l = Some r <-> l = map Some r.
Proof.
  induction l as [|[x|] t IH]; intros r; simpl.
  - split; [intros H; inversion H; reflexivity | destruct r; [reflexivity|discriminate]].
  - destruct (all_some t) eqn:E.
    + split.
      * intros H; inversion H; subst. simpl. f_equal. apply IH. reflexivity.
      * destruct r as [|y r]; [discriminate|]. simpl. intros H; inversion H; subst.
        assert (Some l = Some r) by (apply IH; reflexivity). congruence.
    + split; [discriminate|]. destruct r as [|y r]; [discriminate|]. simpl. intros H; inversion H; subst.
      assert (None = Some r) by (apply IH; reflexivity). discriminate.
  - split; [discriminate|]. destruct r; discriminate.
Qed.

Lemma all_some_None : forall l, all_some l = None <-> In None l.
Proof.
  induction l as [|[x|] t IH]; simpl.
  - split; [discriminate | tauto].
  - destruct (all_some t) eqn:E.
    + split; [discriminate|]. intros [H|H]; [discriminate|]. apply IH in H. discriminate.
    + split; [intros _; right; apply IH; reflexivity | reflexivity].
  - split; auto.
Qed.

Section WithOracles.
  Variable ord : path -> list string -> list string.
  Variable ordp : string -> list participant -> list participant.
  Hypothesis ord_perm : forall pth l, Permutation (ord pth l) l.
  Hypothesis ordp_perm : forall k l, Permutation (ordp k l) l.

  Lemma ordp_In : forall k l x, In x (ordp k l) <-> In x l.
  Proof.
    intros. split; apply Permutation_in; [apply ordp_perm | apply Permutation_sym, ordp_perm].
  Qed.

  (** one index: accepted with reference size [s] iff there is a participant and every
      participant has size [s] -- whatever the iteration order *)
  Lemma check_index_Ok : forall bound k ps s,
    check_index ordp bound k ps = Ok s <->
    ps <> [] /\ (forall pt, In pt ps -> size_of bound pt = Some s).
  Proof.
    intros bound k ps s. unfold check_index.
    destruct (all_some (map (size_of bound) (ordp k ps))) as [sizes|] eqn:E.
    - apply all_some_Some in E.
      assert (Hall : forall pt, In pt ps -> exists z, size_of bound pt = Some z /\ In z sizes).
      { intros pt Hpt. apply (ordp_In k) in Hpt. apply (in_map (size_of bound)) in Hpt.
        rewrite E in Hpt. apply in_map_iff in Hpt. destruct Hpt as [z [Hz Hin]]. eauto. }
      assert (Hrev : forall z, In z sizes -> exists pt, In pt ps /\ size_of bound pt = Some z).
      { intros z Hz. apply (in_map Some) in Hz. rewrite <- E in Hz. apply in_map_iff in Hz.
        destruct Hz as [pt [H1 H2]]. apply ordp_In in H2. eauto. }
      destruct sizes as [|reference others].
      + split; [discriminate|]. intros [Hne _].
        destruct (ordp k ps) eqn:Eo; [|discriminate].
        exfalso. apply Hne. apply Permutation_nil. rewrite <- Eo. apply ordp_perm.
      + destruct (forallb (fun s0 => Z.eqb s0 reference) others) eqn:F.
        * rewrite forallb_forall in F. split.
          -- intros H; inversion H; subst s. split.
             ++ intros ->. destruct (Hrev reference (or_introl eq_refl)) as [? [[] _]].
             ++ intros pt Hpt. destruct (Hall pt Hpt) as [z [Hz [Hin|Hin]]]; [congruence|].
                apply F in Hin. apply Z.eqb_eq in Hin. congruence.
          -- intros [_ H]. destruct (Hrev reference (or_introl eq_refl)) as [pt [H1 H2]].
             rewrite (H pt H1) in H2. congruence.
        * split; [discriminate|]. intros [_ H]. exfalso.
          assert (forallb (fun s0 => Z.eqb s0 reference) others = true); [|congruence].
          apply forallb_forall. intros z Hz.
          destruct (Hrev z (or_intror Hz)) as [pt [H1 H2]].
          destruct (Hrev reference (or_introl eq_refl)) as [pt' [H1' H2']].
          rewrite (H pt H1) in H2. rewrite (H pt' H1') in H2'. apply Z.eqb_eq. congruence.
    - split; [discriminate|]. intros [_ H]. apply all_some_None in E. apply in_map_iff in E.
      destruct E as [pt [H1 H2]]. apply ordp_In in H2. rewrite (H pt H2) in H1. discriminate.
  Qed.

  (** if every lookup succeeds and there is a participant, the only refusal is the ValueError *)
  Lemma check_index_Error : forall bound k ps e,
    ps <> [] -> (forall pt, In pt ps -> exists s, size_of bound pt = Some s) ->
    check_index ordp bound k ps = Error e -> e = EValueErrorDimensions.
  Proof.
    intros bound k ps e Hne Hall. unfold check_index.
    destruct (all_some (map (size_of bound) (ordp k ps))) as [sizes|] eqn:E.
    - destruct sizes as [|reference others].
      + apply all_some_Some in E. destruct (ordp k ps) eqn:Eo; [|discriminate].
        exfalso. apply Hne. apply Permutation_nil. rewrite <- Eo. apply ordp_perm.
      + destruct (forallb _ others); [discriminate|]. intros H; inversion H; reflexivity.
    - apply all_some_None in E. apply in_map_iff in E. destruct E as [pt [H1 H2]].
      apply ordp_In in H2. destruct (Hall pt H2) as [s Hs]. congruence.
  Qed.

  Lemma check_indexes_Ok : forall bound ipm sizes,
    check_indexes ordp bound ipm = Ok sizes <->
    akeys sizes = akeys ipm /\
    Forall2 (fun kp ks => fst kp = fst ks /\ check_index ordp bound (fst kp) (snd kp) = Ok (snd ks)) ipm sizes.
  Proof.
    induction ipm as [|[k ps] t IH]; intros sizes; simpl.
    - split.
      + intros H; inversion H. split; [reflexivity | constructor].
      + intros [_ H]. inversion H. reflexivity.
    - destruct (check_index ordp bound k ps) as [s|e] eqn:E.
      + destruct (check_indexes ordp bound t) as [rest|e] eqn:E2.
        * split.
          -- intros H; inversion H; subst. destruct (proj1 (IH rest) eq_refl) as [K F].
             split; [simpl; f_equal; exact K|]. constructor; [simpl; auto | exact F].
          -- intros [K F]. inversion F as [|? [k' s'] ? rest' [Hk Hs] F']; subst. simpl in *. subst k'.
             assert (Some s = Some s') by congruence.
             assert (R : Ok rest = Ok rest').
             { apply IH. split; [inversion K; reflexivity | exact F']. }
             inversion R. congruence.
        * split; [discriminate|]. intros [K F].
          inversion F as [|? [k' s'] ? rest' [Hk Hs] F']; subst.
          assert (R : Error e = Ok rest'); [|discriminate].
          apply IH. split; [inversion K; reflexivity | exact F'].
      + split; [discriminate|]. intros [K F].
        inversion F as [|? [k' s'] ? rest' [Hk Hs] F']; subst. simpl in Hs. congruence.
  Qed.

  Lemma check_indexes_Error : forall bound ipm e,
    (forall k ps, In (k, ps) ipm ->
       ps <> [] /\ forall pt, In pt ps -> exists s, size_of bound pt = Some s) ->
    check_indexes ordp bound ipm = Error e -> e = EValueErrorDimensions.
  Proof.
    induction ipm as [|[k ps] t IH]; intros e Hall; simpl; [discriminate|].
    destruct (check_index ordp bound k ps) as [s|e'] eqn:E.
    - destruct (check_indexes ordp bound t) as [rest|e'] eqn:E2; [discriminate|].
      intros H; inversion H; subst. apply IH; [|reflexivity].
      intros k1 ps1 Hin. apply (Hall k1 ps1). right. exact Hin.
    - intros H; inversion H; subst.
      destruct (Hall k ps (or_introl eq_refl)) as [Hne Hs].
      eapply check_index_Error; eauto.
  Qed.

  (** sizes of an accepted loop, looked up by index *)
  Lemma check_indexes_lookup : forall bound ipm sizes k ps,
    NoDup (akeys ipm) ->
    check_indexes ordp bound ipm = Ok sizes ->
    In (k, ps) ipm ->
    exists s, aget k sizes = Some s /\ check_index ordp bound k ps = Ok s.
  Proof.
    intros bound ipm sizes k ps ND H Hin.
    apply check_indexes_Ok in H. destruct H as [K F].
    assert (NDs : NoDup (akeys sizes)) by (rewrite K; exact ND).
    clear K ND. revert NDs Hin. induction F as [|[k1 ps1] [k2 s2] t1 t2 [Hk Hs] F IH]; intros NDs Hin.
    - destruct Hin.
    - simpl in *. subst k2. destruct Hin as [Hin|Hin].
      + inversion Hin; subst. exists s2. rewrite String.eqb_refl. auto.
      + inversion NDs as [|? ? Hn NDs']; subst.
        destruct (IH NDs' Hin) as [s [G C]]. exists s. split; [|exact C].
        destruct (String.eqb k k1) eqn:E; [|exact G].
        apply String.eqb_eq in E. subst. exfalso. apply Hn. eapply aget_Some_key; eauto.
  Qed.
End WithOracles.

(* ------------------------------------------------------------------------------------------ *)
(** * output dimensions *)

Lemma output_dimensions_Ok : forall sizes target d,
  output_dimensions sizes target = Ok d <->
  Forall2 (fun i s => aget i sizes = Some s) target d.
Proof.
  induction target as [|i t IH]; intros d; simpl.
  - split; [intros H; inversion H; constructor | intros H; inversion H; reflexivity].
  - destruct (aget i sizes) as [s|] eqn:E.
    + destruct (output_dimensions sizes t) as [r|e] eqn:E2.
      * split.
        -- intros H; inversion H; subst. constructor; [exact E | apply IH; reflexivity].
        -- intros H. inversion H as [|? s' ? r' Hs Hr]; subst.
           assert (Ok r = Ok r') by (apply IH; exact Hr). congruence.
      * split; [discriminate|]. intros H. inversion H as [|? s' ? r' Hs Hr]; subst.
        assert (Error e = Ok r') by (apply IH; exact Hr). discriminate.
    + split; [discriminate|]. intros H. inversion H; subst. congruence.
Qed.

Lemma output_dimensions_ext : forall sizes sizes' target,
  (forall i, In i target -> aget i sizes = aget i sizes') ->
  output_dimensions sizes target = output_dimensions sizes' target.
Proof.
  induction target as [|i t IH]; intros H; simpl; [reflexivity|].
  rewrite <- (H i (or_introl eq_refl)). rewrite IH; [reflexivity|].
  intros j Hj. apply H. right. exact Hj.
Qed.

Lemma output_dimensions_map : forall sizes (sz : string -> Z) target,
  (forall i, In i target -> aget i sizes = Some (sz i)) ->
  output_dimensions sizes target = Ok (map sz target).
Proof.
  induction target as [|i t IH]; intros H; simpl; [reflexivity|].
  rewrite (H i (or_introl eq_refl)). rewrite IH; [reflexivity|].
  intros j Hj. apply H. right. exact Hj.
Qed.
