(* TIE "concurrency": the call path regenerated from compile/_porcelain.py, _tensor_method.py, _compile_cffi.py,
   _compile_llvm.py (gen/ConcurrencyGen.v, Python syntax) and interpreted by model/ConcurrencyApi.v makes, in
   program order, exactly the steps of the hand model model/Concurrency.v (property C14).

   Part 1: generic soundness of the checkers of ConcurrencyApi.v with respect to `path` (all paths through a
           tree: every outcome of every test, every number of iterations of every loop, every library call
           returning or raising) -- induction on paths.
   Part 2: the model's own programme of one call (thread_step from PLookup, alone) is model_steps.
   Part 3: the regenerated programme: the checkers evaluate to true on it (vm_compute), hence the theorems.
   Documentation: design.d/TIE_concurrency.md. *)
From Coq Require Import List String Bool Arith PeanoNat Lia.
From TV Require Import model.Concurrency model.ConcurrencyApi gen.ConcurrencyGen proofs.ConcurrencyThm.
Import ListNotations.
Open Scope string_scope.
Open Scope list_scope.

(* ================================================================================================ Part 1 *)

Lemma all_eff_sound : forall Q t tr l, path t tr l -> all_eff Q t = true -> Forall (fun e => Q e = true) tr.
Proof.
  intros Q t tr l H. induction H; cbn; intros A.
  - constructor.
  - apply andb_true_iff in A as [A1 A2]. constructor; auto.
  - apply andb_true_iff in A as [A1 A2]. auto.
  - apply andb_true_iff in A as [A1 A2]. auto.
  - apply andb_true_iff in A as [A1 A2]. auto.
  - pose proof A as A'. apply andb_true_iff in A as [A1 A2]. apply Forall_app. split; auto.
  - apply andb_true_iff in A as [A1 A2]. auto.
Qed.

Lemma no_stuck_sound : forall t tr l, path t tr l -> no_stuck t = true -> forall s, l <> LStuck s.
Proof.
  intros t tr l H. induction H; cbn; intros A s.
  - destruct l; try discriminate; congruence.
  - auto.
  - apply andb_true_iff in A as [A1 A2]. auto.
  - apply andb_true_iff in A as [A1 A2]. auto.
  - apply andb_true_iff in A as [A1 A2]. auto.
  - auto.
  - apply andb_true_iff in A as [A1 A2]. auto.
Qed.

Lemma pc_code_inj : forall a b, pc_code a = pc_code b -> a = b.
Proof. destruct a, b; cbn; intros H; try reflexivity; discriminate. Qed.

Lemma pcs_eqb_eq : forall a b, pcs_eqb a b = true -> a = b.
Proof.
  induction a; destruct b; cbn; intros H; try reflexivity; try discriminate.
  apply andb_true_iff in H as [H1 H2]. apply Nat.eqb_eq in H1. apply pc_code_inj in H1. f_equal; auto.
Qed.

Lemma steps_app : forall a b, steps (a ++ b) = steps a ++ steps b.
Proof. intros. unfold steps. apply flat_map_app. Qed.

(* every cache look-up on the trace has outcome hit *)
Definition lookups_are (hit : bool) (tr : list eff) : Prop :=
  Forall (fun e => match e with ECacheLookup _ h => h = hit | _ => True end) tr.

Lemma summ_sound : forall hit t tr l, path t tr l -> lookups_are hit tr ->
  forall sel r, summ hit sel t = Some r -> sel l = true -> r = Some (steps tr).
Proof.
  intros hit t tr l H. induction H; intros LA sel r S SL.
  - cbn in S. rewrite SL in S. inversion S. reflexivity.
  - inversion LA; subst.
    assert (G : forall r', summ hit sel k = Some r' -> r' = Some (steps tr)) by (intros; eapply IHpath; eauto).
    change (e :: tr) with ([e] ++ tr). rewrite steps_app.
    cbn [summ] in S.
    assert (S' : match summ hit sel k with Some (Some l0) => Some (Some (steps [e] ++ l0)) | r0 => r0 end = Some r).
    { destruct e; try exact S. cbn in H2. subst hit0. rewrite Bool.eqb_reflx in S. exact S. }
    destruct (summ hit sel k) as [[l0|]|] eqn:E; try discriminate.
    + specialize (G _ eq_refl). inversion G; subst. inversion S'. reflexivity.
    + specialize (G _ eq_refl). discriminate.
  - cbn in S.
    destruct (summ hit sel a) as [ra|] eqn:Ea.
    + specialize (IHpath LA sel ra Ea SL). subst ra.
      destruct (summ hit sel b) as [[y|]|] eqn:Eb.
      * destruct (pcs_eqb (steps tr) y) eqn:Q; inversion S; reflexivity.
      * inversion S; reflexivity.
      * discriminate.
    + destruct (summ hit sel b) as [[y|]|]; discriminate.
  - cbn in S.
    destruct (summ hit sel b) as [rb|] eqn:Eb.
    + specialize (IHpath LA sel rb Eb SL). subst rb.
      destruct (summ hit sel a) as [[x|]|] eqn:Ea.
      * destruct (pcs_eqb x (steps tr)) eqn:Q; inversion S. apply pcs_eqb_eq in Q. subst. reflexivity.
      * inversion S; reflexivity.
      * discriminate.
    + destruct (summ hit sel a) as [[x|]|]; discriminate.
  - cbn in S.
    destruct (summ hit is_norm body) as [[[|? ?]|]|]; try discriminate;
      destruct (summ hit (fun l0 => sel l0 && negb (is_norm l0)) body) as [[?|]|]; try discriminate; eauto.
  - unfold lookups_are in LA. apply Forall_app in LA as [LA1 LA2].
    rewrite steps_app.
    pose proof S as S0. cbn in S.
    destruct (summ hit is_norm body) as [rn|] eqn:En; [|discriminate].
    specialize (IHpath1 LA1 is_norm rn En eq_refl). subst rn.
    destruct (steps tr1) eqn:Z; [|discriminate].
    cbn. eapply IHpath2; eauto.
  - cbn in S.
    destruct (summ hit (fun l0 => sel l0 && negb (is_norm l0)) body) as [rb|] eqn:Eb.
    + assert (SLb : (fun l0 => sel l0 && negb (is_norm l0)) l = true) by (cbn; rewrite SL, H0; reflexivity).
      specialize (IHpath LA _ rb Eb SLb). subst rb.
      destruct (summ hit is_norm body) as [[[|? ?]|]|]; discriminate.
    + destruct (summ hit is_norm body) as [[[|? ?]|]|]; discriminate.
Qed.

Lemma lock_run_app : forall a b h h', lock_run h a = Some h' -> lock_run h (a ++ b) = lock_run h' b.
Proof.
  induction a; cbn; intros b h h' H.
  - inversion H; reflexivity.
  - destruct (lock_step h a) as [h1|]; [|discriminate]. eauto.
Qed.

Lemma lockchk_sound : forall t tr l, path t tr l -> forall h0 held, lockchk h0 held t = true ->
  lock_run held tr = Some (if is_norm l then h0 else false).
Proof.
  intros t tr l H. induction H; intros h0 held C.
  - cbn in *. destruct (is_norm l).
    + apply Bool.eqb_prop in C. subst. reflexivity.
    + destruct held; [discriminate|reflexivity].
  - cbn in *. destruct (lock_step held e) as [h1|]; [|discriminate]. eauto.
  - cbn in C. apply andb_true_iff in C as [C1 C2]. eauto.
  - cbn in C. apply andb_true_iff in C as [C1 C2]. eauto.
  - cbn in C. apply andb_true_iff in C as [C1 C2]. eauto.
  - pose proof C as C0. cbn in C. apply andb_true_iff in C as [C1 C2].
    specialize (IHpath1 _ _ C1). cbn in IHpath1.
    erewrite lock_run_app by exact IHpath1. eauto.
  - cbn in C. apply andb_true_iff in C as [C1 C2].
    specialize (IHpath _ _ C1). rewrite H0 in IHpath. rewrite H0. exact IHpath.
Qed.

(* ================================================================================================ Part 2 *)

(* the program counters thread 0 goes through when it makes call c alone, from a cache that has / has not the key *)
Definition alone_state (c : call) (hit : bool) : state :=
  init [[c]] (if hit then [(c_key c, compile (c_key c))] else []).

Definition alone_pcs (denote : key -> nat -> nat) (c : call) (hit : bool) (n : nat) : list pc :=
  map (fun j => t_pc (threads (run_from denote (alone_state c hit) (repeat (AThread 0) j)) 0)) (seq 0 n).

Lemma model_steps_is_model : forall denote c hit,
  let b := k_backend (c_key c) in
  let n := List.length (model_steps b hit) in
  alone_pcs denote c hit n = model_steps b hit /\
  results (run_from denote (alone_state c hit) (repeat (AThread 0) n)) 0 = [denote (c_key c) (c_input c)] /\
  t_calls (threads (run_from denote (alone_state c hit) (repeat (AThread 0) n)) 0) = [].
Proof.
  intros denote [[p b] x] hit.
  destruct hit.
  - destruct b; cbn; unfold key_eqb; cbn; rewrite ?Nat.eqb_refl; cbn; repeat split; reflexivity.
  - destruct b; vm_compute; repeat split; reflexivity.
Qed.

(* ================================================================================================ Part 3 *)

Definition entry_trees : list (backend * tree) :=
  [ (Cffi, entry_evaluate prog "evaluate_cffi");
    (Llvm, entry_evaluate prog "evaluate_tensora");
    (Llvm, entry_evaluate prog "evaluate");
    (Cffi, entry_tensor_method prog Cffi);
    (Llvm, entry_tensor_method prog Llvm) ].

Definition entry_ok (bt : backend * tree) : bool :=
  let (b, t) := bt in
  no_stuck t &&
  all_eff (fun e => negb (offending e)) t &&
  lockchk false false t &&
  match summ true is_val t with Some (Some l) => pcs_eqb l (model_steps b true) | _ => false end &&
  match summ false is_val t with Some (Some l) => pcs_eqb l (model_steps b false) | _ => false end.

(* diagnostics first: when the source changes, these two fail with the offending effects / the construct the
   interpreter refused in the error message *)
Fixpoint effs (t : tree) : list eff :=
  match t with Leaf _ => [] | Eff e k => e :: effs k | Choice a b => effs a ++ effs b | Loop a b => effs a ++ effs b end.
Fixpoint stucks (t : tree) : list string :=
  match t with
  | Leaf (LStuck s) => [s] | Leaf _ => [] | Eff _ k => stucks k
  | Choice a b => stucks a ++ stucks b | Loop a b => stucks a ++ stucks b
  end.

Lemma entries_diagnostic_stuck : flat_map (fun bt => stucks (snd bt)) entry_trees = [].
Proof. vm_compute. reflexivity. Qed.

Lemma entries_diagnostic_offending : flat_map (fun bt => filter offending (effs (snd bt))) entry_trees = [].
Proof. vm_compute. reflexivity. Qed.

Lemma method_call_diagnostic :
  flat_map (fun b => filter (fun e => negb (call_effect_ok e)) (effs (method_call prog b))) [Llvm; Cffi] = [].
Proof. vm_compute. reflexivity. Qed.

Lemma entries_ok : forallb entry_ok entry_trees = true.
Proof. vm_compute. reflexivity. Qed.

Lemma entry_ok_of : forall b t, In (b, t) entry_trees ->
  no_stuck t = true /\ all_eff (fun e => negb (offending e)) t = true /\ lockchk false false t = true /\
  match summ true is_val t with Some (Some l) => pcs_eqb l (model_steps b true) | _ => false end = true /\
  match summ false is_val t with Some (Some l) => pcs_eqb l (model_steps b false) | _ => false end = true.
Proof.
  intros b t H. pose proof entries_ok as E. rewrite forallb_forall in E. specialize (E _ H).
  unfold entry_ok in E. repeat (apply andb_true_iff in E as [E ?]). auto.
Qed.

(* (1) every successful run of every entry point, whatever the tests decide, however often the loops run and
       whichever library calls raise on other paths: the operations on shared state, in program order, are the
       model's steps of one call for this back end and this cache outcome; nothing else touches shared state
       (every other effect is silent: the object under construction, reads of the published object, reads of
       tensor_cdefs / target, dlopen of the private library). *)
Theorem gen_call_steps : forall b t, In (b, t) entry_trees ->
  forall hit tr v h, path t tr (LVal v h) -> lookups_are hit tr ->
  steps tr = model_steps b hit /\ Forall (fun e => offending e = false) tr.
Proof.
  intros b t I hit tr v h PA LA. destruct (entry_ok_of _ _ I) as (E1 & E2 & E3 & E4 & E5).
  split.
  - destruct hit.
    + destruct (summ true is_val t) as [[l|]|] eqn:S; try discriminate.
      pose proof (summ_sound _ _ _ _ PA LA is_val _ S eq_refl) as G. inversion G; subst.
      apply pcs_eqb_eq. exact E4.
    + destruct (summ false is_val t) as [[l|]|] eqn:S; try discriminate.
      pose proof (summ_sound _ _ _ _ PA LA is_val _ S eq_refl) as G. inversion G; subst.
      apply pcs_eqb_eq. exact E5.
  - pose proof (all_eff_sound _ _ _ _ PA E2) as F. eapply Forall_impl; [|exact F].
    cbn. intros e Q. destruct (offending e); [discriminate|reflexivity].
Qed.

(* ... on EVERY path (exceptions included) no effect is offending, *)
Theorem gen_no_offending_effect : forall b t, In (b, t) entry_trees ->
  forall tr l, path t tr l -> Forall (fun e => offending e = false) tr.
Proof.
  intros b t I tr l PA. destruct (entry_ok_of _ _ I) as (E1 & E2 & E3 & E4 & E5).
  pose proof (all_eff_sound _ _ _ _ PA E2) as F. eapply Forall_impl; [|exact F].
  cbn. intros e Q. destruct (offending e); [discriminate|reflexivity].
Qed.

(* ... the interpreter understood every construct on every path, *)
Theorem gen_no_stuck : forall b t, In (b, t) entry_trees -> forall tr l s, path t tr l -> l <> LStuck s.
Proof.
  intros b t I tr l s PA. destruct (entry_ok_of _ _ I) as (E1 & E2 & E3 & E4 & E5).
  exact (no_stuck_sound _ _ _ PA E1 s).
Qed.

(* ... and the lock discipline holds on every path, exceptions included: the lock is acquired only when free,
   released only when held, free at the end; FFI.compile runs only while it is held; look-up, insert, LLVM
   compile, allocation, kernel, ownership, return only while it is not. *)
Theorem gen_lock_discipline : forall b t, In (b, t) entry_trees ->
  forall tr l, path t tr l -> lock_run false tr = Some false.
Proof.
  intros b t I tr l PA. destruct (entry_ok_of _ _ I) as (E1 & E2 & E3 & E4 & E5).
  pose proof (lockchk_sound _ _ _ PA _ _ E3) as G.
  destruct (is_norm l); exact G.
Qed.

(* the model's steps ARE what model/Concurrency.v's thread_step does from PLookup *)
Theorem gen_call_steps_model : forall b t, In (b, t) entry_trees ->
  forall denote c hit tr v h, k_backend (c_key c) = b -> path t tr (LVal v h) -> lookups_are hit tr ->
  steps tr = alone_pcs denote c hit (List.length (steps tr)).
Proof.
  intros b t I denote c hit tr v h KB PA LA.
  destruct (gen_call_steps _ _ I _ _ _ _ PA LA) as [G _]. rewrite G. subst b.
  symmetry. apply model_steps_is_model.
Qed.

(* (2) STATIC: one call of a published method object (TensorMethod.__call__ on the cached object, any back end):
       on every path, every effect is a read of the published object, a read of a library global, the
       allocation of this call's structure, the kernel, take_ownership_of_arrays on this call's structure.
       In particular: no ESharedWrite (store to / mutation of anything reached from self), no EGlobalWrite,
       no EArgWrite, no EOwnOther, no operation on a value of unknown origin. *)
Lemma method_calls_ok :
  forallb (fun b => no_stuck (method_call prog b) && all_eff call_effect_ok (method_call prog b)) [Llvm; Cffi] = true.
Proof. vm_compute. reflexivity. Qed.

Theorem gen_call_no_shared_write : forall b tr l, path (method_call prog b) tr l ->
  Forall (fun e => call_effect_ok e = true) tr /\ forall s, l <> LStuck s.
Proof.
  intros b tr l PA. pose proof method_calls_ok as E. cbn [forallb] in E.
  apply andb_true_iff in E as [E1 E2]. apply andb_true_iff in E2 as [E2 _].
  apply andb_true_iff in E1 as [A1 B1]. apply andb_true_iff in E2 as [A2 B2].
  destruct b.
  - split; [exact (all_eff_sound _ _ _ _ PA B1) | exact (no_stuck_sound _ _ _ PA A1)].
  - split; [exact (all_eff_sound _ _ _ _ PA B2) | exact (no_stuck_sound _ _ _ PA A2)].
Qed.

Corollary gen_call_writes_nothing_shared : forall b tr l, path (method_call prog b) tr l ->
  forall e, In e tr ->
  (forall p, e <> ESharedWrite p) /\ (forall g, e <> EGlobalWrite g) /\ e <> EArgWrite /\ e <> EOwnOther /\
  (forall a, e <> ENewWrite a) /\ (forall s, e <> EUnknown s).
Proof.
  intros b tr l PA e I. destruct (gen_call_no_shared_write _ _ _ PA) as [F _].
  rewrite Forall_forall in F. specialize (F _ I).
  repeat split; intros; intro; subst e; cbn in F; discriminate F.
Qed.

(* all writes to the method object happen while it is under construction, i.e. before it is inserted *)
Fixpoint writes_before_insert (seen_insert : bool) (tr : list eff) : bool :=
  match tr with
  | [] => true
  | ECacheInsert _ :: r => writes_before_insert true r
  | ENewWrite _ :: r => negb seen_insert && writes_before_insert seen_insert r
  | _ :: r => writes_before_insert seen_insert r
  end.

(* (3) the cache IS functools.lru_cache applied to `TensorMethod(problem, backend=backend)`: its key is the pair
       of arguments (problem, backend); maxsize is the default (128: eviction is the model's AEvict). *)
Theorem gen_cache_is_lru_cache :
  find_fun prog "_porcelain" "cachable_tensor_method" =
    Some {| f_decorators := [EName "lru_cache"];
            f_params := [("problem", None); ("backend", None)];
            f_vararg := ""; f_kwarg := "";
            f_body := [SReturn (ECall (EName "TensorMethod") [("", EName "problem"); ("=backend", EName "backend")])] |} /\
  resolve prog 8 "_porcelain" "lru_cache" = mono (PExt "functools.lru_cache") /\
  resolve prog 8 "_porcelain" "TensorMethod" = mono (PClassV "_tensor_method" "TensorMethod") /\
  resolve prog 8 "_compile_cffi" "lock" = mono (PLock "_compile_cffi" "lock").
Proof. vm_compute. repeat split; reflexivity. Qed.

(* the only module-level objects of the four modules that are not functions, classes, imports or literals:
   the lock.  (A hand-rolled cache dictionary would appear here.) *)
Definition module_objects (m : pymodule) : list string :=
  flat_map (fun xe => match snd xe with EConst _ => [] | _ => [fst xe] end) (m_assigns m).

Theorem gen_module_objects :
  map (fun m => (m_name m, module_objects m)) prog =
  [ ("_porcelain", []); ("_tensor_method", []); ("_compile_cffi", ["lock"]); ("_compile_llvm", []);
    ("_cffi_ownership", ["global_weakkeydict"; "tensor_cdefs"]); ("_initialize_llvm", ["target"]) ].
Proof. vm_compute. reflexivity. Qed.

(* (4) C14_interleaving_equals_sequential with its modelling assumptions made explicit on the regenerated
       programme.  What the theorem of props/C14.v assumes is that one call IS the sequence of atomic steps
       model_steps; here: (a) it is that sequence, for every entry point, back end and cache outcome
       (gen_call_steps + model_steps_is_model), (b) nothing else touches shared state (no offending effect),
       (c) the lock is held exactly around FFI.compile, (d) a call of a published method writes nothing shared.
       What remains ASSUMED (not in the source): each of the ten steps is atomic -- the GIL, the C
       implementation of lru_cache (look-up and insert-unless-present each atomic; maxsize 128 = AEvict),
       threading.Lock, WeakKeyDictionary's item assignment / look-up, llvmlite's own lock, dlopen; a
       compiled kernel reads its inputs and writes only its own output structure; compilation is a function of
       (problem, back end). *)
Theorem gen_interleaving_equals_sequential :
  (forall b t, In (b, t) entry_trees ->
     forall denote c hit tr v h, k_backend (c_key c) = b -> path t tr (LVal v h) -> lookups_are hit tr ->
       steps tr = alone_pcs denote c hit (List.length (steps tr)) /\
       Forall (fun e => offending e = false) tr /\
       lock_run false tr = Some false) /\
  (forall b tr l, path (method_call prog b) tr l -> Forall (fun e => call_effect_ok e = true) tr) /\
  (forall (denote : key -> nat -> nat) (progs : list (list call)) (sched : list action),
     complete (run denote progs sched) = true ->
     forall i, i < List.length progs ->
     results (run denote progs sched) i = map (fun c => denote (c_key c) (c_input c)) (nth i progs [])).
Proof.
  split; [|split].
  - intros b t I denote c hit tr v h KB PA LA. split; [|split].
    + exact (gen_call_steps_model _ _ I denote c hit tr v h KB PA LA).
    + exact (proj2 (gen_call_steps _ _ I hit tr v h PA LA)).
    + exact (gen_lock_discipline _ _ I tr _ PA).
  - intros b tr l PA. exact (proj1 (gen_call_no_shared_write _ _ _ PA)).
  - intros denote progs sched C i L.
    rewrite (interleaving_equals_sequential denote progs sched C i L).
    apply sequential_result_spec; assumption.
Qed.

(* the trees are not vacuous: each entry point has a successful path for either cache outcome *)
Fixpoint witness (hit : bool) (t : tree) : option (list eff) :=
  match t with
  | Leaf (LVal _ _) => Some []
  | Leaf _ => None
  | Eff (ECacheLookup f h) k => if Bool.eqb h hit then option_map (cons (ECacheLookup f h)) (witness hit k) else None
  | Eff e k => option_map (cons e) (witness hit k)
  | Choice a b => match witness hit a with Some tr => Some tr | None => witness hit b end
  | Loop _ k => witness hit k
  end.

Lemma witness_path : forall hit t tr, witness hit t = Some tr ->
  exists v h, path t tr (LVal v h) /\ lookups_are hit tr.
Proof.
  induction t; intros tr W; cbn in W.
  - destruct l; try discriminate. inversion W. do 2 eexists. split; constructor.
  - assert (G : forall tr', witness hit t = Some tr' -> (match e with ECacheLookup _ h0 => h0 = hit | _ => True end) ->
                exists v h, path (Eff e t) (e :: tr') (LVal v h) /\ lookups_are hit (e :: tr')).
    { intros tr' W' Q. destruct (IHt _ W') as (v & h & PA & LA). exists v, h. split; constructor; auto. }
    destruct e; try (destruct (witness hit t) eqn:E; [|discriminate]; inversion W; subst; apply G; auto; fail).
    destruct (Bool.eqb hit0 hit) eqn:Q; [|discriminate]. apply Bool.eqb_prop in Q.
    destruct (witness hit t) eqn:E; [|discriminate]. inversion W; subst. apply G; auto.
  - destruct (witness hit t1) eqn:E.
    + inversion W; subst. destruct (IHt1 _ eq_refl) as (v & h & PA & LA). exists v, h. split; auto. apply P_left; auto.
    + destruct (IHt2 _ W) as (v & h & PA & LA). exists v, h. split; auto. apply P_right; auto.
  - destruct (IHt2 _ W) as (v & h & PA & LA). exists v, h. split; auto. apply P_loop_exit; auto.
Qed.

Definition witness_ok (bt : backend * tree) (hit : bool) : bool :=
  match witness hit (snd bt) with Some tr => writes_before_insert false tr | None => false end.

Lemma witnesses_ok : forallb (fun bt => witness_ok bt true && witness_ok bt false) entry_trees = true.
Proof. vm_compute. reflexivity. Qed.

Theorem gen_entry_points_run : forall b t, In (b, t) entry_trees -> forall hit,
  exists tr v h, path t tr (LVal v h) /\ lookups_are hit tr /\ writes_before_insert false tr = true.
Proof.
  intros b t I hit. pose proof witnesses_ok as E. rewrite forallb_forall in E. specialize (E _ I).
  apply andb_true_iff in E as [Et Ef].
  assert (G : witness_ok (b, t) hit = true) by (destruct hit; assumption).
  clear Et Ef. unfold witness_ok in G. cbn [snd] in G.
  destruct (witness hit t) as [tr|] eqn:W; [|discriminate G].
  destruct (witness_path _ _ _ W) as (v & h & PA & LA). exists tr, v, h.
  split; [exact PA | split; [exact LA | exact G]].
Qed.
